(* Proofs about the sync-finished notification model (model/C14_Events.v):
   invariants over all schedules of the delivery core, then of the sync layer. *)
From Coq Require Import List NArith Bool Arith Lia Permutation.
From Lib Require Import SyncSkel LTS.
From Model Require Import C14_Events.
Import ListNotations.

Local Close Scope string_scope.
Local Open Scope list_scope.
Local Open Scope nat_scope.

(* ================================================================== *)
(* Lists                                                               *)

Lemma memn_In x l : memn x l = true <-> In x l.
Proof.
  induction l as [|y r IH]; cbn; [split; [discriminate|tauto]|].
  rewrite orb_true_iff, IH, Nat.eqb_eq. split; intros [H|H]; auto.
Qed.
Lemma memn_false x l : memn x l = false <-> ~ In x l.
Proof. rewrite <- memn_In. destruct (memn x l); split; congruence. Qed.

Lemma last_removelast_perm (r : list nat) d : r <> [] -> Permutation r (last r d :: removelast r).
Proof.
  intro H. rewrite (app_removelast_last d H) at 1.
  apply Permutation_sym, Permutation_cons_append.
Qed.

Lemma swap_remove_perm x l : In x l -> Permutation l (x :: swap_remove x l).
Proof.
  induction l as [|y r IH]; [intros []|]. intro H. cbn [swap_remove].
  destruct (Nat.eqb_spec x y) as [->|Hne].
  - destruct r as [|z r']; [reflexivity|].
    apply perm_skip. apply last_removelast_perm. discriminate.
  - destruct H as [->|H]; [congruence|].
    eapply perm_trans; [apply perm_skip, IH, H|apply perm_swap].
Qed.

Lemma swap_remove_absent x l : ~ In x l -> swap_remove x l = l.
Proof.
  induction l as [|y r IH]; [reflexivity|]. intro H. cbn.
  destruct (Nat.eqb_spec x y) as [->|Hne]; [exfalso; apply H; left; reflexivity|].
  rewrite IH; [reflexivity|]. intro; apply H; right; assumption.
Qed.

Lemma swap_remove_NoDup x l : NoDup l -> NoDup (swap_remove x l).
Proof.
  intro H. destruct (in_dec Nat.eq_dec x l) as [Hi|Hn].
  - pose proof (Permutation_NoDup (swap_remove_perm x l Hi) H) as H1. inversion H1; assumption.
  - rewrite swap_remove_absent; assumption.
Qed.

Lemma swap_remove_In x l y : NoDup l -> (In y (swap_remove x l) <-> In y l /\ y <> x).
Proof.
  intro H. destruct (in_dec Nat.eq_dec x l) as [Hi|Hn].
  - pose proof (swap_remove_perm x l Hi) as P.
    pose proof (Permutation_NoDup P H) as H1. inversion H1 as [|? ? Hx Hnd]; subst.
    split.
    + intro Hy. split.
      * eapply Permutation_in; [apply Permutation_sym, P|right; exact Hy].
      * intros ->. contradiction.
    + intros [Hy Hne]. pose proof (Permutation_in _ P Hy) as [->|Hy']; [congruence|exact Hy'].
  - rewrite swap_remove_absent by assumption. split; [|tauto].
    intro Hy; split; [assumption|]. intros ->. contradiction.
Qed.

(* ================================================================== *)
(* Slices of the forward order                                         *)

Lemma seg_app_closed x f e n : l_end x = Some n -> n <= List.length f -> seg x (f ++ [e]) = seg x f.
Proof.
  intros E Hn. unfold seg. rewrite E. rewrite firstn_app.
  replace (n - List.length f) with 0 by lia. cbn. rewrite app_nil_r. reflexivity.
Qed.

Lemma seg_app_open x f e : l_end x = None -> l_start x <= List.length f -> seg x (f ++ [e]) = seg x f ++ [e].
Proof.
  intros E Hn. unfold seg. rewrite E. rewrite !firstn_all. rewrite skipn_app.
  replace (l_start x - List.length f) with 0 by lia. reflexivity.
Qed.

Lemma seg_close_now x f : l_end x = None -> seg (l_close x (List.length f)) f = seg x f.
Proof. intros E. unfold seg. rewrite E. reflexivity. Qed.

Lemma seg_register x f : l_end x = None -> seg (l_register x (List.length f)) f = [].
Proof. intros E. unfold seg. cbn. rewrite E, firstn_all. apply skipn_all. Qed.

(* ================================================================== *)
(* Core invariant                                                      *)

Definition active (s : core) : list nat :=
  match d_pc s with DClosing rest => rest | _ => d_list s end.

Definition linv (s : core) (l : nat) (x : listener) : Prop :=
  (l_reg x = false -> l_got x = [] /\ l_q x = []) /\
  (l_reg x = true -> l_got x ++ l_q x ++ pending s l = seg x (fwd s)) /\
  l_start x <= List.length (fwd s) /\
  (forall n, l_end x = Some n -> n <= List.length (fwd s) /\ l_in_closed x = true /\ (l_reg x = true -> l_start x <= n)) /\
  (l_in_closed x = true -> l_end x <> None) /\
  (l_out_closed x = true -> l_in_closed x = true /\ l_q x = []).

Definition dinv (s : core) : Prop :=
  match d_pc s with
  | DFwd e rest => (exists pre, d_list s = pre ++ rest) /\ (exists f', fwd s = f' ++ [e])
  | DClosing _ | DDone => d_list s = [] /\ in_closed s = true /\ in_ev s = None
  | _ => True
  end.

Definition CInv (s : core) : Prop :=
  NoDup (active s) /\
  (forall l, In l (active s) -> exists x, lst s l = Some x /\ l_reg x = true /\ l_in_closed x = false /\ l_end x = None) /\
  (forall l x, lst s l = Some x -> l_reg x = true -> l_end x = None -> In l (active s)) /\
  (forall l x, lst s l = Some x -> linv s l x) /\
  (forall l, next_lid s <= l -> lst s l = None) /\
  dinv s /\
  p_dist s = false.

Lemma updl_same f l x : updl f l x l = Some x.
Proof. unfold updl. rewrite Nat.eqb_refl. reflexivity. Qed.
Lemma updl_other f l x y : y <> l -> updl f l x y = f y.
Proof. intro H. unfold updl. destruct (Nat.eqb_spec y l); [contradiction|reflexivity]. Qed.
Lemma updl_cases f l x y z : updl f l x y = Some z -> (y = l /\ z = x) \/ (y <> l /\ f y = Some z).
Proof.
  unfold updl. destruct (Nat.eqb_spec y l); intro H; [left; split; congruence|right; split; assumption].
Qed.

Lemma cinv_init : CInv cinit.
Proof.
  unfold CInv, cinit, active, dinv; cbn. repeat split; try constructor; try discriminate; tauto.
Qed.

Ltac csimp :=
  cbn [in_ev in_closed closing d_pc d_list lst next_lid fwd p_dist p_env
       set_lst set_dpc set_dlist set_in set_in_closed set_closing set_p_env set_p_dist take_event new_listener_state
       l_reg l_start l_end l_q l_got l_in_closed l_out_closed l_push l_close l_register l_take l_see_closed] in *.

(* linv does not depend on anything but lst-entry, fwd and the pending event *)
Lemma linv_frame s s' l x :
  fwd s' = fwd s -> pending s' l = pending s l -> linv s l x -> linv s' l x.
Proof. unfold linv. intros -> ->. tauto. Qed.

Lemma pending_not_fwd s l : (forall e r, d_pc s <> DFwd e r) -> pending s l = [].
Proof. unfold pending. destruct (d_pc s); try reflexivity. intro H. exfalso. eapply H. reflexivity. Qed.

Lemma NoDup_suffix {A} (pre rest : list A) : NoDup (pre ++ rest) -> NoDup rest.
Proof. induction pre; cbn; [auto|]. intro H. inversion H; auto. Qed.

Ltac split7 := unfold CInv, active, dinv; split; [|split; [|split; [|split; [|split; [|split]]]]].
Ltac split6 := split; [|split; [|split; [|split; [|split]]]].

(* goal: forall l x, lst s' l = Some x -> linv s' l x   where nothing linv depends on changed *)
Ltac frame4 A4 :=
  let l := fresh "l" in let x := fresh "x" in let Hl := fresh "Hl" in
  intros l x Hl; eapply linv_frame; [reflexivity| |apply A4; exact Hl];
  unfold pending; csimp; try reflexivity.

Ltac fresh5 A5 Hx :=
  let l := fresh "l" in let Hl := fresh "Hl" in
  intros l Hl; rewrite updl_other; [apply A5; exact Hl|];
  intros ->; rewrite A5 in Hx by assumption; discriminate.

Lemma cinv_step s lb s' : CInv s -> cstep s lb = Some s' -> CInv s'.
Proof.
  intros (ND & A2 & A3 & A4 & A5 & A6 & A7) H.
  destruct lb as [e| | | |l|l|l|l|]; cbn [cstep] in H.
  - (* LSend *)
    destruct (in_closed s) eqn:Hc.
    + inversion H; subst; clear H. unfold active, dinv in *.
      split7; csimp; auto.
    + destruct (in_ev s) eqn:Hi; [discriminate|]. inversion H; subst; clear H.
      unfold active, dinv in *.
      split7; csimp; auto.
      destruct (d_pc s); auto; destruct A6 as (? & ? & ?); congruence.
  - (* LCloseIn *)
    destruct (in_closed s) eqn:Hc; inversion H; subst; clear H; unfold active, dinv in *;
      split7; csimp; auto; destruct (d_pc s); auto; tauto.
  - (* LClosing *)
    destruct (closing s) eqn:Hc; inversion H; subst; clear H; unfold active, dinv in *;
      split7; csimp; auto.
  - (* LNew *)
    inversion H; subst; clear H. unfold active, dinv in *.
    split7; csimp; auto.
    + intros l Hl. destruct (A2 l Hl) as (x & Hx & R).
      exists x. split; [|exact R]. rewrite updl_other; [exact Hx|].
      intros ->. rewrite A5 in Hx by lia. discriminate.
    + intros l x Hl. apply updl_cases in Hl. destruct Hl as [[-> ->]|[Hne Hl]]; csimp; [discriminate|].
      eapply A3; eassumption.
    + intros l x Hl. apply updl_cases in Hl. destruct Hl as [[-> ->]|[Hne Hl]].
      * unfold linv; split6; csimp; try discriminate; try lia; auto.
      * eapply linv_frame; [| |apply A4; eassumption]; reflexivity.
    + intros l Hl. rewrite updl_other by lia. apply A5. lia.
  - (* LAdd *)
    destruct (d_pc s) eqn:Hpc; try discriminate.
    destruct (lst s l) as [x|] eqn:Hx; [|discriminate].
    destruct (l_reg x) eqn:Hr; [discriminate|]. destruct (l_in_closed x) eqn:Hic; [discriminate|].
    cbn in H. inversion H; subst; clear H.
    pose proof (A4 _ _ Hx) as (L1 & L2 & L3 & L4 & L5 & L6).
    assert (Hend : l_end x = None).
    { destruct (l_end x) eqn:E; [|reflexivity]. destruct (L4 _ eq_refl) as (_ & ? & _). congruence. }
    assert (Hnl : ~ In l (d_list s)).
    { intro Hi. unfold active in A2. rewrite Hpc in A2. destruct (A2 _ Hi) as (x' & Hx' & R & _). congruence. }
    unfold active, dinv in *; rewrite Hpc in *.
    split7; csimp; auto.
    + apply Permutation_NoDup with (l := l :: d_list s); [apply Permutation_cons_append|].
      constructor; assumption.
    + intros l0 Hl. apply in_app_or in Hl. destruct Hl as [Hl|[<-|[]]].
      * destruct (A2 _ Hl) as (x' & Hx' & R). exists x'. split; [|exact R].
        rewrite updl_other; [exact Hx'|]. intros ->. contradiction.
      * eexists. rewrite updl_same. split; [reflexivity|]. csimp. auto.
    + intros l0 x0 Hl. apply updl_cases in Hl. destruct Hl as [[-> ->]|[Hne Hl]]; csimp; intros.
      * apply in_or_app. right. left. reflexivity.
      * apply in_or_app. left. eapply A3; eassumption.
    + intros l0 x0 Hl. apply updl_cases in Hl. destruct Hl as [[-> ->]|[Hne Hl]].
      * destruct (L1 Hr) as [Eg Eq].
        unfold linv; split6; csimp; try discriminate; try lia; auto.
        -- intros _. rewrite Eg, Eq. unfold pending; csimp. cbn. symmetry. apply seg_register. exact Hend.
        -- intros n Hn. congruence.
      * pose proof (A4 _ _ Hl) as Hli. unfold linv, pending in *. rewrite Hpc in Hli. csimp. exact Hli.
    + fresh5 A5 Hx.
  - (* LAddClosed *)
    destruct (lst s l) as [x|] eqn:Hx; [|discriminate].
    destruct (l_reg x) eqn:Hr; [discriminate|]. destruct (l_in_closed x) eqn:Hic; [discriminate|].
    destruct (closing s) eqn:Hcl; [|discriminate]. cbn in H. inversion H; subst; clear H.
    pose proof (A4 _ _ Hx) as (L1 & L2 & L3 & L4 & L5 & L6).
    assert (Hnl : ~ In l (active s)).
    { intro Hi. destruct (A2 _ Hi) as (x' & Hx' & R & _). congruence. }
    unfold active, dinv in *.
    split7; csimp; auto.
    + intros l0 Hl. destruct (A2 _ Hl) as (x' & Hx' & R). exists x'. split; [|exact R].
      rewrite updl_other; [exact Hx'|]. intros ->. contradiction.
    + intros l0 x0 Hl. apply updl_cases in Hl. destruct Hl as [[-> ->]|[Hne Hl]]; csimp; intros; [discriminate|].
      eapply A3; eassumption.
    + intros l0 x0 Hl. apply updl_cases in Hl. destruct Hl as [[-> ->]|[Hne Hl]].
      * destruct (L1 Hr) as [Eg Eq].
        unfold linv; split6; csimp; try discriminate; try lia; auto; try congruence.
        -- intros n [= <-]. repeat split; [lia|congruence].
      * eapply linv_frame; [| |apply A4; eassumption]; reflexivity.
    + fresh5 A5 Hx.
  - (* LRm *)
    destruct (d_pc s) eqn:Hpc; try discriminate.
    destruct (memn l (d_list s)) eqn:Hm.
    + apply memn_In in Hm.
      destruct (lst s l) as [x|] eqn:Hx; [|discriminate].
      unfold active in A2, A3, ND. rewrite Hpc in A2, A3, ND.
      destruct (A2 _ Hm) as (x' & Hx' & Rr & Ric & Rend). rewrite Hx in Hx'. inversion Hx'; subst x'; clear Hx'.
      rewrite Ric in H. inversion H; subst; clear H.
      unfold active, dinv.
      split7; csimp; auto.
      * apply swap_remove_NoDup; assumption.
      * intros l0 Hl. apply swap_remove_In in Hl; [|assumption]. destruct Hl as [Hl Hne].
        destruct (A2 _ Hl) as (x' & Hx' & R). exists x'. split; [|exact R]. rewrite updl_other; assumption.
      * intros l0 x0 Hl. apply updl_cases in Hl. destruct Hl as [[-> ->]|[Hne Hl]]; csimp; intros; [discriminate|].
        apply swap_remove_In; [assumption|]. split; [eapply A3; eassumption|assumption].
      * intros l0 x0 Hl. apply updl_cases in Hl. destruct Hl as [[-> ->]|[Hne Hl]].
        -- pose proof (A4 _ _ Hx) as (L1 & L2 & L3 & L4 & L5 & L6).
           unfold pending in L2; rewrite Hpc in L2.
           unfold linv; split6; csimp; try congruence; try lia; auto.
           ++ intros _. unfold pending; csimp. rewrite (L2 Rr). symmetry. apply seg_close_now. exact Rend.
           ++ intros n [= <-]. repeat split; [lia|intros _; exact L3].
           ++ intro Ho. destruct (L6 Ho). split; auto.
        -- pose proof (A4 _ _ Hl) as Hli. unfold linv, pending in *. rewrite Hpc in Hli. csimp. exact Hli.
      * fresh5 A5 Hx.
    + inversion H; subst; clear H. unfold active, dinv in *; rewrite Hpc in *.
      split7; csimp; auto.
      intros l0 x0 Hl. pose proof (A4 _ _ Hl) as Hli. unfold linv, pending in *. rewrite Hpc in Hli. csimp. exact Hli.
  - (* LRead *)
    destruct (lst s l) as [x|] eqn:Hx; [|discriminate].
    pose proof (A4 _ _ Hx) as (L1 & L2 & L3 & L4 & L5 & L6).
    destruct (l_q x) as [|e r] eqn:Hq.
    + destruct (l_in_closed x) eqn:Hic; [|discriminate]. destruct (l_out_closed x) eqn:Hoc; [discriminate|].
      cbn in H. inversion H; subst; clear H.
      unfold active, dinv in *.
      split7; csimp; auto.
      * intros l0 Hl. destruct (A2 _ Hl) as (x' & Hx' & R). destruct (Nat.eq_dec l0 l) as [->|Hne].
        -- rewrite Hx in Hx'. inversion Hx'; subst. destruct R as (_ & ? & _). congruence.
        -- exists x'. split; [|exact R]. rewrite updl_other; assumption.
      * intros l0 x0 Hl. apply updl_cases in Hl. destruct Hl as [[-> ->]|[Hne Hl]]; csimp; intros; eapply A3; eassumption.
      * intros l0 x0 Hl. apply updl_cases in Hl. destruct Hl as [[-> ->]|[Hne Hl]].
        -- unfold linv, pending, seg in *; split6; csimp; rewrite ?Hq, ?Hic, ?Hoc; auto.
        -- eapply linv_frame; [| |apply A4; eassumption]; reflexivity.
      * fresh5 A5 Hx.
    + inversion H; subst; clear H.
      unfold active, dinv in *.
      split7; csimp; auto.
      * intros l0 Hl. destruct (A2 _ Hl) as (x' & Hx' & R). destruct (Nat.eq_dec l0 l) as [->|Hne].
        -- rewrite Hx in Hx'. inversion Hx'; subst. eexists. rewrite updl_same. split; [reflexivity|]. csimp. exact R.
        -- exists x'. split; [|exact R]. rewrite updl_other; assumption.
      * intros l0 x0 Hl. apply updl_cases in Hl. destruct Hl as [[-> ->]|[Hne Hl]]; csimp; intros; eapply A3; eassumption.
      * intros l0 x0 Hl. apply updl_cases in Hl. destruct Hl as [[-> ->]|[Hne Hl]].
        -- unfold linv, pending, seg in *; split6; csimp; auto.
           ++ intro Hr. destruct (L1 Hr) as [_ ?]. congruence.
           ++ intro Hr. rewrite <- app_assoc. cbn [app]. exact (L2 Hr).
           ++ intro Ho. destruct (L6 Ho) as [_ ?]. congruence.
        -- eapply linv_frame; [| |apply A4; eassumption]; reflexivity.
      * fresh5 A5 Hx.
  - (* LDist *)
    destruct (d_pc s) as [|e rest| | |rest|] eqn:Hpc.
    + (* DSelect *)
      destruct (in_ev s) as [e|] eqn:Hi.
      * inversion H; subst; clear H.
        unfold active in ND, A2, A3. rewrite Hpc in ND, A2, A3.
        unfold active, dinv.
        split7; csimp; auto.
        -- intros l x Hl. pose proof (A4 _ _ Hl) as (L1 & L2 & L3 & L4 & L5 & L6).
           unfold linv; split6; csimp; rewrite ?app_length; cbn [List.length]; auto; try lia.
           ++ intro Hr. unfold pending in *. rewrite Hpc in L2. csimp.
              destruct (l_end x) as [n|] eqn:E.
              ** destruct (L4 _ eq_refl) as (Hn & Hc & _).
                 assert (Hnl : memn l (d_list s) = false).
                 { apply memn_false. intro Hin. destruct (A2 _ Hin) as (x' & Hx' & _ & _ & E').
                   rewrite Hl in Hx'. inversion Hx'; subst. congruence. }
                 rewrite Hnl. rewrite (seg_app_closed _ _ _ _ E Hn). apply L2; assumption.
              ** assert (Hnl : memn l (d_list s) = true). { apply memn_In. eapply A3; eassumption. }
                 rewrite Hnl. rewrite (seg_app_open _ _ _ E L3). rewrite <- (L2 Hr).
                 rewrite app_nil_r. rewrite <- !app_assoc. reflexivity.
           ++ intros n Hn. destruct (L4 _ Hn) as (? & ? & ?). repeat split; auto. lia.
        -- split; [exists []; reflexivity|eexists; reflexivity].
      * destruct (in_closed s) eqn:Hc; [|discriminate]. inversion H; subst; clear H.
        unfold active in ND, A2, A3. rewrite Hpc in ND, A2, A3.
        unfold active, dinv.
        split7; csimp; auto.
        intros l x Hl. pose proof (A4 _ _ Hl) as Hli. unfold linv, pending in *. rewrite Hpc in Hli. csimp. exact Hli.
    + (* DFwd *)
      unfold dinv in A6. rewrite Hpc in A6. destruct A6 as ((pre & Hpre) & (f' & Hf')).
      unfold active in ND, A2, A3. rewrite Hpc in ND, A2, A3.
      destruct rest as [|l rest].
      * inversion H; subst; clear H. unfold active, dinv.
        split7; csimp; auto.
        intros l0 x0 Hl. pose proof (A4 _ _ Hl) as Hli. unfold linv, pending in *. rewrite Hpc in Hli. csimp. exact Hli.
      * assert (Hlin : In l (d_list s)). { rewrite Hpre. apply in_or_app. right. left. reflexivity. }
        destruct (A2 _ Hlin) as (x & Hx & Rr & Ric & Rend). rewrite Hx, Ric in H. inversion H; subst; clear H.
        assert (NDr : NoDup (l :: rest)). { rewrite Hpre in ND. eapply NoDup_suffix; eassumption. }
        inversion NDr as [|? ? Hlr NDr']; subst.
        unfold active, dinv.
        split7; csimp; auto.
        -- intros l0 Hl. destruct (A2 _ Hl) as (x' & Hx' & R). destruct (Nat.eq_dec l0 l) as [->|Hne].
           ++ rewrite Hx in Hx'. inversion Hx'; subst. eexists. rewrite updl_same. split; [reflexivity|]. csimp. exact R.
           ++ exists x'. split; [|exact R]. rewrite updl_other; assumption.
        -- intros l0 x0 Hl. apply updl_cases in Hl. destruct Hl as [[-> ->]|[Hne Hl]]; csimp; intros; eapply A3; eassumption.
        -- intros l0 x0 Hl. apply updl_cases in Hl. destruct Hl as [[-> ->]|[Hne Hl]].
           ++ pose proof (A4 _ _ Hx) as (L1 & L2 & L3 & L4 & L5 & L6).
              unfold pending in L2; rewrite Hpc in L2. cbn [memn] in L2. rewrite Nat.eqb_refl in L2. cbn in L2.
              apply memn_false in Hlr.
              unfold linv, pending, seg in *; split6; csimp; auto; try congruence.
              ** intros _. rewrite Hlr. rewrite app_nil_r. exact (L2 Rr).
              ** intro Ho. destruct (L6 Ho). congruence.
           ++ pose proof (A4 _ _ Hl) as Hli. unfold linv, pending in *. rewrite Hpc in Hli. csimp.
              cbn [memn] in Hli. destruct (Nat.eqb_spec l0 l); [contradiction|]. cbn in Hli. exact Hli.
        -- fresh5 A5 Hx.
        -- split; [|eexists; eassumption]. exists (pre ++ [l]). rewrite <- app_assoc. exact Hpre.
    + (* DAdded *)
      inversion H; subst; clear H. unfold active, dinv in *; rewrite Hpc in *.
      split7; csimp; auto.
      intros l0 x0 Hl. pose proof (A4 _ _ Hl) as Hli. unfold linv, pending in *. rewrite Hpc in Hli. csimp. exact Hli.
    + (* DRemoved *)
      inversion H; subst; clear H. unfold active, dinv in *; rewrite Hpc in *.
      split7; csimp; auto.
      intros l0 x0 Hl. pose proof (A4 _ _ Hl) as Hli. unfold linv, pending in *. rewrite Hpc in Hli. csimp. exact Hli.
    + (* DClosing *)
      unfold dinv in A6. rewrite Hpc in A6. destruct A6 as (Hdl & Hic & Hie).
      unfold active in ND, A2, A3. rewrite Hpc in ND, A2, A3.
      destruct rest as [|l rest].
      * inversion H; subst; clear H. unfold active, dinv.
        split7; csimp; auto.
        -- rewrite Hdl. constructor.
        -- rewrite Hdl. intros l [].
        -- intros l0 x0 Hl0 Hr0 He0. destruct (A3 _ _ Hl0 Hr0 He0).
        -- intros l0 x0 Hl. pose proof (A4 _ _ Hl) as Hli. unfold linv, pending in *. rewrite Hpc in Hli. csimp. exact Hli.
      * destruct (A2 l (or_introl eq_refl)) as (x & Hx & Rr & Ric & Rend). rewrite Hx, Ric in H. inversion H; subst; clear H.
        inversion ND as [|? ? Hlr NDr']; subst.
        unfold active, dinv.
        split7; csimp; auto.
        -- intros l0 Hl. destruct (A2 l0 (or_intror Hl)) as (x' & Hx' & R). exists x'. split; [|exact R].
           rewrite updl_other; [assumption|]. intros ->. contradiction.
        -- intros l0 x0 Hl. apply updl_cases in Hl. destruct Hl as [[-> ->]|[Hne Hl]]; csimp; intros Hr0 He0; [discriminate|].
           destruct (A3 _ _ Hl Hr0 He0) as [->|Hin]; [congruence|assumption].
        -- intros l0 x0 Hl. apply updl_cases in Hl. destruct Hl as [[-> ->]|[Hne Hl]].
           ++ pose proof (A4 _ _ Hx) as (L1 & L2 & L3 & L4 & L5 & L6).
              unfold pending in L2; rewrite Hpc in L2.
              unfold linv; split6; csimp; try congruence; try lia; auto.
              ** intros _. unfold pending; csimp. rewrite (L2 Rr). symmetry. apply seg_close_now. exact Rend.
              ** intros n [= <-]. repeat split; [lia|intros _; exact L3].
              ** intro Ho. destruct (L6 Ho). split; auto.
           ++ pose proof (A4 _ _ Hl) as Hli. unfold linv, pending in *. rewrite Hpc in Hli. csimp. exact Hli.
        -- fresh5 A5 Hx.
    + discriminate.
Qed.

Theorem cinv_reach s : creach s -> CInv s.
Proof. apply invariant_reachable; [apply cinv_init|apply cinv_step]. Qed.

(* ================================================================== *)
(* Core theorems                                                       *)

(* a listener's notifications = the global forward order between its add and its close *)
Theorem core_exactly_once s l x :
  creach s -> lst s l = Some x -> l_reg x = true ->
  l_got x ++ l_q x ++ pending s l = seg x (fwd s).
Proof. intros R Hl Hr. destruct (cinv_reach _ R) as (_ & _ & _ & A4 & _). apply (A4 _ _ Hl). exact Hr. Qed.

(* a listener whose registration gave up (subscriber closing) gets nothing *)
Theorem core_unregistered_empty s l x :
  creach s -> lst s l = Some x -> l_reg x = false -> l_got x = [] /\ l_q x = [].
Proof. intros R Hl Hr. destruct (cinv_reach _ R) as (_ & _ & _ & A4 & _). apply (A4 _ _ Hl). exact Hr. Qed.

(* the close is observed only after everything queued has been read, and nothing is queued after the close *)
Theorem core_closed_after_queued s l x :
  creach s -> lst s l = Some x -> l_out_closed x = true ->
  l_in_closed x = true /\ l_q x = [] /\ pending s l = [] /\
  (l_reg x = true -> exists n, l_end x = Some n /\ l_got x = skipn (l_start x) (firstn n (fwd s))).
Proof.
  intros R Hl Ho. destruct (cinv_reach _ R) as (_ & A2 & _ & A4 & _ & A6 & _).
  pose proof (A4 _ _ Hl) as (L1 & L2 & L3 & L4 & L5 & L6).
  destruct (L6 Ho) as [Hic Hq].
  assert (Hp : pending s l = []).
  { unfold pending. destruct (d_pc s) as [|e rest| | | |] eqn:Hpc; try reflexivity.
    destruct (memn l rest) eqn:Hm; [|reflexivity]. exfalso.
    apply memn_In in Hm. unfold dinv in A6. rewrite Hpc in A6. destruct A6 as ((pre & Hpre) & _).
    unfold active in A2. rewrite Hpc in A2.
    destruct (A2 l) as (x' & Hx' & _ & Hc' & _). { rewrite Hpre. apply in_or_app. right. exact Hm. }
    congruence. }
  repeat split; auto.
  intro Hr. destruct (l_end x) as [n|] eqn:E; [|exfalso; apply (L5 Hic); reflexivity].
  exists n. split; [reflexivity|]. specialize (L2 Hr). rewrite Hq, Hp, !app_nil_r in L2.
  rewrite L2. unfold seg. rewrite E. reflexivity.
Qed.

(* a listener that is registered and whose input is open has been given every event
   forwarded since it was added: nothing is skipped *)
Theorem core_open_listener_complete s l x :
  creach s -> lst s l = Some x -> l_reg x = true -> l_in_closed x = false ->
  l_got x ++ l_q x ++ pending s l = skipn (l_start x) (fwd s).
Proof.
  intros R Hl Hr Hc. destruct (cinv_reach _ R) as (_ & _ & _ & A4 & _).
  pose proof (A4 _ _ Hl) as (L1 & L2 & L3 & L4 & L5 & L6).
  rewrite (L2 Hr). unfold seg. destruct (l_end x) as [n|] eqn:E.
  - destruct (L4 _ eq_refl) as (_ & ? & _). congruence.
  - rewrite firstn_all. reflexivity.
Qed.

(* the distributor never panics: no send on, and no second close of, a listener channel *)
Theorem core_distributor_never_panics s : creach s -> p_dist s = false.
Proof. intro R. apply (cinv_reach _ R). Qed.

(* ---- forwarding never waits for a reader ---- *)

Lemma dist_enabled s :
  CInv s -> dist_rank s <> 0 -> exists s', cstep s LDist = Some s' /\ dist_rank s' = pred (dist_rank s).
Proof.
  intros (ND & A2 & A3 & A4 & A5 & A6 & A7) Hr. unfold dist_rank in *. cbn [cstep].
  destruct (d_pc s) as [|e rest| | |rest|] eqn:Hpc; try congruence.
  - destruct rest as [|l rest]; [eexists; split; [reflexivity|]; csimp; reflexivity|].
    unfold dinv in A6. rewrite Hpc in A6. destruct A6 as ((pre & Hpre) & _).
    unfold active in A2. rewrite Hpc in A2.
    destruct (A2 l) as (x & Hx & _). { rewrite Hpre. apply in_or_app. right. left. reflexivity. }
    rewrite Hx. eexists; split; [reflexivity|]. csimp. reflexivity.
  - eexists; split; [reflexivity|]. csimp. reflexivity.
  - eexists; split; [reflexivity|]. csimp. reflexivity.
  - destruct rest as [|l rest]; [eexists; split; [reflexivity|]; csimp; reflexivity|].
    unfold active in A2. rewrite Hpc in A2.
    destruct (A2 l (or_introl eq_refl)) as (x & Hx & _).
    rewrite Hx. eexists; split; [reflexivity|]. csimp. reflexivity.
Qed.

(* whatever the readers do (no LRead is needed), the distributor's own steps bring it
   back to its select / to its end: dist_rank steps *)
Theorem core_forward_never_blocks s :
  creach s -> exists s', run_dist (dist_rank s) s = Some s' /\ dist_rank s' = 0 /\ creach s'.
Proof.
  intro R. remember (dist_rank s) as n eqn:Hn. revert s R Hn.
  induction n as [|n IH]; intros s R Hn.
  - exists s. cbn. auto.
  - destruct (dist_enabled s (cinv_reach _ R)) as (s1 & H1 & Hr1); [congruence|].
    assert (R1 : creach s1). { eapply reachable_step; eassumption. }
    destruct (IH s1 R1) as (s' & Hrun & H0 & R'). { rewrite Hr1, <- Hn. reflexivity. }
    exists s'. cbn [run_dist]. rewrite H1. auto.
Qed.

(* ... and then it takes the next event: inEvents is emptied without any reader step *)
Theorem core_inevents_drained s e :
  creach s -> d_pc s = DSelect -> in_ev s = Some e ->
  exists s', cstep s LDist = Some s' /\ in_ev s' = None /\ fwd s' = fwd s ++ [e].
Proof. intros R Hpc Hi. cbn [cstep]. rewrite Hpc, Hi. eexists; split; [reflexivity|]. csimp. auto. Qed.

(* a sender is blocked only while the slot is full *)
Theorem core_send_enabled s e :
  in_closed s = false -> in_ev s = None -> exists s', cstep s (LSend e) = Some s'.
Proof. intros Hc Hi. cbn [cstep]. rewrite Hc, Hi. eexists; reflexivity. Qed.

(* the distributor is back in its select (so a cancel / registration rendez-vous is
   possible) or gone; it is gone only after s.closing... is the sync layer's concern *)
Theorem core_done_closed_all s :
  creach s -> d_pc s = DDone ->
  forall l x, lst s l = Some x -> l_reg x = true -> l_in_closed x = true.
Proof.
  intros R Hpc l x Hl Hr. destruct (cinv_reach _ R) as (_ & A2 & A3 & A4 & _ & A6 & _).
  destruct (l_in_closed x) eqn:Hc; [reflexivity|exfalso].
  pose proof (A4 _ _ Hl) as (L1 & L2 & L3 & L4 & L5 & L6).
  assert (E : l_end x = None).
  { destruct (l_end x) eqn:E; [|reflexivity]. destruct (L4 _ eq_refl) as (_ & ? & _). congruence. }
  pose proof (A3 _ _ Hl Hr E) as Hin. unfold active in Hin. rewrite Hpc in Hin.
  unfold dinv in A6. rewrite Hpc in A6. destruct A6 as (Hdl & _). rewrite Hdl in Hin. destruct Hin.
Qed.

(* ================================================================== *)
(* Sync layer                                                          *)

Lemma updt_same f t th : updt f t th t = Some th.
Proof. unfold updt. rewrite Nat.eqb_refl. reflexivity. Qed.
Lemma updt_other f t th x : x <> t -> updt f t th x = f x.
Proof. intro H. unfold updt. destruct (Nat.eqb_spec x t); [contradiction|reflexivity]. Qed.
Lemma updt_cases f t th x th0 :
  updt f t th x = Some th0 -> (x = t /\ th0 = th) \/ (x <> t /\ f x = Some th0).
Proof.
  unfold updt. destruct (Nat.eqb_spec x t); intro H; [left; split; congruence|right; split; assumption].
Qed.

Ltac inv_some :=
  repeat match goal with
  | H : Some _ = Some _ |- _ => inversion H; subst; clear H
  | H : None = Some _ |- _ => discriminate H
  | H : goto _ _ _ _ = Some _ |- _ => unfold goto in H
  end.

(* destruct the step function completely; fx stays symbolic *)
Ltac step_inv H :=
  match type of H with
  | stepf ?fx ?s ?l = Some ?s' =>
    destruct l as [k|t choice| |lb]; cbn [stepf] in H;
    [ destruct (k_async k && watch_done s) eqn:Hsp; [discriminate H|]; inv_some
    | destruct (threads s t) as [th|] eqn:Hth; [|discriminate H];
      unfold step_thread in H; destruct (t_pc th) eqn:Hpc;
      repeat match type of H with
      | context [match async_mu s ?p with _ => _ end] => destruct (async_mu s p) eqn:Hamu
      | context [match sync_mu s ?p with _ => _ end] => destruct (sync_mu s p) eqn:Hsmu
      | context [match choice with _ => _ end] => destruct choice as [|[|choice]]
      | context [match cstep ?c ?lb with _ => _ end] => destruct (cstep c lb) eqn:Hcs
      | context [if k_async ?k then _ else _] => destruct (k_async k) eqn:Hka
      end; try discriminate H; inv_some
    | unfold closer_step in H; destruct (stage s) as [|[|[|[|[|[|n]]]]]] eqn:Hst;
      repeat match type of H with
      | context [match cstep ?c ?lb with _ => _ end] => destruct (cstep c lb) eqn:Hcs
      | context [if none_active ?s ?f then _ else _] => destruct (none_active s f) eqn:Hna
      end; try discriminate H; inv_some
    | destruct (core_label_ok lb) eqn:Hok; [|discriminate H];
      destruct (cstep (co s) lb) eqn:Hcs; [|discriminate H]; inv_some ]
  end.

Ltac ssimp :=
  cbn [co latest sync_mu async_mu exp_closed watch_done stage threads next_tid sent_log done_log latest_log
       w_threads w_sync_mu w_async_mu w_co w_done w_latest w_sent w_stage
       t_kind t_pc t_out t_ev set_pc set_out set_ev new_thread
       e_sid e_async e_pub e_cid e_cnt e_err mk_event] in *.

(* the core of a reachable state is a reachable core state *)
Lemma co_step fx s l s' : stepf fx s l = Some s' -> co s' = co s \/ exists lb, cstep (co s) lb = Some (co s').
Proof.
  intro H. step_inv H; ssimp; try (left; reflexivity); try (right; eexists; eassumption).
  all: destruct fx; ssimp; left; reflexivity.
Qed.

Lemma reach_core fx s : reach fx s -> creach (co s).
Proof.
  apply (invariant_reachable (stepf fx) (fun s => creach (co s))).
  - exists []. reflexivity.
  - intros s0 l s' R H. destruct (co_step _ _ _ _ H) as [->|(lb & Hc)]; [exact R|].
    eapply reachable_step; eassumption.
Qed.

(* the labels the environment may use on the core do not touch inEvents' closedness,
   s.closing, nor the order of what went through inEvents *)
Lemma cstep_ok_frame c lb c' :
  core_label_ok lb = true -> cstep c lb = Some c' ->
  in_closed c' = in_closed c /\ closing c' = closing c /\ p_env c' = p_env c /\
  fwd c' ++ opt_list (in_ev c') = fwd c ++ opt_list (in_ev c).
Proof.
  intros Hok H. destruct lb as [e| | | |l|l|l|l|]; try discriminate Hok; cbn [cstep] in H.
  - inv_some. csimp. auto.
  - destruct (d_pc c); try discriminate. destruct (lst c l); [|discriminate].
    destruct (l_reg l0 || l_in_closed l0); [discriminate|]. inv_some. csimp. auto.
  - destruct (lst c l); [|discriminate].
    destruct (l_reg l0 || l_in_closed l0 || negb (closing c)); [discriminate|]. inv_some. csimp. auto.
  - destruct (d_pc c); try discriminate. destruct (memn l (d_list c)).
    + destruct (lst c l); [|discriminate]. destruct (l_in_closed l0); inv_some; csimp; auto.
    + inv_some. csimp. auto.
  - destruct (lst c l); [|discriminate]. destruct (l_q l0).
    + destruct (l_in_closed l0 && negb (l_out_closed l0)); [|discriminate]. inv_some. csimp. auto.
    + inv_some. csimp. auto.
  - destruct (d_pc c) as [|e rest| | |rest|].
    + destruct (in_ev c) eqn:Hi.
      * inv_some. csimp. cbn. rewrite app_nil_r. auto.
      * destruct (in_closed c) eqn:Hic; [|discriminate]. inv_some. csimp. rewrite Hi. auto.
    + destruct rest as [|l rest]; [inv_some; csimp; auto|].
      destruct (lst c l); [|discriminate]. destruct (l_in_closed l0); inv_some; csimp; auto.
    + inv_some. csimp. auto.
    + inv_some. csimp. auto.
    + destruct rest as [|l rest]; [inv_some; csimp; auto|].
      destruct (lst c l); [|discriminate]. destruct (l_in_closed l0); inv_some; csimp; auto.
    + discriminate.
Qed.

Lemma none_active_spec s f :
  none_active s f = true -> forall t th, threads s t = Some th -> t < next_tid s -> f th = false.
Proof.
  unfold none_active. intros H t th Ht Hlt. rewrite forallb_forall in H.
  specialize (H t). rewrite Ht in H. apply negb_true_iff. apply H. apply in_seq. lia.
Qed.

(* ---- group B: doClose closes inEvents only when no sender is left ---- *)

Local Arguments Nat.leb : simpl never.

Definition tinvB (s : st) (th : thread) : bool :=
  implb (3 <=? stage s) (negb (exp_active th)) && implb (5 <=? stage s) (negb (async_active th)).

Definition InvB (s : st) : Prop :=
  (2 <= stage s -> exp_closed s = true) /\
  (4 <= stage s -> watch_done s = true) /\
  (in_closed (co s) = true -> stage s = 6) /\
  (closing (co s) = true -> 1 <= stage s) /\
  p_env (co s) = false /\
  (forall t th, threads s t = Some th -> t < next_tid s) /\
  (forall t th, threads s t = Some th -> tinvB s th = true).

Lemma invB_init : InvB init.
Proof. unfold InvB, init; cbn. repeat split; try lia; try discriminate. Qed.

Ltac split7b := split; [|split; [|split; [|split; [|split; [|split]]]]].

Lemma leb_S3 n : (3 <=? S n) = (2 <=? n).
Proof. reflexivity. Qed.

(* the stepping thread does not become active again; the others are untouched *)
Ltac thB B7 Hth Hpc fx :=
  let t0 := fresh "t0" in let th0 := fresh "th0" in let Ht0 := fresh "Ht0" in let Hne := fresh "Hne" in
  let Bt := fresh "Bt" in
  intros t0 th0 Ht0; apply updt_cases in Ht0; destruct Ht0 as [[-> ->]|[Hne Ht0]]; [|exact (B7 _ _ Ht0)];
  pose proof (B7 _ _ Hth) as Bt; unfold tinvB, exp_active, async_active, after_handle in *; ssimp;
  rewrite Hpc in Bt;
  repeat match goal with
  | |- context [match t_out ?th with _ => _ end] => destruct (t_out th) as [[[|] ?]|]
  | |- context [if k_upd ?k then _ else _] => destruct (k_upd k)
  end;
  destruct (k_async (t_kind _)); destruct (3 <=? stage _); destruct (5 <=? stage _);
  try destruct fx; cbn in *; try reflexivity; try discriminate.

Ltac closerB B1 B2 B3 :=
  auto; try lia;
  try (intros _; first [apply B1; lia|apply B2; lia|lia]);
  try (let Hx := fresh "Hx" in intro Hx; first [specialize (B3 Hx); lia|congruence]).

Lemma invB_step fx s l s' : InvB s -> stepf fx s l = Some s' -> InvB s'.
Proof.
  intros (B1 & B2 & B3 & B4 & B5 & B6 & B7) H.
  step_inv H.
  (* thread steps that leave the core alone *)
  all: try (split7b; ssimp; auto;
    [ intros t0 th0 Ht0; apply updt_cases in Ht0; destruct Ht0 as [[-> ->]|[Hne Ht0]]; [exact (B6 _ _ Hth)|exact (B6 _ _ Ht0)]
    | thB B7 Hth Hpc fx ]; fail).
  - (* Spawn *)
    split7b; ssimp; auto.
    + intros t th Ht. apply updt_cases in Ht. destruct Ht as [[-> ->]|[Hne Ht]]; [lia|]. specialize (B6 _ _ Ht). lia.
    + intros t th Ht. apply updt_cases in Ht. destruct Ht as [[-> ->]|[Hne Ht]]; [|apply B7 in Ht; exact Ht].
      unfold tinvB, exp_active, async_active; ssimp. destruct k as [p c u|p c]; cbn [k_async] in *.
      * destruct (exp_closed s) eqn:He; cbn; [destruct (3 <=? stage s), (5 <=? stage s); reflexivity|].
        destruct (3 <=? stage s) eqn:E3; [|destruct (5 <=? stage s); reflexivity].
        apply Nat.leb_le in E3. exfalso. assert (false = true) by (apply B1; lia). discriminate.
      * cbn in Hsp. destruct (5 <=? stage s) eqn:E5; [|destruct (3 <=? stage s); reflexivity].
        apply Nat.leb_le in E5. rewrite B2 in Hsp by lia. discriminate.
  - (* PRun fails *)
    destruct fx; (split7b; ssimp; auto;
    [ intros t0 th0 Ht0; apply updt_cases in Ht0; destruct Ht0 as [[-> ->]|[Hne Ht0]]; [exact (B6 _ _ Hth)|exact (B6 _ _ Ht0)]
    | intros t0 th0 Ht0; apply updt_cases in Ht0; destruct Ht0 as [[-> ->]|[Hne Ht0]]; [|exact (B7 _ _ Ht0)];
      pose proof (B7 _ _ Hth) as Bt; unfold tinvB, exp_active, async_active, after_handle, sends, set_out, set_pc in *; ssimp;
      rewrite Hpc in Bt;
      destruct (k_async (t_kind th)), (k_upd (t_kind th)), (3 <=? stage s), (5 <=? stage s); cbn in *;
      try reflexivity; try discriminate ]).
  - (* PRun succeeds *)
    destruct fx; (split7b; ssimp; auto;
    [ intros t0 th0 Ht0; apply updt_cases in Ht0; destruct Ht0 as [[-> ->]|[Hne Ht0]]; [exact (B6 _ _ Hth)|exact (B6 _ _ Ht0)]
    | intros t0 th0 Ht0; apply updt_cases in Ht0; destruct Ht0 as [[-> ->]|[Hne Ht0]]; [|exact (B7 _ _ Ht0)];
      pose proof (B7 _ _ Hth) as Bt; unfold tinvB, exp_active, async_active, after_handle, sends, set_out, set_pc in *; ssimp;
      rewrite Hpc in Bt;
      destruct (k_async (t_kind th)), (k_upd (t_kind th)), (3 <=? stage s), (5 <=? stage s); cbn in *;
      try reflexivity; try discriminate ]).
  - (* PSend *)
    pose proof (B7 _ _ Hth) as Bt.
    cbn [cstep] in Hcs. destruct (in_closed (co s)) eqn:Hic.
    { exfalso. specialize (B3 eq_refl). unfold tinvB, exp_active, async_active in Bt. rewrite Hpc, B3 in Bt.
      destruct (k_async (t_kind th)); discriminate Bt. }
    destruct (in_ev (co s)); [discriminate|]. inv_some.
    split7b; ssimp; csimp; rewrite ?Hic; auto; try discriminate.
    + intros t0 th0 Ht0; apply updt_cases in Ht0; destruct Ht0 as [[-> ->]|[Hne Ht0]]; [exact (B6 _ _ Hth)|exact (B6 _ _ Ht0)].
    + thB B7 Hth Hpc fx.
  - (* PSendErr *)
    pose proof (B7 _ _ Hth) as Bt.
    cbn [cstep] in Hcs. destruct (in_closed (co s)) eqn:Hic.
    { exfalso. specialize (B3 eq_refl). unfold tinvB, exp_active, async_active in Bt. rewrite Hpc, B3 in Bt.
      destruct (k_async (t_kind th)); discriminate Bt. }
    destruct (in_ev (co s)); [discriminate|]. inv_some.
    split7b; ssimp; csimp; rewrite ?Hic; auto; try discriminate.
    + intros t0 th0 Ht0; apply updt_cases in Ht0; destruct Ht0 as [[-> ->]|[Hne Ht0]]; [exact (B6 _ _ Hth)|exact (B6 _ _ Ht0)].
    + thB B7 Hth Hpc fx.
  - (* closer 0: close(closing) *)
    cbn [cstep] in Hcs. destruct (closing (co s)) eqn:Hcl.
    { specialize (B4 eq_refl). lia. }
    inv_some. split7b; ssimp; csimp; rewrite ?Hst; closerB B1 B2 B3.
    intros t0 th0 Ht0. specialize (B7 _ _ Ht0). unfold tinvB in *; ssimp. rewrite ?Hst in *. exact B7.
  - (* closer 1 *)
    split7b; ssimp; rewrite ?Hst; closerB B1 B2 B3.
    intros t0 th0 Ht0. specialize (B7 _ _ Ht0). unfold tinvB in *; ssimp. rewrite ?Hst in *. exact B7.
  - (* closer 2: expSyncWG.Wait *)
    split7b; ssimp; rewrite ?Hst; closerB B1 B2 B3.
    intros t0 th0 Ht0. unfold tinvB; ssimp.
    rewrite (none_active_spec _ _ Hna _ _ Ht0 (B6 _ _ Ht0)). rewrite Hst. reflexivity.
  - (* closer 3 *)
    split7b; ssimp; rewrite ?Hst; closerB B1 B2 B3.
    intros t0 th0 Ht0. specialize (B7 _ _ Ht0). unfold tinvB in *; ssimp. rewrite ?Hst in *. exact B7.
  - (* closer 4: asyncWG.Wait *)
    split7b; ssimp; rewrite ?Hst; closerB B1 B2 B3.
    intros t0 th0 Ht0. specialize (B7 _ _ Ht0). unfold tinvB in *; ssimp. rewrite ?Hst in *.
    rewrite (none_active_spec _ _ Hna _ _ Ht0 (B6 _ _ Ht0)).
    apply andb_prop in B7. destruct B7 as [B7 _]. change (3 <=? 5) with true. change (3 <=? 4) with true in B7. rewrite B7. reflexivity.
  - (* closer 5: close(inEvents) *)
    cbn [cstep] in Hcs. destruct (in_closed (co s)) eqn:Hic.
    { specialize (B3 eq_refl). lia. }
    inv_some. split7b; ssimp; csimp; rewrite ?Hst; closerB B1 B2 B3.
    intros t0 th0 Ht0. specialize (B7 _ _ Ht0). unfold tinvB in *; ssimp. rewrite ?Hst in *. exact B7.
  - (* core labels *)
    destruct (cstep_ok_frame _ _ _ Hok Hcs) as (F1 & F2 & F3 & _).
    split7b; ssimp; auto; rewrite ?F1, ?F2, ?F3; auto.
Qed.

Theorem invB_reach fx s : reach fx s -> InvB s.
Proof. apply invariant_reachable; [apply invB_init|apply invB_step]. Qed.

(* ---- group C: which sync sends which event, and how often ---- *)

Definition pre_out (p : pc) : bool := match p with PLockA | PCheck | PLock | PRun => true | _ => false end.
Definition pre_send (fx : bool) (p : pc) : bool :=
  match p with
  | PLockA | PCheck | PLock | PRun | PSetLatest | PSend | PSendErr => true
  | PUnlock => negb fx
  | _ => false
  end.
Definition is_some {A} (o : option A) : bool := match o with Some _ => true | None => false end.
Definition ev_ok (t : nat) (th : thread) : bool :=
  match t_ev th with
  | None => true
  | Some e =>
    event_eqb e (mk_event t (t_kind th) (if e_err e then 0%N else out_cnt th) (e_err e)) &&
    Bool.eqb (e_err e) (negb (out_ok th))
  end.
Definition is_setsend (p : pc) : bool := match p with PSetLatest | PSend => true | _ => false end.
Definition is_senderr (p : pc) : bool := match p with PSendErr => true | _ => false end.

Definition tinvC (fx : bool) (t : nat) (th : thread) : bool :=
  implb (pre_out (t_pc th)) (negb (is_some (t_out th))) &&
  implb (is_setsend (t_pc th)) (out_ok th && k_upd (t_kind th)) &&
  implb (is_senderr (t_pc th)) (negb (out_ok th) && is_some (t_out th) && k_async (t_kind th)) &&
  (if pre_send fx (t_pc th) then negb (is_some (t_ev th)) else Bool.eqb (is_some (t_ev th)) (sends th)) &&
  ev_ok t th.

Definition InvC (fx : bool) (s : st) : Prop :=
  sent_log s = fwd (co s) ++ opt_list (in_ev (co s)) /\
  (forall e, In e (sent_log s) -> exists th, threads s (e_sid e) = Some th /\ t_ev th = Some e) /\
  (forall t th e, threads s t = Some th -> t_ev th = Some e -> In e (sent_log s)) /\
  NoDup (map e_sid (sent_log s)) /\
  (forall t th, threads s t = Some th -> tinvC fx t th = true).

Lemma event_eqb_refl e : event_eqb e e = true.
Proof.
  unfold event_eqb. rewrite Nat.eqb_refl, !N.eqb_refl, !Bool.eqb_reflx. reflexivity.
Qed.

Lemma event_eqb_eq a b : event_eqb a b = true -> a = b.
Proof.
  unfold event_eqb. intro H. repeat (apply andb_prop in H; destruct H as [H ?]).
  destruct a, b; cbn in *.
  apply Nat.eqb_eq in H. apply Bool.eqb_prop in H4, H0. apply N.eqb_eq in H3, H2, H1. subst. reflexivity.
Qed.

Lemma invC_init fx : InvC fx init.
Proof. unfold InvC, init; cbn. repeat split; try constructor; try discriminate; intros ? []. Qed.

Ltac split5 := split; [|split; [|split; [|split]]].

(* a thread step that keeps t_ev and the log *)
Lemma invC_frame_thread s t th th' :
  threads s t = Some th -> t_ev th' = t_ev th ->
  (forall e, In e (sent_log s) -> exists th, threads s (e_sid e) = Some th /\ t_ev th = Some e) ->
  (forall t th e, threads s t = Some th -> t_ev th = Some e -> In e (sent_log s)) ->
  (forall e, In e (sent_log s) -> exists th0, updt (threads s) t th' (e_sid e) = Some th0 /\ t_ev th0 = Some e) /\
  (forall t0 th0 e, updt (threads s) t th' t0 = Some th0 -> t_ev th0 = Some e -> In e (sent_log s)).
Proof.
  intros Hth Hev G1 G2. split.
  - intros e He. destruct (G1 _ He) as (th1 & H1 & H2). destruct (Nat.eq_dec (e_sid e) t) as [E|E].
    + rewrite E in *. rewrite Hth in H1. inversion H1; subst. exists th'. rewrite updt_same. split; congruence.
    + exists th1. rewrite updt_other by assumption. auto.
  - intros t0 th0 e H0 He. apply updt_cases in H0. destruct H0 as [[-> ->]|[Hne H0]].
    + eapply G2; [exact Hth|congruence].
    + eapply G2; eassumption.
Qed.

Ltac thC C5 Hth Hpc fx :=
  let t0 := fresh "t0" in let th0 := fresh "th0" in let Ht0 := fresh "Ht0" in let Hne := fresh "Hne" in
  let Ct := fresh "Ct" in
  intros t0 th0 Ht0; apply updt_cases in Ht0; destruct Ht0 as [[-> ->]|[Hne Ht0]]; [|exact (C5 _ _ Ht0)];
  pose proof (C5 _ _ Hth) as Ct;
  unfold tinvC, ev_ok, pre_out, pre_send, is_setsend, is_senderr, after_handle, sends, out_ok, out_cnt, set_out, set_pc, set_ev in *;
  ssimp; rewrite Hpc in Ct;
  try destruct fx;
  match type of Hth with
  | threads _ _ = Some ?th =>
    destruct (t_out th) as [[[|] ?]|]; destruct (t_ev th) as [?|];
    destruct (k_async (t_kind th)); destruct (k_upd (t_kind th))
  end;
  cbn in *; try reflexivity; try discriminate; try assumption;
  rewrite ?event_eqb_refl; try reflexivity.

Ltac frameC Hth C2 C3 :=
  match goal with
  | |- InvC _ (w_threads _ (updt _ ?t ?th')) =>
    let F1 := fresh "F1" in let F2 := fresh "F2" in
    destruct (invC_frame_thread _ t _ th' Hth eq_refl C2 C3) as [F1 F2]
  end.

Lemma tinvC_pre_send fx t th : tinvC fx t th = true -> pre_send fx (t_pc th) = true -> t_ev th = None.
Proof.
  unfold tinvC. intros H Hp. rewrite Hp in H.
  repeat (apply andb_prop in H; destruct H as [H ?]).
  destruct (t_ev th); [discriminate|reflexivity].
Qed.

Lemma invC_send fx s t th e pc' :
  InvC fx s -> threads s t = Some th -> pre_send fx (t_pc th) = true ->
  in_ev (co s) = None -> e_sid e = t ->
  tinvC fx t (set_ev th pc' e) = true ->
  InvC fx (w_threads (w_sent s (set_in (co s) (Some e)) e) (updt (threads s) t (set_ev th pc' e))).
Proof.
  intros (C1 & C2 & C3 & C4 & C5) Hth Hp Hi Hsid Hnew.
  pose proof (tinvC_pre_send _ _ _ (C5 _ _ Hth) Hp) as Hev.
  assert (Hnot : forall e', In e' (sent_log s) -> e_sid e' <> t).
  { intros e' He' E. destruct (C2 _ He') as (th1 & H1 & H2). rewrite E, Hth in H1. inversion H1; subst. congruence. }
  split5; ssimp; csimp.
  - rewrite C1, Hi. cbn. rewrite app_nil_r. reflexivity.
  - intros e' He'. apply in_app_or in He'. destruct He' as [He'|[<-|[]]].
    + destruct (C2 _ He') as (th1 & H1 & H2). exists th1. split; [|exact H2].
      rewrite updt_other; [exact H1|]. apply Hnot; assumption.
    + rewrite Hsid, updt_same. eexists; split; reflexivity.
  - intros t0 th0 e0 H0 He0. apply updt_cases in H0. destruct H0 as [[-> ->]|[Hne H0]].
    + cbn in He0. inversion He0; subst. apply in_or_app. right. left. reflexivity.
    + apply in_or_app. left. eapply C3; eassumption.
  - rewrite map_app. cbn [map].
    apply Permutation_NoDup with (l := e_sid e :: map e_sid (sent_log s)); [apply Permutation_cons_append|].
    constructor; [|exact C4]. intro Hin. apply in_map_iff in Hin. destruct Hin as (e' & E & He').
    apply (Hnot _ He'). congruence.
  - intros t0 th0 H0. apply updt_cases in H0. destruct H0 as [[-> ->]|[Hne H0]]; [exact Hnew|exact (C5 _ _ H0)].
Qed.

(* a sender is never at its send when inEvents is closed *)
Lemma sender_not_closed s t th :
  InvB s -> threads s t = Some th -> (t_pc th = PSend \/ t_pc th = PSendErr) -> in_closed (co s) = false.
Proof.
  intros (B1 & B2 & B3 & B4 & B5 & B6 & B7) Hth Hpc.
  destruct (in_closed (co s)) eqn:Hic; [|reflexivity]. exfalso.
  specialize (B3 eq_refl). pose proof (B7 _ _ Hth) as Bt.
  unfold tinvB, exp_active, async_active in Bt. rewrite B3 in Bt.
  destruct Hpc as [Hpc|Hpc]; rewrite Hpc in Bt; destruct (k_async (t_kind th)); discriminate Bt.
Qed.

Lemma invC_step fx s l s' : InvB s -> InvC fx s -> stepf fx s l = Some s' -> InvC fx s'.
Proof.
  intros (B1 & B2 & B3 & B4 & B5 & B6 & B7) (C1 & C2 & C3 & C4 & C5) H.
  step_inv H.
  (* thread steps that send nothing *)
  all: try (frameC Hth C2 C3; split5; ssimp; auto; [thC C5 Hth Hpc fx]; fail).
  all: try (destruct fx; (frameC Hth C2 C3; split5; ssimp; auto; [thC C5 Hth Hpc fx]); fail).
  - (* Spawn *)
    split5; ssimp; auto.
    + intros e He. destruct (C2 _ He) as (th1 & H1 & H2). exists th1. split; [|exact H2].
      rewrite updt_other; [exact H1|]. specialize (B6 _ _ H1). lia.
    + intros t th e Ht He. apply updt_cases in Ht. destruct Ht as [[-> ->]|[Hne Ht]]; [discriminate He|].
      eapply C3; eassumption.
    + intros t th Ht. apply updt_cases in Ht. destruct Ht as [[-> ->]|[Hne Ht]]; [|exact (C5 _ _ Ht)].
      unfold tinvC, ev_ok, sends; ssimp. destruct k; [destruct (exp_closed s)|]; destruct fx; reflexivity.
  - (* PSend *)
    pose proof (sender_not_closed s t th (conj B1 (conj B2 (conj B3 (conj B4 (conj B5 (conj B6 B7)))))) Hth (or_introl Hpc)) as Hic.
    cbn [cstep] in Hcs. rewrite Hic in Hcs. destruct (in_ev (co s)) eqn:Hi; [discriminate|]. inv_some.
    apply invC_send; auto.
    + split5; rewrite ?Hi; auto.
    + unfold pre_send. rewrite Hpc. reflexivity.
    + pose proof (C5 _ _ Hth) as Ct.
      unfold tinvC, ev_ok, pre_out, pre_send, is_setsend, is_senderr, sends, out_ok, out_cnt, set_ev in *; ssimp.
      rewrite Hpc in Ct. destruct fx; destruct (t_out th) as [[[|] ?]|]; destruct (t_ev th);
        destruct (k_async (t_kind th)); destruct (k_upd (t_kind th)); cbn in *; try discriminate;
        rewrite ?event_eqb_refl; reflexivity.
  - (* PSendErr *)
    pose proof (sender_not_closed s t th (conj B1 (conj B2 (conj B3 (conj B4 (conj B5 (conj B6 B7)))))) Hth (or_intror Hpc)) as Hic.
    cbn [cstep] in Hcs. rewrite Hic in Hcs. destruct (in_ev (co s)) eqn:Hi; [discriminate|]. inv_some.
    apply invC_send; auto.
    + split5; rewrite ?Hi; auto.
    + unfold pre_send. rewrite Hpc. reflexivity.
    + pose proof (C5 _ _ Hth) as Ct.
      unfold tinvC, ev_ok, pre_out, pre_send, is_setsend, is_senderr, sends, out_ok, out_cnt, set_ev in *; ssimp.
      rewrite Hpc in Ct. destruct fx; destruct (t_out th) as [[[|] ?]|]; destruct (t_ev th);
        destruct (k_async (t_kind th)); destruct (k_upd (t_kind th)); cbn in *; try discriminate;
        rewrite ?event_eqb_refl; reflexivity.
  - (* closer 0 *)
    cbn [cstep] in Hcs. destruct (closing (co s)); inv_some; split5; ssimp; csimp; auto.
  - split5; ssimp; auto.
  - split5; ssimp; auto.
  - split5; ssimp; auto.
  - split5; ssimp; auto.
  - (* closer 5 *)
    cbn [cstep] in Hcs. destruct (in_closed (co s)); inv_some; split5; ssimp; csimp; auto.
  - (* core *)
    destruct (cstep_ok_frame _ _ _ Hok Hcs) as (_ & _ & _ & F4).
    split5; ssimp; auto. rewrite F4. exact C1.
Qed.

Theorem invC_reach fx s : reach fx s -> InvC fx s.
Proof.
  apply (invariant_reachable2 (stepf fx) InvB (InvC fx)).
  - apply invB_reach.
  - apply invC_init.
  - intros; eapply invC_step; eassumption.
Qed.

(* ---- group E: the latest-sync value is stored before the event is sent ---- *)

Definition InvE (s : st) : Prop :=
  forall t th, threads s t = Some th ->
    (t_pc th = PSend \/ exists e, t_ev th = Some e /\ e_err e = false) ->
    In (k_pub (t_kind th), k_cid (t_kind th), t) (latest_log s).

Lemma invE_init : InvE init.
Proof. intros t th H. discriminate H. Qed.

Lemma invE_step fx s l s' : InvE s -> stepf fx s l = Some s' -> InvE s'.
Proof.
  intros E H. step_inv H; try (destruct fx);
    intros t0 th0 Ht0 Hprem; ssimp;
    first
    [ apply updt_cases in Ht0; destruct Ht0 as [[-> ->]|[Hne Ht0]];
      [ destruct Hprem as [Hp|(e0 & He0 & Herr0)]; ssimp;
        [ first
          [ discriminate Hp
          | exfalso; destruct k; [destruct (exp_closed s)|]; discriminate Hp
          | apply in_or_app; right; left; reflexivity
          | exfalso; unfold after_handle, set_out in Hp; ssimp;
            destruct (t_out th) as [[[|] ?]|]; destruct (k_upd (t_kind th)); destruct (k_async (t_kind th)); discriminate Hp ]
        | first
          [ discriminate He0
          | try (apply in_or_app; left); apply (E _ _ Hth); right; eauto; fail
          | inversion He0; subst; cbn in Herr0; first [discriminate Herr0|apply (E _ _ Hth); left; assumption] ] ]
      | try (apply in_or_app; left); eapply E; eassumption ]
    | eapply E; eassumption ].
Qed.

Theorem invE_reach fx s : reach fx s -> InvE s.
Proof. apply invariant_reachable; [apply invE_init|apply invE_step]. Qed.

(* ---- group A: the per-publisher mutexes ---- *)

Definition holds (m : option nat) (t : nat) : bool := match m with Some x => Nat.eqb x t | None => false end.

Definition in_sync_cs (fx : bool) (p : pc) : bool :=
  match p with
  | PRun | PUnlock => true
  | PSetLatest | PSend | PSendErr => fx
  | _ => false
  end.
Definition in_async_cs (p : pc) : bool := match p with PLockA | PFin => false | _ => true end.

Definition async_only (p : pc) : bool := match p with PLockA | PUnlockA => true | _ => false end.

Definition tinvA (fx : bool) (s : st) (t : nat) (th : thread) : bool :=
  implb (async_only (t_pc th)) (k_async (t_kind th)) &&
  implb (in_sync_cs fx (t_pc th)) (holds (sync_mu s (k_pub (t_kind th))) t) &&
  implb (k_async (t_kind th) && in_async_cs (t_pc th)) (holds (async_mu s (k_pub (t_kind th))) t).

Definition InvA (fx : bool) (s : st) : Prop :=
  forall t th, threads s t = Some th -> tinvA fx s t th = true.

Lemma holds_upd_same {m : N -> option nat} p t : holds (updN m p (Some t) p) t = true.
Proof. unfold updN. rewrite N.eqb_refl. cbn. apply Nat.eqb_refl. Qed.

Lemma implb_acquire_other (m : N -> option nat) p t q t0 c :
  m p = None -> implb c (holds (m q) t0) = true -> implb c (holds (updN m p (Some t) q) t0) = true.
Proof.
  intros Hn H. unfold updN. destruct (N.eqb_spec q p) as [->|]; [|exact H].
  rewrite Hn in H. destruct c; [discriminate H|reflexivity].
Qed.

Lemma implb_release_other (m : N -> option nat) p t q t0 c :
  holds (m p) t = true -> t0 <> t -> implb c (holds (m q) t0) = true -> implb c (holds (updN m p None q) t0) = true.
Proof.
  intros Hh Hne H. unfold updN. destruct (N.eqb_spec q p) as [->|]; [|exact H].
  destruct c; [|reflexivity]. cbn in H. exfalso.
  unfold holds in *. destruct (m p); [|discriminate]. apply Nat.eqb_eq in Hh, H. congruence.
Qed.

Lemma invA_init fx : InvA fx init.
Proof. intros t th H. discriminate H. Qed.

(* the stepping thread, when the mutex maps are untouched *)
Ltac thA A Hth Hpc fx :=
  let At := fresh "At" in
  pose proof (A _ _ Hth) as At;
  unfold tinvA, async_only, in_sync_cs, in_async_cs, after_handle, set_out, set_pc, set_ev in *; ssimp; rewrite Hpc in At;
  match type of Hth with
  | threads ?s ?t = Some ?th =>
    try destruct fx; ssimp;
    try destruct (t_out th) as [[[|] ?]|]; ssimp;
    destruct (k_upd (t_kind th)); ssimp;
    destruct (k_async (t_kind th)); ssimp;
    destruct (holds (sync_mu s (k_pub (t_kind th))) t); destruct (holds (async_mu s (k_pub (t_kind th))) t);
    cbn in *; try reflexivity; try discriminate
  end.

Lemma invA_step fx s l s' : InvB s -> InvA fx s -> stepf fx s l = Some s' -> InvA fx s'.
Proof.
  intros (B1 & B2 & B3 & B4 & B5 & B6 & B7) A H.
  step_inv H; intros t0 th0 Ht0; ssimp;
    try (apply updt_cases in Ht0; destruct Ht0 as [[-> ->]|[Hne Ht0]]);
    try (exact (A _ _ Ht0));
    try (thA A Hth Hpc fx; fail).
  - (* Spawn *)
    unfold tinvA; ssimp. destruct k; [destruct (exp_closed s)|]; destruct fx; reflexivity.
  - (* PLockA, self *)
    pose proof (A _ _ Hth) as At. unfold tinvA in *; ssimp. rewrite Hpc in At.
    rewrite holds_upd_same. cbn. rewrite andb_true_r. destruct (k_async (t_kind th)); reflexivity.
  - (* PLockA, others *)
    pose proof (A _ _ Ht0) as At. unfold tinvA in *; ssimp.
    apply andb_prop in At. destruct At as [A1 A2]. rewrite A1. cbn.
    apply implb_acquire_other; assumption.
  - (* PLock, self *)
    pose proof (A _ _ Hth) as At. unfold tinvA in *; ssimp. rewrite Hpc in At.
    rewrite holds_upd_same. cbn. cbn in At. exact At.
  - (* PLock, others *)
    pose proof (A _ _ Ht0) as At. unfold tinvA in *; ssimp.
    apply andb_prop in At. destruct At as [A1 A2]. apply andb_prop in A1. destruct A1 as [A0 A1].
    rewrite A0, A2, andb_true_r. cbn.
    apply implb_acquire_other; assumption.
  - (* PUnlock, others *)
    pose proof (A _ _ Hth) as At. unfold tinvA in At; ssimp. rewrite Hpc in At. cbn in At.
    apply andb_prop in At. destruct At as [Ah _].
    pose proof (A _ _ Ht0) as A0. unfold tinvA in *; ssimp.
    apply andb_prop in A0. destruct A0 as [A1 A2]. apply andb_prop in A1. destruct A1 as [A0 A1].
    rewrite A0, A2, andb_true_r. cbn.
    eapply implb_release_other; eassumption.
  - (* PUnlockA, others *)
    pose proof (A _ _ Hth) as At. unfold tinvA in At; ssimp. rewrite Hpc in At. cbn in At.
    apply andb_prop in At. destruct At as [At Ah]. apply andb_prop in At. destruct At as [Hka' _].
    rewrite Hka' in Ah. cbn in Ah.
    pose proof (A _ _ Ht0) as A0. unfold tinvA in *; ssimp.
    apply andb_prop in A0. destruct A0 as [A1 A2]. rewrite A1. cbn.
    eapply implb_release_other; eassumption.
Qed.

Theorem invA_reach fx s : reach fx s -> InvA fx s.
Proof.
  apply (invariant_reachable2 (stepf fx) InvB (InvA fx)).
  - apply invB_reach.
  - apply invA_init.
  - intros; eapply invA_step; eassumption.
Qed.

(* ---- group D: with the event sent inside the per-publisher sync lock (fx = true),
        a publisher's events are sent in the order in which its syncs completed ---- *)

Definition pending_pc (p : pc) : bool := match p with PSetLatest | PSend | PSendErr => true | _ => false end.

(* the sync of publisher p that has completed but not yet sent its event (it holds the lock) *)
Definition pend (p : N) (s : st) : list nat :=
  match sync_mu s p with
  | Some t =>
    match threads s t with
    | Some th => if pending_pc (t_pc th) && N.eqb (k_pub (t_kind th)) p then [t] else []
    | None => []
    end
  | None => []
  end.

Definition InvD (s : st) : Prop := forall p, done_of p s = sent_of p s ++ pend p s.

Lemma invD_init : InvD init.
Proof. intro p. reflexivity. Qed.

Lemma holds_eq m t : holds m t = true -> m = Some t.
Proof. unfold holds. destruct m; [|discriminate]. intro H. apply Nat.eqb_eq in H. congruence. Qed.

(* pend depends on the lock map and, for the holder only, on (pending_pc, publisher) *)
Lemma pend_frame s s' t th th' p :
  sync_mu s' = sync_mu s -> threads s t = Some th -> threads s' = updt (threads s) t th' ->
  pending_pc (t_pc th') = pending_pc (t_pc th) -> t_kind th' = t_kind th ->
  pend p s' = pend p s.
Proof.
  intros Hm Hth Ht Hp Hk. unfold pend. rewrite Hm, Ht.
  destruct (sync_mu s p) as [t1|]; [|reflexivity].
  destruct (Nat.eq_dec t1 t) as [->|Hne].
  - rewrite updt_same, Hth, Hp, Hk. reflexivity.
  - rewrite updt_other by assumption. reflexivity.
Qed.

Lemma done_of_unchanged p s s' : done_log s' = done_log s -> done_of p s' = done_of p s.
Proof. unfold done_of. intros ->. reflexivity. Qed.
Lemma sent_of_unchanged p s s' : sent_log s' = sent_log s -> sent_of p s' = sent_of p s.
Proof. unfold sent_of. intros ->. reflexivity. Qed.

Lemma done_of_app p s s' q t a b :
  done_log s' = done_log s ++ [(q, t, a, b)] ->
  done_of p s' = done_of p s ++ (if b && N.eqb q p then [t] else []).
Proof.
  unfold done_of. intros ->. rewrite filter_app, map_app. cbn. destruct (b && N.eqb q p); reflexivity.
Qed.
Lemma sent_of_app p s s' e :
  sent_log s' = sent_log s ++ [e] ->
  sent_of p s' = sent_of p s ++ (if N.eqb (e_pub e) p then [e_sid e] else []).
Proof.
  unfold sent_of. intros ->. rewrite filter_app, map_app. cbn. destruct (N.eqb (e_pub e) p); reflexivity.
Qed.

Lemma sync_holder fx s t th :
  InvA fx s -> threads s t = Some th -> in_sync_cs fx (t_pc th) = true ->
  sync_mu s (k_pub (t_kind th)) = Some t.
Proof.
  intros A Hth Hcs. pose proof (A _ _ Hth) as At. unfold tinvA in At. rewrite Hcs in At.
  apply andb_prop in At. destruct At as [At _]. apply andb_prop in At. destruct At as [_ At].
  apply holds_eq. exact At.
Qed.

Lemma pend_other s s' t th th' p0 :
  p0 <> k_pub (t_kind th) -> sync_mu s' p0 = sync_mu s p0 -> threads s t = Some th ->
  threads s' = updt (threads s) t th' -> t_kind th' = t_kind th ->
  pend p0 s' = pend p0 s.
Proof.
  intros Hne Hm Hth Ht Hk. unfold pend. rewrite Hm, Ht.
  destruct (sync_mu s p0) as [t1|]; [|reflexivity].
  destruct (Nat.eq_dec t1 t) as [->|Hn].
  - rewrite updt_same, Hth, Hk.
    destruct (N.eqb_spec (k_pub (t_kind th)) p0) as [E|_]; [congruence|]. rewrite !andb_false_r. reflexivity.
  - rewrite updt_other by assumption. reflexivity.
Qed.

Lemma updN_other {A} (m : N -> option A) p v q : q <> p -> updN m p v q = m q.
Proof. intro H. unfold updN. destruct (N.eqb_spec q p); [contradiction|reflexivity]. Qed.
Lemma updN_same {A} (m : N -> option A) p v : updN m p v p = v.
Proof. unfold updN. rewrite N.eqb_refl. reflexivity. Qed.

Ltac frameD D Hth :=
  let p0 := fresh "p0" in
  match goal with
  | |- InvD ?s' =>
    match type of Hth with
    | threads ?s _ = _ =>
      intro p0; rewrite (done_of_unchanged p0 s s' eq_refl), (sent_of_unchanged p0 s s' eq_refl);
      rewrite (D p0); f_equal; symmetry;
      eapply pend_frame; [reflexivity|exact Hth|reflexivity| |reflexivity]
    end
  end.

Lemma invD_step s l s' : InvB s -> InvA true s -> InvD s -> stepf true s l = Some s' -> InvD s'.
Proof.
  intros (B1 & B2 & B3 & B4 & B5 & B6 & B7) A D H.
  step_inv H; ssimp.
  all: try (frameD D Hth; ssimp; rewrite Hpc; reflexivity).
  - (* Spawn *)
    match goal with |- InvD ?s' => intro p0; rewrite (done_of_unchanged p0 s s' eq_refl), (sent_of_unchanged p0 s s' eq_refl), (D p0) end. f_equal.
    unfold pend; ssimp. destruct (sync_mu s p0) as [t1|]; [|reflexivity].
    destruct (Nat.eq_dec t1 (next_tid s)) as [->|Hne].
    + rewrite updt_same. destruct (threads s (next_tid s)) eqn:Hn; [specialize (B6 _ _ Hn); lia|].
      unfold new_thread. destruct k; [destruct (exp_closed s)|]; reflexivity.
    + rewrite updt_other by assumption. reflexivity.
  - (* PLock *)
    intro p0.
    match goal with |- done_of _ ?s' = _ => rewrite (done_of_unchanged p0 s s' eq_refl), (sent_of_unchanged p0 s s' eq_refl) end.
    rewrite (D p0). f_equal. symmetry.
    destruct (N.eq_dec p0 (k_pub (t_kind th))) as [->|Hne].
    + unfold pend; ssimp. rewrite updN_same, updt_same, Hsmu. reflexivity.
    + eapply pend_other; [exact Hne| |exact Hth|reflexivity|reflexivity]. ssimp. apply updN_other. exact Hne.
  - (* PRun fails *)
    assert (Hh : sync_mu s (k_pub (t_kind th)) = Some t) by (eapply sync_holder; [exact A|exact Hth|rewrite Hpc; reflexivity]).
    intro p0.
    match goal with |- done_of _ ?s' = _ =>
      rewrite (done_of_app p0 s s' _ _ _ _ eq_refl), (sent_of_unchanged p0 s s' eq_refl) end.
    rewrite (D p0), <- app_assoc. f_equal.
    destruct (N.eq_dec p0 (k_pub (t_kind th))) as [->|Hne].
    + rewrite N.eqb_refl, andb_true_r.
      unfold pend; ssimp. rewrite Hh, updt_same, Hth, Hpc. cbn [pending_pc andb app].
      unfold sends, after_handle, set_out; ssimp. rewrite N.eqb_refl.
      destruct (k_async (t_kind th)); reflexivity.
    + destruct (N.eqb_spec (k_pub (t_kind th)) p0) as [E|_]; [congruence|]. rewrite andb_false_r, app_nil_r.
      symmetry. eapply pend_other; [exact Hne|reflexivity|exact Hth|reflexivity|reflexivity].
  - (* PRun succeeds *)
    assert (Hh : sync_mu s (k_pub (t_kind th)) = Some t) by (eapply sync_holder; [exact A|exact Hth|rewrite Hpc; reflexivity]).
    intro p0.
    match goal with |- done_of _ ?s' = _ =>
      rewrite (done_of_app p0 s s' _ _ _ _ eq_refl), (sent_of_unchanged p0 s s' eq_refl) end.
    rewrite (D p0), <- app_assoc. f_equal.
    destruct (N.eq_dec p0 (k_pub (t_kind th))) as [->|Hne].
    + rewrite N.eqb_refl, andb_true_r.
      unfold pend; ssimp. rewrite Hh, updt_same, Hth, Hpc. cbn [pending_pc andb app].
      unfold sends, after_handle, set_out; ssimp. rewrite N.eqb_refl.
      destruct (k_upd (t_kind th)); reflexivity.
    + destruct (N.eqb_spec (k_pub (t_kind th)) p0) as [E|_]; [congruence|]. rewrite andb_false_r, app_nil_r.
      symmetry. eapply pend_other; [exact Hne|reflexivity|exact Hth|reflexivity|reflexivity].
  - (* PUnlock *)
    assert (Hh : sync_mu s (k_pub (t_kind th)) = Some t) by (eapply sync_holder; [exact A|exact Hth|rewrite Hpc; reflexivity]).
    intro p0.
    match goal with |- done_of _ ?s' = _ => rewrite (done_of_unchanged p0 s s' eq_refl), (sent_of_unchanged p0 s s' eq_refl) end.
    rewrite (D p0). f_equal. symmetry.
    destruct (N.eq_dec p0 (k_pub (t_kind th))) as [->|Hne].
    + unfold pend; ssimp. rewrite updN_same, Hh, Hth, Hpc. reflexivity.
    + eapply pend_other; [exact Hne| |exact Hth|reflexivity|reflexivity]. ssimp. apply updN_other. exact Hne.
  - (* PSend *)
    assert (Hh : sync_mu s (k_pub (t_kind th)) = Some t) by (eapply sync_holder; [exact A|exact Hth|rewrite Hpc; reflexivity]).
    intro p0.
    match goal with |- done_of _ ?s' = _ =>
      rewrite (done_of_unchanged p0 s s' eq_refl), (sent_of_app p0 s s' _ eq_refl) end.
    rewrite (D p0), <- app_assoc. f_equal. ssimp.
    destruct (N.eq_dec p0 (k_pub (t_kind th))) as [->|Hne].
    + rewrite N.eqb_refl.
      unfold pend; ssimp. rewrite Hh, updt_same, Hth, Hpc. cbn [pending_pc andb app]. rewrite N.eqb_refl. reflexivity.
    + destruct (N.eqb_spec (k_pub (t_kind th)) p0) as [E|_]; [congruence|]. cbn [app].
      symmetry. eapply pend_other; [exact Hne|reflexivity|exact Hth|reflexivity|reflexivity].
  - (* PSendErr *)
    assert (Hh : sync_mu s (k_pub (t_kind th)) = Some t) by (eapply sync_holder; [exact A|exact Hth|rewrite Hpc; reflexivity]).
    intro p0.
    match goal with |- done_of _ ?s' = _ =>
      rewrite (done_of_unchanged p0 s s' eq_refl), (sent_of_app p0 s s' _ eq_refl) end.
    rewrite (D p0), <- app_assoc. f_equal. ssimp.
    destruct (N.eq_dec p0 (k_pub (t_kind th))) as [->|Hne].
    + rewrite N.eqb_refl.
      unfold pend; ssimp. rewrite Hh, updt_same, Hth, Hpc. cbn [pending_pc andb app]. rewrite N.eqb_refl. reflexivity.
    + destruct (N.eqb_spec (k_pub (t_kind th)) p0) as [E|_]; [congruence|]. cbn [app].
      symmetry. eapply pend_other; [exact Hne|reflexivity|exact Hth|reflexivity|reflexivity].
  - intro p0; exact (D p0).
  - intro p0; exact (D p0).
  - intro p0; exact (D p0).
  - intro p0; exact (D p0).
  - intro p0; exact (D p0).
  - intro p0; exact (D p0).
  - intro p0; exact (D p0).
Qed.

Theorem invD_reach s : reach true s -> InvD s.
Proof.
  apply (invariant_reachable2 (stepf true) (fun s => InvB s /\ InvA true s) InvD).
  - intros s0 R. split; [apply (invB_reach _ _ R)|apply (invA_reach _ _ R)].
  - apply invD_init.
  - intros s0 l s1 [HB HA] HD Hs. eapply invD_step; eassumption.
Qed.

(* ================================================================== *)
(* Property theorems (sync layer, all schedules)                       *)

(* the global forward order is the order in which the syncs sent their events *)
Theorem forward_order_is_send_order fx s :
  reach fx s -> sent_log s = fwd (co s) ++ opt_list (in_ev (co s)).
Proof. intro R. apply (invC_reach _ _ R). Qed.

Theorem exactly_once_in_order fx s l x :
  reach fx s -> lst (co s) l = Some x -> l_reg x = true ->
  l_got x ++ l_q x ++ pending (co s) l = seg x (fwd (co s)).
Proof. intro R. apply core_exactly_once. eapply reach_core; eassumption. Qed.

Lemma NoDup_map_app_l {A B} (f : A -> B) l1 l2 : NoDup (map f (l1 ++ l2)) -> NoDup (map f l1).
Proof.
  rewrite map_app. revert l2. induction l1 as [|a r IH]; intros l2 H; cbn in *; [constructor|].
  inversion H; subst. constructor; [|eapply IH; eassumption].
  intro Hin. apply H2. apply in_or_app. left. assumption.
Qed.
Lemma NoDup_map_app_r {A B} (f : A -> B) l1 l2 : NoDup (map f (l1 ++ l2)) -> NoDup (map f l2).
Proof.
  rewrite map_app. induction l1 as [|a r IH]; intro H; cbn in *; [assumption|]. inversion H; auto.
Qed.

(* no notification reaches a listener twice *)
Theorem listener_no_duplicates fx s l x :
  reach fx s -> lst (co s) l = Some x -> NoDup (map e_sid (l_got x ++ l_q x)).
Proof.
  intros R Hl. destruct (invC_reach _ _ R) as (C1 & _ & _ & C4 & _).
  destruct (l_reg x) eqn:Hr.
  - pose proof (exactly_once_in_order _ _ _ _ R Hl Hr) as E.
    rewrite C1 in C4. apply NoDup_map_app_l in C4.
    assert (N1 : NoDup (map e_sid (seg x (fwd (co s))))).
    { unfold seg. set (n := match l_end x with Some n => n | None => _ end).
      rewrite <- (firstn_skipn n (fwd (co s))) in C4. apply NoDup_map_app_l in C4.
      rewrite <- (firstn_skipn (l_start x) (firstn n (fwd (co s)))) in C4. apply NoDup_map_app_r in C4. exact C4. }
    rewrite <- E in N1. rewrite app_assoc in N1. apply NoDup_map_app_l in N1. exact N1.
  - destruct (core_unregistered_empty _ _ _ (reach_core _ _ R) Hl Hr) as [-> ->]. constructor.
Qed.

Theorem closed_after_queued fx s l x :
  reach fx s -> lst (co s) l = Some x -> l_out_closed x = true ->
  l_in_closed x = true /\ l_q x = [] /\ pending (co s) l = [] /\
  (l_reg x = true -> exists n, l_end x = Some n /\ l_got x = skipn (l_start x) (firstn n (fwd (co s)))).
Proof. intro R. apply core_closed_after_queued. eapply reach_core; eassumption. Qed.

(* the cancel rendez-vous closes the listener's input: nothing is queued after it,
   what is queued stays readable *)
Theorem cancel_closes s l s' x :
  creach s -> cstep s (LRm l) = Some s' -> lst s l = Some x -> l_reg x = true -> l_in_closed x = false ->
  exists x', lst s' l = Some x' /\ l_in_closed x' = true /\ l_q x' = l_q x /\ l_got x' = l_got x /\
             l_end x' = Some (List.length (fwd s)) /\ ~ In l (d_list s').
Proof.
  intros R H Hl Hr Hc. destruct (cinv_reach _ R) as (ND & A2 & A3 & A4 & _).
  pose proof (A4 _ _ Hl) as (L1 & L2 & L3 & L4 & L5 & L6).
  assert (E : l_end x = None).
  { destruct (l_end x) eqn:E; [|reflexivity]. destruct (L4 _ eq_refl) as (_ & ? & _). congruence. }
  cbn [cstep] in H. destruct (d_pc s) eqn:Hpc; try discriminate.
  pose proof (A3 _ _ Hl Hr E) as Hin. unfold active in Hin, ND. rewrite Hpc in Hin, ND.
  assert (Hm : memn l (d_list s) = true) by (apply memn_In; exact Hin).
  rewrite Hm, Hl, Hc in H. inversion H; subst; clear H. csimp.
  eexists. rewrite updl_same. split; [reflexivity|]. csimp. repeat split; auto.
  intro Hi. apply swap_remove_In in Hi; [|exact ND]. destruct Hi as [_ Hne]. congruence.
Qed.

Theorem close_closes_all fx s :
  reach fx s -> d_pc (co s) = DDone ->
  forall l x, lst (co s) l = Some x -> l_reg x = true -> l_in_closed x = true.
Proof. intros R. apply core_done_closed_all. eapply reach_core; eassumption. Qed.

(* ---- forwarding and sending never wait for a reader ---- *)

Lemma run_core_dist fx n : forall s c',
  run_dist n (co s) = Some c' ->
  run (stepf fx) s (repeat (Core LDist) n) = Some (w_co s c').
Proof.
  induction n as [|n IH]; intros s c' H.
  - cbn in H. inversion H; subst. destruct s; reflexivity.
  - cbn [run_dist] in H. destruct (cstep (co s) LDist) as [c1|] eqn:E; [|discriminate].
    cbn [repeat run stepf core_label_ok]. rewrite E.
    rewrite (IH (w_co s c1) c' H). reflexivity.
Qed.

Lemma reach_run fx s ls s' : reach fx s -> run (stepf fx) s ls = Some s' -> reach fx s'.
Proof.
  intros [l0 R] H. exists (l0 ++ ls). rewrite run_app, R. exact H.
Qed.

Theorem forward_never_blocks fx s :
  reach fx s ->
  exists s', run (stepf fx) s (repeat (Core LDist) (dist_rank (co s))) = Some s' /\
             dist_rank (co s') = 0 /\ threads s' = threads s.
Proof.
  intro R. destruct (core_forward_never_blocks _ (reach_core _ _ R)) as (c' & Hrun & H0 & _).
  exists (w_co s c'). split; [apply run_core_dist; exact Hrun|]. auto.
Qed.

(* a sync that has its event ready is held up by the distributor's own steps only:
   after at most dist_rank + 1 of them its send is enabled, whatever the readers do *)
Theorem sync_send_not_delayed_by_readers fx s t th :
  reach fx s -> threads s t = Some th -> (t_pc th = PSend \/ t_pc th = PSendErr) ->
  exists n s1 s2, n <= S (dist_rank (co s)) /\
    run (stepf fx) s (repeat (Core LDist) n) = Some s1 /\ stepf fx s1 (Step t 0) = Some s2.
Proof.
  intros R Hth Hpc.
  destruct (forward_never_blocks _ _ R) as (s1 & Hrun & H0 & Hthr).
  assert (R1 : reach fx s1) by (eapply reach_run; eassumption).
  assert (Hth1 : threads s1 t = Some th) by (rewrite Hthr; exact Hth).
  pose proof (sender_not_closed s1 t th (invB_reach _ _ R1) Hth1 Hpc) as Hic.
  destruct (cinv_reach _ (reach_core _ _ R1)) as (_ & _ & _ & _ & _ & A6 & _).
  assert (Hsel : d_pc (co s1) = DSelect).
  { unfold dist_rank in H0. unfold dinv in A6. destruct (d_pc (co s1)); try discriminate H0; try reflexivity.
    destruct A6 as (_ & ? & _). congruence. }
  assert (Enabled : forall s', threads s' t = Some th -> in_closed (co s') = false -> in_ev (co s') = None ->
                               exists s2, stepf fx s' (Step t 0) = Some s2).
  { intros s' Ht' Hc' Hi'. cbn [stepf]. rewrite Ht'. unfold step_thread.
    destruct Hpc as [-> | ->]; cbn [cstep]; rewrite Hc', Hi'; eexists; reflexivity. }
  destruct (in_ev (co s1)) as [e|] eqn:Hi.
  - (* one more distributor step takes the queued event *)
    destruct (core_inevents_drained _ e (reach_core _ _ R1) Hsel Hi) as (c2 & Hc2 & Hi2 & _).
    assert (Hic2 : in_closed c2 = false).
    { destruct (cstep_ok_frame _ LDist _ eq_refl Hc2) as (F1 & _). congruence. }
    destruct (Enabled (w_co s1 c2) Hth1 Hic2 Hi2) as (s2 & Hs2).
    exists (S (dist_rank (co s))), (w_co s1 c2), s2. split; [lia|]. split; [|exact Hs2].
    replace (S (dist_rank (co s))) with (dist_rank (co s) + 1) by lia.
    rewrite repeat_app, run_app, Hrun. cbn [repeat run stepf core_label_ok]. rewrite Hc2. reflexivity.
  - destruct (Enabled s1 Hth1 Hic Hi) as (s2 & Hs2).
    exists (dist_rank (co s)), s1, s2. split; [lia|]. split; assumption.
Qed.

(* ---- one notification per sync that owes one ---- *)

Lemma tinvC_split fx t th :
  tinvC fx t th = true ->
  (if pre_send fx (t_pc th) then negb (is_some (t_ev th)) else Bool.eqb (is_some (t_ev th)) (sends th)) = true /\
  ev_ok t th = true.
Proof.
  unfold tinvC. intro H. apply andb_prop in H. destruct H as [H H5]. apply andb_prop in H. destruct H as [H H4].
  split; assumption.
Qed.

Lemma ev_ok_some t th e :
  ev_ok t th = true -> t_ev th = Some e ->
  e = mk_event t (t_kind th) (if e_err e then 0%N else out_cnt th) (e_err e) /\ e_err e = negb (out_ok th).
Proof.
  unfold ev_ok. intros H He. rewrite He in H. apply andb_prop in H. destruct H as [H1 H2].
  split; [apply event_eqb_eq; exact H1|apply Bool.eqb_prop; exact H2].
Qed.

Lemma pre_send_fin fx : pre_send fx PFin = false.
Proof. destruct fx; reflexivity. Qed.

Theorem event_of_sync fx s e :
  reach fx s -> In e (sent_log s) ->
  exists th, threads s (e_sid e) = Some th /\ t_ev th = Some e /\
             e = mk_event (e_sid e) (t_kind th) (if e_err e then 0%N else out_cnt th) (e_err e) /\
             e_err e = negb (out_ok th) /\ sends th = true.
Proof.
  intros R He. destruct (invC_reach _ _ R) as (_ & C2 & _ & _ & C5).
  destruct (C2 _ He) as (th & Hth & Hev). exists th. split; [exact Hth|]. split; [exact Hev|].
  destruct (tinvC_split _ _ _ (C5 _ _ Hth)) as [H4 H5].
  destruct (ev_ok_some _ _ _ H5 Hev) as [E1 E2]. split; [exact E1|]. split; [exact E2|].
  pose proof (tinvC_pre_send _ _ _ (C5 _ _ Hth)) as Hps.
  destruct (pre_send fx (t_pc th)); [specialize (Hps eq_refl); congruence|].
  rewrite Hev in H4. apply Bool.eqb_prop in H4. cbn in H4. congruence.
Qed.

Lemma fin_event fx s t th :
  reach fx s -> threads s t = Some th -> t_pc th = PFin ->
  is_some (t_ev th) = sends th /\ ev_ok t th = true.
Proof.
  intros R Hth Hpc. destruct (invC_reach _ _ R) as (_ & _ & _ & _ & C5).
  destruct (tinvC_split _ _ _ (C5 _ _ Hth)) as [H4 H5]. rewrite Hpc, pre_send_fin in H4.
  split; [apply Bool.eqb_prop; exact H4|exact H5].
Qed.

Theorem one_event_per_sync fx s t th :
  reach fx s -> threads s t = Some th -> t_pc th = PFin ->
  count_occ Nat.eq_dec (map e_sid (sent_log s)) t = if sends th then 1 else 0.
Proof.
  intros R Hth Hpc. destruct (invC_reach _ _ R) as (_ & C2 & C3 & C4 & _).
  destruct (fin_event _ _ _ _ R Hth Hpc) as [H4 H5]. rewrite <- H4.
  destruct (t_ev th) as [e|] eqn:Hev; cbn.
  - apply NoDup_count_occ'; [exact C4|]. apply in_map_iff. exists e. split; [|eapply C3; eassumption].
    destruct (ev_ok_some _ _ _ H5 Hev) as [E1 _]. rewrite E1. reflexivity.
  - apply count_occ_not_In. intro Hin. apply in_map_iff in Hin. destruct Hin as (e & Hs & He).
    destruct (C2 _ He) as (th' & Hth' & Hev'). rewrite Hs, Hth in Hth'. inversion Hth'; subst. congruence.
Qed.

(* a finished sync that updated the publisher's latest-sync: exactly one notification,
   carrying its publisher, CID and block count *)
Corollary one_event_per_updating_sync fx s t th n :
  reach fx s -> threads s t = Some th -> t_pc th = PFin ->
  t_out th = Some (true, n) -> k_upd (t_kind th) = true ->
  count_occ Nat.eq_dec (map e_sid (sent_log s)) t = 1 /\
  In (mk_event t (t_kind th) n false) (sent_log s).
Proof.
  intros R Hth Hpc Ho Hu. split.
  - rewrite (one_event_per_sync _ _ _ _ R Hth Hpc). unfold sends. rewrite Ho, Hu. reflexivity.
  - destruct (invC_reach _ _ R) as (_ & _ & C3 & _ & _).
    destruct (fin_event _ _ _ _ R Hth Hpc) as [H4 H5]. unfold sends in H4. rewrite Ho, Hu in H4.
    destruct (t_ev th) as [e|] eqn:Hev; [|discriminate H4].
    pose proof (C3 _ _ _ Hth Hev) as Hin.
    destruct (ev_ok_some _ _ _ H5 Hev) as [E1 E2]. unfold out_ok in E2. rewrite Ho in E2. cbn in E2.
    rewrite E2 in E1. unfold out_cnt in E1. rewrite Ho in E1. rewrite <- E1. exact Hin.
Qed.

(* a finished announce-triggered sync that failed: exactly one error notification *)
Corollary one_error_event_per_failed_async fx s t th n :
  reach fx s -> threads s t = Some th -> t_pc th = PFin ->
  t_out th = Some (false, n) -> k_async (t_kind th) = true ->
  count_occ Nat.eq_dec (map e_sid (sent_log s)) t = 1 /\
  In (mk_event t (t_kind th) 0%N true) (sent_log s).
Proof.
  intros R Hth Hpc Ho Hu. split.
  - rewrite (one_event_per_sync _ _ _ _ R Hth Hpc). unfold sends. rewrite Ho, Hu. reflexivity.
  - destruct (invC_reach _ _ R) as (_ & _ & C3 & _ & _).
    destruct (fin_event _ _ _ _ R Hth Hpc) as [H4 H5]. unfold sends in H4. rewrite Ho, Hu in H4.
    destruct (t_ev th) as [e|] eqn:Hev; [|discriminate H4].
    pose proof (C3 _ _ _ Hth Hev) as Hin.
    destruct (ev_ok_some _ _ _ H5 Hev) as [E1 E2]. unfold out_ok in E2. rewrite Ho in E2. cbn in E2.
    rewrite E2 in E1. rewrite <- E1. exact Hin.
Qed.

(* every other finished sync (failed explicit sync, explicit sync of a given head,
   nothing to do, refused because shutting down): no notification *)
Corollary no_event_otherwise fx s t th :
  reach fx s -> threads s t = Some th -> t_pc th = PFin -> sends th = false ->
  ~ In t (map e_sid (sent_log s)).
Proof.
  intros R Hth Hpc Hs Hin. pose proof (one_event_per_sync _ _ _ _ R Hth Hpc) as H. rewrite Hs in H.
  apply (count_occ_not_In Nat.eq_dec) in H. exact (H Hin).
Qed.

Theorem latest_before_event fx s e :
  reach fx s -> In e (sent_log s) -> e_err e = false ->
  In (e_pub e, e_cid e, e_sid e) (latest_log s).
Proof.
  intros R He Herr. destruct (event_of_sync _ _ _ R He) as (th & Hth & Hev & Heq & _).
  pose proof (invE_reach _ _ R _ _ Hth (or_intror (ex_intro _ e (conj Hev Herr)))) as H.
  rewrite Heq. cbn. exact H.
Qed.

Theorem no_panic fx s : reach fx s -> p_env (co s) = false /\ p_dist (co s) = false.
Proof.
  intro R. split; [apply (invB_reach _ _ R)|apply core_distributor_never_panics; eapply reach_core; eassumption].
Qed.

(* ---- per-publisher order ---- *)

Theorem per_publisher_order s p :
  reach true s -> exists r, done_of p s = sent_of p s ++ r /\ List.length r <= 1.
Proof.
  intro R. exists (pend p s). split; [apply (invD_reach _ R)|].
  unfold pend. destruct (sync_mu s p); [|cbn; lia]. destruct (threads s n); [|cbn; lia].
  destruct (pending_pc (t_pc t) && N.eqb (k_pub (t_kind t)) p); cbn; lia.
Qed.

(* the code as found: two explicit syncs of one publisher; A completes first, B second;
   B's event and latest-sync update overtake A's *)
Definition order_witness : list label :=
  [Spawn (KExp 1 10 true); Spawn (KExp 1 20 true);
   Step 0 0; Step 0 0; Step 0 3; Step 0 0;
   Step 1 0; Step 1 0; Step 1 4; Step 1 0; Step 1 0; Step 1 0;
   Core LDist; Core LDist;
   Step 0 0; Step 0 0; Core LDist; Core LDist;
   Step 0 0; Step 1 0].

Definition order_obs (s : st) := (done_of 1%N s, sent_of 1%N s, latest s 1%N).

Theorem per_publisher_order_refuted :
  exists s, reach false s /\ done_of 1%N s = [0; 1] /\ sent_of 1%N s = [1; 0] /\ latest s 1%N = Some 10%N.
Proof.
  assert (H : option_map order_obs (run (stepf false) init order_witness) = Some ([0; 1], [1; 0], Some 10%N))
    by (vm_compute; reflexivity).
  destruct (run (stepf false) init order_witness) as [s|] eqn:E; [|discriminate].
  exists s. split; [exists order_witness; exact E|].
  cbn [option_map] in H. unfold order_obs in H. inversion H. auto.
Qed.

(* the same schedule is impossible once the event is sent inside the sync lock *)
Example order_witness_impossible_when_fixed : run (stepf true) init order_witness = None.
Proof. vm_compute. reflexivity. Qed.

(* ---- non-vacuity: a run with two publishers, a registration racing with a forward,
        a cancel, a stalled listener and a close ---- *)
Definition demo : list label :=
  [Core LNew; Core (LAdd 0); Core LDist;
   Spawn (KExp 1 10 true); Spawn (KAsync 2 30);
   Step 0 0; Step 0 0; Step 0 4; Step 0 0; Step 0 0;   (* explicit sync of 1 sends *)
   Core LDist; Core LNew;                               (* taken; a second listener is created *)
   Core LDist; Core LDist; Core (LAdd 1); Core LDist;   (* forwarded to 0; then 1 is added *)
   Step 1 0; Step 1 0; Step 1 0; Step 1 0; Step 1 0; Step 1 0;   (* async sync of 2 fails, sends error *)
   Step 0 0; Step 0 0; Step 1 0; Step 1 0;
   Core LDist; Core LDist; Core LDist; Core LDist;
   Core (LRead 0); Core (LRm 0); Core LDist; Core (LRead 0); Core (LRead 0);
   Closer; Closer; Closer; Closer; Closer; Closer;
   Core LDist; Core LDist; Core LDist; Core (LRead 1); Core (LRead 1)].

Example demo_runs :
  match run (stepf true) init demo with
  | Some s =>
    match lst (co s) 0, lst (co s) 1 with
    | Some a, Some b =>
      (List.length (l_got a) =? 2) && l_out_closed a && (List.length (l_got b) =? 1) && l_out_closed b &&
      match d_pc (co s) with DDone => true | _ => false end
    | _, _ => false
    end
  | None => false
  end = true.
Proof. vm_compute. reflexivity. Qed.

(* ---- after close(inEvents) the distributor ends by its own steps, having forwarded
        what was still in the channel and closed every listener ---- *)

Definition close_rank (c : core) : nat :=
  match d_pc c with
  | DDone => 0
  | DClosing rest => S (List.length rest)
  | _ => dist_rank c + (match in_ev c with Some _ => 2 + List.length (d_list c) | None => 0 end)
         + 2 + List.length (d_list c)
  end.

Lemma close_step c :
  CInv c -> in_closed c = true -> close_rank c <> 0 ->
  exists c', cstep c LDist = Some c' /\ close_rank c' = pred (close_rank c) /\ in_closed c' = true /\
             fwd c' ++ opt_list (in_ev c') = fwd c ++ opt_list (in_ev c).
Proof.
  intros I Hc Hr. pose proof I as (ND & A2 & A3 & A4 & A5 & A6 & A7).
  unfold close_rank, dist_rank in *. cbn [cstep].
  destruct (d_pc c) as [|e rest| | |rest|] eqn:Hpc.
  - destruct (in_ev c) as [e|] eqn:Hi.
    + eexists. split; [reflexivity|]. csimp. cbn [List.length]. repeat split; auto; try lia.
      rewrite app_nil_r. reflexivity.
    + rewrite Hc. eexists. split; [reflexivity|]. csimp. repeat split; auto; try lia. rewrite Hi. reflexivity.
  - destruct rest as [|l rest].
    + eexists. split; [reflexivity|]. csimp. repeat split; auto; lia.
    + unfold dinv in A6. rewrite Hpc in A6. destruct A6 as ((pre & Hpre) & _).
      unfold active in A2. rewrite Hpc in A2.
      destruct (A2 l) as (x & Hx & _). { rewrite Hpre. apply in_or_app. right. left. reflexivity. }
      rewrite Hx. eexists. split; [reflexivity|]. destruct (l_in_closed x); csimp; cbn [List.length]; repeat split; auto; lia.
  - eexists. split; [reflexivity|]. csimp. repeat split; auto; lia.
  - eexists. split; [reflexivity|]. csimp. repeat split; auto; lia.
  - destruct rest as [|l rest].
    + eexists. split; [reflexivity|]. csimp. repeat split; auto.
    + unfold active in A2. rewrite Hpc in A2. destruct (A2 l (or_introl eq_refl)) as (x & Hx & _).
      rewrite Hx. eexists. split; [reflexivity|]. destruct (l_in_closed x); csimp; cbn [List.length]; repeat split; auto.
  - congruence.
Qed.

Theorem distributor_finishes_after_close c :
  creach c -> in_closed c = true ->
  exists c', run_dist (close_rank c) c = Some c' /\ d_pc c' = DDone /\ creach c' /\
             fwd c' = fwd c ++ opt_list (in_ev c).
Proof.
  intros R Hc. remember (close_rank c) as n eqn:Hn. revert c R Hc Hn.
  induction n as [|n IH]; intros c R Hc Hn.
  - exists c. cbn. split; [reflexivity|].
    assert (Hd : d_pc c = DDone).
    { unfold close_rank in Hn. destruct (d_pc c); try reflexivity; try discriminate Hn; lia. }
    split; [exact Hd|]. split; [exact R|].
    destruct (cinv_reach _ R) as (_ & _ & _ & _ & _ & A6 & _). unfold dinv in A6. rewrite Hd in A6.
    destruct A6 as (_ & _ & ->). cbn. rewrite app_nil_r. reflexivity.
  - destruct (close_step c (cinv_reach _ R) Hc) as (c1 & H1 & Hr1 & Hc1 & Hf1); [congruence|].
    assert (R1 : creach c1) by (eapply reachable_step; eassumption).
    destruct (IH c1 R1 Hc1) as (c' & Hrun & Hd & R' & Hf). { rewrite Hr1, <- Hn. reflexivity. }
    exists c'. cbn [run_dist]. rewrite H1. repeat split; auto. rewrite Hf, Hf1. reflexivity.
Qed.

(* Subscriber.Close: once inEvents is closed, the distributor's own steps (no reader,
   no other goroutine needed) forward what was still queued in inEvents, then close every
   listener; every registered listener's input is then closed *)
Theorem close_closes_all_after_queued fx s :
  reach fx s -> in_closed (co s) = true ->
  exists s', run (stepf fx) s (repeat (Core LDist) (close_rank (co s))) = Some s' /\
             d_pc (co s') = DDone /\ fwd (co s') = sent_log s /\
             forall l x, lst (co s') l = Some x -> l_reg x = true -> l_in_closed x = true.
Proof.
  intros R Hc. destruct (distributor_finishes_after_close _ (reach_core _ _ R) Hc) as (c' & Hrun & Hd & R' & Hf).
  exists (w_co s c'). split; [apply run_core_dist; exact Hrun|]. split; [exact Hd|].
  split; [cbn; rewrite Hf; symmetry; apply (forward_order_is_send_order _ _ R)|].
  intros l x Hl Hr. eapply core_done_closed_all; [exact R'|exact Hd|exact Hl|exact Hr].
Qed.
