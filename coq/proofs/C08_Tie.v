(* Part 4: the tie to the source.  Gen_Sync_dagsync.v is regenerated from
   /repo/dagsync/subscriber.go by harness/cmd/astgen on every run; these three facts are
   re-checked by computation against what the code says now. *)
From Coq Require Import List Bool.
From Lib Require Import SyncSkel.
From Model Require Import C08_AnnounceQueue.
From Gen Require Import Gen_Sync_dagsync.

Lemma tie_holds : tie_ok dagsync_funcs = true.
Proof. vm_compute. reflexivity. Qed.

Lemma balance_holds : balance_ok dagsync_funcs = true.
Proof. vm_compute. reflexivity. Qed.

Lemma handle_callers_hold : handle_callers_ok dagsync_funcs = true.
Proof. vm_compute. reflexivity. Qed.

Lemma handlers_mutex_holds : handlers_mutex_ok dagsync_funcs = true.
Proof. vm_compute. reflexivity. Qed.

(* the analyses are not vacuous: they reject the code as found (handle() taking
   h.syncMutex itself while SyncAdChain already holds it would self-deadlock) and a
   return path that keeps handlersMutex *)
Open Scope string_scope.
Example balance_rejects_leak :
  balanced 300 [SLock "s.handlersMutex"; SIf "" [SReturn] []; SUnlock "s.handlersMutex"] = false.
Proof. vm_compute. reflexivity. Qed.
Example nonblocking_rejects_send :
  balanced_nonblocking c08_env 300 [SLock "s.handlersMutex"; SSend "ch"; SUnlock "s.handlersMutex"] = false.
Proof. vm_compute. reflexivity. Qed.
Example handle_callers_rejects_other_lock :
  locked_before_handle false (flat [SLock "hnd.entMutex"; SCall "handle"; SUnlock "hnd.entMutex"]) = false.
Proof. vm_compute. reflexivity. Qed.
Example spawned_finds_goroutine : List.length (spawned expected_watch) = 1.
Proof. vm_compute. reflexivity. Qed.
