(* GenTie_C13 -- ingest/schema/types.go Advertisement.Validate as regenerated from the Go source
   (gen/Gen_Funcs_schema.v) is the model's [validate] (model/C13_IpldSchema.v): the two length
   limits, with the constants of the source. *)
From Coq Require Import ZArith NArith List Bool Lia String.
From Lib Require Import Bytes Cid.
From Model Require Import C13_DagCbor C13_IpldSchema.
From Proofs Require Import GenTie_Lib.
From Gen Require Import Gen_Consts Gen_Funcs_prelude Gen_Funcs_schema.
Import ListNotations.
Open Scope Z_scope.

Theorem tie_Validate : forall a : ad,
  validate a = isNone (schema_Advertisement_Validate (a_ctx a) (a_meta a)).
Proof.
  intros. unfold validate, schema_Advertisement_Validate.
  assert (E : forall (c : Z) (b : bytes), (Z.of_N (blen b) <=? c) = negb (c <? len b)).
  { intros c b. unfold blen, len. destruct (Z.leb_spec (Z.of_N (N.of_nat (List.length b))) c);
      symmetry; [apply negb_true_iff, Z.ltb_ge|apply negb_false_iff, Z.ltb_lt]; lia. }
  rewrite !E.
  destruct (schema_MaxContextIDLen <? len (a_ctx a)); cbn [negb andb isNone]; [reflexivity|].
  destruct (schema_MaxMetadataLen <? len (a_meta a)); reflexivity.
Qed.

(* which limit is reported when both are exceeded: the context ID first *)
Theorem Validate_error_order : forall ctx md : list N,
  schema_MaxContextIDLen < len ctx ->
  schema_Advertisement_Validate ctx md = Some "context id too long"%string.
Proof.
  intros ctx md H. unfold schema_Advertisement_Validate.
  replace (schema_MaxContextIDLen <? len ctx) with true by (symmetry; apply Z.ltb_lt; exact H). reflexivity.
Qed.
