(* C12 — lemmas and proofs about model/C12_DHash.v *)
From Coq Require Import Lia ZifyN ZifyNat ZifyBool.
From Lib Require Import Bytes Varint.
From Model Require Import C12_DHash.
From Gen Require Import Gen_Consts.
From Coq Require Import List.
Import ListNotations.
Open Scope N_scope.
Local Arguments N.mul : simpl never.
Local Arguments N.add : simpl never.
Local Arguments N.sub : simpl never.
Local Arguments firstn : simpl nomatch.

(* ------------------------------------------------------------------ *)
(* the constants of the model are the constants of dhash.go (Gen_Consts.v is
   regenerated from the source on every run)                            *)

Lemma prefixes_match_source :
  second_prefix = str_bytes dhash_secondHashPrefix /\
  key_prefix = str_bytes dhash_deriveKeyPrefix /\
  nonce_prefix = str_bytes dhash_noncePrefix /\
  Z.of_nat nonce_len = dhash_nonceLen /\
  length second_prefix = 64%nat /\ length key_prefix = 64%nat /\ length nonce_prefix = 64%nat.
Proof. repeat split; vm_compute; reflexivity. Qed.

Global Opaque second_prefix key_prefix nonce_prefix.

Lemma Ok_inj {A} (a b : A) : Ok a = Ok b -> a = b.
Proof. intro H; injection H; auto. Qed.

(* ------------------------------------------------------------------ *)
(* small generalities                                                   *)

Lemma bytes_eqb_refl a : bytes_eqb a a = true.
Proof. apply bytes_eqb_eq. reflexivity. Qed.

Lemma bytes_eqb_neq a b : a <> b -> bytes_eqb a b = false.
Proof.
  intro H. destruct (bytes_eqb a b) eqn:E; [|reflexivity].
  apply bytes_eqb_eq in E. contradiction.
Qed.

Lemma firstn_app_exact {A} (l r : list A) : firstn (length l) (l ++ r) = l.
Proof. rewrite firstn_app, Nat.sub_diag, firstn_all. cbn. apply app_nil_r. Qed.

Lemma skipn_app_exact {A} (l r : list A) : skipn (length l) (l ++ r) = r.
Proof. rewrite skipn_app, Nat.sub_diag, skipn_all. reflexivity. Qed.

Lemma mapM_pure {A B} (f : A -> res B) (g : A -> B) l :
  (forall x, In x l -> f x = Ok (g x)) -> mapM f l = Ok (map g l).
Proof.
  induction l as [|x l IH]; intro H; cbn; [reflexivity|].
  rewrite H by (left; reflexivity). cbn. rewrite IH by (intros; apply H; right; assumption).
  reflexivity.
Qed.

(* ------------------------------------------------------------------ *)
(* varint / multihash layout                                            *)

Lemma dec_f_app : forall bs i v k r, dec_f i bs = Ok (v, k) -> dec_f i (bs ++ r) = Ok (v, k) /\ (k <= length bs)%nat.
Proof.
  induction bs as [|b bs IH]; intros i v k r H; cbn [dec_f] in H; [discriminate|].
  cbn [app dec_f length].
  destruct ((Nat.eqb i 8 && (128 <=? b)) || Nat.leb 9 i)%bool; [discriminate|].
  destruct (b <? 128).
  - destruct ((b =? 0) && negb (Nat.eqb i 0))%bool; [discriminate|].
    inversion H; subst. split; [reflexivity|lia].
  - destruct (dec_f (S i) bs) as [[v' k']| |] eqn:E; try discriminate.
    inversion H; subst; clear H.
    destruct (IH _ _ _ r E) as [-> Hk]. split; [reflexivity|lia].
Qed.

Lemma dec_f_no_panic : forall bs i c, dec_f i bs <> Panic c.
Proof.
  induction bs as [|b bs IH]; intros i c; cbn [dec_f]; [discriminate|].
  destruct ((Nat.eqb i 8 && (128 <=? b)) || Nat.leb 9 i)%bool; [discriminate|].
  destruct (b <? 128).
  - destruct ((b =? 0) && negb (Nat.eqb i 0))%bool; discriminate.
  - destruct (dec_f (S i) bs) as [[v' k']| |] eqn:E; try discriminate.
    exfalso. eapply IH. exact E.
Qed.

Lemma uvarint_app buf v rest r : uvarint buf = Ok (v, rest) -> uvarint (buf ++ r) = Ok (v, rest ++ r).
Proof.
  unfold uvarint, dec_rest, dec. intro H.
  destruct (dec_f 0 buf) as [[v' k]| |] eqn:E; try discriminate.
  inversion H; subst; clear H.
  destruct (dec_f_app _ _ _ _ r E) as [-> Hk].
  rewrite skipn_app. replace (k - length buf)%nat with 0%nat by lia. reflexivity.
Qed.

Lemma uvarint_len buf v rest : uvarint buf = Ok (v, rest) -> (length rest < length buf)%nat.
Proof.
  unfold uvarint, dec_rest, dec. intro H.
  destruct (dec_f 0 buf) as [[v' k]| |] eqn:E; try discriminate.
  inversion H; subst; clear H.
  assert (1 <= k)%nat.
  { destruct buf as [|b bs]; cbn [dec_f] in E; [discriminate|].
    destruct ((Nat.eqb 0 8 && (128 <=? b)) || Nat.leb 9 0)%bool; [discriminate|].
    destruct (b <? 128).
    - destruct ((b =? 0) && negb (Nat.eqb 0 0))%bool; [discriminate|]. inversion E; lia.
    - destruct (dec_f 1 bs) as [[v'' k'']| |]; try discriminate. inversion E; lia. }
  destruct (dec_f_app _ _ _ _ [] E) as [_ Hk].
  rewrite skipn_length. lia.
Qed.

Lemma uvarint_no_panic buf c : uvarint buf <> Panic c.
Proof.
  unfold uvarint, dec_rest, dec.
  destruct (dec_f 0 buf) as [[v k]| |] eqn:E; try discriminate.
  exfalso. eapply dec_f_no_panic. exact E.
Qed.

Lemma uvarint_enc n r : n < 2 ^ 63 -> uvarint (enc n ++ r) = Ok (n, r).
Proof. intro H. unfold uvarint. rewrite dec_rest_enc by exact H. reflexivity. Qed.

(* a multihash is self-delimiting: what follows it does not change how it reads *)
Lemma mh_read_app m r rlen code dig :
  mh_read m = Ok (rlen, code, dig) -> mh_read (m ++ r) = Ok (rlen, code, dig).
Proof.
  unfold mh_read. intro H.
  destruct (Nat.ltb (length m) 2) eqn:L; [discriminate|].
  apply Nat.ltb_ge in L.
  rewrite app_length.
  replace (Nat.ltb (length m + length r) 2) with false by (symmetry; apply Nat.ltb_ge; lia).
  destruct (uvarint m) as [[c r1]| |] eqn:E1; try discriminate. cbn [bind] in H.
  rewrite (uvarint_app _ _ _ r E1). cbn [bind].
  destruct (uvarint r1) as [[len r2]| |] eqn:E2; try discriminate. cbn [bind] in H.
  rewrite (uvarint_app _ _ _ r E2). cbn [bind].
  destruct (max_int32 <? len); [discriminate|].
  destruct (N.of_nat (length r2) <? len) eqn:L2; [discriminate|].
  rewrite app_length.
  replace (N.of_nat (length r2 + length r) <? len) with false by lia.
  inversion H; subst; clear H.
  pose proof (uvarint_len _ _ _ E1). pose proof (uvarint_len _ _ _ E2).
  f_equal. f_equal; [f_equal; lia|].
  rewrite firstn_app. replace (N.to_nat len - length r2)%nat with 0%nat by lia.
  cbn. apply app_nil_r.
Qed.

Lemma mh_read_no_panic buf c : mh_read buf <> Panic c.
Proof.
  unfold mh_read.
  destruct (Nat.ltb (length buf) 2); [discriminate|].
  destruct (uvarint buf) as [[cd r1]| |] eqn:E1; cbn [bind]; try discriminate.
  2:{ exfalso. eapply uvarint_no_panic. exact E1. }
  destruct (uvarint r1) as [[len r2]| |] eqn:E2; cbn [bind]; try discriminate.
  2:{ exfalso. eapply uvarint_no_panic. exact E2. }
  destruct (max_int32 <? len); [discriminate|].
  destruct (N.of_nat (length r2) <? len); discriminate.
Qed.

Lemma mh_read_rlen buf rlen code dig : mh_read buf = Ok (rlen, code, dig) -> (rlen <= length buf)%nat.
Proof.
  unfold mh_read.
  destruct (Nat.ltb (length buf) 2); [discriminate|].
  destruct (uvarint buf) as [[cd r1]| |] eqn:E1; cbn [bind]; try discriminate.
  destruct (uvarint r1) as [[len r2]| |] eqn:E2; cbn [bind]; try discriminate.
  destruct (max_int32 <? len); [discriminate|].
  destruct (N.of_nat (length r2) <? len) eqn:L; [discriminate|].
  intro H; inversion H; subst.
  pose proof (uvarint_len _ _ _ E1). pose proof (uvarint_len _ _ _ E2). lia.
Qed.

Lemma mh_read_encode code digest r :
  code < 2 ^ 63 -> N.of_nat (length digest) <= max_int32 ->
  mh_read (mh_encode code digest ++ r) = Ok (length (mh_encode code digest), code, digest).
Proof.
  intros Hc Hl. apply mh_read_app.
  unfold mh_read, mh_encode.
  pose proof (enc_length code). pose proof (enc_length (N.of_nat (length digest))).
  rewrite !app_length.
  replace (Nat.ltb _ 2) with false by (symmetry; apply Nat.ltb_ge; lia).
  rewrite uvarint_enc by exact Hc. cbn [bind].
  rewrite uvarint_enc by (unfold max_int32 in Hl; lia). cbn [bind].
  replace (max_int32 <? N.of_nat (length digest)) with false by lia.
  replace (N.of_nat (length digest) <? N.of_nat (length digest)) with false by lia.
  rewrite Nat2N.id, firstn_all. f_equal. f_equal. f_equal. lia.
Qed.

(* every code < 2^63 with every digest of at most MaxInt32 bytes is a peer ID libp2p accepts *)
Lemma mh_encode_valid code digest :
  code < 2 ^ 63 -> N.of_nat (length digest) <= max_int32 -> valid_peer_id (mh_encode code digest).
Proof.
  intros Hc Hl. unfold valid_peer_id, mh_cast.
  pose proof (mh_read_encode code digest [] Hc Hl) as H. rewrite app_nil_r in H.
  rewrite H. cbn [bind]. rewrite Nat.eqb_refl. reflexivity.
Qed.

Lemma mh_read_first_86 rest rlen code dig : mh_read (86 :: rest) = Ok (rlen, code, dig) -> code = DBL_SHA2_256.
Proof.
  unfold mh_read. destruct (Nat.ltb _ 2); [discriminate|].
  change (uvarint (86 :: rest)) with (Ok (86, rest) : res (N * bytes)). cbn [bind].
  destruct (uvarint rest) as [[len r2]| |]; cbn [bind]; try discriminate.
  destruct (max_int32 <? len); [discriminate|].
  destruct (N.of_nat (length r2) <? len); [discriminate|].
  intro H; inversion H. reflexivity.
Qed.

Lemma enc_f_len_mono : forall fuel n m, n <= m -> (length (enc_f fuel n) <= length (enc_f fuel m))%nat.
Proof.
  induction fuel as [|f IH]; intros n m H; cbn [enc_f]; [lia|].
  destruct (n <? 128) eqn:Hn; destruct (m <? 128) eqn:Hm; cbn [length]; try lia.
  apply le_n_S. apply IH. apply N.div_le_mono; lia.
Qed.

(* the digest can be recovered from the encoding, whatever its length *)
Lemma mh_encode_inj code d d' : mh_encode code d = mh_encode code d' -> d = d'.
Proof.
  unfold mh_encode. intro H. apply app_inv_head in H.
  assert (L : length d = length d').
  { pose proof (f_equal (@length N) H) as HL. rewrite !app_length in HL. unfold enc in HL.
    destruct (Nat.lt_trichotomy (length d) (length d')) as [Lt|[Eq|Gt]]; [|exact Eq|].
    - pose proof (enc_f_len_mono 10 (N.of_nat (length d)) (N.of_nat (length d')) ltac:(lia)). lia.
    - pose proof (enc_f_len_mono 10 (N.of_nat (length d')) (N.of_nat (length d)) ltac:(lia)). lia. }
  rewrite L in H. apply app_inv_head in H. exact H.
Qed.

(* ------------------------------------------------------------------ *)
(* value keys                                                           *)

Lemma split_create_valid pid ctx :
  valid_peer_id pid -> split_value_key (create_value_key pid ctx) = Ok (pid, ctx).
Proof.
  unfold valid_peer_id, mh_cast, split_value_key, create_value_key, mh_from_bytes.
  intro V.
  destruct (mh_read pid) as [[[rlen code] dig]| |] eqn:E; try discriminate. cbn [bind] in V.
  destruct (Nat.eqb (length pid) rlen) eqn:L; [|discriminate]. apply Nat.eqb_eq in L. subst rlen.
  rewrite (mh_read_app _ ctx _ _ _ E). cbn [bind].
  rewrite firstn_app_exact. unfold mh_cast. rewrite E. cbn [bind]. rewrite Nat.eqb_refl. cbn [bind].
  rewrite skipn_app_exact. reflexivity.
Qed.

Lemma split_create_encoded code digest ctx :
  code < 2 ^ 63 -> N.of_nat (length digest) <= max_int32 ->
  split_value_key (create_value_key (mh_encode code digest) ctx) = Ok (mh_encode code digest, ctx).
Proof. intros. apply split_create_valid. apply mh_encode_valid; assumption. Qed.

(* the two kinds of peer ID libp2p derives from keys *)
Lemma split_create_identity key ctx :
  (length key <= 42)%nat ->
  split_value_key (create_value_key (mh_encode IDENTITY key) ctx) = Ok (mh_encode IDENTITY key, ctx).
Proof. intro H. apply split_create_encoded; unfold IDENTITY, max_int32; [reflexivity|lia]. Qed.

Lemma split_create_sha256 digest ctx :
  length digest = 32%nat ->
  split_value_key (create_value_key (mh_encode SHA2_256 digest) ctx) = Ok (mh_encode SHA2_256 digest, ctx).
Proof. intro H. apply split_create_encoded; unfold SHA2_256, max_int32; [reflexivity|lia]. Qed.

(* whatever splits is the concatenation of a peer ID and the rest: nothing is lost or invented *)
Lemma split_sound vk pid ctx :
  split_value_key vk = Ok (pid, ctx) -> vk = create_value_key pid ctx /\ valid_peer_id pid.
Proof.
  unfold split_value_key, mh_from_bytes, create_value_key, valid_peer_id.
  destruct (mh_read vk) as [[[nr code] dig]| |] eqn:E; try discriminate. cbn [bind].
  destruct (mh_cast (firstn nr vk)) as [[]| |] eqn:C; try discriminate. cbn [bind].
  intro H; inversion H; subst. split; [symmetry; apply firstn_skipn|exact C].
Qed.

Lemma split_no_panic vk : is_panic (split_value_key vk) = false.
Proof.
  unfold split_value_key, mh_from_bytes.
  destruct (mh_read vk) as [[[nr code] dig]| |] eqn:E; cbn [bind]; try reflexivity.
  2:{ exfalso. eapply mh_read_no_panic. exact E. }
  unfold mh_cast.
  destruct (mh_read (firstn nr vk)) as [[[nr' code'] dig']| |] eqn:E'; cbn [bind]; try reflexivity.
  2:{ exfalso. eapply mh_read_no_panic. exact E'. }
  destruct (Nat.eqb _ _); reflexivity.
Qed.

(* the value key determines the peer ID and the context ID *)
Lemma create_value_key_inj pid ctx pid' ctx' :
  valid_peer_id pid -> valid_peer_id pid' ->
  create_value_key pid ctx = create_value_key pid' ctx' -> pid = pid' /\ ctx = ctx'.
Proof.
  intros V V' H.
  pose proof (split_create_valid pid ctx V) as S. rewrite H in S.
  rewrite (split_create_valid pid' ctx' V') in S. inversion S; auto.
Qed.

(* ------------------------------------------------------------------ *)
(* encryption wrappers, for total primitives                            *)

Section Wrappers.
  Variable sha : bytes -> bytes.
  Variable seal : bytes -> bytes -> bytes -> bytes.
  Variable open : bytes -> bytes -> bytes -> option bytes.
  Let I := ideal sha seal open.

  Lemma encrypt_aes_ideal p pass :
    encrypt_aes I p pass = Ok (ideal_nonce sha p pass, seal (ideal_key sha pass) (ideal_nonce sha p pass) p).
  Proof. reflexivity. Qed.

  Lemma encrypt_blob_ideal p pass : encrypt_blob I p pass = Ok (ideal_blob sha seal p pass).
  Proof. reflexivity. Qed.

  Lemma second_multihash_ideal mh :
    second_multihash I mh = Ok (mh_encode DBL_SHA2_256 (sha (second_prefix ++ mh))).
  Proof. reflexivity. Qed.

  Lemma decrypt_aes_ideal n c pass :
    length n = nonce_len ->
    decrypt_aes I n c pass = match open (ideal_key sha pass) n c with Some p => Ok p | None => Err EAuth end.
  Proof. intro H. unfold decrypt_aes. rewrite H, Nat.eqb_refl. reflexivity. Qed.

  (* --- never a panic, whatever the primitives do and whatever the input --- *)

  Lemma decrypt_aes_no_panic n c pass : is_panic (decrypt_aes I n c pass) = false.
  Proof.
    unfold decrypt_aes. destruct (negb _); [reflexivity|]. cbn.
    destruct (open _ _ _); reflexivity.
  Qed.

  Lemma decrypt_value_key_no_panic evk mh : is_panic (decrypt_value_key I evk mh) = false.
  Proof. unfold decrypt_value_key. destruct (Nat.leb _ _); [reflexivity|]. apply decrypt_aes_no_panic. Qed.

  Lemma decrypt_metadata_no_panic emd vk : is_panic (decrypt_metadata I emd vk) = false.
  Proof. unfold decrypt_metadata. destruct (Nat.leb _ _); [reflexivity|]. apply decrypt_aes_no_panic. Qed.

  (* the unrepaired code panics *)
  Lemma decrypt_value_key_v0_panics evk mh :
    (length evk < 12)%nat -> decrypt_value_key_v0 I evk mh = Panic PSliceBounds.
  Proof.
    intro H. unfold decrypt_value_key_v0, nonce_len.
    replace (Nat.ltb (length evk) 12) with true by (symmetry; apply Nat.ltb_lt; exact H). reflexivity.
  Qed.

  Lemma decrypt_aes_v0_panics n c pass :
    length n <> 12%nat -> decrypt_aes_v0 I n c pass = Panic PNonceSize.
  Proof.
    intro H. unfold decrypt_aes_v0, nonce_len. cbn.
    replace (Nat.eqb (length n) 12) with false by (symmetry; apply Nat.eqb_neq; exact H). reflexivity.
  Qed.

  (* --- the shape of a blob --- *)

  Hypothesis Hmin : law_sha_min sha.

  Lemma ideal_nonce_len p pass : length (ideal_nonce sha p pass) = nonce_len.
  Proof. unfold ideal_nonce. rewrite firstn_length. pose proof (Hmin (nonce_prefix ++ le64 (N.of_nat (length p)) ++ p ++ pass)). unfold nonce_len. lia. Qed.

  Lemma blob_firstn p pass : firstn nonce_len (ideal_blob sha seal p pass) = ideal_nonce sha p pass.
  Proof. unfold ideal_blob. rewrite <- (ideal_nonce_len p pass) at 1. apply firstn_app_exact. Qed.

  Lemma blob_skipn p pass :
    skipn nonce_len (ideal_blob sha seal p pass) = seal (ideal_key sha pass) (ideal_nonce sha p pass) p.
  Proof. unfold ideal_blob. rewrite <- (ideal_nonce_len p pass) at 1. apply skipn_app_exact. Qed.

  (* decrypting a blob whose length exceeds the nonce: what the wrappers reduce to *)
  Lemma decrypt_blob_long x pass :
    (nonce_len < length x)%nat ->
    decrypt_value_key I x pass =
      match open (ideal_key sha pass) (firstn nonce_len x) (skipn nonce_len x) with Some p => Ok p | None => Err EAuth end
    /\ decrypt_metadata I x pass = decrypt_value_key I x pass.
  Proof.
    intro H. unfold decrypt_value_key, decrypt_metadata.
    replace (Nat.leb (length x) nonce_len) with false by (symmetry; apply Nat.leb_gt; exact H).
    split; [|reflexivity]. apply decrypt_aes_ideal. rewrite firstn_length. lia.
  Qed.

  Lemma decrypt_blob_short x pass :
    (length x <= nonce_len)%nat ->
    decrypt_value_key I x pass = Err ETooShort /\ decrypt_metadata I x pass = Err ETooShort.
  Proof.
    intro H. unfold decrypt_value_key, decrypt_metadata.
    replace (Nat.leb (length x) nonce_len) with true by (symmetry; apply Nat.leb_le; exact H). auto.
  Qed.

  Section RoundTrip.
    Hypothesis Hne : law_seal_nonempty seal.
    Hypothesis Hrt : law_round_trip seal open.

    Lemma blob_long p pass : (nonce_len < length (ideal_blob sha seal p pass))%nat.
    Proof.
      unfold ideal_blob. rewrite app_length, ideal_nonce_len.
      pose proof (Hne (ideal_key sha pass) (ideal_nonce sha p pass) p).
      destruct (seal _ _ _); [contradiction|cbn [length]; unfold nonce_len; lia].
    Qed.

    Lemma decrypt_blob_encrypt p pass :
      decrypt_value_key I (ideal_blob sha seal p pass) pass = Ok p /\
      decrypt_metadata I (ideal_blob sha seal p pass) pass = Ok p.
    Proof.
      destruct (decrypt_blob_long _ pass (blob_long p pass)) as [E1 E2].
      rewrite E2, E1, blob_firstn, blob_skipn, Hrt. auto.
    Qed.

    Lemma decrypt_encrypt_all p pass :
      (forall n c, encrypt_aes I p pass = Ok (n, c) -> decrypt_aes I n c pass = Ok p) /\
      (forall evk, encrypt_value_key I p pass = Ok evk -> decrypt_value_key I evk pass = Ok p) /\
      (forall emd, encrypt_metadata I p pass = Ok emd -> decrypt_metadata I emd pass = Ok p) /\
      (exists n c, encrypt_aes I p pass = Ok (n, c)) /\
      (exists evk, encrypt_value_key I p pass = Ok evk) /\ (exists emd, encrypt_metadata I p pass = Ok emd).
    Proof.
      repeat split.
      - intros n c H. rewrite encrypt_aes_ideal in H. inversion H; subst.
        rewrite decrypt_aes_ideal by apply ideal_nonce_len. rewrite Hrt. reflexivity.
      - intros evk H. unfold encrypt_value_key in H. rewrite encrypt_blob_ideal in H. inversion H; subst.
        apply decrypt_blob_encrypt.
      - intros emd H. unfold encrypt_metadata in H. rewrite encrypt_blob_ideal in H. inversion H; subst.
        apply decrypt_blob_encrypt.
      - eexists _, _. apply encrypt_aes_ideal.
      - eexists. apply encrypt_blob_ideal.
      - eexists. apply encrypt_blob_ideal.
    Qed.

    (* equal ciphertexts iff equal payloads: values can be compared without decrypting *)
    Lemma encrypt_comparable p p' pass :
      encrypt_blob I p pass = encrypt_blob I p' pass <-> p = p'.
    Proof.
      split; [|intros ->; reflexivity].
      rewrite !encrypt_blob_ideal. intro H. inversion H as [H'].
      pose proof (proj1 (decrypt_blob_encrypt p pass)) as D. rewrite H' in D.
      rewrite (proj1 (decrypt_blob_encrypt p' pass)) in D. inversion D. reflexivity.
    Qed.
  End RoundTrip.

  (* --- wrong passphrase, under the symbolic AEAD laws --- *)
  Section WrongPass.
    Hypothesis Hne : law_seal_nonempty seal.
    Hypothesis Hauth : law_authentic seal open.
    Hypothesis Hinj : law_seal_injective seal.

    Lemma blob_long' p pass : (nonce_len < length (ideal_blob sha seal p pass))%nat.
    Proof.
      unfold ideal_blob. rewrite app_length, ideal_nonce_len.
      pose proof (Hne (ideal_key sha pass) (ideal_nonce sha p pass) p).
      destruct (seal _ _ _); [contradiction|cbn [length]; unfold nonce_len; lia].
    Qed.

    Lemma wrong_key_fails p pass pass' :
      ideal_key sha pass <> ideal_key sha pass' ->
      decrypt_value_key I (ideal_blob sha seal p pass) pass' = Err EAuth /\
      decrypt_metadata I (ideal_blob sha seal p pass) pass' = Err EAuth /\
      decrypt_aes I (ideal_nonce sha p pass) (seal (ideal_key sha pass) (ideal_nonce sha p pass) p) pass' = Err EAuth.
    Proof.
      intro K.
      assert (O : open (ideal_key sha pass') (ideal_nonce sha p pass) (seal (ideal_key sha pass) (ideal_nonce sha p pass) p) = None).
      { destruct (open _ _ _) as [q|] eqn:E; [|reflexivity].
        apply Hauth in E. apply Hinj in E. destruct E as [E _]. contradiction. }
      destruct (decrypt_blob_long _ pass' (blob_long' p pass)) as [E1 E2].
      rewrite E2, E1, blob_firstn, blob_skipn, O.
      rewrite decrypt_aes_ideal by apply ideal_nonce_len. rewrite O. auto.
    Qed.

    Lemma wrong_passphrase_cf p pass pass' :
      law_collision_free sha -> pass <> pass' ->
      decrypt_value_key I (ideal_blob sha seal p pass) pass' = Err EAuth /\
      decrypt_metadata I (ideal_blob sha seal p pass) pass' = Err EAuth /\
      decrypt_aes I (ideal_nonce sha p pass) (seal (ideal_key sha pass) (ideal_nonce sha p pass) p) pass' = Err EAuth.
    Proof.
      intros CF N. apply wrong_key_fails. unfold ideal_key. intro E.
      apply CF in E. apply app_inv_head in E. contradiction.
    Qed.
  End WrongPass.

  (* --- any alteration, under ciphertext integrity --- *)
  Section Tamper.
    Variable honest : list (bytes * bytes).     (* every (payload, passphrase) ever encrypted *)
    Hypothesis Hint : law_int_ctxt seal open (sealed_of sha honest).

    Lemma opened_is_honest k n c q :
      open k n c = Some q ->
      exists pass, In (q, pass) honest /\ k = ideal_key sha pass /\ n = ideal_nonce sha q pass /\
                   c = seal (ideal_key sha pass) (ideal_nonce sha q pass) q.
    Proof.
      intro E. apply Hint in E. destruct E as [Hin Hc].
      unfold sealed_of in Hin. apply in_map_iff in Hin. destruct Hin as [[p pass] [Heq Hin]].
      inversion Heq; subst. exists pass. auto.
    Qed.

    Lemma tamper_blob x pass' :
      (forall p pass, In (p, pass) honest -> x <> ideal_blob sha seal p pass) ->
      (exists e, decrypt_value_key I x pass' = Err e) /\ (exists e, decrypt_metadata I x pass' = Err e).
    Proof.
      intro Hx.
      destruct (Nat.leb (length x) nonce_len) eqn:L.
      - apply Nat.leb_le in L. destruct (decrypt_blob_short x pass' L) as [-> ->]. split; eexists; reflexivity.
      - apply Nat.leb_gt in L. destruct (decrypt_blob_long x pass' L) as [E1 E2]. rewrite E2, E1.
        destruct (open _ _ _) as [q|] eqn:O; [|split; eexists; reflexivity].
        exfalso. apply opened_is_honest in O. destruct O as (pass & Hin & _ & Hn & Hc).
        apply (Hx q pass Hin). unfold ideal_blob. rewrite <- Hc, <- Hn. symmetry. apply firstn_skipn.
    Qed.

    Lemma tamper_aes n c pass' :
      (forall p pass, In (p, pass) honest ->
         (n, c) <> (ideal_nonce sha p pass, seal (ideal_key sha pass) (ideal_nonce sha p pass) p)) ->
      exists e, decrypt_aes I n c pass' = Err e.
    Proof.
      intro Hx. unfold decrypt_aes.
      destruct (negb (Nat.eqb (length n) nonce_len)); [eexists; reflexivity|]. cbn.
      destruct (open _ _ _) as [q|] eqn:O; [|eexists; reflexivity].
      exfalso. apply opened_is_honest in O. destruct O as (pass & Hin & _ & Hn & Hc).
      apply (Hx q pass Hin). rewrite <- Hc, <- Hn. reflexivity.
    Qed.
  End Tamper.

End Wrappers.

(* the recipe reads nothing but the payload, the passphrase and the primitives: primitives
   that agree on every query give the same bytes (no clock, counter or random source) *)
Lemma encrypt_aes_ext P Q p pass :
  (forall x, p_sha P x = p_sha Q x) -> (forall k n x, p_seal P k n x = p_seal Q k n x) ->
  encrypt_aes P p pass = encrypt_aes Q p pass /\ encrypt_value_key P p pass = encrypt_value_key Q p pass /\
  encrypt_metadata P p pass = encrypt_metadata Q p pass.
Proof.
  intros Hs Hl.
  assert (E : encrypt_aes P p pass = encrypt_aes Q p pass).
  { unfold encrypt_aes, derive_key, derive_nonce. rewrite !Hs.
    destruct (p_sha Q (key_prefix ++ pass)); cbn [bind]; try reflexivity.
    destruct (p_sha Q _); cbn [bind]; try reflexivity. rewrite Hl. reflexivity. }
  unfold encrypt_value_key, encrypt_metadata, encrypt_blob. rewrite E. auto.
Qed.

Lemma second_multihash_ext P Q mh :
  (forall x, p_sha P x = p_sha Q x) -> second_multihash P mh = second_multihash Q mh.
Proof. intro H. unfold second_multihash. rewrite H. reflexivity. Qed.

(* ------------------------------------------------------------------ *)
(* second hash                                                          *)

Section SecondHash.
  Variable sha : bytes -> bytes.
  Variable seal : bytes -> bytes -> bytes -> bytes.
  Variable open : bytes -> bytes -> bytes -> option bytes.
  Local Notation I := (ideal sha seal open).

  (* with a 32-byte digest: the two header bytes 0x56 0x20, then the digest; a valid multihash *)
  Lemma second_shape mh :
    law_sha_len sha ->
    second_multihash I mh = Ok (86 :: 32 :: sha (second_prefix ++ mh)) /\
    mh_read (86 :: 32 :: sha (second_prefix ++ mh)) = Ok (34%nat, DBL_SHA2_256, sha (second_prefix ++ mh)) /\
    mh_cast (86 :: 32 :: sha (second_prefix ++ mh)) = Ok tt.
  Proof.
    intro L. pose proof (L (second_prefix ++ mh)) as Ld.
    assert (E : mh_encode DBL_SHA2_256 (sha (second_prefix ++ mh)) = 86 :: 32 :: sha (second_prefix ++ mh)).
    { unfold mh_encode. rewrite Ld. reflexivity. }
    assert (R : mh_read (86 :: 32 :: sha (second_prefix ++ mh)) = Ok (34%nat, DBL_SHA2_256, sha (second_prefix ++ mh))).
    { rewrite <- E.
      pose proof (mh_read_encode DBL_SHA2_256 (sha (second_prefix ++ mh)) []) as H.
      rewrite app_nil_r in H. rewrite H.
      - rewrite E. cbn [length]. rewrite Ld. reflexivity.
      - reflexivity.
      - rewrite Ld. unfold max_int32. lia. }
    split; [|split].
    - rewrite second_multihash_ideal, E. reflexivity.
    - exact R.
    - unfold mh_cast. rewrite R. cbn [bind length]. rewrite Ld. reflexivity.
  Qed.

  (* a multihash of any other hash function never equals its second hash *)
  Lemma second_differs_other_code mh rlen code dig :
    mh_read mh = Ok (rlen, code, dig) -> code <> DBL_SHA2_256 -> second_multihash I mh <> Ok mh.
  Proof.
    intros R C H. rewrite second_multihash_ideal in H. apply Ok_inj in H. rename H into H'.
    unfold mh_encode in H'. change (enc DBL_SHA2_256) with [86] in H'. cbn [app] in H'.
    rewrite <- H' in R. apply mh_read_first_86 in R. contradiction.
  Qed.

  (* in general the second hash equals the original only if the original embeds the hash of itself *)
  Lemma second_differs mh : law_no_self_hash sha -> second_multihash I mh <> Ok mh.
  Proof.
    intros NS H. rewrite second_multihash_ideal in H. apply Ok_inj in H. rename H into H'.
    unfold mh_encode in H'.
    apply (NS (second_prefix ++ enc DBL_SHA2_256 ++ enc (N.of_nat (length (sha (second_prefix ++ mh)))))
              (sha (second_prefix ++ mh))).
    rewrite <- !app_assoc. rewrite H'. reflexivity.
  Qed.

  (* distinct multihashes have distinct second hashes when the hash has no collision *)
  Lemma second_injective mh mh' :
    law_collision_free sha -> second_multihash I mh = second_multihash I mh' -> mh = mh'.
  Proof.
    intros CF H. rewrite !second_multihash_ideal in H. apply Ok_inj in H. rename H into H'.
    apply mh_encode_inj in H'. apply CF in H'. apply app_inv_head in H'. exact H'.
  Qed.
End SecondHash.

(* ------------------------------------------------------------------ *)
(* the find workflow                                                    *)

Lemma assoc_in {V} k (t : list (bytes * V)) v : assoc k t = Some v -> exists k', In (k', v) t.
Proof.
  induction t as [|[k' v'] t IH]; cbn; [discriminate|].
  destruct (bytes_eqb k k').
  - intro H; inversion H; subst. exists k'. left. reflexivity.
  - intro H. destruct (IH H) as [k'' Hin]. exists k''. right. exact Hin.
Qed.

Lemma find_loop_map {A} f (g : A -> bytes) (h : A -> list presult) es :
  (forall e, In e es -> f (g e) = Ok (h e)) -> find_loop f (map g es) = Ok (flat_map h es).
Proof.
  induction es as [|e es IH]; intro H; cbn [map find_loop flat_map]; [reflexivity|].
  rewrite H by (left; reflexivity). cbn [bind].
  rewrite IH by (intros; apply H; right; assumption). reflexivity.
Qed.

Lemma find_loop_no_panic f evks :
  (forall e, is_panic (f e) = false) -> is_panic (find_loop f evks) = false.
Proof.
  intro H. induction evks as [|e r IH]; cbn [find_loop]; [reflexivity|].
  specialize (H e). destruct (f e); cbn [bind] in *; try reflexivity; try discriminate.
  destruct (find_loop f r); cbn [bind] in *; try reflexivity; discriminate.
Qed.

Section Find.
  Variable sha : bytes -> bytes.
  Variable seal : bytes -> bytes -> bytes -> bytes.
  Variable open : bytes -> bytes -> bytes -> option bytes.
  Local Notation I := (ideal sha seal open).

  (* no input from the store can make the repaired workflow panic *)
  Lemma find_one_no_panic st ps mh evk :
    store_total st ->
    is_panic (find_one (decrypt_value_key I) (decrypt_metadata I) I st ps mh evk) = false.
  Proof.
    intros [_ Hmd]. unfold find_one.
    pose proof (decrypt_value_key_no_panic sha seal open evk mh) as D.
    destruct (decrypt_value_key I evk mh) as [vk| |]; try reflexivity; [|discriminate].
    pose proof (split_no_panic vk) as S.
    destruct (split_value_key vk) as [[pid ctx]| |]; try reflexivity; [|discriminate].
    unfold fetch_metadata. cbn [sha256_dest ideal p_sha bind app].
    specialize (Hmd (sha vk)).
    destruct (s_find_md st (sha vk)) as [emd| |]; cbn [bind]; try reflexivity; [|discriminate].
    destruct (is_nil emd); [reflexivity|].
    pose proof (decrypt_metadata_no_panic sha seal open emd vk) as M.
    destruct (decrypt_metadata I emd vk) as [md| |]; try reflexivity; [|discriminate].
    destruct (is_nil md); [reflexivity|].
    destruct ps as [known|]; [destruct (known pid)|]; reflexivity.
  Qed.

  Lemma find_no_panic st ps mh : store_total st -> is_panic (C12_DHash.find I st ps mh) = false.
  Proof.
    intro T. unfold C12_DHash.find, find_gen. rewrite second_multihash_ideal. cbn [bind].
    pose proof (proj1 T (mh_encode DBL_SHA2_256 (sha (second_prefix ++ mh)))) as H.
    destruct (s_find_mh st _) as [groups| |]; cbn [bind]; try reflexivity; [|discriminate].
    apply find_loop_no_panic. intro e. apply find_one_no_panic. exact T.
  Qed.

  (* the unrepaired workflow panics on the smallest hostile answer *)
  Lemma find_v0_panics ps mh : find_v0 I hostile_store ps mh = Panic PSliceBounds.
  Proof. reflexivity. Qed.

  Hypothesis Hmin : law_sha_min sha.
  Hypothesis Hne : law_seal_nonempty seal.
  Hypothesis Hrt : law_round_trip seal open.
  Hypothesis Hcf : law_collision_free sha.

  Definition smh (mh : bytes) : bytes := mh_encode DBL_SHA2_256 (sha (second_prefix ++ mh)).
  Definition evk_of (mh : bytes) (e : entry) : bytes :=
    let '(pid, ctx, _) := e in ideal_blob sha seal (create_value_key pid ctx) mh.
  Definition mht_of (idx : index) : list (bytes * res (list (list bytes))) :=
    map (fun row : bytes * list entry => (smh (fst row), Ok [map (evk_of (fst row)) (snd row)])) idx.
  Definition mdt_of (es : list entry) : list (bytes * res bytes) :=
    map (fun e : entry => let '(pid, ctx, md) := e in
           (sha (create_value_key pid ctx), Ok (ideal_blob sha seal md (create_value_key pid ctx)))) es.

  Lemma index_store_ideal idx :
    index_store I idx = Ok (table_store (mht_of idx) (mdt_of (all_entries idx))).
  Proof.
    unfold index_store.
    rewrite (mapM_pure (index_mh_row I) (fun row => (smh (fst row), Ok [map (evk_of (fst row)) (snd row)]))).
    2:{ intros [mh es] _. unfold index_mh_row. rewrite second_multihash_ideal. cbn [bind fst snd].
        rewrite (mapM_pure _ (evk_of mh)); [reflexivity|]. intros [[pid ctx] md] _. reflexivity. }
    cbn [bind].
    rewrite (mapM_pure (index_md_row I) (fun e : entry => let '(pid, ctx, md) := e in
              (sha (create_value_key pid ctx), Ok (ideal_blob sha seal md (create_value_key pid ctx))))).
    2:{ intros [[pid ctx] md] _. reflexivity. }
    reflexivity.
  Qed.

  Lemma smh_inj mh mh' : smh mh = smh mh' -> mh = mh'.
  Proof. unfold smh. intro H. apply mh_encode_inj in H. apply Hcf in H. apply app_inv_head in H. exact H. Qed.

  Lemma assoc_mht idx mh :
    assoc (smh mh) (mht_of idx) =
    match assoc mh idx with Some es => Some (Ok [map (evk_of mh) es]) | None => None end.
  Proof.
    induction idx as [|[mh' es'] idx IH]; cbn [mht_of map assoc fst snd]; [reflexivity|].
    destruct (bytes_eqb mh mh') eqn:E.
    - apply bytes_eqb_eq in E. subst. rewrite bytes_eqb_refl. reflexivity.
    - rewrite bytes_eqb_neq; [exact IH|]. intro H. apply smh_inj in H. subst. rewrite bytes_eqb_refl in E. discriminate.
  Qed.

  Lemma assoc_mdt (all : list entry) :
    (forall pid ctx md, In (pid, ctx, md) all -> valid_peer_id pid /\ md <> []) ->
    (forall pid ctx md md', In (pid, ctx, md) all -> In (pid, ctx, md') all -> md = md') ->
    forall es, incl es all -> forall pid ctx md, In (pid, ctx, md) es ->
    assoc (sha (create_value_key pid ctx)) (mdt_of es) = Some (Ok (ideal_blob sha seal md (create_value_key pid ctx))).
  Proof.
    intros V C. induction es as [|[[pid' ctx'] md'] es IH]; intros Hincl pid ctx md Hin; [contradiction|].
    cbn [mdt_of map assoc].
    destruct (bytes_eqb (sha (create_value_key pid ctx)) (sha (create_value_key pid' ctx'))) eqn:E.
    - apply bytes_eqb_eq in E. apply Hcf in E.
      assert (In (pid, ctx, md) all) as Ha by (apply Hincl; exact Hin).
      assert (In (pid', ctx', md') all) as Ha' by (apply Hincl; left; reflexivity).
      apply create_value_key_inj in E; [|apply (V _ _ _ Ha)|apply (V _ _ _ Ha')].
      destruct E; subst. rewrite (C _ _ _ _ Ha Ha'). reflexivity.
    - destruct Hin as [Heq|Hin].
      + inversion Heq; subst. rewrite bytes_eqb_refl in E. discriminate.
      + apply IH; [|exact Hin]. intros x Hx. apply Hincl. right. exact Hx.
  Qed.

  Lemma find_one_entry idx ps mh pid ctx md :
    wf_index idx -> In (pid, ctx, md) (all_entries idx) ->
    find_one (decrypt_value_key I) (decrypt_metadata I) I
             (table_store (mht_of idx) (mdt_of (all_entries idx))) ps mh (evk_of mh (pid, ctx, md))
    = Ok (entry_result ps (pid, ctx, md)).
  Proof.
    intros [V C] Hin. unfold find_one, evk_of.
    rewrite (proj1 (decrypt_blob_encrypt sha seal open Hmin Hne Hrt _ mh)).
    rewrite split_create_valid by (apply (V _ _ _ Hin)).
    unfold fetch_metadata. cbn [sha256_dest ideal p_sha bind app table_store s_find_md].
    rewrite (assoc_mdt (all_entries idx) V C (all_entries idx) (incl_refl _) _ _ _ Hin).
    cbn [bind].
    pose proof (blob_long sha seal Hmin Hne md (create_value_key pid ctx)) as L.
    destruct (ideal_blob sha seal md (create_value_key pid ctx)) as [|b0 bl] eqn:B; [cbn in L; lia|].
    cbn [is_nil]. rewrite <- B.
    rewrite (proj2 (decrypt_blob_encrypt sha seal open Hmin Hne Hrt _ _)).
    destruct md as [|m0 ml]; [exfalso; apply (proj2 (V _ _ _ Hin)); reflexivity|].
    cbn [is_nil entry_result]. destruct ps as [known|]; [destruct (known pid)|]; reflexivity.
  Qed.

  Lemma find_indexed idx ps mh :
    wf_index idx ->
    C12_DHash.find I (table_store (mht_of idx) (mdt_of (all_entries idx))) ps mh
    = Ok (flat_map (entry_result ps) (entries_for idx mh)).
  Proof.
    intro W. unfold C12_DHash.find, find_gen. rewrite second_multihash_ideal. cbn [bind table_store s_find_mh].
    fold (smh mh). rewrite assoc_mht. unfold entries_for.
    destruct (assoc mh idx) as [es|] eqn:A; cbn [bind concat]; [|reflexivity].
    rewrite app_nil_r. apply find_loop_map.
    intros [[pid ctx] md] Hin. apply find_one_entry; [exact W|].
    destruct (assoc_in _ _ _ A) as [k' Hk]. unfold all_entries.
    apply in_concat. exists es. split; [|exact Hin].
    apply in_map_iff. exists (k', es). auto.
  Qed.
End Find.

(* ------------------------------------------------------------------ *)
(* what the dhstore server is asked                                     *)

Section Requests.
  Variable sha : bytes -> bytes.
  Variable seal : bytes -> bytes -> bytes -> bytes.
  Variable open : bytes -> bytes -> bytes -> option bytes.
  Local Notation I := (ideal sha seal open).

  Definition hashed_query (mh : bytes) (q : query) : Prop :=
    q = QMh (mh_encode DBL_SHA2_256 (sha (second_prefix ++ mh))) \/ exists vk, q = QMd (sha vk).

  Lemma find_one_queries_hashed mh evk qs :
    find_one_queries I mh evk = Ok qs -> Forall (hashed_query mh) qs.
  Proof.
    unfold find_one_queries.
    destruct (decrypt_value_key I evk mh) as [vk| |]; try discriminate.
    2:{ intro H; apply Ok_inj in H; subst; constructor. }
    destruct (split_value_key vk) as [[pid ctx]| |]; try discriminate.
    2:{ intro H; apply Ok_inj in H; subst; constructor. }
    cbn. intro H. apply Ok_inj in H. subst. constructor; [|constructor]. right. exists vk. reflexivity.
  Qed.

  Lemma queries_loop_hashed mh evks : forall qs,
    queries_loop (find_one_queries I mh) evks = Ok qs -> Forall (hashed_query mh) qs.
  Proof.
    induction evks as [|e r IH]; intros qs H; cbn [queries_loop] in H.
    - apply Ok_inj in H. subst. constructor.
    - destruct (find_one_queries I mh e) as [a| |] eqn:E; try discriminate. cbn [bind] in H.
      destruct (queries_loop (find_one_queries I mh) r) as [b| |] eqn:L; try discriminate. cbn [bind] in H.
      apply Ok_inj in H. subst. apply Forall_app. split; [eapply find_one_queries_hashed; eauto|apply IH; reflexivity].
  Qed.

  (* every request of the reader-privacy find names the SECOND hash of the multihash or the
     hash of a value key: the multihash, the value keys and the metadata never leave the
     client; the request path is a function of that hash alone *)
  Theorem requests_hashed st mh qs :
    find_queries I st mh = Ok qs ->
    Forall (hashed_query mh) qs /\
    Forall (fun p => p = mh_path_prefix ++ b58 (mh_encode DBL_SHA2_256 (sha (second_prefix ++ mh))) \/
                     exists vk, p = md_path_prefix ++ b58 (sha vk)) (map request_path qs).
  Proof.
    intro H.
    assert (F : Forall (hashed_query mh) qs).
    { unfold find_queries in H. rewrite second_multihash_ideal in H. cbn [bind] in H.
      destruct (s_find_mh st _) as [groups| |]; try discriminate.
      - destruct (queries_loop (find_one_queries I mh) (concat groups)) as [l| |] eqn:L; try discriminate.
        cbn [bind] in H. apply Ok_inj in H. subst. constructor; [left; reflexivity|eapply queries_loop_hashed; eauto].
      - apply Ok_inj in H. subst. constructor; [left; reflexivity|constructor]. }
    split; [exact F|].
    apply Forall_map. eapply Forall_impl; [|exact F].
    intros q [->|[vk ->]]; [left; reflexivity|right; exists vk; reflexivity].
  Qed.
End Requests.

(* ------------------------------------------------------------------ *)
(* the premises of the theorems can be met (non-vacuity), and small runs  *)

Module Witness.
  (* an injective "hash" with digests of at least 12 elements (elements of [bytes] are
     unbounded naturals in the model, so injectivity and a length bound coexist) *)
  Definition shaA (x : bytes) : bytes := repeat 0 12 ++ x.
  (* a null cipher with a one-element tag *)
  Definition sealA (k n p : bytes) : bytes := p ++ [0].
  Definition openA (k n c : bytes) : option bytes := Some (removelast c).

  Lemma shaA_min : law_sha_min shaA.
  Proof. intro x. unfold shaA. rewrite app_length, repeat_length. lia. Qed.
  Lemma shaA_cf : law_collision_free shaA.
  Proof. intros a b H. unfold shaA in H. apply app_inv_head in H. exact H. Qed.
  Lemma sealA_nonempty : law_seal_nonempty sealA.
  Proof. intros k n p H. unfold sealA in H. destruct p; discriminate. Qed.
  Lemma A_round_trip : law_round_trip sealA openA.
  Proof. intros k n p. unfold openA, sealA. rewrite removelast_last. reflexivity. Qed.

  (* symbolic AEAD: the ciphertext is the term (k, n, p) itself *)
  Definition header (k n : bytes) : bytes := N.of_nat (length k) :: N.of_nat (length n) :: k ++ n.
  Definition sealB (k n p : bytes) : bytes := header k n ++ p.
  Definition openB (k n c : bytes) : option bytes :=
    if bytes_eqb (firstn (length (header k n)) c) (header k n) then Some (skipn (length (header k n)) c) else None.

  Lemma app_same_len {A} (a a' b b' : list A) : length a = length a' -> a ++ b = a' ++ b' -> a = a' /\ b = b'.
  Proof.
    revert a'. induction a as [|x a IH]; intros [|x' a'] L H; cbn in *; try discriminate; auto.
    inversion H; subst. destruct (IH a' ltac:(lia) H2). subst. auto.
  Qed.

  Lemma sealB_nonempty : law_seal_nonempty sealB.
  Proof. intros k n p H. discriminate. Qed.
  Lemma B_round_trip : law_round_trip sealB openB.
  Proof.
    intros k n p. unfold openB, sealB. rewrite firstn_app_exact, bytes_eqb_refl, skipn_app_exact. reflexivity.
  Qed.
  Lemma B_authentic : law_authentic sealB openB.
  Proof.
    intros k n c p. unfold openB, sealB.
    destruct (bytes_eqb _ _) eqn:E; [|discriminate]. apply bytes_eqb_eq in E.
    intro H; inversion H; subst. rewrite <- E at 1. symmetry. apply firstn_skipn.
  Qed.
  Lemma sealB_injective : law_seal_injective sealB.
  Proof.
    intros k n p k' n' p' H. unfold sealB, header in H. cbn [app] in H.
    inversion H as [[Hk Hn Hr]]. apply Nat2N.inj in Hk. apply Nat2N.inj in Hn.
    rewrite <- !app_assoc in Hr.
    destruct (app_same_len _ _ _ _ Hk Hr) as [-> Hr'].
    destruct (app_same_len _ _ _ _ Hn Hr') as [-> ->]. auto.
  Qed.

  (* ciphertext integrity: only what the key holders sealed opens *)
  Definition openC (seal : bytes -> bytes -> bytes -> bytes) (sealed : list (bytes * bytes * bytes)) (k n c : bytes) : option bytes :=
    match List.find (fun t : bytes * bytes * bytes => let '(k', n', p') := t in
                   bytes_eqb k k' && bytes_eqb n n' && bytes_eqb c (seal k' n' p')) sealed with
    | Some (_, _, p') => Some p'
    | None => None
    end.
  Lemma C_int_ctxt seal sealed : law_int_ctxt seal (openC seal sealed) sealed.
  Proof.
    intros k n c p. unfold openC.
    destruct (List.find _ sealed) as [[[k' n'] p']|] eqn:F; [|discriminate].
    intro H; inversion H; subst. apply find_some in F. destruct F as [Hin Hb].
    apply andb_prop in Hb as [Hb Hc]. apply andb_prop in Hb as [Hk Hn].
    apply bytes_eqb_eq in Hk, Hn, Hc. subst. auto.
  Qed.

  (* a 32-element digest that is never embedded in its own preimage *)
  Fixpoint sumN (x : bytes) : N := match x with [] => 0 | a :: r => a + sumN r end.
  Definition shaS (x : bytes) : bytes := repeat 0 31 ++ [1 + sumN x].
  Lemma sumN_app a b : sumN (a ++ b) = sumN a + sumN b.
  Proof. induction a as [|x a IH]; cbn [app sumN]; lia. Qed.
  Lemma shaS_len : law_sha_len shaS.
  Proof. intro x. unfold shaS. rewrite app_length, repeat_length. reflexivity. Qed.
  Lemma shaS_no_self : law_no_self_hash shaS.
  Proof.
    intros x d H. unfold shaS in H. rewrite sumN_app in H.
    assert (S : sumN d = 1 + (sumN x + sumN d)).
    { rewrite <- H at 1. rewrite sumN_app. change (sumN (repeat 0 31)) with 0. cbn [sumN]. lia. }
    lia.
  Qed.

  (* a small index with both peer-ID kinds, a shared (provider, context) and an empty context *)
  Definition pid_identity : bytes := mh_encode IDENTITY [8; 1; 18; 2; 77; 78].
  Definition pid_sha : bytes := mh_encode SHA2_256 (repeat 7 32).
  Definition mh1 : bytes := mh_encode SHA2_256 (repeat 1 32).
  Definition mh2 : bytes := mh_encode SHA2_256 (repeat 2 32).
  Definition idx0 : index :=
    [ (mh1, [ (pid_identity, [1; 2; 3], [144; 18]); (pid_sha, [], [9]) ]);
      (mh2, [ (pid_identity, [1; 2; 3], [144; 18]) ]) ].

  Lemma idx0_wf : wf_index idx0.
  Proof.
    split.
    - intros pid ctx md H. cbn in H.
      repeat (destruct H as [H|H]; [inversion H; subst; split; [vm_compute; reflexivity|discriminate]|]).
      contradiction.
    - intros pid ctx md md' H H'. cbn in H, H'.
      repeat (destruct H as [H|H]; [inversion H; subst; clear H|]); try contradiction;
      repeat (destruct H' as [H'|H']; [inversion H'; subst; clear H'; try reflexivity|]); try contradiction.
  Qed.

  (* the theorem's conclusion is not an empty list on this index *)
  Example idx0_entries : entries_for idx0 mh1 = [ (pid_identity, [1; 2; 3], [144; 18]); (pid_sha, [], [9]) ].
  Proof. vm_compute. reflexivity. Qed.

  (* running the executable model on the witness primitives *)
  Example run_round_trip :
    (x <- encrypt_value_key (ideal shaA sealB openB) [5; 6; 7] mh1 ;; decrypt_value_key (ideal shaA sealB openB) x mh1) = Ok [5; 6; 7]
    /\ is_ok (x <- encrypt_value_key (ideal shaA sealB openB) [5; 6; 7] mh1 ;; decrypt_value_key (ideal shaA sealB openB) x mh2) = false.
  Proof. split; vm_compute; reflexivity. Qed.

  Example run_find :
    (st <- index_store (ideal shaA sealB openB) idx0 ;; C12_DHash.find (ideal shaA sealB openB) st None mh1)
    = Ok [ (pid_identity, [1; 2; 3], [144; 18], 0); (pid_sha, [], [9], 0) ].
  Proof. vm_compute. reflexivity. Qed.
End Witness.

(* ------------------------------------------------------------------ *)
(* the statements of props/Properties_C12.v that combine several lemmas *)

Lemma no_panic_all sha seal open x pass nonce :
  is_panic (decrypt_value_key (ideal sha seal open) x pass) = false /\
  is_panic (decrypt_metadata (ideal sha seal open) x pass) = false /\
  is_panic (decrypt_aes (ideal sha seal open) nonce x pass) = false /\
  is_panic (split_value_key x) = false.
Proof.
  split; [|split; [|split]].
  - apply decrypt_value_key_no_panic.
  - apply decrypt_metadata_no_panic.
  - apply decrypt_aes_no_panic.
  - apply split_no_panic.
Qed.

Lemma v0_refuted_all sha seal open :
  (forall evk mh, (length evk < 12)%nat -> decrypt_value_key_v0 (ideal sha seal open) evk mh = Panic PSliceBounds) /\
  (forall n c pass, length n <> 12%nat -> decrypt_aes_v0 (ideal sha seal open) n c pass = Panic PNonceSize) /\
  (forall ps mh, find_v0 (ideal sha seal open) hostile_store ps mh = Panic PSliceBounds).
Proof.
  split; [|split].
  - apply decrypt_value_key_v0_panics.
  - apply decrypt_aes_v0_panics.
  - apply find_v0_panics.
Qed.

Lemma split_kinds_all :
  (forall key ctx, (length key <= 42)%nat ->
     split_value_key (create_value_key (mh_encode IDENTITY key) ctx) = Ok (mh_encode IDENTITY key, ctx)) /\
  (forall digest ctx, length digest = 32%nat ->
     split_value_key (create_value_key (mh_encode SHA2_256 digest) ctx) = Ok (mh_encode SHA2_256 digest, ctx)) /\
  (forall code digest ctx, code < 2 ^ 63 -> N.of_nat (length digest) <= max_int32 ->
     split_value_key (create_value_key (mh_encode code digest) ctx) = Ok (mh_encode code digest, ctx)).
Proof.
  split; [exact split_create_identity|split; [exact split_create_sha256|exact split_create_encoded]].
Qed.

Lemma second_differs_all sha seal open :
  (forall mh rlen code dig, mh_read mh = Ok (rlen, code, dig) -> code <> DBL_SHA2_256 ->
     second_multihash (ideal sha seal open) mh <> Ok mh) /\
  (law_no_self_hash sha -> forall mh, second_multihash (ideal sha seal open) mh <> Ok mh) /\
  (law_collision_free sha -> forall mh mh',
     second_multihash (ideal sha seal open) mh = second_multihash (ideal sha seal open) mh' -> mh = mh').
Proof.
  split; [|split].
  - intros. eapply second_differs_other_code; eassumption.
  - intros. apply second_differs. assumption.
  - intros. eapply second_injective; eassumption.
Qed.

Lemma find_returns_indexed_all sha seal open :
  law_sha_min sha -> law_seal_nonempty seal -> law_round_trip seal open -> law_collision_free sha ->
  forall idx, wf_index idx ->
  exists st, index_store (ideal sha seal open) idx = Ok st /\
    forall ps mh, C12_DHash.find (ideal sha seal open) st ps mh = Ok (flat_map (entry_result ps) (entries_for idx mh)).
Proof.
  intros Hmin Hne Hrt Hcf idx W.
  eexists. split; [apply index_store_ideal|].
  intros ps mh. apply find_indexed; assumption.
Qed.

(* the hypotheses of the theorems are satisfiable together (instances in Module Witness) *)
Lemma laws_inhabited :
  (exists sha seal open, law_sha_min sha /\ law_seal_nonempty seal /\ law_round_trip seal open /\ law_collision_free sha) /\
  (exists sha seal open, law_sha_min sha /\ law_seal_nonempty seal /\ law_round_trip seal open /\
                         law_authentic seal open /\ law_seal_injective seal /\ law_collision_free sha) /\
  (forall sha seal honest, exists open, law_int_ctxt seal open (sealed_of sha honest)) /\
  (exists sha, law_sha_len sha /\ law_no_self_hash sha) /\
  (exists idx, wf_index idx /\ idx <> []).
Proof.
  split; [|split; [|split; [|split]]].
  - exists Witness.shaA, Witness.sealA, Witness.openA.
    split; [apply Witness.shaA_min|split; [apply Witness.sealA_nonempty|split; [apply Witness.A_round_trip|apply Witness.shaA_cf]]].
  - exists Witness.shaA, Witness.sealB, Witness.openB.
    split; [apply Witness.shaA_min|split; [apply Witness.sealB_nonempty|split; [apply Witness.B_round_trip|
    split; [apply Witness.B_authentic|split; [apply Witness.sealB_injective|apply Witness.shaA_cf]]]]].
  - intros sha seal honest. exists (Witness.openC seal (sealed_of sha honest)). apply Witness.C_int_ctxt.
  - exists Witness.shaS. split; [apply Witness.shaS_len|apply Witness.shaS_no_self].
  - exists Witness.idx0. split; [apply Witness.idx0_wf|discriminate].
Qed.
