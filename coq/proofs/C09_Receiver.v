(* C09: lemmas about the duplicate filter and the delivery rule of announce.Receiver
   (model/Announce_Receiver.v, model/C09_Pubsub.v). *)
From Model Require Import Announce_Receiver C09_Pubsub.
From Gen Require Import Gen_Consts.
From Coq Require Import List NArith ZArith Bool Lia.
Import ListNotations.
Open Scope nat_scope.

(* ------------------------------------------------------------------ *)
(* A. memN / removeN                                                    *)

Lemma memN_In c l : memN c l = true <-> In c l.
Proof.
  induction l as [|x l IH]; cbn; [split; [discriminate|tauto]|].
  rewrite orb_true_iff, N.eqb_eq, IH. split; intros [H|H]; auto.
Qed.

Lemma memN_false c l : memN c l = false <-> ~ In c l.
Proof. rewrite <- memN_In. destruct (memN c l); split; congruence. Qed.

Lemma removeN_notin c l : memN c l = false -> removeN c l = l.
Proof.
  induction l as [|x l IH]; cbn; [reflexivity|]. intro H. apply orb_false_iff in H as [H1 H2].
  rewrite H1, IH by exact H2. reflexivity.
Qed.

Lemma In_removeN x c l : In x (removeN c l) -> In x l.
Proof.
  induction l as [|y l IH]; cbn; [tauto|]. destruct (c =? y)%N; cbn; [tauto|]. intros [H|H]; auto.
Qed.

Lemma In_removeN_neq x c l : x <> c -> In x l -> In x (removeN c l).
Proof.
  intro Hn. induction l as [|y l IH]; cbn; [tauto|]. destruct (c =? y)%N eqn:E.
  - apply N.eqb_eq in E. subst y. intros [H|H]; [congruence|exact H].
  - cbn. intros [H|H]; auto.
Qed.

Lemma NoDup_removeN c l : NoDup l -> NoDup (removeN c l).
Proof.
  induction 1 as [|y l Hy Hl IH]; cbn; [constructor|]. destruct (c =? y)%N; [exact Hl|].
  constructor; [|exact IH]. intro H. apply Hy. eapply In_removeN. exact H.
Qed.

Lemma removeN_NoDup_notin c l : NoDup l -> ~ In c (removeN c l).
Proof.
  induction 1 as [|y l Hy Hl IH]; cbn; [tauto|]. destruct (c =? y)%N eqn:E.
  - apply N.eqb_eq in E. subst y. exact Hy.
  - cbn. intros [H|H]; [subst; rewrite N.eqb_refl in E; discriminate|auto].
Qed.

Lemma length_removeN_in c l : memN c l = true -> S (length (removeN c l)) = length l.
Proof.
  induction l as [|y l IH]; cbn; [discriminate|]. destruct (c =? y)%N; cbn; [reflexivity|].
  intro H. rewrite IH by exact H. reflexivity.
Qed.

Lemma length_removeN_le c l : length (removeN c l) <= length l.
Proof.
  destruct (memN c l) eqn:E; [apply length_removeN_in in E; lia|rewrite removeN_notin by exact E; lia].
Qed.

(* removing from a prefix *)
Lemma removeN_firstn_in c : forall k u,
  memN c (firstn k u) = true -> removeN c (firstn k u) = firstn (k - 1) (removeN c u).
Proof.
  induction k as [|k IH]; intros u H; [cbn in H; discriminate|].
  destruct u as [|x u]; [cbn in H; discriminate|]. cbn [firstn memN removeN] in *.
  destruct (c =? x)%N eqn:E.
  - cbn. rewrite Nat.sub_0_r. reflexivity.
  - cbn in H. rewrite IH by exact H. cbn [Nat.sub]. rewrite Nat.sub_0_r.
    destruct k; [cbn in H; discriminate|]. cbn. rewrite Nat.sub_0_r. reflexivity.
Qed.

Lemma firstn_removeN_notin c : forall k u,
  memN c (firstn k u) = false -> firstn k (removeN c u) = firstn k u.
Proof.
  induction k as [|k IH]; intros u H; [reflexivity|].
  destruct u as [|x u]; [reflexivity|]. cbn [firstn memN removeN] in *.
  apply orb_false_iff in H as [H1 H2]. rewrite H1. cbn. rewrite IH by exact H2. reflexivity.
Qed.

Lemma memN_firstn_le c : forall k k' u, k' <= k -> memN c (firstn k u) = false -> memN c (firstn k' u) = false.
Proof.
  intros k k' u Hle H. apply memN_false. apply memN_false in H. intro Hin. apply H.
  rewrite <- (firstn_skipn k' (firstn k u)). apply in_or_app. left.
  rewrite firstn_firstn. replace (Nat.min k' k) with k' by lia. exact Hin.
Qed.

(* ------------------------------------------------------------------ *)
(* B. the recency list of a history                                     *)

(* forward: the filter without a capacity *)
Definition ustep (u : list N) (o : lop) : list N :=
  match o with
  | LUpdate c => c :: removeN c u
  | LRemove c => removeN c u
  end.
Definition urun (u : list N) (h : list lop) : list N := fold_left ustep h u.

(* backward: the distinct CIDs of the history read from its end, skipping every CID
   whose latest operation is an un-cache *)
Fixpoint live_back (rh : list lop) (seen : list N) : list N :=
  match rh with
  | [] => []
  | LUpdate c :: r => if memN c seen then live_back r seen else c :: live_back r (c :: seen)
  | LRemove c :: r => live_back r (c :: seen)
  end.
Definition live (h : list lop) : list N := live_back (rev h) [].

Lemma filter_ext_in' {A} (f g : A -> bool) l : (forall x, In x l -> f x = g x) -> filter f l = filter g l.
Proof.
  induction l as [|x l IH]; intro H; [reflexivity|]. cbn. rewrite (H x) by (left; reflexivity).
  rewrite IH by (intros y Hy; apply H; right; exact Hy). reflexivity.
Qed.

Lemma filter_filter {A} (f g : A -> bool) l : filter f (filter g l) = filter (fun x => g x && f x) l.
Proof.
  induction l as [|x l IH]; [reflexivity|]. cbn. destruct (g x); cbn; [destruct (f x)|]; rewrite IH; reflexivity.
Qed.

Lemma live_back_seen : forall r seen,
  live_back r seen = filter (fun x => negb (memN x seen)) (live_back r []).
Proof.
  induction r as [|o r IH]; intro seen; [reflexivity|]. destruct o as [c|c]; cbn [live_back memN].
  - rewrite (IH [c]). destruct (memN c seen) eqn:E.
    + cbn [filter]. rewrite E. cbn [negb]. rewrite IH, filter_filter. apply filter_ext_in'.
      intros x _. cbn [memN]. rewrite orb_false_r. destruct (x =? c)%N eqn:Ex.
      * apply N.eqb_eq in Ex. subst x. rewrite E. reflexivity.
      * reflexivity.
    + cbn [filter]. rewrite E. cbn [negb]. f_equal. rewrite (IH (c :: seen)), filter_filter.
      apply filter_ext_in'. intros x _. cbn [memN]. rewrite orb_false_r.
      destruct (x =? c)%N; reflexivity.
  - rewrite (IH [c]), (IH (c :: seen)), filter_filter. apply filter_ext_in'.
    intros x _. cbn [memN]. rewrite orb_false_r. destruct (x =? c)%N; reflexivity.
Qed.

Lemma removeN_filter c l : NoDup l -> removeN c l = filter (fun x => negb (x =? c)%N) l.
Proof.
  induction 1 as [|y l Hy Hl IH]; [reflexivity|]. cbn. rewrite (N.eqb_sym y c).
  destruct (c =? y)%N eqn:E; cbn.
  - apply N.eqb_eq in E. subst y. symmetry. rewrite <- (filter_ext_in' (fun _ => true)).
    + clear. induction l; cbn; congruence.
    + intros x Hx. destruct (x =? c)%N eqn:Ex; [apply N.eqb_eq in Ex; subst; tauto|reflexivity].
  - rewrite IH. reflexivity.
Qed.

Lemma NoDup_filter {A} (f : A -> bool) l : NoDup l -> NoDup (filter f l).
Proof.
  induction 1 as [|y l Hy Hl IH]; cbn; [constructor|]. destruct (f y); [|exact IH].
  constructor; [|exact IH]. intro H. apply filter_In in H as [H _]. tauto.
Qed.

Lemma live_back_NoDup : forall r, NoDup (live_back r []).
Proof.
  induction r as [|o r IH]; [constructor|]. destruct o as [c|c]; cbn [live_back memN].
  - rewrite live_back_seen. constructor; [|apply NoDup_filter; exact IH].
    intro H. apply filter_In in H as [_ H]. cbn in H. rewrite N.eqb_refl in H. discriminate.
  - rewrite live_back_seen. apply NoDup_filter. exact IH.
Qed.

Lemma live_snoc h o : live (h ++ [o]) = ustep (live h) o.
Proof.
  unfold live. rewrite rev_app_distr. cbn [rev app]. destruct o as [c|c]; cbn [live_back memN ustep].
  - rewrite live_back_seen. f_equal. rewrite removeN_filter by apply live_back_NoDup.
    apply filter_ext_in'. intros x _. cbn. rewrite orb_false_r. reflexivity.
  - rewrite live_back_seen. rewrite removeN_filter by apply live_back_NoDup.
    apply filter_ext_in'. intros x _. cbn. rewrite orb_false_r. reflexivity.
Qed.

Lemma urun_snoc u h o : urun u (h ++ [o]) = ustep (urun u h) o.
Proof. unfold urun. rewrite fold_left_app. reflexivity. Qed.

(* reading the history backwards = running the filter without a capacity *)
Lemma live_urun h : live h = urun [] h.
Proof.
  induction h as [|o h IH] using rev_ind; [reflexivity|]. rewrite live_snoc, urun_snoc, IH. reflexivity.
Qed.

Lemma ustep_NoDup u o : NoDup u -> NoDup (ustep u o).
Proof.
  intro H. destruct o as [c|c]; cbn.
  - constructor; [apply removeN_NoDup_notin; exact H|apply NoDup_removeN; exact H].
  - apply NoDup_removeN. exact H.
Qed.

(* ------------------------------------------------------------------ *)
(* C. the bounded filter is a prefix of the recency list                *)

Definition Inv (cap : nat) (l u : list N) : Prop :=
  NoDup u /\ l = firstn (length l) u /\ length l <= cap.

Lemma Inv_len cap l u : Inv cap l u -> length l <= length u.
Proof.
  intros (_ & H & _). rewrite H at 1. rewrite firstn_length. lia.
Qed.

Lemma firstn_len_ge {A} k (x y : list A) : firstn k x = firstn k y -> k <= length y -> k <= length x.
Proof.
  intros H Hk. assert (L : length (firstn k x) = length (firstn k y)) by (rewrite H; reflexivity).
  rewrite !firstn_length in L. lia.
Qed.

Lemma lru_step_inv cap l u o :
  1 <= cap -> Inv cap l u -> Inv cap (snd (lru_step cap l o)) (ustep u o).
Proof.
  intros Hc I. pose proof (Inv_len _ _ _ I) as Hlen. destruct I as (Nu & Pl & Lc).
  set (k := length l) in *.
  destruct o as [c|c]; cbn [lru_step ustep].
  - unfold lru_update. destruct (memN c l) eqn:Hm; cbn [snd].
    + (* hit: moved to the front *)
      assert (Hk : 1 <= k). { destruct l; [discriminate|cbn in k; lia]. }
      assert (Hmu : memN c u = true).
      { apply memN_In. apply memN_In in Hm. rewrite Pl in Hm.
        rewrite <- (firstn_skipn k u). apply in_or_app. left. exact Hm. }
      split; [constructor; [apply removeN_NoDup_notin; exact Nu|apply NoDup_removeN; exact Nu]|].
      assert (E : removeN c l = firstn (k - 1) (removeN c u)).
      { rewrite Pl at 1. apply removeN_firstn_in. rewrite <- Pl. exact Hm. }
      pose proof (length_removeN_in c l Hm) as L1.
      split.
      * cbn [length firstn]. f_equal. rewrite E at 1. f_equal. subst k; lia.
      * cbn [length]. subst k; lia.
    + (* miss *)
      assert (P0 : firstn k (removeN c u) = l).
      { rewrite firstn_removeN_notin; [symmetry; exact Pl|]. rewrite <- Pl. exact Hm. }
      assert (Hku : k <= length (removeN c u)).
      { eapply (firstn_len_ge k (removeN c u) u); [rewrite P0; exact Pl|exact Hlen]. }
      split; [constructor; [apply removeN_NoDup_notin; exact Nu|apply NoDup_removeN; exact Nu]|].
      destruct (Nat.eqb (length l) cap) eqn:Ecap.
      * apply Nat.eqb_eq in Ecap. fold k in Ecap.
        assert (Hk : 1 <= k) by (subst k; lia).
        assert (R : removelast l = firstn (k - 1) (removeN c u)).
        { rewrite Pl at 1. replace k with (S (k - 1)) at 1 by (subst k; lia).
          rewrite removelast_firstn by (subst k; lia).
          symmetry. apply firstn_removeN_notin.
          apply (memN_firstn_le c k); [subst k; lia|]. rewrite <- Pl. exact Hm. }
        assert (LR : length (removelast l) = k - 1).
        { rewrite R, firstn_length. lia. }
        split.
        -- cbn [length firstn]. f_equal. rewrite LR. exact R.
        -- cbn [length]. rewrite LR. lia.
      * apply Nat.eqb_neq in Ecap. fold k in Ecap. split.
        -- cbn [length firstn]. f_equal. fold k. symmetry. exact P0.
        -- cbn [length]. fold k. lia.
  - (* un-cache *)
    unfold lru_remove. cbn [snd]. split; [apply NoDup_removeN; exact Nu|].
    destruct (memN c l) eqn:Hm.
    + pose proof (length_removeN_in c l Hm) as L1. fold k in L1. split.
      * rewrite Pl at 1. rewrite removeN_firstn_in by (rewrite <- Pl; exact Hm). f_equal. subst k; lia.
      * subst k; lia.
    + rewrite removeN_notin by exact Hm. fold k. split; [|exact Lc].
      rewrite firstn_removeN_notin; [exact Pl|]. rewrite <- Pl. exact Hm.
Qed.

Lemma lru_run_cons cap l o r :
  snd (lru_run cap l (o :: r)) = snd (lru_run cap (snd (lru_step cap l o)) r).
Proof.
  cbn [lru_run]. destruct (lru_step cap l o) as [b l']. cbn [snd].
  destruct (lru_run cap l' r) as [bs lf]. reflexivity.
Qed.

Lemma lru_run_app cap0 : forall h1 l h2,
  snd (lru_run cap0 l (h1 ++ h2)) = snd (lru_run cap0 (snd (lru_run cap0 l h1)) h2).
Proof.
  induction h1 as [|o h1 IH]; intros l h2; [reflexivity|].
  cbn [app]. rewrite !lru_run_cons. apply IH.
Qed.

Lemma lru_run_inv cap : forall h l u,
  1 <= cap -> Inv cap l u -> Inv cap (snd (lru_run cap l h)) (urun u h).
Proof.
  induction h as [|o h IH]; intros l u Hc I; [exact I|].
  rewrite lru_run_cons. cbn [urun fold_left]. apply IH; [exact Hc|]. apply lru_step_inv; assumption.
Qed.

Lemma Inv_init cap : Inv cap [] [].
Proof. split; [constructor|]. split; [reflexivity|cbn; lia]. Qed.

(* no un-cache in the history: the filter is full whenever it can be *)
Definition no_removes (h : list lop) : bool :=
  forallb (fun o => match o with LUpdate _ => true | LRemove _ => false end) h.

Definition Full (cap : nat) (l u : list N) : Prop := length l = Nat.min cap (length u).

Lemma lru_step_full cap l u c :
  1 <= cap -> Inv cap l u -> Full cap l u ->
  Full cap (snd (lru_step cap l (LUpdate c))) (ustep u (LUpdate c)).
Proof.
  intros Hc I F. pose proof (Inv_len _ _ _ I) as Hlen. destruct I as (Nu & Pl & Lc).
  unfold Full in *. cbn [lru_step ustep]. unfold lru_update.
  destruct (memN c l) eqn:Hm; cbn [snd length].
  - assert (Hmu : memN c u = true).
    { apply memN_In. apply memN_In in Hm. rewrite Pl in Hm.
      rewrite <- (firstn_skipn (length l) u). apply in_or_app. left. exact Hm. }
    pose proof (length_removeN_in c l Hm). pose proof (length_removeN_in c u Hmu). lia.
  - destruct (memN c u) eqn:Hmu.
    + pose proof (length_removeN_in c u Hmu) as Lu.
      (* c is in u beyond the prefix, so the prefix is shorter than u, hence full *)
      assert (length l < length u).
      { destruct (Nat.eq_dec (length l) (length u)) as [E|E]; [|lia].
        rewrite E, firstn_all in Pl. subst l. congruence. }
      assert (E : length l = cap) by lia. rewrite E, Nat.eqb_refl.
      assert (length (removelast l) = cap - 1).
      { destruct l as [|x l] using rev_ind; [cbn in E; lia|].
        rewrite removelast_last. rewrite app_length in E. cbn in E. lia. }
      lia.
    + rewrite (removeN_notin c u Hmu).
      destruct (Nat.eqb (length l) cap) eqn:Ecap.
      * apply Nat.eqb_eq in Ecap.
        assert (length (removelast l) = cap - 1).
        { destruct l as [|x l] using rev_ind; [cbn in Ecap; lia|].
          rewrite removelast_last. rewrite app_length in Ecap. cbn in Ecap. lia. }
        lia.
      * apply Nat.eqb_neq in Ecap. lia.
Qed.

Lemma lru_run_full cap : forall h l u,
  1 <= cap -> no_removes h = true -> Inv cap l u -> Full cap l u ->
  Full cap (snd (lru_run cap l h)) (urun u h).
Proof.
  induction h as [|o h IH]; intros l u Hc Hn I F; [exact F|].
  cbn [no_removes forallb] in Hn. apply andb_prop in Hn as [Ho Hn]. destruct o as [c|c]; [|discriminate].
  rewrite lru_run_cons. cbn [urun fold_left]. apply IH; try assumption.
  - apply lru_step_inv; assumption.
  - apply lru_step_full; assumption.
Qed.

(* The contents of the filter after ANY history of updates and un-cache operations:
   duplicate free, at most cap, and exactly the first (length) CIDs of the history read
   backwards (distinct CIDs, skipping those un-cached since their last announcement);
   when the history has no un-cache it is exactly the first cap of them. *)
Theorem lru_refines_spec_lemma cap h :
  1 <= cap ->
  let l := snd (lru_run cap [] h) in
  NoDup l /\ length l <= cap
  /\ l = firstn (length l) (live h)
  /\ (no_removes h = true -> l = firstn cap (live h)).
Proof.
  intros Hc l. pose proof (lru_run_inv cap h [] [] Hc (Inv_init cap)) as I.
  rewrite <- live_urun in I. fold l in I. destruct I as (Nu & Pl & Lc).
  split; [|split; [exact Lc|split; [exact Pl|]]].
  - rewrite Pl. rewrite <- (firstn_skipn (length l) (live h)) in Nu.
    clear - Nu. induction (firstn (length l) (live h)) as [|x t IH]; [constructor|].
    cbn in Nu. inversion Nu; subst. constructor; [|apply IH; assumption].
    intro H. apply H1. apply in_or_app. left. exact H.
  - intro Hn.
    assert (F0 : Full cap [] []) by (unfold Full; cbn; lia).
    pose proof (lru_run_full cap h [] [] Hc Hn (Inv_init cap) F0) as F.
    rewrite <- live_urun in F. fold l in F. unfold Full in F. rewrite Pl, F.
    destruct (Nat.le_ge_cases cap (length (live h))) as [Hle|Hge].
    + rewrite Nat.min_l by exact Hle. reflexivity.
    + rewrite Nat.min_r by exact Hge. rewrite firstn_all. symmetry. apply firstn_all2. exact Hge.
Qed.

(* With un-cache operations the filter can hold FEWER than the first cap live CIDs: a
   CID evicted earlier is not resurrected when a later un-cache frees a slot. *)
Lemma exact_spec_fails_with_uncache :
  exists cap h, 1 <= cap /\ snd (lru_run cap [] h) <> firstn cap (live h).
Proof.
  exists 2, [LUpdate 1%N; LUpdate 2%N; LUpdate 3%N; LRemove 3%N]. split; [lia|]. vm_compute. discriminate.
Qed.

(* consequence used by the delivery rule: a CID outside the first cap live CIDs is not
   in the filter; a CID in the filter is live and among the first cap *)
Corollary not_recent_not_cached cap h c :
  1 <= cap -> ~ In c (firstn cap (live h)) -> memN c (snd (lru_run cap [] h)) = false.
Proof.
  intros Hc H. apply memN_false. intro Hin. apply H.
  destruct (lru_refines_spec_lemma cap h Hc) as (_ & Lc & Pl & _).
  rewrite Pl in Hin. rewrite <- (firstn_skipn (length (snd (lru_run cap [] h))) (firstn cap (live h))).
  apply in_or_app. left. rewrite firstn_firstn. rewrite Nat.min_l by exact Lc. exact Hin.
Qed.

(* The other direction in the presence of un-cache operations: a CID announced and
   since then neither announced again nor un-cached is still in the filter as long as
   fewer than cap distinct CIDs were announced after it. *)
Definition upds (h : list lop) : list N :=
  flat_map (fun o => match o with LUpdate x => [x] | LRemove _ => [] end) h.
Definition untouched (c : N) (h : list lop) : bool :=
  forallb (fun o => match o with LUpdate x | LRemove x => negb (x =? c)%N end) h.

Lemma removeN_app x a b :
  removeN x (a ++ b) = if memN x a then removeN x a ++ b else a ++ removeN x b.
Proof.
  induction a as [|y a IH]; [reflexivity|]. cbn [app removeN memN].
  destruct (x =? y)%N; cbn [orb]; [reflexivity|]. rewrite IH. destruct (memN x a); reflexivity.
Qed.

Lemma NoDup_app_l {A} (a b : list A) : NoDup (a ++ b) -> NoDup a.
Proof.
  induction a as [|x a IH]; [constructor|]. cbn. intro H. inversion H; subst.
  constructor; [|apply IH; assumption]. intro Hin. apply H2. apply in_or_app. left. exact Hin.
Qed.

Lemma step_good cap0 l o :
  1 <= cap0 -> NoDup l -> length l <= cap0 ->
  NoDup (snd (lru_step cap0 l o)) /\ length (snd (lru_step cap0 l o)) <= cap0.
Proof.
  intros Hc Nl Ll.
  assert (I : Inv cap0 l l).
  { split; [exact Nl|]. split; [symmetry; apply firstn_all|exact Ll]. }
  pose proof (lru_step_inv cap0 l l o Hc I) as (N' & P' & L'). split; [|exact L'].
  rewrite P'. rewrite <- (firstn_skipn (length (snd (lru_step cap0 l o))) (ustep l o)) in N'.
  apply NoDup_app_l in N'. exact N'.
Qed.

Lemma keeps cap0 c : forall h2 l front rest pre,
  1 <= cap0 -> NoDup l -> length l <= cap0 ->
  l = front ++ c :: rest -> incl front pre ->
  untouched c h2 = true ->
  length (nodup N.eq_dec (pre ++ upds h2)) < cap0 ->
  memN c (snd (lru_run cap0 l h2)) = true.
Proof.
  induction h2 as [|o h IH]; intros l front rest pre Hc Nl Ll El Hi Hu Hd.
  - cbn. subst l. apply memN_In. apply in_or_app. right. left. reflexivity.
  - rewrite lru_run_cons. cbn [untouched forallb] in Hu. apply andb_prop in Hu as [Ho Hu].
    destruct (step_good cap0 l o Hc Nl Ll) as [N' L'].
    destruct o as [x|x]; apply negb_true_iff in Ho; cbn [lru_step] in *.
    + (* another CID is announced *)
      assert (Hd' : length (nodup N.eq_dec ((pre ++ [x]) ++ upds h)) < cap0).
      { rewrite <- app_assoc. exact Hd. }
      unfold lru_update in *. destruct (memN x l) eqn:Hm; cbn [snd] in *.
      * rewrite El, removeN_app. destruct (memN x front) eqn:Hf.
        -- eapply (IH _ (x :: removeN x front) rest (pre ++ [x])); try eassumption.
           ++ rewrite El, removeN_app, Hf in N'. exact N'.
           ++ rewrite El, removeN_app, Hf in L'. exact L'.
           ++ reflexivity.
           ++ intros y [<-|Hy]; apply in_or_app; [right; left; reflexivity|left; apply Hi; eapply In_removeN; exact Hy].
        -- cbn [removeN]. rewrite N.eqb_sym in Ho. rewrite N.eqb_sym, Ho.
           eapply (IH _ (x :: front) (removeN x rest) (pre ++ [x])); try eassumption.
           ++ rewrite El, removeN_app, Hf in N'. cbn [removeN] in N'. rewrite N.eqb_sym, Ho in N'. exact N'.
           ++ rewrite El, removeN_app, Hf in L'. cbn [removeN] in L'. rewrite N.eqb_sym, Ho in L'. exact L'.
           ++ reflexivity.
           ++ intros y [<-|Hy]; apply in_or_app; [right; left; reflexivity|left; apply Hi; exact Hy].
      * destruct (Nat.eqb (length l) cap0) eqn:Ecap.
        -- apply Nat.eqb_eq in Ecap. destruct rest as [|r0 rest'].
           ++ (* c would be evicted: but then cap distinct CIDs were announced after it *)
              exfalso. subst l. rewrite app_length in Ecap. cbn in Ecap.
              assert (Nf : NoDup (x :: front)).
              { constructor.
                - intro Hin. apply memN_false in Hm. apply Hm. apply in_or_app. left. exact Hin.
                - apply NoDup_app_l in Nl. exact Nl. }
              assert (Inc : incl (x :: front) (nodup N.eq_dec ((pre ++ [x]) ++ upds h))).
              { intros y Hy. apply nodup_In. destruct Hy as [<-|Hy]; apply in_or_app; left; apply in_or_app;
                  [right; left; reflexivity|left; apply Hi; exact Hy]. }
              pose proof (NoDup_incl_length Nf Inc) as Hlen. cbn [length] in Hlen. lia.
           ++ assert (R : removelast l = front ++ c :: removelast (r0 :: rest')).
              { subst l. rewrite removelast_app by discriminate.
                change (c :: r0 :: rest') with ([c] ++ r0 :: rest'). rewrite removelast_app by discriminate. reflexivity. }
              eapply (IH _ (x :: front) (removelast (r0 :: rest')) (pre ++ [x])); try eassumption.
              ** rewrite R. reflexivity.
              ** intros y [<-|Hy]; apply in_or_app; [right; left; reflexivity|left; apply Hi; exact Hy].
        -- eapply (IH _ (x :: front) rest (pre ++ [x])); try eassumption.
           ++ rewrite El. reflexivity.
           ++ intros y [<-|Hy]; apply in_or_app; [right; left; reflexivity|left; apply Hi; exact Hy].
    + (* another CID is un-cached *)
      cbn [snd] in *. unfold lru_remove in *. cbn [upds flat_map app] in Hd.
      rewrite El, removeN_app in *. destruct (memN x front) eqn:Hf.
      * eapply (IH _ (removeN x front) rest pre); try eassumption; [reflexivity|].
        intros y Hy. apply Hi. eapply In_removeN. exact Hy.
      * cbn [removeN] in N', L' |- *. rewrite Ho in N', L' |- *.
        eapply (IH _ front (removeN x rest) pre); try eassumption. reflexivity.
Qed.

Theorem recent_is_cached cap0 h1 c h2 :
  1 <= cap0 -> untouched c h2 = true ->
  length (nodup N.eq_dec (upds h2)) < cap0 ->
  memN c (snd (lru_run cap0 [] (h1 ++ LUpdate c :: h2))) = true.
Proof.
  intros Hc Hu Hd. rewrite lru_run_app, lru_run_cons.
  pose proof (lru_run_inv cap0 h1 [] [] Hc (Inv_init cap0)) as I.
  set (l0 := snd (lru_run cap0 [] h1)) in *.
  assert (G0 : NoDup l0 /\ length l0 <= cap0).
  { destruct I as (Nu & Pl & Lc). split; [|exact Lc]. rewrite Pl.
    rewrite <- (firstn_skipn (length l0) (urun [] h1)) in Nu. apply NoDup_app_l in Nu. exact Nu. }
  destruct G0 as [N0 L0]. destruct (step_good cap0 l0 (LUpdate c) Hc N0 L0) as [N1 L1].
  cbn [lru_step] in *.
  assert (E : exists rest, snd (lru_update cap0 c l0) = [] ++ c :: rest).
  { unfold lru_update. destruct (memN c l0); cbn [snd app]; eauto. }
  destruct E as [rest E].
  eapply (keeps cap0 c h2 _ [] rest []); try eassumption.
  intros y [].
Qed.

(* ------------------------------------------------------------------ *)
(* D. one call of the receiver                                          *)

(* rejected by the allow filter: nothing changes, whatever the state *)
Theorem rejected_leaves_cache_lemma c s a cn :
  seq_step c s (ODirect false a cn) = [(RNil, s)].
Proof. reflexivity. Qed.

(* reachable states keep the filter duplicate free and within its capacity *)
Definition good (c : cfg) (s : rst) : Prop := NoDup (lru s) /\ length (lru s) <= cap c.

Lemma lru_update_good cap0 k l :
  1 <= cap0 -> NoDup l -> length l <= cap0 ->
  NoDup (snd (lru_update cap0 k l)) /\ length (snd (lru_update cap0 k l)) <= cap0.
Proof.
  intros Hc Nl Ll.
  assert (I : Inv cap0 l l).
  { split; [exact Nl|]. split; [symmetry; apply firstn_all|exact Ll]. }
  pose proof (lru_step_inv cap0 l l (LUpdate k) Hc I) as (N' & P' & L'). cbn [lru_step] in *.
  split; [|exact L'].
  rewrite P'. cbn [ustep] in N'.
  rewrite <- (firstn_skipn (length (snd (lru_update cap0 k l))) (k :: removeN k l)) in N'.
  clear - N'. induction (firstn _ _) as [|x t IH]; [constructor|].
  cbn in N'. inversion N'; subst. constructor; [|apply IH; assumption].
  intro H. apply H1. apply in_or_app. left. exact H.
Qed.

Lemma seq_step_good c s o r s' :
  1 <= cap c -> good c s -> In (r, s') (seq_step c s o) -> good c s'.
Proof.
  intros Hc [Ns Ls] Hin. destruct o as [|allowed a cn|cn|k]; cbn [seq_step] in Hin.
  - destruct Hin as [H|[]]. injection H as _ <-. split; assumption.
  - destruct (negb allowed); [destruct Hin as [H|[]]; injection H as _ <-; split; assumption|].
    destruct (closed s); [destruct Hin as [H|[]]; injection H as _ <-; split; assumption|].
    destruct (lru_update_good (cap c) (a_cid a) (lru s) Hc Ns Ls) as [N' L'].
    destruct (lru_update (cap c) (a_cid a) (lru s)) as [hit l'] eqn:E. cbn [snd] in *.
    assert (G : forall o', good c (set_out (set_lru s l') o')) by (intro; split; assumption).
    assert (G0 : good c (set_lru s l')) by (split; assumption).
    destruct hit; [destruct Hin as [H|[]]; injection H as _ <-; exact G0|].
    cbn [out set_lru] in Hin. destruct (out s).
    + destruct cn; destruct Hin as [H|[]]; injection H as _ <-; exact G0.
    + destruct Hin as [H|Hin]; [injection H as _ <-; apply G|].
      destruct cn; [destruct Hin as [H|[]]; injection H as _ <-; exact G0|destruct Hin].
  - assert (G : good c (set_out s None)) by (split; assumption).
    destruct (out s), (closed s), cn; cbn in Hin;
      repeat (destruct Hin as [H|Hin]; [injection H as _ <-; (exact G || (split; assumption))|]); destruct Hin.
  - destruct Hin as [H|[]]. injection H as _ <-. unfold good. cbn [lru set_lru]. unfold lru_remove. split.
    + apply NoDup_removeN. exact Ns.
    + pose proof (length_removeN_le k (lru s)). lia.
Qed.

(* histories: any sequence of calls with any of the outcomes the semantics allows *)
Inductive reach (c : cfg) : rst -> Prop :=
| reach_init : reach c rinit
| reach_step s o r s' : reach c s -> In (r, s') (seq_step c s o) -> reach c s'.

Lemma reach_good c s : 1 <= cap c -> reach c s -> good c s.
Proof.
  intros Hc H. induction H as [|s o r s' _ IH Hin].
  - split; [constructor|cbn; lia].
  - eapply seq_step_good; eassumption.
Qed.

(* the delivery rule, for one announcement handed to an open receiver whose out slot
   is free: it is put into the slot iff its source is allowed and its CID is not in the
   filter; in every case the call returns nil *)
Theorem deliver_iff_lemma c s allowed a :
  closed s = false -> out s = None ->
  exists s', seq_step c s (ODirect allowed a false) = [(RNil, s')]
    /\ (out s' = Some (filter_addrs c a) <-> (allowed = true /\ memN (a_cid a) (lru s) = false))
    /\ (out s' = None <-> ~ (allowed = true /\ memN (a_cid a) (lru s) = false))
    /\ closed s' = false.
Proof.
  intros Hcl Ho. destruct allowed; cbn [seq_step negb].
  - rewrite Hcl. unfold lru_update. destruct (memN (a_cid a) (lru s)) eqn:Hm.
    + eexists. split; [reflexivity|]. cbn [out set_lru closed]. rewrite Ho.
      split; [split; [discriminate|intros [_ H]; discriminate]|].
      split; [split; [intros _ [_ H]; discriminate|reflexivity]|exact Hcl].
    + cbn [out set_lru]. rewrite Ho. eexists. split; [reflexivity|]. cbn [out set_out closed set_lru].
      split; [split; auto|]. split; [split; [discriminate|intro H; exfalso; apply H; auto]|exact Hcl].
  - eexists. split; [reflexivity|]. rewrite Ho.
    split; [split; [discriminate|intros [H _]; discriminate]|].
    split; [split; [intros _ [H _]; discriminate|reflexivity]|exact Hcl].
Qed.

(* a duplicate moves its entry to the front and changes nothing else *)
Theorem duplicate_refreshes_recency_lemma c s a cn :
  closed s = false -> memN (a_cid a) (lru s) = true ->
  seq_step c s (ODirect true a cn) = [(RNil, set_lru s (a_cid a :: removeN (a_cid a) (lru s)))].
Proof.
  intros Hcl Hm. cbn [seq_step negb]. rewrite Hcl. unfold lru_update. rewrite Hm. reflexivity.
Qed.

(* ... so it is again the last to be evicted: cap-1 further distinct new CIDs leave it
   in the filter *)
Lemma update_miss_keeps cap0 x l c :
  memN c l = true -> memN x l = false ->
  (exists i, i + 1 < cap0 /\ nth_error l i = Some c) ->
  memN c (snd (lru_update cap0 x l)) = true.
Proof.
  intros Hc Hx (i & Hi & Hn). unfold lru_update. rewrite Hx. cbn [snd memN].
  destruct (c =? x)%N; [reflexivity|]. cbn [orb].
  destruct (Nat.eqb (length l) cap0) eqn:E; [|exact Hc].
  apply Nat.eqb_eq in E. apply memN_In.
  destruct l as [|y t] using rev_ind; [cbn in Hc; discriminate|].
  rewrite removelast_last. rewrite app_length in E. cbn in E.
  assert (i < length t) by lia.
  rewrite nth_error_app1 in Hn by assumption. eapply nth_error_In. exact Hn.
Qed.

(* un-caching makes the next announcement of that CID deliverable *)
Theorem uncache_makes_deliverable_lemma c s a :
  1 <= cap c -> reach c s -> closed s = false -> out s = None ->
  exists s1 s2,
    seq_step c s (OUncache (a_cid a)) = [(RNil, s1)]
    /\ seq_step c s1 (ODirect true a false) = [(RNil, s2)]
    /\ out s2 = Some (filter_addrs c a).
Proof.
  intros Hc Hr Hcl Ho. destruct (reach_good c s Hc Hr) as [Ns _].
  eexists. eexists. split; [reflexivity|]. cbn [seq_step negb closed set_lru]. rewrite Hcl.
  unfold lru_update. cbn [lru set_lru].
  assert (Hm : memN (a_cid a) (lru_remove (a_cid a) (lru s)) = false).
  { apply memN_false. apply removeN_NoDup_notin. exact Ns. }
  rewrite Hm. cbn [out set_lru]. rewrite Ho. split; reflexivity.
Qed.

(* what is delivered is the announcement itself: CID and publisher unchanged, and the
   consumer's Next returns exactly what was put into the slot *)
Theorem delivered_fields_unchanged_lemma c a :
  a_cid (filter_addrs c a) = a_cid a /\ a_peer (filter_addrs c a) = a_peer a
  /\ (filter_ips c = false -> filter_addrs c a = a)
  /\ (forall s x cn, closed s = false -> out s = Some x ->
        forall r s', In (r, s') (seq_step c s (ONext cn)) ->
        (r = RAnn x /\ s' = set_out s None) \/ (cn = true /\ r = RCtx /\ s' = s)).
Proof.
  unfold filter_addrs. split; [destruct (filter_ips c); reflexivity|].
  split; [destruct (filter_ips c); reflexivity|]. split; [intro H; rewrite H; reflexivity|].
  intros s x cn Hcl Ho r s' Hin. cbn [seq_step] in Hin. rewrite Ho, Hcl in Hin.
  destruct cn; cbn in Hin.
  - destruct Hin as [H|[H|[]]]; injection H as <- <-; auto.
  - destruct Hin as [H|[]]. injection H as <- <-. auto.
Qed.

(* with address filtering on, exactly the public addresses survive, in order *)
Theorem filtered_addrs_public_only_lemma c a :
  filter_ips c = true ->
  a_addrs (filter_addrs c a) = filter (fun x => snd x) (a_addrs a)
  /\ (forall x, In x (a_addrs (filter_addrs c a)) <-> In x (a_addrs a) /\ snd x = true).
Proof.
  intro H. unfold filter_addrs. rewrite H. cbn [a_addrs]. split; [reflexivity|].
  intro x. apply filter_In.
Qed.

(* ------------------------------------------------------------------ *)
(* E. whole histories: the filter of the receiver is the filter of the
      history of accepted announcements and un-cache calls              *)

(* the filter operation a call performs *)
Definition op_lops (s_closed : bool) (o : op) : list lop :=
  match o with
  | ODirect true a _ => if s_closed then [] else [LUpdate (a_cid a)]
  | OUncache k => [LRemove k]
  | _ => []
  end.

Lemma seq_step_lru c s o r s' :
  In (r, s') (seq_step c s o) ->
  lru s' = snd (lru_run (cap c) (lru s) (op_lops (closed s) o)).
Proof.
  intro Hin. destruct o as [|allowed a cn|cn|k]; cbn [seq_step op_lops] in *.
  - destruct Hin as [H|[]]. injection H as _ <-. reflexivity.
  - destruct allowed; cbn [negb] in Hin.
    + destruct (closed s); [destruct Hin as [H|[]]; injection H as _ <-; reflexivity|].
      cbn [lru_run lru_step]. destruct (lru_update (cap c) (a_cid a) (lru s)) as [hit l'].
      cbn [snd]. destruct hit; [destruct Hin as [H|[]]; injection H as _ <-; reflexivity|].
      cbn [out set_lru] in Hin. destruct (out s).
      * destruct cn; destruct Hin as [H|[]]; injection H as _ <-; reflexivity.
      * destruct Hin as [H|Hin]; [injection H as _ <-; reflexivity|].
        destruct cn; [destruct Hin as [H|[]]; injection H as _ <-; reflexivity|destruct Hin].
    + destruct Hin as [H|[]]. injection H as _ <-. reflexivity.
  - destruct (out s), (closed s), cn; cbn in Hin;
      repeat (destruct Hin as [H|Hin]; [injection H as _ <-; reflexivity|]); destruct Hin.
  - destruct Hin as [H|[]]. injection H as _ <-. reflexivity.
Qed.

(* a run: calls with the outcome the semantics chose *)
Inductive run (c : cfg) : rst -> list lop -> rst -> Prop :=
| run_nil s : run c s [] s
| run_cons s o r s1 h s2 :
    In (r, s1) (seq_step c s o) -> run c s1 h s2 -> run c s (op_lops (closed s) o ++ h) s2.

Theorem receiver_filter_is_history_filter c s h s' :
  run c s h s' -> lru s' = snd (lru_run (cap c) (lru s) h).
Proof.
  induction 1 as [s|s o r s1 h s2 Hin _ IH]; [reflexivity|].
  rewrite lru_run_app, <- (seq_step_lru c s o r s1 Hin). exact IH.
Qed.

(* the delivery rule over whole histories: after ANY run from the initial state, an
   announcement handed to the (open, drained) receiver is delivered iff its source is
   allowed and its CID is not in the filter determined by the history, which is the
   prefix of the recency list given by lru_refines_spec *)
Theorem deliver_iff_history c h s allowed a :
  1 <= cap c -> run c rinit h s -> closed s = false -> out s = None ->
  exists s', seq_step c s (ODirect allowed a false) = [(RNil, s')]
    /\ (out s' = Some (filter_addrs c a) <->
        (allowed = true /\ memN (a_cid a) (snd (lru_run (cap c) [] h)) = false))
    /\ (~ In (a_cid a) (firstn (cap c) (live h)) -> allowed = true -> out s' = Some (filter_addrs c a)).
Proof.
  intros Hc Hr Hcl Ho. destruct (deliver_iff_lemma c s allowed a Hcl Ho) as (s' & E & D & _ & _).
  exists s'. split; [exact E|]. rewrite (receiver_filter_is_history_filter c rinit h s Hr) in D. cbn [lru rinit] in D.
  split; [exact D|]. intros Hn Ha. apply D. split; [exact Ha|]. apply not_recent_not_cached; assumption.
Qed.

(* ------------------------------------------------------------------ *)
(* F. the pubsub path                                                   *)

(* a republished announcement is attributed to its original publisher, not the relay *)
Theorem republished_attributed_to_origin_lemma relay me a :
  relay <> me -> a_peer a <> 0%N ->
  watch_decode me (republish relay a) = Some a.
Proof.
  intros Hr Hp. unfold watch_decode, republish. cbn [pm_addrs pm_orig pm_from pm_cid].
  destruct (a_peer a =? 0)%N eqn:E; [apply N.eqb_eq in E; congruence|].
  destruct (relay =? me)%N eqn:E2; [apply N.eqb_eq in E2; congruence|].
  destruct a; reflexivity.
Qed.

(* ... and then treated like a direct announcement by that publisher: the allow filter
   is asked about the origin *)
Corollary republished_filtered_by_origin relay me f a :
  relay <> me -> a_peer a <> 0%N ->
  pop_op me f (PMsg (republish relay a)) = Some (ODirect (allows f (a_peer a)) a false).
Proof.
  intros Hr Hp. cbn [pop_op]. rewrite republished_attributed_to_origin_lemma by assumption. reflexivity.
Qed.

Theorem republished_attributed_full relay me f a :
  relay <> me -> a_peer a <> 0%N ->
  watch_decode me (republish relay a) = Some a
  /\ pop_op me f (PMsg (republish relay a)) = Some (ODirect (allows f (a_peer a)) a false).
Proof.
  intros. split; [apply republished_attributed_to_origin_lemma|apply republished_filtered_by_origin]; assumption.
Qed.

(* a plain pubsub announcement is attributed to whoever sent it on the topic *)
Lemma direct_publication_attributed_to_sender me from k addrs :
  watch_decode me {| pm_from := from; pm_orig := ONone; pm_cid := k; pm_addrs := Some addrs |}
  = Some {| a_cid := k; a_peer := from; a_addrs := addrs |}.
Proof. reflexivity. Qed.

(* the receiver ignores its own republications: the watcher drops them before any
   filter is consulted *)
Theorem own_republication_ignored_lemma me a :
  a_peer a <> 0%N -> watch_decode me (republish me a) = None.
Proof.
  intro Hp. unfold watch_decode, republish. cbn [pm_addrs pm_orig pm_from].
  destruct (a_peer a =? 0)%N eqn:E; [apply N.eqb_eq in E; congruence|].
  rewrite N.eqb_refl. reflexivity.
Qed.

(* in every case (also for the empty peer ID, whose republication carries no OrigPeer)
   the receiver's own republication, processed right after the direct announcement that
   caused it, delivers nothing and leaves the state as it is *)
Theorem own_republication_no_effect c me f s a s1 :
  1 <= cap c -> good c s -> closed s = false -> out s = None ->
  seq_step c s (ODirect true a false) = [(RNil, s1)] -> out s1 = Some (filter_addrs c a) ->
  forall sn, sn = set_out s1 None ->       (* the consumer has taken it *)
  match pop_op me f (PMsg (republish me (filter_addrs c a))) with
  | None => True
  | Some o => seq_step c sn o = [(RNil, sn)]
  end.
Proof.
  intros Hc [Ns Ls] Hcl Ho E Hd sn ->. unfold pop_op, watch_decode, republish.
  cbn [pm_addrs pm_orig pm_from pm_cid].
  replace (a_peer (filter_addrs c a)) with (a_peer a) by (unfold filter_addrs; destruct (filter_ips c); reflexivity).
  replace (a_cid (filter_addrs c a)) with (a_cid a) by (unfold filter_addrs; destruct (filter_ips c); reflexivity).
  destruct (a_peer a =? 0)%N; [|rewrite N.eqb_refl; exact I].
  cbn [a_peer]. destruct (allows f me); [|reflexivity].
  (* allowed: the CID was just put at the front of the filter *)
  cbn [seq_step negb] in E. rewrite Hcl in E. unfold lru_update in E.
  destruct (memN (a_cid a) (lru s)) eqn:Hm.
  { injection E as <-. cbn [out set_lru] in Hd. rewrite Ho in Hd. discriminate. }
  cbn [out set_lru] in E. rewrite Ho in E. injection E as <-.
  cbn [seq_step negb closed set_out set_lru a_cid]. rewrite Hcl. unfold lru_update.
  cbn [lru set_out set_lru memN]. rewrite N.eqb_refl. cbn [orb removeN]. rewrite N.eqb_refl.
  reflexivity.
Qed.

(* a relay republishes only what it delivers itself *)
Lemma relay_publishes_iff c host f s a :
  closed s = false ->
  (exists m, relay_publishes c host f s a = Some m) <->
  (allows f (a_peer a) = true /\ memN (a_cid a) (lru s) = false).
Proof.
  intro Hcl. unfold relay_publishes. rewrite Hcl. unfold lru_update.
  destruct (allows f (a_peer a)); cbn [negb].
  - destruct (memN (a_cid a) (lru s)); cbn [fst]; split.
    + intros [m H]. discriminate.
    + intros [_ H]. discriminate.
    + intros _. auto.
    + intros _. eauto.
  - split; [intros [m H]; discriminate|intros [H _]; discriminate].
Qed.

(* ------------------------------------------------------------------ *)
(* G. the capacity                                                      *)

Theorem cache_size_is_64_lemma : cache_cap = 64 /\ announce_announceCacheSize = 64%Z.
Proof. split; reflexivity. Qed.

(* the theorems above at the built-in capacity *)
Definition builtin_cfg (fi : bool) : cfg := {| cap := cache_cap; filter_ips := fi |}.

Lemma builtin_cap_pos fi : 1 <= cap (builtin_cfg fi).
Proof. cbn. unfold cache_cap. cbn. lia. Qed.

(* ------------------------------------------------------------------ *)
(* H. the hypotheses are met: a concrete history with eviction, refresh and un-cache  *)

Example ex_history :
  let h := [LUpdate 1; LUpdate 2; LUpdate 3; LUpdate 1; LUpdate 4; LRemove 4; LUpdate 5]%N in
  snd (lru_run 3 [] h) = [5; 1; 3]%N /\ live h = [5; 1; 3; 2]%N.
Proof. vm_compute. split; reflexivity. Qed.

Example ex_run :
  exists s, run (builtin_cfg true) rinit [LUpdate 7%N]
              s /\ out s = Some {| a_cid := 7%N; a_peer := 3%N; a_addrs := [(0%N, true)] |}.
Proof.
  eexists. split.
  - change [LUpdate 7%N] with (op_lops false (ODirect true {| a_cid := 7%N; a_peer := 3%N; a_addrs := [(0%N, true); (2%N, false)] |} false) ++ []).
    eapply run_cons; [left; reflexivity|apply run_nil].
  - reflexivity.
Qed.
