(* C09: algebraic laws of the duplicate filter (model/Announce_Receiver.v, stringLRU):
   an immediate duplicate is a hit that changes nothing; a hit permutes the keys and never
   evicts; a miss on a full filter evicts exactly the least recently used key and keeps the
   order of the others; update and remove of different keys commute on membership. *)
From Model Require Import Announce_Receiver.
From Proofs Require Import C09_Receiver.
From Coq Require Import List Arith NArith Bool Lia Permutation.
Import ListNotations.
Open Scope nat_scope.

Lemma removeN_head c l : removeN c (c :: l) = l.
Proof. cbn [removeN]. rewrite N.eqb_refl. reflexivity. Qed.

Lemma memN_head c l : memN c (c :: l) = true.
Proof. cbn [memN]. rewrite N.eqb_refl. reflexivity. Qed.

(* whatever the filter held, the key just announced is at the front afterwards *)
Lemma lru_update_front cap0 c l : exists t, snd (lru_update cap0 c l) = c :: t.
Proof. unfold lru_update. destruct (memN c l); cbn [snd]; eexists; reflexivity. Qed.

(* an immediate duplicate is a hit and leaves the filter exactly as it was: for EVERY filter
   content (no NoDup or capacity premise needed) *)
Lemma lru_update_twice_lemma cap0 c l :
  let l1 := snd (lru_update cap0 c l) in
  lru_update cap0 c l1 = (true, l1).
Proof.
  cbn zeta. destruct (lru_update_front cap0 c l) as [t Ht]. rewrite Ht.
  unfold lru_update at 1. rewrite memN_head, removeN_head. reflexivity.
Qed.

Lemma removeN_perm c l : memN c l = true -> Permutation (c :: removeN c l) l.
Proof.
  induction l as [|x r IH]; cbn [memN removeN]; [discriminate|].
  destruct (N.eqb_spec c x) as [->|Hne]; cbn [orb]; intros H; [reflexivity|].
  etransitivity; [apply perm_swap|]. constructor. apply IH. exact H.
Qed.

(* a hit permutes the keys: nothing is evicted, nothing is added *)
Lemma lru_hit_permutes_lemma cap0 c l :
  fst (lru_update cap0 c l) = true ->
  Permutation (snd (lru_update cap0 c l)) l /\ length (snd (lru_update cap0 c l)) = length l.
Proof.
  unfold lru_update. destruct (memN c l) eqn:M; cbn [fst snd]; [|discriminate].
  intros _. pose proof (removeN_perm c l M) as P. split; [exact P|].
  apply Permutation_length. exact P.
Qed.

(* the keys other than c keep their relative order across any update: on a hit *)
Lemma removeN_filter_order c l :
  NoDup l -> removeN c l = filter (fun x => negb (x =? c)%N) l.
Proof. apply removeN_filter. Qed.

(* a miss on a full filter evicts exactly the last (least recently used) key; a miss on a
   filter with room evicts nothing *)
Lemma lru_miss_evicts_last_lemma cap0 c l :
  fst (lru_update cap0 c l) = false ->
  (length l = cap0 -> snd (lru_update cap0 c l) = c :: removelast l) /\
  (length l <> cap0 -> snd (lru_update cap0 c l) = c :: l).
Proof.
  unfold lru_update. destruct (memN c l) eqn:M; cbn [fst snd]; [discriminate|].
  intros _. split; intros H.
  - apply Nat.eqb_eq in H. rewrite H. reflexivity.
  - apply Nat.eqb_neq in H. rewrite H. reflexivity.
Qed.

Lemma In_removelast {A} (x : A) l : In x (removelast l) -> In x l.
Proof.
  induction l as [|a r IH]; cbn [removelast]; [tauto|].
  destruct r as [|b r']; [cbn; tauto|]. intros [H|H]; [left; exact H|right; apply IH; exact H].
Qed.

(* an update never adds a key other than the one announced *)
Lemma lru_update_adds_only_lemma cap0 c l x :
  In x (snd (lru_update cap0 c l)) -> x = c \/ In x l.
Proof.
  unfold lru_update. destruct (memN c l); cbn [snd]; intros [H|H]; auto.
  - right. eapply In_removeN; exact H.
  - right. destruct (Nat.eqb (length l) cap0); [apply In_removelast|]; exact H.
Qed.

(* un-caching one key does not change whether another key is held *)
Lemma memN_removeN_other c d l : c <> d -> memN d (removeN c l) = memN d l.
Proof.
  intros Hne. induction l as [|x r IH]; cbn [removeN memN]; [reflexivity|].
  destruct (N.eqb_spec c x) as [->|Hcx].
  - destruct (N.eqb_spec d x) as [->|_]; [congruence|reflexivity].
  - cbn [memN]. rewrite IH. reflexivity.
Qed.

Lemma lru_remove_other_lemma c d l : c <> d -> memN d (lru_remove c l) = memN d l.
Proof. apply memN_removeN_other. Qed.

(* removing a key that is not held changes nothing; removing twice is removing once (on a
   duplicate-free filter, which every reachable filter is) *)
Lemma lru_remove_idem_lemma c l : NoDup l -> lru_remove c (lru_remove c l) = lru_remove c l.
Proof.
  intros N. unfold lru_remove. apply removeN_notin. apply memN_false.
  apply removeN_NoDup_notin. exact N.
Qed.
