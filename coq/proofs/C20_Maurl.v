(* Proofs about model/C20_Maurl.v: URL -> multiaddr -> URL keeps the target for the
   repaired code, loses it (space -> '+') for the code before the fix, and
   /tls/http == /https. *)
From Lib Require Import Bytes Escape.
From Model Require Import C20_Maurl.
From Coq Require Import Lia.
Open Scope N_scope.

(* the multiaddr FromURL builds when nothing is rejected; stored = the bytes that end
   up in the http-path component *)
Definition hostc (u : url) : comp :=
  match u_hkind u with HIp4 => CIp4 (u_host u) | HIp6 => CIp6 (u_host u) | HDns => CDns (u_host u) end.
Definition portcs (u : url) : list comp :=
  match u_port u with None => [] | Some p => [CTcp p] end.
Definition pathcs (u : url) (stored : bytes) : list comp :=
  if is_nil (u_path u) then [] else [CHttpPath stored].
Definition canon_with (sc : list comp) (u : url) (stored : bytes) : maddr :=
  hostc u :: portcs u ++ sc ++ pathcs u stored.
Definition canon (u : url) (stored : bytes) : maddr := canon_with [scheme_comp (u_scheme u)] u stored.

Lemma wf_url_parts u :
  wf_url u = true ->
  wf_bytes (u_path u) = true /\
  match u_port u with None => True | Some p => (p <=? 65535) = true end /\
  match u_hkind u with HDns => is_nil (u_host u) = false /\ memb cSLASH (u_host u) = false | _ => True end.
Proof.
  unfold wf_url. intro H. apply andb_prop in H as [H H3]. apply andb_prop in H as [H1 H2].
  split; [exact H1|]. split.
  - destruct (u_port u); [exact H2|exact I].
  - destruct (u_hkind u); try exact I. apply andb_prop in H3 as [A B].
    apply negb_true_iff in A. apply negb_true_iff in B. auto.
Qed.

Lemma from_url_with_canon esc u stored :
  wf_url u = true ->
  (is_nil (u_path u) = false -> httppath_stb (esc (u_path u)) = Ok stored) ->
  from_url_with esc u = Ok (canon u stored).
Proof.
  intros Hwf Hst. apply wf_url_parts in Hwf as [_ [Hp Hh]].
  unfold from_url_with, canon, canon_with, host_comp, port_comps, hostc, portcs, pathcs, dns_stb, port_stb.
  destruct u as [s k h p path]. cbn [u_scheme u_hkind u_host u_port u_path] in *.
  assert ((match k with
           | HIp4 => Ok (CIp4 h) | HIp6 => Ok (CIp6 h)
           | HDns => h0 <- (if is_nil h then Err EEmptyDns else if memb cSLASH h then Err EDnsSlash else Ok h) ;; Ok (CDns h0)
           end) = Ok (match k with HIp4 => CIp4 h | HIp6 => CIp6 h | HDns => CDns h end)) as ->.
  { destruct k; try reflexivity. destruct Hh as [-> ->]. reflexivity. }
  cbn [bind].
  assert ((match p with None => Ok [] | Some p0 => q <- (if p0 <=? 65535 then Ok p0 else Err EPort) ;; Ok [CTcp q] end)
          = Ok (match p with None => [] | Some p0 => [CTcp p0] end)) as ->.
  { destruct p; [rewrite Hp|]; reflexivity. }
  cbn [bind].
  destruct (is_nil path) eqn:En.
  - reflexivity.
  - rewrite Hst by reflexivity. reflexivity.
Qed.

Lemma to_url_with_canon unesc u stored :
  to_url_with unesc (canon u stored) =
  Ok {| o_scheme := u_scheme u; o_host := host_string u;
        o_path := if is_nil (u_path u) then [] else or_empty (unesc (httppath_bts stored)) |}.
Proof.
  destruct u as [s k h p path].
  unfold canon, canon_with, hostc, portcs, pathcs, to_url_with, dial_args, host_string, path_of_with.
  cbn [u_scheme u_hkind u_host u_port u_path].
  destruct k, p as [p|], s, (is_nil path); cbn -[dec]; reflexivity.
Qed.

(* ---------------------------------------------------------------- *)
(* the repaired code                                                  *)

Lemma stb_query_escape path :
  wf_bytes path = true -> is_nil path = false -> httppath_stb (query_escape path) = Ok path.
Proof.
  intros Hwf Hn. unfold httppath_stb. rewrite query_unescape_query_escape by exact Hwf.
  cbn [bind]. rewrite Hn. reflexivity.
Qed.

Theorem from_url_ok u :
  wf_url u = true -> from_url u = Ok (canon u (u_path u)).
Proof.
  intro Hwf. apply from_url_with_canon; [exact Hwf|].
  apply wf_url_parts in Hwf as [Hp _]. intro Hn. apply stb_query_escape; assumption.
Qed.

Theorem url_roundtrip_proved u :
  wf_url u = true -> roundtrip u = Ok (same_target u).
Proof.
  intro Hwf. unfold roundtrip. rewrite from_url_ok by exact Hwf. cbn [bind].
  unfold to_url. rewrite to_url_with_canon. unfold same_target. f_equal. f_equal.
  apply wf_url_parts in Hwf as [Hp _].
  destruct (is_nil (u_path u)) eqn:En.
  - destruct (u_path u); [reflexivity|discriminate].
  - unfold httppath_bts. rewrite En. rewrite query_unescape_query_escape by exact Hp. reflexivity.
Qed.

(* the multiaddr denotes the advertised path: its http-path component holds u.Path *)
Theorem from_url_stores_path u m :
  wf_url u = true -> from_url u = Ok m ->
  first_httppath m = (if is_nil (u_path u) then None else Some (u_path u)).
Proof.
  intros Hwf H. rewrite from_url_ok in H by exact Hwf. inversion H; subst m. clear H.
  destruct u as [s k h p path]. unfold canon, canon_with, hostc, portcs, pathcs. cbn [u_scheme u_hkind u_host u_port u_path].
  destruct k, p as [p|], s, (is_nil path); reflexivity.
Qed.

(* FromURL rejects exactly the URLs whose host or port has no multiaddr form *)
Theorem from_url_total u :
  wf_bytes (u_path u) = true -> (is_ok (from_url u) = true <-> wf_url u = true).
Proof.
  intro Hp. split.
  - unfold wf_url. rewrite Hp. cbn [andb]. unfold from_url, from_url_with, host_comp, port_comps, dns_stb, port_stb.
    destruct u as [s k h p path]. cbn [u_scheme u_hkind u_host u_port u_path] in *.
    destruct k; cbn [bind].
    + destruct p as [p|]; [destruct (p <=? 65535); cbn; [reflexivity|discriminate]|reflexivity].
    + destruct p as [p|]; [destruct (p <=? 65535); cbn; [reflexivity|discriminate]|reflexivity].
    + destruct (is_nil h); [cbn; discriminate|]. destruct (memb cSLASH h); [cbn; discriminate|]. cbn [bind negb andb].
      destruct p as [p|]; [destruct (p <=? 65535); cbn; [reflexivity|discriminate]|reflexivity].
  - intro Hwf. rewrite from_url_ok by exact Hwf. reflexivity.
Qed.

(* ---------------------------------------------------------------- *)
(* the code before the fix                                            *)

Definition plusify (c : N) : N := if (c =? cSPACE) || (c =? cPLUS) then cPLUS else c.

Lemma map_nil_iff (f : N -> N) (l : bytes) : is_nil (map f l) = is_nil l.
Proof. destruct l; reflexivity. Qed.

Lemma wf_map_plus_to_space s : wf_bytes s = true -> wf_bytes (map plus_to_space s) = true.
Proof.
  unfold wf_bytes. rewrite !forallb_forall. intros H x Hx. apply in_map_iff in Hx as [y [<- Hy]].
  apply H in Hy. unfold plus_to_space, wf_byte in *. destruct (y =? cPLUS); [reflexivity|exact Hy].
Qed.

Theorem from_url_v0_ok u :
  wf_url u = true -> from_url_v0 u = Ok (canon u (map plus_to_space (u_path u))).
Proof.
  intro Hwf. apply from_url_with_canon; [exact Hwf|].
  apply wf_url_parts in Hwf as [Hp _]. intro Hn.
  unfold httppath_stb. rewrite query_unescape_path_escape by exact Hp. cbn [bind].
  rewrite map_nil_iff, Hn. reflexivity.
Qed.

(* what the old code returns, exactly: every space of the path has become a '+' *)
Theorem url_roundtrip_v0_exact u :
  wf_url u = true ->
  roundtrip_v0 u = Ok {| o_scheme := u_scheme u; o_host := host_string u; o_path := map plusify (u_path u) |}.
Proof.
  intro Hwf. unfold roundtrip_v0. rewrite from_url_v0_ok by exact Hwf. cbn [bind].
  unfold to_url_v0. rewrite to_url_with_canon. f_equal. f_equal.
  apply wf_url_parts in Hwf as [Hp _].
  destruct (is_nil (u_path u)) eqn:En.
  - destruct (u_path u); [reflexivity|discriminate].
  - unfold httppath_bts. rewrite map_nil_iff, En.
    rewrite path_unescape_query_escape by (apply wf_map_plus_to_space; exact Hp).
    cbn [or_empty]. rewrite map_map. apply map_ext. intro c.
    unfold space_to_plus, plus_to_space, plusify.
    destruct (N.eqb_spec c cPLUS) as [->|H1]; [reflexivity|].
    destruct (N.eqb_spec c cSPACE) as [->|H2]; [reflexivity|]. cbn [orb].
    destruct (N.eqb_spec c cSPACE); [contradiction|reflexivity].
Qed.

Lemma map_plusify_id s : map plusify s = s <-> memb cSPACE s = false.
Proof.
  induction s as [|c s IH]; cbn [map memb existsb]; [tauto|]. fold (memb cSPACE s).
  rewrite orb_false_iff. split.
  - intro H. injection H as H1 H2. apply IH in H2. split; [|exact H2].
    unfold plusify in H1. destruct (N.eqb_spec c cSPACE) as [->|Hn].
    + cbn in H1. discriminate.
    + apply N.eqb_neq. congruence.
  - intros [H1 H2]. apply IH in H2. rewrite H2. f_equal. unfold plusify.
    rewrite N.eqb_sym in H1. rewrite H1. cbn [orb]. destruct (N.eqb_spec c cPLUS); congruence.
Qed.

(* the old code keeps the target exactly for the paths without a space *)
Theorem url_roundtrip_v0_iff u :
  wf_url u = true ->
  (roundtrip_v0 u = Ok (same_target u) <-> memb cSPACE (u_path u) = false).
Proof.
  intro Hwf. rewrite url_roundtrip_v0_exact by exact Hwf. unfold same_target.
  rewrite <- map_plusify_id. split.
  - intro H. injection H as H. exact H.
  - intro H. rewrite H. reflexivity.
Qed.

(* and its multiaddr denotes another path whenever the path has a '+' *)
Theorem from_url_v0_stores u m :
  wf_url u = true -> from_url_v0 u = Ok m ->
  first_httppath m = (if is_nil (u_path u) then None else Some (map plus_to_space (u_path u))).
Proof.
  intros Hwf H. rewrite from_url_v0_ok in H by exact Hwf. inversion H; subst m. clear H.
  destruct u as [s k h p path]. unfold canon, canon_with, hostc, portcs, pathcs. cbn [u_scheme u_hkind u_host u_port u_path].
  destruct k, p as [p|], s, (is_nil path); reflexivity.
Qed.

Theorem url_roundtrip_v0_fails_iff_space_proved u :
  wf_url u = true ->
  (roundtrip_v0 u = Ok (same_target u) <-> memb 32 (u_path u) = false) /\
  (forall m, from_url_v0 u = Ok m ->
     first_httppath m = (if is_nil (u_path u) then None
                         else Some (map (fun c => if c =? 43 then 32 else c) (u_path u)))).
Proof.
  intro H. split; [exact (url_roundtrip_v0_iff u H)|intros m Hm; exact (from_url_v0_stores u m H Hm)].
Qed.

From Coq Require Import String.
Definition witness_space : url :=
  {| u_scheme := SHttp; u_hkind := HDns; u_host := unhex "6578616d706c652e636f6d"%string; u_port := None;
     u_path := unhex "2f612062"%string |}.       (* http://example.com/a%20b *)

Theorem url_roundtrip_v0_refuted_proved :
  exists u, wf_url u = true /\ roundtrip_v0 u <> Ok (same_target u).
Proof. exists witness_space. split; [reflexivity|]. vm_compute. discriminate. Qed.

Example witness_space_comes_back_as_plus :
  roundtrip_v0 witness_space =
  Ok {| o_scheme := SHttp; o_host := unhex "6578616d706c652e636f6d"%string; o_path := unhex "2f612b62"%string |}.
Proof. vm_compute. reflexivity. Qed.

Example witness_space_repaired : roundtrip witness_space = Ok (same_target witness_space).
Proof. vm_compute. reflexivity. Qed.

Definition witness_plus : url :=
  {| u_scheme := SHttps; u_hkind := HIp6; u_host := unhex "3a3a31"%string; u_port := Some 8080;
     u_path := unhex "2f612b62"%string |}.       (* https://[::1]:8080/a+b *)
Example witness_plus_v0_multiaddr :
  (m <- from_url_v0 witness_plus ;; Ok (ma_string m)) =
  Ok (unhex "2f6970362f3a3a312f7463702f383038302f68747470732f687474702d706174682f253246612b62"%string).
  (* /ip6/::1/tcp/8080/https/http-path/%2Fa+b : the http-path bytes are "/a b" *)
Proof. vm_compute. reflexivity. Qed.
Example witness_plus_multiaddr :
  (m <- from_url witness_plus ;; Ok (ma_string m)) =
  Ok (unhex "2f6970362f3a3a312f7463702f383038302f68747470732f687474702d706174682f25324661253242"%string ++ [98]).
  (* /ip6/::1/tcp/8080/https/http-path/%2Fa%2Bb *)
Proof. vm_compute. reflexivity. Qed.

(* ---------------------------------------------------------------- *)
(* /tls/http == /https                                                *)

Lemma existsb_is_https m : existsb is_https m = true <-> In CHttps m.
Proof.
  rewrite existsb_exists. split.
  - intros [c [Hin Hc]]. destruct c; try discriminate. exact Hin.
  - intro H. exists CHttps. auto.
Qed.
Lemma existsb_is_http m : existsb is_http m = true <-> In CHttp m.
Proof.
  rewrite existsb_exists. split.
  - intros [c [Hin Hc]]. destruct c; try discriminate. exact Hin.
  - intro H. exists CHttp. auto.
Qed.
Lemma existsb_is_tls m : existsb is_tls m = true <-> In CTls m.
Proof.
  rewrite existsb_exists. split.
  - intros [c [Hin Hc]]. destruct c; try discriminate. exact Hin.
  - intro H. exists CTls. auto.
Qed.

(* any multiaddr ToURL accepts: https, or http together with tls, gives scheme https;
   http without tls and without https gives http *)
Theorem tls_http_is_https_proved m o :
  to_url m = Ok o ->
  (In CHttps m \/ (In CHttp m /\ In CTls m) -> o_scheme o = SHttps) /\
  (In CHttp m -> ~ In CHttps m -> ~ In CTls m -> o_scheme o = SHttp).
Proof.
  unfold to_url, to_url_with. destruct (dial_args m) as [[host v6]| |]; cbn [bind]; try discriminate.
  intro H. inversion H; subst o; clear H. cbn [o_scheme]. unfold scheme_of. split.
  - intros [H|[H1 H2]].
    + apply existsb_is_https in H. rewrite H. reflexivity.
    + apply existsb_is_http in H1. apply existsb_is_tls in H2. rewrite H1, H2.
      destruct (existsb is_https m); reflexivity.
  - intros H1 H2 H3. apply existsb_is_http in H1.
    destruct (existsb is_https m) eqn:E2; [apply existsb_is_https in E2; contradiction|].
    destruct (existsb is_tls m) eqn:E3; [apply existsb_is_tls in E3; contradiction|].
    rewrite H1. reflexivity.
Qed.

(* for the addresses of publishers: the /tls/http spelling and the /https spelling of
   the same endpoint convert to the same URL, which is the https URL *)
Theorem tls_http_same_as_https u :
  wf_bytes (u_path u) = true ->
  let target := {| o_scheme := SHttps; o_host := host_string u; o_path := u_path u |} in
  to_url (canon_with [CTls; CHttp] u (u_path u)) = Ok target /\
  to_url (canon_with [CHttps] u (u_path u)) = Ok target.
Proof.
  intro Hp. cbn zeta.
  assert (forall sc, (sc = [CTls; CHttp] \/ sc = [CHttps]) ->
          to_url (canon_with sc u (u_path u)) =
          Ok {| o_scheme := SHttps; o_host := host_string u;
                o_path := if is_nil (u_path u) then [] else or_empty (query_unescape (httppath_bts (u_path u))) |}) as H.
  { intros sc Hsc. destruct u as [s k h p path].
    unfold canon_with, hostc, portcs, pathcs, to_url, to_url_with, dial_args, host_string, path_of_with.
    cbn [u_scheme u_hkind u_host u_port u_path].
    destruct Hsc as [-> | ->]; destruct k, p as [p|], (is_nil path); cbn -[dec]; reflexivity. }
  assert ((if is_nil (u_path u) then [] else or_empty (query_unescape (httppath_bts (u_path u)))) = u_path u) as E.
  { destruct (is_nil (u_path u)) eqn:En.
    - destruct (u_path u); [reflexivity|discriminate].
    - unfold httppath_bts. rewrite En, query_unescape_query_escape by exact Hp. reflexivity. }
  split; (rewrite H by auto; f_equal; f_equal; exact E).
Qed.

(* ---------------------------------------------------------------- *)
(* the http-path transcoder is a bijection between non-empty byte strings and their
   canonical text, so any http-path a peer sends converts to its bytes *)
Theorem to_url_path_is_httppath_bytes m o b :
  to_url m = Ok o -> first_httppath m = Some b -> wf_bytes b = true -> o_path o = b.
Proof.
  unfold to_url, to_url_with. destruct (dial_args m) as [[host v6]| |]; cbn [bind]; try discriminate.
  intros H Hf Hb. inversion H; subst o; clear H. cbn [o_path]. unfold path_of_with. rewrite Hf.
  unfold httppath_bts. destruct b as [|c b]; [reflexivity|]. cbn [is_nil].
  rewrite query_unescape_query_escape by exact Hb. reflexivity.
Qed.

(* host_string determines host and port: distinct (kind-consistent) hosts/ports give
   distinct Host strings is a property of net/url, not modelled; see design notes. *)

(* ---------------------------------------------------------------- *)
(* the request a sync client sends                                    *)

Lemma split_go_nosep s : forall cur, memb cSLASH s = false -> split_go cur s = [rev cur ++ s].
Proof.
  induction s as [|c s IH]; intros cur H; cbn [split_go].
  - rewrite app_nil_r. reflexivity.
  - cbn [memb existsb] in H. apply orb_false_iff in H as [H1 H2]. rewrite N.eqb_sym in H1. rewrite H1.
    rewrite IH by exact H2. cbn [rev]. rewrite <- app_assoc. reflexivity.
Qed.

Lemma split_go_sep s : forall cur rest,
  memb cSLASH s = false -> split_go cur (s ++ cSLASH :: rest) = (rev cur ++ s) :: split_go [] rest.
Proof.
  induction s as [|c s IH]; intros cur rest H; cbn [split_go app].
  - rewrite N.eqb_refl, app_nil_r. reflexivity.
  - cbn [memb existsb] in H. apply orb_false_iff in H as [H1 H2]. rewrite N.eqb_sym in H1. rewrite H1.
    rewrite IH by exact H2. cbn [rev]. rewrite <- app_assoc. reflexivity.
Qed.

Lemma normal_seg_parts s :
  normal_seg s = true -> is_nil s = false /\ is_dot s = false /\ is_dotdot s = false /\ memb cSLASH s = false.
Proof.
  unfold normal_seg. intro H. apply andb_prop in H as [H H4]. apply andb_prop in H as [H H3]. apply andb_prop in H as [H1 H2].
  repeat split; apply negb_true_iff; assumption.
Qed.

Lemma split_join_tail s segs :
  forallb normal_seg (s :: segs) = true -> split_go [] (s ++ join_slash segs) = s :: segs.
Proof.
  revert s. induction segs as [|s2 segs IH]; intros s H; cbn [forallb] in H; apply andb_prop in H as [Hs Hr].
  - cbn [join_slash flat_map]. rewrite app_nil_r. apply normal_seg_parts in Hs as (_ & _ & _ & Hm).
    rewrite split_go_nosep by exact Hm. reflexivity.
  - cbn [join_slash flat_map app]. apply normal_seg_parts in Hs as (_ & _ & _ & Hm).
    rewrite split_go_sep by exact Hm. cbn [rev app]. f_equal. apply IH. exact Hr.
Qed.

Lemma clean_go_normal segs : forall stack,
  forallb normal_seg segs = true -> clean_go stack segs = rev stack ++ segs.
Proof.
  induction segs as [|s segs IH]; intros stack H; cbn [clean_go].
  - rewrite app_nil_r. reflexivity.
  - cbn [forallb] in H. apply andb_prop in H as [Hs Hr]. apply normal_seg_parts in Hs as (H1 & H2 & H3 & _).
    rewrite H1, H2, H3. cbn [orb]. rewrite IH by exact Hr. cbn [rev]. rewrite <- app_assoc. reflexivity.
Qed.

(* path.Clean leaves a path of normal segments alone *)
Lemma clean_path_normal s segs :
  forallb normal_seg (s :: segs) = true -> clean_path (join_slash (s :: segs)) = join_slash (s :: segs).
Proof.
  intro H. unfold clean_path, split_slash. cbn [join_slash flat_map app split_go]. rewrite N.eqb_refl. cbn [rev].
  change (flat_map (fun s0 => cSLASH :: s0) segs) with (join_slash segs).
  rewrite split_join_tail by exact H.
  change (clean_go [] ([] :: s :: segs)) with (clean_go [] (s :: segs)).
  rewrite (clean_go_normal (s :: segs) [] H). reflexivity.
Qed.

Lemma join_slash_app a b : join_slash (a ++ b) = join_slash a ++ join_slash b.
Proof. unfold join_slash. apply flat_map_app. Qed.

Definition ipni_segs : list bytes := [[105;112;110;105]; [118;49]; [97;100]].
Lemma ipni_path_segs : ipni_path = join_slash ipni_segs. Proof. reflexivity. Qed.

(* what the server sees, for every advertised URL: the host of the URL, and the CLEANED
   concatenation of the advertised path, /ipni/v1/ad and the resource *)
Theorem sync_request_is_cleaned u rsrc :
  wf_url u = true ->
  sync_request u rsrc = Ok (host_string u, clean_path (u_path u ++ ipni_path ++ cSLASH :: rsrc)).
Proof.
  intro Hwf. unfold sync_request. pose proof (url_roundtrip_proved u Hwf) as R. unfold roundtrip in R.
  destruct (from_url u) as [m| |]; cbn [bind] in *; try discriminate. rewrite R. reflexivity.
Qed.

(* a base path made of normal segments (no repeated or trailing slash, no dot segment; may be
   empty) is requested exactly: advertised path followed by /ipni/v1/ad/<resource> *)
Theorem sync_client_requests_advertised_endpoint_proved u rsrc segs :
  wf_url u = true -> u_path u = join_slash segs -> forallb normal_seg segs = true -> normal_seg rsrc = true ->
  sync_request u rsrc = Ok (host_string u, u_path u ++ ipni_path ++ cSLASH :: rsrc).
Proof.
  intros Hwf Hp Hs Hr. rewrite sync_request_is_cleaned by exact Hwf. f_equal. f_equal.
  rewrite Hp, ipni_path_segs. replace (cSLASH :: rsrc) with (join_slash [rsrc]) by (cbn [join_slash flat_map]; apply app_nil_r).
  rewrite <- !join_slash_app.
  assert (forallb normal_seg (segs ++ ipni_segs ++ [rsrc]) = true) as Hall.
  { rewrite !forallb_app, Hs. cbn [forallb andb]. rewrite Hr. reflexivity. }
  destruct (segs ++ ipni_segs ++ [rsrc]) as [|s l] eqn:E.
  - destruct segs; discriminate.
  - apply clean_path_normal. exact Hall.
Qed.

(* the premise is needed: repeated slashes of an advertised base path are not requested *)
Definition witness_slashes : url :=
  {| u_scheme := SHttp; u_hkind := HIp4; u_host := [49;50;55;46;48;46;48;46;49]; u_port := Some 8080;
     u_path := [47;47;97] |}.       (* http://127.0.0.1:8080//a *)
Theorem sync_client_repeated_slashes_refuted_proved :
  wf_url witness_slashes = true /\
  (exists h p, sync_request witness_slashes [104;101;97;100] = Ok (h, p) /\
               p = [47;97] ++ ipni_path ++ [47;104;101;97;100] /\
               p <> u_path witness_slashes ++ ipni_path ++ [47;104;101;97;100]).
Proof.
  split; [reflexivity|]. eexists. eexists. split; [vm_compute; reflexivity|]. split; [reflexivity|]. vm_compute. discriminate.
Qed.

(* ---------------------------------------------------------------- *)
(* MultiaddrStringToNetAddr names the endpoint ToURL names            *)

Theorem netaddr_agrees_with_to_url_proved m h :
  netaddr_of m = Ok h ->
  exists o, to_url m = Ok o /\ (o_host o = h \/ o_host o = cLBR :: h ++ [cRBR]).
Proof.
  unfold netaddr_of, to_url, to_url_with. destruct (last_is_net m && negb (first_is_dns m)); [|discriminate].
  destruct (dial_args m) as [[h' v6]| |]; cbn [bind]; try discriminate. intro H. inversion H; subst.
  eexists. split; [reflexivity|]. cbn [o_host]. destruct v6; auto.
Qed.
