(* C11 -- proofs about model/C11_Metadata.v *)
From Lib Require Import Bytes Varint.
From Model Require Import C11_Metadata.
From Coq Require Import Lia ZifyN ZifyNat ZifyBool Permutation Sorted.
Ltac Zify.zify_post_hook ::= Z.div_mod_to_equations.
Open Scope N_scope.
Local Arguments N.mul : simpl never.
Local Arguments N.add : simpl never.
Local Arguments N.sub : simpl never.
Local Arguments N.div : simpl never.
Local Arguments N.modulo : simpl never.
Local Arguments N.pow : simpl never.
Local Arguments N.of_nat : simpl never.
Local Arguments N.to_nat : simpl never.

(* ================================================================== *)
(* A. lists, bytes, varints                                            *)

Lemma strip_prefix_app p r : strip_prefix p (p ++ r) = Some r.
Proof. induction p as [|x p IH]; cbn; [reflexivity|]. rewrite N.eqb_refl. exact IH. Qed.

Lemma strip_prefix_some : forall p b r, strip_prefix p b = Some r -> b = p ++ r.
Proof.
  induction p as [|x p IH]; intros b r H; cbn in H.
  - inversion H; reflexivity.
  - destruct b as [|y b]; [discriminate|]. destruct (x =? y) eqn:E; [|discriminate].
    apply N.eqb_eq in E. subst y. cbn. f_equal. apply IH. exact H.
Qed.

Lemma wf_bytes_app a b : wf_bytes (a ++ b) = wf_bytes a && wf_bytes b.
Proof. unfold wf_bytes. apply forallb_app. Qed.

Lemma wf_bytes_firstn n l : wf_bytes l = true -> wf_bytes (firstn n l) = true.
Proof.
  intro H. rewrite <- (firstn_skipn n l) in H. rewrite wf_bytes_app in H.
  apply andb_prop in H. tauto.
Qed.
Lemma wf_bytes_skipn n l : wf_bytes l = true -> wf_bytes (skipn n l) = true.
Proof.
  intro H. rewrite <- (firstn_skipn n l) in H. rewrite wf_bytes_app in H.
  apply andb_prop in H. tauto.
Qed.

Lemma firstn_add {A} (a b : nat) (l : list A) :
  firstn (a + b) l = firstn a l ++ firstn b (skipn a l).
Proof.
  revert l; induction a as [|a IH]; intro l; cbn; [reflexivity|].
  destruct l as [|x l]; cbn.
  - rewrite firstn_nil. reflexivity.
  - f_equal. apply IH.
Qed.

Lemma skipn_skipn {A} (a b : nat) (l : list A) : skipn a (skipn b l) = skipn (b + a) l.
Proof.
  revert l; induction b as [|b IH]; intro l; cbn; [reflexivity|].
  destruct l as [|x l]; cbn; [apply skipn_nil|apply IH].
Qed.

Lemma firstn_app_exact {A} (a b : list A) n : n = length a -> firstn n (a ++ b) = a.
Proof. intros ->. rewrite firstn_app, Nat.sub_diag, firstn_all. cbn. apply app_nil_r. Qed.
Lemma skipn_app_exact {A} (a b : list A) n : n = length a -> skipn n (a ++ b) = b.
Proof. intros ->. rewrite skipn_app, Nat.sub_diag, skipn_all. reflexivity. Qed.

Lemma dec_f_bounds : forall bs i v k, dec_f i bs = Ok (v, k) -> (1 <= k <= length bs)%nat.
Proof.
  induction bs as [|b r IH]; intros i v k H; cbn [dec_f] in H; [discriminate|].
  destruct ((Nat.eqb i 8 && (128 <=? b)) || Nat.leb 9 i)%bool; [discriminate|].
  destruct (b <? 128).
  - destruct ((b =? 0) && negb (Nat.eqb i 0))%bool; [discriminate|]. inversion H; subst. cbn; lia.
  - destruct (dec_f (S i) r) as [[v' k']| |] eqn:E; try discriminate. inversion H; subst.
    apply IH in E. cbn; lia.
Qed.
Lemma dec_bounds bs v k : dec bs = Ok (v, k) -> (1 <= k <= length bs)%nat.
Proof. apply dec_f_bounds. Qed.

Lemma dec_f_no_panic : forall bs i c, dec_f i bs <> Panic c.
Proof.
  induction bs as [|b r IH]; intros i c; cbn [dec_f]; [discriminate|].
  destruct ((Nat.eqb i 8 && (128 <=? b)) || Nat.leb 9 i)%bool; [discriminate|].
  destruct (b <? 128).
  - destruct ((b =? 0) && negb (Nat.eqb i 0))%bool; discriminate.
  - destruct (dec_f (S i) r) as [[v' k']| |] eqn:E; try discriminate. exfalso. eapply IH. exact E.
Qed.
Lemma dec_no_panic bs c : dec bs <> Panic c.
Proof. apply dec_f_no_panic. Qed.

Lemma dec_f_err : forall bs i c, dec_f i bs = Err c -> c < 10.
Proof.
  induction bs as [|b r IH]; intros i c; cbn [dec_f]; intro H.
  - inversion H. unfold EUnderflow. lia.
  - destruct ((Nat.eqb i 8 && (128 <=? b)) || Nat.leb 9 i)%bool.
    { inversion H. unfold EOverflow. lia. }
    destruct (b <? 128).
    + destruct ((b =? 0) && negb (Nat.eqb i 0))%bool; inversion H. unfold ENotMinimal. lia.
    + destruct (dec_f (S i) r) as [[v' k']| |] eqn:E; try discriminate. inversion H; subst.
      eapply IH. exact E.
Qed.
Lemma dec_err bs c : dec bs = Err c -> c < 10.
Proof. apply dec_f_err. Qed.

(* a successful varint read of well-formed bytes splits the input *)
Lemma dec_split bs v k :
  dec bs = Ok (v, k) -> wf_bytes bs = true ->
  bs = enc v ++ skipn k bs /\ length (enc v) = k /\ v < 2 ^ 63.
Proof.
  intros H W. pose proof (dec_bounds _ _ _ H) as B.
  destruct (dec_canonical _ _ _ H W) as [C L].
  split; [|split]; [| |exact L].
  - rewrite <- C. symmetry. apply firstn_skipn.
  - rewrite <- C. rewrite firstn_length. lia.
Qed.

Lemma enc_len_pos n : (1 <= length (enc n) <= 10)%nat.
Proof. apply enc_length. Qed.

(* ================================================================== *)
(* B. New: the stable sort by ID                                       *)

Definition le_id (a b : proto) : Prop := id_of a <= id_of b.

Lemma insert_perm p l : Permutation (p :: l) (insert p l).
Proof.
  induction l as [|q r IH]; cbn; [reflexivity|].
  destruct (id_of p <=? id_of q); [reflexivity|].
  rewrite perm_swap. apply perm_skip. exact IH.
Qed.

Lemma new_perm l : Permutation l (new l).
Proof.
  induction l as [|p r IH]; cbn; [constructor|].
  rewrite <- insert_perm. apply perm_skip. exact IH.
Qed.

Lemma insert_sorted_from : forall l a p,
  sorted_from a l = true -> a <= id_of p -> sorted_from a (insert p l) = true.
Proof.
  induction l as [|q r IH]; intros a p H Hp; cbn [insert].
  - cbn. replace (id_of p <? a) with false by lia. reflexivity.
  - cbn [sorted_from] in H. apply andb_prop in H as [H1 H2].
    destruct (id_of p <=? id_of q) eqn:E.
    + cbn [sorted_from]. replace (id_of p <? a) with false by lia.
      replace (id_of q <? id_of p) with false by lia. cbn. exact H2.
    + cbn [sorted_from]. rewrite H1. cbn. apply IH; [exact H2|lia].
Qed.

Lemma new_sorted_from l : sorted_from 0 (new l) = true.
Proof.
  induction l as [|p r IH]; cbn; [reflexivity|]. apply insert_sorted_from; [exact IH|lia].
Qed.

Lemma insert_sorted_id p l : sorted_from (id_of p) l = true -> insert p l = p :: l.
Proof.
  destruct l as [|q r]; cbn; [reflexivity|]. intro H. apply andb_prop in H as [H _].
  replace (id_of p <=? id_of q) with true by lia. reflexivity.
Qed.

Lemma new_sorted_id : forall l a, sorted_from a l = true -> new l = l.
Proof.
  induction l as [|p r IH]; intros a H; cbn; [reflexivity|].
  cbn in H. apply andb_prop in H as [_ H]. rewrite (IH _ H). apply insert_sorted_id. exact H.
Qed.

Lemma sorted_from_weaken : forall l a b, b <= a -> sorted_from a l = true -> sorted_from b l = true.
Proof.
  destruct l as [|p r]; intros a b L H; cbn in *; [reflexivity|].
  apply andb_prop in H as [H1 H2]. rewrite H2. replace (id_of p <? b) with false by lia. reflexivity.
Qed.

Lemma sorted_from_strongly : forall l a, sorted_from a l = true ->
  StronglySorted le_id l /\ Forall (fun p => a <= id_of p) l.
Proof.
  induction l as [|p r IH]; intros a H; [split; constructor|].
  cbn in H. apply andb_prop in H as [H1 H2]. destruct (IH _ H2) as [S F].
  split.
  - constructor; [exact S|]. eapply Forall_impl; [|exact F]. intros q Hq. exact Hq.
  - constructor; [lia|]. eapply Forall_impl; [|exact F]. cbn. intros q Hq. lia.
Qed.

Lemma new_strongly_sorted l : StronglySorted le_id (new l).
Proof. exact (proj1 (sorted_from_strongly _ _ (new_sorted_from l))). Qed.

(* stability: protocols of one ID keep their construction order *)
Lemma insert_filter i p l :
  filter (fun q => id_of q =? i) (insert p l) =
  if id_of p =? i then p :: filter (fun q => id_of q =? i) l else filter (fun q => id_of q =? i) l.
Proof.
  induction l as [|q r IH]; cbn [insert filter]; [reflexivity|].
  destruct (id_of p <=? id_of q) eqn:E.
  - cbn [filter]. reflexivity.
  - cbn [filter]. rewrite IH.
    destruct (id_of q =? i) eqn:Eq, (id_of p =? i) eqn:Ep; try reflexivity. lia.
Qed.

Lemma new_stable i l : filter (fun q => id_of q =? i) (new l) = filter (fun q => id_of q =? i) l.
Proof.
  induction l as [|p r IH]; cbn [new filter]; [reflexivity|].
  rewrite insert_filter, IH. reflexivity.
Qed.

Lemma find_filter {A} (f : A -> bool) l : find f l = hd_error (filter f l).
Proof. induction l as [|x l IH]; cbn; [reflexivity|]. destruct (f x); [reflexivity|exact IH]. Qed.

Lemma get_new ps i : get (new ps) i = get ps i.
Proof. unfold get. rewrite !find_filter, new_stable. reflexivity. Qed.

Lemma forallb_perm {A} (f : A -> bool) l l' : Permutation l l' -> forallb f l = forallb f l'.
Proof.
  induction 1; cbn; try congruence.
  - destruct (f x), (f y); reflexivity.
Qed.

(* ================================================================== *)
(* C. CBOR byte-string head: minimal form, read back, canonical        *)

Lemma be_length k n : length (be k n) = k.
Proof. revert n; induction k as [|k IH]; intro n; cbn [be]; [reflexivity|]. rewrite app_length, IH. cbn. lia. Qed.

Lemma wf_bytes_be k n : wf_bytes (be k n) = true.
Proof.
  revert n; induction k as [|k IH]; intro n; cbn [be]; [reflexivity|].
  rewrite wf_bytes_app, IH. cbn. unfold wf_byte. replace (n mod 256 <? 256) with true by lia. reflexivity.
Qed.

Lemma from_be_app l x : from_be (l ++ [x]) = 256 * from_be l + x.
Proof. unfold from_be. rewrite fold_left_app. reflexivity. Qed.

Lemma from_be_be : forall k n, n < 256 ^ N.of_nat k -> from_be (be k n) = n.
Proof.
  induction k as [|k IH]; intros n H.
  - change (256 ^ N.of_nat 0) with 1 in H. cbn. unfold from_be. cbn. lia.
  - cbn [be]. rewrite from_be_app, IH.
    + lia.
    + rewrite Nat2N.inj_succ, N.pow_succ_r' in H. lia.
Qed.

Lemma be_from_be : forall l, wf_bytes l = true -> be (length l) (from_be l) = l.
Proof.
  induction l as [|x l IH] using rev_ind; intro W; [reflexivity|].
  rewrite wf_bytes_app in W. apply andb_prop in W as [W1 W2]. cbn in W2. unfold wf_byte in W2.
  rewrite app_length, Nat.add_1_r. cbn [be length]. rewrite from_be_app.
  replace ((256 * from_be l + x) / 256) with (from_be l) by lia.
  replace ((256 * from_be l + x) mod 256) with x by lia.
  rewrite IH by exact W1. reflexivity.
Qed.

Lemma from_be_lt : forall l, wf_bytes l = true -> from_be l < 256 ^ N.of_nat (length l).
Proof.
  induction l as [|x l IH] using rev_ind; intro W.
  - cbn. unfold from_be. cbn. change (256 ^ N.of_nat 0) with 1. lia.
  - rewrite wf_bytes_app in W. apply andb_prop in W as [W1 W2]. cbn in W2. unfold wf_byte in W2.
    rewrite app_length, Nat.add_1_r, Nat2N.inj_succ, N.pow_succ_r', from_be_app.
    specialize (IH W1). lia.
Qed.

Lemma rd_bytes_head_enc n r :
  n <= gs_link_max ->
  rd_bytes_head (cbor_head 2 n ++ r) = Some (n, length (cbor_head 2 n)).
Proof.
  intro L. unfold gs_link_max in L. unfold cbor_head.
  destruct (n <? 24) eqn:E1; [|destruct (n <? 256) eqn:E2; [|destruct (n <? 65536) eqn:E3; [|destruct (n <? 4294967296) eqn:E4]]].
  - cbn [app rd_bytes_head length].
    replace ((64 <=? 32 * 2 + n) && (32 * 2 + n <? 88))%bool with true by lia.
    f_equal. f_equal. lia.
  - change (32 * 2 + 24) with 88. cbn [app rd_bytes_head length].
    change ((64 <=? 88) && (88 <? 88))%bool with false. change (88 =? 88) with true. cbn iota.
    replace ((24 <=? n) && (n <? 256))%bool with true by lia. reflexivity.
  - change (32 * 2 + 25) with 89. cbn [app rd_bytes_head length].
    change ((64 <=? 89) && (89 <? 88))%bool with false. change (89 =? 88) with false. change (89 =? 89) with true.
    cbn iota. rewrite (firstn_app_exact (be 2 n) r) by (symmetry; apply be_length).
    rewrite be_length, wf_bytes_be, from_be_be by (change (256 ^ N.of_nat 2) with 65536; lia).
    cbn [Nat.eqb andb]. replace (256 <=? n) with true by lia. reflexivity.
  - change (32 * 2 + 26) with 90. cbn [app rd_bytes_head length].
    change ((64 <=? 90) && (90 <? 88))%bool with false. change (90 =? 88) with false. change (90 =? 89) with false.
    change (90 =? 90) with true.
    cbn iota. rewrite (firstn_app_exact (be 4 n) r) by (symmetry; apply be_length).
    rewrite be_length, wf_bytes_be, from_be_be by (change (256 ^ N.of_nat 4) with 4294967296; lia).
    cbn [Nat.eqb andb]. replace (65536 <=? n) with true by lia. reflexivity.
  - lia.
Qed.

Lemma cbor_head_length_le major n : (1 <= length (cbor_head major n) <= 9)%nat.
Proof.
  unfold cbor_head.
  destruct (n <? 24); [cbn; lia|]. destruct (n <? 256); [cbn; lia|].
  destruct (n <? 65536); [cbn [length]; rewrite be_length; lia|].
  destruct (n <? 4294967296); cbn [length]; rewrite be_length; lia.
Qed.

Lemma rd_bytes_head_canon b n k :
  rd_bytes_head b = Some (n, k) -> wf_bytes b = true ->
  firstn k b = cbor_head 2 n /\ (1 <= k <= length b)%nat.
Proof.
  intros H W. destruct b as [|h r]; [discriminate|]. cbn [rd_bytes_head] in H.
  cbn in W. apply andb_prop in W as [Wh Wr]. unfold wf_byte in Wh.
  destruct ((64 <=? h) && (h <? 88))%bool eqn:E0.
  { inversion H; subst. split; [|cbn; lia]. cbn [firstn]. unfold cbor_head.
    replace (h - 64 <? 24) with true by lia. f_equal. lia. }
  destruct (h =? 88) eqn:E1.
  { apply N.eqb_eq in E1. subst h. destruct r as [|x r']; [discriminate|].
    destruct ((24 <=? x) && (x <? 256))%bool eqn:E; [|discriminate]. inversion H; subst.
    split; [|cbn; lia]. cbn [firstn]. unfold cbor_head.
    replace (n <? 24) with false by lia. replace (n <? 256) with true by lia. reflexivity. }
  assert (Hgen : forall (m : nat) (lo hi tagb : N),
     (let l := firstn m r in
      if (Nat.eqb (length l) m && wf_bytes l && (lo <=? from_be l))%bool then Some (from_be l, S m) else None) = Some (n, k) ->
     256 ^ N.of_nat m = hi ->
     firstn k (h :: r) = h :: be m n /\ (1 <= k <= length (h :: r))%nat /\ lo <= n < hi).
  { intros m lo hi tagb Hm Hhi. cbv zeta in Hm.
    destruct (Nat.eqb (length (firstn m r)) m && wf_bytes (firstn m r) && (lo <=? from_be (firstn m r)))%bool eqn:E; [|discriminate].
    apply andb_prop in E as [E Elo]. apply andb_prop in E as [El Ew]. apply Nat.eqb_eq in El.
    inversion Hm; subst n k. clear Hm.
    pose proof (from_be_lt _ Ew) as Hlt. rewrite El, Hhi in Hlt.
    split; [|split].
    - cbn [firstn]. f_equal. symmetry.
      transitivity (be (length (firstn m r)) (from_be (firstn m r))); [rewrite El; reflexivity|apply be_from_be; exact Ew].
    - rewrite firstn_length in El. cbn [length]. lia.
    - lia. }
  destruct (h =? 89) eqn:E2.
  { apply N.eqb_eq in E2. subst h.
    destruct (Hgen 2%nat 256 65536 0 H eq_refl) as (F & B & R).
    split; [|exact B]. rewrite F. unfold cbor_head.
    replace (n <? 24) with false by lia. replace (n <? 256) with false by lia.
    replace (n <? 65536) with true by lia. reflexivity. }
  destruct (h =? 90) eqn:E3.
  { apply N.eqb_eq in E3. subst h.
    destruct (Hgen 4%nat 65536 4294967296 0 H eq_refl) as (F & B & R).
    split; [|exact B]. rewrite F. unfold cbor_head.
    replace (n <? 24) with false by lia. replace (n <? 256) with false by lia.
    replace (n <? 65536) with false by lia. replace (n <? 4294967296) with true by lia. reflexivity. }
  destruct (h =? 91) eqn:E4; [|discriminate].
  { apply N.eqb_eq in E4. subst h.
    destruct (Hgen 8%nat 4294967296 18446744073709551616 0 H eq_refl) as (F & B & R).
    split; [|exact B]. rewrite F. unfold cbor_head.
    replace (n <? 24) with false by lia. replace (n <? 256) with false by lia.
    replace (n <? 65536) with false by lia. replace (n <? 4294967296) with false by lia. reflexivity. }
Qed.

(* ================================================================== *)
(* D. graphsync-filecoin payload: canonical DAG-CBOR                    *)

Lemma rd_bool_cbor b : rd_bool (cbor_bool b) = Some b.
Proof. destruct b; reflexivity. Qed.

Lemma rd_bool_some x b : rd_bool x = Some b -> x = cbor_bool b.
Proof.
  unfold rd_bool. destruct (x =? 244) eqn:E1.
  - intro H; inversion H. apply N.eqb_eq in E1. subst. reflexivity.
  - destruct (x =? 245) eqn:E2; [|discriminate]. intro H; inversion H. apply N.eqb_eq in E2. subst. reflexivity.
Qed.

Lemma gs_enc_length c vd fr :
  length (gs_enc c vd fr) =
  (12 + length (cbor_head 2 (1 + N.of_nat (length c))) + (1 + length c) + 13 + 1 + 14 + 1)%nat.
Proof.
  unfold gs_enc. rewrite !app_length.
  change (length gs_pre) with 12%nat. change (length gs_mid) with 13%nat. change (length gs_end) with 14%nat.
  cbn [length]. lia.
Qed.

Lemma gs_dec_enc c vd fr rest :
  cid_ok c = true -> 1 + N.of_nat (length c) <= gs_link_max ->
  gs_dec (gs_enc c vd fr ++ rest) = Ok (c, vd, fr, length (gs_enc c vd fr)).
Proof.
  intros Hc Hl. rewrite gs_enc_length. unfold gs_dec, gs_enc.
  rewrite <- !app_assoc. rewrite strip_prefix_app.
  set (n := 1 + N.of_nat (length c)) in *.
  rewrite rd_bytes_head_enc by exact Hl.
  replace ((n =? 0) || (gs_link_max <? n))%bool with false by lia.
  rewrite skipn_app_exact by reflexivity.
  cbn [app].
  match goal with |- context [N.of_nat (length ?l) <? n] =>
    replace (N.of_nat (length l) <? n) with false by (cbn [length]; rewrite app_length; subst n; lia) end.
  cbv beta iota.
  replace (N.to_nat n - 1)%nat with (length c) by (subst n; lia).
  rewrite firstn_app_exact by reflexivity. rewrite Hc.
  rewrite skipn_app_exact by reflexivity.
  rewrite strip_prefix_app. rewrite rd_bool_cbor. rewrite strip_prefix_app. rewrite rd_bool_cbor.
  f_equal. f_equal. subst n. lia.
Qed.

Lemma gs_dec_canon b c vd fr k :
  gs_dec b = Ok (c, vd, fr, k) -> wf_bytes b = true ->
  firstn k b = gs_enc c vd fr /\ (1 <= k <= length b)%nat /\
  cid_ok c = true /\ wf_bytes c = true /\ 1 + N.of_nat (length c) <= gs_link_max.
Proof.
  intros H W. unfold gs_dec in H.
  destruct (strip_prefix gs_pre b) as [b1|] eqn:E1; [|discriminate].
  apply strip_prefix_some in E1. subst b.
  rewrite wf_bytes_app in W. apply andb_prop in W as [_ W1].
  destruct (rd_bytes_head b1) as [[n kh]|] eqn:E2; [|discriminate].
  destruct (rd_bytes_head_canon _ _ _ E2 W1) as [Hh Hk].
  destruct ((n =? 0) || (gs_link_max <? n))%bool eqn:E3; [discriminate|].
  destruct (N.of_nat (length (skipn kh b1)) <? n) eqn:E4; [discriminate|].
  pose proof (wf_bytes_skipn kh _ W1) as W2.
  destruct (skipn kh b1) as [|z b3] eqn:E5; [discriminate|].
  destruct z as [|zp]; [|discriminate].
  cbn in W2.
  destruct (cid_ok (firstn (N.to_nat n - 1) b3)) eqn:E6; [|discriminate].
  destruct (strip_prefix gs_mid (skipn (N.to_nat n - 1) b3)) as [[|x b4]|] eqn:E7; try discriminate.
  destruct (rd_bool x) as [vd'|] eqn:E8; [|discriminate].
  destruct (strip_prefix gs_end b4) as [[|y b5]|] eqn:E9; try discriminate.
  destruct (rd_bool y) as [fr'|] eqn:E10; [|discriminate].
  inversion H; subst c vd' fr' k; clear H.
  apply strip_prefix_some in E7. apply strip_prefix_some in E9.
  apply rd_bool_some in E8. apply rd_bool_some in E10. subst x y b4.
  set (m := (N.to_nat n - 1)%nat) in *.
  cbn [length] in E4.
  assert (Hm : length (firstn m b3) = m) by (rewrite firstn_length; lia).
  assert (Hn : n = 1 + N.of_nat (length (firstn m b3))) by lia.
  assert (Hb1 : b1 = cbor_head 2 n ++ 0 :: firstn m b3 ++ gs_mid ++ cbor_bool vd :: gs_end ++ cbor_bool fr :: b5).
  { rewrite <- (firstn_skipn kh b1), Hh, E5. f_equal. f_equal.
    rewrite <- (firstn_skipn m b3) at 1. rewrite E7. reflexivity. }
  assert (Hwhole : gs_pre ++ b1 = gs_enc (firstn m b3) vd fr ++ b5).
  { rewrite Hb1. unfold gs_enc. rewrite <- Hn. rewrite <- !app_assoc. reflexivity. }
  assert (Hlen : (12 + kh + N.to_nat n + 13 + 1 + 14 + 1)%nat = length (gs_enc (firstn m b3) vd fr)).
  { rewrite gs_enc_length, <- Hn, <- Hh, firstn_length. lia. }
  split; [|split; [|split; [|split]]].
  - rewrite Hwhole. apply firstn_app_exact. lia.
  - rewrite Hwhole, app_length. lia.
  - exact E6.
  - apply wf_bytes_firstn. exact W2.
  - lia.
Qed.

(* without assuming well-formed bytes: what is consumed was there *)
Lemma gs_dec_len b c vd fr k : gs_dec b = Ok (c, vd, fr, k) -> (1 <= k)%nat.
Proof.
  unfold gs_dec.
  destruct (strip_prefix gs_pre b) as [b1|]; [|discriminate].
  destruct (rd_bytes_head b1) as [[n kh]|]; [|discriminate].
  destruct ((n =? 0) || (gs_link_max <? n))%bool; [discriminate|].
  destruct (N.of_nat (length (skipn kh b1)) <? n); [discriminate|].
  destruct (skipn kh b1) as [|z b3]; [discriminate|].
  destruct z; [|discriminate].
  destruct (cid_ok _); [|discriminate].
  destruct (strip_prefix gs_mid _) as [[|x b4]|]; try discriminate.
  destruct (rd_bool x); [|discriminate].
  destruct (strip_prefix gs_end b4) as [[|y b5]|]; try discriminate.
  destruct (rd_bool y); [|discriminate].
  intro H; inversion H. lia.
Qed.

Lemma gs_dec_no_panic b c : gs_dec b <> Panic c.
Proof.
  unfold gs_dec.
  destruct (strip_prefix gs_pre b) as [b1|]; [|discriminate].
  destruct (rd_bytes_head b1) as [[n kh]|]; [|discriminate].
  destruct ((n =? 0) || (gs_link_max <? n))%bool; [discriminate|].
  destruct (N.of_nat (length (skipn kh b1)) <? n); [discriminate|].
  destruct (skipn kh b1) as [|z b3]; [discriminate|].
  destruct z; [|discriminate].
  destruct (cid_ok _); [|discriminate].
  destruct (strip_prefix gs_mid _) as [[|x b4]|]; try discriminate.
  destruct (rd_bool x); [|discriminate].
  destruct (strip_prefix gs_end b4) as [[|y b5]|]; try discriminate.
  destruct (rd_bool y); discriminate.
Qed.

Lemma gs_dec_err b c : gs_dec b = Err c -> c < 100.
Proof.
  unfold gs_dec, ECbor, EEOF, ECid.
  destruct (strip_prefix gs_pre b) as [b1|]; [|intro H; inversion H; lia].
  destruct (rd_bytes_head b1) as [[n kh]|]; [|intro H; inversion H; lia].
  destruct ((n =? 0) || (gs_link_max <? n))%bool; [intro H; inversion H; lia|].
  destruct (N.of_nat (length (skipn kh b1)) <? n); [intro H; inversion H; lia|].
  destruct (skipn kh b1) as [|z b3]; [intro H; inversion H; lia|].
  destruct z; [|intro H; inversion H; lia].
  destruct (cid_ok _); [|intro H; inversion H; lia].
  destruct (strip_prefix gs_mid _) as [[|x b4]|]; try (intro H; inversion H; lia).
  destruct (rd_bool x); [|intro H; inversion H; lia].
  destruct (strip_prefix gs_end b4) as [[|y b5]|]; try (intro H; inversion H; lia).
  destruct (rd_bool y); intro H; inversion H; lia.
Qed.

(* ================================================================== *)
(* E. ReadFrom of each protocol on its own encoding                     *)

Lemma read_fixed_enc want p rest :
  want <> [] -> read_fixed want p (want ++ rest) = (Ok (p, length want), N.of_nat (length want)).
Proof.
  intro Hne. unfold read_fixed. rewrite firstn_app_exact by reflexivity.
  destruct want as [|x w]; [congruence|]. cbn [length Nat.eqb]. rewrite Nat.eqb_refl. cbn [negb].
  rewrite (proj2 (bytes_eqb_eq _ _) eq_refl). reflexivity.
Qed.

Lemma id_lt_63 : id_bitswap < 2 ^ 63 /\ id_graphsync < 2 ^ 63 /\ id_gateway < 2 ^ 63.
Proof. unfold id_bitswap, id_graphsync, id_gateway. repeat split; reflexivity. Qed.

Lemma wf_unknown_decomp code raw :
  wf_unknown code raw = true ->
  exists size body, raw = enc code ++ enc size ++ body /\ N.of_nat (length body) = size /\
    size <= max_metadata_size /\ code < 2 ^ 63 /\ size < 2 ^ 63 /\ known_id code = false /\
    wf_bytes raw = true.
Proof.
  unfold wf_unknown. intro H.
  apply andb_prop in H as [H H3]. apply andb_prop in H as [W K]. apply negb_true_iff in K.
  destruct (dec raw) as [[v k1]| |] eqn:D1; try discriminate.
  apply andb_prop in H3 as [Hv H3]. apply N.eqb_eq in Hv. subst v.
  destruct (dec (skipn k1 raw)) as [[size k2]| |] eqn:D2; try discriminate.
  apply andb_prop in H3 as [Hs Hl].
  destruct (dec_split _ _ _ D1 W) as (S1 & L1 & B1).
  destruct (dec_split _ _ _ D2 (wf_bytes_skipn _ _ W)) as (S2 & L2 & B2).
  pose proof (dec_bounds _ _ _ D1). pose proof (dec_bounds _ _ _ D2).
  exists size, (skipn k2 (skipn k1 raw)). repeat split; try assumption; try lia.
  - transitivity (enc code ++ skipn k1 raw); [exact S1|f_equal; exact S2].
  - rewrite !skipn_length in *. lia.
Qed.

Lemma known_id_false c : known_id c = false ->
  (c =? id_bitswap) = false /\ (c =? id_graphsync) = false /\ (c =? id_gateway) = false.
Proof.
  unfold known_id. intro H. apply orb_false_elim in H as [H H3]. apply orb_false_elim in H as [H1 H2]. tauto.
Qed.

Lemma enc_proto_len p : wf_proto p = true -> (1 <= length (enc_proto p))%nat.
Proof.
  destruct p as [| |c vd fr|code raw]; intro W.
  - cbn. lia.
  - cbn. lia.
  - cbn [enc_proto]. rewrite app_length. pose proof (enc_len_pos id_graphsync). lia.
  - cbn [enc_proto]. cbn in W. destruct (wf_unknown_decomp _ _ W) as (size & body & -> & _).
    rewrite app_length. pose proof (enc_len_pos code). lia.
Qed.

Lemma read_enc p rest :
  wf_proto p = true ->
  exists k a, dec (enc_proto p ++ rest) = Ok (id_of p, k) /\
              read_by_id (id_of p) (enc_proto p ++ rest) = (Ok (p, length (enc_proto p)), a).
Proof.
  destruct id_lt_63 as (Lb & Lg & Lw).
  destruct p as [| |c vd fr|code raw]; intro W; cbn [enc_proto id_of].
  - eexists _, _. split; [apply dec_enc; exact Lb|].
    unfold read_by_id. rewrite N.eqb_refl. unfold read_bitswap. apply read_fixed_enc. discriminate.
  - eexists _, _. split; [rewrite <- app_assoc; apply dec_enc; exact Lw|].
    unfold read_by_id. change (id_gateway =? id_bitswap) with false. change (id_gateway =? id_graphsync) with false.
    rewrite N.eqb_refl. unfold read_gateway. apply read_fixed_enc. discriminate.
  - cbn in W. apply andb_prop in W as [W Wl]. apply andb_prop in W as [Wc Wk].
    eexists _, _. split; [rewrite <- app_assoc; apply dec_enc; exact Lg|].
    unfold read_by_id. change (id_graphsync =? id_bitswap) with false. rewrite N.eqb_refl.
    unfold read_graphsync. rewrite <- app_assoc. rewrite dec_enc by exact Lg. rewrite N.eqb_refl. cbn [negb].
    rewrite skipn_app_exact by reflexivity. rewrite gs_dec_enc by (try assumption; lia).
    rewrite app_length. reflexivity.
  - cbn in W. destruct (wf_unknown_decomp _ _ W) as (size & body & Hraw & Hlen & Hmax & Hc & Hs & Hk & Wr).
    destruct (known_id_false _ Hk) as (K1 & K2 & K3).
    subst raw. rewrite <- !app_assoc.
    eexists _, _. split; [apply dec_enc; exact Hc|].
    unfold read_by_id. rewrite K1, K2, K3. unfold read_unknown.
    rewrite dec_enc by exact Hc. rewrite skipn_app_exact by reflexivity.
    rewrite dec_enc by exact Hs.
    replace (max_metadata_size <? size) with false by lia.
    rewrite <- skipn_skipn. rewrite skipn_app_exact by reflexivity. rewrite skipn_app_exact by reflexivity.
    replace (N.to_nat size) with (length body) by lia.
    rewrite firstn_app_exact by reflexivity.
    replace (N.of_nat (length body) =? size) with true by lia. cbn [negb].
    destruct (Nat.eqb (length body) 0 && (0 <? size))%bool eqn:E; [lia|].
    rewrite !app_length. rewrite Nat.add_assoc. reflexivity.
Qed.

Lemma parse_all_S f data :
  data <> [] ->
  parse_all (S f) data =
  match dec data with
  | Ok (id, _) =>
    match read_by_id id data with
    | (Ok (p, n), a) =>
      match parse_all f (skipn n data) with
      | (Ok l, a', g) => (Ok (p :: l), a + 32 + a', g)
      | (e, a', g) => (e, a + 32 + a', g)
      end
    | (Err c, a) => (Err c, a, id =? id_graphsync)
    | (Panic c, a) => (Panic c, a, false)
    end
  | Err c => (Err c, 0, false)
  | Panic c => (Panic c, 0, false)
  end.
Proof. destruct data; [congruence|reflexivity]. Qed.

Lemma parse_all_nil f : parse_all f [] = (Ok [], 0, false).
Proof. destruct f; reflexivity. Qed.

Lemma marshal_raw_cons p l : marshal_raw (p :: l) = enc_proto p ++ marshal_raw l.
Proof. reflexivity. Qed.

Lemma parse_all_enc : forall l fuel,
  forallb wf_proto l = true -> (length (marshal_raw l) <= fuel)%nat ->
  fst (fst (parse_all fuel (marshal_raw l))) = Ok l.
Proof.
  induction l as [|p l IH]; intros fuel W F.
  - cbn. rewrite parse_all_nil. reflexivity.
  - cbn in W. apply andb_prop in W as [Wp Wl].
    rewrite marshal_raw_cons in *.
    destruct (read_enc p (marshal_raw l) Wp) as (k & a & Hd & Hr).
    pose proof (enc_proto_len p Wp) as Hlen.
    rewrite app_length in F.
    destruct fuel as [|f]; [lia|].
    rewrite parse_all_S by (intro E; apply (f_equal (@length _)) in E; rewrite app_length in E; cbn in E; lia).
    rewrite Hd, Hr. rewrite skipn_app_exact by reflexivity.
    specialize (IH f Wl ltac:(lia)).
    destruct (parse_all f (marshal_raw l)) as [[r a'] g]. cbn in IH. subst r. reflexivity.
Qed.

Lemma unmarshal_marshal_raw l :
  l <> [] -> forallb wf_proto l = true -> sorted_from 0 l = true -> unmarshal (marshal_raw l) = Ok l.
Proof.
  intros Hne W S. unfold unmarshal, unmarshal_full.
  pose proof (parse_all_enc l (length (marshal_raw l)) W (le_n _)) as H.
  destruct (parse_all _ _) as [[r a] g]. cbn in H. subst r. cbn [fst].
  unfold validate. destruct l; [congruence|]. rewrite S. reflexivity.
Qed.

(* ================================================================== *)
(* F. whatever a ReadFrom accepts is the encoding of what it returns   *)

Lemma read_fixed_sound want p data q n a :
  read_fixed want p data = (Ok (q, n), a) ->
  q = p /\ n = length want /\ firstn n data = want /\ (n <= length data)%nat /\ a = N.of_nat (length want).
Proof.
  unfold read_fixed. intro H. injection H as H1 H2.
  destruct (Nat.eqb (length (firstn (length want) data)) 0); [discriminate|].
  destruct (negb (Nat.eqb (length (firstn (length want) data)) (length want))) eqn:E; [discriminate|].
  destruct (bytes_eqb (firstn (length want) data) want) eqn:B; [|discriminate].
  inversion H1; subst q n. apply negb_false_iff, Nat.eqb_eq in E. apply bytes_eqb_eq in B.
  rewrite firstn_length in E. repeat split; try assumption; try lia.
Qed.

Lemma firstn_length_firstn {A} a (l : list A) : firstn (length (firstn a l)) l = firstn a l.
Proof.
  rewrite firstn_length. destruct (Nat.le_ge_cases a (length l)).
  - rewrite Nat.min_l by assumption. reflexivity.
  - rewrite Nat.min_r by assumption. rewrite firstn_all, firstn_all2 by assumption. reflexivity.
Qed.

Lemma read_by_id_sound id k0 data p n a :
  dec data = Ok (id, k0) -> read_by_id id data = (Ok (p, n), a) -> wf_bytes data = true ->
  firstn n data = enc_proto p /\ (1 <= n <= length data)%nat /\ wf_proto p = true /\ id_of p = id
  /\ a + 32 <= 20 * N.of_nat n.
Proof.
  intros Hd Hr W. unfold read_by_id in Hr.
  destruct (dec_split _ _ _ Hd W) as (S1 & L1 & B1).
  pose proof (dec_bounds _ _ _ Hd) as Bk.
  destruct (id =? id_bitswap) eqn:E1; [|destruct (id =? id_graphsync) eqn:E2; [|destruct (id =? id_gateway) eqn:E3]].
  - apply N.eqb_eq in E1. apply read_fixed_sound in Hr as (-> & -> & F & L & ->).
    change (length (enc id_bitswap)) with 2%nat in *. cbn [enc_proto wf_proto id_of].
    repeat split; try assumption; try lia; try congruence.
  - apply N.eqb_eq in E2. unfold read_graphsync in Hr. rewrite Hd in Hr.
    replace (id =? id_graphsync) with true in Hr by lia. cbn [negb] in Hr.
    destruct (gs_dec (skipn k0 data)) as [[[[c vd] fr] k]|e|e] eqn:G; try discriminate.
    injection Hr as Hp Hn Ha. subst p n a.
    destruct (gs_dec_canon _ _ _ _ _ G (wf_bytes_skipn _ _ W)) as (F & Lk & Hc & Wc & Hl).
    rewrite skipn_length in Lk.
    cbn [enc_proto wf_proto id_of]. rewrite Wc, Hc. replace (1 + N.of_nat (length c) <=? gs_link_max) with true by lia.
    repeat split; try lia; try reflexivity.
    rewrite firstn_add, F. f_equal. rewrite S1 at 1. rewrite firstn_app_exact by (symmetry; exact L1). congruence.
  - apply N.eqb_eq in E3. apply read_fixed_sound in Hr as (-> & -> & F & L & ->).
    change (length (enc id_gateway ++ enc 0)) with 3%nat in *. cbn [enc_proto wf_proto id_of].
    repeat split; try assumption; try lia; try congruence.
  - unfold read_unknown in Hr. rewrite Hd in Hr.
    destruct (dec (skipn k0 data)) as [[size k2]|e|e] eqn:D2; try discriminate.
    destruct (max_metadata_size <? size) eqn:EM; [discriminate|].
    pose proof (wf_bytes_skipn k0 _ W) as W2.
    destruct (dec_split _ _ _ D2 W2) as (S2 & L2 & B2).
    pose proof (dec_bounds _ _ _ D2) as Bk2. rewrite skipn_length in Bk2.
    set (body := firstn (N.to_nat size) (skipn (k0 + k2) data)) in *.
    injection Hr as Hres Ha.
    destruct (Nat.eqb (length body) 0 && (0 <? size))%bool; [discriminate|].
    destruct (negb (N.of_nat (length body) =? size)) eqn:ES; [discriminate|].
    apply negb_false_iff, N.eqb_eq in ES.
    inversion Hres; subst p n; clear Hres.
    assert (Lb : (length body <= length data - k0 - k2)%nat).
    { unfold body. rewrite firstn_length, skipn_length. lia. }
    assert (Wb : wf_bytes body = true) by (apply wf_bytes_firstn, wf_bytes_skipn; exact W).
    assert (We1 : wf_bytes (enc id) = true).
    { rewrite S1 in W. rewrite wf_bytes_app in W. apply andb_prop in W. tauto. }
    assert (We2 : wf_bytes (enc size) = true).
    { rewrite S2 in W2. rewrite wf_bytes_app in W2. apply andb_prop in W2. tauto. }
    pose proof (enc_len_pos id). pose proof (enc_len_pos size).
    cbn [enc_proto wf_proto id_of].
    repeat split; try lia.
    + rewrite L1, L2. rewrite <- Nat.add_assoc. rewrite firstn_add.
      rewrite S1 at 1. rewrite firstn_app_exact by (symmetry; exact L1). f_equal.
      rewrite firstn_add. rewrite S2 at 1. rewrite firstn_app_exact by (symmetry; exact L2). f_equal.
      rewrite skipn_skipn. apply firstn_length_firstn.
    + unfold wf_unknown. rewrite !wf_bytes_app, We1, We2, Wb.
      unfold known_id. rewrite E1, E2, E3. cbn [andb orb negb].
      rewrite dec_enc by exact B1. rewrite N.eqb_refl. cbn [andb].
      rewrite skipn_app_exact by reflexivity. rewrite dec_enc by exact B2.
      rewrite !app_length.
      replace (size <=? max_metadata_size) with true by lia. cbn [andb]. lia.
Qed.

Lemma parse_all_sound : forall fuel data l,
  fst (fst (parse_all fuel data)) = Ok l -> wf_bytes data = true ->
  marshal_raw l = data /\ forallb wf_proto l = true.
Proof.
  induction fuel as [|f IH]; intros data l H W.
  - destruct data; cbn in H; [inversion H; split; reflexivity|discriminate].
  - destruct data as [|x d] eqn:Ed; [cbn in H; inversion H; split; reflexivity|].
    rewrite <- Ed in *. assert (Hne : data <> []) by (rewrite Ed; discriminate). clear Ed.
    rewrite parse_all_S in H by exact Hne.
    destruct (dec data) as [[id k0]|c|c] eqn:Hd; try discriminate.
    destruct (read_by_id id data) as [[[p n]|c|c] a] eqn:Hr; try discriminate.
    destruct (parse_all f (skipn n data)) as [[[l'|c|c] a'] g] eqn:Hp; try discriminate.
    cbn in H. inversion H; subst l; clear H.
    destruct (read_by_id_sound _ _ _ _ _ _ Hd Hr W) as (F & Ln & Wp & _).
    destruct (IH (skipn n data) l') as (M & Wl).
    { rewrite Hp. reflexivity. }
    { apply wf_bytes_skipn. exact W. }
    split.
    + rewrite marshal_raw_cons, M, <- F. apply firstn_skipn.
    + cbn. rewrite Wp, Wl. reflexivity.
Qed.

(* ================================================================== *)
(* G. totality: never Panic, never out of fuel (no hypothesis on the bytes) *)

Definition benign {A} (r : res A) : Prop :=
  match r with Ok _ => True | Err c => c < 100 | Panic _ => False end.

Lemma read_fixed_benign want p data : benign (fst (read_fixed want p data)).
Proof.
  unfold read_fixed. cbn [fst].
  destruct (Nat.eqb _ 0); [cbn; unfold EEOF; lia|].
  destruct (negb _); [cbn; unfold EShort; lia|].
  destruct (bytes_eqb _ _); cbn; [exact I|unfold EMismatch; lia].
Qed.

Lemma read_by_id_benign id data : benign (fst (read_by_id id data)).
Proof.
  unfold read_by_id.
  destruct (id =? id_bitswap); [apply read_fixed_benign|].
  destruct (id =? id_graphsync).
  { unfold read_graphsync. destruct (dec data) as [[v k1]|c|c] eqn:D.
    - destruct (negb (v =? id_graphsync)); [cbn; unfold EMismatch; lia|].
      destruct (gs_dec (skipn k1 data)) as [[[[c vd] fr] k]|e|e] eqn:G; cbn.
      + exact I.
      + apply (gs_dec_err _ _ G).
      + apply (gs_dec_no_panic _ _ G).
    - cbn. pose proof (dec_err _ _ D). lia.
    - cbn. apply (dec_no_panic _ _ D). }
  destruct (id =? id_gateway); [apply read_fixed_benign|].
  unfold read_unknown. destruct (dec data) as [[v k1]|c|c] eqn:D.
  - destruct (dec (skipn k1 data)) as [[size k2]|c|c] eqn:D2.
    + destruct (max_metadata_size <? size); [cbn; unfold ETooLong; lia|]. cbn [fst].
      destruct (Nat.eqb _ 0 && _)%bool; [cbn; unfold EEOF; lia|].
      destruct (negb _); [cbn; unfold EShort; lia|]. exact I.
    + cbn. pose proof (dec_err _ _ D2). lia.
    + cbn. apply (dec_no_panic _ _ D2).
  - cbn. pose proof (dec_err _ _ D). lia.
  - cbn. apply (dec_no_panic _ _ D).
Qed.

(* every successful read consumes at least one byte *)
Lemma read_by_id_pos id data p n a : read_by_id id data = (Ok (p, n), a) -> (1 <= n)%nat.
Proof.
  unfold read_by_id.
  destruct (id =? id_bitswap).
  { intro H. apply read_fixed_sound in H as (_ & -> & _). cbn. lia. }
  destruct (id =? id_graphsync).
  { unfold read_graphsync. destruct (dec data) as [[v k1]|c|c] eqn:D; try discriminate.
    destruct (negb (v =? id_graphsync)); [discriminate|].
    destruct (gs_dec (skipn k1 data)) as [[[[c vd] fr] k]|e|e] eqn:G; try discriminate.
    intro H. injection H as _ Hn _. pose proof (dec_bounds _ _ _ D). lia. }
  destruct (id =? id_gateway).
  { intro H. apply read_fixed_sound in H as (_ & -> & _). cbn. lia. }
  unfold read_unknown. destruct (dec data) as [[v k1]|c|c]; try discriminate.
  destruct (dec (skipn k1 data)) as [[size k2]|c|c]; try discriminate.
  destruct (max_metadata_size <? size); [discriminate|].
  intro H. injection H as H _.
  destruct (Nat.eqb _ 0 && _)%bool; [discriminate|]. destruct (negb _); [discriminate|].
  inversion H. pose proof (enc_len_pos v). lia.
Qed.

Lemma parse_all_benign : forall fuel data,
  (length data <= fuel)%nat -> benign (fst (fst (parse_all fuel data))).
Proof.
  induction fuel as [|f IH]; intros data L.
  - destruct data; [exact I|cbn in L; lia].
  - destruct data as [|x d] eqn:Ed; [exact I|].
    rewrite <- Ed in *. assert (Hne : data <> []) by (rewrite Ed; discriminate).
    assert (Hl : (1 <= length data)%nat) by (rewrite Ed; cbn; lia). clear Ed.
    rewrite parse_all_S by exact Hne.
    destruct (dec data) as [[id k0]|c|c] eqn:Hd.
    + pose proof (read_by_id_benign id data) as Hb.
      destruct (read_by_id id data) as [[[p n]|c|c] a] eqn:Hr; cbn [fst] in Hb.
      * pose proof (read_by_id_pos _ _ _ _ _ Hr) as Hn.
        specialize (IH (skipn n data)). rewrite skipn_length in IH. specialize (IH ltac:(lia)).
        destruct (parse_all f (skipn n data)) as [[[l'|c|c] a'] g]; cbn in *; assumption.
      * exact Hb.
      * exact Hb.
    + cbn. pose proof (dec_err _ _ Hd). lia.
    + cbn. apply (dec_no_panic _ _ Hd).
Qed.

Lemma validate_benign l : benign (validate l).
Proof.
  unfold validate. destruct l; [cbn; unfold EEmpty; lia|].
  destruct (sorted_from 0 _); cbn; [exact I|unfold EUnsorted; lia].
Qed.

Lemma unmarshal_benign b : benign (unmarshal b).
Proof.
  unfold unmarshal, unmarshal_full.
  pose proof (parse_all_benign (length b) b (le_n _)) as H.
  destruct (parse_all (length b) b) as [[[l|c|c] a] g]; cbn [fst] in *; try exact H.
  apply validate_benign.
Qed.

(* ================================================================== *)
(* H. ghost allocation is linear in the input                           *)

Lemma read_by_id_alloc_any id data r a :
  read_by_id id data = (r, a) -> data <> [] -> (forall x, r <> Ok x) ->
  a <= 20 * N.of_nat (length data) + max_metadata_size + 20.
Proof.
  intros H Hne Hno.
  assert (Hl : 1 <= N.of_nat (length data)) by (destruct data; [congruence|cbn [length]; lia]).
  unfold read_by_id in H.
  assert (Hfix : forall want p, (length want <= 3)%nat -> read_fixed want p data = (r, a) ->
                 a <= 20 * N.of_nat (length data) + max_metadata_size + 20).
  { intros want p Lw Hf. unfold read_fixed in Hf. injection Hf as _ <-. lia. }
  destruct (id =? id_bitswap); [unfold read_bitswap in H; eapply Hfix; [|exact H]; vm_compute; lia|].
  destruct (id =? id_graphsync).
  { unfold read_graphsync in H. destruct (dec data) as [[v k1]|c|c].
    - destruct (negb (v =? id_graphsync)); [injection H as _ <-; lia|].
      destruct (gs_dec (skipn k1 data)) as [[[[c vd] fr] k]|e|e].
      + injection H as <- _. exfalso. eapply Hno. reflexivity.
      + injection H as _ <-. lia.
      + injection H as _ <-. lia.
    - injection H as _ <-. lia.
    - injection H as _ <-. lia. }
  destruct (id =? id_gateway); [unfold read_gateway in H; eapply Hfix; [|exact H]; vm_compute; lia|].
  unfold read_unknown in H. destruct (dec data) as [[v k1]|c|c].
  - destruct (dec (skipn k1 data)) as [[size k2]|c|c].
    + destruct (max_metadata_size <? size) eqn:EM; [injection H as _ <-; lia|].
      injection H as _ <-. pose proof (enc_len_pos v). pose proof (enc_len_pos size). lia.
    + injection H as _ <-. lia.
    + injection H as _ <-. lia.
  - injection H as _ <-. lia.
  - injection H as _ <-. lia.
Qed.

Lemma parse_all_alloc : forall fuel data,
  wf_bytes data = true ->
  snd (fst (parse_all fuel data)) <= 20 * N.of_nat (length data) + max_metadata_size + 20.
Proof.
  induction fuel as [|f IH]; intros data W.
  - destruct data; cbn [parse_all fst snd]; lia.
  - destruct data as [|x d] eqn:Ed; [cbn [parse_all fst snd]; lia|].
    rewrite <- Ed in *. assert (Hne : data <> []) by (rewrite Ed; discriminate). clear Ed.
    rewrite parse_all_S by exact Hne.
    destruct (dec data) as [[id k0]|c|c] eqn:Hd; [|cbn; lia|cbn; lia].
    destruct (read_by_id id data) as [[[p n]|c|c] a] eqn:Hr.
    + destruct (read_by_id_sound _ _ _ _ _ _ Hd Hr W) as (_ & Ln & _ & _ & Ha).
      specialize (IH (skipn n data) (wf_bytes_skipn _ _ W)). rewrite skipn_length in IH.
      destruct (parse_all f (skipn n data)) as [[[l'|c|c] a'] g]; cbn [fst snd] in *; lia.
    + cbn [fst snd]. apply (read_by_id_alloc_any _ _ _ _ Hr Hne). discriminate.
    + cbn [fst snd]. apply (read_by_id_alloc_any _ _ _ _ Hr Hne). discriminate.
Qed.

Lemma unmarshal_alloc_linear b :
  wf_bytes b = true -> unmarshal_alloc b <= 20 * N.of_nat (length b) + max_metadata_size + 20.
Proof.
  intro W. unfold unmarshal_alloc, unmarshal_full.
  pose proof (parse_all_alloc (length b) b W) as H.
  destruct (parse_all (length b) b) as [[[l|c|c] a] g]; cbn [fst snd] in *; exact H.
Qed.

(* ================================================================== *)
(* I. the property theorems                                             *)

(* 1. MarshalBinary = concatenation of the protocol encodings in ascending ID order
      (construction order kept among equal IDs), for ANY list of protocol values *)
Theorem marshal_sorted_concat_thm ps :
  marshal ps = concat (map enc_proto (new ps))
  /\ Permutation ps (new ps)
  /\ StronglySorted (fun a b => id_of a <= id_of b) (new ps)
  /\ (forall i, filter (fun q => id_of q =? i) (new ps) = filter (fun q => id_of q =? i) ps).
Proof.
  split; [reflexivity|]. split; [apply new_perm|]. split; [apply new_strongly_sorted|].
  intro i. apply new_stable.
Qed.

(* the order New produces does not depend on the construction order, as long as
   protocols of equal ID are equal or given in the same relative order *)
Lemma sorted_perm_unique_ids : forall l1 l2,
  Permutation l1 l2 -> NoDup (map id_of l1) -> new l1 = new l2.
Proof.
  (* both sides are sorted permutations of one another with pairwise distinct IDs *)
  intros l1 l2 P ND.
  assert (P' : Permutation (new l1) (new l2)).
  { rewrite <- (new_perm l1), <- (new_perm l2). exact P. }
  assert (ND' : NoDup (map id_of (new l1))).
  { eapply Permutation_NoDup; [|exact ND]. apply Permutation_map. apply new_perm. }
  pose proof (new_sorted_from l1) as S1. pose proof (new_sorted_from l2) as S2.
  clear P ND. revert P' ND' S1 S2. generalize (new l1) (new l2). generalize 0.
  intros a m1. revert a. induction m1 as [|p m1 IH]; intros a m2 P ND S1 S2.
  - apply Permutation_nil in P. congruence.
  - destruct m2 as [|q m2]; [apply Permutation_sym, Permutation_nil in P; discriminate|].
    cbn in S1, S2. apply andb_prop in S1 as [A1 S1]. apply andb_prop in S2 as [A2 S2].
    destruct (sorted_from_strongly _ _ S1) as [_ F1]. destruct (sorted_from_strongly _ _ S2) as [_ F2].
    rewrite Forall_forall in F1, F2.
    cbn in ND. inversion ND as [|? ? Hnotin ND1]; subst.
    assert (Hpq : id_of p = id_of q).
    { assert (In q (p :: m1)) as [->|Hq] by (eapply Permutation_in; [apply Permutation_sym; exact P|left; reflexivity]); [reflexivity|].
      assert (In p (q :: m2)) as [->|Hp] by (eapply Permutation_in; [exact P|left; reflexivity]); [reflexivity|].
      specialize (F1 _ Hq). specialize (F2 _ Hp). cbn in F1, F2. lia. }
    assert (Heq : p = q).
    { assert (In q (p :: m1)) as [->|Hq] by (eapply Permutation_in; [apply Permutation_sym; exact P|left; reflexivity]); [reflexivity|].
      exfalso. apply Hnotin. rewrite Hpq. apply in_map. exact Hq. }
    subst q. f_equal. apply (IH (id_of p)); try assumption.
    eapply Permutation_cons_inv. exact P.
Qed.

(* 2. round trip, for any number of protocols in any construction order *)
Theorem unmarshal_marshal_thm ps :
  ps <> [] -> forallb wf_proto ps = true -> unmarshal (marshal ps) = Ok (new ps).
Proof.
  intros Hne W. unfold marshal. apply unmarshal_marshal_raw.
  - intro E. apply Hne. apply Permutation_nil. apply Permutation_sym. rewrite <- E. apply new_perm.
  - rewrite <- (forallb_perm _ _ _ (new_perm ps)). exact W.
  - apply new_sorted_from.
Qed.

(* ... and for whatever ID-sorted arrangement a sort routine produces (sort.Sort is not
   stable beyond 12 elements) *)
Theorem unmarshal_marshal_any_order_thm ps l :
  ps <> [] -> forallb wf_proto ps = true -> Permutation ps l -> sorted_from 0 l = true ->
  unmarshal (marshal_raw l) = Ok l /\ marshal l = marshal_raw l.
Proof.
  intros Hne W P S. split.
  - apply unmarshal_marshal_raw; [|rewrite <- (forallb_perm _ _ _ P); exact W|exact S].
    intro E. subst l. apply Hne. apply Permutation_nil. apply Permutation_sym. exact P.
  - unfold marshal. rewrite (new_sorted_id _ _ S). reflexivity.
Qed.

(* 3. Get *)
Theorem get_by_id_thm ps p :
  In p ps ->
  exists q, get (new ps) (id_of p) = Some q /\ id_of q = id_of p /\ In q ps
            /\ get ps (id_of p) = Some q      (* q is the first one constructed with that ID *)
            /\ (NoDup (map id_of ps) -> q = p).
Proof.
  intro Hin. rewrite get_new. unfold get.
  destruct (find (fun x => id_of x =? id_of p) ps) as [q|] eqn:F.
  - apply find_some in F as [Hq Eq]. apply N.eqb_eq in Eq.
    exists q. repeat split; try assumption.
    intro ND. clear -Hin Hq Eq ND.
    induction ps as [|x r IH]; [contradiction|].
    cbn in ND. inversion ND as [|? ? Hn ND']; subst.
    destruct Hin as [->|Hin], Hq as [->|Hq]; try reflexivity.
    + exfalso. apply Hn. rewrite <- Eq. apply in_map. exact Hq.
    + exfalso. apply Hn. rewrite Eq. apply in_map. exact Hin.
    + apply IH; assumption.
  - exfalso. eapply find_none in F; [|exact Hin]. cbn in F. rewrite N.eqb_refl in F. discriminate.
Qed.

Theorem get_absent_thm ps i : ~ In i (map id_of ps) -> get (new ps) i = None.
Proof.
  intro H. rewrite get_new. unfold get.
  destruct (find (fun x => id_of x =? i) ps) as [q|] eqn:F; [|reflexivity].
  apply find_some in F as [Hq Eq]. apply N.eqb_eq in Eq. exfalso. apply H. rewrite <- Eq. apply in_map. exact Hq.
Qed.

(* after the round trip every protocol is still retrievable by its ID *)
Theorem get_after_roundtrip_thm ps p :
  forallb wf_proto ps = true -> In p ps ->
  exists m q, unmarshal (marshal ps) = Ok m /\ get m (id_of p) = Some q /\ id_of q = id_of p /\ In q ps
              /\ (NoDup (map id_of ps) -> q = p).
Proof.
  intros W Hin. assert (Hne : ps <> []) by (intro E; subst; contradiction).
  destruct (get_by_id_thm ps p Hin) as (q & G & I1 & I2 & _ & I3).
  exists (new ps), q. rewrite unmarshal_marshal_thm by assumption. tauto.
Qed.

(* 4. decoding is total: Ok or Err, never Panic, never out of fuel *)
Theorem unmarshal_total_no_panic_thm b :
  (exists m, unmarshal b = Ok m) \/ (exists c, unmarshal b = Err c /\ c <> EOutOfFuel).
Proof.
  pose proof (unmarshal_benign b) as H. destruct (unmarshal b) as [m|c|c]; cbn in H.
  - left. eexists. reflexivity.
  - right. exists c. split; [reflexivity|]. unfold EOutOfFuel. lia.
  - contradiction.
Qed.

(* 5. what decodes is canonical: it re-encodes to exactly the input, and the decoded
      protocols are well-formed values (so 2 and 5 are inverse to each other) *)
Theorem unmarshal_canonical_thm b m :
  wf_bytes b = true -> unmarshal b = Ok m ->
  marshal m = b /\ m <> [] /\ forallb wf_proto m = true /\ new m = m.
Proof.
  intros W H. unfold unmarshal, unmarshal_full in H.
  destruct (parse_all (length b) b) as [[[l|c|c] a] g] eqn:P; cbn [fst] in H; try discriminate.
  destruct (parse_all_sound (length b) b l) as (M & Wl); [rewrite P; reflexivity|exact W|].
  unfold validate in H. destruct l as [|p l]; [discriminate|].
  destruct (sorted_from 0 (p :: l)) eqn:S; [|discriminate]. inversion H; subst m.
  pose proof (new_sorted_id _ _ S) as N.
  repeat split; try assumption; try discriminate.
  unfold marshal. rewrite N. exact M.
Qed.

(* 6. ghost allocation bounded linearly in the input *)
Theorem alloc_linear_thm b :
  wf_bytes b = true -> unmarshal_alloc b <= 20 * N.of_nat (length b) + (max_metadata_size + 20).
Proof. intro W. pose proof (unmarshal_alloc_linear b W). lia. Qed.

Lemma max_metadata_size_value : max_metadata_size = 1024.
Proof. reflexivity. Qed.

(* ================================================================== *)
(* J. the code before the repairs violated the property (witnesses replayed on the real
      code by the harness: see design-notes/C11.md)                      *)

Definition ex_cid : bytes := [1; 85; 0; 3; 170; 187; 204].   (* CIDv1 raw, identity multihash of 3 bytes *)

Lemma ex_cid_ok : wf_proto (PGraphsync ex_cid true false) = true.
Proof. vm_compute. reflexivity. Qed.

(* C11-fix-1: three protocols do not survive the cumulative offset *)
Lemma unmarshal_marshal_v0_refuted_offset :
  exists ps, forallb wf_proto ps = true /\ ps <> [] /\ unmarshal_v0 (marshal ps) <> Ok (new ps).
Proof. exists [PBitswap; PBitswap; PBitswap]. vm_compute. repeat split; discriminate. Qed.

(* C11-fix-2: nothing may follow graphsync-filecoin *)
Lemma unmarshal_marshal_v0_refuted_graphsync :
  exists ps, forallb wf_proto ps = true /\ (length ps = 2)%nat /\ exists c, unmarshal_v0 (marshal ps) = Err c.
Proof. exists [PGraphsync ex_cid true false; PGateway]. vm_compute. repeat split. eexists; reflexivity. Qed.

(* C11-fix-3: a hostile length prefix panics / allocates without bound *)
Lemma unmarshal_v0_refuted_panic :
  exists b, wf_bytes b = true /\ exists c, unmarshal_v0 b = Panic c.
Proof. exists [18; 255; 255; 255; 255; 255; 255; 255; 255; 127]. vm_compute. split; [reflexivity|eexists; reflexivity]. Qed.

Lemma alloc_v0_refuted :
  exists b, wf_bytes b = true /\ 1000000 * N.of_nat (length b) < snd (unmarshal_v0_full b).
Proof. exists [18; 128; 128; 128; 128; 8]. vm_compute. split; reflexivity. Qed.

(* C11-fix-4: unsorted input was accepted and re-encoded differently *)
Lemma unmarshal_canonical_v0_refuted :
  exists b m, wf_bytes b = true /\ unmarshal_v0 b = Ok m /\ marshal m <> b.
Proof. exists [160; 18; 0; 128; 18], [PGateway; PBitswap]. vm_compute. repeat split; discriminate. Qed.

(* C11-fix-6: the library's own HTTPV1() constructor built Unknown{Code: Http, Payload: nil}.
   The value is not well-formed (its payload is not its encoding), encodes to nothing and
   is lost on the round trip; the repaired constructor builds mk_unknown 480 []. *)
Definition id_http : N := 480.   (* multicodec.Http 0x01e0 *)
Lemma httpv1_v0_refuted :
  wf_proto (PUnknown id_http []) = false
  /\ marshal [PUnknown id_http []] = []
  /\ (exists c, unmarshal (marshal [PUnknown id_http []]) = Err c)
  /\ unmarshal (marshal [PBitswap; PUnknown id_http []]) = Ok [PBitswap].
Proof. vm_compute. repeat split. eexists; reflexivity. Qed.

Example httpv1_repaired :
  wf_proto (mk_unknown id_http []) = true
  /\ marshal [mk_unknown id_http []] = [224; 3; 0]
  /\ unmarshal (marshal [PBitswap; mk_unknown id_http []]) = Ok [mk_unknown id_http []; PBitswap].
Proof. vm_compute. repeat split; reflexivity. Qed.

(* the repaired decoder on the same witnesses *)
Example repaired_on_witnesses :
  unmarshal (marshal [PBitswap; PBitswap; PBitswap]) = Ok [PBitswap; PBitswap; PBitswap]
  /\ unmarshal (marshal [PGraphsync ex_cid true false; PGateway]) = Ok [PGraphsync ex_cid true false; PGateway]
  /\ unmarshal [18; 255; 255; 255; 255; 255; 255; 255; 255; 127] = Err ETooLong
  /\ unmarshal [160; 18; 0; 128; 18] = Err EUnsorted.
Proof. vm_compute. repeat split; reflexivity. Qed.

(* ================================================================== *)
(* K. non-vacuity of the hypotheses                                     *)

Definition ex_ps : list proto :=
  [ PGateway; mk_unknown 770 [104; 101; 108; 108; 111]; PGraphsync ex_cid true false; PBitswap;
    mk_unknown 1099511627776 []; PGraphsync ([18; 32] ++ repeat 7 32) false true; mk_unknown 2309 (repeat 9 300) ].

Example ex_ps_wf : forallb wf_proto ex_ps = true /\ ex_ps <> [].
Proof. split; [vm_compute; reflexivity|discriminate]. Qed.

Example ex_ps_roundtrip :
  unmarshal (marshal ex_ps) = Ok (new ex_ps) /\ new ex_ps <> ex_ps /\ (length (marshal ex_ps) = 456)%nat.
Proof. vm_compute. repeat split; try reflexivity. discriminate. Qed.

Example ex_canonical_hyp :
  wf_bytes (marshal ex_ps) = true /\ exists m, unmarshal (marshal ex_ps) = Ok m.
Proof. split; [vm_compute; reflexivity|]. eexists. apply ex_ps_roundtrip. Qed.

Example ex_get_dup :   (* two protocols of one ID: Get returns the first constructed *)
  get (new [PGraphsync ex_cid true false; PBitswap; PGraphsync ex_cid false false]) id_graphsync
  = Some (PGraphsync ex_cid true false).
Proof. vm_compute. reflexivity. Qed.

Example ex_alloc : unmarshal_alloc (marshal ex_ps) = 932.
Proof. vm_compute. reflexivity. Qed.

(* ================================================================== *)
(* L. the per-protocol entry points and Metadata.Equal                  *)

Lemma read_by_id_gs data : read_by_id id_graphsync data = read_graphsync data.
Proof. reflexivity. Qed.
Lemma read_by_id_0 data : read_by_id 0 data = read_unknown data.
Proof. reflexivity. Qed.

Lemma read_unknown_sound data p n a :
  read_unknown data = (Ok (p, n), a) -> wf_bytes data = true ->
  firstn n data = enc_proto p /\ (1 <= n <= length data)%nat /\ kind_of p = KUnknown.
Proof.
  intros Hr W. unfold read_unknown in Hr.
  destruct (dec data) as [[id k0]|e|e] eqn:Hd; try discriminate.
  destruct (dec_split _ _ _ Hd W) as (S1 & L1 & B1).
  pose proof (dec_bounds _ _ _ Hd) as Bk.
  destruct (dec (skipn k0 data)) as [[size k2]|e|e] eqn:D2; try discriminate.
  destruct (max_metadata_size <? size) eqn:EM; [discriminate|].
  pose proof (wf_bytes_skipn k0 _ W) as W2.
  destruct (dec_split _ _ _ D2 W2) as (S2 & L2 & B2).
  pose proof (dec_bounds _ _ _ D2) as Bk2. rewrite skipn_length in Bk2.
  set (body := firstn (N.to_nat size) (skipn (k0 + k2) data)) in *.
  injection Hr as Hres Ha.
  destruct (Nat.eqb (length body) 0 && (0 <? size))%bool; [discriminate|].
  destruct (negb (N.of_nat (length body) =? size)) eqn:ES; [discriminate|].
  inversion Hres; subst p n; clear Hres.
  assert (Lb : (length body <= length data - k0 - k2)%nat).
  { unfold body. rewrite firstn_length, skipn_length. lia. }
  pose proof (enc_len_pos id). pose proof (enc_len_pos size).
  cbn [enc_proto kind_of]. repeat split; try lia.
  rewrite L1, L2. rewrite <- Nat.add_assoc. rewrite firstn_add.
  rewrite S1 at 1. rewrite firstn_app_exact by (symmetry; exact L1). f_equal.
  rewrite firstn_add. rewrite S2 at 1. rewrite firstn_app_exact by (symmetry; exact L2). f_equal.
  rewrite skipn_skipn. apply firstn_length_firstn.
Qed.

Lemma read_graphsync_sound data p n a :
  read_graphsync data = (Ok (p, n), a) -> wf_bytes data = true ->
  firstn n data = enc_proto p /\ (1 <= n <= length data)%nat /\ kind_of p = KGraphsync /\ wf_proto p = true.
Proof.
  intros Hr W.
  assert (Hd : exists k0, dec data = Ok (id_graphsync, k0)).
  { unfold read_graphsync in Hr. destruct (dec data) as [[v k1]|e|e]; try discriminate.
    destruct (v =? id_graphsync) eqn:E; [|discriminate]. apply N.eqb_eq in E. subst v. eexists; reflexivity. }
  destruct Hd as [k0 Hd]. rewrite <- read_by_id_gs in Hr.
  destruct (read_by_id_sound _ _ _ _ _ _ Hd Hr W) as (F & L & Wp & Hid & _).
  repeat split; try assumption; try lia.
  unfold read_by_id in Hr. change (id_graphsync =? id_bitswap) with false in Hr. rewrite N.eqb_refl in Hr.
  unfold read_graphsync in Hr. rewrite Hd in Hr. rewrite N.eqb_refl in Hr. cbn [negb] in Hr.
  destruct (gs_dec (skipn k0 data)) as [[[[c vd] fr] k]|e|e]; try discriminate.
  injection Hr as <- _ _. reflexivity.
Qed.

Lemma proto_read_sound k data p n a :
  proto_read k data = (Ok (p, n), a) -> wf_bytes data = true ->
  firstn n data = enc_proto p /\ (1 <= n <= length data)%nat /\ kind_of p = k.
Proof.
  destruct k; cbn [proto_read]; intros Hr W.
  - apply read_fixed_sound in Hr as (-> & -> & F & L & _).
    change (length (enc id_bitswap)) with 2%nat in *. repeat split; try assumption; lia.
  - apply read_fixed_sound in Hr as (-> & -> & F & L & _).
    change (length (enc id_gateway ++ enc 0)) with 3%nat in *. repeat split; try assumption; lia.
  - destruct (read_graphsync_sound _ _ _ _ Hr W) as (F & L & K & _). tauto.
  - apply (read_unknown_sound _ _ _ _ Hr W).
Qed.

(* whatever a single protocol's UnmarshalBinary accepts is that protocol's encoding --
   followed, for Unknown only, by bytes it ignores *)
Theorem proto_unmarshal_canonical_thm k b p :
  wf_bytes b = true -> proto_unmarshal k b = Ok p ->
  kind_of p = k /\ exists rest, b = enc_proto p ++ rest /\ (k <> KUnknown -> rest = []).
Proof.
  intros W H. destruct k; cbn [proto_unmarshal] in H.
  - destruct (bytes_eqb b (enc id_bitswap)) eqn:E; [|discriminate]. inversion H; subst p.
    apply bytes_eqb_eq in E. split; [reflexivity|]. exists []. rewrite app_nil_r. split; [exact E|reflexivity].
  - destruct (bytes_eqb b (enc id_gateway ++ enc 0)) eqn:E; [|discriminate]. inversion H; subst p.
    apply bytes_eqb_eq in E. split; [reflexivity|]. exists []. rewrite app_nil_r. split; [exact E|reflexivity].
  - destruct (read_graphsync b) as [[[q n]|e|e] a] eqn:R; cbn [fst] in H; try discriminate.
    destruct (Nat.eqb n (length b)) eqn:E; [|discriminate]. inversion H; subst q. apply Nat.eqb_eq in E.
    destruct (read_graphsync_sound _ _ _ _ R W) as (F & L & K & _).
    split; [exact K|]. exists []. rewrite app_nil_r. split; [|reflexivity].
    rewrite <- F, E. symmetry. apply firstn_all.
  - destruct (read_unknown b) as [[[q n]|e|e] a] eqn:R; cbn [fst] in H; try discriminate.
    inversion H; subst q. destruct (read_unknown_sound _ _ _ _ R W) as (F & L & K).
    split; [exact K|]. exists (skipn n b). split; [|congruence].
    rewrite <- F. symmetry. apply firstn_skipn.
Qed.

Theorem proto_unmarshal_marshal_thm p :
  wf_proto p = true -> proto_unmarshal (kind_of p) (enc_proto p) = Ok p.
Proof.
  intro W. destruct (read_enc p [] W) as (k & a & _ & Hr). rewrite app_nil_r in Hr.
  destruct p as [| |c vd fr|code raw]; cbn [kind_of proto_unmarshal enc_proto id_of] in *.
  - rewrite (proj2 (bytes_eqb_eq _ _) eq_refl). reflexivity.
  - rewrite (proj2 (bytes_eqb_eq _ _) eq_refl). reflexivity.
  - rewrite read_by_id_gs in Hr. rewrite Hr. cbn [fst]. rewrite Nat.eqb_refl. reflexivity.
  - cbn in W. destruct (wf_unknown_decomp _ _ W) as (_ & _ & _ & _ & _ & _ & _ & Hk & _).
    destruct (known_id_false _ Hk) as (K1 & K2 & K3).
    unfold read_by_id in Hr. rewrite K1, K2, K3 in Hr. rewrite Hr. reflexivity.
Qed.

Theorem proto_entry_points_total_thm k b :
  benign (proto_unmarshal k b) /\ benign (fst (proto_read k b)).
Proof.
  assert (G : benign (fst (read_graphsync b))) by (rewrite <- read_by_id_gs; apply read_by_id_benign).
  assert (U : benign (fst (read_unknown b))) by (rewrite <- read_by_id_0; apply read_by_id_benign).
  destruct k; cbn [proto_unmarshal proto_read]; split;
    try apply read_fixed_benign; try assumption.
  - destruct (bytes_eqb _ _); cbn; [exact I|unfold EMismatch; lia].
  - destruct (bytes_eqb _ _); cbn; [exact I|unfold EMismatch; lia].
  - destruct (fst (read_graphsync b)) as [[q n]|e|e]; cbn in *; try assumption.
    destruct (Nat.eqb n (length b)); cbn; [exact I|unfold ETrailing; lia].
  - destruct (fst (read_unknown b)) as [[q n]|e|e]; cbn in *; assumption.
Qed.

(* Metadata.Equal *)
Lemma proto_equal_refl a : proto_equal a a = true.
Proof. unfold proto_equal. rewrite N.eqb_refl, (proj2 (bytes_eqb_eq _ _) eq_refl). reflexivity. Qed.

Lemma equal_refl m : equal m m = true.
Proof. induction m as [|a m IH]; cbn; [reflexivity|]. rewrite proto_equal_refl. exact IH. Qed.

Lemma wf_unknown_not_known c raw : wf_unknown c raw = true -> known_id c = false.
Proof. intro W. destruct (wf_unknown_decomp _ _ W) as (_ & _ & _ & _ & _ & _ & _ & Hk & _). exact Hk. Qed.

Lemma wf_kind_by_id a b :
  wf_proto a = true -> wf_proto b = true -> id_of a = id_of b -> kind_of a = kind_of b.
Proof.
  destruct a as [| |c vd fr|code raw], b as [| |c' vd' fr'|code' raw']; cbn [wf_proto id_of kind_of];
    intros Wa Wb E; try reflexivity; try discriminate;
    try (apply wf_unknown_not_known in Wa; subst code; discriminate);
    try (apply wf_unknown_not_known in Wb; subst code'; discriminate).
Qed.

Lemma proto_equal_iff a b :
  wf_proto a = true -> wf_proto b = true -> (proto_equal a b = true <-> a = b).
Proof.
  intros Wa Wb. split; [|intros ->; apply proto_equal_refl].
  unfold proto_equal. intro H. apply andb_prop in H as [Hi He].
  apply N.eqb_eq in Hi. apply bytes_eqb_eq in He.
  pose proof (proto_unmarshal_marshal_thm a Wa) as Ra.
  pose proof (proto_unmarshal_marshal_thm b Wb) as Rb.
  rewrite (wf_kind_by_id a b Wa Wb Hi), He in Ra. congruence.
Qed.

Theorem equal_iff_thm : forall m1 m2,
  forallb wf_proto m1 = true -> forallb wf_proto m2 = true -> (equal m1 m2 = true <-> m1 = m2).
Proof.
  induction m1 as [|a m1 IH]; intros [|b m2] W1 W2; cbn; split; intro H; try reflexivity; try discriminate.
  - cbn in W1, W2. apply andb_prop in W1 as [Wa W1]. apply andb_prop in W2 as [Wb W2].
    apply andb_prop in H as [Hab H]. apply (proto_equal_iff a b Wa Wb) in Hab. subst b.
    f_equal. apply (IH m2 W1 W2). exact H.
  - inversion H; subst. rewrite proto_equal_refl. apply equal_refl.
Qed.

Theorem unmarshal_marshal_equal_thm ps :
  ps <> [] -> forallb wf_proto ps = true ->
  exists m, unmarshal (marshal ps) = Ok m /\ equal (new ps) m = true /\ equal m (new ps) = true.
Proof.
  intros Hne W. exists (new ps). rewrite unmarshal_marshal_thm by assumption.
  repeat split; apply equal_refl.
Qed.

(* Equal compares IDs and encodings only: an Unknown that carries a registered ID and that
   protocol's bytes is Equal to it (not a wf_proto value) *)
Example equal_unknown_vs_known :
  equal [PUnknown id_bitswap [128; 18]] [PBitswap] = true
  /\ wf_proto (PUnknown id_bitswap [128; 18]) = false
  /\ equal [PUnknown (id_bitswap + 1) [128; 18]] [PBitswap] = false.
Proof. vm_compute. repeat split. Qed.

(* Unknown.UnmarshalBinary ignores what follows the payload; the others do not *)
Example proto_unmarshal_trailing :
  proto_unmarshal KUnknown [18; 1; 7; 128; 18] = Ok (PUnknown 18 [18; 1; 7])
  /\ proto_unmarshal KBitswap [128; 18; 0] = Err EMismatch
  /\ proto_unmarshal KGraphsync (enc_proto (PGraphsync ex_cid true false) ++ [0]) = Err ETrailing
  /\ proto_unmarshal KUnknown [224; 3; 0] = Ok (mk_unknown id_http []).
Proof. vm_compute. repeat split. Qed.
