(* C04 — proofs.  Part 1: lists, the exchange, Syncer.fetch. *)
From Coq Require Import List Bool Arith NArith Lia.
From Model Require Import C04_SyncFailure.
Import ListNotations.

Local Open Scope nat_scope.

(* ---------------------------------------------------------------------------------- *)
(* lists                                                                               *)

Lemma mem_In : forall p l, mem p l = true <-> In p l.
Proof.
  intros p l. unfold mem. rewrite existsb_exists. split.
  - intros [x [Hx He]]. apply Nat.eqb_eq in He. subst. exact Hx.
  - intros H. exists p. split; [exact H | apply Nat.eqb_refl].
Qed.

Lemma mem_false_In : forall p l, mem p l = false -> ~ In p l.
Proof. intros p l H Hi. apply mem_In in Hi. congruence. Qed.

Lemma In_insert : forall a x l, In x (insert a l) <-> x = a \/ In x l.
Proof.
  intros a x l. induction l as [|b l IH]; simpl.
  - intuition.
  - destruct (a <=? b); simpl; [intuition|]. rewrite IH. intuition.
Qed.

Lemma In_sort : forall x l, In x (sort l) <-> In x l.
Proof.
  intros x l. induction l as [|a l IH]; simpl; [tauto|].
  rewrite In_insert, IH. intuition.
Qed.

Lemma list_nat_eqb_eq : forall a b, list_nat_eqb a b = true -> a = b.
Proof.
  unfold list_nat_eqb. induction a as [|x a IH]; intros [|y b] H; simpl in *;
    try reflexivity; try discriminate.
  apply andb_true_iff in H. destruct H as [Hl H].
  apply andb_true_iff in H. destruct H as [Hxy H].
  apply Nat.eqb_eq in Hxy. subst. f_equal. apply IH.
  apply andb_true_iff. split; assumption.
Qed.

Lemma In_remove : forall h l, ~ In h (remove h l).
Proof.
  intros h l H. unfold remove in H. apply filter_In in H. destruct H as [_ H].
  rewrite Nat.eqb_refl in H. discriminate.
Qed.

Lemma In_remove_sub : forall x h l, In x (remove h l) -> In x l.
Proof. intros x h l H. unfold remove in H. apply filter_In in H. tauto. Qed.

Lemma concat_chunk_aux : forall d l k cur, concat (chunk_aux d k cur l) = rev cur ++ l.
Proof.
  intros d l. induction l as [|x l IH]; intros k cur; simpl.
  - destruct cur; simpl; [reflexivity|]. rewrite app_nil_r. reflexivity.
  - destruct k as [|[|k]]; simpl; rewrite IH; simpl; rewrite <- ?app_assoc; reflexivity.
Qed.

Lemma concat_segments : forall seg l, concat (segments seg l) = l.
Proof.
  intros [|seg] l; unfold segments.
  - simpl. apply app_nil_r.
  - rewrite concat_chunk_aux. reflexivity.
Qed.

(* ---------------------------------------------------------------------------------- *)
(* the exchange                                                                        *)

Definition log_ext (n n' : net) : Prop := exists l, n_log n' = l ++ n_log n.

Lemma log_ext_refl : forall n, log_ext n n.
Proof. intros n. exists []. reflexivity. Qed.

Lemma log_ext_trans : forall a b c, log_ext a b -> log_ext b c -> log_ext a c.
Proof.
  intros a b c [l1 H1] [l2 H2]. exists (l2 ++ l1). rewrite H2, H1. apply app_assoc.
Qed.

Lemma log_ext_In : forall n n' q, log_ext n n' -> In q (n_log n) -> In q (n_log n').
Proof. intros n n' q [l H] Hi. rewrite H. apply in_or_app. right. exact Hi. Qed.

Lemma log_ext_cancel_if : forall (b : bool) n, log_ext n (if b then cancel_net n else n).
Proof. intros [|] n; exists []; reflexivity. Qed.

Lemma exchange_log : forall w pin a np r n x n',
  exchange w pin a np r n = (x, n') -> log_ext n n'.
Proof.
  intros w pin a np r n x n' H. unfold exchange in H.
  destruct (n_cancelled n); [inversion H; apply log_ext_refl|].
  destruct (negb (pin_ok pin a)); [inversion H; apply log_ext_refl|].
  destruct (negb (alive w a)); inversion H; subst; simpl.
  - exists [(a, np, r, None)]. reflexivity.
  - exists [(a, np, r, Some (resp_fault (hd FOk (n_script n))))]. reflexivity.
Qed.

(* the callback succeeds only on the publisher's genuine answer, un-faulted *)
Lemma apply_fault_good : forall f g, apply_fault f g = XOkGood -> resp_fault f = FOk /\ g = XOkGood.
Proof. intros f g H. destruct f; simpl in H; try discriminate; try tauto; destruct g; discriminate. Qed.

Lemma genuine_cases : forall w np, genuine w np = XOkGood \/ exists c, genuine w np = XStatus c.
Proof.
  intros w np. unfold genuine. destruct (w_legacy w), np; eauto.
Qed.

Lemma apply_fault_200 : forall f w np,
  apply_fault f (genuine w np) = XOkGood \/ apply_fault f (genuine w np) = XOkBad ->
  genuine w np = XOkGood.
Proof.
  intros f w np H. destruct (genuine_cases w np) as [Hg|[c Hg]]; [exact Hg|].
  rewrite Hg in H. destruct H as [H|H]; destruct f; simpl in H; discriminate.
Qed.

Lemma exchange_good : forall w pin a np r n n',
  exchange w pin a np r n = (XOkGood, n') ->
  genuine w np = XOkGood /\ n_log n' = (a, np, r, Some FOk) :: n_log n.
Proof.
  intros w pin a np r n n' H. unfold exchange in H.
  destruct (n_cancelled n); [discriminate|].
  destruct (negb (pin_ok pin a)); [discriminate|].
  destruct (negb (alive w a)); [discriminate|].
  injection H as Hx Hn. subst n'. apply apply_fault_good in Hx. destruct Hx as [Hf Hg].
  simpl. rewrite Hf. split; [exact Hg | reflexivity].
Qed.

Lemma exchange_200_nopath_legacy : forall w pin a r n x n',
  exchange w pin a true r n = (x, n') -> x = XOkGood \/ x = XOkBad -> w_legacy w = true.
Proof.
  intros w pin a r n x n' H Hx. unfold exchange in H.
  destruct (n_cancelled n); [inversion H; subst; destruct Hx; discriminate|].
  destruct (negb (pin_ok pin a)); [inversion H; subst; destruct Hx; discriminate|].
  destruct (negb (alive w a)); [inversion H; subst; destruct Hx; discriminate|].
  inversion H as [[Hr Hn]]. rewrite <- Hr in Hx. apply apply_fault_200 in Hx.
  unfold genuine in Hx. destruct (w_legacy w); [reflexivity|].
  destruct (w_kind w); discriminate.
Qed.

(* ---------------------------------------------------------------------------------- *)
(* fetch: the fuel is enough                                                           *)

Definition b2n (b : bool) : nat := if b then 1 else 0.

Definition mu (fx : fixes) (sy : syncer) (done_retry try_nopath : bool) (tried : nat) : nat :=
  2 * (if fx_rotate fx then length (sy_urls sy) - 1 - tried else length (sy_urls sy) - 1)
  + 2 * b2n (sy_plain sy && negb (sy_nopath sy) && negb try_nopath)
  + b2n (negb done_retry).

Lemma fetch_loop_fuel : forall fx w fuel r sy n d t tried,
  mu fx sy d t tried < fuel ->
  fst (fst (fetch_loop fx w fuel r sy n d t tried)) <> FetchOutOfFuel.
Proof.
  intros fx w fuel. induction fuel as [|fuel IH]; intros r sy n d t tried Hmu; [lia|].
  simpl. destruct (exchange w (sy_pinned sy) (hd 0 (sy_urls sy)) (sy_nopath sy || t) r n) as [x n1].
  destruct x as [reset| c | |]; try (simpl; discriminate).
  - (* client.Do failed *)
    destruct (can_failover fx sy tried) eqn:Hc.
    + apply IH. unfold mu in *. unfold can_failover, failover in *.
      destruct (sy_urls sy) as [|a rest] eqn:Hu; simpl in *.
      * destruct (fx_rotate fx); simpl in Hc; [apply Nat.ltb_lt in Hc; lia | discriminate].
      * destruct (fx_rotate fx); simpl in *.
        -- apply Nat.ltb_lt in Hc. rewrite app_length. simpl.
           destruct (sy_plain sy && negb (sy_nopath sy) && negb t), d; simpl in *; lia.
        -- destruct rest as [|b rest]; simpl in *; [discriminate|].
           destruct (sy_plain sy && negb (sy_nopath sy) && negb t), d; simpl in *; lia.
    + destruct (negb d && reset) eqn:Hr; [|simpl; discriminate].
      apply IH. apply andb_true_iff in Hr. destruct Hr as [Hd _]. destruct d; [discriminate|].
      unfold mu in *. simpl in *. lia.
  - (* a status *)
    destruct ((c =? 404)%N || (c =? 403)%N); [|simpl; discriminate].
    destruct (sy_plain sy && negb (sy_nopath sy) && negb t) eqn:Hp; [|simpl; discriminate].
    destruct (fx_nopath fx); apply IH; unfold mu in *; rewrite Hp in Hmu; simpl in *.
    + rewrite !andb_false_r. simpl. destruct d; simpl in *; lia.
    + rewrite !andb_false_r. simpl. destruct d; simpl in *; lia.
Qed.

Lemma fetch_no_out_of_fuel : forall fx w r sy n,
  fst (fst (fetch fx w r sy n)) <> FetchOutOfFuel.
Proof.
  intros. unfold fetch. apply fetch_loop_fuel. unfold mu, fetch_fuel.
  destruct (fx_rotate fx), (sy_plain sy && negb (sy_nopath sy) && negb false); simpl; lia.
Qed.

(* ---------------------------------------------------------------------------------- *)
(* Part 2: what every fetch / walk / handle preserves, under ANY fault script          *)

Definition wf_world (w : world) : Prop := w_legacy w = true -> w_kind w = KPlain.

(* the syncer addresses the publisher: it has an address, it asks without the IPNI path
   only a publisher that serves no IPNI path, and a pinned libp2phttp round tripper is
   pinned to an address that answers *)
Record SyOk (w : world) (sy : syncer) : Prop := {
  so_ne : sy_urls sy <> [];
  so_el : forall a, In a (sy_urls sy) <-> In a (sy_addrs sy);
  so_np : sy_nopath sy = true -> w_legacy w = true;
  so_pl : w_legacy w = true -> sy_plain sy = true;
  so_pin : forall a, sy_pinned sy = Some a -> alive w a = true /\ In a (sy_urls sy)
}.

Lemma SyOk_failover : forall w sy, SyOk w sy -> SyOk w (failover fx_fixed sy).
Proof.
  intros w sy [Hne Hel Hnp Hpl Hpin]. unfold failover. simpl.
  destruct (sy_urls sy) as [|a rest] eqn:Hu; [constructor; rewrite ?Hu; assumption|].
  assert (Hin : forall x, In x (rest ++ [a]) <-> In x (a :: rest)).
  { intros x. rewrite in_app_iff. simpl. tauto. }
  constructor; simpl.
  - destruct rest; discriminate.
  - intros x. rewrite Hin. apply Hel.
  - exact Hnp.
  - exact Hpl.
  - intros x Hx. destruct (Hpin x Hx) as [Ha Hi]. split; [exact Ha|]. apply Hin. exact Hi.
Qed.

Lemma SyOk_set_nopath : forall w sy, SyOk w sy -> w_legacy w = true -> SyOk w (set_nopath sy).
Proof. intros w sy [Hne Hel Hnp Hpl Hpin] Hl. constructor; simpl; auto. Qed.

Lemma failover_fields : forall fx sy,
  sy_addrs (failover fx sy) = sy_addrs sy /\ sy_pinned (failover fx sy) = sy_pinned sy /\
  sy_plain (failover fx sy) = sy_plain sy /\ sy_nopath (failover fx sy) = sy_nopath sy.
Proof. intros fx sy. unfold failover. destruct (sy_urls sy); simpl; tauto. Qed.

Ltac rsplit := split; [first [assumption | eassumption] | repeat split].

Lemma fetch_loop_inv : forall w fuel r sy n d t tried res sy' n',
  SyOk w sy ->
  fetch_loop fx_fixed w fuel r sy n d t tried = (res, sy', n') ->
  SyOk w sy' /\ sy_addrs sy' = sy_addrs sy /\ sy_pinned sy' = sy_pinned sy /\
  sy_plain sy' = sy_plain sy /\ log_ext n n' /\
  (res = FetchOk -> exists a np, In (a, np, r, Some FOk) (n_log n')).
Proof.
  intros w fuel. induction fuel as [|fuel IH]; intros r sy n d t tried res sy' n' Hok H.
  - simpl in H. inversion H; subst. rsplit; auto using log_ext_refl; intros; discriminate.
  - simpl in H.
    destruct (exchange w (sy_pinned sy) (hd 0 (sy_urls sy)) (sy_nopath sy || t) r n) as [x n1] eqn:Hx.
    pose proof (exchange_log _ _ _ _ _ _ _ _ Hx) as Hl1.
    destruct x as [reset| c | |].
    + destruct (can_failover fx_fixed sy tried).
      * apply IH in H; [|apply SyOk_failover; exact Hok].
        destruct (failover_fields fx_fixed sy) as [Fa [Fp [Fl _]]].
        destruct H as [H1 [H2 [H3 [H4 [H5 H6]]]]].
        rsplit; try congruence; eauto using log_ext_trans.
      * destruct (negb d && reset).
        -- apply IH in H; [|exact Hok]. destruct H as [H1 [H2 [H3 [H4 [H5 H6]]]]].
           rsplit; eauto using log_ext_trans.
        -- inversion H; subst. rsplit; auto; intros; discriminate.
    + destruct ((c =? 404)%N || (c =? 403)%N).
      * destruct (sy_plain sy && negb (sy_nopath sy) && negb t).
        -- simpl in H. apply IH in H; [|exact Hok]. destruct H as [H1 [H2 [H3 [H4 [H5 H6]]]]].
           rsplit; eauto using log_ext_trans.
        -- inversion H; subst. rsplit; auto; intros; discriminate.
      * inversion H; subst. rsplit; auto; intros; discriminate.
    + inversion H; subst. clear H.
      assert (Hs : SyOk w (commit_nopath sy t)).
      { unfold commit_nopath. destruct t; [|exact Hok]. apply SyOk_set_nopath; [exact Hok|].
        rewrite orb_true_r in Hx. eapply exchange_200_nopath_legacy; eauto. }
      rsplit; auto; try (unfold commit_nopath; destruct t; reflexivity).
      intros _. apply exchange_good in Hx. destruct Hx as [_ Hlog].
      exists (hd 0 (sy_urls sy)), (sy_nopath sy || t). rewrite Hlog. left. reflexivity.
    + inversion H; subst. clear H.
      assert (Hs : SyOk w (commit_nopath sy t)).
      { unfold commit_nopath. destruct t; [|exact Hok]. apply SyOk_set_nopath; [exact Hok|].
        rewrite orb_true_r in Hx. eapply exchange_200_nopath_legacy; eauto. }
      rsplit; auto; try (unfold commit_nopath; destruct t; reflexivity); intros; discriminate.
Qed.

Lemma fetch_inv : forall w r sy n res sy' n',
  SyOk w sy -> fetch fx_fixed w r sy n = (res, sy', n') ->
  SyOk w sy' /\ sy_addrs sy' = sy_addrs sy /\ sy_pinned sy' = sy_pinned sy /\
  sy_plain sy' = sy_plain sy /\ log_ext n n' /\
  (res = FetchOk -> exists a np, In (a, np, r, Some FOk) (n_log n')).
Proof. intros. unfold fetch in *. eapply fetch_loop_inv; eauto. Qed.

(* walk: the store only grows, only by blocks of the segment, each one received un-faulted *)
Definition sub (a b : list nat) : Prop := forall p, In p a -> In p b.

Lemma walk_inv : forall w todo sy n store ok sy' n' store',
  SyOk w sy -> walk fx_fixed w todo sy n store = (ok, sy', n', store') ->
  SyOk w sy' /\ sy_addrs sy' = sy_addrs sy /\ sy_pinned sy' = sy_pinned sy /\ log_ext n n' /\
  sub store store' /\
  (forall p, In p store' -> In p store \/
     (In p todo /\ exists a np, In (a, np, Blk p, Some FOk) (n_log n'))) /\
  (ok = true -> sub todo store').
Proof.
  intros w todo. induction todo as [|p rest IH]; intros sy n store ok sy' n' store' Hok H; simpl in H.
  - inversion H; subst. rsplit; auto using log_ext_refl; try solve [intros q Hq; auto].
    intros _ q [].
  - destruct (mem p store) eqn:Hm.
    + apply IH in H; [|exact Hok]. destruct H as [H1 [H2 [H3 [H4 [H5 [H6 H7]]]]]].
      rsplit; auto.
      * intros q Hq. destruct (H6 q Hq) as [|[Hi He]]; [left; assumption|right; split; [right; exact Hi|exact He]].
      * intros Ht q [Hq|Hq]; [subst; apply H5; apply mem_In; exact Hm | apply H7; assumption].
    + destruct (fetch fx_fixed w (Blk p) sy n) as [[res sy1] n1] eqn:Hf.
      destruct (fetch_inv _ _ _ _ _ _ _ Hok Hf) as [F1 [F2 [F3 [F4 [F5 F6]]]]].
      destruct res.
      * apply IH in H; [|exact F1]. destruct H as [H1 [H2 [H3 [H4 [H5 [H6 H7]]]]]].
        rsplit; try congruence; eauto using log_ext_trans.
        -- intros q Hq. apply H5. right. exact Hq.
        -- intros q Hq. destruct (H6 q Hq) as [[Hq'|Hq']|[Hi He]].
           ++ subst q. right. split; [left; reflexivity|].
              destruct (F6 eq_refl) as [a [np Hlog]]. exists a, np. eapply log_ext_In; eauto.
           ++ left. exact Hq'.
           ++ right. split; [right; exact Hi|exact He].
        -- intros Ht q [Hq|Hq]; [subst; apply H5; left; reflexivity | apply H7; assumption].
      * inversion H; subst. rsplit; auto; try solve [intros q Hq; auto]; intros; discriminate.
      * inversion H; subst. rsplit; auto; try solve [intros q Hq; auto]; intros; discriminate.
Qed.

Lemma handle_segs_inv : forall w sg segs hf sy n store hooks r,
  SyOk w sy -> handle_segs fx_fixed w sg segs hf sy n store hooks = r ->
  SyOk w (h_sy r) /\ sy_addrs (h_sy r) = sy_addrs sy /\ sy_pinned (h_sy r) = sy_pinned sy /\
  log_ext n (h_net r) /\ sub store (h_store r) /\
  (forall p, In p (h_store r) -> In p store \/
     (In p (concat segs) /\ exists a np, In (a, np, Blk p, Some FOk) (n_log (h_net r)))) /\
  (h_ok r = true -> sub (concat segs) (h_store r)) /\
  (h_ok r = false -> h_count r = 0).
Proof.
  intros w sg segs. induction segs as [|s rest IH]; intros hf sy n store hooks r Hok H; simpl in H.
  - subst r. simpl. rsplit; auto using log_ext_refl; try solve [intros q Hq; auto]; try (intros; discriminate).
    intros _ q [].
  - destruct (walk fx_fixed w s sy n store) as [[[ok sy1] n1] store1] eqn:Hw.
    destruct (walk_inv _ _ _ _ _ _ _ _ _ Hok Hw) as [W1 [W2 [W3 [W4 [W5 [W6 W7]]]]]].
    destruct ok.
    + destruct (sg && hook_fails hf (length hooks) (length s)).
      * subst r. simpl. rsplit; auto; try (intros; discriminate).
        intros q Hq. destruct (W6 q Hq) as [|[Hi He]]; [left; assumption|].
        right. split; [apply in_or_app; left; exact Hi | exact He].
      * apply IH in H; [|exact W1]. destruct H as [H1 [H2 [H3 [H4 [H5 [H6 [H7 H8]]]]]]].
        apply (log_ext_trans n1 _ _ (log_ext_cancel_if _ n1)) in H4.
        rsplit; try congruence; eauto using log_ext_trans.
        -- intros q Hq. apply H5. apply W5. exact Hq.
        -- intros q Hq. destruct (H6 q Hq) as [Hq'|[Hi He]].
           ++ destruct (W6 q Hq') as [|[Hi He]]; [left; assumption|].
              right. split; [apply in_or_app; left; exact Hi|].
              destruct He as [a [np He]]. exists a, np. eapply log_ext_In; eauto.
           ++ right. split; [apply in_or_app; right; exact Hi | exact He].
        -- intros Ht q Hq. apply in_app_or in Hq. destruct Hq as [Hq|Hq].
           ++ apply H5. apply W7; [reflexivity | exact Hq].
           ++ apply H7; assumption.
    + subst r. simpl. rsplit; auto; try (intros; discriminate).
      intros q Hq. destruct (W6 q Hq) as [|[Hi He]]; [left; assumption|].
      right. split; [apply in_or_app; left; exact Hi | exact He].
Qed.

Lemma handle_inv : forall w seg h stop hf sy n store r,
  SyOk w sy -> handle fx_fixed w seg h stop hf sy n store = r ->
  SyOk w (h_sy r) /\ sy_addrs (h_sy r) = sy_addrs sy /\ sy_pinned (h_sy r) = sy_pinned sy /\
  log_ext n (h_net r) /\ sub store (h_store r) /\
  (forall p, In p (h_store r) -> In p store \/
     (In p (todo h stop) /\ exists a np, In (a, np, Blk p, Some FOk) (n_log (h_net r)))) /\
  (h_ok r = true -> sub (todo h stop) (h_store r)) /\
  (h_ok r = false -> h_count r = 0).
Proof.
  intros w seg h stop hf sy n store r Hok H. unfold handle in H.
  apply handle_segs_inv in H; [|exact Hok]. rewrite concat_segments in H. exact H.
Qed.

(* ---------------------------------------------------------------------------------- *)
(* Part 3: a fault-free fetch / walk / handle succeeds from every state SyOk allows     *)

Definition good (w : world) (sy : syncer) (a : nat) : bool := alive w a && pin_ok (sy_pinned sy) a.
Definition HasGood (w : world) (sy : syncer) : Prop := exists a, In a (sy_urls sy) /\ good w sy a = true.
Definition clean (n : net) : Prop := n_script n = [] /\ n_cancelled n = false.

Lemma exchange_at_bad : forall w sy a np r n,
  good w sy a = false -> clean n ->
  exists n', exchange w (sy_pinned sy) a np r n = (XDoErr false, n') /\ clean n'.
Proof.
  intros w sy a np r n Hg [Hs Hc]. unfold exchange. rewrite Hc.
  unfold good in Hg. destruct (pin_ok (sy_pinned sy) a); simpl.
  - rewrite andb_true_r in Hg. rewrite Hg. simpl. eexists. split; [reflexivity|]. split; simpl; auto.
  - exists n. split; [reflexivity|]. split; auto.
Qed.

Lemma exchange_at_good : forall w sy a np r n,
  good w sy a = true -> clean n ->
  exists n', exchange w (sy_pinned sy) a np r n = (genuine w np, n') /\ clean n'.
Proof.
  intros w sy a np r n Hg [Hs Hc]. unfold exchange. rewrite Hc.
  unfold good in Hg. apply andb_true_iff in Hg. destruct Hg as [Ha Hp]. rewrite Ha, Hp. simpl.
  rewrite Hs. simpl. eexists. split; [reflexivity|]. split; reflexivity.
Qed.

Lemma first_split : forall (f : nat -> bool) l,
  (exists a, In a l /\ f a = true) ->
  exists l1 a l2, l = l1 ++ a :: l2 /\ (forall b, In b l1 -> f b = false) /\ f a = true.
Proof.
  intros f l. induction l as [|x l IH]; intros [a [Hi Hf]]; [destruct Hi|].
  destruct (f x) eqn:Hx.
  - exists [], x, l. simpl. repeat split; auto. intros b [].
  - destruct Hi as [Hi|Hi]; [subst; congruence|].
    destruct IH as [l1 [b [l2 [He [Hb Hfb]]]]]; [eauto|].
    exists (x :: l1), b, l2. subst l. simpl. repeat split; auto.
    intros c [Hc|Hc]; [subst; assumption | auto].
Qed.

Lemma good_failover : forall w sy a, good w (failover fx_fixed sy) a = good w sy a.
Proof. intros. unfold good. destruct (failover_fields fx_fixed sy) as [_ [Hp _]]. rewrite Hp. reflexivity. Qed.

Lemma fetch_loop_clean : forall w r l1 fuel sy n d tried a l2,
  wf_world w -> SyOk w sy -> clean n ->
  sy_urls sy = l1 ++ a :: l2 ->
  (forall b, In b l1 -> good w sy b = false) -> good w sy a = true ->
  tried <= length l2 -> 2 * length l1 + 2 <= fuel ->
  exists sy' n', fetch_loop fx_fixed w fuel r sy n d false tried = (FetchOk, sy', n') /\ clean n'.
Proof.
  intros w r l1. induction l1 as [|b l1 IH]; intros fuel sy n d tried a l2 Hw Hok Hc Hu Hbad Hgood Ht Hf.
  - (* the address in use answers *)
    simpl in Hu. destruct fuel as [|[|fuel]]; [simpl in Hf; lia | simpl in Hf; lia |].
    cbn [fetch_loop]. rewrite Hu. cbn [hd]. rewrite orb_false_r.
    destruct (exchange_at_good w sy a (sy_nopath sy) r n Hgood Hc) as [n1 [Hx Hc1]]. rewrite Hx.
    unfold genuine. destruct (w_legacy w) eqn:Hl.
    + destruct (sy_nopath sy) eqn:Hn.
      * exists (commit_nopath sy false), n1. split; [reflexivity | exact Hc1].
      * cbn [N.eqb Pos.eqb orb]. rewrite (so_pl _ _ Hok Hl). cbn [negb andb fx_nopath fx_fixed].

        destruct (exchange_at_good w sy a true r n1 Hgood Hc1) as [n2 [Hx2 Hc2]]. rewrite Hx2.
        unfold genuine. rewrite Hl. eexists _, n2. split; [reflexivity | exact Hc2].
    + destruct (sy_nopath sy) eqn:Hn.
      * rewrite (so_np _ _ Hok Hn) in Hl. discriminate.
      * eexists _, n1. split; [reflexivity | exact Hc1].
  - (* the address in use does not: client.Do fails, move on *)
    destruct fuel as [|fuel]; [simpl in Hf; lia|].
    cbn [fetch_loop]. rewrite Hu. cbn [hd app].
    assert (Hb : good w sy b = false) by (apply Hbad; left; reflexivity).
    destruct (exchange_at_bad w sy b (sy_nopath sy || false) r n Hb Hc) as [n1 [Hx Hc1]]. rewrite Hx.
    assert (Hcf : can_failover fx_fixed sy tried = true).
    { unfold can_failover. cbn [fx_rotate fx_fixed]. rewrite Hu. apply Nat.ltb_lt.
      simpl. rewrite app_length. simpl. lia. }
    rewrite Hcf.
    apply (IH fuel (failover fx_fixed sy) n1 false (S tried) a (l2 ++ [b])); auto.
    + apply SyOk_failover. exact Hok.
    + unfold failover. rewrite Hu. simpl. rewrite <- app_assoc. reflexivity.
    + intros c Hc'. rewrite good_failover. apply Hbad. right. exact Hc'.
    + rewrite good_failover. exact Hgood.
    + rewrite app_length. simpl. lia.
    + simpl in Hf. lia.
Qed.

Lemma fetch_clean : forall w r sy n,
  wf_world w -> SyOk w sy -> clean n -> HasGood w sy ->
  exists sy' n', fetch fx_fixed w r sy n = (FetchOk, sy', n') /\ clean n'.
Proof.
  intros w r sy n Hw Hok Hc Hg. unfold fetch.
  destruct (first_split (good w sy) (sy_urls sy) Hg) as [l1 [a [l2 [Hu [Hb Ha]]]]].
  eapply fetch_loop_clean; eauto; [lia|].
  unfold fetch_fuel. rewrite Hu, app_length. simpl. lia.
Qed.

Lemma HasGood_transfer : forall w sy sy',
  SyOk w sy -> SyOk w sy' -> sy_addrs sy' = sy_addrs sy -> sy_pinned sy' = sy_pinned sy ->
  HasGood w sy -> HasGood w sy'.
Proof.
  intros w sy sy' Hok Hok' Ha Hp [a [Hi Hg]]. exists a. split.
  - apply (so_el _ _ Hok'). rewrite Ha. apply (so_el _ _ Hok). exact Hi.
  - unfold good in *. rewrite Hp. exact Hg.
Qed.

Lemma walk_clean : forall w todo sy n store,
  wf_world w -> SyOk w sy -> clean n -> HasGood w sy ->
  exists sy' n' store', walk fx_fixed w todo sy n store = (true, sy', n', store') /\ clean n'.
Proof.
  intros w todo. induction todo as [|p rest IH]; intros sy n store Hw Hok Hc Hg; simpl.
  - exists sy, n, store. split; [reflexivity | exact Hc].
  - destruct (mem p store); [apply IH; auto|].
    destruct (fetch_clean w (Blk p) sy n Hw Hok Hc Hg) as [sy1 [n1 [Hf Hc1]]]. rewrite Hf.
    destruct (fetch_inv _ _ _ _ _ _ _ Hok Hf) as [F1 [F2 [F3 _]]].
    apply IH; [exact Hw | exact F1 | exact Hc1 | apply (HasGood_transfer w sy sy1); assumption].
Qed.

Lemma handle_segs_clean : forall w sg segs sy n store hooks,
  wf_world w -> SyOk w sy -> clean n -> HasGood w sy ->
  h_ok (handle_segs fx_fixed w sg segs None sy n store hooks) = true.
Proof.
  intros w sg segs. induction segs as [|s rest IH]; intros sy n store hooks Hw Hok Hc Hg; simpl; [reflexivity|].
  destruct (walk_clean w s sy n store Hw Hok Hc Hg) as [sy1 [n1 [st1 [Hwk Hc1]]]]. rewrite Hwk.
  rewrite andb_false_r.
  destruct (walk_inv _ _ _ _ _ _ _ _ _ Hok Hwk) as [W1 [W2 [W3 _]]].
  apply IH; [exact Hw | exact W1 | exact Hc1 | apply (HasGood_transfer w sy sy1); assumption].
Qed.

Lemma handle_clean : forall w seg h stop sy n store,
  wf_world w -> SyOk w sy -> clean n -> HasGood w sy ->
  h_ok (handle fx_fixed w seg h stop None sy n store) = true.
Proof. intros. unfold handle. apply handle_segs_clean; auto. Qed.

(* ---------------------------------------------------------------------------------- *)
(* Part 4: the store and the log, for the code with or without the fixes                *)

Lemma fetch_loop_log : forall fx w fuel r sy n d t tried res sy' n',
  fetch_loop fx w fuel r sy n d t tried = (res, sy', n') ->
  log_ext n n' /\ (res = FetchOk -> exists a np, In (a, np, r, Some FOk) (n_log n')).
Proof.
  intros fx w fuel. induction fuel as [|fuel IH]; intros r sy n d t tried res sy' n' H.
  - simpl in H. inversion H; subst. split; [apply log_ext_refl | intros; discriminate].
  - simpl in H.
    destruct (exchange w (sy_pinned sy) (hd 0 (sy_urls sy)) (sy_nopath sy || t) r n) as [x n1] eqn:Hx.
    pose proof (exchange_log _ _ _ _ _ _ _ _ Hx) as Hl1.
    destruct x as [reset| c | |].
    + destruct (can_failover fx sy tried).
      * apply IH in H. destruct H. split; eauto using log_ext_trans.
      * destruct (negb d && reset).
        -- apply IH in H. destruct H. split; eauto using log_ext_trans.
        -- inversion H; subst. split; [assumption | intros; discriminate].
    + destruct ((c =? 404)%N || (c =? 403)%N).
      * destruct (sy_plain sy && negb (sy_nopath sy) && negb t).
        -- destruct (fx_nopath fx); apply IH in H; destruct H; split; eauto using log_ext_trans.
        -- inversion H; subst. split; [assumption | intros; discriminate].
      * inversion H; subst. split; [assumption | intros; discriminate].
    + inversion H; subst. split; [assumption|]. intros _.
      apply exchange_good in Hx. destruct Hx as [_ Hlog].
      exists (hd 0 (sy_urls sy)), (sy_nopath sy || t). rewrite Hlog. left. reflexivity.
    + inversion H; subst. split; [assumption | intros; discriminate].
Qed.

Lemma walk_store : forall fx w todo sy n store ok sy' n' store',
  walk fx w todo sy n store = (ok, sy', n', store') ->
  log_ext n n' /\ sub store store' /\
  (forall p, In p store' -> In p store \/
     (In p todo /\ exists a np, In (a, np, Blk p, Some FOk) (n_log n'))) /\
  (ok = true -> sub todo store').
Proof.
  intros fx w todo. induction todo as [|p rest IH]; intros sy n store ok sy' n' store' H; simpl in H.
  - inversion H; subst. repeat split; auto using log_ext_refl; try solve [intros q Hq; auto].
    intros _ q [].
  - destruct (mem p store) eqn:Hm.
    + apply IH in H. destruct H as [H4 [H5 [H6 H7]]].
      repeat split; auto.
      * intros q Hq. destruct (H6 q Hq) as [|[Hi He]]; [left; assumption|right; split; [right; exact Hi|exact He]].
      * intros Ht q [Hq|Hq]; [subst; apply H5; apply mem_In; exact Hm | apply H7; assumption].
    + destruct (fetch fx w (Blk p) sy n) as [[res sy1] n1] eqn:Hf.
      unfold fetch in Hf. destruct (fetch_loop_log _ _ _ _ _ _ _ _ _ _ _ _ Hf) as [F5 F6].
      destruct res.
      * apply IH in H. destruct H as [H4 [H5 [H6 H7]]].
        repeat split; eauto using log_ext_trans.
        -- intros q Hq. apply H5. right. exact Hq.
        -- intros q Hq. destruct (H6 q Hq) as [[Hq'|Hq']|[Hi He]].
           ++ subst q. right. split; [left; reflexivity|].
              destruct (F6 eq_refl) as [a [np Hlog]]. exists a, np. eapply log_ext_In; eauto.
           ++ left. exact Hq'.
           ++ right. split; [right; exact Hi|exact He].
        -- intros Ht q [Hq|Hq]; [subst; apply H5; left; reflexivity | apply H7; assumption].
      * inversion H; subst. repeat split; auto; try solve [intros q Hq; auto]; intros; discriminate.
      * inversion H; subst. repeat split; auto; try solve [intros q Hq; auto]; intros; discriminate.
Qed.

Lemma handle_segs_store : forall fx w sg segs hf sy n store hooks r,
  handle_segs fx w sg segs hf sy n store hooks = r ->
  log_ext n (h_net r) /\ sub store (h_store r) /\
  (forall p, In p (h_store r) -> In p store \/
     (In p (concat segs) /\ exists a np, In (a, np, Blk p, Some FOk) (n_log (h_net r)))) /\
  (h_ok r = true -> sub (concat segs) (h_store r)) /\
  (h_ok r = false -> h_count r = 0).
Proof.
  intros fx w sg segs. induction segs as [|s rest IH]; intros hf sy n store hooks r H; simpl in H.
  - subst r. simpl. repeat split; auto using log_ext_refl; try solve [intros q Hq; auto]; try (intros; discriminate).
    intros _ q [].
  - destruct (walk fx w s sy n store) as [[[ok sy1] n1] store1] eqn:Hw.
    destruct (walk_store _ _ _ _ _ _ _ _ _ _ Hw) as [W4 [W5 [W6 W7]]].
    destruct ok.
    + destruct (sg && hook_fails hf (length hooks) (length s)).
      * subst r. simpl. repeat split; auto; try (intros; discriminate).
        intros q Hq. destruct (W6 q Hq) as [|[Hi He]]; [left; assumption|].
        right. split; [apply in_or_app; left; exact Hi | exact He].
      * apply IH in H. destruct H as [H4 [H5 [H6 [H7 H8]]]].
        apply (log_ext_trans n1 _ _ (log_ext_cancel_if _ n1)) in H4.
        repeat split; eauto using log_ext_trans.
        -- intros q Hq. apply H5. apply W5. exact Hq.
        -- intros q Hq. destruct (H6 q Hq) as [Hq'|[Hi He]].
           ++ destruct (W6 q Hq') as [|[Hi He]]; [left; assumption|].
              right. split; [apply in_or_app; left; exact Hi|].
              destruct He as [a [np He]]. exists a, np. eapply log_ext_In; eauto.
           ++ right. split; [apply in_or_app; right; exact Hi | exact He].
        -- intros Ht q Hq. apply in_app_or in Hq. destruct Hq as [Hq|Hq].
           ++ apply H5. apply W7; [reflexivity | exact Hq].
           ++ apply H7; assumption.
    + subst r. simpl. repeat split; auto; try (intros; discriminate).
      intros q Hq. destruct (W6 q Hq) as [|[Hi He]]; [left; assumption|].
      right. split; [apply in_or_app; left; exact Hi | exact He].
Qed.

Lemma handle_store : forall fx w seg h stop hf sy n store r,
  handle fx w seg h stop hf sy n store = r ->
  log_ext n (h_net r) /\ sub store (h_store r) /\
  (forall p, In p (h_store r) -> In p store \/
     (In p (todo h stop) /\ exists a np, In (a, np, Blk p, Some FOk) (n_log (h_net r)))) /\
  (h_ok r = true -> sub (todo h stop) (h_store r)) /\
  (h_ok r = false -> h_count r = 0).
Proof.
  intros fx w seg h stop hf sy n store r H. unfold handle in H.
  apply handle_segs_store in H. rewrite concat_segments in H. exact H.
Qed.

(* ---------------------------------------------------------------------------------- *)
(* makeSyncer                                                                          *)

Lemma make_syncer_frame : forall w st addrs d osy st1,
  make_syncer w st addrs d = (osy, st1) ->
  s_latest st1 = s_latest st /\ s_store st1 = s_store st /\ s_cache st1 = s_cache st /\
  (forall sy, osy = Some sy -> s_syncer st1 = Some sy) /\
  (osy = None -> s_syncer st1 = s_syncer st).
Proof.
  intros w st addrs d osy st1 H. unfold make_syncer in H.
  assert (Hc : forall l, (let '(osy0, c) := new_syncer w l d (s_disc st) in
              (osy0, {| s_latest := s_latest st; s_store := s_store st;
                        s_syncer := match osy0 with Some _ => osy0 | None => s_syncer st end;
                        s_cache := s_cache st; s_disc := c; s_slots := s_slots st; s_max := s_max st |})) = (osy, st1) ->
          s_latest st1 = s_latest st /\ s_store st1 = s_store st /\ s_cache st1 = s_cache st /\
          (forall sy, osy = Some sy -> s_syncer st1 = Some sy) /\ (osy = None -> s_syncer st1 = s_syncer st)).
  { intros l Hl. destruct (new_syncer w l d (s_disc st)) as [o c]. inversion Hl; subst. simpl.
    repeat split; auto; intros; subst; reflexivity. }
  destruct (s_syncer st) as [sy|] eqn:Hs; [|apply (Hc addrs); exact H].
  destruct (negb (length (sy_addrs sy) =? length addrs)); [apply (Hc addrs); exact H|].
  destruct (length addrs <=? 1).
  - destruct (list_nat_eqb (sy_addrs sy) addrs); [|apply (Hc addrs); exact H].
    inversion H; subst. repeat split; auto; intros; try congruence; try discriminate.
  - destruct (list_nat_eqb (sort (sy_addrs sy)) (sort addrs)); [|apply (Hc (sort addrs)); exact H].
    inversion H; subst. repeat split; auto; intros; try congruence; try discriminate.
Qed.

Lemma afh_fields : forall fx st,
  s_latest (after_failed_handle fx st) = s_latest st /\ s_store (after_failed_handle fx st) = s_store st /\
  s_cache (after_failed_handle fx st) = s_cache st /\ s_syncer (after_failed_handle fx st) = s_syncer st /\
  s_max (after_failed_handle fx st) = s_max st.
Proof. intros fx st. unfold after_failed_handle. destruct (fx_slot fx); simpl; repeat split. Qed.

Lemma afh_fixed : forall st, after_failed_handle fx_fixed st = st.
Proof. reflexivity. Qed.

Lemma make_syncer_slots : forall w st addrs d osy st1,
  make_syncer w st addrs d = (osy, st1) -> s_slots st1 = s_slots st /\ s_max st1 = s_max st.
Proof.
  intros w st addrs d osy st1 H. unfold make_syncer in H.
  assert (Hc : forall l, (let '(osy0, c) := new_syncer w l d (s_disc st) in
              (osy0, {| s_latest := s_latest st; s_store := s_store st;
                        s_syncer := match osy0 with Some _ => osy0 | None => s_syncer st end;
                        s_cache := s_cache st; s_disc := c; s_slots := s_slots st; s_max := s_max st |})) = (osy, st1) ->
          s_slots st1 = s_slots st /\ s_max st1 = s_max st).
  { intros l Hl. destruct (new_syncer w l d (s_disc st)) as [o c]. inversion Hl; subst. simpl. auto. }
  destruct (s_syncer st) as [sy|]; [|apply (Hc addrs); exact H].
  destruct (negb (length (sy_addrs sy) =? length addrs)); [apply (Hc addrs); exact H|].
  destruct (length addrs <=? 1).
  - destruct (list_nat_eqb (sy_addrs sy) addrs); [|apply (Hc addrs); exact H]. inversion H; subst. auto.
  - destruct (list_nat_eqb (sort (sy_addrs sy)) (sort addrs)); [|apply (Hc (sort addrs)); exact H]. inversion H; subst. auto.
Qed.

Lemma blocked_free : forall st c, s_slots st = 0 -> blocked (set_cache st c) = false.
Proof.
  intros st c H. unfold blocked. simpl. rewrite H.
  destruct (s_max st); reflexivity.
Qed.

Local Arguments blocked : simpl never.

(* ---------------------------------------------------------------------------------- *)
(* Per-step theorems: a failed sync changes nothing durable                             *)

Definition failed (r : result) : bool :=
  match r with RExpErr | RAnnErr | RAnnSilent => true | _ => false end.

Lemma failed_sync_preserves_latest_l : forall fx w seg o st,
  failed (o_res (snd (step fx w seg o st))) = true ->
  s_latest (fst (step fx w seg o st)) = s_latest st.
Proof.
  intros fx w seg o st. unfold step. destruct (op_mode o).
  - unfold sync_explicit.
    destruct (make_syncer w st (op_addrs o) (op_discfail o)) as [[sy|] st1] eqn:Hm;
      destruct (make_syncer_frame _ _ _ _ _ _ Hm) as [Hl _]; [|simpl; intros; exact Hl].
    destruct (fetch fx w Head sy (net0 o)) as [[res sy1] n1]. destruct res; simpl; try (intros; exact Hl).
    destruct (s_latest st1 =? op_head o); simpl; [discriminate|].
    destruct (h_ok _); simpl; [discriminate | intros; exact Hl].
  - unfold sync_announce. destruct (mem (op_head o) (s_cache st)); simpl; [discriminate|].
    destruct (blocked _); simpl; [discriminate|].
    destruct (s_latest st =? op_head o); simpl; [discriminate|].
    destruct (make_syncer w _ (op_addrs o) (op_discfail o)) as [[sy|] st1] eqn:Hm;
      destruct (make_syncer_frame _ _ _ _ _ _ Hm) as [Hl _]; simpl in Hl.
    + destruct (h_ok _); simpl; [discriminate|]. intros _.
      rewrite (proj1 (afh_fields fx _)). simpl. exact Hl.
    + destruct (fx_announce fx); simpl; intros; exact Hl.
Qed.

Lemma failed_sync_no_success_event_l : forall fx w seg o st h c,
  failed (o_res (snd (step fx w seg o st))) = true ->
  ~ In (EvOk h c) (o_events (snd (step fx w seg o st))).
Proof.
  intros fx w seg o st h c. unfold step. destruct (op_mode o).
  - unfold sync_explicit.
    destruct (make_syncer w st (op_addrs o) (op_discfail o)) as [[sy|] st1]; [|simpl; tauto].
    destruct (fetch fx w Head sy (net0 o)) as [[res sy1] n1]. destruct res; simpl; try tauto.
    destruct (s_latest st1 =? op_head o); simpl; [discriminate|].
    destruct (h_ok _); simpl; [discriminate | tauto].
  - unfold sync_announce. destruct (mem (op_head o) (s_cache st)); simpl; [discriminate|].
    destruct (blocked _); simpl; [discriminate|].
    destruct (s_latest st =? op_head o); simpl; [discriminate|].
    destruct (make_syncer w _ (op_addrs o) (op_discfail o)) as [[sy|] st1].
    + destruct (h_ok _); simpl; [discriminate|]. intros _ [H|[]]. discriminate.
    + destruct (fx_announce fx); simpl; [|tauto]. intros _ [H|[]]. discriminate.
Qed.

(* success is the only way latest-sync moves, and it moves to the head that was synced *)
Lemma success_event_sets_latest_l : forall fx w seg o st h c,
  In (EvOk h c) (o_events (snd (step fx w seg o st))) ->
  h = op_head o /\ s_latest (fst (step fx w seg o st)) = h /\ failed (o_res (snd (step fx w seg o st))) = false.
Proof.
  intros fx w seg o st h c. unfold step. destruct (op_mode o).
  - unfold sync_explicit.
    destruct (make_syncer w st (op_addrs o) (op_discfail o)) as [[sy|] st1]; [|simpl; tauto].
    destruct (fetch fx w Head sy (net0 o)) as [[res sy1] n1]. destruct res; simpl; try tauto.
    destruct (s_latest st1 =? op_head o); simpl; [tauto|].
    destruct (h_ok _); simpl; [|tauto]. intros [H|[]]. inversion H; subst. auto.
  - unfold sync_announce. destruct (mem (op_head o) (s_cache st)); simpl; [tauto|].
    destruct (blocked _); simpl; [tauto|].
    destruct (s_latest st =? op_head o); simpl; [tauto|].
    destruct (make_syncer w _ (op_addrs o) (op_discfail o)) as [[sy|] st1].
    + destruct (h_ok _); simpl; intros [H|[]]; inversion H; subst; auto.
    + destruct (fx_announce fx); simpl; [|tauto]. intros [H|[]]. discriminate.
Qed.

(* a sync that reports success is complete: whatever faults and cancellations (in a request,
   between two requests, from the block hook between two segments) occurred on the way, every
   block from the head down to the latest-synced one is in the store *)
Lemma success_is_complete_l : forall fx w seg o st h c,
  In (EvOk h c) (o_events (snd (step fx w seg o st))) ->
  sub (todo h (s_latest st)) (s_store (fst (step fx w seg o st))).
Proof.
  intros fx w seg o st h c. unfold step. destruct (op_mode o).
  - unfold sync_explicit.
    destruct (make_syncer w st (op_addrs o) (op_discfail o)) as [[sy|] st1] eqn:Hm;
      destruct (make_syncer_frame _ _ _ _ _ _ Hm) as [Hl [Hs _]]; [|simpl; tauto].
    destruct (fetch fx w Head sy (net0 o)) as [[res sy1] n1]. destruct res; simpl; try tauto.
    destruct (s_latest st1 =? op_head o); simpl; [tauto|].
    destruct (handle fx w seg (op_head o) (s_latest st1) (op_hookfail o) sy1 n1 (s_store st1)) as [ok cnt hk sy' n' store'] eqn:Hh.
    destruct (handle_store _ _ _ _ _ _ _ _ _ _ Hh) as [_ [_ [_ [H7 _]]]]. simpl in *.
    destruct ok; simpl; [|tauto]. intros [H|[]]. inversion H; subst. rewrite <- Hl. apply H7. reflexivity.
  - unfold sync_announce. destruct (mem (op_head o) (s_cache st)); simpl; [tauto|].
    destruct (blocked _); simpl; [tauto|].
    destruct (s_latest st =? op_head o); simpl; [tauto|].
    destruct (make_syncer w _ (op_addrs o) (op_discfail o)) as [[sy|] st1] eqn:Hm;
      destruct (make_syncer_frame _ _ _ _ _ _ Hm) as [Hl [Hs _]]; simpl in Hl, Hs.
    + destruct (handle fx w seg (op_head o) (s_latest st1) (op_hookfail o) sy (net0 o) (s_store st1)) as [ok cnt hk sy' n' store'] eqn:Hh.
      destruct (handle_store _ _ _ _ _ _ _ _ _ _ Hh) as [_ [_ [_ [H7 _]]]]. simpl in *.
      destruct ok; simpl; intros [H|[]]; inversion H; subst. rewrite <- Hl. apply H7. reflexivity.
    + destruct (fx_announce fx); simpl; [|tauto]. intros [H|[]]. discriminate.
Qed.

(* an announce-triggered sync that fails emits exactly one error event (count 0) and its
   CID leaves the duplicate filter; with the fix, it never fails silently *)
Lemma async_failure_l : forall fx w seg o st,
  fx_announce fx = true -> op_mode o = Announce ->
  let st' := fst (step fx w seg o st) in
  let ob := snd (step fx w seg o st) in
  o_res ob <> RAnnSilent /\
  (failed (o_res ob) = true ->
     o_res ob = RAnnErr /\ o_events ob = [EvErr (op_head o) 0] /\ ~ In (op_head o) (s_cache st')) /\
  (failed (o_res ob) = false -> o_res ob <> RAnnOk -> o_events ob = [] /\ s_latest st' = s_latest st).
Proof.
  intros fx w seg o st Hfx Hm. unfold step. rewrite Hm. unfold sync_announce.
  destruct (mem (op_head o) (s_cache st)); simpl;
    [split; [discriminate | split; [intros; discriminate | intros; split; reflexivity]]|].
  destruct (blocked _); simpl;
    [split; [discriminate | split; [intros; discriminate | intros; split; reflexivity]]|].
  destruct (s_latest st =? op_head o); simpl;
    [split; [discriminate | split; [intros; discriminate | intros; split; reflexivity]]|].
  destruct (make_syncer w _ (op_addrs o) (op_discfail o)) as [[sy|] st1] eqn:Hms;
    destruct (make_syncer_frame _ _ _ _ _ _ Hms) as [Hl [_ [Hc _]]]; simpl in Hl, Hc.
  - destruct (handle fx w seg (op_head o) (s_latest st1) (op_hookfail o) sy (net0 o) (s_store st1)) as [ok cnt hk sy' n' store'] eqn:Hh.
    destruct (handle_store _ _ _ _ _ _ _ _ _ _ Hh) as [_ [_ [_ [_ H0]]]]. simpl in *.
    destruct ok; simpl.
    + split; [discriminate | split; [intros; discriminate|]]. intros _ Hne. exfalso. apply Hne. reflexivity.
    + rewrite (H0 eq_refl). split; [discriminate | split; [|intros; discriminate]].
      intros _. split; [reflexivity | split; [reflexivity|]].
      destruct (afh_fields fx (with_sync st1 sy' store' (s_latest st1) (remove (op_head o) (s_cache st1)))) as [_ [_ [Hc' _]]].
      rewrite Hc'. simpl. apply In_remove.
  - rewrite Hfx. simpl. split; [discriminate | split; [|intros; discriminate]].
    intros _. split; [reflexivity | split; [reflexivity | apply In_remove]].
Qed.

(* blocks already verified remain; a block enters the store only when the publisher's own
   answer to the request for THAT block arrived un-faulted *)
Lemma verified_blocks_survive_l : forall fx w seg o st,
  let st' := fst (step fx w seg o st) in
  let ob := snd (step fx w seg o st) in
  sub (s_store st) (s_store st') /\
  (forall p, In p (s_store st') -> In p (s_store st) \/
     exists a np, In (a, np, Blk p, Some FOk) (o_log ob)).
Proof.
  intros fx w seg o st. unfold step. destruct (op_mode o).
  - unfold sync_explicit.
    destruct (make_syncer w st (op_addrs o) (op_discfail o)) as [[sy|] st1] eqn:Hm;
      destruct (make_syncer_frame _ _ _ _ _ _ Hm) as [_ [Hs _]]; simpl;
      [|rewrite Hs; split; [intros p Hp; exact Hp | intros p Hp; left; exact Hp]].
    destruct (fetch fx w Head sy (net0 o)) as [[res sy1] n1] eqn:Hf. unfold fetch in Hf.
    destruct (fetch_loop_log _ _ _ _ _ _ _ _ _ _ _ _ Hf) as [Hl1 _].
    destruct res; simpl; try (rewrite Hs; split; [intros p Hp; exact Hp | intros p Hp; left; exact Hp]).
    destruct (s_latest st1 =? op_head o); simpl;
      [rewrite Hs; split; [intros p Hp; exact Hp | intros p Hp; left; exact Hp]|].
    destruct (handle fx w seg (op_head o) (s_latest st1) (op_hookfail o) sy1 n1 (s_store st1)) as [ok cnt hk sy' n' store'] eqn:Hh.
    destruct (handle_store _ _ _ _ _ _ _ _ _ _ Hh) as [_ [H5 [H6 _]]]. simpl in *. rewrite Hs in *.
    destruct ok; simpl; (split; [exact H5|]); intros p Hp;
      (destruct (H6 p Hp) as [|[_ [a [np Hi]]]]; [left; assumption | right; exists a, np; apply -> in_rev; exact Hi]).
  - unfold sync_announce. destruct (mem (op_head o) (s_cache st)); simpl;
      [split; [intros p Hp; exact Hp | intros p Hp; left; exact Hp]|].
    destruct (blocked _); simpl; [split; [intros p Hp; exact Hp | intros p Hp; left; exact Hp]|].
    destruct (s_latest st =? op_head o); simpl; [split; [intros p Hp; exact Hp | intros p Hp; left; exact Hp]|].
    destruct (make_syncer w _ (op_addrs o) (op_discfail o)) as [[sy|] st1] eqn:Hm;
      destruct (make_syncer_frame _ _ _ _ _ _ Hm) as [_ [Hs _]]; simpl in Hs.
    + destruct (handle fx w seg (op_head o) (s_latest st1) (op_hookfail o) sy (net0 o) (s_store st1)) as [ok cnt hk sy' n' store'] eqn:Hh.
      destruct (handle_store _ _ _ _ _ _ _ _ _ _ Hh) as [_ [H5 [H6 _]]]. simpl in *. rewrite Hs in *.
      destruct ok; simpl; rewrite ?(proj1 (proj2 (afh_fields fx _))); simpl; (split; [exact H5|]); intros p Hp;
        (destruct (H6 p Hp) as [|[_ [a [np Hi]]]]; [left; assumption | right; exists a, np; apply -> in_rev; exact Hi]).
    + destruct (fx_announce fx); simpl; rewrite Hs; (split; [intros p Hp; exact Hp | intros p Hp; left; exact Hp]).
Qed.

Lemma segment_failure_count_zero_l : forall fx w seg h stop hf sy n store,
  h_ok (handle fx w seg h stop hf sy n store) = false ->
  h_count (handle fx w seg h stop hf sy n store) = 0.
Proof.
  intros fx w seg h stop hf sy n store H.
  destruct (handle_store fx w seg h stop hf sy n store _ eq_refl) as [_ [_ [_ [_ H0]]]]. auto.
Qed.

(* ---------------------------------------------------------------------------------- *)
(* Part 5: retry_converges                                                             *)

Local Arguments remove : simpl never.

Definition need (h L0 : nat) : list nat := if L0 =? h then [] else todo h L0.

(* every sync of the history is a sync of head h; a publisher reached through libp2p-HTTP
   discovery is announced with addresses that answer (the libp2p HTTP client binds itself
   to the first HTTP address and refuses every other one) *)
Definition wf_op (w : world) (h : nat) (o : op) : Prop :=
  op_head o = h /\ (w_kind w <> KPlain -> forall a, In a (op_addrs o) -> alive w a = true).

(* the publisher answers correctly again *)
Definition retry_ok (w : world) (h : nat) (r : op) : Prop :=
  wf_op w h r /\ op_faults r = [] /\ op_discfail r = false /\ op_hookfail r = None /\
  op_precancel r = false /\
  exists a, In a (op_addrs r) /\ alive w a = true.

Record HInv (w : world) (S0 : list nat) (L0 h : nat) (st : sstate) : Prop := {
  hi_sy : forall sy, s_syncer st = Some sy -> SyOk w sy;
  hi_s0 : sub S0 (s_store st);
  hi_st : forall p, In p (s_store st) -> In p S0 \/ In p (need h L0);
  hi_la : s_latest st = L0 \/ (s_latest st = h /\ sub (need h L0) (s_store st));
  hi_ca : forall x, In x (s_cache st) -> x = h /\ s_latest st = h
}.

Lemma hinv_init_max : forall w m S0 L0 h, HInv w S0 L0 h (init_max m S0 L0).
Proof.
  intros. constructor; simpl.
  - intros sy H. discriminate.
  - intros p Hp. exact Hp.
  - intros p Hp. left. exact Hp.
  - left. reflexivity.
  - intros x [].
Qed.

Lemma hinv_init : forall w S0 L0 h, HInv w S0 L0 h (init S0 L0).
Proof. intros. apply hinv_init_max. Qed.


Lemma new_syncer_ok : forall w l d c sy c',
  wf_world w -> (w_kind w <> KPlain -> forall a, In a l -> alive w a = true) ->
  new_syncer w l d c = (Some sy, c') -> SyOk w sy /\ sy_addrs sy = l.
Proof.
  intros w l d c sy c' Hw Hal H. unfold new_syncer in H. destruct l as [|a0 l]; [discriminate|].
  assert (Hnl : w_kind w <> KPlain -> w_legacy w = true -> False).
  { intros Hk Hl. apply Hk. apply Hw. exact Hl. }
  destruct (w_kind w) eqn:Hk.
  - inversion H; subst. split; [|reflexivity]. constructor; simpl.
    + discriminate.
    + tauto.
    + discriminate.
    + reflexivity.
    + discriminate.
  - assert (Hne : KP2PHttp <> KPlain) by discriminate.
    destruct (c || (alive w a0 && negb d)); inversion H; subst; (split; [|reflexivity]); constructor; simpl.
    + discriminate.
    + tauto.
    + discriminate.
    + intros Hl. exfalso. apply (Hnl Hne Hl).
    + intros a Ha. inversion Ha; subst. split; [apply (Hal Hne); left; reflexivity | left; reflexivity].
    + discriminate.
    + tauto.
    + discriminate.
    + reflexivity.
    + discriminate.
  - assert (Hne : KStream <> KPlain) by discriminate.
    destruct (c || negb d); inversion H; subst. split; [|reflexivity]. constructor; simpl.
    + discriminate.
    + tauto.
    + discriminate.
    + intros Hl. exfalso. apply (Hnl Hne Hl).
    + discriminate.
Qed.

Lemma make_syncer_ok : forall w st addrs d sy st1,
  wf_world w -> (forall sy0, s_syncer st = Some sy0 -> SyOk w sy0) ->
  (w_kind w <> KPlain -> forall a, In a addrs -> alive w a = true) ->
  make_syncer w st addrs d = (Some sy, st1) ->
  SyOk w sy /\ (forall a, In a (sy_addrs sy) <-> In a addrs).
Proof.
  intros w st addrs d sy st1 Hw Hsy Hal H. unfold make_syncer in H.
  assert (Hc : forall l, (forall a, In a l <-> In a addrs) ->
          (let '(osy0, c) := new_syncer w l d (s_disc st) in
              (osy0, {| s_latest := s_latest st; s_store := s_store st;
                        s_syncer := match osy0 with Some _ => osy0 | None => s_syncer st end;
                        s_cache := s_cache st; s_disc := c; s_slots := s_slots st; s_max := s_max st |})) = (Some sy, st1) ->
          SyOk w sy /\ (forall a, In a (sy_addrs sy) <-> In a addrs)).
  { intros l Hl Hn. destruct (new_syncer w l d (s_disc st)) as [o c] eqn:Hns. inversion Hn; subst.
    destruct (new_syncer_ok w l d (s_disc st) sy c Hw) as [Hok Ha]; auto.
    - intros Hk a Hi. apply (Hal Hk). apply Hl. exact Hi.
    - split; [exact Hok|]. rewrite Ha. exact Hl. }
  assert (Hid : forall a, In a addrs <-> In a addrs) by (intros; tauto).
  destruct (s_syncer st) as [sy0|] eqn:Hs; [|apply (Hc addrs Hid); exact H].
  destruct (negb (length (sy_addrs sy0) =? length addrs)); [apply (Hc addrs Hid); exact H|].
  destruct (length addrs <=? 1).
  - destruct (list_nat_eqb (sy_addrs sy0) addrs) eqn:He; [|apply (Hc addrs Hid); exact H].
    inversion H; subst. apply list_nat_eqb_eq in He. split; [apply Hsy; reflexivity|].
    rewrite He. intros; tauto.
  - destruct (list_nat_eqb (sort (sy_addrs sy0)) (sort addrs)) eqn:He.
    + inversion H; subst. apply list_nat_eqb_eq in He. split; [apply Hsy; reflexivity|].
      intros a. rewrite <- (In_sort a (sy_addrs sy)), He. apply In_sort.
    + apply (Hc (sort addrs)); [intros a; apply In_sort | exact H].
Qed.

Lemma make_syncer_some : forall w st addrs d,
  addrs <> [] -> (w_kind w = KStream -> d = false) ->
  exists sy st1, make_syncer w st addrs d = (Some sy, st1).
Proof.
  intros w st addrs d Hne Hd. unfold make_syncer.
  assert (Hc : forall l, l <> [] ->
          exists sy st1, (let '(osy0, c) := new_syncer w l d (s_disc st) in
              (osy0, {| s_latest := s_latest st; s_store := s_store st;
                        s_syncer := match osy0 with Some _ => osy0 | None => s_syncer st end;
                        s_cache := s_cache st; s_disc := c; s_slots := s_slots st; s_max := s_max st |})) = (Some sy, st1)).
  { intros l Hl. unfold new_syncer. destruct l as [|a0 l]; [congruence|].
    destruct (w_kind w) eqn:Hk.
    - eauto.
    - destruct (s_disc st || (alive w a0 && negb d)); eauto.
    - rewrite (Hd eq_refl). simpl. rewrite orb_true_r. eauto. }
  assert (Hsn : sort addrs <> []).
  { destruct addrs as [|a l]; [congruence|]. intros He.
    assert (Hi : In a (sort (a :: l))) by (apply In_sort; left; reflexivity). rewrite He in Hi. destruct Hi. }
  destruct (s_syncer st) as [sy0|]; [|apply Hc; exact Hne].
  destruct (negb (length (sy_addrs sy0) =? length addrs)); [apply Hc; exact Hne|].
  destruct (length addrs <=? 1).
  - destruct (list_nat_eqb (sy_addrs sy0) addrs); [eauto | apply Hc; exact Hne].
  - destruct (list_nat_eqb (sort (sy_addrs sy0)) (sort addrs)); [eauto | apply Hc; exact Hsn].
Qed.

Lemma HasGood_of : forall w sy,
  SyOk w sy -> (exists a, In a (sy_addrs sy) /\ alive w a = true) -> HasGood w sy.
Proof.
  intros w sy Hok [a [Hi Ha]]. unfold HasGood, good.
  destruct (sy_pinned sy) as [b|] eqn:Hp.
  - destruct (so_pin _ _ Hok b Hp) as [Hb Hib]. exists b. split; [exact Hib|].
    rewrite Hb. simpl. apply Nat.eqb_refl.
  - exists a. split; [apply (so_el _ _ Hok); exact Hi|]. rewrite Ha. reflexivity.
Qed.

Lemma HInv_frame : forall w S0 L0 h st st',
  HInv w S0 L0 h st -> s_latest st' = s_latest st -> s_store st' = s_store st ->
  s_cache st' = s_cache st -> (forall sy, s_syncer st' = Some sy -> SyOk w sy) ->
  HInv w S0 L0 h st'.
Proof.
  intros w S0 L0 h st st' [H1 H2 H3 H4 H5] Hl Hs Hc Hsy.
  constructor; rewrite ?Hl, ?Hs, ?Hc; assumption.
Qed.

(* the state after handle, given the invariant before and what handle guarantees *)
Lemma HInv_handled : forall w S0 L0 h st sy' store' cache' (ok : bool),
  HInv w S0 L0 h st -> s_latest st <> h ->
  SyOk w sy' -> sub (s_store st) store' ->
  (forall p, In p store' -> In p (s_store st) \/ In p (todo h (s_latest st))) ->
  (ok = true -> sub (todo h (s_latest st)) store') ->
  (forall x, In x cache' -> x = h /\ ok = true) ->
  HInv w S0 L0 h {| s_latest := if ok then h else s_latest st; s_store := store';
                    s_syncer := Some sy'; s_cache := cache'; s_disc := s_disc st; s_slots := s_slots st; s_max := s_max st |}.
Proof.
  intros w S0 L0 h st sy' store' cache' ok [H1 H2 H3 H4 H5] Hne Hsy Hsub Hin Hall Hca.
  assert (HL : s_latest st = L0) by (destruct H4 as [H4|[H4 _]]; [exact H4 | congruence]).
  assert (Hn : need h L0 = todo h L0).
  { unfold need. destruct (L0 =? h) eqn:E; [apply Nat.eqb_eq in E; congruence | reflexivity]. }
  rewrite HL in *. constructor; simpl.
  - intros sy E. inversion E; subst. exact Hsy.
  - intros p Hp. apply Hsub. apply H2. exact Hp.
  - intros p Hp. destruct (Hin p Hp) as [Hp'|Hp']; [apply H3; exact Hp' | right; rewrite Hn; exact Hp'].
  - destruct ok; [right | left; reflexivity]. split; [reflexivity|]. rewrite Hn. apply Hall. reflexivity.
  - intros x Hx. destruct (Hca x Hx) as [Hxh Hok]. subst ok. split; [exact Hxh | reflexivity].
Qed.

(* the slot of the async-sync semaphore: whatever a sync does - fail at any point, succeed,
   be dropped or skipped - the slots in use (and the limit) are afterwards what they were: a
   failed sync gives its slot back.  For EVERY state and op. *)
Lemma slot_returned_l : forall fx w seg o st,
  fx_slot fx = true ->
  s_slots (fst (step fx w seg o st)) = s_slots st /\ s_max (fst (step fx w seg o st)) = s_max st.
Proof.
  intros fx w seg o st Hfx. unfold step. destruct (op_mode o).
  - unfold sync_explicit.
    destruct (make_syncer w st (op_addrs o) (op_discfail o)) as [[sy|] st1] eqn:Hm;
      destruct (make_syncer_slots _ _ _ _ _ _ Hm) as [H1 H2]; [|simpl; auto].
    destruct (fetch fx w Head sy (net0 o)) as [[res sy1] n1]. destruct res; simpl; auto.
    destruct (s_latest st1 =? op_head o); simpl; auto. destruct (h_ok _); simpl; auto.
  - unfold sync_announce. destruct (mem (op_head o) (s_cache st)); simpl; auto.
    destruct (blocked _); simpl; auto.
    destruct (s_latest st =? op_head o); simpl; auto.
    destruct (make_syncer w _ (op_addrs o) (op_discfail o)) as [[sy|] st1] eqn:Hm;
      destruct (make_syncer_slots _ _ _ _ _ _ Hm) as [H1 H2]; simpl in H1, H2.
    + destruct (h_ok _); simpl; auto. unfold after_failed_handle. rewrite Hfx. simpl. auto.
    + destruct (fx_announce fx); simpl; auto.
Qed.

Lemma hinv_step : forall w seg S0 L0 h st o,
  wf_world w -> HInv w S0 L0 h st -> s_slots st = 0 -> wf_op w h o ->
  HInv w S0 L0 h (fst (step fx_fixed w seg o st)).
Proof.
  intros w seg S0 L0 h st o Hw Hinv Hsl [Hh Hal]. unfold step. destruct (op_mode o).
  - (* explicit *)
    unfold sync_explicit.
    destruct (make_syncer w st (op_addrs o) (op_discfail o)) as [[sy|] st1] eqn:Hm;
      destruct (make_syncer_frame _ _ _ _ _ _ Hm) as [Fl [Fs [Fc [Fy Fn]]]]; simpl.
    2:{ apply (HInv_frame w S0 L0 h st); auto. rewrite (Fn eq_refl). apply (hi_sy _ _ _ _ _ Hinv). }
    destruct (make_syncer_ok w st _ _ _ _ Hw (hi_sy _ _ _ _ _ Hinv) Hal Hm) as [Hok _].
    destruct (fetch fx_fixed w Head sy (net0 o)) as [[res sy1] n1] eqn:Hf.
    destruct (fetch_inv _ _ _ _ _ _ _ Hok Hf) as [Hok1 _].
    assert (Hsame : HInv w S0 L0 h (with_sync st1 sy1 (s_store st1) (s_latest st1) (s_cache st1))).
    { apply (HInv_frame w S0 L0 h st); simpl; auto. intros s E. inversion E; subst. exact Hok1. }
    destruct res; simpl; try exact Hsame.
    rewrite Hh. destruct (s_latest st1 =? h) eqn:El; simpl; [exact Hsame|].
    apply Nat.eqb_neq in El.
    destruct (handle fx_fixed w seg h (s_latest st1) (op_hookfail o) sy1 n1 (s_store st1)) as [ok cnt hk sy' n' store'] eqn:Hhd.
    destruct (handle_inv _ _ _ _ _ _ _ _ _ Hok1 Hhd) as [G1 [_ [_ [_ [G5 [G6 [G7 _]]]]]]]. simpl in *.
    rewrite Fl, Fs, Fc in *.
    pose proof (HInv_handled w S0 L0 h st sy' store' (s_cache st) ok Hinv El G1 G5) as HH.
    destruct ok; simpl; unfold with_sync; simpl.
    + replace (s_disc st1) with (s_disc st1) by reflexivity.
      assert (HI : HInv w S0 L0 h {| s_latest := h; s_store := store'; s_syncer := Some sy'; s_cache := s_cache st; s_disc := s_disc st; s_slots := s_slots st; s_max := s_max st |}).
      { apply HH; auto.
        - intros p Hp. destruct (G6 p Hp) as [|[Hi _]]; auto.
        - intros x Hx. destruct (hi_ca _ _ _ _ _ Hinv x Hx) as [Hx1 Hx2]. congruence. }
      destruct HI as [I1 I2 I3 I4 I5]. constructor; simpl; assumption.
    + assert (HI : HInv w S0 L0 h {| s_latest := s_latest st; s_store := store'; s_syncer := Some sy'; s_cache := s_cache st; s_disc := s_disc st; s_slots := s_slots st; s_max := s_max st |}).
      { apply HH; auto.
        - intros p Hp. destruct (G6 p Hp) as [|[Hi _]]; auto.
        - intros x Hx. destruct (hi_ca _ _ _ _ _ Hinv x Hx) as [Hx1 Hx2]. congruence. }
      destruct HI as [I1 I2 I3 I4 I5]. constructor; simpl; assumption.
  - (* announce *)
    unfold sync_announce. rewrite Hh.
    destruct (mem h (s_cache st)) eqn:Hmem; simpl; [exact Hinv|].
    rewrite (blocked_free st (h :: s_cache st) Hsl).
    destruct (s_latest st =? h) eqn:El; simpl.
    { apply Nat.eqb_eq in El. destruct Hinv as [I1 I2 I3 I4 I5]. constructor; simpl; auto.
      intros x [Hx|Hx]; [subst; auto | apply I5; exact Hx]. }
    apply Nat.eqb_neq in El.
    assert (Hnc : forall x, In x (s_cache st) -> False).
    { intros x Hx. destruct (hi_ca _ _ _ _ _ Hinv x Hx) as [_ Hx2]. congruence. }
    set (st0 := set_cache st (h :: s_cache st)).
    destruct (make_syncer w st0 (op_addrs o) (op_discfail o)) as [[sy|] st1] eqn:Hm;
      destruct (make_syncer_frame _ _ _ _ _ _ Hm) as [Fl [Fs [Fc [Fy Fn]]]]; simpl in Fl, Fs, Fc.
    + destruct (make_syncer_ok w st0 _ _ _ _ Hw (hi_sy _ _ _ _ _ Hinv) Hal Hm) as [Hok _].
      destruct (handle fx_fixed w seg h (s_latest st1) (op_hookfail o) sy (net0 o) (s_store st1)) as [ok cnt hk sy' n' store'] eqn:Hhd.
      destruct (handle_inv _ _ _ _ _ _ _ _ _ Hok Hhd) as [G1 [_ [_ [_ [G5 [G6 [G7 _]]]]]]]. simpl in *.
      rewrite Fl, Fs, Fc in *.
      destruct ok; simpl; unfold after_failed_handle, with_sync; simpl.
      * assert (HI : HInv w S0 L0 h {| s_latest := h; s_store := store'; s_syncer := Some sy'; s_cache := h :: s_cache st; s_disc := s_disc st; s_slots := s_slots st; s_max := s_max st |}).
        { apply (HInv_handled w S0 L0 h st sy' store' (h :: s_cache st) true); auto.
          - intros p Hp. destruct (G6 p Hp) as [|[Hi _]]; auto.
          - intros x [Hx|Hx]; [subst; auto | exfalso; eapply Hnc; eauto]. }
        destruct HI as [I1 I2 I3 I4 I5]. constructor; simpl; assumption.
      * assert (HI : HInv w S0 L0 h {| s_latest := s_latest st; s_store := store'; s_syncer := Some sy';
                                      s_cache := remove h (h :: s_cache st); s_disc := s_disc st; s_slots := s_slots st; s_max := s_max st |}).
        { apply (HInv_handled w S0 L0 h st sy' store' (remove h (h :: s_cache st)) false); auto.
          - intros p Hp. destruct (G6 p Hp) as [|[Hi _]]; auto.
          - intros x Hx. exfalso. pose proof (In_remove_sub _ _ _ Hx) as Hx'.
            destruct Hx' as [Hx'|Hx']; [subst; eapply In_remove; eauto | eapply Hnc; eauto]. }
        destruct HI as [I1 I2 I3 I4 I5]. constructor; simpl; assumption.
    + cbn [fx_announce fx_fixed]. simpl. unfold set_cache. simpl. rewrite Fc.
      destruct Hinv as [I1 I2 I3 I4 I5]. constructor; simpl; rewrite ?Fl, ?Fs; auto.
      * rewrite (Fn eq_refl). exact I1.
      * intros x Hx. exfalso. pose proof (In_remove_sub _ _ _ Hx) as Hx'.
        destruct Hx' as [Hx'|Hx']; [subst; eapply In_remove; eauto | eapply Hnc; eauto].
Qed.

Lemma hinv_run : forall w seg S0 L0 h ops st,
  wf_world w -> HInv w S0 L0 h st -> s_slots st = 0 -> Forall (wf_op w h) ops ->
  HInv w S0 L0 h (run fx_fixed w seg ops st) /\ s_slots (run fx_fixed w seg ops st) = 0.
Proof.
  intros w seg S0 L0 h ops. induction ops as [|o ops IH]; intros st Hw Hinv Hsl Hall; simpl; [auto|].
  inversion Hall; subst. apply IH; auto.
  - apply hinv_step; auto.
  - rewrite (proj1 (slot_returned_l fx_fixed w seg o st eq_refl)). exact Hsl.
Qed.

Lemma store_done : forall w S0 L0 h st,
  HInv w S0 L0 h st -> s_latest st = h ->
  forall p, In p (s_store st) <-> In p S0 \/ In p (need h L0).
Proof.
  intros w S0 L0 h st [I1 I2 I3 I4 I5] Hl p. split; [apply I3|].
  intros [Hp|Hp]; [apply I2; exact Hp|].
  destruct I4 as [I4|[_ I4]]; [|apply I4; exact Hp].
  unfold need in Hp. rewrite <- I4, Hl, Nat.eqb_refl in Hp. destruct Hp.
Qed.

Lemma clean_net0 : forall r, op_faults r = [] -> op_precancel r = false -> clean (net0 r).
Proof. intros r H H2. unfold clean, net0. simpl. auto. Qed.

(* the fault-free retry, from any state the invariant allows *)
Lemma retry_from_inv : forall w seg S0 L0 h st r,
  wf_world w -> HInv w S0 L0 h st -> s_slots st = 0 -> retry_ok w h r ->
  let st' := fst (step fx_fixed w seg r st) in
  failed (o_res (snd (step fx_fixed w seg r st))) = false /\
  s_latest st' = h /\ (forall p, In p (s_store st') <-> In p S0 \/ In p (need h L0)).
Proof.
  intros w seg S0 L0 h st r Hw Hinv Hsl [[Hh Hal] [Hf [Hd [Hhf [Hpc [a [Hia Haa]]]]]]].
  assert (Hne : op_addrs r <> []) by (intros E; rewrite E in Hia; destruct Hia).
  assert (Hds : w_kind w = KStream -> op_discfail r = false) by (intros; exact Hd).
  (* what the sync proper does, from a state whose latest-sync is not h *)
  assert (Hsync : forall st0 sy n, s_latest st0 = s_latest st -> s_store st0 = s_store st ->
            s_latest st <> h -> SyOk w sy -> HasGood w sy -> clean n ->
            let rr := handle fx_fixed w seg h (s_latest st0) (op_hookfail r) sy n (s_store st0) in
            h_ok rr = true /\ (forall p, In p (h_store rr) <-> In p S0 \/ In p (need h L0))).
  { intros st0 sy n El Es Hneq Hok Hg Hc. rewrite Hhf, El, Es. cbv zeta. split; [apply handle_clean; auto|].
    destruct (handle_inv w seg h (s_latest st) None sy n (s_store st) _ Hok eq_refl) as [_ [_ [_ [_ [G5 [G6 [G7 _]]]]]]].
    pose proof (handle_clean w seg h (s_latest st) sy n (s_store st) Hw Hok Hc Hg) as Hk.
    destruct Hinv as [I1 I2 I3 I4 I5].
    assert (HL : s_latest st = L0) by (destruct I4 as [I4|[I4 _]]; [exact I4 | congruence]).
    assert (Hn : need h L0 = todo h L0).
    { unfold need. destruct (L0 =? h) eqn:E; [apply Nat.eqb_eq in E; congruence | reflexivity]. }
    intros p. split.
    - intros Hp. destruct (G6 p Hp) as [Hp'|[Hp' _]]; [apply I3; exact Hp' | right; rewrite Hn, <- HL; exact Hp'].
    - intros [Hp|Hp]; [apply G5; apply I2; exact Hp | apply (G7 Hk); rewrite HL, <- Hn; exact Hp]. }
  unfold step. destruct (op_mode r).
  - (* explicit *)
    unfold sync_explicit.
    destruct (make_syncer_some w st (op_addrs r) (op_discfail r) Hne Hds) as [sy [st1 Hm]]. rewrite Hm.
    destruct (make_syncer_frame _ _ _ _ _ _ Hm) as [Fl [Fs [Fc _]]].
    destruct (make_syncer_ok w st _ _ _ _ Hw (hi_sy _ _ _ _ _ Hinv) Hal Hm) as [Hok Hel].
    assert (Hg : HasGood w sy) by (apply HasGood_of; [exact Hok | exists a; split; [apply Hel; exact Hia | exact Haa]]).
    destruct (fetch_clean w Head sy (net0 r) Hw Hok (clean_net0 r Hf Hpc) Hg) as [sy1 [n1 [Hft Hc1]]]. rewrite Hft.
    destruct (fetch_inv _ _ _ _ _ _ _ Hok Hft) as [Hok1 [A1 [A2 _]]].
    rewrite Hh. destruct (s_latest st1 =? h) eqn:El; simpl.
    + apply Nat.eqb_eq in El. split; [reflexivity|]. split; [exact El|]. rewrite Fs. apply (store_done w S0 L0 h st Hinv). congruence.
    + apply Nat.eqb_neq in El.
      assert (Hg1 : HasGood w sy1) by (apply (HasGood_transfer w sy sy1); assumption).
      destruct (Hsync st1 sy1 n1 Fl Fs ltac:(congruence) Hok1 Hg1 Hc1) as [Hk Hst]. rewrite Hk. simpl.
      split; [reflexivity | split; [reflexivity | exact Hst]].
  - (* announce-triggered *)
    unfold sync_announce. rewrite Hh.
    destruct (mem h (s_cache st)) eqn:Hmem; simpl.
    { apply mem_In in Hmem. destruct (hi_ca _ _ _ _ _ Hinv h Hmem) as [_ Hl]. split; [reflexivity|]. split; [exact Hl|].
      apply (store_done w S0 L0 h st Hinv Hl). }
    rewrite (blocked_free st (h :: s_cache st) Hsl).
    destruct (s_latest st =? h) eqn:El; simpl.
    { apply Nat.eqb_eq in El. split; [reflexivity|]. split; [exact El | apply (store_done w S0 L0 h st Hinv El)]. }
    apply Nat.eqb_neq in El.
    set (st0 := set_cache st (h :: s_cache st)).
    destruct (make_syncer_some w st0 (op_addrs r) (op_discfail r) Hne Hds) as [sy [st1 Hm]]. rewrite Hm.
    destruct (make_syncer_frame _ _ _ _ _ _ Hm) as [Fl [Fs [Fc _]]]. simpl in Fl, Fs, Fc.
    destruct (make_syncer_ok w st0 _ _ _ _ Hw (hi_sy _ _ _ _ _ Hinv) Hal Hm) as [Hok Hel].
    assert (Hg : HasGood w sy) by (apply HasGood_of; [exact Hok | exists a; split; [apply Hel; exact Hia | exact Haa]]).
    destruct (Hsync st1 sy (net0 r) Fl Fs El Hok Hg (clean_net0 r Hf Hpc)) as [Hk Hst]. rewrite Hk. simpl.
    split; [reflexivity | split; [reflexivity | exact Hst]].
Qed.

(* after ANY history of syncs of head h (any faults, any number of failed syncs, either
   mode), a fault-free sync of h ends with latest-sync = h and exactly the store that the
   same sync yields on a fresh subscriber; for any MaxAsyncConcurrency m (0 = none) *)
Theorem retry_converges_max_l : forall w seg m S0 L0 h ops r,
  wf_world w -> Forall (wf_op w h) ops -> retry_ok w h r ->
  let st1 := fst (step fx_fixed w seg r (run fx_fixed w seg ops (init_max m S0 L0))) in
  let st0 := fst (step fx_fixed w seg r (init_max m S0 L0)) in
  failed (o_res (snd (step fx_fixed w seg r (run fx_fixed w seg ops (init_max m S0 L0))))) = false /\
  s_latest st1 = h /\ s_latest st0 = h /\ (forall p, In p (s_store st1) <-> In p (s_store st0)) /\
  s_slots st1 = 0.
Proof.
  intros w seg m S0 L0 h ops r Hw Hops Hr.
  destruct (hinv_run w seg S0 L0 h ops (init_max m S0 L0) Hw (hinv_init_max w m S0 L0 h) eq_refl Hops) as [H1 H1s].
  destruct (retry_from_inv w seg S0 L0 h _ r Hw H1 H1s Hr) as [A0 [A1 A2]].
  destruct (retry_from_inv w seg S0 L0 h _ r Hw (hinv_init_max w m S0 L0 h) eq_refl Hr) as [_ [B1 B2]].
  cbv zeta. split; [exact A0 | split; [exact A1 | split; [exact B1 | split]]].
  - intros p. rewrite A2, B2. tauto.
  - rewrite (proj1 (slot_returned_l fx_fixed w seg r _ eq_refl)). exact H1s.
Qed.

Theorem retry_converges_l : forall w seg S0 L0 h ops r,
  wf_world w -> Forall (wf_op w h) ops -> retry_ok w h r ->
  let st1 := fst (step fx_fixed w seg r (run fx_fixed w seg ops (init S0 L0))) in
  let st0 := fst (step fx_fixed w seg r (init S0 L0)) in
  failed (o_res (snd (step fx_fixed w seg r (run fx_fixed w seg ops (init S0 L0))))) = false /\
  s_latest st1 = h /\ s_latest st0 = h /\ (forall p, In p (s_store st1) <-> In p (s_store st0)).
Proof.
  intros w seg S0 L0 h ops r Hw Hops Hr.
  destruct (retry_converges_max_l w seg 0 S0 L0 h ops r Hw Hops Hr) as [A [B [C [D _]]]].
  cbv zeta. auto.
Qed.

(* the invariant retry_converges rests on, as a statement of its own: whatever failed
   before, the syncer the subscriber keeps for the publisher still addresses it *)
Lemma reused_syncer_addresses_publisher_l : forall w seg S0 L0 h ops sy,
  wf_world w -> Forall (wf_op w h) ops ->
  s_syncer (run fx_fixed w seg ops (init S0 L0)) = Some sy -> SyOk w sy.
Proof.
  intros w seg S0 L0 h ops sy Hw Hops H.
  destruct (hinv_run w seg S0 L0 h ops (init S0 L0) Hw (hinv_init w S0 L0 h) eq_refl Hops) as [H1 _].
  apply (hi_sy _ _ _ _ _ H1). exact H.
Qed.

(* the slots in use after any history: none *)
Lemma no_slot_in_use_l : forall w seg m S0 L0 ops,
  s_slots (run fx_fixed w seg ops (init_max m S0 L0)) = 0.
Proof.
  intros w seg m S0 L0 ops. assert (H : forall st, s_slots st = 0 -> s_slots (run fx_fixed w seg ops st) = 0).
  { induction ops as [|o ops IH]; intros st Hs; simpl; [exact Hs|]. apply IH.
    rewrite (proj1 (slot_returned_l fx_fixed w seg o st eq_refl)). exact Hs. }
  apply H. reflexivity.
Qed.

(* ---------------------------------------------------------------------------------- *)
(* Part 6: the code before the fixes (each fix is needed), and non-vacuity              *)

Definition fx_without_nopath := {| fx_nopath := false; fx_rotate := true; fx_announce := true; fx_slot := true |}.
Definition fx_without_rotate := {| fx_nopath := true; fx_rotate := false; fx_announce := true; fx_slot := true |}.
Definition fx_without_announce := {| fx_nopath := true; fx_rotate := true; fx_announce := false; fx_slot := true |}.
Definition fx_slot_kept_on_failure := {| fx_nopath := true; fx_rotate := true; fx_announce := true; fx_slot := false |}.

Definition op_e (addrs : list nat) (h : nat) (faults : list fault) : op :=
  {| op_mode := Explicit; op_addrs := addrs; op_head := h; op_faults := faults; op_discfail := false; op_hookfail := None; op_precancel := false |}.
Definition op_a (addrs : list nat) (h : nat) (faults : list fault) (discfail : bool) : op :=
  {| op_mode := Announce; op_addrs := addrs; op_head := h; op_faults := faults; op_discfail := discfail; op_hookfail := None; op_precancel := false |}.

Definition w_plain (al : list bool) := {| w_kind := KPlain; w_legacy := false; w_alive := al |}.
Definition w_p2p (al : list bool) := {| w_kind := KP2PHttp; w_legacy := false; w_alive := al |}.
Definition w_stream (al : list bool) := {| w_kind := KStream; w_legacy := false; w_alive := al |}.

Lemma wf_world_nolegacy : forall k al, wf_world {| w_kind := k; w_legacy := false; w_alive := al |}.
Proof. intros k al H. discriminate. Qed.

Ltac wf_plain := split; [reflexivity | intros Hk; exfalso; apply Hk; reflexivity].
Ltac wf_alive := split; [reflexivity | intros _ a Ha; simpl in Ha; repeat (destruct Ha as [Ha|Ha]; [subst; reflexivity|]); destruct Ha].

(* D1: one 404 on a plain-HTTP publisher; the retry then asks "/head" and is refused *)
Lemma retry_converges_v0_nopath_refuted :
  let w := w_plain [true] in
  let ops := [op_e [0] 1 [FOk; FNotFound]] in
  let r := op_e [0] 1 [] in
  wf_world w /\ Forall (wf_op w 1) ops /\ retry_ok w 1 r /\
  o_res (snd (step fx_without_nopath w 0 r (run fx_without_nopath w 0 ops (init [] 0)))) = RExpErr /\
  o_log (snd (step fx_without_nopath w 0 r (run fx_without_nopath w 0 ops (init [] 0)))) = [(0, true, Head, Some FOk)] /\
  s_latest (fst (step fx_without_nopath w 0 r (run fx_without_nopath w 0 ops (init [] 0)))) = 0 /\
  s_latest (fst (step fx_without_nopath w 0 r (init [] 0))) = 1 /\
  s_latest (fst (step fx_v0 w 0 r (run fx_v0 w 0 ops (init [] 0)))) = 0.
Proof.
  cbv zeta. split; [apply wf_world_nolegacy|]. split; [repeat (apply Forall_cons; [wf_plain|]); apply Forall_nil|].
  split; [split; [wf_plain|]; repeat split; try reflexivity; exists 0; split; [left|]; reflexivity|].
  vm_compute. repeat split.
Qed.

(* D2: two addresses, the second one dead; one transport error on the first *)
Lemma retry_converges_v0_urls_refuted :
  let w := w_plain [true; false] in
  let ops := [op_e [0; 1] 1 [FTransport]] in
  let r := op_e [0; 1] 1 [] in
  wf_world w /\ Forall (wf_op w 1) ops /\ retry_ok w 1 r /\
  o_res (snd (step fx_without_rotate w 0 r (run fx_without_rotate w 0 ops (init [] 0)))) = RExpErr /\
  o_log (snd (step fx_without_rotate w 0 r (run fx_without_rotate w 0 ops (init [] 0)))) = [(1, false, Head, None)] /\
  s_latest (fst (step fx_without_rotate w 0 r (run fx_without_rotate w 0 ops (init [] 0)))) = 0 /\
  s_latest (fst (step fx_without_rotate w 0 r (init [] 0))) = 1 /\
  s_latest (fst (step fx_v0 w 0 r (run fx_v0 w 0 ops (init [] 0)))) = 0.
Proof.
  cbv zeta. split; [apply wf_world_nolegacy|]. split; [repeat (apply Forall_cons; [wf_plain|]); apply Forall_nil|].
  split; [split; [wf_plain|]; repeat split; try reflexivity; exists 0; split; [left|]; reflexivity|].
  vm_compute. repeat split.
Qed.

(* D2 on a libp2phttp publisher with two (healthy) HTTP addresses: no request even leaves
   the client any more *)
Lemma retry_converges_v0_urls_p2phttp_refuted :
  let w := w_p2p [true; true] in
  let ops := [op_e [0; 1] 2 [FOk; FStallHdr]] in
  let r := op_e [0; 1] 2 [] in
  wf_world w /\ Forall (wf_op w 2) ops /\ retry_ok w 2 r /\
  o_res (snd (step fx_without_rotate w 0 r (run fx_without_rotate w 0 ops (init [] 0)))) = RExpErr /\
  o_log (snd (step fx_without_rotate w 0 r (run fx_without_rotate w 0 ops (init [] 0)))) = [] /\
  s_latest (fst (step fx_without_rotate w 0 r (init [] 0))) = 2.
Proof.
  cbv zeta. split; [apply wf_world_nolegacy|]. split; [repeat (apply Forall_cons; [wf_alive|]); apply Forall_nil|].
  split; [split; [wf_alive|]; repeat split; try reflexivity; exists 0; split; [left|]; reflexivity|].
  vm_compute. repeat split.
Qed.

(* D3: the syncer cannot be made when the announcement arrives (discovery fails): no
   notification, the CID stays in the duplicate filter, the same announcement is dropped *)
Lemma async_failure_v0_makesyncer_refuted :
  let w := w_stream [true] in
  let o := op_a [0] 1 [] true in
  let r := op_a [0] 1 [] false in
  wf_world w /\ wf_op w 1 o /\ retry_ok w 1 r /\
  o_res (snd (step fx_without_announce w 0 o (init [] 0))) = RAnnSilent /\
  o_events (snd (step fx_without_announce w 0 o (init [] 0))) = [] /\
  In 1 (s_cache (fst (step fx_without_announce w 0 o (init [] 0)))) /\
  o_res (snd (step fx_without_announce w 0 r (run fx_without_announce w 0 [o] (init [] 0)))) = RAnnDropped /\
  s_latest (fst (step fx_without_announce w 0 r (run fx_without_announce w 0 [o] (init [] 0)))) = 0 /\
  s_latest (fst (step fx_without_announce w 0 r (init [] 0))) = 1.
Proof.
  cbv zeta. split; [apply wf_world_nolegacy|]. split; [wf_alive|].
  split; [split; [wf_alive|]; repeat split; try reflexivity; exists 0; split; [left|]; reflexivity|].
  vm_compute. repeat split. left. reflexivity.
Qed.

(* a variant that gives the slot back only after a successful sync (MaxAsyncConcurrency 1):
   one failed announce-triggered sync - which itself looks right: one error event, CID
   un-cached - and the healthy re-announcement never starts *)
Lemma slot_kept_on_failure_refuted :
  let w := w_plain [true] in
  let o := op_a [0] 1 [FStatus 500] false in
  let r := op_a [0] 1 [] false in
  wf_world w /\ wf_op w 1 o /\ retry_ok w 1 r /\
  o_events (snd (step fx_slot_kept_on_failure w 0 o (init_max 1 [] 0))) = [EvErr 1 0] /\
  s_cache (fst (step fx_slot_kept_on_failure w 0 o (init_max 1 [] 0))) = [] /\
  s_slots (fst (step fx_slot_kept_on_failure w 0 o (init_max 1 [] 0))) = 1 /\
  o_res (snd (step fx_slot_kept_on_failure w 0 r (run fx_slot_kept_on_failure w 0 [o] (init_max 1 [] 0)))) = RAnnBlocked /\
  o_events (snd (step fx_slot_kept_on_failure w 0 r (run fx_slot_kept_on_failure w 0 [o] (init_max 1 [] 0)))) = [] /\
  s_latest (fst (step fx_slot_kept_on_failure w 0 r (run fx_slot_kept_on_failure w 0 [o] (init_max 1 [] 0)))) = 0 /\
  s_latest (fst (step fx_fixed w 0 r (run fx_fixed w 0 [o] (init_max 1 [] 0)))) = 1.
Proof.
  cbv zeta. split; [apply wf_world_nolegacy|]. split; [wf_plain|].
  split; [split; [wf_plain|]; repeat split; try reflexivity; exists 0; split; [left|]; reflexivity|].
  vm_compute. repeat split.
Qed.

(* Non-vacuity: histories meeting the hypotheses of the theorems, on the repaired code *)
Example ex_failed_sync :
  let w := w_plain [true] in
  let o := op_e [0] 3 [FOk; FOk; FCorrupt] in
  failed (o_res (snd (step fx_fixed w 0 o (init [] 0)))) = true /\
  s_store (fst (step fx_fixed w 0 o (init [] 0))) = [3] /\
  o_events (snd (step fx_fixed w 0 o (init [] 0))) = [].
Proof. vm_compute. repeat split. Qed.

Example ex_async_failure_segmented_hook :
  let w := w_stream [true] in
  let o := {| op_mode := Announce; op_addrs := [0]; op_head := 3; op_faults := []; op_discfail := false; op_hookfail := Some (HFail 1); op_precancel := false |} in
  o_res (snd (step fx_fixed w 2 o (init [] 0))) = RAnnErr /\
  o_events (snd (step fx_fixed w 2 o (init [] 0))) = [EvErr 3 0] /\
  o_hooks (snd (step fx_fixed w 2 o (init [] 0))) = [3; 2] /\
  s_store (fst (step fx_fixed w 2 o (init [] 0))) = [2; 3] /\
  s_cache (fst (step fx_fixed w 2 o (init [] 0))) = [].
Proof. vm_compute. repeat split. Qed.

Example ex_retry_converges :
  let w := w_plain [true; false] in
  let ops := [op_e [0; 1] 3 [FOk; FNotFound]; op_a [0; 1] 3 [FOk; FTransport] false; op_e [0; 1] 3 [FOk; FOk; FStallBody]] in
  let r := op_a [0; 1] 3 [] false in
  Forall (wf_op w 3) ops /\ retry_ok w 3 r /\
  s_latest (run fx_fixed w 1 ops (init [] 0)) = 0 /\
  s_store (run fx_fixed w 1 ops (init [] 0)) = [2; 3] /\
  o_res (snd (step fx_fixed w 1 r (run fx_fixed w 1 ops (init [] 0)))) = RAnnOk /\
  o_events (snd (step fx_fixed w 1 r (run fx_fixed w 1 ops (init [] 0)))) = [EvOk 3 3] /\
  s_latest (fst (step fx_fixed w 1 r (run fx_fixed w 1 ops (init [] 0)))) = 3.
Proof.
  cbv zeta. split; [repeat (apply Forall_cons; [wf_plain|]); apply Forall_nil|].
  split; [split; [wf_plain|]; repeat split; try reflexivity; exists 0; split; [left|]; reflexivity|].
  vm_compute. repeat split.
Qed.

Example ex_legacy_publisher_still_served :
  let w := {| w_kind := KPlain; w_legacy := true; w_alive := [true] |} in
  o_res (snd (step fx_fixed w 0 (op_e [0] 2 []) (init [] 0))) = RExpOk 2 /\
  o_log (snd (step fx_fixed w 0 (op_e [0] 2 []) (init [] 0))) =
    [(0, false, Head, Some FOk); (0, true, Head, Some FOk); (0, true, Blk 2, Some FOk); (0, true, Blk 1, Some FOk)].
Proof. vm_compute. repeat split. Qed.
