(* C04 — proofs.  Part 1: lists, the exchange, Syncer.fetch. *)
From Coq Require Import List Bool Arith NArith Lia.
From Model Require Import C04_SyncFailure.
Import ListNotations.

Local Open Scope nat_scope.

(* ---------------------------------------------------------------------------------- *)
(* lists                                                                               *)

Lemma mem_In : forall p l, mem p l = true <-> In p l.
Proof.
  intros p l. unfold mem. rewrite existsb_exists. split.
  - intros [x [Hx He]]. apply Nat.eqb_eq in He. subst. exact Hx.
  - intros H. exists p. split; [exact H | apply Nat.eqb_refl].
Qed.

Lemma mem_false_In : forall p l, mem p l = false -> ~ In p l.
Proof. intros p l H Hi. apply mem_In in Hi. congruence. Qed.

Lemma In_insert : forall a x l, In x (insert a l) <-> x = a \/ In x l.
Proof.
  intros a x l. induction l as [|b l IH]; simpl.
  - intuition.
  - destruct (a <=? b); simpl; [intuition|]. rewrite IH. intuition.
Qed.

Lemma In_sort : forall x l, In x (sort l) <-> In x l.
Proof.
  intros x l. induction l as [|a l IH]; simpl; [tauto|].
  rewrite In_insert, IH. intuition.
Qed.

Lemma list_nat_eqb_eq : forall a b, list_nat_eqb a b = true -> a = b.
Proof.
  unfold list_nat_eqb. induction a as [|x a IH]; intros [|y b] H; simpl in *;
    try reflexivity; try discriminate.
  apply andb_true_iff in H. destruct H as [Hl H].
  apply andb_true_iff in H. destruct H as [Hxy H].
  apply Nat.eqb_eq in Hxy. subst. f_equal. apply IH.
  apply andb_true_iff. split; assumption.
Qed.

Lemma In_remove : forall h l, ~ In h (remove h l).
Proof.
  intros h l H. unfold remove in H. apply filter_In in H. destruct H as [_ H].
  rewrite Nat.eqb_refl in H. discriminate.
Qed.

Lemma In_remove_sub : forall x h l, In x (remove h l) -> In x l.
Proof. intros x h l H. unfold remove in H. apply filter_In in H. tauto. Qed.

Lemma concat_chunk_aux : forall d l k cur, concat (chunk_aux d k cur l) = rev cur ++ l.
Proof.
  intros d l. induction l as [|x l IH]; intros k cur; simpl.
  - destruct cur; simpl; [reflexivity|]. rewrite app_nil_r. reflexivity.
  - destruct k as [|[|k]]; simpl; rewrite IH; simpl; rewrite <- ?app_assoc; reflexivity.
Qed.

Lemma concat_segments : forall seg l, concat (segments seg l) = l.
Proof.
  intros [|seg] l; unfold segments.
  - simpl. apply app_nil_r.
  - rewrite concat_chunk_aux. reflexivity.
Qed.

(* ---------------------------------------------------------------------------------- *)
(* the exchange                                                                        *)

Definition log_ext (n n' : net) : Prop := exists l, n_log n' = l ++ n_log n.

Lemma log_ext_refl : forall n, log_ext n n.
Proof. intros n. exists []. reflexivity. Qed.

Lemma log_ext_trans : forall a b c, log_ext a b -> log_ext b c -> log_ext a c.
Proof.
  intros a b c [l1 H1] [l2 H2]. exists (l2 ++ l1). rewrite H2, H1. apply app_assoc.
Qed.

Lemma log_ext_In : forall n n' q, log_ext n n' -> In q (n_log n) -> In q (n_log n').
Proof. intros n n' q [l H] Hi. rewrite H. apply in_or_app. right. exact Hi. Qed.

Lemma exchange_log : forall w pin a np r n x n',
  exchange w pin a np r n = (x, n') -> log_ext n n'.
Proof.
  intros w pin a np r n x n' H. unfold exchange in H.
  destruct (n_cancelled n); [inversion H; apply log_ext_refl|].
  destruct (negb (pin_ok pin a)); [inversion H; apply log_ext_refl|].
  destruct (negb (alive w a)); inversion H; subst; simpl.
  - exists [(a, np, r, None)]. reflexivity.
  - exists [(a, np, r, Some (hd FOk (n_script n)))]. reflexivity.
Qed.

(* the callback succeeds only on the publisher's genuine answer, un-faulted *)
Lemma apply_fault_good : forall f g, apply_fault f g = XOkGood -> f = FOk /\ g = XOkGood.
Proof. intros f g H. destruct f; simpl in H; try discriminate; [tauto | destruct g; discriminate ..]. Qed.

Lemma genuine_cases : forall w np, genuine w np = XOkGood \/ exists c, genuine w np = XStatus c.
Proof.
  intros w np. unfold genuine. destruct (w_legacy w), np; eauto.
Qed.

Lemma apply_fault_200 : forall f w np,
  apply_fault f (genuine w np) = XOkGood \/ apply_fault f (genuine w np) = XOkBad ->
  genuine w np = XOkGood.
Proof.
  intros f w np H. destruct (genuine_cases w np) as [Hg|[c Hg]]; [exact Hg|].
  rewrite Hg in H. destruct H as [H|H]; destruct f; simpl in H; discriminate.
Qed.

Lemma exchange_good : forall w pin a np r n n',
  exchange w pin a np r n = (XOkGood, n') ->
  genuine w np = XOkGood /\ n_log n' = (a, np, r, Some FOk) :: n_log n.
Proof.
  intros w pin a np r n n' H. unfold exchange in H.
  destruct (n_cancelled n); [discriminate|].
  destruct (negb (pin_ok pin a)); [discriminate|].
  destruct (negb (alive w a)); [discriminate|].
  inversion H as [[Hx Hn]]. apply apply_fault_good in Hx. destruct Hx as [Hf Hg].
  rewrite Hf. simpl. tauto.
Qed.

Lemma exchange_200_nopath_legacy : forall w pin a r n x n',
  exchange w pin a true r n = (x, n') -> x = XOkGood \/ x = XOkBad -> w_legacy w = true.
Proof.
  intros w pin a r n x n' H Hx. unfold exchange in H.
  destruct (n_cancelled n); [inversion H; subst; destruct Hx; discriminate|].
  destruct (negb (pin_ok pin a)); [inversion H; subst; destruct Hx; discriminate|].
  destruct (negb (alive w a)); [inversion H; subst; destruct Hx; discriminate|].
  inversion H as [[Hr Hn]]. rewrite <- Hr in Hx. apply apply_fault_200 in Hx.
  unfold genuine in Hx. destruct (w_legacy w); [reflexivity|].
  destruct (w_kind w); discriminate.
Qed.

(* ---------------------------------------------------------------------------------- *)
(* fetch: the fuel is enough                                                           *)

Definition b2n (b : bool) : nat := if b then 1 else 0.

Definition mu (fx : fixes) (sy : syncer) (done_retry try_nopath : bool) (tried : nat) : nat :=
  2 * (if fx_rotate fx then length (sy_urls sy) - 1 - tried else length (sy_urls sy) - 1)
  + 2 * b2n (sy_plain sy && negb (sy_nopath sy) && negb try_nopath)
  + b2n (negb done_retry).

Lemma fetch_loop_fuel : forall fx w fuel r sy n d t tried,
  mu fx sy d t tried < fuel ->
  fst (fst (fetch_loop fx w fuel r sy n d t tried)) <> FetchOutOfFuel.
Proof.
  intros fx w fuel. induction fuel as [|fuel IH]; intros r sy n d t tried Hmu; [lia|].
  simpl. destruct (exchange w (sy_pinned sy) (hd 0 (sy_urls sy)) (sy_nopath sy || t) r n) as [x n1].
  destruct x as [reset| c | |]; try (simpl; discriminate).
  - (* client.Do failed *)
    destruct (can_failover fx sy tried) eqn:Hc.
    + apply IH. unfold mu in *. unfold can_failover, failover in *.
      destruct (sy_urls sy) as [|a rest] eqn:Hu; simpl in *.
      * destruct (fx_rotate fx); simpl in Hc; [apply Nat.ltb_lt in Hc; lia | discriminate].
      * destruct (fx_rotate fx); simpl in *.
        -- apply Nat.ltb_lt in Hc. rewrite app_length. simpl.
           destruct (sy_plain sy && negb (sy_nopath sy) && negb t), d; simpl in *; lia.
        -- destruct rest as [|b rest]; simpl in *; [discriminate|].
           destruct (sy_plain sy && negb (sy_nopath sy) && negb t), d; simpl in *; lia.
    + destruct (negb d && reset) eqn:Hr; [|simpl; discriminate].
      apply IH. apply andb_true_iff in Hr. destruct Hr as [Hd _]. destruct d; [discriminate|].
      unfold mu in *. simpl in *. lia.
  - (* a status *)
    destruct ((c =? 404)%N || (c =? 403)%N); [|simpl; discriminate].
    destruct (sy_plain sy && negb (sy_nopath sy) && negb t) eqn:Hp; [|simpl; discriminate].
    destruct (fx_nopath fx); apply IH; unfold mu in *; rewrite Hp in Hmu; simpl in *.
    + rewrite !andb_false_r. simpl. destruct d; simpl in *; lia.
    + rewrite !andb_false_r. simpl. destruct d; simpl in *; lia.
Qed.

Lemma fetch_no_out_of_fuel : forall fx w r sy n,
  fst (fst (fetch fx w r sy n)) <> FetchOutOfFuel.
Proof.
  intros. unfold fetch. apply fetch_loop_fuel. unfold mu, fetch_fuel.
  destruct (fx_rotate fx), (sy_plain sy && negb (sy_nopath sy) && negb false); simpl; lia.
Qed.

(* ---------------------------------------------------------------------------------- *)
(* Part 2: what every fetch / walk / handle preserves, under ANY fault script          *)

Definition wf_world (w : world) : Prop := w_legacy w = true -> w_kind w = KPlain.

(* the syncer addresses the publisher: it has an address, it asks without the IPNI path
   only a publisher that serves no IPNI path, and a pinned libp2phttp round tripper is
   pinned to an address that answers *)
Record SyOk (w : world) (sy : syncer) : Prop := {
  so_ne : sy_urls sy <> [];
  so_el : forall a, In a (sy_urls sy) <-> In a (sy_addrs sy);
  so_np : sy_nopath sy = true -> w_legacy w = true;
  so_pl : w_legacy w = true -> sy_plain sy = true;
  so_pin : forall a, sy_pinned sy = Some a -> alive w a = true /\ In a (sy_urls sy)
}.

Lemma SyOk_failover : forall w sy, SyOk w sy -> SyOk w (failover fx_fixed sy).
Proof.
  intros w sy [Hne Hel Hnp Hpl Hpin]. unfold failover. simpl.
  destruct (sy_urls sy) as [|a rest] eqn:Hu; [constructor; rewrite ?Hu; assumption|].
  assert (Hin : forall x, In x (rest ++ [a]) <-> In x (a :: rest)).
  { intros x. rewrite in_app_iff. simpl. tauto. }
  constructor; simpl.
  - destruct rest; discriminate.
  - intros x. rewrite Hin. apply Hel.
  - exact Hnp.
  - exact Hpl.
  - intros x Hx. destruct (Hpin x Hx) as [Ha Hi]. split; [exact Ha|]. apply Hin. exact Hi.
Qed.

Lemma SyOk_set_nopath : forall w sy, SyOk w sy -> w_legacy w = true -> SyOk w (set_nopath sy).
Proof. intros w sy [Hne Hel Hnp Hpl Hpin] Hl. constructor; simpl; auto. Qed.

Lemma failover_fields : forall fx sy,
  sy_addrs (failover fx sy) = sy_addrs sy /\ sy_pinned (failover fx sy) = sy_pinned sy /\
  sy_plain (failover fx sy) = sy_plain sy /\ sy_nopath (failover fx sy) = sy_nopath sy.
Proof. intros fx sy. unfold failover. destruct (sy_urls sy); simpl; tauto. Qed.

Ltac rsplit := split; [first [assumption | eassumption] | repeat split].

Lemma fetch_loop_inv : forall w fuel r sy n d t tried res sy' n',
  SyOk w sy ->
  fetch_loop fx_fixed w fuel r sy n d t tried = (res, sy', n') ->
  SyOk w sy' /\ sy_addrs sy' = sy_addrs sy /\ sy_pinned sy' = sy_pinned sy /\
  sy_plain sy' = sy_plain sy /\ log_ext n n' /\
  (res = FetchOk -> exists a np, In (a, np, r, Some FOk) (n_log n')).
Proof.
  intros w fuel. induction fuel as [|fuel IH]; intros r sy n d t tried res sy' n' Hok H.
  - simpl in H. inversion H; subst. rsplit; auto using log_ext_refl; intros; discriminate.
  - simpl in H.
    destruct (exchange w (sy_pinned sy) (hd 0 (sy_urls sy)) (sy_nopath sy || t) r n) as [x n1] eqn:Hx.
    pose proof (exchange_log _ _ _ _ _ _ _ _ Hx) as Hl1.
    destruct x as [reset| c | |].
    + destruct (can_failover fx_fixed sy tried).
      * apply IH in H; [|apply SyOk_failover; exact Hok].
        destruct (failover_fields fx_fixed sy) as [Fa [Fp [Fl _]]].
        destruct H as [H1 [H2 [H3 [H4 [H5 H6]]]]].
        rsplit; try congruence; eauto using log_ext_trans.
      * destruct (negb d && reset).
        -- apply IH in H; [|exact Hok]. destruct H as [H1 [H2 [H3 [H4 [H5 H6]]]]].
           rsplit; eauto using log_ext_trans.
        -- inversion H; subst. rsplit; auto; intros; discriminate.
    + destruct ((c =? 404)%N || (c =? 403)%N).
      * destruct (sy_plain sy && negb (sy_nopath sy) && negb t).
        -- simpl in H. apply IH in H; [|exact Hok]. destruct H as [H1 [H2 [H3 [H4 [H5 H6]]]]].
           rsplit; eauto using log_ext_trans.
        -- inversion H; subst. rsplit; auto; intros; discriminate.
      * inversion H; subst. rsplit; auto; intros; discriminate.
    + inversion H; subst. clear H.
      assert (Hs : SyOk w (commit_nopath sy t)).
      { unfold commit_nopath. destruct t; [|exact Hok]. apply SyOk_set_nopath; [exact Hok|].
        rewrite orb_true_r in Hx. eapply exchange_200_nopath_legacy; eauto. }
      rsplit; auto; try (unfold commit_nopath; destruct t; reflexivity).
      intros _. apply exchange_good in Hx. destruct Hx as [_ Hlog].
      exists (hd 0 (sy_urls sy)), (sy_nopath sy || t). rewrite Hlog. left. reflexivity.
    + inversion H; subst. clear H.
      assert (Hs : SyOk w (commit_nopath sy t)).
      { unfold commit_nopath. destruct t; [|exact Hok]. apply SyOk_set_nopath; [exact Hok|].
        rewrite orb_true_r in Hx. eapply exchange_200_nopath_legacy; eauto. }
      rsplit; auto; try (unfold commit_nopath; destruct t; reflexivity); intros; discriminate.
Qed.

Lemma fetch_inv : forall w r sy n res sy' n',
  SyOk w sy -> fetch fx_fixed w r sy n = (res, sy', n') ->
  SyOk w sy' /\ sy_addrs sy' = sy_addrs sy /\ sy_pinned sy' = sy_pinned sy /\
  sy_plain sy' = sy_plain sy /\ log_ext n n' /\
  (res = FetchOk -> exists a np, In (a, np, r, Some FOk) (n_log n')).
Proof. intros. unfold fetch in *. eapply fetch_loop_inv; eauto. Qed.

(* walk: the store only grows, only by blocks of the segment, each one received un-faulted *)
Definition sub (a b : list nat) : Prop := forall p, In p a -> In p b.

Lemma walk_inv : forall w todo sy n store ok sy' n' store',
  SyOk w sy -> walk fx_fixed w todo sy n store = (ok, sy', n', store') ->
  SyOk w sy' /\ sy_addrs sy' = sy_addrs sy /\ sy_pinned sy' = sy_pinned sy /\ log_ext n n' /\
  sub store store' /\
  (forall p, In p store' -> In p store \/
     (In p todo /\ exists a np, In (a, np, Blk p, Some FOk) (n_log n'))) /\
  (ok = true -> sub todo store').
Proof.
  intros w todo. induction todo as [|p rest IH]; intros sy n store ok sy' n' store' Hok H; simpl in H.
  - inversion H; subst. rsplit; auto using log_ext_refl; try solve [intros q Hq; auto].
    intros _ q [].
  - destruct (mem p store) eqn:Hm.
    + apply IH in H; [|exact Hok]. destruct H as [H1 [H2 [H3 [H4 [H5 [H6 H7]]]]]].
      rsplit; auto.
      * intros q Hq. destruct (H6 q Hq) as [|[Hi He]]; [left; assumption|right; split; [right; exact Hi|exact He]].
      * intros Ht q [Hq|Hq]; [subst; apply H5; apply mem_In; exact Hm | apply H7; assumption].
    + destruct (fetch fx_fixed w (Blk p) sy n) as [[res sy1] n1] eqn:Hf.
      destruct (fetch_inv _ _ _ _ _ _ _ Hok Hf) as [F1 [F2 [F3 [F4 [F5 F6]]]]].
      destruct res.
      * apply IH in H; [|exact F1]. destruct H as [H1 [H2 [H3 [H4 [H5 [H6 H7]]]]]].
        rsplit; try congruence; eauto using log_ext_trans.
        -- intros q Hq. apply H5. right. exact Hq.
        -- intros q Hq. destruct (H6 q Hq) as [[Hq'|Hq']|[Hi He]].
           ++ subst q. right. split; [left; reflexivity|].
              destruct (F6 eq_refl) as [a [np Hlog]]. exists a, np. eapply log_ext_In; eauto.
           ++ left. exact Hq'.
           ++ right. split; [right; exact Hi|exact He].
        -- intros Ht q [Hq|Hq]; [subst; apply H5; left; reflexivity | apply H7; assumption].
      * inversion H; subst. rsplit; auto; try solve [intros q Hq; auto]; intros; discriminate.
      * inversion H; subst. rsplit; auto; try solve [intros q Hq; auto]; intros; discriminate.
Qed.

Lemma handle_segs_inv : forall w sg segs hf sy n store hooks r,
  SyOk w sy -> handle_segs fx_fixed w sg segs hf sy n store hooks = r ->
  SyOk w (h_sy r) /\ sy_addrs (h_sy r) = sy_addrs sy /\ sy_pinned (h_sy r) = sy_pinned sy /\
  log_ext n (h_net r) /\ sub store (h_store r) /\
  (forall p, In p (h_store r) -> In p store \/
     (In p (concat segs) /\ exists a np, In (a, np, Blk p, Some FOk) (n_log (h_net r)))) /\
  (h_ok r = true -> sub (concat segs) (h_store r)) /\
  (h_ok r = false -> h_count r = 0).
Proof.
  intros w sg segs. induction segs as [|s rest IH]; intros hf sy n store hooks r Hok H; simpl in H.
  - subst r. simpl. rsplit; auto using log_ext_refl; try solve [intros q Hq; auto]; try (intros; discriminate).
    intros _ q [].
  - destruct (walk fx_fixed w s sy n store) as [[[ok sy1] n1] store1] eqn:Hw.
    destruct (walk_inv _ _ _ _ _ _ _ _ _ Hok Hw) as [W1 [W2 [W3 [W4 [W5 [W6 W7]]]]]].
    destruct ok.
    + destruct (sg && hook_fails hf (length hooks) (length s)).
      * subst r. simpl. rsplit; auto; try (intros; discriminate).
        intros q Hq. destruct (W6 q Hq) as [|[Hi He]]; [left; assumption|].
        right. split; [apply in_or_app; left; exact Hi | exact He].
      * apply IH in H; [|exact W1]. destruct H as [H1 [H2 [H3 [H4 [H5 [H6 [H7 H8]]]]]]].
        rsplit; try congruence; eauto using log_ext_trans.
        -- intros q Hq. apply H5. apply W5. exact Hq.
        -- intros q Hq. destruct (H6 q Hq) as [Hq'|[Hi He]].
           ++ destruct (W6 q Hq') as [|[Hi He]]; [left; assumption|].
              right. split; [apply in_or_app; left; exact Hi|].
              destruct He as [a [np He]]. exists a, np. eapply log_ext_In; eauto.
           ++ right. split; [apply in_or_app; right; exact Hi | exact He].
        -- intros Ht q Hq. apply in_app_or in Hq. destruct Hq as [Hq|Hq].
           ++ apply H5. apply W7; [reflexivity | exact Hq].
           ++ apply H7; assumption.
    + subst r. simpl. rsplit; auto; try (intros; discriminate).
      intros q Hq. destruct (W6 q Hq) as [|[Hi He]]; [left; assumption|].
      right. split; [apply in_or_app; left; exact Hi | exact He].
Qed.

Lemma handle_inv : forall w seg h stop hf sy n store r,
  SyOk w sy -> handle fx_fixed w seg h stop hf sy n store = r ->
  SyOk w (h_sy r) /\ sy_addrs (h_sy r) = sy_addrs sy /\ sy_pinned (h_sy r) = sy_pinned sy /\
  log_ext n (h_net r) /\ sub store (h_store r) /\
  (forall p, In p (h_store r) -> In p store \/
     (In p (todo h stop) /\ exists a np, In (a, np, Blk p, Some FOk) (n_log (h_net r)))) /\
  (h_ok r = true -> sub (todo h stop) (h_store r)) /\
  (h_ok r = false -> h_count r = 0).
Proof.
  intros w seg h stop hf sy n store r Hok H. unfold handle in H.
  apply handle_segs_inv in H; [|exact Hok]. rewrite concat_segments in H. exact H.
Qed.

(* ---------------------------------------------------------------------------------- *)
(* Part 3: a fault-free fetch / walk / handle succeeds from every state SyOk allows     *)

Definition good (w : world) (sy : syncer) (a : nat) : bool := alive w a && pin_ok (sy_pinned sy) a.
Definition HasGood (w : world) (sy : syncer) : Prop := exists a, In a (sy_urls sy) /\ good w sy a = true.
Definition clean (n : net) : Prop := n_script n = [] /\ n_cancelled n = false.

Lemma exchange_at_bad : forall w sy a np r n,
  good w sy a = false -> clean n ->
  exists n', exchange w (sy_pinned sy) a np r n = (XDoErr false, n') /\ clean n'.
Proof.
  intros w sy a np r n Hg [Hs Hc]. unfold exchange. rewrite Hc.
  unfold good in Hg. destruct (pin_ok (sy_pinned sy) a); simpl.
  - rewrite andb_true_r in Hg. rewrite Hg. simpl. eexists. split; [reflexivity|]. split; simpl; auto.
  - exists n. split; [reflexivity|]. split; auto.
Qed.

Lemma exchange_at_good : forall w sy a np r n,
  good w sy a = true -> clean n ->
  exists n', exchange w (sy_pinned sy) a np r n = (genuine w np, n') /\ clean n'.
Proof.
  intros w sy a np r n Hg [Hs Hc]. unfold exchange. rewrite Hc.
  unfold good in Hg. apply andb_true_iff in Hg. destruct Hg as [Ha Hp]. rewrite Ha, Hp. simpl.
  rewrite Hs. simpl. eexists. split; [reflexivity|]. split; reflexivity.
Qed.

Lemma first_split : forall (f : nat -> bool) l,
  (exists a, In a l /\ f a = true) ->
  exists l1 a l2, l = l1 ++ a :: l2 /\ (forall b, In b l1 -> f b = false) /\ f a = true.
Proof.
  intros f l. induction l as [|x l IH]; intros [a [Hi Hf]]; [destruct Hi|].
  destruct (f x) eqn:Hx.
  - exists [], x, l. simpl. repeat split; auto. intros b [].
  - destruct Hi as [Hi|Hi]; [subst; congruence|].
    destruct IH as [l1 [b [l2 [He [Hb Hfb]]]]]; [eauto|].
    exists (x :: l1), b, l2. subst l. simpl. repeat split; auto.
    intros c [Hc|Hc]; [subst; assumption | auto].
Qed.

Lemma good_failover : forall w sy a, good w (failover fx_fixed sy) a = good w sy a.
Proof. intros. unfold good. destruct (failover_fields fx_fixed sy) as [_ [Hp _]]. rewrite Hp. reflexivity. Qed.

Lemma fetch_loop_clean : forall w r l1 fuel sy n d tried a l2,
  wf_world w -> SyOk w sy -> clean n ->
  sy_urls sy = l1 ++ a :: l2 ->
  (forall b, In b l1 -> good w sy b = false) -> good w sy a = true ->
  tried <= length l2 -> 2 * length l1 + 2 <= fuel ->
  exists sy' n', fetch_loop fx_fixed w fuel r sy n d false tried = (FetchOk, sy', n') /\ clean n'.
Proof.
  intros w r l1. induction l1 as [|b l1 IH]; intros fuel sy n d tried a l2 Hw Hok Hc Hu Hbad Hgood Ht Hf.
  - (* the address in use answers *)
    simpl in Hu. destruct fuel as [|[|fuel]]; [simpl in Hf; lia | simpl in Hf; lia |].
    cbn [fetch_loop]. rewrite Hu. cbn [hd]. rewrite orb_false_r.
    destruct (exchange_at_good w sy a (sy_nopath sy) r n Hgood Hc) as [n1 [Hx Hc1]]. rewrite Hx.
    unfold genuine. destruct (w_legacy w) eqn:Hl.
    + destruct (sy_nopath sy) eqn:Hn.
      * exists (commit_nopath sy false), n1. split; [reflexivity | exact Hc1].
      * cbn [N.eqb Pos.eqb orb]. rewrite (so_pl _ _ Hok Hl). cbn [negb andb fx_nopath fx_fixed].

        destruct (exchange_at_good w sy a true r n1 Hgood Hc1) as [n2 [Hx2 Hc2]]. rewrite Hx2.
        unfold genuine. rewrite Hl. eexists _, n2. split; [reflexivity | exact Hc2].
    + destruct (sy_nopath sy) eqn:Hn.
      * rewrite (so_np _ _ Hok Hn) in Hl. discriminate.
      * eexists _, n1. split; [reflexivity | exact Hc1].
  - (* the address in use does not: client.Do fails, move on *)
    destruct fuel as [|fuel]; [simpl in Hf; lia|].
    cbn [fetch_loop]. rewrite Hu. cbn [hd app].
    assert (Hb : good w sy b = false) by (apply Hbad; left; reflexivity).
    destruct (exchange_at_bad w sy b (sy_nopath sy || false) r n Hb Hc) as [n1 [Hx Hc1]]. rewrite Hx.
    assert (Hcf : can_failover fx_fixed sy tried = true).
    { unfold can_failover. cbn [fx_rotate fx_fixed]. rewrite Hu. apply Nat.ltb_lt.
      simpl. rewrite app_length. simpl. lia. }
    rewrite Hcf.
    apply (IH fuel (failover fx_fixed sy) n1 false (S tried) a (l2 ++ [b])); auto.
    + apply SyOk_failover. exact Hok.
    + unfold failover. rewrite Hu. simpl. rewrite <- app_assoc. reflexivity.
    + intros c Hc'. rewrite good_failover. apply Hbad. right. exact Hc'.
    + rewrite good_failover. exact Hgood.
    + rewrite app_length. simpl. lia.
    + simpl in Hf. lia.
Qed.

Lemma fetch_clean : forall w r sy n,
  wf_world w -> SyOk w sy -> clean n -> HasGood w sy ->
  exists sy' n', fetch fx_fixed w r sy n = (FetchOk, sy', n') /\ clean n'.
Proof.
  intros w r sy n Hw Hok Hc Hg. unfold fetch.
  destruct (first_split (good w sy) (sy_urls sy) Hg) as [l1 [a [l2 [Hu [Hb Ha]]]]].
  eapply fetch_loop_clean; eauto; [lia|].
  unfold fetch_fuel. rewrite Hu, app_length. simpl. lia.
Qed.

Lemma HasGood_transfer : forall w sy sy',
  SyOk w sy -> SyOk w sy' -> sy_addrs sy' = sy_addrs sy -> sy_pinned sy' = sy_pinned sy ->
  HasGood w sy -> HasGood w sy'.
Proof.
  intros w sy sy' Hok Hok' Ha Hp [a [Hi Hg]]. exists a. split.
  - apply (so_el _ _ Hok'). rewrite Ha. apply (so_el _ _ Hok). exact Hi.
  - unfold good in *. rewrite Hp. exact Hg.
Qed.

Lemma walk_clean : forall w todo sy n store,
  wf_world w -> SyOk w sy -> clean n -> HasGood w sy ->
  exists sy' n' store', walk fx_fixed w todo sy n store = (true, sy', n', store') /\ clean n'.
Proof.
  intros w todo. induction todo as [|p rest IH]; intros sy n store Hw Hok Hc Hg; simpl.
  - exists sy, n, store. split; [reflexivity | exact Hc].
  - destruct (mem p store); [apply IH; auto|].
    destruct (fetch_clean w (Blk p) sy n Hw Hok Hc Hg) as [sy1 [n1 [Hf Hc1]]]. rewrite Hf.
    destruct (fetch_inv _ _ _ _ _ _ _ Hok Hf) as [F1 [F2 [F3 _]]].
    apply IH; [exact Hw | exact F1 | exact Hc1 | apply (HasGood_transfer w sy sy1); assumption].
Qed.

Lemma handle_segs_clean : forall w sg segs sy n store hooks,
  wf_world w -> SyOk w sy -> clean n -> HasGood w sy ->
  h_ok (handle_segs fx_fixed w sg segs None sy n store hooks) = true.
Proof.
  intros w sg segs. induction segs as [|s rest IH]; intros sy n store hooks Hw Hok Hc Hg; simpl; [reflexivity|].
  destruct (walk_clean w s sy n store Hw Hok Hc Hg) as [sy1 [n1 [st1 [Hwk Hc1]]]]. rewrite Hwk.
  rewrite andb_false_r.
  destruct (walk_inv _ _ _ _ _ _ _ _ _ Hok Hwk) as [W1 [W2 [W3 _]]].
  apply IH; [exact Hw | exact W1 | exact Hc1 | apply (HasGood_transfer w sy sy1); assumption].
Qed.

Lemma handle_clean : forall w seg h stop sy n store,
  wf_world w -> SyOk w sy -> clean n -> HasGood w sy ->
  h_ok (handle fx_fixed w seg h stop None sy n store) = true.
Proof. intros. unfold handle. apply handle_segs_clean; auto. Qed.
