(* C08's abstract sessions tied to the model that owns the walk (C01). *)
From Coq Require Import List Bool Arith NArith ZArith Lia Permutation.
From Lib Require Import Bytes SyncSkel LTS.
From Model Require Import C08_AnnounceQueue.
From Model Require Import Compose_C08_C01.
From Proofs Require Import C08_Locks C08_AnnounceQueue C08_Hooks.
From Proofs Require Compose_C04_C01 C01_ChainSync.
Import ListNotations.

Module B4 := Proofs.Compose_C04_C01.
Module P1 := Proofs.C01_ChainSync.

Local Open Scope nat_scope.

(* ---------------------------------------------------------------------------------- *)
(* Layer E: what a session has reported so far                                          *)

Lemma walk_is_todo : forall s h, walk s h = C4.todo h s.
Proof.
  assert (D : forall a n, desc a n = C4.down a n).
  { intros a n. revert a. induction n as [|n IH]; intro a; cbn; [reflexivity|]. rewrite IH. reflexivity. }
  intros s h. unfold walk, C4.todo. rewrite !D. reflexivity.
Qed.

Definition InvE (s : st) : Prop :=
  (forall t th, threads s t = Some th -> prereport (t_pc th) = true -> t_ok th = false /\ t_todo th = []) /\
  (forall t th, threads s t = Some th -> is_entries (t_kind th) = false ->
     rev (ads_by t (hooks s)) ++ t_todo th = (if t_ok th then walk (t_stop th) (t_msg th) else [])) /\
  (forall t th, threads s t = Some th -> is_entries (t_kind th) = false -> t_ok th = true ->
     t_msg th <> 0 /\ t_stop th <> t_msg th) /\
  (forall x, In x (hooks s) -> exists th, threads s (fst (fst x)) = Some th /\ t_pub th = snd (fst x)).

Lemma ads_by_cons_same t p a l : ads_by t ((t, p, a) :: l) = a :: ads_by t l.
Proof. unfold ads_by. cbn. rewrite Nat.eqb_refl. reflexivity. Qed.
Lemma ads_by_cons_other t t0 p a l : t0 <> t -> ads_by t0 ((t, p, a) :: l) = ads_by t0 l.
Proof. intro H. unfold ads_by. cbn. destruct (Nat.eqb_spec t t0); [congruence|reflexivity]. Qed.
Lemma ads_by_not_in t l : ~ In t (tids l) -> ads_by t l = [].
Proof.
  unfold ads_by, tids. induction l as [|x l IH]; cbn; [reflexivity|]. intro H.
  destruct (Nat.eqb_spec (fst (fst x)) t) as [E|E]; [exfalso; apply H; left; exact E|].
  apply IH. intro Hin. apply H. right. exact Hin.
Qed.

Lemma invE_init : InvE init.
Proof.
  unfold InvE. split_all.
  - intros t th H _. apply init_thread in H. destruct H; subst. auto.
  - intros t th H. apply init_thread in H. destruct H; subst. reflexivity.
  - intros t th H Hk. apply init_thread in H. destruct H; subst. discriminate.
  - intros x [].
Qed.

Lemma invE_step cap s l s' :
  InvA s -> InvB cap s -> InvC s -> InvD s -> InvE s -> stepf fixed cap s l = Some s' -> InvE s'.
Proof.
  intros A B C D E H. destruct A as (A1 & A2 & A3 & A4 & A5). pose proof B as B'. destruct_B B.
  destruct_C C. destruct D as (D1 & D2 & D3 & D4). destruct E as (E0 & E1 & E2 & E3).
  step_inv H; no_panic; unfold InvE; cbn_st; step_kind A2.
  all: split_all;
    [ (* E0 *)
      try exact E0;
      intros t0 th0 H0 Hp; thread_cases; cbn_st;
      try (pose proof (E0 _ _ Hth) as Is; rewrite Hpc in Is; cbn in Is);
      try (pose proof (E0 _ _ H0 Hp) as I0);
      try (rewrite Hpc in Hp); cbn in Hp; try discriminate Hp; use_impl; try (split; done); done
    | (* E1 *)
      try exact E1;
      intros t0 th0 H0 Hk0; thread_cases; cbn_st;
      try (pose proof (E1 _ _ Hth) as Is; rewrite ?Hkind in Is; cbn in Is; try specialize (Is eq_refl));
      try (pose proof (E0 _ _ Hth) as Zs; rewrite Hpc in Zs; cbn in Zs);
      try (pose proof (E1 _ _ H0 Hk0) as I0);
      try (pose proof (A1 _ _ H0) as L0);
      rewrite ?Hkind in Hk0; cbn in Hk0; try discriminate Hk0;
      use_impl; rewrite ?Hok, ?Htodo in *;
      try (rewrite ads_by_cons_same); try (rewrite ads_by_cons_other by congruence);
      try exact I0; try exact Is; done
    | (* E2 *)
      try exact E2;
      intros t0 th0 H0 Hk0 Hk; thread_cases; cbn_st;
      try (pose proof (E2 _ _ Hth) as Is; rewrite ?Hkind in Is; cbn in Is; try specialize (Is eq_refl));
      try (pose proof (E2 _ _ H0 Hk0 Hk) as I0);
      try (pose proof (E0 _ _ Hth) as Zs; rewrite Hpc in Zs; cbn in Zs);
      rewrite ?Hkind in Hk0; cbn in Hk0; try discriminate Hk0;
      cbn in Hk; use_impl; try exact I0; try (apply Is; assumption); done
    | (* E3 *)
      try (intros x Hx; cbn [In] in Hx;
           try (destruct Hx as [Hx|Hx]; [subst x; cbn [fst snd]; rewrite updf_same; eexists; split; [reflexivity|reflexivity]|]);
           destruct (E3 _ Hx) as (thx & X1 & X2);
           pose proof (A1 _ _ X1);
           repeat ex_thread; subst; same_thread; cbn_st; done;
           try (eexists; split; [eassumption|assumption]))
    ].
  all: try (match goal with Hk : t_ok ?th = false, Ht : t_todo ?th = [] |- _ => rewrite ?Hk, ?Ht in *; exact Is end).
  all: try (rewrite ads_by_not_in; [reflexivity|];
            intro Hin; apply in_map_iff in Hin; destruct Hin as (x & Ex & Hx); specialize (D1 _ Hx); lia).
  all: try (exfalso; destruct Hx as [thx [X1 X2]]; fail).
  all: try (cbn [rev]; rewrite <- app_assoc; cbn [app]; rewrite <- Htodo; exact Is).
  all: try (pose proof (Cghost _ _ Hth) as Gs; rewrite Hpc in Gs; specialize (Gs eq_refl);
            unfold ghost_ok in Gs; rewrite Hpc, ?Hkind in Gs; cbn [is_entries] in Gs; destruct Gs as (_ & _ & G3 & G4 & _); split; assumption).
  all: try (rewrite (ads_by_not_in t (hooks s)); [reflexivity|]; eapply D2; [exact Hth|rewrite Hpc; reflexivity]).
  all: try (cbn [rev]; rewrite <- app_assoc; cbn [app]; exact Is).
  exfalso. apply (D2 _ _ Hth); [rewrite Hpc; reflexivity|].
  unfold tids. apply in_map_iff. exists x. split; [exact E|exact Hx].
Qed.

Theorem invE_reach cap s : reach fixed cap s -> InvE s.
Proof.
  apply (invariant_reachable2 (stepf fixed cap)
           (fun s => InvA s /\ InvB cap s /\ InvC s /\ InvD s) InvE).
  - intros s0 R. split_all; [eapply invA_reach|eapply invB_reach|eapply invC_reach|eapply invD_reach]; exact R.
  - apply invE_init.
  - intros s0 l s1 (A & B & C & D) E H. eapply invE_step; eauto.
Qed.

(* ---------------------------------------------------------------------------------- *)
(* (1) a session's block-hook log is C01's segment                                      *)

Lemma depth_none segdl e head stop :
  C1.go_depth (c08_cfg segdl) (c08_call e head) stop = None /\
  C1.depth_table (C1.c_ads_depth (c08_cfg segdl)) (C1.c_first_depth (c08_cfg segdl))
                 (C1.a_depth (c08_call e head)) stop = None.
Proof. destruct e, stop; split; reflexivity. Qed.

(* while the session runs: reported ++ still owed = the positions of C01's segment *)
Theorem session_progress_c01_l cap s t th extra ch :
  reach fixed cap s -> threads s t = Some th -> is_entries (t_kind th) = false -> t_ok th = true ->
  C1.chain_wf C1.EPrev extra ch = true -> in_range ch (t_msg th) -> t_stop th <= List.length ch ->
  cids ch (session_log s t ++ t_todo th) =
  C1.segment ch (cid_of ch (t_msg th)) (stop_of ch (t_stop th)) None.
Proof.
  intros R H Hen Hk Hwf Hh Hs. destruct (invE_reach _ _ R) as (_ & E1 & E2 & _).
  pose proof (E1 _ _ H Hen) as P. rewrite Hk in P. destruct (E2 _ _ H Hen Hk) as [_ Hne].
  unfold session_log. rewrite P, walk_is_todo.
  apply B4.bridge_todo; auto. apply (B4.chain_nodup extra). exact Hwf.
Qed.

Theorem session_reports_c01_segment_l cap s t th extra ch pub store segdl explicit :
  reach fixed cap s -> threads s t = Some th -> is_entries (t_kind th) = false ->
  t_ok th = true -> t_todo th = [] ->
  C1.chain_wf C1.EPrev extra ch = true -> in_range ch (t_msg th) -> t_stop th <= List.length ch ->
  let head := cid_of ch (t_msg th) in
  let stop := stop_of ch (t_stop th) in
  let sg := C1.segment ch head stop None in
  C1.avail pub (cids ch store) sg = true ->
  (* the log, as blocks, is the specified segment *)
  cids ch (session_log s t) = sg /\
  (* ... which is what handler.handle reports for every segment size *)
  C1.handle (C1.chain_world C1.EPrev extra ch pub) C1.VPrev stop None segdl C1.HNominate head (cids ch store) =
    C1.HO sg (C1.missing (cids ch store) sg) (rev (C1.missing (cids ch store) sg) ++ cids ch store) (List.length sg) None /\
  (* ... and what the whole SyncAdChain of C01 hands the hook, on a subscriber without
     depth limits whose latest sync is the session's stop *)
  C1.r_hooks (C1.sync_ad_chain (C1.chain_world C1.EPrev extra ch pub) (c08_cfg segdl)
                (c08_call explicit head) (C1.ST stop (cids ch store))) = cids ch (session_log s t).
Proof.
  intros R H Hen Hk Ht Hwf Hh Hs head stop sg Hav.
  pose proof (session_progress_c01_l cap s t th extra ch R H Hen Hk Hwf Hh Hs) as P.
  rewrite Ht, app_nil_r in P. fold head stop sg in P.
  destruct (invE_reach _ _ R) as (_ & _ & E2 & _). destruct (E2 _ _ H Hen Hk) as [_ Hne].
  split; [exact P|]. split.
  - apply B4.c01_handle_closed; auto.
  - rewrite P.
    assert (Hin : In head ch) by (apply B4.cid_of_In; exact Hh).
    assert (Hth : C1.the_head (c08_call explicit head) = Some (head, explicit)) by (destruct explicit; reflexivity).
    pose proof (P1.sync_ad_chain_spec extra ch pub (c08_cfg segdl) (c08_call explicit head)
                  (C1.ST stop (cids ch store)) head explicit Hwf eq_refl) as Q.
    assert (Hh2 : C1.resolve_hook (c08_cfg segdl) (C1.a_hook (c08_call explicit head)) = C1.HNominate)
      by (destruct explicit; reflexivity).
    specialize (Q Hh2 Hth Hin).
    assert (Es : C1.stop_table (C1.eff_latest (c08_cfg segdl) (C1.ST stop (cids ch store)))
                               (C1.a_stop (c08_call explicit head)) (C1.a_resync (c08_call explicit head)) = stop)
      by (destruct explicit, stop; reflexivity).
    cbv zeta in Q. rewrite Es in Q. rewrite (proj2 (depth_none segdl explicit head stop)) in Q.
    cbn [C1.s_store] in Q. specialize (Q Hav). rewrite Q. reflexivity.
Qed.

(* ---------------------------------------------------------------------------------- *)
(* (3) the stop a session uses is C01's stop for the latest sync at that moment         *)

Theorem session_stop_is_c01_stop_l cap s t th ch segdl explicit head store :
  reach fixed cap s -> threads s t = Some th -> is_entries (t_kind th) = false -> stop_ok (t_pc th) = true ->
  let st := C1.ST (stop_of ch (latest s (t_pub th))) store in
  stop_of ch (t_stop th) = C1.go_stop (c08_cfg segdl) st (c08_call explicit head) /\
  stop_of ch (t_stop th) =
    C1.stop_table (C1.eff_latest (c08_cfg segdl) st) (C1.a_stop (c08_call explicit head))
                  (C1.a_resync (c08_call explicit head)).
Proof.
  intros R H Hen Hp st. rewrite (stop_is_current cap s t th R H Hen Hp).
  unfold st. destruct explicit, (stop_of ch (latest s (t_pub th))); split; reflexivity.
Qed.

(* ---------------------------------------------------------------------------------- *)
(* (2) every advertisement in between reported exactly once, about C01's blocks         *)

Lemma rev_down_seq : forall h, rev (C4.down h h) = seq 1 h.
Proof.
  induction h as [|h IH]; [reflexivity|].
  rewrite B4.down_S. cbn [rev]. rewrite IH, seq_S. reflexivity.
Qed.

Lemma cids_seq_from ch L : NoDup ch -> in_range ch L ->
  cids ch (seq 1 L) = rev (C1.from (cid_of ch L) ch).
Proof.
  intros Hnd Hr. rewrite B4.from_pos by assumption.
  rewrite <- B4.cids_down_all by (destruct Hr; lia).
  rewrite <- rev_down_seq. apply B4.cids_rev.
Qed.

Lemma NoDup_skipn {A} n (l : list A) : NoDup l -> NoDup (skipn n l).
Proof.
  revert l. induction n as [|n IH]; intros l H; [exact H|].
  destruct l as [|a l]; [constructor|]. cbn. apply IH. inversion H; assumption.
Qed.

Lemma from_nodup ch L : NoDup ch -> in_range ch L -> NoDup (C1.from (cid_of ch L) ch).
Proof.
  intros Hnd Hr. rewrite B4.from_pos by assumption.
  apply NoDup_skipn. exact Hnd.
Qed.

Theorem each_ad_reported_once_c01_l cap s p extra ch :
  reach fixed cap s -> quiescent s -> regress s = false ->
  C1.chain_wf C1.EPrev extra ch = true -> latest s p <= List.length ch ->
  (latest s p = 0 -> publisher_log s p = []) /\
  (latest s p <> 0 ->
     Permutation (cids ch (publisher_log s p)) (C1.from (cid_of ch (latest s p)) ch) /\
     C1.take_until None (C1.from (cid_of ch (latest s p)) ch) = C1.from (cid_of ch (latest s p)) ch /\
     NoDup (cids ch (publisher_log s p))).
Proof.
  intros R Q Hr Hwf Hl. pose proof (B4.chain_nodup _ _ Hwf) as Hnd.
  pose proof (each_ad_reported_once cap s p R Q Hr) as P. split.
  - intro Hz. rewrite Hz in P. apply Permutation_sym, Permutation_nil in P.
    unfold publisher_log. rewrite P. reflexivity.
  - intro Hnz. assert (Hrg : in_range ch (latest s p)) by (split; lia).
    assert (P2 : Permutation (cids ch (publisher_log s p)) (C1.from (cid_of ch (latest s p)) ch)).
    { unfold publisher_log. eapply Permutation_trans.
      - unfold cids. apply Permutation_map. eapply Permutation_trans; [apply Permutation_sym, Permutation_rev|exact P].
      - fold (cids ch (seq 1 (latest s p))). rewrite cids_seq_from by assumption.
        apply Permutation_sym, Permutation_rev. }
    split; [exact P2|]. split; [apply B4.take_until_none|].
    eapply Permutation_NoDup; [apply Permutation_sym; exact P2|]. apply from_nodup; assumption.
Qed.

Corollary each_ad_reported_once_c01_announce_only_l cap s p extra ch :
  reach fixed cap s -> quiescent s -> nexp s = false -> ordered s = true ->
  C1.chain_wf C1.EPrev extra ch = true -> latest s p <= List.length ch -> latest s p <> 0 ->
  Permutation (cids ch (publisher_log s p))
              (C1.segment ch (cid_of ch (latest s p)) None None) /\
  NoDup (cids ch (publisher_log s p)).
Proof.
  intros R Q N O Hwf Hl Hnz.
  destruct (announce_only_no_regress cap s R N O) as [Hr _].
  destruct (each_ad_reported_once_c01_l cap s p extra ch R Q Hr Hwf Hl) as [_ H].
  destruct (H Hnz) as (P & T & D). split; [|exact D].
  unfold C1.segment, C1.cut. rewrite T. exact P.
Qed.

(* every call in the publisher's log belongs to a session of that publisher, and the log is
   the interleaving-free union of the sessions' logs (hooks_never_interleave): so the
   publisher's log is the concatenation of C01 segments, one per session *)
Theorem publisher_log_is_made_of_sessions_l cap s p x :
  reach fixed cap s -> In x (hooks s) -> snd (fst x) = p ->
  exists th, threads s (fst (fst x)) = Some th /\ t_pub th = p /\
             In (snd x) (session_log s (fst (fst x))).
Proof.
  intros R Hx Hp. destruct (invE_reach _ _ R) as (_ & _ & _ & E3).
  destruct (E3 _ Hx) as (th & X1 & X2). exists th. split_all; [exact X1|congruence|].
  unfold session_log, ads_by. apply -> in_rev. apply in_map_iff. exists x. split; [reflexivity|].
  apply filter_In. split; [exact Hx|apply Nat.eqb_refl].
Qed.
