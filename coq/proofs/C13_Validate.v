(* Advertisement.Validate against the codec: what holds and what does not. *)
From Lib Require Import Bytes Cid.
From Model Require Import C13_DagCbor C13_IpldSchema.
From Gen Require Import Gen_Consts.
From Proofs Require Import C13_DagCbor C13_IpldSchema.
From Coq Require Import Lia ZifyN ZifyNat ZifyBool ZArith.
Open Scope N_scope.

(* Validate is a function of the value: a block stores and reloads it unchanged *)
Theorem validate_preserved_by_roundtrip_proved a :
  wf_ad a = true ->
  exists a', typed_load_ad (ad_encode a) = Ok a' /\ validate a' = validate a.
Proof.
  intro H. destruct (ad_bytes_roundtrip_cbor_proved a H) as [R _]. exists a. split; [exact R|reflexivity].
Qed.

(* the two limits lie inside what the codec can carry: a validated context ID / metadata
   is never refused by the decoder for its length *)
Theorem validate_within_codec_limits_proved a :
  validate a = true -> blen (a_ctx a) <= MaxStr /\ blen (a_meta a) <= MaxStr.
Proof.
  unfold validate, schema_MaxContextIDLen, schema_MaxMetadataLen, MaxStr. intro H. apply andb_prop in H as [H1 H2]. lia.
Qed.

(* decoding does NOT establish Validate: a block with a context ID one byte over the limit
   loads fine (BytesToAdvertisement never calls Validate) *)
Definition over_limit_ad : ad :=
  {| a_prev := None; a_provider := [112]; a_addrs := []; a_sig := []; a_entries := [1; 85; 0; 0];
     a_ctx := repeat 0 (S (Z.to_nat schema_MaxContextIDLen)); a_meta := []; a_isrm := false; a_ext := None |}.

Theorem decode_does_not_imply_validate_proved :
  wf_bytes (ad_encode over_limit_ad) = true /\
  typed_load_ad (ad_encode over_limit_ad) = Ok over_limit_ad /\
  validate over_limit_ad = false.
Proof.
  split; [vm_compute; reflexivity|]. split; [|vm_compute; reflexivity].
  apply ad_bytes_roundtrip_cbor_proved. vm_compute. reflexivity.
Qed.
