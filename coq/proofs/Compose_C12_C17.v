(* Composition of C12 (reader-privacy find) with C17 (GetResults expansion): proofs. *)
From Lib Require Import Bytes.
From Model Require C12_DHash C17_GetResults.
From Model Require Import Compose_C12_C17.
From Proofs Require C12_DHash C17_GetResults.
From Coq Require Import List.
Import ListNotations.
Open Scope N_scope.

Module PD := Proofs.C12_DHash.
Module PG := Proofs.C17_GetResults.

Section Compose.
  Variable pid_num : bytes -> N.

  Definition expand (src : rsrc) (r : D.presult) : list G.result :=
    let '(pid, ctx, md, _) := r in entry_expansion pid_num src (pid, ctx, md).

  (* GetResults always answers: per C17, with exactly what the IPNI rules say *)
  Lemma emit_spec src pid ctx md :
    emit pid_num src pid ctx md = Ok (entry_expansion pid_num src (pid, ctx, md)).
  Proof.
    unfold emit, entry_expansion. destruct src as [f|]; [|reflexivity].
    unfold G.get_results_opt. destruct (f pid) as [r|]; [|reflexivity].
    apply PG.get_results_eq_spec_l.
  Qed.

  (* the loop body with records = the loop body without a pcache, then the expansion *)
  Lemma find_one_rec_factor P st src mh evk :
    find_one_rec pid_num P st src mh evk =
    (l <- D.find_one (D.decrypt_value_key P) (D.decrypt_metadata P) P st None mh evk ;;
     Ok (flat_map (expand src) l)).
  Proof.
    unfold find_one_rec, D.find_one.
    destruct (D.decrypt_value_key P evk mh) as [vk| |]; try reflexivity.
    destruct (D.split_value_key vk) as [[pid ctx]| |]; try reflexivity.
    destruct (D.fetch_metadata (D.decrypt_metadata P) P st vk) as [md| |]; try reflexivity.
    destruct (D.is_nil md); [reflexivity|].
    rewrite emit_spec. cbn [bind flat_map expand]. rewrite app_nil_r. reflexivity.
  Qed.

  Lemma find_loop_rec_factor P st src mh evks :
    find_loop_rec (find_one_rec pid_num P st src mh) evks =
    (l <- D.find_loop (D.find_one (D.decrypt_value_key P) (D.decrypt_metadata P) P st None mh) evks ;;
     Ok (flat_map (expand src) l)).
  Proof.
    induction evks as [|e r IH]; [reflexivity|].
    cbn [find_loop_rec D.find_loop]. rewrite find_one_rec_factor, IH.
    destruct (D.find_one _ _ P st None mh e) as [l1| |]; cbn [bind]; try reflexivity.
    destruct (D.find_loop _ r) as [l2| |]; cbn [bind]; try reflexivity.
    rewrite flat_map_app. reflexivity.
  Qed.

  (* FindAsync with a pcache = FindAsync without one, each result expanded by GetResults:
     for ALL primitives, stores and record sources *)
  Theorem find_rec_factor P st src mh :
    find_rec pid_num P st src mh = (l <- D.find P st None mh ;; Ok (flat_map (expand src) l)).
  Proof.
    unfold find_rec, D.find, D.find_gen.
    destruct (D.second_multihash P mh) as [smh| |]; try reflexivity. cbn [bind].
    destruct (D.s_find_mh st smh) as [groups| |]; try reflexivity. cbn [bind].
    apply find_loop_rec_factor.
  Qed.

  Lemma expand_entries src (es : list D.entry) :
    flat_map (expand src) (flat_map (D.entry_result None) es) = flat_map (entry_expansion pid_num src) es.
  Proof.
    induction es as [|[[pid ctx] md] r IH]; [reflexivity|].
    cbn [flat_map D.entry_result app]. rewrite IH. reflexivity.
  Qed.

  (* (1) *)
  Theorem find_expands_indexed sha seal open :
    D.law_sha_min sha -> D.law_seal_nonempty seal -> D.law_round_trip seal open -> D.law_collision_free sha ->
    forall idx, D.wf_index idx ->
    exists st, D.index_store (D.ideal sha seal open) idx = Ok st /\
      forall src mh, find_rec pid_num (D.ideal sha seal open) st src mh =
                     Ok (flat_map (entry_expansion pid_num src) (D.entries_for idx mh)).
  Proof.
    intros Hmin Hne Hrt Hcf idx W. eexists. split; [apply PD.index_store_ideal|].
    intros src mh. rewrite find_rec_factor.
    rewrite (PD.find_indexed sha seal open Hmin Hne Hrt Hcf idx None mh W). cbn [bind].
    rewrite expand_entries. reflexivity.
  Qed.

  (* (2) *)
  Theorem find_rec_no_panic sha seal open st src mh :
    D.store_total st -> is_panic (find_rec pid_num (D.ideal sha seal open) st src mh) = false.
  Proof.
    intro T. rewrite find_rec_factor.
    pose proof (PD.find_no_panic sha seal open st None mh T) as N.
    destruct (D.find (D.ideal sha seal open) st None mh); cbn [bind] in *; try reflexivity. discriminate.
  Qed.

  (* the abstract provider source of C12's own pcache-mode statement is the special case of
     records without extended providers *)
  Lemma plain_records_agree (known : bytes -> option N) (e : D.entry) :
    let src := Some (fun pid => option_map (fun t => G.REC (G.AI (pid_num pid) t) None) (known pid)) in
    entry_expansion pid_num src e =
    map (fun r : D.presult => let '(pid, ctx, md, t) := r in G.PR ctx (Some md) (G.AI (pid_num pid) t))
        (D.entry_result (Some known) e).
  Proof.
    destruct e as [[pid ctx] md]. cbn. destruct (known pid); reflexivity.
  Qed.
End Compose.
