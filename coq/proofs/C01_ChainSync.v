(* C01 -- proofs about Model.C01_ChainSync. *)
From Lib Require Import Bytes.
From Model Require Import C01_ChainSync.
From Coq Require Import Lia ZifyN ZifyNat ZifyBool.
Open Scope N_scope.

(* ================================================================ *)
(* 0. Small list facts                                               *)

Lemma memb_In c l : memb c l = true <-> In c l.
Proof.
  unfold memb. rewrite existsb_exists. split.
  - intros [x [Hx E]]. apply N.eqb_eq in E. subst. exact Hx.
  - intro H. exists c. split; [exact H|apply N.eqb_refl].
Qed.

Lemma memb_false c l : memb c l = false <-> ~ In c l.
Proof. rewrite <- memb_In. destruct (memb c l); split; congruence. Qed.

Lemma memb_app c a b : memb c (a ++ b) = memb c a || memb c b.
Proof. unfold memb. apply existsb_app. Qed.

Lemma memb_cons c x l : memb c (x :: l) = (c =? x) || memb c l.
Proof. reflexivity. Qed.

Lemma nodupb_NoDup l : nodupb l = true <-> NoDup l.
Proof.
  induction l as [|c r IH]; cbn; [split; [constructor|reflexivity]|].
  rewrite andb_true_iff, negb_true_iff, memb_false, IH. split.
  - intros [H1 H2]. constructor; assumption.
  - intro H. inversion H; subst. split; assumption.
Qed.

Lemma firstn_app_le {A} k (s t : list A) : (k <= length s)%nat -> firstn k (s ++ t) = firstn k s.
Proof. intro H. rewrite firstn_app. replace (k - length s)%nat with 0%nat by lia. cbn. apply app_nil_r. Qed.

Lemma firstn_plus {A} a b (l : list A) : firstn (a + b) l = firstn a l ++ firstn b (skipn a l).
Proof.
  revert l; induction a as [|a IH]; intros l; cbn; [reflexivity|].
  destruct l; cbn; [now rewrite firstn_nil|]. now rewrite IH.
Qed.

Lemma NoDup_app_l {A} (a b : list A) : NoDup (a ++ b) -> NoDup a.
Proof.
  induction a as [|x a IH]; cbn; intro H; [constructor|].
  inversion H; subst. constructor; [|apply IH; assumption].
  intro Hx. apply H2. apply in_or_app. left. exact Hx.
Qed.

Lemma NoDup_app_r {A} (a b : list A) : NoDup (a ++ b) -> NoDup b.
Proof. induction a as [|x a IH]; cbn; intro H; [exact H|]. inversion H; subst. apply IH. assumption. Qed.

Lemma NoDup_app_disj {A} (a b : list A) x : NoDup (a ++ b) -> In x a -> ~ In x b.
Proof.
  induction a as [|y a IH]; cbn; intros H Ha; [contradiction|].
  inversion H; subst. destruct Ha as [->|Ha].
  - intro Hb. apply H2. apply in_or_app. right. exact Hb.
  - apply IH; assumption.
Qed.

(* ================================================================ *)
(* 1. The specification's own algebra                                *)

Lemma take_until_prefix stop l :
  exists t, l = take_until stop l ++ t /\
            match t with [] => True | x :: _ => is_stop stop x = true end.
Proof.
  induction l as [|a l [t [E H]]]; cbn.
  - exists []; auto.
  - destruct (is_stop stop a) eqn:Ha.
    + exists (a :: l). split; auto.
    + exists t. split; [cbn; congruence|exact H].
Qed.

Lemma take_until_none_stop stop l x : In x (take_until stop l) -> is_stop stop x = false.
Proof.
  induction l as [|a l IH]; cbn; [contradiction|].
  destruct (is_stop stop a) eqn:Ha; [contradiction|].
  intros [->|H]; [exact Ha|apply IH; exact H].
Qed.

Lemma take_until_In stop l x : In x (take_until stop l) -> In x l.
Proof.
  destruct (take_until_prefix stop l) as [t [E _]]. intro H. rewrite E. apply in_or_app. left. exact H.
Qed.

(* cutting a segment in two *)
Lemma take_until_skipn stop : forall k l, (k < length (take_until stop l))%nat ->
  exists x t, skipn k l = x :: t /\ is_stop stop x = false /\
              skipn k (take_until stop l) = x :: take_until stop t /\
              l = firstn k (take_until stop l) ++ x :: t.
Proof.
  induction k as [|k IH]; intros l Hk.
  - destruct l as [|a l]; cbn in *; [lia|]. destruct (is_stop stop a) eqn:Ha; cbn in *; [lia|].
    exists a, l. cbn. rewrite Ha. auto.
  - destruct l as [|a l]; cbn in *; [lia|]. destruct (is_stop stop a) eqn:Ha; cbn in *; [lia|].
    destruct (IH l) as (x & t & E1 & E2 & E3 & E4); [lia|].
    exists x, t. repeat split; auto. cbn. f_equal. exact E4.
Qed.

Lemma In_firstn {A} n (l : list A) x : In x (firstn n l) -> In x l.
Proof. intro H. rewrite <- (firstn_skipn n l). apply in_or_app. left. exact H. Qed.

Lemma cut_In lim l x : In x (cut lim l) -> In x l.
Proof. destruct lim as [d|]; cbn; [|auto]. apply In_firstn. Qed.

Lemma cut_prefix lim l : exists t, l = cut lim l ++ t.
Proof. destruct lim as [d|]; cbn; [|exists []; now rewrite app_nil_r]. exists (skipn (Nat.max d 1) l). symmetry. apply firstn_skipn. Qed.

Lemma from_split head ch : In head ch ->
  exists pre r, ch = pre ++ head :: r /\ from head ch = head :: r /\ ~ In head pre.
Proof.
  induction ch as [|c ch IH]; cbn; [contradiction|].
  destruct (c =? head) eqn:E.
  - apply N.eqb_eq in E. subst. intros _. exists [], ch. auto.
  - apply N.eqb_neq in E. intros [H|H]; [congruence|].
    destruct (IH H) as (pre & r & E1 & E2 & E3). exists (c :: pre), r. repeat split.
    + cbn. congruence.
    + exact E2.
    + intros [X|X]; [congruence|auto].
Qed.

Lemma from_not_In head ch : ~ In head ch -> from head ch = [].
Proof.
  induction ch as [|c ch IH]; cbn; [reflexivity|]. intro H.
  destruct (c =? head) eqn:E; [apply N.eqb_eq in E; subst; exfalso; auto|]. apply IH. auto.
Qed.

(* the segment is an initial part of the chain from the head on, without repetitions,
   and holds neither the stop block nor anything behind it *)
Lemma segment_prefix ch head stop lim :
  exists post, from head ch = segment ch head stop lim ++ post.
Proof.
  unfold segment. destruct (take_until_prefix stop (from head ch)) as [t [E _]].
  destruct (cut_prefix lim (take_until stop (from head ch))) as [u Eu].
  exists (u ++ t). rewrite app_assoc, <- Eu. exact E.
Qed.

Lemma from_suffix head ch : exists pre, ch = pre ++ from head ch.
Proof.
  induction ch as [|c ch [pre IH]]; cbn; [exists []; reflexivity|].
  destruct (c =? head); [exists []; reflexivity|]. exists (c :: pre). cbn. congruence.
Qed.

Lemma segment_NoDup ch head stop lim : NoDup ch -> NoDup (segment ch head stop lim).
Proof.
  intro H. destruct (from_suffix head ch) as [pre E]. destruct (segment_prefix ch head stop lim) as [post E2].
  rewrite E, E2 in H. apply NoDup_app_r in H. apply NoDup_app_l in H. exact H.
Qed.

Lemma segment_no_stop ch head stop lim x : In x (segment ch head stop lim) -> is_stop stop x = false.
Proof. unfold segment. intro H. apply cut_In in H. eapply take_until_none_stop. exact H. Qed.

(* ================================================================ *)
(* 2. Chain worlds                                                   *)

Lemma follow_others k l :
  chain_kind k = true -> forallb is_other l = true -> follow (kind_view k) l = [].
Proof.
  intros K. unfold follow. induction l as [|[ek ec] l IH]; [reflexivity|].
  cbn [forallb]. intro H. apply andb_prop in H as [H1 H2]. cbn [filter].
  unfold is_other in H1. cbn [fst] in H1. destruct ek; try discriminate.
  unfold in_view. cbn [fst]. destruct k; try discriminate; cbn; apply IH; exact H2.
Qed.

Lemma first_kind_others kk l : forallb is_other l = true -> first_kind kk l = None.
Proof.
  induction l as [|[ek ec] l IH]; [reflexivity|].
  cbn [forallb]. intro H. apply andb_prop in H as [H1 H2].
  unfold is_other in H1. cbn [fst] in H1. destruct ek; try discriminate. cbn. apply IH. exact H2.
Qed.

Section Chain.
Variable k : ekind.
Variable extra : list edge.
Variable ch pub : list cid.
Hypothesis Hwf : chain_wf k extra ch = true.

Let w := chain_world k extra ch pub.
Let v := kind_view k.

Lemma wf_kind : chain_kind k = true.
Proof. unfold chain_wf in Hwf. apply andb_prop in Hwf as [H _]. apply andb_prop in H as [H _]. exact H. Qed.
Lemma wf_extra : forallb is_other extra = true.
Proof. unfold chain_wf in Hwf. apply andb_prop in Hwf as [H _]. apply andb_prop in H as [_ H]. exact H. Qed.
Lemma wf_nodup : NoDup ch.
Proof. unfold chain_wf in Hwf. apply andb_prop in Hwf as [_ H]. apply nodupb_NoDup. exact H. Qed.

Lemma dag_get_chain : forall pre c r, ~ In c pre ->
  dag_get (chain_dag k extra (pre ++ c :: r)) c =
  Some (extra ++ match r with p :: _ => [(k, p)] | [] => [] end).
Proof.
  induction pre as [|a pre IH]; intros c r H; cbn [app chain_dag dag_get].
  - rewrite N.eqb_refl. reflexivity.
  - destruct (a =? c) eqn:E; [apply N.eqb_eq in E; subst; exfalso; apply H; left; reflexivity|].
    apply IH. intro X. apply H. right. exact X.
Qed.

Lemma follow_extra : follow v extra = [].
Proof. apply follow_others; [exact wf_kind|exact wf_extra]. Qed.

Lemma follow_app vv a b : follow vv (a ++ b) = follow vv a ++ follow vv b.
Proof. unfold follow. rewrite filter_app, map_app. reflexivity. Qed.

Lemma follow_chain r :
  follow v (extra ++ match r with p :: _ => [(k, p)] | [] => [] end) =
  match r with p :: _ => [p] | [] => [] end.
Proof.
  rewrite follow_app, follow_extra. cbn [app].
  destruct r as [|p r]; [reflexivity|]. pose proof wf_kind as K. unfold follow, v. destruct k; try discriminate; reflexivity.
Qed.

Lemma first_kind_extra kk : first_kind kk extra = None.
Proof. apply first_kind_others. exact wf_extra. Qed.

Lemma first_kind_app kk a b : first_kind kk a = None -> first_kind kk (a ++ b) = first_kind kk b.
Proof.
  induction a as [|[ek ec] a IH]; [reflexivity|]. cbn.
  destruct ek, kk; try discriminate; auto.
Qed.

(* the prescribed hook nominates the next block of the chain *)
Lemma chain_link_chain pre c r : ~ In c pre ->
  chain_link (chain_dag k extra (pre ++ c :: r)) c = hd_error r.
Proof.
  intro H. unfold chain_link. rewrite (dag_get_chain pre c r H).
  rewrite !first_kind_app by apply first_kind_extra.
  pose proof wf_kind as K. destruct r as [|p r]; [reflexivity|]. destruct k; try discriminate; reflexivity.
Qed.

Lemma memb_missing_store x store F :
  ~ In x F -> memb x (rev F ++ store) = memb x store.
Proof.
  intro H. rewrite memb_app. replace (memb x (rev F)) with false; [reflexivity|].
  symmetry. apply memb_false. intro X. apply H. apply in_rev. exact X.
Qed.

Lemma missing_In store seg x : In x (missing store seg) -> In x seg /\ memb x store = false.
Proof. unfold missing. rewrite filter_In, negb_true_iff. auto. Qed.

Lemma missing_app store a b : missing store (a ++ b) = missing store a ++ missing store b.
Proof. apply filter_app. Qed.

Lemma missing_ext s1 s2 seg :
  (forall x, In x seg -> memb x s1 = memb x s2) -> missing s1 seg = missing s2 seg.
Proof. intro H. unfold missing. apply filter_ext_in. intros x Hx. rewrite (H x Hx). reflexivity. Qed.

Lemma avail_weaken store store' l :
  (forall x, memb x store = true -> memb x store' = true) ->
  avail pub store l = true -> avail pub store' l = true.
Proof.
  intros H. unfold avail. rewrite !forallb_forall. intros A x Hx. specialize (A x Hx).
  apply orb_true_iff in A as [A|A]; apply orb_true_iff; [left; auto|right; exact A].
Qed.

(* ---- one walk over a chain = the specification's segment ---- *)

Lemma load_chain pre c r store :
  ch = pre ++ c :: r -> memb c store || memb c pub = true ->
  load w c store = Some (extra ++ match r with p :: _ => [(k, p)] | [] => [] end, negb (memb c store)).
Proof.
  intros Ech Hac.
  assert (Hc : ~ In c pre).
  { pose proof wf_nodup as N. rewrite Ech in N. intro X. eapply NoDup_app_disj; [exact N|exact X|left; reflexivity]. }
  unfold load, w, chain_world. cbn [w_dag w_pub]. rewrite Ech, (dag_get_chain pre c r Hc).
  destruct (memb c store); [reflexivity|]. cbn in Hac. rewrite Hac. reflexivity.
Qed.

Lemma cut_head lim c l : exists rest, cut lim (c :: l) = c :: rest.
Proof. destruct lim as [d|]; cbn [cut]; [|eauto]. destruct (Nat.max d 1) eqn:M; [lia|]. cbn. eauto. Qed.

Lemma cut_single lim c : cut lim [c] = [c].
Proof. destruct lim as [d|]; cbn; [|reflexivity]. destruct (Nat.max d 1) eqn:M; [lia|]. cbn. now rewrite firstn_nil. Qed.

Lemma missing_cons store c l :
  missing store (c :: l) = if negb (memb c store) then c :: missing store l else missing store l.
Proof. reflexivity. Qed.

Lemma missing_single store c :
  missing store [c] = if negb (memb c store) then [c] else [].
Proof. unfold missing. cbn. destruct (memb c store); reflexivity. Qed.

Lemma walk_chain : forall r pre c lim stop store fuel,
  ch = pre ++ c :: r -> (length r < fuel)%nat ->
  avail pub store (cut lim (c :: take_until stop r)) = true ->
  let seg := cut lim (c :: take_until stop r) in
  walk fuel w v stop lim c store =
  WO seg (missing store seg) (rev (missing store seg) ++ store) WOk.
Proof.
  induction r as [|p r IH]; intros pre c lim stop store fuel Ech Hf Hav seg.
  - (* last block of the chain *)
    destruct fuel as [|f]; [lia|]. cbn [walk].
    assert (Hseg : seg = [c]) by apply cut_single.
    fold seg in Hav. rewrite Hseg in Hav. cbn in Hav. rewrite andb_true_r in Hav.
    rewrite (load_chain pre c [] store Ech Hav). rewrite (follow_chain []).
    rewrite Hseg, missing_single. destruct (memb c store); reflexivity.
  - destruct fuel as [|f]; [lia|]. cbn [walk].
    assert (Hcr : ~ In c (p :: r)).
    { pose proof wf_nodup as N. rewrite Ech in N. apply NoDup_app_r in N. inversion N; assumption. }
    destruct (cut_head lim c (take_until stop (p :: r))) as [rest Hrest].
    assert (Hac : memb c store || memb c pub = true).
    { fold seg in Hav. unfold seg in Hav. rewrite Hrest in Hav. cbn in Hav. apply andb_prop in Hav as [H _]. exact H. }
    rewrite (load_chain pre c (p :: r) store Ech Hac). rewrite (follow_chain (p :: r)).
    cbn [take_until] in seg, Hav.
    destruct (is_stop stop p) eqn:Hs; cbn [orb].
    + (* the next block is the stop block *)
      assert (Hseg : seg = [c]) by apply cut_single.
      rewrite Hseg, missing_single. destruct (memb c store); reflexivity.
    + destruct (deeper lim) eqn:Hd; cbn [negb].
      * (* follow the link *)
        assert (Hseg : seg = c :: cut (dec_lim lim) (p :: take_until stop r)).
        { unfold seg. destruct lim as [d|]; cbn [cut dec_lim]; [|reflexivity].
          cbn [deeper] in Hd. apply negb_true_iff, Nat.ltb_ge in Hd.
          replace (Nat.max d 1) with (S (Nat.max (d - 1) 1)) by lia. reflexivity. }
        set (req := negb (memb c store)).
        set (store1 := if req then c :: store else store).
        assert (Hav1 : avail pub store1 (cut (dec_lim lim) (p :: take_until stop r)) = true).
        { fold seg in Hav. rewrite Hseg in Hav. cbn [avail forallb] in Hav. apply andb_prop in Hav as [_ Hav].
          eapply avail_weaken; [|exact Hav]. intros x Hx. unfold store1. destruct req; [|exact Hx].
          rewrite memb_cons, Hx. apply orb_true_r. }
        assert (Ech' : ch = (pre ++ [c]) ++ p :: r) by (rewrite <- app_assoc; exact Ech).
        cbn [o_store].
        rewrite (IH (pre ++ [c]) p (dec_lim lim) stop store1 f Ech' ltac:(cbn in Hf; lia) Hav1).
        cbn [o_order o_reqs o_store o_res].
        set (seg' := cut (dec_lim lim) (p :: take_until stop r)).
        assert (Hnc : ~ In c seg').
        { intro X. apply Hcr. unfold seg' in X. apply cut_In in X. destruct X as [X|X]; [left; exact X|right; eapply take_until_In; exact X]. }
        assert (Hm : missing store1 seg' = missing store seg').
        { apply missing_ext. intros x Hx. unfold store1. destruct req; [|reflexivity].
          rewrite memb_cons. destruct (x =? c) eqn:E; [apply N.eqb_eq in E; subst; contradiction|reflexivity]. }
        rewrite Hm, Hseg. fold seg'. rewrite missing_cons. fold req.
        unfold store1. destruct req; cbn [app rev]; rewrite <- ?app_assoc; reflexivity.
      * (* depth exhausted *)
        assert (Hseg : seg = [c]).
        { unfold seg. destruct lim as [d|]; [|discriminate]. cbn [deeper] in Hd. apply negb_false_iff, Nat.ltb_lt in Hd.
          cbn [cut]. replace (Nat.max d 1) with 1%nat by lia. reflexivity. }
        rewrite Hseg, missing_single. destruct (memb c store); reflexivity.
Qed.

(* ---- the segment loop over a chain = one walk ---- *)

Definition remaining (orig : option nat) (dsf : nat) : option nat :=
  match orig with Some D => Some (D - dsf)%nat | None => None end.

Lemma chain_dag_length kk ex l : length (chain_dag kk ex l) = length l.
Proof. induction l as [|c r IH]; cbn; [reflexivity|]. now rewrite IH. Qed.

Lemma walk_fuel_chain : walk_fuel w = S (length ch).
Proof. unfold walk_fuel, w, chain_world. cbn [w_dag]. now rewrite chain_dag_length. Qed.

Lemma not_in_prefix (l1 l2 : list cid) b : NoDup (l1 ++ b :: l2) -> ~ In b l1.
Proof. intros N X. apply NoDup_remove_2 in N. apply N. apply in_or_app. left. exact X. Qed.

Lemma nominated_chain pre A b t :
  ch = (pre ++ A) ++ b :: t -> nominated w HNominate (A ++ [b]) = hd_error t.
Proof.
  intro E. unfold nominated. rewrite rev_app_distr. cbn [rev app].
  unfold w, chain_world. cbn [w_dag]. rewrite E. apply chain_link_chain.
  pose proof wf_nodup as N. rewrite E in N. eapply not_in_prefix. exact N.
Qed.

Lemma nominated_list pre L t :
  L <> [] -> ch = (pre ++ L) ++ t -> nominated w HNominate L = hd_error t.
Proof.
  intros HL E. destruct (exists_last HL) as [A [b EA]]. subst L.
  apply (nominated_chain pre A b t). rewrite E, <- !app_assoc. reflexivity.
Qed.

Lemma avail_app store a b : avail pub store (a ++ b) = avail pub store a && avail pub store b.
Proof. unfold avail. apply forallb_app. Qed.

Lemma seg_loop_chain segdl orig stop : (1 <= segdl)%nat ->
  forall fuel r pre c nd dsf acc,
    ch = pre ++ c :: r -> (length r < fuel)%nat -> (1 <= nd)%nat ->
    match orig with
    | Some D => (dsf + nd <= D)%nat /\ nd = Nat.min segdl (D - dsf)
    | None => nd = segdl
    end ->
    let Sg := cut (remaining orig dsf) (c :: take_until stop r) in
    avail pub (h_store acc) Sg = true -> h_err acc = None ->
    seg_loop fuel w v stop orig segdl HNominate nd dsf c acc =
    HO (h_hooks acc ++ Sg) (h_reqs acc ++ missing (h_store acc) Sg)
       (rev (missing (h_store acc) Sg) ++ h_store acc) (h_count acc + length Sg) None.
Proof.
  intros Hseg. induction fuel as [|f IH]; intros r pre c nd dsf acc Ech Hf Hnd Hinv Sg Hav Herr; [lia|].
  cbn [seg_loop].
  set (T := c :: take_until stop r) in *.
  set (st := h_store acc) in *.
  assert (HT1 : (1 <= length T)%nat) by (unfold T; cbn; lia).
  (* Sg begins with the first nd blocks of T *)
  assert (HS : Sg = firstn nd T ++ skipn nd Sg /\ firstn nd Sg = firstn nd T).
  { assert (firstn nd Sg = firstn nd T).
    { unfold Sg. destruct orig as [D|]; cbn [remaining cut]; [|reflexivity].
      destruct Hinv as [Hle Hmin]. rewrite firstn_firstn. f_equal. lia. }
    split; [|assumption]. rewrite <- H. symmetry. apply firstn_skipn. }
  destruct HS as [HS HS1].
  assert (Hav1 : avail pub st (cut (Some nd) T) = true).
  { cbn [cut]. replace (Nat.max nd 1) with nd by lia. rewrite HS, avail_app in Hav. apply andb_prop in Hav as [H _]. exact H. }
  assert (Hfuel : (length r < walk_fuel w)%nat).
  { rewrite walk_fuel_chain, Ech, app_length. cbn. lia. }
  rewrite (walk_chain r pre c (Some nd) stop st (walk_fuel w) Ech Hfuel Hav1).
  cbn [o_res o_order o_reqs o_store cut]. replace (Nat.max nd 1) with nd by lia. fold T.
  destruct (take_until_prefix stop r) as [t [Et Ht]].
  destruct (Nat.le_gt_cases (length T) nd) as [Hle|Hgt].
  - (* the rest of the segment fits into this walk *)
    rewrite firstn_all2 by exact Hle.
    assert (HST : Sg = T).
    { unfold Sg. destruct orig as [D|]; cbn [remaining cut]; [|reflexivity]. destruct Hinv as [H1 H2]. apply firstn_all2. lia. }
    assert (Ech2 : ch = (pre ++ T) ++ t).
    { rewrite Ech. rewrite <- app_assoc. f_equal. change (c :: r) with ([c] ++ r). rewrite Et at 1. reflexivity. }
    rewrite (nominated_list pre T t ltac:(unfold T; discriminate) Ech2). rewrite HST.
    destruct t as [|s t']; cbn [hd_error]; [reflexivity|]. rewrite Ht. reflexivity.
  - (* the walk is cut by the segment depth *)
    destruct (take_until_skipn stop (nd - 1) r) as (x & t' & E1 & E2 & E3 & E4).
    { unfold T in Hgt. cbn in Hgt. lia. }
    assert (Hseg1 : firstn nd T = c :: firstn (nd - 1) (take_until stop r)).
    { unfold T. destruct nd as [|n]; [lia|]. cbn. now rewrite Nat.sub_0_r. }
    assert (Hskip : skipn nd T = x :: take_until stop t').
    { unfold T. destruct nd as [|n]; [lia|]. cbn [skipn]. rewrite <- E3. f_equal. lia. }
    set (seg1 := firstn nd T) in *.
    assert (Ech2 : ch = (pre ++ seg1) ++ x :: t').
    { rewrite Ech, <- app_assoc. f_equal. rewrite Hseg1. cbn. f_equal. exact E4. }
    rewrite (nominated_list pre seg1 (x :: t') ltac:(rewrite Hseg1; discriminate) Ech2). cbn [hd_error].
    rewrite E2.
    assert (Hlen1 : length seg1 = nd) by (unfold seg1; apply firstn_length_le; lia).
    assert (Hlt : (length t' < f)%nat).
    { assert (length r = (length (firstn (nd - 1) (take_until stop r)) + S (length t'))%nat) by (rewrite E4 at 1; rewrite app_length; reflexivity). lia. }
    (* the blocks of later segments are not among those of this one *)
    assert (Hdisj : forall y, In y (x :: t') -> ~ In y seg1).
    { intros y Hy Hy1. pose proof wf_nodup as N. rewrite Ech2, <- app_assoc in N. apply NoDup_app_r in N.
      eapply NoDup_app_disj; [exact N|exact Hy1|exact Hy]. }
    set (acc' := HO (h_hooks acc ++ seg1) (h_reqs acc ++ missing st seg1) (rev (missing st seg1) ++ st)
                    (h_count acc + length seg1) None).
    assert (Hmem : forall y, In y (x :: t') -> memb y (h_store acc') = memb y st).
    { intros y Hy. cbn [acc' h_store]. apply memb_missing_store. intro X. apply missing_In in X as [X _]. exact (Hdisj y Hy X). }
    assert (Hrec : forall nd' dsf' Sg',
      (1 <= nd')%nat ->
      match orig with
      | Some D => (dsf' + nd' <= D)%nat /\ nd' = Nat.min segdl (D - dsf')
      | None => nd' = segdl
      end ->
      Sg' = cut (remaining orig dsf') (x :: take_until stop t') ->
      Sg = seg1 ++ Sg' ->
      seg_loop f w v stop orig segdl HNominate nd' dsf' x acc' =
      HO (h_hooks acc ++ Sg) (h_reqs acc ++ missing st Sg) (rev (missing st Sg) ++ st) (h_count acc + length Sg) None).
    { intros nd' dsf' Sg' Hnd' Hinv' HS' HSSg.
      assert (HinS' : forall y, In y Sg' -> In y (x :: t')).
      { intros y Hy. rewrite HS' in Hy. apply cut_In in Hy. destruct Hy as [Hy|Hy]; [left; exact Hy|right; eapply take_until_In; exact Hy]. }
      rewrite (IH t' (pre ++ seg1) x nd' dsf' acc' Ech2 Hlt Hnd' Hinv').
      - rewrite <- HS'. cbn [acc' h_hooks h_reqs h_store h_count].
        assert (Hm : missing (rev (missing st seg1) ++ st) Sg' = missing st Sg').
        { apply missing_ext. intros y Hy. apply (Hmem y (HinS' y Hy)). }
        rewrite Hm, HSSg, missing_app, rev_app_distr, app_length, <- !app_assoc, Nat.add_assoc. reflexivity.
      - rewrite <- HS'. rewrite HSSg, avail_app in Hav. apply andb_prop in Hav as [_ Hav].
        unfold avail in *. rewrite forallb_forall in *. intros y Hy. specialize (Hav y Hy).
        rewrite (Hmem y (HinS' y Hy)). exact Hav.
      - reflexivity. }
    destruct orig as [D|].
    + destruct Hinv as [Hle Hmin]. cbn [remaining] in *.
      destruct (D <=? dsf + nd)%nat eqn:HD.
      * apply Nat.leb_le in HD.
        assert (HSs : Sg = seg1).
        { unfold Sg. cbn [cut]. replace (Nat.max (D - dsf) 1) with nd by lia. reflexivity. }
        rewrite HSs. reflexivity.
      * apply Nat.leb_gt in HD.
        set (rem := (D - (dsf + nd))%nat).
        apply (Hrec (if (rem <? segdl)%nat then rem else nd) (dsf + nd)%nat
                    (cut (Some rem) (x :: take_until stop t'))).
        -- destruct (rem <? segdl)%nat eqn:E; [apply Nat.ltb_lt in E|apply Nat.ltb_ge in E]; unfold rem in *; lia.
        -- destruct (rem <? segdl)%nat eqn:E; [apply Nat.ltb_lt in E|apply Nat.ltb_ge in E]; unfold rem in *; lia.
        -- reflexivity.
        -- unfold Sg. cbn [cut]. rewrite <- Hskip.
           replace (Nat.max (D - dsf) 1) with (nd + Nat.max rem 1)%nat by (unfold rem; lia).
           apply firstn_plus.
    + subst nd. cbn [remaining] in *.
      apply (Hrec segdl (dsf + segdl)%nat (x :: take_until stop t')); [exact Hseg|reflexivity|reflexivity|].
      unfold Sg. cbn [cut]. rewrite <- Hskip. unfold seg1. symmetry. apply firstn_skipn.
Qed.

(* ---- handler.handle over a chain ---- *)

Definition chain_out (store seg : list cid) (hooks : list cid) : hout :=
  HO hooks (missing store seg) (rev (missing store seg) ++ store) (length seg) None.

Lemma handle_plain_chain r pre c lim stop store h :
  ch = pre ++ c :: r ->
  avail pub store (cut lim (c :: take_until stop r)) = true ->
  let seg := cut lim (c :: take_until stop r) in
  handle_plain w v stop lim h c store = chain_out store seg (calls_of h seg).
Proof.
  intros Ech Hav seg. unfold handle_plain.
  assert (Hfuel : (length r < walk_fuel w)%nat).
  { rewrite walk_fuel_chain, Ech, app_length. cbn. lia. }
  rewrite (walk_chain r pre c lim stop store (walk_fuel w) Ech Hfuel Hav). reflexivity.
Qed.

(* whatever the segment size (and every way segmentation is switched off), handle reports
   what one unsegmented walk reports *)
Lemma handle_chain r pre c lim stop store segdl :
  ch = pre ++ c :: r ->
  avail pub store (cut lim (c :: take_until stop r)) = true ->
  let seg := cut lim (c :: take_until stop r) in
  handle w v stop lim segdl HNominate c store = chain_out store seg seg.
Proof.
  intros Ech Hav seg. unfold handle.
  destruct (seg_enabled segdl HNominate lim) eqn:En.
  - unfold seg_enabled in En. apply andb_prop in En as [En Hl]. apply andb_prop in En as [Hpos _].
    apply Z.ltb_lt in Hpos.
    assert (Hfuel : (length r < seg_fuel w)%nat).
    { unfold seg_fuel. fold (walk_fuel w). rewrite walk_fuel_chain, Ech, app_length. cbn. lia. }
    rewrite (seg_loop_chain (Z.to_nat segdl) lim stop ltac:(lia) (seg_fuel w) r pre c (Z.to_nat segdl) 0
               (HO [] [] store 0 None) Ech Hfuel ltac:(lia)).
    + cbn [h_hooks h_reqs h_store h_count app plus]. unfold chain_out.
      assert (Hrem : remaining lim 0 = lim) by (destruct lim; cbn; [now rewrite Nat.sub_0_r|reflexivity]).
      rewrite Hrem. reflexivity.
    + destruct lim as [D|]; [|reflexivity]. apply negb_true_iff, Z.leb_gt in Hl. lia.
    + cbn [h_store]. assert (Hrem : remaining lim 0 = lim) by (destruct lim; cbn; [now rewrite Nat.sub_0_r|reflexivity]).
      rewrite Hrem. exact Hav.
    + reflexivity.
  - apply (handle_plain_chain r pre c lim stop store HNominate Ech Hav).
Qed.

Lemma handle_chain_unsegmented r pre c lim stop store segdl h :
  seg_enabled segdl h lim = false ->
  ch = pre ++ c :: r ->
  avail pub store (cut lim (c :: take_until stop r)) = true ->
  let seg := cut lim (c :: take_until stop r) in
  handle w v stop lim segdl h c store = chain_out store seg (calls_of h seg).
Proof.
  intros En Ech Hav seg. unfold handle. rewrite En. apply (handle_plain_chain r pre c lim stop store h Ech Hav).
Qed.

(* in terms of the specification *)
Lemma segment_from head r pre stop lim :
  ch = pre ++ head :: r -> ~ In head pre -> is_stop stop head = false ->
  segment ch head stop lim = cut lim (head :: take_until stop r).
Proof.
  intros Ech Hn Hs. unfold segment.
  assert (from head ch = head :: r).
  { rewrite Ech. clear Ech. induction pre as [|a pre IH]; cbn.
    - now rewrite N.eqb_refl.
    - destruct (a =? head) eqn:E; [apply N.eqb_eq in E; subst; exfalso; apply Hn; left; reflexivity|].
      apply IH. intro X. apply Hn. right. exact X. }
  rewrite H. cbn [take_until]. rewrite Hs. reflexivity.
Qed.

Lemma segment_stop_head head stop lim :
  is_stop stop head = true -> segment ch head stop lim = [].
Proof.
  intro Hs. unfold segment. destruct (from head ch) as [|c r] eqn:E; [destruct lim; cbn; [now rewrite firstn_nil|reflexivity]|].
  assert (c = head).
  { clear -E. induction ch as [|a l IH]; cbn in E; [discriminate|].
    destruct (a =? head) eqn:X; [apply N.eqb_eq in X; inversion E; subst; reflexivity|auto]. }
  subst c. cbn [take_until]. rewrite Hs. destruct lim; cbn; [now rewrite firstn_nil|reflexivity].
Qed.

Lemma handle_segment head stop lim store segdl :
  In head ch -> is_stop stop head = false ->
  avail pub store (segment ch head stop lim) = true ->
  let seg := segment ch head stop lim in
  handle w v stop lim segdl HNominate head store = chain_out store seg seg.
Proof.
  intros Hin Hs Hav seg. destruct (from_split head ch Hin) as (pre & r & Ech & _ & Hn).
  unfold seg in *. rewrite (segment_from head r pre stop lim Ech Hn Hs) in *.
  apply (handle_chain r pre head lim stop store segdl Ech Hav).
Qed.

Lemma handle_segment_unsegmented head stop lim store segdl h :
  seg_enabled segdl h lim = false ->
  In head ch -> is_stop stop head = false ->
  avail pub store (segment ch head stop lim) = true ->
  let seg := segment ch head stop lim in
  handle w v stop lim segdl h head store = chain_out store seg (calls_of h seg).
Proof.
  intros En Hin Hs Hav seg. destruct (from_split head ch Hin) as (pre & r & Ech & _ & Hn).
  unfold seg in *. rewrite (segment_from head r pre stop lim Ech Hn Hs) in *.
  apply (handle_chain_unsegmented r pre head lim stop store segdl h En Ech Hav).
Qed.

End Chain.

(* ================================================================ *)
(* 3. Subscriber entry points over chains                            *)

Lemma go_stop_table cfg st a : go_stop cfg st a = stop_table (eff_latest cfg st) (a_stop a) (a_resync a).
Proof. unfold go_stop, stop_table. destruct (a_resync a), (a_stop a); reflexivity. Qed.

Lemma go_depth_table cfg a stop :
  go_depth cfg a stop = depth_table (c_ads_depth cfg) (c_first_depth cfg) (a_depth a) stop.
Proof.
  unfold go_depth, depth_table, rl.
  destruct (a_depth a =? 0)%Z; cbn [negb andb]; destruct stop; try reflexivity.
  - destruct (c_first_depth cfg =? 0)%Z; reflexivity.
  - rewrite andb_false_r. reflexivity.
Qed.

Definition ad_result (st : substate) (head : cid) (queried : bool) (stop : option cid) (seg : list cid) : callout :=
  let moved := queried && negb (is_stop stop head) in
  CO (ROk head) seg (missing (s_store st) seg)
     (if moved then Some (head, length seg) else None)
     (ST (if moved then Some head else s_latest st) (rev (missing (s_store st) seg) ++ s_store st)).

Theorem sync_ad_chain_spec extra ch pub cfg a st head queried :
  chain_wf EPrev extra ch = true -> c_strict cfg = true ->
  resolve_hook cfg (a_hook a) = HNominate ->
  the_head a = Some (head, queried) -> In head ch ->
  let stop := stop_table (eff_latest cfg st) (a_stop a) (a_resync a) in
  let lim := depth_table (c_ads_depth cfg) (c_first_depth cfg) (a_depth a) stop in
  let seg := segment ch head stop lim in
  avail pub (s_store st) seg = true ->
  sync_ad_chain (chain_world EPrev extra ch pub) cfg a st = ad_result st head queried stop seg.
Proof.
  intros Hwf Hstrict Hhook Hhead Hin stop lim seg Hav.
  unfold sync_ad_chain. rewrite go_stop_table. fold stop.
  unfold the_head in Hhead.
  assert (Hsel : match a_head a with
                 | Some h => Some (h, false)
                 | None => match a_pubhead a with Some h => Some (h, true) | None => None end
                 end = Some (head, queried)) by exact Hhead.
  rewrite Hsel. unfold ad_result.
  destruct (is_stop stop head) eqn:Hs.
  - assert (Hseg : seg = []) by (apply segment_stop_head; exact Hs).
    rewrite Hseg. cbn. rewrite andb_false_r. destruct st; reflexivity.
  - rewrite go_depth_table. fold lim. rewrite Hhook.
    unfold ads_view. rewrite Hstrict.
    change VPrev with (kind_view EPrev).
    rewrite (handle_segment EPrev extra ch pub Hwf head stop lim (s_store st) (resolve_seg cfg (a_seg a)) Hin Hs Hav).
    fold seg. unfold chain_out. cbn [h_err h_hooks h_reqs h_store h_count]. rewrite andb_true_r.
    destruct queried; reflexivity.
Qed.

Theorem sync_entries_spec extra ch pub cfg ent depth scoped st :
  chain_wf ENext extra ch = true ->
  resolve_hook cfg scoped = HNominate -> In ent ch ->
  let lim := entries_depth_table (c_entries_depth cfg) depth in
  let seg := segment ch ent None lim in
  avail pub (s_store st) seg = true ->
  sync_entries (chain_world ENext extra ch pub) cfg (Some ent) depth scoped st =
  CO RNil seg (missing (s_store st) seg) None
     (ST (s_latest st) (rev (missing (s_store st) seg) ++ s_store st)).
Proof.
  intros Hwf Hhook Hin lim seg Hav.
  unfold sync_entries, sync_entries_with. rewrite Hhook.
  assert (Hlim : (if (depth =? 0)%Z then rl (c_entries_depth cfg) else rl depth) = lim).
  { unfold lim, entries_depth_table, rl. destruct (depth =? 0)%Z; reflexivity. }
  rewrite Hlim. change VNext with (kind_view ENext).
  rewrite (handle_segment ENext extra ch pub Hwf ent None lim (s_store st) (c_seg_depth cfg) Hin eq_refl Hav).
  reflexivity.
Qed.

(* a walk of depth 0 (SyncOneEntry) loads the root block only, in any world *)
Lemma walk_depth0 f w v stop c store es req :
  load w c store = Some (es, req) ->
  walk (S f) w v stop (Some 0%nat) c store =
  WO [c] (if req then [c] else []) (if req then c :: store else store) WOk.
Proof.
  intro H. cbn [walk]. rewrite H.
  generalize (WO [c] (if req then [c] else []) (if req then c :: store else store) WOk).
  induction (follow v es) as [|e l IH]; intro acc; [reflexivity|].
  cbn [deeper Nat.ltb Nat.leb negb]. rewrite orb_true_r. apply IH.
Qed.

Theorem sync_one_spec w cfg ent st es req :
  load w ent (s_store st) = Some (es, req) ->
  sync_one w cfg (Some ent) st =
  CO RNil (calls_of (c_hook cfg) [ent]) (if req then [ent] else []) None
     (ST (s_latest st) (if req then ent :: s_store st else s_store st)).
Proof.
  intro H. unfold sync_one, sync_entries_with, handle.
  assert (En : seg_enabled (-1) (c_hook cfg) (Some 0%nat) = false) by reflexivity.
  rewrite En. unfold handle_plain, walk_fuel. rewrite (walk_depth0 _ w VAll None ent (s_store st) es req H).
  reflexivity.
Qed.

(* ================================================================ *)
(* 4. The all-links selector over trees                              *)

Definition walk_kids (f : nat) (w : world) (v : view) (stop : option cid) (lim : option nat) :=
  fix go (l : list cid) (acc : wout) : wout :=
    match l with
    | [] => acc
    | e :: r =>
      if is_stop stop e || negb (deeper lim) then go r acc
      else let o := walk f w v stop (dec_lim lim) e (o_store acc) in
           let acc' := WO (o_order acc ++ o_order o) (o_reqs acc ++ o_reqs o) (o_store o) (o_res o) in
           match o_res o with WOk => go r acc' | _ => acc' end
    end.

Lemma walk_unfold f w v stop lim c store :
  walk (S f) w v stop lim c store =
  match load w c store with
  | None => WO [] (if memb c store then [] else [c]) store (WMissing c)
  | Some (es, req) =>
    walk_kids f w v stop lim (follow v es)
              (WO [c] (if req then [c] else []) (if req then c :: store else store) WOk)
  end.
Proof. reflexivity. Qed.

Lemma preorder_node c ks : preorder (Node c ks) = c :: flat_map preorder ks.
Proof. reflexivity. Qed.

Lemma depth_kid c ks x : In x ks -> (depth x < depth (Node c ks))%nat.
Proof.
  cbn [depth]. induction ks as [|y r IH]; [contradiction|]. intros [->|H].
  - lia.
  - specialize (IH H). lia.
Qed.

Lemma dag_has_node d c ks :
  dag_has d (Node c ks) =
  match dag_get d c with
  | Some es => list_eqb N.eqb (map snd es) (map root ks)
  | None => false
  end && forallb (dag_has d) ks.
Proof. reflexivity. Qed.

Lemma list_eqb_N_eq a b : list_eqb N.eqb a b = true -> a = b.
Proof.
  revert b. induction a as [|x a IH]; intros [|y b]; cbn; try discriminate; [reflexivity|].
  intro H. apply andb_prop in H as [H1 H2]. apply N.eqb_eq in H1. subst. f_equal. apply IH. exact H2.
Qed.

Lemma follow_all es : follow VAll es = map snd es.
Proof. unfold follow. f_equal. induction es as [|e l IH]; [reflexivity|]. cbn. now rewrite IH. Qed.

Lemma avail_weaken' pub store store' l :
  (forall x, memb x store = true -> memb x store' = true) ->
  avail pub store l = true -> avail pub store' l = true.
Proof.
  intros H. unfold avail. rewrite !forallb_forall. intros A x Hx. specialize (A x Hx).
  apply orb_true_iff in A as [A|A]; apply orb_true_iff; [left; auto|right; exact A].
Qed.

Lemma memb_rev_app x F store : memb x store = true -> memb x (rev F ++ store) = true.
Proof. intro H. rewrite memb_app, H. apply orb_true_r. Qed.

Section Tree.
Variable d : dag.
Variable pub : list cid.
Let w := WORLD d pub.

Lemma walk_tree : forall fuel t store,
  (depth t <= fuel)%nat -> dag_has d t = true -> NoDup (preorder t) ->
  avail pub store (preorder t) = true ->
  walk fuel w VAll None None (root t) store =
  WO (preorder t) (missing store (preorder t)) (rev (missing store (preorder t)) ++ store) WOk.
Proof.
  induction fuel as [|f IH]; intros [c ks] store Hd Hh Hn Hav; [cbn in Hd; lia|].
  rewrite walk_unfold. cbn [root].
  rewrite dag_has_node in Hh. apply andb_prop in Hh as [Hg Hks].
  rewrite preorder_node in *.
  destruct (dag_get d c) as [es|] eqn:G; [|discriminate]. apply list_eqb_N_eq in Hg.
  cbn [avail forallb] in Hav. apply andb_prop in Hav as [Hac Hav].
  unfold load, w. cbn [w_dag w_pub]. rewrite G.
  set (req := negb (memb c store)).
  assert (Hl : (if memb c store then Some (es, false) else if memb c pub then Some (es, true) else None) = Some (es, req)).
  { unfold req. destruct (memb c store); [reflexivity|]. cbn in Hac. rewrite Hac. reflexivity. }
  rewrite Hl. rewrite follow_all, Hg.
  inversion Hn as [|? ? Hc Hn']; subst.
  (* the children, one after the other *)
  assert (Hkids : forall l acc,
    (forall x, In x l -> In x ks) -> NoDup (flat_map preorder l) ->
    avail pub (o_store acc) (flat_map preorder l) = true -> o_res acc = WOk ->
    walk_kids f w VAll None None (map root l) acc =
    WO (o_order acc ++ flat_map preorder l) (o_reqs acc ++ missing (o_store acc) (flat_map preorder l))
       (rev (missing (o_store acc) (flat_map preorder l)) ++ o_store acc) WOk).
  { induction l as [|x r IHl]; intros acc Hsub Hnd Ha Hr.
    - cbn. rewrite !app_nil_r. destruct acc; cbn in *; subst; reflexivity.
    - cbn [map walk_kids is_stop deeper negb orb flat_map dec_lim] in *.
      assert (Hx : In x ks) by (apply Hsub; left; reflexivity).
      rewrite avail_app in Ha. apply andb_prop in Ha as [Ha1 Ha2].
      rewrite (IH x (o_store acc)).
      + cbn [o_res o_order o_reqs o_store].
        set (acc' := WO (o_order acc ++ preorder x) (o_reqs acc ++ missing (o_store acc) (preorder x))
                        (rev (missing (o_store acc) (preorder x)) ++ o_store acc) WOk).
        assert (Hm : missing (o_store acc') (flat_map preorder r) = missing (o_store acc) (flat_map preorder r)).
        { apply missing_ext. intros y Hy. cbn [acc' o_store]. apply memb_missing_store.
          intro X. apply missing_In in X as [X _]. eapply NoDup_app_disj; [exact Hnd|exact X|exact Hy]. }
        rewrite (IHl acc').
        * rewrite Hm. cbn [acc' o_order o_reqs o_store]. rewrite missing_app, rev_app_distr, <- !app_assoc. reflexivity.
        * intros y Hy. apply Hsub. right. exact Hy.
        * eapply NoDup_app_r. exact Hnd.
        * eapply avail_weaken'; [|exact Ha2]. intros y Hy. cbn [acc' o_store]. apply memb_rev_app. exact Hy.
        * reflexivity.
      + pose proof (depth_kid c ks x Hx). lia.
      + rewrite forallb_forall in Hks. apply Hks. exact Hx.
      + eapply NoDup_app_l. exact Hnd.
      + exact Ha1. }
  rewrite (Hkids ks); cbn [o_order o_reqs o_store o_res]; try reflexivity; try assumption; [|auto|].
  - set (Q := flat_map preorder ks) in *.
    assert (Hm : missing (if req then c :: store else store) Q = missing store Q).
    { apply missing_ext. intros y Hy. destruct req; [|reflexivity]. rewrite memb_cons.
      destruct (y =? c) eqn:E; [apply N.eqb_eq in E; subst; contradiction|reflexivity]. }
    rewrite Hm, missing_cons. fold req. destruct req; cbn [app rev]; rewrite <- ?app_assoc; reflexivity.
  - eapply avail_weaken'; [|exact Hav]. intros y Hy. destruct req; [|exact Hy]. rewrite memb_cons, Hy. apply orb_true_r.
Qed.

End Tree.

Theorem sync_all_tree_fuel d pub cfg scoped st t :
  dag_has d t = true -> NoDup (preorder t) -> (depth t <= S (length d))%nat ->
  avail pub (s_store st) (preorder t) = true ->
  sync_all (WORLD d pub) cfg (Some (root t)) scoped st =
  CO RNil (calls_of (resolve_hook cfg scoped) (preorder t)) (missing (s_store st) (preorder t)) None
     (ST (s_latest st) (rev (missing (s_store st) (preorder t)) ++ s_store st)).
Proof.
  intros Hh Hn Hd Hav. unfold sync_all, sync_entries_with, handle.
  assert (En : seg_enabled (-1) (resolve_hook cfg scoped) None = false) by reflexivity.
  rewrite En. unfold handle_plain, walk_fuel. cbn [w_dag].
  rewrite (walk_tree d pub (S (length d)) t (s_store st) Hd Hh Hn Hav). reflexivity.
Qed.

(* ---- DAGs: any finite unfolding, shared blocks included ---- *)

Lemma fetches_ext l : forall s1 s2, (forall x, memb x s1 = memb x s2) -> fetches s1 l = fetches s2 l.
Proof.
  induction l as [|x r IH]; intros s1 s2 H; [reflexivity|]. cbn [fetches]. rewrite (H x).
  destruct (memb x s2); [apply IH; exact H|]. f_equal. apply IH. intro y. rewrite !memb_cons, H. reflexivity.
Qed.

Lemma fetches_app a : forall s b,
  fetches s (a ++ b) = fetches s a ++ fetches (rev (fetches s a) ++ s) b.
Proof.
  induction a as [|x a IH]; intros s b; [reflexivity|]. cbn [app fetches].
  destruct (memb x s); [apply IH|]. rewrite IH. cbn [app rev]. rewrite <- app_assoc. reflexivity.
Qed.

Lemma fetches_nodup l : forall s, NoDup l -> fetches s l = missing s l.
Proof.
  induction l as [|x r IH]; intros s N; [reflexivity|]. inversion N; subst. cbn [fetches]. rewrite missing_cons.
  destruct (memb x s); cbn [negb]; [apply IH; assumption|]. f_equal. rewrite IH by assumption.
  apply missing_ext. intros y Hy. rewrite memb_cons. destruct (y =? x) eqn:E; [apply N.eqb_eq in E; subst; contradiction|reflexivity].
Qed.

Section Dag.
Variable d : dag.
Variable pub : list cid.
Let w := WORLD d pub.

(* t is any finite unfolding of the DAG below its root (a shared block occurs once per path) *)
Lemma walk_dag : forall fuel t store,
  (depth t <= fuel)%nat -> dag_has d t = true ->
  avail pub store (preorder t) = true ->
  walk fuel w VAll None None (root t) store =
  WO (preorder t) (fetches store (preorder t)) (rev (fetches store (preorder t)) ++ store) WOk.
Proof.
  induction fuel as [|f IH]; intros [c ks] store Hd Hh Hav; [cbn in Hd; lia|].
  rewrite walk_unfold. cbn [root].
  rewrite dag_has_node in Hh. apply andb_prop in Hh as [Hg Hks].
  rewrite preorder_node in *.
  destruct (dag_get d c) as [es|] eqn:G; [|discriminate]. apply list_eqb_N_eq in Hg.
  cbn [avail forallb] in Hav. apply andb_prop in Hav as [Hac Hav].
  unfold load, w. cbn [w_dag w_pub]. rewrite G.
  set (req := negb (memb c store)).
  assert (Hl : (if memb c store then Some (es, false) else if memb c pub then Some (es, true) else None) = Some (es, req)).
  { unfold req. destruct (memb c store); [reflexivity|]. cbn in Hac. rewrite Hac. reflexivity. }
  rewrite Hl. rewrite follow_all, Hg.
  assert (Hkids : forall l acc,
    (forall x, In x l -> In x ks) ->
    avail pub (o_store acc) (flat_map preorder l) = true -> o_res acc = WOk ->
    walk_kids f w VAll None None (map root l) acc =
    WO (o_order acc ++ flat_map preorder l) (o_reqs acc ++ fetches (o_store acc) (flat_map preorder l))
       (rev (fetches (o_store acc) (flat_map preorder l)) ++ o_store acc) WOk).
  { induction l as [|x r IHl]; intros acc Hsub Ha Hr.
    - cbn. rewrite !app_nil_r. destruct acc; cbn in *; subst; reflexivity.
    - cbn [map walk_kids is_stop deeper negb orb flat_map dec_lim] in *.
      assert (Hx : In x ks) by (apply Hsub; left; reflexivity).
      rewrite avail_app in Ha. apply andb_prop in Ha as [Ha1 Ha2].
      rewrite (IH x (o_store acc)).
      + cbn [o_res o_order o_reqs o_store].
        set (acc' := WO (o_order acc ++ preorder x) (o_reqs acc ++ fetches (o_store acc) (preorder x))
                        (rev (fetches (o_store acc) (preorder x)) ++ o_store acc) WOk).
        rewrite (IHl acc').
        * cbn [acc' o_order o_reqs o_store]. rewrite fetches_app, rev_app_distr, <- !app_assoc. reflexivity.
        * intros y Hy. apply Hsub. right. exact Hy.
        * eapply avail_weaken'; [|exact Ha2]. intros y Hy. cbn [acc' o_store]. apply memb_rev_app. exact Hy.
        * reflexivity.
      + pose proof (depth_kid c ks x Hx). lia.
      + rewrite forallb_forall in Hks. apply Hks. exact Hx.
      + exact Ha1. }
  rewrite (Hkids ks); cbn [o_order o_reqs o_store o_res]; try reflexivity; [|auto|].
  - cbn [fetches]. unfold req. destruct (memb c store); cbn [negb app rev]; rewrite <- ?app_assoc; reflexivity.
  - eapply avail_weaken'; [|exact Hav]. intros y Hy. destruct req; [|exact Hy]. rewrite memb_cons, Hy. apply orb_true_r.
Qed.

End Dag.

Theorem sync_all_dag d pub cfg scoped st t :
  dag_has d t = true -> (depth t <= S (length d))%nat ->
  avail pub (s_store st) (preorder t) = true ->
  sync_all (WORLD d pub) cfg (Some (root t)) scoped st =
  CO RNil (calls_of (resolve_hook cfg scoped) (preorder t)) (fetches (s_store st) (preorder t)) None
     (ST (s_latest st) (rev (fetches (s_store st) (preorder t)) ++ s_store st)).
Proof.
  intros Hh Hd Hav. unfold sync_all, sync_entries_with, handle.
  assert (En : seg_enabled (-1) (resolve_hook cfg scoped) None = false) by reflexivity.
  rewrite En. unfold handle_plain, walk_fuel. cbn [w_dag].
  rewrite (walk_dag d pub (S (length d)) t (s_store st) Hd Hh Hav). reflexivity.
Qed.

(* ---- the traversal fuel suffices for every tree the world holds ---- *)

Lemma dag_get_In d c es : dag_get d c = Some es -> In c (map fst d).
Proof.
  induction d as [|[k0 e0] r IH]; cbn; [discriminate|].
  destruct (k0 =? c) eqn:E; [apply N.eqb_eq in E; auto|]. intro H. right. apply IH. exact H.
Qed.

Lemma kids_depth_le_size ks :
  (forall x, In x ks -> (depth x <= length (preorder x))%nat) ->
  ((fix go (l : list tree) : nat := match l with [] => 0%nat | x :: r => Nat.max (depth x) (go r) end) ks
   <= length (flat_map preorder ks))%nat.
Proof.
  induction ks as [|x r IH]; intro H; [cbn; lia|].
  cbn [flat_map]. rewrite app_length.
  assert (depth x <= length (preorder x))%nat by (apply H; left; reflexivity).
  assert ((fix go (l : list tree) : nat := match l with [] => 0%nat | x :: r => Nat.max (depth x) (go r) end) r
          <= length (flat_map preorder r))%nat by (apply IH; intros y Hy; apply H; right; exact Hy).
  lia.
Qed.

(* a tree is at most as deep as it has blocks *)
Lemma depth_le_size : forall n t, (depth t <= n)%nat -> (depth t <= length (preorder t))%nat.
Proof.
  induction n as [|n IH]; intros [c ks] Hd; [cbn in Hd; lia|].
  rewrite preorder_node. cbn [length]. cbn [depth]. apply le_n_S.
  apply kids_depth_le_size. intros x Hx. apply IH.
  pose proof (depth_kid c ks x Hx). lia.
Qed.

(* every block of a tree the world holds is a block of the world *)
Lemma dag_has_keys d : forall n t, (depth t <= n)%nat -> dag_has d t = true ->
  forall x, In x (preorder t) -> In x (map fst d).
Proof.
  induction n as [|n IH]; intros [c ks] Hd Hh x Hx; [cbn in Hd; lia|].
  rewrite dag_has_node in Hh. apply andb_prop in Hh as [Hg Hks].
  rewrite preorder_node in Hx. destruct Hx as [<-|Hx].
  - destruct (dag_get d c) as [es|] eqn:G; [|discriminate]. eapply dag_get_In. exact G.
  - apply in_flat_map in Hx as [y [Hy Hxy]]. apply (IH y); [|rewrite forallb_forall in Hks; apply Hks; exact Hy|exact Hxy].
    pose proof (depth_kid c ks y Hy). lia.
Qed.

Lemma tree_fuel_suffices d t :
  dag_has d t = true -> NoDup (preorder t) -> (depth t <= S (length d))%nat.
Proof.
  intros Hh Hn.
  assert (D : (depth t <= length (preorder t))%nat) by (apply (depth_le_size (depth t)); lia).
  assert (L : (length (preorder t) <= length (map fst d))%nat).
  { apply NoDup_incl_length; [exact Hn|]. intros x Hx. apply (dag_has_keys d (depth t) t (le_n _) Hh x Hx). }
  rewrite map_length in L. lia.
Qed.

(* ================================================================ *)
(* 4b. The property theorems, as stated in props/Properties_C01.v    *)

Theorem walk_chain_spec_proved k extra ch pub head stop lim store :
  chain_wf k extra ch = true -> In head ch -> is_stop stop head = false ->
  let w := chain_world k extra ch pub in
  let seg := segment ch head stop lim in
  avail pub store seg = true ->
  walk (walk_fuel w) w (kind_view k) stop lim head store =
  WO seg (missing store seg) (rev (missing store seg) ++ store) WOk.
Proof.
  intros Hwf Hin Hs w seg Hav. destruct (from_split head ch Hin) as (pre & r & Ech & _ & Hn).
  unfold seg in *. rewrite (segment_from ch head r pre stop lim Ech Hn Hs) in *.
  apply (walk_chain k extra ch pub Hwf r pre head lim stop store (walk_fuel w) Ech); [|exact Hav].
  unfold w. rewrite (walk_fuel_chain k extra ch pub), Ech, app_length. cbn. lia.
Qed.

Theorem segmented_eq_unsegmented_proved k extra ch pub head stop lim store segdl :
  chain_wf k extra ch = true -> In head ch -> is_stop stop head = false ->
  let w := chain_world k extra ch pub in
  let seg := segment ch head stop lim in
  avail pub store seg = true ->
  handle w (kind_view k) stop lim segdl HNominate head store =
    handle_plain w (kind_view k) stop lim HNominate head store /\
  handle w (kind_view k) stop lim segdl HNominate head store =
    HO seg (missing store seg) (rev (missing store seg) ++ store) (length seg) None.
Proof.
  intros Hwf Hin Hs w seg Hav. unfold w, seg in *.
  pose proof (handle_segment k extra ch pub Hwf head stop lim store segdl Hin Hs Hav) as H1.
  pose proof (handle_segment_unsegmented k extra ch pub Hwf head stop lim store (-1) HNominate eq_refl Hin Hs Hav) as H2.
  change (handle (chain_world k extra ch pub) (kind_view k) stop lim (-1) HNominate head store)
    with (handle_plain (chain_world k extra ch pub) (kind_view k) stop lim HNominate head store) in H2.
  cbv zeta in H1, H2. split; [rewrite H1, H2; reflexivity|exact H1].
Qed.

Section AdChainCorollaries.
Variables (extra : list edge) (ch pub : list cid) (cfg : subcfg) (a : adcall) (head : cid) (queried : bool).
Hypothesis Hwf : chain_wf EPrev extra ch = true.
Hypothesis Hstrict : c_strict cfg = true.
Hypothesis Hhook : resolve_hook cfg (a_hook a) = HNominate.
Hypothesis Hhead : the_head a = Some (head, queried).
Hypothesis Hin : In head ch.

Let w := chain_world EPrev extra ch pub.
Let stop st := stop_table (eff_latest cfg st) (a_stop a) (a_resync a).
Let lim st := depth_table (c_ads_depth cfg) (c_first_depth cfg) (a_depth a) (stop st).
Let seg st := segment ch head (stop st) (lim st).

Lemma cor_reported st :
  avail pub (s_store st) (seg st) = true ->
  let o := sync_ad_chain w cfg a st in
  r_ret o = ROk head /\ r_hooks o = seg st /\ NoDup (r_hooks o) /\
  (exists post, from head ch = r_hooks o ++ post) /\
  (forall x, In x (r_hooks o) -> is_stop (stop st) x = false).
Proof.
  intros Hav o. unfold o, w. rewrite (sync_ad_chain_spec extra ch pub cfg a st head queried Hwf Hstrict Hhook Hhead Hin Hav).
  cbn [ad_result r_ret r_hooks]. repeat split.
  - apply segment_NoDup. apply nodupb_NoDup. unfold chain_wf in Hwf. apply andb_prop in Hwf as [_ H]. exact H.
  - apply segment_prefix.
  - intros x Hx. eapply segment_no_stop. exact Hx.
Qed.

Lemma cor_readable st :
  avail pub (s_store st) (seg st) = true ->
  forall x, In x (r_hooks (sync_ad_chain w cfg a st)) ->
    memb x (s_store (r_state (sync_ad_chain w cfg a st))) = true.
Proof.
  intros Hav x. unfold w. rewrite (sync_ad_chain_spec extra ch pub cfg a st head queried Hwf Hstrict Hhook Hhead Hin Hav).
  cbn [ad_result r_hooks r_state s_store]. intro Hx. rewrite memb_app.
  destruct (memb x (s_store st)) eqn:M; [apply orb_true_r|].
  apply orb_true_iff. left. apply memb_In. rewrite <- in_rev. unfold missing. apply filter_In. split; [exact Hx|].
  rewrite M. reflexivity.
Qed.

Lemma cor_requests st :
  avail pub (s_store st) (seg st) = true ->
  let o := sync_ad_chain w cfg a st in
  r_reqs o = missing (s_store st) (r_hooks o) /\
  (forall x, In x (r_reqs o) ->
     memb x (s_store st) = false /\ is_stop (stop st) x = false /\ In x (r_hooks o)) /\
  (forall pre s post, from head ch = pre ++ s :: post -> is_stop (stop st) s = true ->
     forall x, In x (s :: post) -> ~ In x (r_reqs o)).
Proof.
  intros Hav o. unfold o, w. rewrite (sync_ad_chain_spec extra ch pub cfg a st head queried Hwf Hstrict Hhook Hhead Hin Hav).
  cbn [ad_result r_reqs r_hooks]. split; [reflexivity|]. split.
  - intros x Hx. apply missing_In in Hx as [H1 H2]. repeat split; try assumption. eapply segment_no_stop. exact H1.
  - intros pre s post E Hs x Hx Hr. apply missing_In in Hr as [Hr _].
    (* the segment lies before the first stop block of the chain from the head on *)
    unfold seg, segment in Hr. apply cut_In in Hr.
    assert (Hnd : NoDup (from head ch)).
    { destruct (from_suffix head ch) as [p0 E0]. assert (N : NoDup ch).
      { apply nodupb_NoDup. unfold chain_wf in Hwf. apply andb_prop in Hwf as [_ H]. exact H. }
      rewrite E0 in N. eapply NoDup_app_r. exact N. }
    rewrite E in Hr, Hnd.
    assert (Hpre : forall l, In x (take_until (stop st) (l ++ s :: post)) -> In x l).
    { induction l as [|y l IH]; cbn.
      - rewrite Hs. auto.
      - destruct (is_stop (stop st) y); [contradiction|]. intros [->|H]; [left; reflexivity|right; auto]. }
    apply Hpre in Hr. eapply NoDup_app_disj; [exact Hnd|exact Hr|exact Hx].
Qed.

Lemma cor_independent st1 st2 :
  s_latest st1 = s_latest st2 ->
  avail pub (s_store st1) (seg st1) = true -> avail pub (s_store st2) (seg st2) = true ->
  let o1 := sync_ad_chain w cfg a st1 in let o2 := sync_ad_chain w cfg a st2 in
  r_ret o1 = r_ret o2 /\ r_hooks o1 = r_hooks o2 /\ r_event o1 = r_event o2 /\
  s_latest (r_state o1) = s_latest (r_state o2).
Proof.
  intros El H1 H2 o1 o2. unfold o1, o2, w.
  rewrite (sync_ad_chain_spec extra ch pub cfg a st1 head queried Hwf Hstrict Hhook Hhead Hin H1).
  rewrite (sync_ad_chain_spec extra ch pub cfg a st2 head queried Hwf Hstrict Hhook Hhead Hin H2).
  unfold ad_result. cbn [r_ret r_hooks r_event r_state s_latest].
  assert (Ee : eff_latest cfg st1 = eff_latest cfg st2) by (unfold eff_latest; rewrite El; reflexivity).
  unfold seg, lim, stop. rewrite Ee, El. auto.
Qed.

Lemma cor_latest st :
  avail pub (s_store st) (seg st) = true ->
  let o := sync_ad_chain w cfg a st in
  let moved := queried && negb (is_stop (stop st) head) in
  s_latest (r_state o) = (if moved then Some head else s_latest st) /\
  r_event o = (if moved then Some (head, length (r_hooks o)) else None).
Proof.
  intros Hav o moved. unfold o, w. rewrite (sync_ad_chain_spec extra ch pub cfg a st head queried Hwf Hstrict Hhook Hhead Hin Hav).
  split; reflexivity.
Qed.

End AdChainCorollaries.

Theorem sync_all_tree d pub cfg scoped st t :
  dag_has d t = true -> NoDup (preorder t) ->
  avail pub (s_store st) (preorder t) = true ->
  sync_all (WORLD d pub) cfg (Some (root t)) scoped st =
  CO RNil (calls_of (resolve_hook cfg scoped) (preorder t)) (missing (s_store st) (preorder t)) None
     (ST (s_latest st) (rev (missing (s_store st) (preorder t)) ++ s_store st)).
Proof.
  intros Hh Hn Hav. apply sync_all_tree_fuel; try assumption. apply tree_fuel_suffices; assumption.
Qed.

(* ================================================================ *)
(* 5. Non-vacuity                                                    *)

(* a 5-chain 5 -> 4 -> 3 -> 2 -> 1 of advertisements (each with an Entries link the strict
   selector ignores), latest sync = block 1 (so the stop is at position 4), depth limit 3,
   segment size 2, block 4 already stored *)
Definition ex_ch : list cid := [5; 4; 3; 2; 1].
Definition ex_extra : list edge := [(EOther, 999)].
Definition ex_cfg := CFG 3 0 2 0 true HNominate None.
Definition ex_call := ADCALL None None false 0 0 None (Some 5).
Definition ex_st := ST (Some 1) [4].

Example ex_wf : chain_wf EPrev ex_extra ex_ch = true.
Proof. reflexivity. Qed.

Example ex_segment :
  segment ex_ch 5 (stop_table (Some 1) None false) (depth_table 3 0 0 (Some 1)) = [5; 4; 3].
Proof. reflexivity. Qed.

Example ex_avail : avail ex_ch [4] [5; 4; 3] = true.
Proof. reflexivity. Qed.

Example ex_sync :
  sync_ad_chain (chain_world EPrev ex_extra ex_ch ex_ch) ex_cfg ex_call ex_st =
  CO (ROk 5) [5; 4; 3] [5; 3] (Some (5, 3%nat)) (ST (Some 5) [3; 5; 4]).
Proof. vm_compute. reflexivity. Qed.

(* ... and the segmented loop really runs there (two segments) *)
Example ex_segmented : seg_enabled 2 HNominate (Some 3%nat) = true.
Proof. reflexivity. Qed.

Definition ex_tree := Node 7 [Node 5 [Node 1 []; Node 2 []]; Node 6 [Node 3 []; Node 4 []]].
Definition ex_tree_dag : dag :=
  [(1, []); (2, []); (3, []); (4, []); (5, [(EOther, 1); (EOther, 2)]); (6, [(EOther, 3); (EOther, 4)]);
   (7, [(EOther, 5); (EOther, 6)])].

Example ex_tree_ok :
  dag_has ex_tree_dag ex_tree = true /\ nodupb (preorder ex_tree) = true /\
  preorder ex_tree = [7; 5; 1; 2; 6; 3; 4] /\ (depth ex_tree <= S (length ex_tree_dag))%nat.
Proof. repeat split; try reflexivity. vm_compute. lia. Qed.

(* a block reachable on two paths (not a tree) is handed to the hook once per path *)
Example ex_diamond :
  let d := [(1, []); (2, [(EOther, 1)]); (3, [(EOther, 1)]); (4, [(EOther, 2); (EOther, 3)])] in
  o_order (walk 5 (WORLD d [1; 2; 3; 4]) VAll None None 4 []) = [4; 2; 1; 3; 1] /\
  o_reqs (walk 5 (WORLD d [1; 2; 3; 4]) VAll None None 4 []) = [4; 2; 1; 3].
Proof. split; reflexivity. Qed.

(* Syncer.Sync with a selector from the exported builders, over a chain *)
Theorem sync_sel_spec k extra ch pub head stop lim st :
  chain_wf k extra ch = true -> In head ch -> is_stop stop head = false ->
  let seg := segment ch head stop lim in
  avail pub (s_store st) seg = true ->
  sync_sel (chain_world k extra ch pub) (kind_view k) stop lim head st =
  CO RNil seg (missing (s_store st) seg) None
     (ST (s_latest st) (rev (missing (s_store st) seg) ++ s_store st)).
Proof.
  intros Hwf Hin Hs seg Hav. unfold sync_sel, handle_plain.
  rewrite (walk_chain_spec_proved k extra ch pub head stop lim (s_store st) Hwf Hin Hs Hav). reflexivity.
Qed.

(* ================================================================ *)
(* 6. Handler removal                                                *)

(* RemoveHandler / the idle cleaner between calls change nothing observable: the other
   calls have the same outcomes and the final state is the same as without those steps *)
Theorem removal_steps_are_invisible cfg : forall l w st,
  filter (fun p => negb (is_removal (fst p))) (fst (run_seq w cfg l st)) =
    fst (run_seq w cfg (filter (fun c => negb (is_removal c)) l) st) /\
  snd (run_seq w cfg l st) = snd (run_seq w cfg (filter (fun c => negb (is_removal c)) l) st) /\
  (forall c o, In (c, o) (fst (run_seq w cfg l st)) -> is_removal c = true ->
     r_hooks o = [] /\ r_reqs o = [] /\ r_event o = None).
Proof.
  induction l as [|c r IH]; intros w st.
  - cbn. split; [reflexivity|]. split; [reflexivity|]. intros c o [].
  - cbn [run_seq filter]. cbv zeta.
    destruct (is_removal c) eqn:R.
    + assert (Hw : step_world w c = w) by (destruct c; try discriminate; reflexivity).
      rewrite Hw.
      assert (Hst : r_state (run_call w cfg c st) = st) by (destruct c; try discriminate; reflexivity).
      assert (Hq : r_hooks (run_call w cfg c st) = [] /\ r_reqs (run_call w cfg c st) = [] /\ r_event (run_call w cfg c st) = None)
        by (destruct c; try discriminate; cbn; auto).
      rewrite Hst. destruct (IH w st) as (A & B & C).
      destruct (run_seq w cfg r st) as [outs st'] eqn:E. cbn [fst snd negb filter] in *. rewrite R. cbn [negb].
      split; [exact A|]. split; [exact B|].
      intros c1 o1 [X|X] Hc; [inversion X; subst; exact Hq|apply (C c1 o1 X Hc)].
    + cbn [negb run_seq]. cbv zeta. set (w' := step_world w c).
      destruct (IH w' (r_state (run_call w' cfg c st))) as (A & B & C).
      destruct (run_seq w' cfg r (r_state (run_call w' cfg c st))) as [outs st'] eqn:E.
      destruct (run_seq w' cfg (filter (fun c0 => negb (is_removal c0)) r) (r_state (run_call w' cfg c st))) as [outs2 st2] eqn:E2.
      cbn [fst snd filter] in *. rewrite R. cbn [negb].
      split; [f_equal; exact A|]. split; [exact B|].
      intros c1 o1 [X|X] Hc; [inversion X; subst; congruence|apply (C c1 o1 X Hc)].
Qed.

Lemma removal_keeps_latest w cfg c st :
  is_removal c = true -> r_state (run_call w cfg c st) = st /\
  eff_latest cfg (r_state (run_call w cfg c st)) = eff_latest cfg st.
Proof. intro H. destruct c; try discriminate; split; reflexivity. Qed.
