(* C05 -- lemmas and proofs about model/C05_AdSignature.v *)
From Coq Require Import Lia ZifyN ZifyNat ZifyBool.
From Lib Require Import Bytes Varint SymCrypto.
From Model Require Import C05_AdSignature.
From Coq Require Import List.
Import ListNotations.
Open Scope N_scope.
Local Arguments N.mul : simpl never.
Local Arguments N.add : simpl never.
Local Arguments N.sub : simpl never.

(* ------------------------------------------------------------------ *)
(* generalities                                                         *)

Lemma bytes_eqb_refl a : bytes_eqb a a = true.
Proof. apply bytes_eqb_eq. reflexivity. Qed.

Lemma bytes_eqb_false a b : bytes_eqb a b = false <-> a <> b.
Proof.
  split.
  - intros H E. subst. rewrite bytes_eqb_refl in H. discriminate.
  - intro N. destruct (bytes_eqb a b) eqn:E; [|reflexivity]. apply bytes_eqb_eq in E. contradiction.
Qed.

Lemma Ok_inj {A} (a b : A) : Ok a = Ok b -> a = b.
Proof. intro H; injection H; auto. Qed.

Lemma Some_inj {A} (a b : A) : Some a = Some b -> a = b.
Proof. intro H; injection H; auto. Qed.

(* the middle of a concatenation is determined when both ends are fixed: the list lemma
   behind every single-value theorem *)
Lemma app_mid_inj {A} (pre x y post : list A) : pre ++ x ++ post = pre ++ y ++ post -> x = y.
Proof. intro H. apply app_inv_head in H. apply app_inv_tail in H. exact H. Qed.

Lemma Forall2_in_r {A B} (R : A -> B -> Prop) l l' y :
  Forall2 R l l' -> In y l' -> exists x, In x l /\ R x y.
Proof.
  induction 1 as [|x y' l l' Rxy F IH]; intro I; [contradiction|].
  destruct I as [->|I].
  - exists x. split; [left; reflexivity|exact Rxy].
  - destruct (IH I) as (x' & Ix & Rx). exists x'. split; [right; exact Ix|exact Rx].
Qed.

Lemma flag_inj b b' : flag b = flag b' -> b = b'.
Proof. destruct b, b'; cbn; intro H; try reflexivity; discriminate. Qed.

Lemma enc_f_len_mono : forall fuel n m, n <= m -> (length (enc_f fuel n) <= length (enc_f fuel m))%nat.
Proof.
  induction fuel as [|f IH]; intros n m H; cbn [enc_f]; [lia|].
  destruct (n <? 128) eqn:Hn; destruct (m <? 128) eqn:Hm; cbn [length]; try lia.
  apply le_n_S. apply IH. apply N.div_le_mono; lia.
Qed.

(* multihash.Encode is injective in the digest, whatever its length *)
Lemma mh_encode_inj code d d' : mh_encode code d = mh_encode code d' -> d = d'.
Proof.
  unfold mh_encode, lenN. intro H. apply app_inv_head in H.
  assert (L : length d = length d').
  { pose proof (f_equal (@length N) H) as HL. rewrite !app_length in HL. unfold enc in HL.
    destruct (Nat.lt_trichotomy (length d) (length d')) as [Lt|[Eq|Gt]]; [|exact Eq|].
    - pose proof (enc_f_len_mono 10 (N.of_nat (length d)) (N.of_nat (length d')) ltac:(lia)). lia.
    - pose proof (enc_f_len_mono 10 (N.of_nat (length d')) (N.of_nat (length d)) ltac:(lia)). lia. }
  rewrite L in H. apply app_inv_head in H. exact H.
Qed.

Lemma mh_encode_len32 d : length d = 32%nat -> length (mh_encode SHA2_256 d) = 34%nat.
Proof. intro L. unfold mh_encode, lenN. rewrite L. cbn. rewrite L. reflexivity. Qed.

Lemma mh_encode_length code d d' : length d = length d' -> length (mh_encode code d) = length (mh_encode code d').
Proof. intro L. unfold mh_encode, lenN. rewrite !app_length, L. reflexivity. Qed.

(* the constants are not empty and short *)
Lemma consts_ok :
  sig_dom <> [] /\ ad_codec <> [] /\ ep_codec <> [] /\ short sig_dom /\ short ad_codec /\ short ep_codec /\ ad_codec <> ep_codec.
Proof. repeat split; try (vm_compute; discriminate); vm_compute; reflexivity. Qed.

Lemma short_len34 pl : length pl = 34%nat -> short pl.
Proof. intro L. unfold short, lenN. rewrite L. vm_compute. reflexivity. Qed.

(* ------------------------------------------------------------------ *)

Section Proofs.
  Variables privkey pubkey sigt peerid : Type.
  Variable pub : privkey -> pubkey.
  Variable sign : privkey -> bytes -> sigt.
  Variable verify : pubkey -> bytes -> sigt -> bool.
  Variable peer_id : pubkey -> peerid.
  Variable peerid_eqb : peerid -> peerid -> bool.
  Variable Hf : bytes -> bytes.
  Variable decode_pid : bytes -> option peerid.

  Hypothesis eqb_spec : forall a b, peerid_eqb a b = true <-> a = b.

  Local Notation ad := (ad pubkey sigt).
  Local Notation provider := (provider pubkey sigt).
  Local Notation ext := (ext pubkey sigt).
  Local Notation H := (ideal_H Hf).
  Local Notation V strict := (verify_gen verify peer_id peerid_eqb H decode_pid strict).
  Local Notation valid e := (validate verify sig_dom e = true).
  Local Notation mh d := (mh_encode SHA2_256 d).

  Lemma eqb_refl a : peerid_eqb a a = true.
  Proof. apply eqb_spec. reflexivity. Qed.

  Lemma sum256_ideal raw : sum256 H raw = Ok (mh (Hf raw)).
  Proof. reflexivity. Qed.

  (* ---------------- what acceptance means ---------------- *)

  (* the envelope payload is the digest wrapper of the payload (current format, 34 bytes)
     or the raw payload with a multihash header (deprecated format, any other length) *)
  Definition payload_matches (a : ad) (ent pl : bytes) : Prop :=
    (length pl = 34%nat /\ pl = mh (Hf (ad_raw a ent))) \/
    (length pl <> 34%nat /\ pl = mh (ad_raw a ent)).

  Definition named_ok (strict : bool) (a : ad) (signer : peerid) (p : provider) (e : envelope pubkey sigt) : Prop :=
    strict = true ->
    if is_main a p then peer_id (e_key e) = signer
    else decode_pid (p_id p) = Some (peer_id (e_key e)).

  Definition ep_accepts (strict : bool) (a : ad) (x : ext) (signer : peerid) (p : provider) : Prop :=
    exists e ent, p_sig p = Some e /\ valid e /\ a_rm a = false /\ a_entries a = Some ent /\
                  e_payload e = mh (Hf (ep_raw a x p ent)) /\ named_ok strict a signer p e.

  Lemma ep_check_ok_iff strict a x signer p m :
    ep_check verify peer_id peerid_eqb H decode_pid strict a x signer p = Ok m <->
    ep_accepts strict a x signer p /\ m = is_main a p.
  Proof.
    unfold ep_check, ep_accepts, named_ok, ep_payload, sum256, ideal_H.
    destruct (consume verify (p_sig p) sig_dom) as [e| |] eqn:C; cbn [bind].
    2,3: split; [discriminate|]; intros [(e & ent & Hs & Hv & _) _];
         assert (C' : consume verify (p_sig p) sig_dom = Ok e) by (apply consume_ok_iff; auto); congruence.
    apply consume_ok_iff in C as [Hs Hv].
    destruct (a_rm a) eqn:Rm; cbn [bind].
    { split; [discriminate|]. intros [(e' & ent & _ & _ & R & _) _]. discriminate. }
    destruct (a_entries a) as [ent|] eqn:En; cbn [bind].
    2:{ split; [discriminate|]. intros [(e' & ent & _ & _ & _ & R & _) _]. discriminate. }
    destruct (bytes_eqb (mh (Hf (ep_raw a x p ent))) (e_payload e)) eqn:B; cbn [negb].
    2:{ split; [discriminate|]. intros [(e' & ent' & Hs' & _ & _ & En' & P & _) _].
        rewrite Hs in Hs'. inversion Hs'; subst e'. inversion En'; subst ent'.
        rewrite P, bytes_eqb_refl in B. discriminate. }
    apply bytes_eqb_eq in B.
    assert (Base : forall (Q : Prop), Q ->
              (exists e0 ent0, p_sig p = Some e0 /\ valid e0 /\ false = false /\ Some ent = Some ent0 /\
                               e_payload e0 = mh (Hf (ep_raw a x p ent0)) /\ Q) \/ True) by (intros; right; exact I).
    clear Base.
    destruct strict.
    - destruct (is_main a p) eqn:M.
      + destruct (peerid_eqb (peer_id (e_key e)) signer) eqn:E.
        * apply eqb_spec in E. split.
          -- intro R. apply Ok_inj in R. subst m. split; [|reflexivity].
             exists e, ent. repeat split; auto; try (intros _; try rewrite M; try congruence; auto).
          -- intros [_ ->]. reflexivity.
        * split; [discriminate|]. intros [(e' & ent' & Hs' & _ & _ & _ & _ & Nm) _].
          rewrite Hs in Hs'. inversion Hs'; subst e'. specialize (Nm eq_refl). try rewrite M in Nm. cbn in Nm.
          apply eqb_spec in Nm. congruence.
      + destruct (decode_pid (p_id p)) as [id|] eqn:D.
        * destruct (peerid_eqb (peer_id (e_key e)) id) eqn:E.
          -- apply eqb_spec in E. split.
             ++ intro R. apply Ok_inj in R. subst m. split; [|reflexivity].
                exists e, ent. repeat split; auto; try (intros _; try rewrite M; try congruence; auto).
             ++ intros [_ ->]. reflexivity.
          -- split; [discriminate|]. intros [(e' & ent' & Hs' & _ & _ & _ & _ & Nm) _].
             rewrite Hs in Hs'. inversion Hs'; subst e'. specialize (Nm eq_refl). try rewrite M in Nm. cbn in Nm.
             inversion Nm; subst id. rewrite eqb_refl in E. discriminate.
        * split; [discriminate|]. intros [(e' & ent' & Hs' & _ & _ & _ & _ & Nm) _].
          specialize (Nm eq_refl). try rewrite M in Nm. cbn in Nm. discriminate.
    - split.
      + intro R. apply Ok_inj in R. subst m. split; [|reflexivity].
        exists e, ent. repeat split; auto; try discriminate.
      + intros [_ ->]. reflexivity.
  Qed.

  Lemma verify_eps_ok_iff strict a x signer ps : forall seen s,
    verify_eps verify peer_id peerid_eqb H decode_pid strict a x signer ps seen = Ok s <->
    Forall (ep_accepts strict a x signer) ps /\ s = (seen || existsb (is_main a) ps)%bool.
  Proof.
    induction ps as [|p r IH]; intros seen s; cbn [verify_eps existsb].
    - rewrite orb_false_r. split.
      + intro R. apply Ok_inj in R. subst. split; [constructor|reflexivity].
      + intros [_ ->]. reflexivity.
    - destruct (ep_check verify peer_id peerid_eqb H decode_pid strict a x signer p) as [m| |] eqn:C; cbn [bind].
      + apply ep_check_ok_iff in C as [Acc ->]. rewrite IH. rewrite orb_assoc. split.
        * intros [F ->]. split; [constructor; assumption|reflexivity].
        * intros [F ->]. inversion F; subst. split; [assumption|reflexivity].
      + split; [discriminate|]. intros [F _]. inversion F; subst.
        assert (C' : ep_check verify peer_id peerid_eqb H decode_pid strict a x signer p = Ok (is_main a p))
          by (apply ep_check_ok_iff; auto). congruence.
      + split; [discriminate|]. intros [F _]. inversion F; subst.
        assert (C' : ep_check verify peer_id peerid_eqb H decode_pid strict a x signer p = Ok (is_main a p))
          by (apply ep_check_ok_iff; auto). congruence.
  Qed.

  Definition ext_accepts (strict : bool) (a : ad) (signer : peerid) : Prop :=
    match a_ext a with
    | None => True
    | Some x => Forall (ep_accepts strict a x signer) (x_providers x) /\
                (x_providers x = [] \/ existsb (is_main a) (x_providers x) = true)
    end.

  (* VerifySignature succeeds exactly when ... *)
  Theorem verify_ok_iff strict a s :
    V strict a = Ok s <->
    exists e ent, a_sig a = Some e /\ valid e /\ a_entries a = Some ent /\
                  payload_matches a ent (e_payload e) /\ s = peer_id (e_key e) /\ ext_accepts strict a s.
  Proof.
    unfold verify_gen, ext_accepts, payload_matches, signature_payload, sig_size. rewrite ?sum256_ideal.
    destruct (consume verify (a_sig a) sig_dom) as [e| |] eqn:C; cbn [bind].
    2,3: split; [discriminate|]; intros (e & ent & Hs & Hv & _);
         assert (C' : consume verify (a_sig a) sig_dom = Ok e) by (apply consume_ok_iff; auto); congruence.
    apply consume_ok_iff in C as [Hs Hv].
    destruct (a_entries a) as [ent|] eqn:En; cbn [bind].
    2:{ split; [discriminate|]. intros (e' & ent & _ & _ & R & _). discriminate. }
    rewrite ?sum256_ideal.
    assert (PM : forall gen, (if negb (Nat.eqb (length (e_payload e)) 34) then Ok (mh (ad_raw a ent)) else Ok (mh (Hf (ad_raw a ent)))) = Ok gen ->
                 (bytes_eqb gen (e_payload e) = true <->
                  ((length (e_payload e) = 34%nat /\ e_payload e = mh (Hf (ad_raw a ent))) \/
                   (length (e_payload e) <> 34%nat /\ e_payload e = mh (ad_raw a ent))))).
    { intros gen G. destruct (Nat.eqb (length (e_payload e)) 34) eqn:L; cbn [negb] in G; apply Ok_inj in G; subst gen.
      - apply Nat.eqb_eq in L. rewrite bytes_eqb_eq. split.
        + intro E. left. auto.
        + intros [[_ E]|[N _]]; [auto|contradiction].
      - apply Nat.eqb_neq in L. rewrite bytes_eqb_eq. split.
        + intro E. right. auto.
        + intros [[N _]|[_ E]]; [contradiction|auto]. }
    destruct (negb (Nat.eqb (length (e_payload e)) 34)) eqn:Old; cbn [bind].
    - specialize (PM _ eq_refl).
      destruct (bytes_eqb (mh (ad_raw a ent)) (e_payload e)) eqn:B; cbn [negb].
      + destruct (a_ext a) as [x|] eqn:X.
        * destruct (verify_eps verify peer_id peerid_eqb H decode_pid strict a x (peer_id (e_key e)) (x_providers x) false) as [seen| |] eqn:L; cbn [bind].
          -- apply verify_eps_ok_iff in L as [F ->]. cbn [orb].
             destruct (existsb (is_main a) (x_providers x)) eqn:Ex; cbn [negb andb].
             ++ split.
                ** intro R. apply Ok_inj in R. subst s. exists e, ent. repeat split; auto. apply PM; reflexivity.
                ** intros (e' & ent' & Hs' & _ & _ & _ & -> & _). rewrite Hs in Hs'. inversion Hs'. reflexivity.
             ++ destruct (x_providers x) as [|p0 r0] eqn:Ps; cbn [is_nil negb].
                ** split.
                   --- intro R. apply Ok_inj in R. subst s. exists e, ent. repeat split; auto. apply PM; reflexivity.
                   --- intros (e' & ent' & Hs' & _ & _ & _ & -> & _). rewrite Hs in Hs'. inversion Hs'. reflexivity.
                ** split; [discriminate|].
                   intros (e' & ent' & Hs' & _ & _ & _ & -> & _ & [N|Ex']); [discriminate|].
                   rewrite Hs in Hs'. inversion Hs'; subst e'. congruence.
          -- split; [discriminate|].
             intros (e' & ent' & Hs' & _ & _ & _ & -> & F & _). rewrite Hs in Hs'. inversion Hs'; subst e'.
             assert (L' : verify_eps verify peer_id peerid_eqb H decode_pid strict a x (peer_id (e_key e)) (x_providers x) false = Ok (false || existsb (is_main a) (x_providers x))%bool)
               by (apply verify_eps_ok_iff; auto). congruence.
          -- split; [discriminate|].
             intros (e' & ent' & Hs' & _ & _ & _ & -> & F & _). rewrite Hs in Hs'. inversion Hs'; subst e'.
             assert (L' : verify_eps verify peer_id peerid_eqb H decode_pid strict a x (peer_id (e_key e)) (x_providers x) false = Ok (false || existsb (is_main a) (x_providers x))%bool)
               by (apply verify_eps_ok_iff; auto). congruence.
        * split.
          -- intro R. apply Ok_inj in R. subst s. exists e, ent. repeat split; auto. apply PM; reflexivity.
          -- intros (e' & ent' & Hs' & _ & _ & _ & -> & _). rewrite Hs in Hs'. inversion Hs'. reflexivity.
      + split; [discriminate|]. intros (e' & ent' & Hs' & _ & En' & P & _).
        rewrite Hs in Hs'. inversion Hs'; subst e'. inversion En'; subst ent'.
        apply PM in P. discriminate.
    - specialize (PM _ eq_refl).
      destruct (bytes_eqb (mh (Hf (ad_raw a ent))) (e_payload e)) eqn:B; cbn [negb].
      + destruct (a_ext a) as [x|] eqn:X.
        * destruct (verify_eps verify peer_id peerid_eqb H decode_pid strict a x (peer_id (e_key e)) (x_providers x) false) as [seen| |] eqn:L; cbn [bind].
          -- apply verify_eps_ok_iff in L as [F ->]. cbn [orb].
             destruct (existsb (is_main a) (x_providers x)) eqn:Ex; cbn [negb andb].
             ++ split.
                ** intro R. apply Ok_inj in R. subst s. exists e, ent. repeat split; auto. apply PM; reflexivity.
                ** intros (e' & ent' & Hs' & _ & _ & _ & -> & _). rewrite Hs in Hs'. inversion Hs'. reflexivity.
             ++ destruct (x_providers x) as [|p0 r0] eqn:Ps; cbn [is_nil negb].
                ** split.
                   --- intro R. apply Ok_inj in R. subst s. exists e, ent. repeat split; auto. apply PM; reflexivity.
                   --- intros (e' & ent' & Hs' & _ & _ & _ & -> & _). rewrite Hs in Hs'. inversion Hs'. reflexivity.
                ** split; [discriminate|].
                   intros (e' & ent' & Hs' & _ & _ & _ & -> & _ & [N|Ex']); [discriminate|].
                   rewrite Hs in Hs'. inversion Hs'; subst e'. congruence.
          -- split; [discriminate|].
             intros (e' & ent' & Hs' & _ & _ & _ & -> & F & _). rewrite Hs in Hs'. inversion Hs'; subst e'.
             assert (L' : verify_eps verify peer_id peerid_eqb H decode_pid strict a x (peer_id (e_key e)) (x_providers x) false = Ok (false || existsb (is_main a) (x_providers x))%bool)
               by (apply verify_eps_ok_iff; auto). congruence.
          -- split; [discriminate|].
             intros (e' & ent' & Hs' & _ & _ & _ & -> & F & _). rewrite Hs in Hs'. inversion Hs'; subst e'.
             assert (L' : verify_eps verify peer_id peerid_eqb H decode_pid strict a x (peer_id (e_key e)) (x_providers x) false = Ok (false || existsb (is_main a) (x_providers x))%bool)
               by (apply verify_eps_ok_iff; auto). congruence.
        * split.
          -- intro R. apply Ok_inj in R. subst s. exists e, ent. repeat split; auto. apply PM; reflexivity.
          -- intros (e' & ent' & Hs' & _ & _ & _ & -> & _). rewrite Hs in Hs'. inversion Hs'. reflexivity.
      + split; [discriminate|]. intros (e' & ent' & Hs' & _ & En' & P & _).
        rewrite Hs in Hs'. inversion Hs'; subst e'. inversion En'; subst ent'.
        apply PM in P. discriminate.
  Qed.

  (* ---------------- never a panic once the entries link is there ---------------- *)

  Lemma verify_no_panic strict a : a_entries a <> None -> is_panic (V strict a) = false.
  Proof.
    intro En. destruct (a_entries a) as [ent|] eqn:E; [clear En|contradiction].
    unfold verify_gen, signature_payload. rewrite E.
    pose proof (consume_not_panic _ _ verify (a_sig a) sig_dom) as C.
    destruct (consume verify (a_sig a) sig_dom) as [e| |]; cbn [bind]; try reflexivity; [|discriminate].
    rewrite sum256_ideal.
    destruct (negb (Nat.eqb _ sig_size)); cbn [bind].
    all: destruct (negb (bytes_eqb _ _)); try reflexivity.
    all: destruct (a_ext a) as [x|]; try reflexivity.
    all: assert (L : forall ps seen, is_panic (verify_eps verify peer_id peerid_eqb H decode_pid strict a x (peer_id (e_key e)) ps seen) = false).
    1,3: induction ps as [|p r IH]; intro seen; cbn [verify_eps]; [reflexivity|];
         unfold ep_check, ep_payload; rewrite E;
         pose proof (consume_not_panic _ _ verify (p_sig p) sig_dom) as Cp;
         destruct (consume verify (p_sig p) sig_dom) as [ep| |]; cbn [bind]; try reflexivity; [|discriminate];
         destruct (a_rm a); cbn [bind]; try reflexivity; rewrite sum256_ideal; cbn [bind];
         destruct (negb (bytes_eqb _ _)); cbn [bind]; try reflexivity;
         destruct strict; [destruct (is_main a p); [destruct (peerid_eqb _ _)|destruct (decode_pid _) as [id|]; [destruct (peerid_eqb _ _)|]]|];
         cbn [bind]; try reflexivity; apply IH.
    all: specialize (L (x_providers x) false);
         destruct (verify_eps _ _ _ _ _ _ _ _ _ _ _) as [seen| |]; cbn [bind] in *; try reflexivity; try discriminate;
         destruct (negb seen && negb (is_nil (x_providers x)))%bool; reflexivity.
  Qed.

  (* the one way to panic: a nil Entries interface behind a valid envelope *)
  Lemma verify_nil_entries strict a e :
    a_entries a = None -> a_sig a = Some e -> valid e -> V strict a = Panic PNilEntries.
  Proof.
    intros En Hs Hv. unfold verify_gen, signature_payload. rewrite En.
    assert (C : consume verify (a_sig a) sig_dom = Ok e) by (apply consume_ok_iff; auto).
    rewrite C. reflexivity.
  Qed.

  (* ---------------- one signature, one payload ---------------- *)

  Hypothesis Hinj : H_injective Hf.

  Lemma same_sig_same_raw st st' a b s s' ea eb :
    V st a = Ok s -> V st' b = Ok s' -> a_sig a = a_sig b ->
    a_entries a = Some ea -> a_entries b = Some eb -> ad_raw a ea = ad_raw b eb.
  Proof.
    intros Va Vb Sg Ea Eb.
    apply verify_ok_iff in Va as (e & ent & Hs & _ & En & PM & _).
    apply verify_ok_iff in Vb as (e' & ent' & Hs' & _ & En' & PM' & _).
    rewrite Ea in En. rewrite Eb in En'. apply Some_inj in En. apply Some_inj in En'. subst ent ent'.
    rewrite Sg, Hs' in Hs. apply Some_inj in Hs. subst e'.
    destruct PM as [[L P]|[L P]], PM' as [[L' P']|[L' P']]; try contradiction.
    - rewrite P in P'. apply mh_encode_inj in P'. apply Hinj in P'. exact P'.
    - rewrite P in P'. apply mh_encode_inj in P'. exact P'.
  Qed.

  Lemma ep_same_sig_same_raw st st' a b x y s s' p q ea eb :
    ep_accepts st a x s p -> ep_accepts st' b y s' q -> p_sig p = p_sig q ->
    a_entries a = Some ea -> a_entries b = Some eb -> ep_raw a x p ea = ep_raw b y q eb.
  Proof.
    intros (e & ent & Hs & _ & _ & En & P & _) (e' & ent' & Hs' & _ & _ & En' & P' & _) Sg Ea Eb.
    rewrite Ea in En. rewrite Eb in En'. apply Some_inj in En. apply Some_inj in En'. subst ent ent'.
    rewrite Sg, Hs' in Hs. apply Some_inj in Hs. subst e'.
    rewrite P in P'. apply mh_encode_inj in P'. apply Hinj in P'. exact P'.
  Qed.

  (* record updates: one value replaced, everything else (signatures included) kept *)
  Definition upd_prev (a : ad) v : ad := Ad v (a_provider a) (a_addrs a) (a_sig a) (a_entries a) (a_ctx a) (a_md a) (a_rm a) (a_ext a).
  Definition upd_entries (a : ad) v : ad := Ad (a_prev a) (a_provider a) (a_addrs a) (a_sig a) v (a_ctx a) (a_md a) (a_rm a) (a_ext a).
  Definition upd_provider (a : ad) v : ad := Ad (a_prev a) v (a_addrs a) (a_sig a) (a_entries a) (a_ctx a) (a_md a) (a_rm a) (a_ext a).
  Definition upd_addrs (a : ad) v : ad := Ad (a_prev a) (a_provider a) v (a_sig a) (a_entries a) (a_ctx a) (a_md a) (a_rm a) (a_ext a).
  Definition upd_md (a : ad) v : ad := Ad (a_prev a) (a_provider a) (a_addrs a) (a_sig a) (a_entries a) (a_ctx a) v (a_rm a) (a_ext a).
  Definition upd_rm (a : ad) v : ad := Ad (a_prev a) (a_provider a) (a_addrs a) (a_sig a) (a_entries a) (a_ctx a) (a_md a) v (a_ext a).
  Definition upd_ctx (a : ad) v : ad := Ad (a_prev a) (a_provider a) (a_addrs a) (a_sig a) (a_entries a) v (a_md a) (a_rm a) (a_ext a).
  Definition upd_pid (p : provider) v : provider := Provider v (p_addrs p) (p_md p) (p_sig p).
  Definition upd_paddrs (p : provider) v : provider := Provider (p_id p) v (p_md p) (p_sig p).
  Definition upd_pmd (p : provider) v : provider := Provider (p_id p) (p_addrs p) v (p_sig p).

  Lemma concat_mid (l1 l2 : list bytes) x : concat (l1 ++ x :: l2) = concat l1 ++ x ++ concat l2.
  Proof. rewrite concat_app. reflexivity. Qed.

  Lemma accepted_has_entries st a s : V st a = Ok s -> exists ent, a_entries a = Some ent.
  Proof. intro Va. apply verify_ok_iff in Va as (e & ent & _ & _ & En & _). eauto. Qed.

  Ltac reject_by_raw Va b :=
    let Vb := fresh "Vb" in
    destruct (verify_gen verify peer_id peerid_eqb H decode_pid _ b) eqn:Vb; [exfalso|reflexivity|reflexivity].

  (* the six values of the advertisement payload *)
  Theorem ad_value_change_rejected st st' a s :
    V st a = Ok s ->
    (forall v, link_bytes v <> link_bytes (a_prev a) -> is_ok (V st' (upd_prev a v)) = false) /\
    (forall v, v <> a_entries a -> is_ok (V st' (upd_entries a v)) = false) /\
    (forall v, v <> a_provider a -> is_ok (V st' (upd_provider a v)) = false) /\
    (forall l1 x l2 x', a_addrs a = l1 ++ x :: l2 -> x' <> x -> is_ok (V st' (upd_addrs a (l1 ++ x' :: l2))) = false) /\
    (forall v, v <> a_md a -> is_ok (V st' (upd_md a v)) = false) /\
    (forall v, v <> a_rm a -> is_ok (V st' (upd_rm a v)) = false).
  Proof.
    intro Va. destruct (accepted_has_entries _ _ _ Va) as [ent H0]. repeat split.
    - intros v N. reject_by_raw Va (upd_prev a v).
      pose proof (same_sig_same_raw _ _ _ _ _ _ _ _ Va Vb eq_refl H0 H0) as R.
      unfold ad_raw in R; cbn in R. apply app_inv_tail in R. congruence.
    - intros v N. reject_by_raw Va (upd_entries a v).
      destruct v as [v|].
      + pose proof (same_sig_same_raw _ _ _ _ _ _ _ _ Va Vb eq_refl H0 eq_refl) as R.
        unfold ad_raw in R; cbn in R. apply app_inv_head in R. apply app_inv_tail in R. congruence.
      + apply verify_ok_iff in Vb as (? & ? & _ & _ & E & _). discriminate.
    - intros v N. reject_by_raw Va (upd_provider a v).
      pose proof (same_sig_same_raw _ _ _ _ _ _ _ _ Va Vb eq_refl H0 H0) as R.
      unfold ad_raw in R; cbn in R. do 2 apply app_inv_head in R. apply app_inv_tail in R. congruence.
    - intros l1 x l2 x' Ad N. reject_by_raw Va (upd_addrs a (l1 ++ x' :: l2)).
      pose proof (same_sig_same_raw _ _ _ _ _ _ _ _ Va Vb eq_refl H0 H0) as R.
      unfold ad_raw in R; cbn in R. rewrite Ad, !concat_mid, <- !app_assoc in R.
      do 4 apply app_inv_head in R. apply app_inv_tail in R. congruence.
    - intros v N. reject_by_raw Va (upd_md a v).
      pose proof (same_sig_same_raw _ _ _ _ _ _ _ _ Va Vb eq_refl H0 H0) as R.
      unfold ad_raw in R; cbn in R. do 4 apply app_inv_head in R. apply app_inv_tail in R. congruence.
    - intros v N. reject_by_raw Va (upd_rm a v).
      pose proof (same_sig_same_raw _ _ _ _ _ _ _ _ Va Vb eq_refl H0 H0) as R.
      unfold ad_raw in R; cbn in R. do 5 apply app_inv_head in R. apply flag_inj in R. congruence.
  Qed.
  (* the five further values of an extended-provider payload *)

  Lemma ext_accepts_in st a s x p :
    ext_accepts st a s -> a_ext a = Some x -> In p (x_providers x) -> ep_accepts st a x s p.
  Proof.
    unfold ext_accepts. intros EA X I. rewrite X in EA. destruct EA as [F _].
    rewrite Forall_forall in F. apply F. exact I.
  Qed.

  Lemma accepted_ep st a s x p :
    V st a = Ok s -> a_ext a = Some x -> In p (x_providers x) -> ep_accepts st a x s p.
  Proof.
    intros Va X I. apply verify_ok_iff in Va as (e & ent & _ & _ & _ & _ & -> & EA).
    eapply ext_accepts_in; eauto.
  Qed.

  Definition upd_providers (a : ad) (x : ext) (ps : list provider) : ad := set_ext a (Some (Ext ps (x_override x))).
  Definition upd_override (a : ad) (x : ext) (v : bool) : ad := set_ext a (Some (Ext (x_providers x) v)).

  Theorem ep_value_change_rejected st st' a s x :
    V st a = Ok s -> a_ext a = Some x ->
    (* context ID and override flag: as soon as there is one entry *)
    (forall v, x_providers x <> [] -> v <> a_ctx a -> is_ok (V st' (upd_ctx a v)) = false) /\
    (forall v, x_providers x <> [] -> v <> x_override x -> is_ok (V st' (upd_override a x v)) = false) /\
    (* one entry's identity, one of its addresses, its metadata *)
    (forall l1 p l2 v, x_providers x = l1 ++ p :: l2 -> v <> p_id p ->
       is_ok (V st' (upd_providers a x (l1 ++ upd_pid p v :: l2))) = false) /\
    (forall l1 p l2 m1 y m2 y', x_providers x = l1 ++ p :: l2 -> p_addrs p = m1 ++ y :: m2 -> y' <> y ->
       is_ok (V st' (upd_providers a x (l1 ++ upd_paddrs p (m1 ++ y' :: m2) :: l2))) = false) /\
    (forall l1 p l2 v, x_providers x = l1 ++ p :: l2 -> v <> p_md p ->
       is_ok (V st' (upd_providers a x (l1 ++ upd_pmd p v :: l2))) = false).
  Proof.
    intros Va X. destruct (accepted_has_entries _ _ _ Va) as [ent En].
    split; [|split; [|split; [|split]]].
    - intros v Ne N. reject_by_raw Va (upd_ctx a v).
      destruct (x_providers x) as [|p r] eqn:Ps; [contradiction|].
      assert (I : In p (x_providers x)) by (rewrite Ps; left; reflexivity).
      pose proof (accepted_ep _ _ _ _ _ Va X I) as A1.
      pose proof (accepted_ep _ (upd_ctx a v) _ x p Vb X I) as A2.
      pose proof (ep_same_sig_same_raw _ _ _ _ _ _ _ _ _ _ _ _ A1 A2 eq_refl En En) as R.
      unfold ep_raw in R; cbn in R. do 3 apply app_inv_head in R. apply app_inv_tail in R. congruence.
    - intros v Ne N. reject_by_raw Va (upd_override a x v).
      destruct (x_providers x) as [|p r] eqn:Ps; [contradiction|].
      assert (I : In p (x_providers x)) by (rewrite Ps; left; reflexivity).
      pose proof (accepted_ep _ _ _ _ _ Va X I) as A1.
      assert (I2 : In p (x_providers (Ext (x_providers x) v))) by exact I.
      pose proof (accepted_ep _ (upd_override a x v) _ _ p Vb eq_refl I2) as A2.
      pose proof (ep_same_sig_same_raw _ _ _ _ _ _ _ _ _ _ _ _ A1 A2 eq_refl En En) as R.
      unfold ep_raw in R; cbn in R. do 7 apply app_inv_head in R. apply flag_inj in R. congruence.
    - intros l1 p l2 v Ps N. reject_by_raw Va (upd_providers a x (l1 ++ upd_pid p v :: l2)).
      assert (I : In p (x_providers x)) by (rewrite Ps; apply in_elt).
      pose proof (accepted_ep _ _ _ _ _ Va X I) as A1.
      assert (I2 : In (upd_pid p v) (x_providers (Ext (l1 ++ upd_pid p v :: l2) (x_override x)))) by apply in_elt.
      pose proof (accepted_ep _ (upd_providers a x (l1 ++ upd_pid p v :: l2)) _ _ _ Vb eq_refl I2) as A2.
      pose proof (ep_same_sig_same_raw _ _ _ _ _ _ _ _ _ _ _ _ A1 A2 eq_refl En En) as R.
      unfold ep_raw in R; cbn in R. do 4 apply app_inv_head in R. apply app_inv_tail in R. congruence.
    - intros l1 p l2 m1 y m2 y' Ps Pa N.
      reject_by_raw Va (upd_providers a x (l1 ++ upd_paddrs p (m1 ++ y' :: m2) :: l2)).
      assert (I : In p (x_providers x)) by (rewrite Ps; apply in_elt).
      pose proof (accepted_ep _ _ _ _ _ Va X I) as A1.
      assert (I2 : In (upd_paddrs p (m1 ++ y' :: m2)) (x_providers (Ext (l1 ++ upd_paddrs p (m1 ++ y' :: m2) :: l2) (x_override x)))) by apply in_elt.
      pose proof (accepted_ep _ (upd_providers a x (l1 ++ upd_paddrs p (m1 ++ y' :: m2) :: l2)) _ _ _ Vb eq_refl I2) as A2.
      pose proof (ep_same_sig_same_raw _ _ _ _ _ _ _ _ _ _ _ _ A1 A2 eq_refl En En) as R.
      unfold ep_raw in R; cbn in R. rewrite Pa, !concat_mid, <- !app_assoc in R.
      do 6 apply app_inv_head in R. apply app_inv_tail in R. congruence.
    - intros l1 p l2 v Ps N. reject_by_raw Va (upd_providers a x (l1 ++ upd_pmd p v :: l2)).
      assert (I : In p (x_providers x)) by (rewrite Ps; apply in_elt).
      pose proof (accepted_ep _ _ _ _ _ Va X I) as A1.
      assert (I2 : In (upd_pmd p v) (x_providers (Ext (l1 ++ upd_pmd p v :: l2) (x_override x)))) by apply in_elt.
      pose proof (accepted_ep _ (upd_providers a x (l1 ++ upd_pmd p v :: l2)) _ _ _ Vb eq_refl I2) as A2.
      pose proof (ep_same_sig_same_raw _ _ _ _ _ _ _ _ _ _ _ _ A1 A2 eq_refl En En) as R.
      unfold ep_raw in R; cbn in R. do 6 apply app_inv_head in R. apply app_inv_tail in R. congruence.
  Qed.

  (* ---------------- main provider, named identities ---------------- *)

  Theorem main_provider_listed st a s x :
    V st a = Ok s -> a_ext a = Some x -> x_providers x <> [] -> existsb (is_main a) (x_providers x) = true.
  Proof.
    intros Va X Ne. apply verify_ok_iff in Va as (e & ent & _ & _ & _ & _ & _ & EA).
    unfold ext_accepts in EA. rewrite X in EA. destruct EA as [_ [E|E]]; [contradiction|exact E].
  Qed.

  Hypothesis VS : VerifySign pub sign verify.
  Hypothesis VU : VerifyUnique pub sign verify.

  (* with the fix: every entry's envelope was sealed by a key whose peer ID is the identity
     the entry names -- the advertisement's own signer for the main provider's entry *)
  Theorem ep_sealed_by_named a s x p :
    V true a = Ok s -> a_ext a = Some x -> In p (x_providers x) ->
    exists e k, p_sig p = Some e /\ e_key e = pub k /\
                e_sig e = sign k (unsigned sig_dom (e_ty e) (e_payload e)) /\
                (if is_main a p then peer_id (pub k) = s else decode_pid (p_id p) = Some (peer_id (pub k))).
  Proof.
    intros Va X I. pose proof (accepted_ep _ _ _ _ _ Va X I) as (e & ent & Hs & Hv & _ & _ & _ & Nm).
    apply (validate_iff _ _ _ pub sign verify VS VU) in Hv as (k & Hk & Hsg).
    exists e, k. repeat split; auto. specialize (Nm eq_refl). rewrite Hk in Nm. exact Nm.
  Qed.

  (* and the advertisement's own envelope by the key whose peer ID is returned *)
  Theorem signer_is_sealer st a s :
    V st a = Ok s ->
    exists e k, a_sig a = Some e /\ e_key e = pub k /\ s = peer_id (pub k) /\
                e_sig e = sign k (unsigned sig_dom (e_ty e) (e_payload e)).
  Proof.
    intro Va. apply verify_ok_iff in Va as (e & ent & Hs & Hv & _ & _ & -> & _).
    apply (validate_iff _ _ _ pub sign verify VS VU) in Hv as (k & Hk & Hsg).
    exists e, k. rewrite Hk. auto.
  Qed.

  (* ---------------- envelopes ---------------- *)

  Lemma invalid_ad_envelope st a e : a_sig a = Some e -> validate verify sig_dom e = false -> V st a = Err EEnvSignature.
  Proof. intros Hs Hv. unfold verify_gen, consume. rewrite Hs, Hv. reflexivity. Qed.

  Lemma unparsable_ad_envelope st a : a_sig a = None -> V st a = Err EEnvParse.
  Proof. intros Hs. unfold verify_gen, consume. rewrite Hs. reflexivity. Qed.

  Lemma invalid_ep_envelope st a x p :
    a_ext a = Some x -> In p (x_providers x) ->
    (p_sig p = None \/ exists e, p_sig p = Some e /\ validate verify sig_dom e = false) ->
    is_ok (V st a) = false.
  Proof.
    intros X I Bad. destruct (V st a) eqn:Va; [exfalso|reflexivity|reflexivity].
    pose proof (accepted_ep _ _ _ _ _ Va X I) as (e & ent & Hs & Hv & _).
    destruct Bad as [N|(e' & Hs' & Hv')]; [congruence|].
    rewrite Hs in Hs'. apply Some_inj in Hs'. subst. congruence.
  Qed.

  Hypothesis SI : SignInjective sign.
  Hypothesis PI : PubInjective pub.

  (* an envelope obtained from a sealed one by altering exactly one of its four fields *)
  Inductive altered : envelope pubkey sigt -> Prop :=
  | AltKey k ty pl pk' : short ty -> short pl -> pk' <> pub k ->
      altered (Envelope pk' ty pl (sign k (unsigned sig_dom ty pl)))
  | AltType k ty pl ty' : short ty -> short pl -> short ty' -> ty' <> ty ->
      altered (Envelope (pub k) ty' pl (sign k (unsigned sig_dom ty pl)))
  | AltPayload k ty pl pl' : short ty -> short pl -> short pl' -> pl' <> pl ->
      altered (Envelope (pub k) ty pl' (sign k (unsigned sig_dom ty pl)))
  | AltSig k ty pl s' : short ty -> short pl -> s' <> sign k (unsigned sig_dom ty pl) ->
      altered (Envelope (pub k) ty pl s').

  Lemma altered_invalid e : altered e -> validate verify sig_dom e = false.
  Proof.
    pose proof consts_ok as (_ & _ & _ & Sd & _).
    intros [k ty pl pk' St Sp N|k ty pl ty' St Sp St' N|k ty pl pl' St Sp Sp' N|k ty pl s' St Sp N].
    - apply (validate_altered_key _ _ _ pub sign verify VS VU SI); assumption.
    - apply (validate_altered_type _ _ _ pub sign verify VS VU SI); assumption.
    - apply (validate_altered_payload _ _ _ pub sign verify VS VU SI); assumption.
    - apply (validate_altered_sig _ _ _ pub sign verify VU); assumption.
  Qed.

  Theorem envelope_change_rejected st a :
    (forall e, a_sig a = Some e -> altered e -> V st a = Err EEnvSignature) /\
    (a_sig a = None -> V st a = Err EEnvParse) /\
    (forall x p, a_ext a = Some x -> In p (x_providers x) ->
                 (p_sig p = None \/ exists e, p_sig p = Some e /\ altered e) -> is_ok (V st a) = false).
  Proof.
    split; [|split].
    - intros e Hs A. apply invalid_ad_envelope with e; [exact Hs|apply altered_invalid; exact A].
    - apply unparsable_ad_envelope.
    - intros x p X I [N|(e & Hs & A)]; eapply invalid_ep_envelope; eauto.
      right. exists e. split; [exact Hs|apply altered_invalid; exact A].
  Qed.

  (* ---------------- what the library signs, verifies ---------------- *)

  Hypothesis Hlen : H_len32 Hf.

  Lemma sign_ad_spec k a :
    sign_ad pub sign H k a =
    match a_entries a with
    | None => Panic PNilEntries
    | Some ent => let pl := mh (Hf (ad_raw a ent)) in
                  Ok (set_sig a (Some (Envelope (pub k) ad_codec pl (sign k (unsigned sig_dom ad_codec pl)))))
    end.
  Proof.
    pose proof consts_ok as (Nd & Na & _).
    unfold sign_ad, signature_payload. destruct (a_entries a) as [ent|]; [|reflexivity].
    rewrite sum256_ideal. cbn [bind]. rewrite seal_ok by assumption. reflexivity.
  Qed.

  Lemma sealed_valid k ty pl : validate verify sig_dom (Envelope (pub k) ty pl (sign k (unsigned sig_dom ty pl))) = true.
  Proof. unfold validate. cbn. apply VS. Qed.

  Lemma signed_ad_accepts k a ent st :
    a_entries a = Some ent ->
    let pl := mh (Hf (ad_raw a ent)) in
    let a1 := set_sig a (Some (Envelope (pub k) ad_codec pl (sign k (unsigned sig_dom ad_codec pl)))) in
    forall b, a_sig b = a_sig a1 -> a_entries b = Some ent -> ad_raw b ent = ad_raw a ent ->
              ext_accepts st b (peer_id (pub k)) -> V st b = Ok (peer_id (pub k)).
  Proof.
    intros En pl a1 b Sg Eb Rb EA. apply verify_ok_iff.
    eexists _, ent. split; [exact Sg|]. split; [apply sealed_valid|]. split; [exact Eb|].
    split; [|split; [reflexivity|exact EA]].
    left. cbn [e_payload]. split; [apply mh_encode_len32, Hlen|]. rewrite Rb. reflexivity.
  Qed.

  (* Sign then VerifySignature: the peer ID of the signing key *)
  Theorem sign_verify_plain st a k a' :
    sign_plain pub sign H a k = Ok a' -> V st a' = Ok (peer_id (pub k)).
  Proof.
    unfold sign_plain. destruct (a_ext a) as [x|] eqn:X; [discriminate|].
    rewrite sign_ad_spec. destruct (a_entries a) as [ent|] eqn:En; [|discriminate].
    intro R. apply Ok_inj in R. subst a'.
    eapply signed_ad_accepts with (a := a); eauto.
    unfold ext_accepts. cbn. rewrite X. exact I.
  Qed.

  (* the entries SignWithExtendedProviders seals *)
  Definition sealed_entry (a : ad) (x : ext) (k : privkey) (fetch : bytes -> res privkey) (ent : bytes)
             (p p' : provider) : Prop :=
    exists key, (if is_main a p then key = k else fetch (p_id p) = Ok key) /\
      let pl := mh (Hf (ep_raw a x p ent)) in
      p' = set_psig p (Some (Envelope (pub key) ep_codec pl (sign key (unsigned sig_dom ep_codec pl)))).

  Lemma sign_eps_spec a x k fetch ent : a_entries a = Some ent ->
    forall ps ps', sign_eps pub sign H a x k fetch ps = Ok ps' ->
                   Forall2 (sealed_entry a x k fetch ent) ps ps' /\ (ps <> [] -> a_rm a = false).
  Proof.
    intro En. pose proof consts_ok as (Nd & _ & Ne & _).
    induction ps as [|p r IH]; intros ps' S; cbn [sign_eps] in S.
    - apply Ok_inj in S. subst. split; [constructor|congruence].
    - unfold ep_payload in S. destruct (a_rm a) eqn:Rm; [discriminate|]. rewrite En, sum256_ideal in S. cbn [bind] in S.
      destruct (if is_main a p then Ok k else fetch (p_id p)) as [key| |] eqn:K; try discriminate. cbn [bind] in S.
      rewrite seal_ok in S by assumption. cbn [bind] in S.
      destruct (sign_eps pub sign H a x k fetch r) as [r'| |] eqn:R; try discriminate. cbn [bind] in S.
      apply Ok_inj in S. subst ps'. destruct (IH _ eq_refl) as [F _]. split; [|reflexivity].
      constructor; [|exact F]. exists key. split; [|reflexivity].
      destruct (is_main a p); [apply Ok_inj in K; auto|exact K].
  Qed.

  (* SignWithExtendedProviders then VerifySignature (with the fix), when the key fetcher
     hands out, for every other entry, the key of the identity the entry names *)
  Theorem sign_verify_eps a k fetch a' :
    sign_with_eps pub sign H a k fetch = Ok a' ->
    (forall x p, a_ext a = Some x -> In p (x_providers x) -> is_main a p = false ->
                 forall key, fetch (p_id p) = Ok key -> decode_pid (p_id p) = Some (peer_id (pub key))) ->
    V true a' = Ok (peer_id (pub k)).
  Proof.
    unfold sign_with_eps. rewrite sign_ad_spec. destruct (a_entries a) as [ent|] eqn:En; [|discriminate].
    cbn [bind]. cbn [a_ext set_sig].
    destruct (a_ext a) as [x|] eqn:X.
    2:{ intros R _. apply Ok_inj in R. subst a'. eapply signed_ad_accepts with (a := a); eauto.
        unfold ext_accepts. cbn. rewrite X. exact I. }
    set (a1 := set_sig a _).
    destruct (sign_eps pub sign H a1 x k fetch (x_providers x)) as [ps'| |] eqn:S; try discriminate. cbn [bind].
    destruct (negb (existsb (is_main a1) ps') && negb (is_nil ps'))%bool eqn:Chk; [discriminate|].
    intros R Fetch. apply Ok_inj in R. subst a'.
    destruct (sign_eps_spec a1 x k fetch ent En _ _ S) as [F Rm].
    eapply signed_ad_accepts with (a := a); eauto.
    unfold ext_accepts. cbn [a_ext set_ext x_providers]. split.
    - clear Chk. apply Forall_forall. intros p' Ip'.
      destruct (Forall2_in_r _ _ _ _ F Ip') as (p & Ip & key & Kk & ->).
      assert (Ne : x_providers x <> []) by (destruct (x_providers x); [contradiction|discriminate]).
      exists (Envelope (pub key) ep_codec (mh (Hf (ep_raw a1 x p ent))) (sign key (unsigned sig_dom ep_codec (mh (Hf (ep_raw a1 x p ent)))))), ent.
      split; [reflexivity|]. split; [apply sealed_valid|]. split; [exact (Rm Ne)|]. split; [exact En|].
      split; [reflexivity|]. intros _.
      change (is_main (set_ext a1 (Some (Ext ps' (x_override x)))) (set_psig p (Some _))) with (is_main a p).
      cbn [e_key]. destruct (is_main a p) eqn:M.
      + change (is_main a1 p) with (is_main a p) in Kk. rewrite M in Kk. subst key. reflexivity.
      + change (is_main a1 p) with (is_main a p) in Kk. rewrite M in Kk.
        cbn [p_id set_psig]. eapply Fetch; eauto.
    - apply andb_false_iff in Chk as [C|C].
      + right. apply negb_false_iff in C. exact C.
      + left. apply negb_false_iff in C. destruct ps'; [reflexivity|discriminate].
  Qed.

  (* ... and SignWithExtendedProviders refuses what verification would refuse *)
  Theorem sign_requires_main a k fetch a' x :
    sign_with_eps pub sign H a k fetch = Ok a' -> a_ext a' = Some x -> x_providers x <> [] ->
    existsb (is_main a') (x_providers x) = true /\ a_rm a' = false.
  Proof.
    unfold sign_with_eps. rewrite sign_ad_spec. destruct (a_entries a) as [ent|] eqn:En; [|discriminate].
    cbn [bind]. cbn [a_ext set_sig].
    destruct (a_ext a) as [x0|] eqn:X.
    - set (a1 := set_sig a _).
      destruct (sign_eps pub sign H a1 x0 k fetch (x_providers x0)) as [ps'| |] eqn:S; try discriminate. cbn [bind].
      destruct (negb (existsb (is_main a1) ps') && negb (is_nil ps'))%bool eqn:Chk; [discriminate|].
      intros R X' Ne. apply Ok_inj in R. subst a'. cbn in X'. apply Some_inj in X'. subst x. cbn [x_providers] in *.
      destruct (sign_eps_spec a1 x0 k fetch ent En _ _ S) as [F Rm]. split.
      + apply andb_false_iff in Chk as [C|C]; apply negb_false_iff in C; [exact C|].
        destruct ps'; [contradiction|discriminate].
      + apply Rm. intro E. rewrite E in F. inversion F; subst. contradiction.
    - intros R X'. apply Ok_inj in R. subst a'. cbn in X'. congruence.
  Qed.
End Proofs.

(* ------------------------------------------------------------------ *)
(* re-signing: signatures already present never influence what signing produces *)

Section Resign.
  Variables privkey pubkey sigt : Type.
  Variable pub : privkey -> pubkey.
  Variable sign : privkey -> bytes -> sigt.
  Variable H : bytes -> res bytes.

  Local Notation ad := (ad pubkey sigt).
  Local Notation provider := (provider pubkey sigt).

  Lemma sign_eps_erase (a a' : ad) x x' k fetch :
    a_prev a = a_prev a' -> a_entries a = a_entries a' -> a_provider a = a_provider a' ->
    a_ctx a = a_ctx a' -> a_rm a = a_rm a' -> x_override x = x_override x' ->
    forall ps, sign_eps pub sign H a x k fetch ps = sign_eps pub sign H a' x' k fetch (map erase_psig ps).
  Proof.
    intros E1 E2 E3 E4 E5 E6. induction ps as [|p r IH]; [reflexivity|].
    cbn [map sign_eps].
    assert (P : ep_payload H a x p = ep_payload H a' x' (erase_psig p)).
    { unfold ep_payload, ep_raw. rewrite E1, E2, E3, E4, E5, E6. destruct p; reflexivity. }
    assert (M : is_main a p = is_main a' (erase_psig p)).
    { unfold is_main. rewrite E3. destruct p; reflexivity. }
    rewrite P, M, IH. destruct p; reflexivity.
  Qed.

  Lemma sign_ad_erase k (a : ad) :
    sign_ad pub sign H k (erase_sigs a) = (a1 <- sign_ad pub sign H k a ;; Ok (set_ext a1 (a_ext (erase_sigs a)))).
  Proof.
    unfold sign_ad, signature_payload. destruct a as [pv pr ad0 sg en cx md rm ex]. cbn.
    destruct en as [ent|]; [|reflexivity]. cbn.
    destruct (sum256 H _) as [pl| |]; cbn; try reflexivity;
      try (destruct (seal pub sign sig_dom ad_codec pl k); reflexivity).
  Qed.

  (* Sign / SignWithExtendedProviders give the same result on an advertisement and on the
     same advertisement with every signature removed: the result depends on the signed
     values and the keys only *)
  Theorem resign_erase (a : ad) k fetch :
    sign_plain pub sign H a k = sign_plain pub sign H (erase_sigs a) k /\
    sign_with_eps pub sign H a k fetch = sign_with_eps pub sign H (erase_sigs a) k fetch.
  Proof.
    split.
    - unfold sign_plain. destruct a as [pv pr ad0 sg en cx md rm [x|]]; cbn; [reflexivity|].
      unfold sign_ad, signature_payload. cbn. reflexivity.
    - unfold sign_with_eps. rewrite sign_ad_erase.
      destruct (sign_ad pub sign H k a) as [a1| |] eqn:S1; cbn [bind]; try reflexivity.
      assert (F : a_prev a1 = a_prev a /\ a_entries a1 = a_entries a /\ a_provider a1 = a_provider a /\
                  a_ctx a1 = a_ctx a /\ a_rm a1 = a_rm a /\ a_ext a1 = a_ext a /\ a_addrs a1 = a_addrs a /\ a_md a1 = a_md a).
      { unfold sign_ad in S1. destruct (signature_payload H a false); try discriminate. cbn [bind] in S1.
        destruct (seal pub sign sig_dom ad_codec a0 k); try discriminate. cbn [bind] in S1.
        apply Ok_inj in S1. subst a1. repeat split; reflexivity. }
      destruct F as (F1 & F2 & F3 & F4 & F5 & F6 & F7 & F8).
      cbn [a_ext set_ext]. rewrite F6. unfold erase_sigs. cbn [a_ext].
      destruct (a_ext a) as [x|] eqn:X; cbn [option_map].
      + cbn [x_providers x_override].
        rewrite (sign_eps_erase a1 (set_ext a1 (Some (Ext (map erase_psig (x_providers x)) (x_override x))))
                   x (Ext (map erase_psig (x_providers x)) (x_override x)) k fetch) by reflexivity.
        destruct (sign_eps pub sign H _ _ k fetch (map erase_psig (x_providers x))) as [ps'| |]; cbn [bind]; try reflexivity.
      + destruct a1; cbn in *. subst. reflexivity.
  Qed.

  (* hence: two values of the struct that agree on everything but signatures are signed alike *)
  Theorem resign_same_values (a b : ad) k fetch :
    erase_sigs a = erase_sigs b ->
    sign_plain pub sign H a k = sign_plain pub sign H b k /\
    sign_with_eps pub sign H a k fetch = sign_with_eps pub sign H b k fetch.
  Proof.
    intro E. destruct (resign_erase a k fetch) as [A1 A2]. destruct (resign_erase b k fetch) as [B1 B2].
    rewrite A1, A2, B1, B2, E. auto.
  Qed.
End Resign.

(* ------------------------------------------------------------------ *)
(* statements of props/Properties_C05.v that combine lemmas *)

Section Combined.
  Variables privkey pubkey sigt peerid : Type.
  Variable pub : privkey -> pubkey.
  Variable sign : privkey -> bytes -> sigt.
  Variable verify : pubkey -> bytes -> sigt -> bool.
  Variable peer_id : pubkey -> peerid.
  Variable peerid_eqb : peerid -> peerid -> bool.
  Variable Hf : bytes -> bytes.
  Variable decode_pid : bytes -> option peerid.
  Hypothesis eqb_spec : forall a b, peerid_eqb a b = true <-> a = b.
  Hypothesis VS : VerifySign pub sign verify.
  Hypothesis Hlen : H_len32 Hf.

  Local Notation V strict := (verify_gen verify peer_id peerid_eqb (ideal_H Hf) decode_pid strict).

  Lemma sign_verify_all :
    (forall st a k a', sign_plain pub sign (ideal_H Hf) a k = Ok a' -> V st a' = Ok (peer_id (pub k))) /\
    (forall a k fetch a',
       sign_with_eps pub sign (ideal_H Hf) a k fetch = Ok a' ->
       (forall x p, a_ext a = Some x -> In p (x_providers x) -> is_main a p = false ->
                    forall key, fetch (p_id p) = Ok key -> decode_pid (p_id p) = Some (peer_id (pub key))) ->
       V true a' = Ok (peer_id (pub k))).
  Proof.
    split.
    - intros. eapply sign_verify_plain; eauto.
    - intros. eapply sign_verify_eps; eauto.
  Qed.

  (* composed with any serialisation that round-trips (C13 proves the real ones do) *)
  Lemma sign_verify_round_trip (encode : ad pubkey sigt -> bytes) (decode : bytes -> option (ad pubkey sigt)) :
    (forall a, decode (encode a) = Some a) ->
    (forall st a k a', sign_plain pub sign (ideal_H Hf) a k = Ok a' ->
                       option_map (V st) (decode (encode a')) = Some (Ok (peer_id (pub k)))) /\
    (forall a k fetch a',
       sign_with_eps pub sign (ideal_H Hf) a k fetch = Ok a' ->
       (forall x p, a_ext a = Some x -> In p (x_providers x) -> is_main a p = false ->
                    forall key, fetch (p_id p) = Ok key -> decode_pid (p_id p) = Some (peer_id (pub key))) ->
       option_map (V true) (decode (encode a')) = Some (Ok (peer_id (pub k)))).
  Proof.
    intro RT. destruct sign_verify_all as [A B]. split.
    - intros. rewrite RT. cbn. f_equal. eapply A; eauto.
    - intros. rewrite RT. cbn. f_equal. eapply B; eauto.
  Qed.

  Lemma main_provider_required_all :
    (forall st a s x, V st a = Ok s -> a_ext a = Some x -> x_providers x <> [] ->
                      existsb (is_main a) (x_providers x) = true) /\
    (forall a k fetch a' x, sign_with_eps pub sign (ideal_H Hf) a k fetch = Ok a' -> a_ext a' = Some x ->
                            x_providers x <> [] -> existsb (is_main a') (x_providers x) = true /\ a_rm a' = false).
  Proof.
    split.
    - intros. eapply main_provider_listed; eauto.
    - intros. eapply sign_requires_main; eauto.
  Qed.

  Lemma panic_characterised :
    (forall st a, a_entries a <> None -> is_panic (V st a) = false) /\
    (forall st a e, a_entries a = None -> a_sig a = Some e -> validate verify sig_dom e = true ->
                    V st a = Panic PNilEntries).
  Proof.
    split.
    - intros. apply verify_no_panic. assumption.
    - intros. eapply verify_nil_entries; eauto.
  Qed.
End Combined.

(* ------------------------------------------------------------------ *)
(* every entry of the extended-provider list is checked, whatever the other fields are *)

Section EntriesAlwaysChecked.
  Variables pubkey sigt peerid : Type.
  Variable verify : pubkey -> bytes -> sigt -> bool.
  Variable peer_id : pubkey -> peerid.
  Variable peerid_eqb : peerid -> peerid -> bool.
  Variable Hf : bytes -> bytes.
  Variable decode_pid : bytes -> option peerid.
  Hypothesis eqb_spec : forall a b, peerid_eqb a b = true <-> a = b.

  Local Notation V strict := (verify_gen verify peer_id peerid_eqb (ideal_H Hf) decode_pid strict).

  (* For EVERY advertisement -- every previous / entries link, provider, addresses, context
     ID, metadata, removal flag, signature -- and every list x: if the advertisement carrying
     x verifies then every entry of x passed its own check, the main provider is listed when
     x is not empty, and the advertisement is not a removal when x is not empty. *)
  Lemma entries_always_checked strict (a : ad pubkey sigt) x s :
    V strict a = Ok s -> a_ext a = Some x ->
    Forall (ep_accepts pubkey sigt peerid verify peer_id Hf decode_pid strict a x s) (x_providers x) /\
    (x_providers x <> [] -> a_rm a = false /\ existsb (is_main a) (x_providers x) = true).
  Proof.
    intros Va X. apply verify_ok_iff in Va as (e & ent & _ & _ & _ & _ & _ & EA); [|exact eqb_spec].
    unfold ext_accepts in EA. rewrite X in EA. destruct EA as [F M]. split; [exact F|].
    intro Ne. split.
    - destruct (x_providers x) as [|p r]; [contradiction|].
      inversion F as [|? ? (e' & ent' & _ & _ & Rm & _) _]. exact Rm.
    - destruct M as [E|E]; [contradiction|exact E].
  Qed.

  (* repeats included: an entry whose ID already occurs earlier in the list gets the same
     check as any other (there is no "already seen" shortcut) *)
  Lemma repeated_id_entries_checked strict (a : ad pubkey sigt) x s l1 p l2 q l3 :
    V strict a = Ok s -> a_ext a = Some x -> x_providers x = l1 ++ p :: l2 ++ q :: l3 -> p_id q = p_id p ->
    ep_accepts pubkey sigt peerid verify peer_id Hf decode_pid strict a x s p /\
    ep_accepts pubkey sigt peerid verify peer_id Hf decode_pid strict a x s q.
  Proof.
    intros Va X Ps _. destruct (entries_always_checked _ _ _ _ Va X) as [F _].
    rewrite Ps in F. rewrite Forall_forall in F. split; apply F.
    - apply in_elt.
    - apply in_or_app. right. right. apply in_elt.
  Qed.

  (* in particular: whatever is attached to a removal advertisement, it is rejected; and so
     is any list with an entry whose signature field is absent or does not validate *)
  Lemma removal_with_entries_rejected strict (a : ad pubkey sigt) x :
    a_ext a = Some x -> x_providers x <> [] -> a_rm a = true -> is_ok (V strict a) = false.
  Proof.
    intros X Ne Rm. destruct (V strict a) as [s| |] eqn:Va; [exfalso|reflexivity|reflexivity].
    destruct (entries_always_checked _ _ _ _ Va X) as [_ M]. destruct (M Ne) as [R _]. congruence.
  Qed.

  (* replacing the list of an accepted advertisement: the new list is checked entry by
     entry, for every value of every other field (they are those of [a], arbitrary) *)
  Lemma replaced_list_checked strict strict' (a : ad pubkey sigt) s x' s' :
    V strict a = Ok s -> V strict' (set_ext a (Some x')) = Ok s' ->
    s' = s /\
    Forall (ep_accepts pubkey sigt peerid verify peer_id Hf decode_pid strict' (set_ext a (Some x')) x' s) (x_providers x') /\
    (x_providers x' <> [] -> a_rm a = false /\ existsb (is_main a) (x_providers x') = true).
  Proof.
    intros Va Vb.
    assert (S : s' = s).
    { apply verify_ok_iff in Va as (e & ent & Hs & _ & _ & _ & -> & _); [|exact eqb_spec].
      apply verify_ok_iff in Vb as (e' & ent' & Hs' & _ & _ & _ & -> & _); [|exact eqb_spec].
      cbn in Hs'. rewrite Hs in Hs'. apply Some_inj in Hs'. subst. reflexivity. }
    subst s'. destruct (entries_always_checked _ _ _ _ Vb eq_refl) as [F M]. auto.
  Qed.
End EntriesAlwaysChecked.

(* ------------------------------------------------------------------ *)
(* an entry's addresses and metadata, replaced together                 *)

Section EntryValues.
  Variables pubkey sigt peerid : Type.
  Variable verify : pubkey -> bytes -> sigt -> bool.
  Variable peer_id : pubkey -> peerid.
  Variable peerid_eqb : peerid -> peerid -> bool.
  Variable Hf : bytes -> bytes.
  Variable decode_pid : bytes -> option peerid.
  Hypothesis eqb_spec : forall a b, peerid_eqb a b = true <-> a = b.
  Hypothesis Hinj : H_injective Hf.

  Local Notation V strict := (verify_gen verify peer_id peerid_eqb (ideal_H Hf) decode_pid strict).

  Definition upd_pvalues (p : provider pubkey sigt) (addrs : list bytes) (md : bytes) : provider pubkey sigt :=
    Provider (p_id p) addrs md (p_sig p).

  (* Whatever the entry (the main provider's or not), whatever the new address list and
     metadata -- empty, the advertisement's own, anything: unless the signed bytes
     concat addrs ++ md are the same, the advertisement is rejected. *)
  Lemma entry_values_change_rejected st st' (a : ad pubkey sigt) s x l1 p l2 addrs' md' :
    V st a = Ok s -> a_ext a = Some x -> x_providers x = l1 ++ p :: l2 ->
    concat addrs' ++ md' <> concat (p_addrs p) ++ p_md p ->
    is_ok (V st' (upd_providers pubkey sigt a x (l1 ++ upd_pvalues p addrs' md' :: l2))) = false.
  Proof.
    intros Va X Ps N.
    destruct (accepted_has_entries _ _ _ verify peer_id peerid_eqb Hf decode_pid eqb_spec _ _ _ Va) as [ent En].
    destruct (V st' (upd_providers pubkey sigt a x (l1 ++ upd_pvalues p addrs' md' :: l2))) as [s'| |] eqn:Vb;
      [exfalso|reflexivity|reflexivity].
    assert (I1 : In p (x_providers x)) by (rewrite Ps; apply in_elt).
    pose proof (accepted_ep _ _ _ verify peer_id peerid_eqb Hf decode_pid eqb_spec _ _ _ _ _ Va X I1) as A1.
    assert (I2 : In (upd_pvalues p addrs' md') (x_providers (Ext (l1 ++ upd_pvalues p addrs' md' :: l2) (x_override x)))) by apply in_elt.
    pose proof (accepted_ep _ _ _ verify peer_id peerid_eqb Hf decode_pid eqb_spec _ _ _ _ _ Vb eq_refl I2) as A2.
    pose proof (ep_same_sig_same_raw _ _ _ verify peer_id Hf decode_pid Hinj _ _ _ _ _ _ _ _ _ _ ent ent A1 A2 eq_refl En En) as R.
    unfold ep_raw in R; cbn in R. do 5 apply app_inv_head in R.
    rewrite !app_assoc in R. apply app_inv_tail in R. congruence.
  Qed.

  (* the two special cases a "may be omitted" shortcut would confuse: a value cleared, and a
     value replaced by the advertisement's own *)
  Lemma entry_values_cleared_or_copied_rejected st st' (a : ad pubkey sigt) s x l1 p l2 :
    V st a = Ok s -> a_ext a = Some x -> x_providers x = l1 ++ p :: l2 ->
    (p_md p <> [] -> is_ok (V st' (upd_providers pubkey sigt a x (l1 ++ upd_pvalues p (p_addrs p) [] :: l2))) = false) /\
    (concat (p_addrs p) <> [] -> is_ok (V st' (upd_providers pubkey sigt a x (l1 ++ upd_pvalues p [] (p_md p) :: l2))) = false) /\
    (a_md a <> p_md p -> is_ok (V st' (upd_providers pubkey sigt a x (l1 ++ upd_pvalues p (p_addrs p) (a_md a) :: l2))) = false) /\
    (concat (a_addrs a) <> concat (p_addrs p) ->
       is_ok (V st' (upd_providers pubkey sigt a x (l1 ++ upd_pvalues p (a_addrs a) (p_md p) :: l2))) = false).
  Proof.
    intros Va X Ps. repeat split; intro N; eapply entry_values_change_rejected; eauto.
    - intro E. apply app_inv_head in E. congruence.
    - intro E. cbn in E. apply N. rewrite <- (app_nil_l (p_md p)) in E at 1. apply app_inv_tail in E. congruence.
    - intro E. apply app_inv_head in E. congruence.
    - intro E. apply app_inv_tail in E. congruence.
  Qed.
End EntryValues.

(* ------------------------------------------------------------------ *)
(* the signature covers the identity STRINGS: another spelling of the same peer ID
   (peer.Decode gives the same peer) is a changed signed value like any other *)

Section Spelling.
  Variables pubkey sigt peerid : Type.
  Variable verify : pubkey -> bytes -> sigt -> bool.
  Variable peer_id : pubkey -> peerid.
  Variable peerid_eqb : peerid -> peerid -> bool.
  Variable Hf : bytes -> bytes.
  Variable decode_pid : bytes -> option peerid.
  Hypothesis eqb_spec : forall a b, peerid_eqb a b = true <-> a = b.
  Hypothesis Hinj : H_injective Hf.

  Local Notation V strict := (verify_gen verify peer_id peerid_eqb (ideal_H Hf) decode_pid strict).

  Lemma respelled_rejected st st' (a : ad pubkey sigt) s :
    V st a = Ok s ->
    (forall v, v <> a_provider a -> decode_pid v = decode_pid (a_provider a) ->
       is_ok (V st' (upd_provider pubkey sigt a v)) = false) /\
    (forall x l1 p l2 v, a_ext a = Some x -> x_providers x = l1 ++ p :: l2 ->
       v <> p_id p -> decode_pid v = decode_pid (p_id p) ->
       is_ok (V st' (upd_providers pubkey sigt a x (l1 ++ upd_pid pubkey sigt p v :: l2))) = false).
  Proof.
    intro Va. split.
    - intros v N _.
      destruct (ad_value_change_rejected _ _ _ verify peer_id peerid_eqb Hf decode_pid eqb_spec Hinj st st' a s Va) as (_ & _ & T3 & _).
      apply T3. exact N.
    - intros x l1 p l2 v X Ps N _.
      destruct (ep_value_change_rejected _ _ _ verify peer_id peerid_eqb Hf decode_pid eqb_spec Hinj st st' a s x Va X) as (_ & _ & U3 & _).
      apply U3; assumption.
  Qed.
End Spelling.

(* ------------------------------------------------------------------ *)
(* the premises can be met together, and concrete runs on the symbolic instance *)

Module Witness.
  (* an injective "hash" with 32-element digests (elements of [bytes] are unbounded
     naturals in the model, so injectivity and the fixed length coexist) *)
  Fixpoint dbl (n : nat) (x : N) : N := match n with O => x | S n' => 2 * dbl n' x end.
  Fixpoint code (l : bytes) : N :=
    match l with [] => 0 | a :: r => dbl (N.to_nat a) (2 * code r + 1) end.
  Definition Hw (x : bytes) : bytes := code x :: repeat 0 31.

  Lemma dbl_inj : forall n n' b b', dbl n (2 * b + 1) = dbl n' (2 * b' + 1) -> n = n' /\ b = b'.
  Proof.
    induction n as [|n IH]; intros [|n'] b b' E; cbn [dbl] in E.
    - split; [reflexivity|lia].
    - exfalso. lia.
    - exfalso. lia.
    - assert (E' : dbl n (2 * b + 1) = dbl n' (2 * b' + 1)) by lia.
      destruct (IH _ _ _ E') as [-> ->]. auto.
  Qed.

  Lemma dbl_pos n b : 0 < dbl n (2 * b + 1).
  Proof. induction n; cbn [dbl]; lia. Qed.

  Lemma code_inj : forall x y, code x = code y -> x = y.
  Proof.
    induction x as [|a r IH]; intros [|a' r'] E; cbn [code] in E.
    - reflexivity.
    - pose proof (dbl_pos (N.to_nat a') (code r')). lia.
    - pose proof (dbl_pos (N.to_nat a) (code r)). lia.
    - apply dbl_inj in E as [En Ec]. apply N2Nat.inj in En. subst. f_equal. apply IH. exact Ec.
  Qed.

  Lemma Hw_len : H_len32 Hw.
  Proof. intro x. reflexivity. Qed.
  Lemma Hw_inj : H_injective Hw.
  Proof. intros x y E. unfold Hw in E. inversion E. apply code_inj. assumption. Qed.

  (* a cheap 32-element digest for running examples *)
  Definition toyH (x : bytes) : bytes := firstn 32 (x ++ repeat 0 32).

  Local Notation SV strict ids := (verify_gen Sym.verify Sym.peer_id Sym.peerid_eqb (ideal_H toyH) (ids_decode ids) strict).
  Local Notation Ssign := (sign_with_eps Sym.pub Sym.sign (ideal_H toyH)).

  (* key 0 publishes for itself (ID string "P"); it lists itself and identity "A" (key 1)
     as extended providers, and seals A's entry with key 2 -- the key fetcher is the
     caller's, the library signs with whatever it returns *)
  Definition ids0 : list (bytes * N) := [([80], 0); ([65], 1)].
  Definition ad0 : sad :=
    SA None [80] [[47; 97]] None (Some [1; 85; 18; 3]) [7] [9; 9] false
       (Some (SX [SP [80] [] [5] None; SP [65] [[47; 98]] [6] None] false)).
  Definition fetch_wrong (id : bytes) : res N := if bytes_eqb id [65] then Ok 2 else Err EFetch.
  Definition fetch_right (id : bytes) : res N := if bytes_eqb id [65] then Ok 1 else Err EFetch.

  (* the unrepaired verification accepts "names A, sealed by key 2"; the repaired one does
     not; with A's own key both accept and return the signer *)
  Example named_by_A_sealed_by_other :
    (a <- Ssign ad0 0 fetch_wrong ;; SV false ids0 a) = Ok 0 /\
    (a <- Ssign ad0 0 fetch_wrong ;; SV true ids0 a) = Err ENotNamed /\
    (a <- Ssign ad0 0 fetch_right ;; SV true ids0 a) = Ok 0.
  Proof. repeat split; vm_compute; reflexivity. Qed.

  (* the delimiter-free boundary the property excludes: a byte moved from the end of the
     provider string to the front of the first address leaves the signed bytes unchanged *)
  Definition plain0 : sad := SA None [80; 81] [[47; 97]] None (Some [1; 85; 18; 3]) [] [9] false None.
  Definition shifted (a : sad) : sad :=
    Ad (a_prev a) [80] [[81; 47; 97]] (a_sig a) (a_entries a) (a_ctx a) (a_md a) (a_rm a) (a_ext a).
  Example adjacent_shift :
    (a <- sign_plain Sym.pub Sym.sign (ideal_H toyH) plain0 0 ;; SV true ids0 a) = Ok 0 /\
    (a <- sign_plain Sym.pub Sym.sign (ideal_H toyH) plain0 0 ;; SV true ids0 (shifted a)) = Ok 0 /\
    a_provider (shifted plain0) <> a_provider plain0.
  Proof. repeat split; try (vm_compute; reflexivity). vm_compute. discriminate. Qed.

  (* the same boundary inside an entry: the last byte of the entry's only address moved to
     the front of its metadata (or an address split in two) leaves the signed bytes unchanged *)
  Definition ep_shifted (a : sad) : sad :=
    match a_ext a with
    | Some x => match x_providers x with
                | p0 :: p1 :: r =>
                  set_ext a (Some (Ext (p0 :: Provider (p_id p1) [[47]] (98 :: p_md p1) (p_sig p1) :: r) (x_override x)))
                | _ => a
                end
    | None => a
    end.
  Example entry_adjacent_shift :
    (a <- Ssign ad0 0 fetch_right ;; SV true ids0 (ep_shifted a)) = Ok 0 /\
    (a <- Ssign ad0 0 fetch_right ;; Ok (bytes_eqb (a_md (ep_shifted a)) (a_md a))) = Ok true /\
    (a <- Ssign ad0 0 fetch_right ;;
     Ok (match a_ext (ep_shifted a), a_ext a with
         | Some x, Some y => list_eqb bytes_eqb (map (fun p : sprov => p_md p) (x_providers x)) (map (fun p : sprov => p_md p) (x_providers y))
         | _, _ => true end)) = Ok false.
  Proof. repeat split; vm_compute; reflexivity. Qed.

  (* observation: ConsumeTypedEnvelope does not look at the payload type, so an extended
     provider's authorisation (key 1 over prev, entries, provider, ctx, its ID, addresses,
     metadata, override=0) is accepted as the SIGNATURE OF AN ADVERTISEMENT by key 1 whose
     address list and metadata concatenate to the same bytes *)
  Definition reuse (a : sad) : res sad :=
    match a_ext a with
    | Some x => match x_providers x with
                | _ :: p :: _ =>
                  Ok (Ad (a_prev a) (a_provider a) [a_ctx a ++ p_id p ++ concat (p_addrs p)] (p_sig p)
                         (a_entries a) (a_ctx a) (p_md p) false None)
                | _ => Err 0
                end
    | None => Err 0
    end.
  Example ep_signature_reused_as_ad_signature :
    (a <- Ssign ad0 0 fetch_right ;; b <- reuse a ;; SV true ids0 b) = Ok 1.
  Proof. vm_compute. reflexivity. Qed.

  (* observation: the list of extended providers is not covered by the advertisement's own
     signature; dropping it altogether still verifies *)
  Example extended_providers_removable :
    (a <- Ssign ad0 0 fetch_right ;; SV true ids0 (set_ext a None)) = Ok 0.
  Proof. vm_compute. reflexivity. Qed.
End Witness.

Lemma laws_inhabited :
  VerifySign Sym.pub Sym.sign Sym.verify /\ VerifyUnique Sym.pub Sym.sign Sym.verify /\
  SignInjective Sym.sign /\ PubInjective Sym.pub /\ PeerIdInjective Sym.peer_id /\
  (forall a b, Sym.peerid_eqb a b = true <-> a = b) /\
  H_len32 Witness.Hw /\ H_injective Witness.Hw.
Proof.
  destruct Sym.laws as (A & B & C & D & E).
  split; [exact A|]. split; [exact B|]. split; [exact C|]. split; [exact D|]. split; [exact E|].
  split; [exact Sym.peerid_eqb_eq|]. split; [exact Witness.Hw_len|exact Witness.Hw_inj].
Qed.
