(* GenTie_P3_C11 -- metadata.UnmarshalBinary as a whole.

   Phase 2 tied one iteration of the loop (GenTie_C11.UnmarshalBinary_step / _done).  Here the
   regenerated body (gen/Gen_Funcs_metadata.v, metadata_UnmarshalBinary_all: `var read int64;
   for read < int64(len(data)) { ... }; return m.Validate()`) is run to its end: the loop against
   the model's parse_all, the last statement `return m.Validate()` (how the body leaves) together
   with the regenerated Validate against the model's validate, i.e. the whole of
   Metadata.UnmarshalBinary against model unmarshal.

   Reading of the opaque parts (the arguments the generated definition is applied to):
     varint.FromUvarint rest   := lib/Varint dec               (uvM)
     m.mc.newTransport(id)     := the id itself                 (a transport is known by its ID
                                                                 until ReadFrom fills it)
     bytes.NewBuffer(rest)     := rest
     t.ReadFrom(buf)           := model read_by_id id buf       (rdM)  -- the per-protocol readers,
                                                                 whose decision parts are tied in GenTie_C11
   The list the loop appends to holds the transports by ID; the model's list holds the parsed
   protocols; the statement is about `map idZ`. *)
From Coq Require Import ZArith NArith List Bool Lia String.
From Lib Require Import Bytes Varint.
From Model Require Import C11_Metadata.
From Proofs Require Import GenTie_Lib C11_Metadata GenTie_C11.
From Gen Require Import Gen_Consts Gen_Funcs_prelude Gen_Funcs_metadata.
Import ListNotations.
Open Scope Z_scope.

Definition uvM (rest : list N) : Z * Z * option string :=
  match dec rest with
  | Ok (v, k) => (Z.of_N v, Z.of_nat k, None)
  | _ => (0, 0, Some "varint"%string)
  end.

Definition rdM (id : Z) (buf : list N) : Z * option string :=
  match fst (read_by_id (Z.to_N id) buf) with
  | Ok (_, n) => (Z.of_nat n, None)
  | _ => (0, Some "ReadFrom"%string)
  end.

Definition idfun (x : Z) : Z := x.
Definition bufid (x : list N) : list N := x.

(* the transport that ReadFrom fills is the one newTransport chose: same ID *)
Lemma read_by_id_id : forall id k data p n a,
  dec data = Ok (id, k) -> read_by_id id data = (Ok (p, n), a) -> id_of p = id.
Proof.
  intros id k data p n a Hd. unfold read_by_id.
  destruct (id =? id_bitswap)%N eqn:E1.
  { apply N.eqb_eq in E1. unfold read_bitswap, read_fixed. intros H.
    destruct (Nat.eqb _ 0); [discriminate|]. destruct (negb _); [discriminate|].
    destruct (Bytes.bytes_eqb _ _); inversion H; subst; reflexivity. }
  destruct (id =? id_graphsync)%N eqn:E2.
  { apply N.eqb_eq in E2. unfold read_graphsync. rewrite Hd. intros H.
    destruct (negb _); [discriminate|].
    destruct (gs_dec _) as [[[[c vd] fr] k']|c|c]; inversion H; subst; reflexivity. }
  destruct (id =? id_gateway)%N eqn:E3.
  { apply N.eqb_eq in E3. unfold read_gateway, read_fixed. intros H.
    destruct (Nat.eqb _ 0); [discriminate|]. destruct (negb _); [discriminate|].
    destruct (Bytes.bytes_eqb _ _); inversion H; subst; reflexivity. }
  unfold read_unknown. rewrite Hd. intros H.
  destruct (dec (skipn k data)) as [[size k2]|c|c]; try (inversion H; fail).
  destruct (max_metadata_size <? size)%N; [inversion H|].
  destruct (Nat.eqb _ 0 && _)%bool; [inversion H|].
  destruct (negb _); inversion H; subst; reflexivity.
Qed.

Section Whole.
  Variable data : list N.
  Variable K : list Z -> Z -> frag (Z * list Z).
  Variable oof : frag (Z * list Z).

  Let loop := metadata_UnmarshalBinary_loop_loop_1 Z bufid idfun uvM rdM data K oof.

  (* from any position: what parse_all says about the rest is what the loop does *)
  Lemma loop_parse_all : forall (fuel : nat) (read : Z) (ps : list Z),
    0 <= read ->
    match fst (fst (parse_all fuel (skipn (Z.to_nat read) data))) with
    | Ok l => exists r, len data <= r /\ loop (S fuel) ps read = K (ps ++ map idZ l)%list r
    | Err c => c = EOutOfFuel \/ exists r ps', loop (S fuel) ps read = FReturn "return err"%string (r, ps')
    | Panic _ => True
    end.
  Proof.
    induction fuel as [|f IH]; intros read ps Hr.
    - destruct (skipn (Z.to_nat read) data) as [|x suf] eqn:Es.
      + cbn [parse_all fst]. exists read. split.
        * apply (f_equal (@List.length N)) in Es. rewrite skipn_length in Es. cbn in Es. unfold len. lia.
        * unfold loop. rewrite UnmarshalBinary_done; [cbn [map]; rewrite app_nil_r; reflexivity|].
          apply (f_equal (@List.length N)) in Es. rewrite skipn_length in Es. cbn in Es. unfold len. lia.
      + cbn [parse_all fst]. left. reflexivity.
    - destruct (skipn (Z.to_nat read) data) as [|x suf] eqn:Es.
      + rewrite parse_all_nil. cbn [fst]. exists read.
        assert (len data <= read)
          by (apply (f_equal (@List.length N)) in Es; rewrite skipn_length in Es; cbn in Es; unfold len; lia).
        split; [assumption|]. unfold loop. rewrite UnmarshalBinary_done by assumption.
        cbn [map]. rewrite app_nil_r. reflexivity.
      + assert (Hlt : read < len data).
        { apply (f_equal (@List.length N)) in Es. rewrite skipn_length in Es. cbn in Es. unfold len. lia. }
        rewrite <- Es. rewrite parse_all_S by (rewrite Es; discriminate).
        unfold loop. rewrite UnmarshalBinary_step by assumption.
        replace (read <? len data) with true by (symmetry; apply Z.ltb_lt; assumption).
        cbv zeta.
        destruct (dec (skipn (Z.to_nat read) data)) as [[id k]|c|c] eqn:Hd; cbn [fst].
        * assert (Huv : uvM (skipn (Z.to_nat read) data) = (Z.of_N id, Z.of_nat k, None))
            by (unfold uvM; rewrite Hd; reflexivity).
          rewrite Huv.
          destruct (read_by_id id (skipn (Z.to_nat read) data)) as [[[p n]|c|c] a] eqn:Hrd; cbn [fst].
          -- assert (Hrm : rdM (idfun (Z.of_N id)) (bufid (skipn (Z.to_nat read) data)) = (Z.of_nat n, None))
               by (unfold rdM, idfun, bufid; rewrite N2Z.id, Hrd; reflexivity).
             rewrite Hrm.
             specialize (IH (read + Z.of_nat n) (ps ++ [idfun (Z.of_N id)])%list ltac:(lia)).
             replace (skipn (Z.to_nat (read + Z.of_nat n)) data)
               with (skipn n (skipn (Z.to_nat read) data)) in IH
               by (rewrite skipn_skipn; f_equal; lia).
             unfold loop in IH.
             destruct (parse_all f (skipn n (skipn (Z.to_nat read) data))) as [[[l|c|c] a'] g]; cbn [fst] in *.
             ++ destruct IH as (r & Hle & E). exists r. split; [assumption|].
                rewrite E. f_equal. cbn [map]. unfold idfun, idZ at 2.
                rewrite (read_by_id_id _ _ _ _ _ _ Hd Hrd). rewrite <- app_assoc. reflexivity.
             ++ destruct IH as [E|(r & ps' & E)]; [left; assumption|right]. exists r, ps'. exact E.
             ++ exact I.
          -- assert (Hrm : rdM (idfun (Z.of_N id)) (bufid (skipn (Z.to_nat read) data)) = (0, Some "ReadFrom"%string))
               by (unfold rdM, idfun, bufid; rewrite N2Z.id, Hrd; reflexivity).
             rewrite Hrm. right. exists read, ps. reflexivity.
          -- exact I.
        * assert (Huv : uvM (skipn (Z.to_nat read) data) = (0, 0, Some "varint"%string))
            by (unfold uvM; rewrite Hd; reflexivity).
          rewrite Huv. right. exists read, ps. reflexivity.
        * exact I.
  Qed.
End Whole.

(* the loop of the whole-body fragment is the loop of the phase-2 fragment (the same source lines,
   emitted once per table entry) *)
Lemma all_loop_is_loop : forall P nb nt uv rf data K oof,
  metadata_UnmarshalBinary_all_loop_1 P nb nt uv rf data K oof
  = metadata_UnmarshalBinary_loop_loop_1 P nb nt uv rf data K oof.
Proof. reflexivity. Qed.

(* Metadata.UnmarshalBinary, whole body (gen: metadata_UnmarshalBinary_all, from `var read int64`
   to the function's last statement) = model unmarshal:
   - the model accepts with l: the loop runs to its end (read past the data) holding the IDs of l,
     the body leaves through `return m.Validate()`, and Validate on those transports returns nil;
   - the model rejects: the loop returned the error, or the body leaves through
     `return m.Validate()` and Validate returns an error. *)
Theorem tie_UnmarshalBinary_whole : forall (data : list N) (oof : frag (Z * list Z)),
  let run := metadata_UnmarshalBinary_all Z bufid idfun uvM rdM data (S (List.length data)) [] oof in
  match unmarshal data with
  | Ok l => exists r, len data <= r /\ run = FReturn "return m.Validate()"%string (r, map idZ l)
            /\ metadata_Metadata_Validate Z idfun (map idZ l) = None
  | Err _ => (exists r ps, run = FReturn "return err"%string (r, ps))
             \/ (exists r l, run = FReturn "return m.Validate()"%string (r, map idZ l)
                 /\ metadata_Metadata_Validate Z idfun (map idZ l) <> None)
  | Panic _ => False
  end.
Proof.
  intros data oof run.
  pose proof (unmarshal_benign data) as Hb.
  pose proof (parse_all_benign (List.length data) data (le_n _)) as Hp.
  pose proof (loop_parse_all data (fun ps r => FReturn "return m.Validate()"%string (r, ps)) oof (List.length data) 0 [] ltac:(lia)) as H.
  change (skipn (Z.to_nat 0) data) with data in H.
  unfold unmarshal, unmarshal_full in *.
  assert (Erun : run = metadata_UnmarshalBinary_loop_loop_1 Z bufid idfun uvM rdM data
                         (fun ps r => FReturn "return m.Validate()"%string (r, ps)) oof (S (List.length data)) [] 0) by reflexivity.
  destruct (parse_all (List.length data) data) as [[[l|c|c] a] g]; cbn [fst] in *.
  - destruct H as (r & Hle & E). cbn [app] in E.
    assert (V : forall m : list proto, metadata_Metadata_Validate Z idfun (map idZ m) = metadata_Metadata_Validate proto idZ m).
    { intros m. unfold metadata_Metadata_Validate.
      replace (len (map idZ m)) with (len m) by (unfold len; rewrite map_length; reflexivity).
      destruct (len m =? 0); [reflexivity|]. cbv zeta.
      generalize 0. induction m as [|p m IHm]; intros z; cbn [map metadata_Metadata_Validate_loop_1]; [reflexivity|].
      unfold idfun at 1. destruct (idZ p <? z); [reflexivity|]. unfold idfun at 1. apply IHm. }
    pose proof (tie_Validate l) as TV. rewrite <- V in TV.
    destruct (validate l) as [m|c|c] eqn:Ev.
    + assert (m = l) by (unfold validate in Ev; destruct l; [discriminate|]; destruct (sorted_from _ _); inversion Ev; reflexivity). subst m.
      exists r. rewrite Erun. repeat split; assumption.
    + right. exists r, l. rewrite Erun. split; [assumption|]. rewrite TV. destruct (c =? EEmpty)%N; discriminate.
    + cbn in Hb. contradiction.
  - destruct H as [E|(r & ps & E)].
    + subst c. cbn in Hp. unfold EOutOfFuel in Hp. lia.
    + left. exists r, ps. rewrite Erun. exact E.
  - cbn in Hp. contradiction.
Qed.
Print Assumptions tie_UnmarshalBinary_whole.
