(* Composition of C11 (metadata encoding) with C05 (advertisement signatures) over C13 (the
   IPLD round trip), on top of the C05 x C13 glue: proofs. *)
From Coq Require Import Lia ZifyN ZifyNat ZifyBool.
From Lib Require Import Bytes Varint SymCrypto.
From Lib Require Cid.
From Model Require C05_AdSignature C13_DagCbor C13_IpldSchema C11_Metadata.
From Model Require Import Compose_C05_C13 Compose_C11_C05.
From Proofs Require C05_AdSignature C13_IpldSchema C11_Metadata.
From Proofs Require Import Compose_C05_C13.
From Coq Require Import List.
Import ListNotations.
Open Scope N_scope.

Module PM := Proofs.C11_Metadata.

Section Compose.
  Variables privkey pubkey sigt peerid : Type.
  Variable pub : privkey -> pubkey.
  Variable sign : privkey -> bytes -> sigt.
  Variable verify : pubkey -> bytes -> sigt -> bool.
  Variable peer_id : pubkey -> peerid.
  Variable peerid_eqb : peerid -> peerid -> bool.
  Variable Hf : bytes -> bytes.
  Variable decode_pid : bytes -> option peerid.
  Variable env_encode : envelope pubkey sigt -> bytes.
  Variable env_decode : bytes -> option (envelope pubkey sigt).

  Local Notation ad := (A.ad pubkey sigt).
  Local Notation H := (A.ideal_H Hf).
  Local Notation V strict := (A.verify_gen verify peer_id peerid_eqb H decode_pid strict).
  Local Notation WV strict := (wire_verify env_decode verify peer_id peerid_eqb H decode_pid strict).
  Local Notation WR strict := (wire_read_metadata env_decode verify peer_id peerid_eqb H decode_pid strict).
  Local Notation to13 := (to_c13 env_encode).
  Local Notation of13 := (of_c13 env_decode).

  (* the receiver's pipeline is C05 x C13's wire verification followed by C11's decoder *)
  Lemma wire_read_metadata_spec st w c :
    S.typed_load_ad w = Ok c ->
    WR st w = (s <- WV st w ;; m <- M.unmarshal (S.a_meta c) ;; Ok (s, m)).
  Proof. intro L. unfold wire_read_metadata, wire_verify. rewrite L. reflexivity. Qed.

  Lemma wire_read_metadata_fails_with_verify st w :
    is_ok (WV st w) = false -> is_ok (WR st w) = false.
  Proof.
    unfold wire_read_metadata, wire_verify.
    destruct (S.typed_load_ad w) as [c|e|e]; cbn [bind]; try (intros _; reflexivity).
    destruct (V st (of13 c)) as [s|e|e]; cbn [bind is_ok]; [discriminate|reflexivity|reflexivity].
  Qed.

  Lemma set_md_is_upd_md (a : ad) m : set_md a m = PA.upd_md _ _ a m.
  Proof. reflexivity. Qed.

  Lemma set_md_fields (a : ad) m :
    A.a_md (set_md a m) = m /\ A.a_entries (set_md a m) = A.a_entries a /\ A.a_ext (set_md a m) = A.a_ext a /\
    A.a_sig (set_md a m) = A.a_sig a /\ A.a_provider (set_md a m) = A.a_provider a.
  Proof. repeat split. Qed.

  (* Sign leaves the metadata bytes where they are *)
  Lemma sign_plain_keeps_md (a a' : ad) k :
    A.sign_plain pub sign H a k = Ok a' -> A.a_md a' = A.a_md a /\ A.a_entries a' = A.a_entries a /\ A.a_entries a <> None.
  Proof.
    unfold A.sign_plain. destruct (A.a_ext a); [discriminate|].
    rewrite PA.sign_ad_spec. destruct (A.a_entries a) as [ent|] eqn:E; [|discriminate].
    intro R. apply PA.Ok_inj in R. subst a'. cbn. rewrite E. repeat split. discriminate.
  Qed.

  Hypothesis RT : env_round_trip env_encode env_decode.
  Hypothesis EE : env_empty env_decode.
  Hypothesis SE : sealed_env_bytes_ok privkey pubkey sigt pub sign env_encode.
  Hypothesis Hlen : A.H_len32 Hf.
  Hypothesis Hwf : H_bytes Hf.
  Hypothesis eqb_spec : forall a b, peerid_eqb a b = true <-> a = b.
  Hypothesis VS : VerifySign pub sign verify.

  (* ---------------- (a) metadata survives sign -> wire -> verify -> decode ---------------- *)

  Theorem metadata_in_signed_ad st (a a' : ad) k (md : list M.proto) :
    md <> [] -> forallb M.wf_proto md = true ->
    S.wf_ad (to13 (with_metadata a md)) = true ->
    A.sign_plain pub sign H (with_metadata a md) k = Ok a' ->
    WR st (wire_encode env_encode a') = Ok (peer_id (pub k), M.new md)
    /\ WV st (wire_encode env_encode a') = Ok (peer_id (pub k))
    /\ M.equal (M.new md) (M.new md) = true
    /\ (forall p, In p md ->
          exists q, M.get (M.new md) (M.id_of p) = Some q /\ M.id_of q = M.id_of p /\ In q md
                    /\ (NoDup (map M.id_of md) -> q = p)).
  Proof.
    intros Hne Wmd Wad Sg.
    destruct (sign_wire_verify privkey pubkey sigt peerid pub sign verify peer_id peerid_eqb Hf decode_pid
                env_encode env_decode RT EE SE Hlen Hwf eqb_spec VS) as [SW _].
    specialize (SW st _ _ _ Wad Sg).
    pose proof (wf_plain_signed privkey pubkey sigt peerid pub sign Hf decode_pid env_encode SE Hlen Hwf _ _ _ Wad Sg) as Wa'.
    destruct (sign_plain_keeps_md _ _ _ Sg) as (Emd & _ & _).
    destruct (PS.ad_bytes_roundtrip_cbor_proved _ Wa') as [L _].
    split; [|split; [exact SW|split; [apply PM.equal_refl|]]].
    - unfold wire_encode in *. rewrite (wire_read_metadata_spec st _ _ L). rewrite SW. cbn [bind].
      replace (S.a_meta (to13 a')) with (A.a_md a') by (destruct a'; reflexivity).
      rewrite Emd. unfold with_metadata. cbn [A.a_md set_md].
      rewrite PM.unmarshal_marshal_thm by assumption. reflexivity.
    - intros p Hin. destruct (PM.get_by_id_thm md p Hin) as (q & G & I1 & I2 & _ & I3).
      exists q. tauto.
  Qed.

  (* ---------------- (b) the signature covers the metadata BYTES ---------------- *)

  Hypothesis Hinj : A.H_injective Hf.

  (* any other byte string in the Metadata field of an accepted advertisement -- whether
     C11's decoder would read it as other protocols, as the same protocols spelled
     differently, or not at all -- shows on the wire and is rejected *)
  Theorem metadata_bytes_tamper_rejected st st' (a : ad) s (m' : bytes) :
    V st a = Ok s -> m' <> A.a_md a ->
    S.wf_ad (to13 a) = true -> S.wf_ad (to13 (set_md a m')) = true ->
    wire_encode env_encode (set_md a m') <> wire_encode env_encode a
    /\ is_ok (WV st' (wire_encode env_encode (set_md a m'))) = false
    /\ is_ok (WR st' (wire_encode env_encode (set_md a m'))) = false.
  Proof.
    intros Va Ne Wa Wb.
    destruct (PA.accepted_has_entries _ _ _ verify peer_id peerid_eqb Hf decode_pid eqb_spec _ _ _ Va) as [ent Ea].
    assert (Eb : A.a_entries (set_md a m') <> None) by (cbn; rewrite Ea; discriminate).
    destruct (wire_tamper pubkey sigt peerid verify peer_id peerid_eqb Hf decode_pid env_encode env_decode
                RT EE eqb_spec Hinj st st' a (set_md a m') s Va (ChMd _ _ a m' Ne) Eb Wa Wb) as [T1 T2].
    split; [exact T1|]. split; [exact T2|]. apply wire_read_metadata_fails_with_verify. exact T2.
  Qed.

  (* ... for ANY wire bytes whose decoded advertisement is the accepted one with other
     metadata bytes *)
  Theorem metadata_bytes_tamper_rejected_any_wire st st' (a : ad) s w c :
    V st a = Ok s -> S.typed_load_ad w = Ok c ->
    of13 c = set_md a (S.a_meta c) -> S.a_meta c <> A.a_md a ->
    is_ok (WV st' w) = false /\ is_ok (WR st' w) = false.
  Proof.
    intros Va L E Ne.
    assert (T : is_ok (WV st' w) = false).
    { eapply (wire_decoded_tamper pubkey sigt peerid verify peer_id peerid_eqb Hf decode_pid env_decode eqb_spec Hinj st st' a s w c Va L).
      rewrite E. apply ChMd. exact Ne. }
    split; [exact T|]. apply wire_read_metadata_fails_with_verify. exact T.
  Qed.
End Compose.

(* the decoded value determines the bytes (C11 canonicity), so "covers the bytes" loses
   nothing against "covers the decoded protocols" -- and gains: a re-spelling that a lenient
   decoder would accept is a different byte string, hence rejected by the signature *)
Theorem metadata_value_determines_bytes (m1 m2 : bytes) (v : list M.proto) :
  wf_bytes m1 = true -> wf_bytes m2 = true ->
  M.unmarshal m1 = Ok v -> M.unmarshal m2 = Ok v -> m1 = m2.
Proof.
  intros W1 W2 U1 U2.
  destruct (PM.unmarshal_canonical_thm _ _ W1 U1) as [E1 _].
  destruct (PM.unmarshal_canonical_thm _ _ W2 U2) as [E2 _]. congruence.
Qed.

(* the pre-repair decoder did accept a re-spelling of {bitswap, gateway} (unsorted); it is a
   different byte string from the canonical one, so by metadata_bytes_tamper_rejected a
   signed advertisement cannot be switched to it *)
Example respelling_differs_from_canonical :
  M.unmarshal_v0 [160; 18; 0; 128; 18] = Ok [M.PGateway; M.PBitswap]
  /\ M.marshal [M.PGateway; M.PBitswap] = [128; 18; 160; 18; 0]
  /\ [160; 18; 0; 128; 18] <> M.marshal [M.PGateway; M.PBitswap]
  /\ (exists c, M.unmarshal [160; 18; 0; 128; 18] = Err c).
Proof. vm_compute. repeat split; try discriminate. eexists; reflexivity. Qed.

(* ---------------- (c) the size bounds compose ---------------- *)

Lemma blen_length (b : bytes) : Cid.blen b = N.of_nat (length b).
Proof. reflexivity. Qed.

Theorem validated_ad_metadata_bounded (c : S.ad) :
  S.validate c = true -> wf_bytes (S.a_meta c) = true ->
  N.of_nat (length (S.a_meta c)) <= max_metadata_len
  /\ M.unmarshal_alloc (S.a_meta c) <= 20 * max_metadata_len + (M.max_metadata_size + 20)
  /\ ((exists m, M.unmarshal (S.a_meta c) = Ok m) \/ (exists e, M.unmarshal (S.a_meta c) = Err e /\ e <> M.EOutOfFuel)).
Proof.
  intros Hv W. unfold S.validate in Hv. apply andb_prop in Hv as [_ Hm].
  assert (L : N.of_nat (length (S.a_meta c)) <= max_metadata_len).
  { unfold max_metadata_len. rewrite <- blen_length. lia. }
  split; [exact L|]. split.
  - pose proof (PM.alloc_linear_thm _ W). lia.
  - apply PM.unmarshal_total_no_panic_thm.
Qed.

(* the two size constants the packages declare separately (regenerated from the source) *)
Lemma metadata_limits_agree :
  max_metadata_len = M.max_metadata_size /\ max_metadata_len = 1024.
Proof. split; reflexivity. Qed.

(* ---------------- non-vacuity: the premises of (a) can be met together ---------------- *)

Module WitnessM.
  Import WitnessC.
  Definition ex_md : list M.proto :=
    [M.PGateway; M.mk_unknown 770 [104; 105]; M.PGraphsync [1; 85; 0; 3; 170; 187; 204] true false; M.PBitswap].
  Definition ex_ad : A.ad unit unit :=
    A.Ad None [49; 50] [[47; 105; 112]] None (Some ([1; 85; 0; 3; 1; 2; 3])) [99] [] false None.

  Example ex_premises :
    ex_md <> [] /\ forallb M.wf_proto ex_md = true
    /\ S.wf_ad (to_c13 env_encode (with_metadata ex_ad ex_md)) = true
    /\ exists a', A.sign_plain pub sign (A.ideal_H Hc) (with_metadata ex_ad ex_md) tt = Ok a'.
  Proof.
    split; [discriminate|]. split; [vm_compute; reflexivity|]. split; [vm_compute; reflexivity|].
    eexists. vm_compute. reflexivity.
  Qed.
End WitnessM.
