(* What the (lenient) model decoder guarantees about its OUTPUT, for every input:
   bytes stay bytes, every string / byte string / link / key is a piece of the input (so
   its length and every list length is bounded by the input length), links are CIDs that
   cid.Cast accepts, ints are in the int64/uint64 range.  Distinct keys are guaranteed by
   [decode] (generic prototype) only, not by [decode_lax] (typed prototype). *)
From Lib Require Import Bytes Varint Cid Cbor.
From Model Require Import C13_DagCbor C13_IpldSchema.
From Proofs Require Import C13_DagCbor C13_IpldSchema.
From Coq Require Import Lia ZifyN ZifyNat ZifyBool ZArith.
Ltac Zify.zify_post_hook ::= Z.div_mod_to_equations.
Open Scope N_scope.
Local Arguments N.mul : simpl never.
Local Arguments N.add : simpl never.
Local Arguments N.sub : simpl never.
Local Arguments N.pow : simpl never.
Local Arguments N.div : simpl never.
Local Arguments N.modulo : simpl never.

(* content well-formedness without any length condition and without the distinct-key
   condition; floats allowed *)
Fixpoint wfl (n : node) : bool :=
  match n with
  | NNull | NBool _ | NFloat => true
  | NInt z => int_ok z
  | NString s => wf_bytes s
  | NBytes s => wf_bytes s
  | NLink c => wf_bytes c && is_ok (cast c)
  | NList l => forallb wfl l
  | NMap m => forallb (fun kv => wf_bytes (fst kv) && wfl (snd kv)) m
  end.

(* weight: how many input bytes the node accounts for, at least *)
Fixpoint wt (n : node) : nat :=
  match n with
  | NString s => S (length s)
  | NBytes s => S (length s)
  | NLink c => S (length c)
  | NList l => S ((fix go (l : list node) : nat := match l with [] => 0 | x :: r => wt x + go r end) l)
  | NMap m => S ((fix go (m : list (bytes * node)) : nat :=
                    match m with [] => 0 | kv :: r => length (fst kv) + wt (snd kv) + go r end) m)
  | _ => 1
  end%nat.
Fixpoint lsum (l : list node) : nat := match l with [] => 0 | x :: r => wt x + lsum r end%nat.
Fixpoint esum (m : list (bytes * node)) : nat :=
  match m with [] => 0 | kv :: r => length (fst kv) + wt (snd kv) + esum r end%nat.
Lemma wt_list l : wt (NList l) = S (lsum l). Proof. reflexivity. Qed.
Lemma wt_map m : wt (NMap m) = S (esum m). Proof. reflexivity. Qed.
Lemma wt_pos n : (1 <= wt n)%nat. Proof. destruct n; cbn; lia. Qed.

Definition entry_ok (kv : bytes * node) : bool := wf_bytes (fst kv) && wfl (snd kv).
Lemma wfl_map m : wfl (NMap m) = forallb entry_ok m. Proof. reflexivity. Qed.

Lemma lsum_map_snd es : (lsum (map snd es) <= esum es)%nat.
Proof. induction es as [|[k v] es IH]; cbn [map lsum esum fst snd]; lia. Qed.
Lemma wfl_map_snd es : forallb entry_ok es = true -> forallb wfl (map snd es) = true.
Proof.
  induction es as [|[k v] es IH]; cbn [map forallb]; [reflexivity|]. unfold entry_ok at 1. cbn [fst snd].
  intro H. apply andb_prop in H as [H1 H2]. apply andb_prop in H1 as [_ H1]. rewrite H1, IH by exact H2. reflexivity.
Qed.

(* ---------------------------------------------------------------- *)
(* readers                                                            *)

Lemma wf_cons c r : wf_bytes (c :: r) = true -> c < 256 /\ wf_bytes r = true.
Proof. unfold wf_bytes, wf_byte. cbn [forallb]. rewrite andb_true_iff, N.ltb_lt. tauto. Qed.

Lemma take_inv n r x r' :
  take n r = Some (x, r') -> wf_bytes r = true ->
  wf_bytes x = true /\ wf_bytes r' = true /\ (length x + length r' = length r)%nat.
Proof.
  intros H Hw. apply take_some in H as [-> _]. rewrite wf_bytes_app in Hw. apply andb_prop in Hw as [A B].
  rewrite app_length. auto.
Qed.

Lemma be_dec_small x : wf_bytes x = true -> (length x <= 8)%nat -> be_dec x < 18446744073709551616.
Proof.
  intros Hw Hl. pose proof (be_dec_bound x Hw) as B.
  assert (256 ^ N.of_nat (length x) <= 256 ^ 8) as P by (apply N.pow_le_mono_r; lia).
  change (256 ^ 8) with 18446744073709551616 in P. lia.
Qed.

Lemma rd_uint_inv hb r v r' :
  rd_uint hb r = Ok (v, r') -> wf_bytes r = true ->
  wf_bytes r' = true /\ (length r' <= length r)%nat /\ v < 18446744073709551616.
Proof.
  unfold rd_uint. intros H Hw. destruct (hb mod 32 <? 24) eqn:E.
  { inversion H; subst. repeat split; auto; try lia. }
  destruct (hb mod 32 =? 24); [|destruct (hb mod 32 =? 25); [|destruct (hb mod 32 =? 26); [|destruct (hb mod 32 =? 27); [|discriminate]]]];
    match type of H with context [take ?n r] => destruct (take n r) as [[x r1]|] eqn:T; [|discriminate] end;
    inversion H; subst; destruct (take_some _ _ _ _ T) as [_ L]; apply take_inv in T as (A & B & C); auto;
    (repeat split; [exact B|lia|apply be_dec_small; [exact A|unfold blen in L; lia]]).
Qed.

Lemma rd_len_inv hb r v r' :
  rd_len hb r = Ok (v, r') -> wf_bytes r = true -> wf_bytes r' = true /\ (length r' <= length r)%nat.
Proof.
  unfold rd_len. intros H Hw. destruct (rd_uint hb r) as [[v0 r0]|?|?] eqn:E; cbn [bind] in H; try discriminate.
  destruct (MaxInt <? v0); [discriminate|]. inversion H; subst. apply rd_uint_inv in E as (A & B & _); auto.
Qed.

Lemma rd_str_inv hb r x r' :
  rd_str hb r = Ok (x, r') -> wf_bytes r = true ->
  wf_bytes x = true /\ wf_bytes r' = true /\ (length x + length r' <= length r)%nat.
Proof.
  unfold rd_str. intros H Hw. destruct (rd_len hb r) as [[n r0]|?|?] eqn:E; cbn [bind] in H; try discriminate.
  destruct (MaxStr <? n); [discriminate|]. destruct (take n r0) as [[y r1]|] eqn:T; [|discriminate].
  inversion H; subst. apply rd_len_inv in E as (A & B); auto. apply take_inv in T as (C & D & F); auto.
  repeat split; auto; try lia.
Qed.

Lemma chunks_inv f : forall maj b x r,
  rd_chunks f maj b = Ok (x, r) -> wf_bytes b = true ->
  wf_bytes x = true /\ wf_bytes r = true /\ (length x + length r < length b)%nat.
Proof.
  induction f as [|f IH]; intros maj b x r H Hw; [discriminate|].
  destruct b as [|hb r0]; cbn [rd_chunks] in H; [discriminate|]. apply wf_cons in Hw as [_ Hw].
  destruct (hb =? 255); [inversion H; subst; cbn [length]; repeat split; auto; lia|].
  destruct (negb (hb / 32 =? maj)); [discriminate|].
  destruct (rd_str hb r0) as [[y r1]|?|?] eqn:E; cbn [bind] in H; try discriminate.
  destruct (rd_chunks f maj r1) as [[z r2]|?|?] eqn:E2; cbn [bind] in H; try discriminate.
  inversion H; subst. apply rd_str_inv in E as (A & B & C); auto. apply IH in E2 as (D & F & G); auto.
  rewrite wf_bytes_app, A, D, app_length. cbn [length andb]. repeat split; auto; try lia.
Qed.

Lemma bytes_item_inv tag x n :
  bytes_item tag x = Ok n -> wf_bytes x = true -> wfl n = true /\ (wt n <= S (length x))%nat.
Proof.
  unfold bytes_item. intros H Hw. destruct tag as [t|]; [|inversion H; subst; cbn; auto].
  destruct (t =? 42); [|discriminate]. destruct x as [|x0 c]; [discriminate|]. destruct x0; [|discriminate].
  destruct (cast c) eqn:Ec; try discriminate. inversion H; subst. apply wf_cons in Hw as [_ Hw].
  cbn [wfl wt length]. rewrite Hw, Ec. cbn. split; [reflexivity|lia].
Qed.

(* ---------------------------------------------------------------- *)
(* the decoder                                                        *)

Tactic Notation "bind_in" hyp(H) "as" ident(x) ident(r) ident(E) :=
  match type of H with
  | bind ?e _ = Ok _ => destruct e as [[x r]|?|?] eqn:E; cbn [bind] in H; [|discriminate H|discriminate H]
  end.

Lemma item_seq_inv f :
  (forall tag b n r, item f tag b = Ok (n, r) -> wf_bytes b = true ->
     wfl n = true /\ wf_bytes r = true /\ (wt n + length r <= length b)%nat) /\
  (forall lim ismap b es r, seq f lim ismap b = Ok (es, r) -> wf_bytes b = true ->
     forallb entry_ok es = true /\ wf_bytes r = true /\ (esum es + length r <= length b)%nat).
Proof.
  induction f as [|f [IHi IHs]].
  - split.
    + intros; discriminate.
    + intros lim ismap b es r H Hw. rewrite seq_eq in H. destruct (seq_stop lim b) as [r0|] eqn:Es; [|discriminate].
      inversion H; subst. unfold seq_stop in Es. destruct lim as [n|].
      * destruct (n =? 0); inversion Es; subst. cbn. auto.
      * destruct b as [|hb r1]; [discriminate|]. destruct (hb =? 255); inversion Es; subst.
        apply wf_cons in Hw as [_ Hw]. cbn. repeat split; auto; try lia.
  - split.
    + intros tag b n r H Hw. destruct b as [|hb r0]; [discriminate|]. rewrite item_S in H.
      apply wf_cons in Hw as [Hhb Hw]. cbn [length].
      repeat match type of H with
             | (if ?c then _ else _) = _ => destruct c eqn:?
             | (let _ := _ in _) = _ => cbv zeta in H
             end.
      * inversion H; subst. cbn. auto.
      * inversion H; subst. cbn. auto.
      * inversion H; subst. cbn. auto.
      * inversion H; subst. cbn. auto.
      * destruct (take 2 r0) as [[x r1]|] eqn:T; [|discriminate]. inversion H; subst. apply take_inv in T as (A & B & C); auto; try (cbn; repeat split; auto; try lia).
      * destruct (take 4 r0) as [[x r1]|] eqn:T; [|discriminate]. inversion H; subst. apply take_inv in T as (A & B & C); auto; try (cbn; repeat split; auto; try lia).
      * destruct (take 8 r0) as [[x r1]|] eqn:T; [|discriminate]. inversion H; subst. apply take_inv in T as (A & B & C); auto; try (cbn; repeat split; auto; try lia).
      * bind_in H as x r1 E. destruct (bytes_item tag x) as [n0|?|?] eqn:Eb; cbn [bind] in H; try discriminate. inversion H; subst.
        apply chunks_inv in E as (A & B & C); auto. apply bytes_item_inv in Eb as (D & F); auto. repeat split; auto; try lia.
      * bind_in H as x r1 E. inversion H; subst. apply chunks_inv in E as (A & B & C); auto; try (cbn [wfl wt]; repeat split; auto; try lia).
      * bind_in H as es r1 E. inversion H; subst. apply IHs in E as (A & B & C); auto. rewrite wt_list. pose proof (lsum_map_snd es).
        cbn [wfl]. rewrite wfl_map_snd by exact A. repeat split; auto; try lia.
      * bind_in H as es r1 E. inversion H; subst. apply IHs in E as (A & B & C); auto. rewrite wt_map, wfl_map. repeat split; auto; try lia.
      * bind_in H as v r1 E. inversion H; subst. apply rd_uint_inv in E as (A & B & C); auto; try (cbn [wfl wt]; unfold int_ok; repeat split; auto; try lia).
      * bind_in H as v r1 E. apply rd_uint_inv in E as (A & B & C); auto.
        destruct (9223372036854775808 <? (v + 1) mod Pow64) eqn:En; [discriminate|]. inversion H; subst.
        cbn [wfl wt]. unfold int_ok, Pow64 in *. repeat split; auto; try lia.
      * bind_in H as x r1 E. destruct (bytes_item tag x) as [n0|?|?] eqn:Eb; cbn [bind] in H; try discriminate. inversion H; subst.
        apply rd_str_inv in E as (A & B & C); auto. apply bytes_item_inv in Eb as (D & F); auto. repeat split; auto; try lia.
      * bind_in H as x r1 E. inversion H; subst. apply rd_str_inv in E as (A & B & C); auto; try (cbn [wfl wt]; repeat split; auto; try lia).
      * bind_in H as k r1 E. bind_in H as es r2 E0. inversion H; subst. apply rd_len_inv in E as (A & B); auto. apply IHs in E0 as (C & D & F); auto.
        rewrite wt_list. pose proof (lsum_map_snd es). cbn [wfl]. rewrite wfl_map_snd by exact C. repeat split; auto; try lia.
      * bind_in H as k r1 E. bind_in H as es r2 E0. inversion H; subst. apply rd_len_inv in E as (A & B); auto. apply IHs in E0 as (C & D & F); auto.
        rewrite wt_map, wfl_map. repeat split; auto; try lia.
      * discriminate.
      * bind_in H as t r1 E. apply rd_len_inv in E as (A & B); auto.
        apply IHi in H as (C & D & F); auto. repeat split; auto; try lia.
      * discriminate.
    + intros lim ismap b es r H Hw. rewrite seq_eq in H. destruct (seq_stop lim b) as [r0|] eqn:Es.
      * inversion H; subst. unfold seq_stop in Es. destruct lim as [n|].
        -- destruct (n =? 0); inversion Es; subst. cbn. auto.
        -- destruct b as [|hb r1]; [discriminate|]. destruct (hb =? 255); inversion Es; subst.
           apply wf_cons in Hw as [_ Hw]. cbn. repeat split; auto; try lia.
      * destruct ismap.
        -- bind_in H as k r1 E. destruct k; try discriminate. bind_in H as v r2 E0. bind_in H as rest r3 E1. inversion H; subst.
           apply IHi in E as (A & B & C); auto. apply IHi in E0 as (D & F & G); auto. apply IHs in E1 as (I1 & I2 & I3); auto.
           cbn [forallb esum fst snd]. unfold entry_ok at 1. cbn [fst snd wfl wt] in *. rewrite A, D, I1. repeat split; auto; try lia.
        -- bind_in H as v r1 E. bind_in H as rest r2 E0. inversion H; subst.
           apply IHi in E as (A & B & C); auto. apply IHs in E0 as (D & F & G); auto.
           cbn [forallb esum fst snd length]. unfold entry_ok at 1. cbn [fst snd]. rewrite A, D. repeat split; auto; try lia.
Qed.

(* ---------------------------------------------------------------- *)
(* consequences for whole inputs                                      *)

Theorem decode_lax_output b n :
  decode_lax b = Ok n -> wf_bytes b = true -> wfl n = true /\ (wt n <= length b)%nat.
Proof.
  unfold decode_lax. intros H Hw. destruct (item (fuel_for b) None b) as [[n0 r]|?|?] eqn:E; cbn [bind] in H; try discriminate.
  destruct r; [|discriminate]. inversion H; subst. destruct (item_seq_inv (fuel_for b)) as [Hi _].
  apply Hi in E as (A & _ & C); auto. cbn [length] in C. split; [exact A|lia].
Qed.

Definition good (v : node) : Prop := wfl v = true /\ N.of_nat (wt v) <= MaxStr.

Lemma good_list_elem l x : good (NList l) -> In x l -> good x.
Proof.
  intros [A B] Hin. rewrite wt_list in B. cbn [wfl] in A. rewrite forallb_forall in A. split; [apply A, Hin|].
  assert (wt x <= lsum l)%nat; [|lia]. clear A B. induction l as [|y l IH]; [destruct Hin|]. cbn [lsum].
  destruct Hin as [->|Hin]; [lia|]. specialize (IH Hin). lia.
Qed.

Lemma length_le_lsum l : (length l <= lsum l)%nat.
Proof. induction l as [|x l IH]; cbn [length lsum]; [lia|]. pose proof (wt_pos x). lia. Qed.

Lemma good_map_entry m k v : good (NMap m) -> In (k, v) m -> good v /\ wf_bytes k = true /\ (length k + wt v <= esum m)%nat.
Proof.
  intros [A B] Hin. rewrite wt_map in B. rewrite wfl_map in A. rewrite forallb_forall in A.
  specialize (A _ Hin). unfold entry_ok in A. cbn [fst snd] in A. apply andb_prop in A as [A1 A2].
  assert (length k + wt v <= esum m)%nat as H.
  { clear A1 A2 B. induction m as [|y m IH]; [destruct Hin|]. cbn [esum]. destruct Hin as [->|Hin]; [cbn [fst snd]; lia|].
    specialize (IH Hin). lia. }
  split; [split; [exact A2|lia]|]. auto.
Qed.

Lemma length_le_esum m : (length m <= esum m)%nat.
Proof. induction m as [|kv m IH]; cbn [length esum]; [lia|]. pose proof (wt_pos (snd kv)). lia. Qed.

(* ---------------------------------------------------------------- *)
(* decode (generic prototype): well-formed output unless it holds a float *)

Lemma wf_of_good n : good n -> has_dup_deep n = false -> has_float n = false -> wf_node n = true.
Proof.
  induction n using node_ind2; intros [A B] Hd Hf; try reflexivity; try exact A; try discriminate.
  - cbn [wfl wt wf_node] in *. rewrite A. unfold Cid.blen, MaxStr in *. lia.
  - cbn [wfl wt wf_node] in *. rewrite A. unfold Cid.blen, MaxStr in *. lia.
  - cbn [wfl wt wf_node] in *. rewrite A. unfold Cid.blen, MaxStr in *. lia.
  - (* list *)
    cbn [has_float] in Hf. cbn [wf_node]. apply andb_true_intro. split.
    + apply forallb_forall. intros x Hx. rewrite Forall_forall in H. apply H; [exact Hx|apply (good_list_elem l); [split; assumption|exact Hx]| |].
      * cbn [has_dup_deep] in Hd. destruct (has_dup_deep x) eqn:E; [|reflexivity].
        assert (existsb has_dup_deep l = true) by (apply existsb_exists; exists x; auto). congruence.
      * destruct (has_float x) eqn:E; [|reflexivity].
        assert (existsb has_float l = true) by (apply existsb_exists; exists x; auto). congruence.
    + change (wt (NList l)) with (S (lsum l)) in B. pose proof (length_le_lsum l). unfold nlen, MaxStr, MaxInt in *. lia.
  - (* map *)
    cbn [has_float] in Hf. cbn [has_dup_deep] in Hd. apply orb_false_iff in Hd as [Hd1 Hd2].
    change (wf_node (NMap m)) with (forallb wf_entry m && negb (has_dup_key m) && (nlen m <=? MaxInt)).
    rewrite Hd1. cbn [negb]. rewrite andb_true_r. apply andb_true_intro. split.
    + apply forallb_forall. intros [k v] Hx. destruct (good_map_entry m k v (conj A B) Hx) as (Gv & Wk & Le).
      unfold wf_entry. cbn [fst snd]. rewrite Wk. cbn [andb]. apply andb_true_intro. split.
      * change (wt (NMap m)) with (S (esum m)) in B. unfold Cid.blen, MaxStr in *. lia.
      * rewrite Forall_forall in H. apply (H (k, v) Hx Gv).
        -- cbn [snd]. destruct (has_dup_deep v) eqn:E; [|reflexivity].
           assert (existsb (fun kv => has_dup_deep (snd kv)) m = true) by (apply existsb_exists; exists (k, v); auto). congruence.
        -- cbn [snd]. destruct (has_float v) eqn:E; [|reflexivity].
           assert (existsb (fun kv => has_float (snd kv)) m = true) by (apply existsb_exists; exists (k, v); auto). congruence.
    + change (wt (NMap m)) with (S (esum m)) in B. pose proof (length_le_esum m). unfold nlen, MaxStr, MaxInt in *. lia.
Qed.

(* For ALL byte strings of at most 33554432 bytes: what the generic decode returns has
   byte contents, CID links, ints in range, distinct keys everywhere, every string / key /
   list no longer than the input; if it holds no float it is a [wf_node] and therefore
   re-encodes to a block that decodes to it (up to map order). *)
Theorem decode_output_wf_proved b n :
  wf_bytes b = true -> blen b <= MaxStr -> decode b = Ok n ->
  wfl n = true /\ (wt n <= length b)%nat /\ has_dup_deep n = false /\
  (has_float n = false -> wf_node n = true /\ decode (encode n) = Ok (norm n)).
Proof.
  intros Hw Hl H. apply decode_ok_lax in H as [H Hd]. apply decode_lax_output in H as [A B]; auto.
  split; [exact A|]. split; [exact B|]. split; [exact Hd|]. intro Hf.
  assert (wf_node n = true) as W.
  { apply wf_of_good; auto. split; [exact A|]. unfold Cid.blen in Hl. lia. }
  split; [exact W|apply dagcbor_roundtrip_proved, W].
Qed.

(* ---------------------------------------------------------------- *)
(* typed builders on a good map: every field value is a good node      *)

Lemma map_res_forall2 {A B} (f : A -> res B) l ys :
  map_res f l = Ok ys -> Forall2 (fun x y => f x = Ok y) l ys.
Proof.
  revert ys. induction l as [|x l IH]; intros ys H; cbn [map_res] in H.
  - inversion H. constructor.
  - destruct (f x) eqn:E; cbn [bind] in H; try discriminate. destruct (map_res f l) eqn:E2; cbn [bind] in H; try discriminate.
    inversion H; subst. constructor; [exact E|apply IH; reflexivity].
Qed.

Lemma forall2_len {A B} (R : A -> B -> Prop) l ys : Forall2 R l ys -> length l = length ys.
Proof. induction 1; cbn [length]; congruence. Qed.

Lemma forall2_in_r {A B} (R : A -> B -> Prop) l ys y : Forall2 R l ys -> In y ys -> exists x, In x l /\ R x y.
Proof.
  induction 1 as [|x y0 l ys Hr Hf IH]; intro Hin; [destruct Hin|]. destruct Hin as [<-|Hin].
  - exists x. split; [left; reflexivity|exact Hr].
  - destruct (IH Hin) as [x' [H1 H2]]. exists x'. split; [right; exact H1|exact H2].
Qed.

Lemma last_opt_in {A} (l : list A) x : last_opt l = Some x -> In x l.
Proof.
  induction l as [|a l IH]; [discriminate|]. destruct l as [|b l']; cbn [last_opt].
  - intro H. inversion H. left. reflexivity.
  - intro H. right. apply IH. exact H.
Qed.

Lemma occ_in k m v : In v (occ k m) -> exists k', In (k', v) m.
Proof.
  unfold occ. intro H. apply in_map_iff in H as [[k' v'] [E Hin]]. cbn [snd] in E. subst. apply filter_In in Hin as [Hin _].
  exists k'. exact Hin.
Qed.

Fixpoint osum (l : list node) : nat := match l with [] => 0 | x :: r => wt x + osum r end%nat.
Lemma osum_occ k m : (osum (occ k m) <= esum m)%nat.
Proof.
  unfold occ. induction m as [|[k' v] m IH]; cbn [filter map osum esum fst snd]; [lia|].
  destruct (bytes_eqb k k'); cbn [map osum snd]; lia.
Qed.

Lemma good_occ m k v : good (NMap m) -> In v (occ k m) -> good v.
Proof. intros G H. apply occ_in in H as [k' H]. apply (good_map_entry m k' v G H). Qed.

Lemma opt_core {A} (conv : node -> res A) k m x :
  good (NMap m) -> opt conv k m = Ok (Some x) -> exists v, good v /\ conv v = Ok x.
Proof.
  intros G H. unfold opt in H. destruct (map_res conv (occ k m)) as [vs|?|?] eqn:E; cbn [bind] in H; try discriminate.
  inversion H as [L]. apply last_opt_in in L. apply map_res_forall2 in E.
  destruct (forall2_in_r _ _ _ _ E L) as [v [Hv Hc]]. exists v. split; [apply (good_occ m k v G Hv)|exact Hc].
Qed.

Lemma req_core {A} (conv : node -> res A) k m x :
  good (NMap m) -> req conv k m = Ok x -> exists v, good v /\ conv v = Ok x.
Proof.
  intros G H. unfold req in H. destruct (opt conv k m) as [[y|]|?|?] eqn:E; cbn [bind] in H; try discriminate.
  inversion H; subst. apply (opt_core conv k m x G E).
Qed.

Lemma req_list_core {A} (conv : node -> res A) k m xs :
  good (NMap m) -> req_list conv k m = Ok xs ->
  len_ok xs = true /\ forall x, In x xs -> exists v, good v /\ conv v = Ok x.
Proof.
  intros G H. unfold req_list in H.
  destruct (map_res (as_list conv) (occ k m)) as [vs|?|?] eqn:E; cbn [bind] in H; try discriminate.
  assert (xs = List.concat vs) as -> by (destruct vs; [discriminate|inversion H; reflexivity]). clear H.
  apply map_res_forall2 in E.
  assert ((length (List.concat vs) <= osum (occ k m))%nat /\
          forall x, In x (List.concat vs) -> exists l v, In (NList l) (occ k m) /\ In v l /\ conv v = Ok x) as [L F].
  { induction E as [|v ys ovs vs Hv Hf IH]; [split; [cbn; lia|intros x []]|].
    destruct IH as [IL IF]. destruct v; cbn [as_list] in Hv; try discriminate.
    pose proof (map_res_forall2 _ _ _ Hv) as F2. cbn [List.concat osum]. rewrite app_length. split.
    - rewrite <- (forall2_len _ _ _ F2). rewrite wt_list. pose proof (length_le_lsum l). lia.
    - intros x Hin. apply in_app_or in Hin as [Hin|Hin].
      + destruct (forall2_in_r _ _ _ _ F2 Hin) as [w [Hw Hc]]. exists l, w. repeat split; auto. left. reflexivity.
      + destruct (IF x Hin) as (l' & w & H1 & H2 & H3). exists l', w. repeat split; auto. right. exact H1. }
  split.
  - pose proof (osum_occ k m). destruct G as [_ B]. rewrite wt_map in B. unfold len_ok, nlen, MaxStr, MaxInt in *. lia.
  - intros x Hin. destruct (F x Hin) as (l & w & H1 & H2 & H3). exists w. split; [|exact H3].
    apply (good_list_elem l); [apply (good_occ m k _ G H1)|exact H2].
Qed.

Lemma good_string v s : good v -> as_string v = Ok s -> str_ok s = true.
Proof.
  intros [A B] H. destruct v; cbn [as_string] in H; try discriminate. inversion H; subst. cbn [wfl wt] in *.
  unfold str_ok. rewrite A. unfold Cid.blen, MaxStr in *. lia.
Qed.
Lemma good_bytes v s : good v -> as_bytes v = Ok s -> str_ok s = true.
Proof.
  intros [A B] H. destruct v; cbn [as_bytes] in H; try discriminate. inversion H; subst. cbn [wfl wt] in *.
  unfold str_ok. rewrite A. unfold Cid.blen, MaxStr in *. lia.
Qed.
Lemma good_link v c : good v -> as_link v = Ok c -> link_ok c = true.
Proof.
  intros [A B] H. destruct v; cbn [as_link] in H; try discriminate. inversion H; subst. cbn [wfl wt] in *.
  unfold link_ok. rewrite A. unfold Cid.blen, MaxStr in *. lia.
Qed.

Lemma list_ok {A} (conv : node -> res A) (ok : A -> bool) k m xs :
  good (NMap m) -> (forall v x, good v -> conv v = Ok x -> ok x = true) ->
  req_list conv k m = Ok xs -> forallb ok xs = true /\ len_ok xs = true.
Proof.
  intros G Hc H. apply req_list_core in H as [L F]; auto. split; [|exact L].
  apply forallb_forall. intros x Hx. destruct (F x Hx) as [v [Gv Cv]]. apply (Hc v x Gv Cv).
Qed.

Ltac bind_res H x E :=
  match type of H with
  | bind ?e _ = Ok _ => destruct e as [x|?|?] eqn:E; cbn [bind] in H; [|discriminate H|discriminate H]
  end.

Lemma prov_output_wf v p : good v -> node_to_prov v = Ok p -> wf_prov p = true.
Proof.
  intros G H. destruct v; cbn [node_to_prov] in H; try discriminate.
  bind_res H u E0. bind_res H i E1. bind_res H a E2. bind_res H md E3. bind_res H sg E4. inversion H; subst. clear H.
  unfold wf_prov. cbn [p_id p_addrs p_meta p_sig].
  destruct (req_core _ _ _ _ G E1) as [v1 [G1 C1]]. rewrite (good_string _ _ G1 C1).
  destruct (list_ok as_string str_ok _ _ _ G good_string E2) as [-> ->].
  destruct (req_core _ _ _ _ G E3) as [v3 [G3 C3]]. rewrite (good_bytes _ _ G3 C3).
  destruct (req_core _ _ _ _ G E4) as [v4 [G4 C4]]. rewrite (good_bytes _ _ G4 C4). reflexivity.
Qed.

Lemma ext_output_wf v x : good v -> node_to_ext v = Ok x -> wf_ext x = true.
Proof.
  intros G H. destruct v; cbn [node_to_ext] in H; try discriminate.
  bind_res H u E0. bind_res H ps E1. bind_res H o E2. inversion H; subst. clear H.
  unfold wf_ext. cbn [x_provs]. destruct (list_ok node_to_prov wf_prov _ _ _ G prov_output_wf E1) as [-> ->]. reflexivity.
Qed.

Lemma ad_output_wf v a : good v -> node_to_ad v = Ok a -> wf_ad a = true.
Proof.
  intros G H. destruct v; cbn [node_to_ad] in H; try discriminate.
  bind_res H u E0. bind_res H pv E1. bind_res H pr E2. bind_res H adr E3. bind_res H sg E4. bind_res H en E5.
  bind_res H cx E6. bind_res H md E7. bind_res H rm E8. bind_res H exo E9. inversion H; subst. clear H.
  unfold wf_ad. cbn [a_prev a_provider a_addrs a_sig a_entries a_ctx a_meta a_ext].
  assert (match pv with Some c => link_ok c | None => true end = true) as ->.
  { destruct pv as [c|]; [|reflexivity]. destruct (opt_core _ _ _ _ G E1) as [w [Gw Cw]]. apply (good_link _ _ Gw Cw). }
  destruct (req_core _ _ _ _ G E2) as [v2 [G2 C2]]. rewrite (good_string _ _ G2 C2).
  destruct (list_ok as_string str_ok _ _ _ G good_string E3) as [-> ->].
  destruct (req_core _ _ _ _ G E4) as [v4 [G4 C4]]. rewrite (good_bytes _ _ G4 C4).
  destruct (req_core _ _ _ _ G E5) as [v5 [G5 C5]]. rewrite (good_link _ _ G5 C5).
  destruct (req_core _ _ _ _ G E6) as [v6 [G6 C6]]. rewrite (good_bytes _ _ G6 C6).
  destruct (req_core _ _ _ _ G E7) as [v7 [G7 C7]]. rewrite (good_bytes _ _ G7 C7).
  cbn [andb]. destruct exo as [x|]; [|reflexivity]. destruct (opt_core _ _ _ _ G E9) as [w [Gw Cw]]. apply (ext_output_wf _ _ Gw Cw).
Qed.

Lemma chunk_output_wf v c : good v -> node_to_chunk v = Ok c -> wf_chunk c = true.
Proof.
  intros G H. destruct v; cbn [node_to_chunk] in H; try discriminate.
  bind_res H u E0. bind_res H es E1. bind_res H nx E2. inversion H; subst. clear H.
  unfold wf_chunk. cbn [c_entries c_next].
  destruct (list_ok as_bytes str_ok _ _ _ G good_bytes E1) as [-> ->]. cbn [andb].
  destruct nx as [l|]; [|reflexivity]. destruct (opt_core _ _ _ _ G E2) as [w [Gw Cw]]. apply (good_link _ _ Gw Cw).
Qed.

(* For ALL byte strings of at most 33554432 bytes: a value the typed load returns is
   well-formed, so it re-encodes to a block from which both load paths give it back. *)
Theorem typed_load_output_reencodes_proved b :
  wf_bytes b = true -> blen b <= MaxStr ->
  (forall a, typed_load_ad b = Ok a ->
     wf_ad a = true /\ typed_load_ad (ad_encode a) = Ok a /\ (n <- generic_load (ad_encode a) ;; unwrap_ad n) = Ok a) /\
  (forall c, typed_load_chunk b = Ok c ->
     wf_chunk c = true /\ typed_load_chunk (chunk_encode c) = Ok c /\ (n <- generic_load (chunk_encode c) ;; unwrap_chunk n) = Ok c).
Proof.
  intros Hw Hl. split.
  - intros a H. unfold typed_load_ad in H. destruct (decode_lax b) as [n|?|?] eqn:E; cbn [bind] in H; try discriminate.
    apply decode_lax_output in E as [A B]; auto.
    assert (wf_ad a = true) as W by (apply (ad_output_wf n); [split; [exact A|unfold Cid.blen in Hl; lia]|exact H]).
    split; [exact W|apply C13_IpldSchema.ad_bytes_roundtrip_cbor_proved, W].
  - intros c H. unfold typed_load_chunk in H. destruct (decode_lax b) as [n|?|?] eqn:E; cbn [bind] in H; try discriminate.
    apply decode_lax_output in E as [A B]; auto.
    assert (wf_chunk c = true) as W by (apply (chunk_output_wf n); [split; [exact A|unfold Cid.blen in Hl; lia]|exact H]).
    split; [exact W|apply C13_IpldSchema.chunk_bytes_roundtrip_cbor_proved, W].
Qed.
