(* GenTie_C16 -- announce/receiver.go: the ordered steps of Receiver.Close, UncacheCid and of the
   admission check of a direct announcement, as regenerated from the Go source
   (gen/Gen_Funcs_announce.v), against the program counters of the thread-level model
   model/C16_ReceiverClose.v.  The interleaving semantics stays with the model and with the
   regenerated synchronisation skeleton (Gen_Sync_announce); what is tied here is the DATA and
   ORDER part of each call: which statements run, in which order, under which condition. *)
From Coq Require Import ZArith NArith List Bool Lia String.
From Lib Require Import Bytes.
From Model Require Import Announce_Receiver C16_ReceiverClose.
From Proofs Require Import GenTie_Lib.
From Gen Require Import Gen_Consts Gen_Funcs_prelude Gen_Funcs_announce.
Import ListNotations.
Open Scope Z_scope.

(* ---- Close ---- *)
(* the statements of Close as program counters of the model (r.topicSub.Cancel() is part of the
   model's ClSet step: do_set_closed sets closed and sub_cancelled together) *)
Definition close_pc (early : bool) (s : string) : option pc :=
  if String.eqb s "r.announceMutex.Lock()" then Some ClLock
  else if String.eqb s "r.closed = true" then Some ClSet
  else if String.eqb s "r.announceMutex.Unlock()" then Some (if early then ClEarlyUnlock else ClUnlock)
  else if String.eqb s "close(r.done)" then Some ClCloseDone
  else if String.eqb s "r.cancelWatch()" then Some ClCancelWatch
  else if String.eqb s "<-r.watchDone" then Some ClWaitWatch
  else None.

Fixpoint pcs (early : bool) (tr : list string) : list pc :=
  match tr with
  | [] => []
  | s :: r => match close_pc early s with Some p => p :: pcs early r | None => pcs early r end
  end.

(* the path of a Close thread through the model (ClCheck is the `if r.closed`; a receiver
   without a watcher leaves at ClCancelWatch without doing anything) *)
Definition close_path (closed has_watcher : bool) : list pc :=
  if closed then [ClLock; ClEarlyUnlock]
  else [ClLock; ClSet; ClUnlock; ClCloseDone] ++ (if has_watcher then [ClCancelWatch; ClWaitWatch] else []).

Section Close.
  Variables (CF SD SUB TOP : Type).
  Variables (nilCF : CF -> bool) (nilSD : SD -> bool) (nilSUB : SUB -> bool).
  Variables (closeSD : SD -> option string) (closeTOP : TOP -> option string).
  Variables (cancelPubsub cancelWatch : CF) (sender : SD) (topic : TOP) (sub : SUB).

  Definition go_close (closed : bool) :=
    announce_Receiver_Close CF SD SUB TOP nilCF nilSD nilSUB closeSD closeTOP
      cancelPubsub cancelWatch closed sender topic sub.

  (* order and conditions of the synchronisation steps; closed is set exactly when it was not *)
  Theorem tie_Receiver_Close : forall closed : bool,
    match go_close closed with
    | FReturn ret (closed', tr) =>
        pcs closed tr = close_path closed (negb (nilCF cancelWatch)) /\
        closed' = true /\
        (closed = true -> ret = "return nil"%string /\ tr = ["r.announceMutex.Lock()"; "r.announceMutex.Unlock()"]%string)
    | _ => False
    end.
  Proof.
    intros closed. unfold go_close, announce_Receiver_Close, close_path.
    destruct closed.
    - repeat split; reflexivity.
    - destruct (nilSUB sub), (nilCF cancelWatch), (nilCF cancelPubsub), (nilSD sender);
        cbn [negb]; try destruct (closeTOP topic); try destruct (closeSD sender);
        cbn; repeat split; try reflexivity; try congruence; try (intro H; discriminate H).
  Qed.

  (* the subscription is cancelled while the mutex is held: between `r.closed = true` and the
     Unlock (the model's ClSet does both at once) *)
  Theorem Close_cancels_sub_under_lock :
    match go_close false with
    | FReturn _ (_, tr) =>
        nilSUB sub = false ->
        exists rest, tr = ("r.announceMutex.Lock()" :: "r.closed = true" :: "r.topicSub.Cancel()"
                           :: "r.announceMutex.Unlock()" :: "close(r.done)" :: rest)%string
    | _ => False
    end.
  Proof.
    unfold go_close, announce_Receiver_Close.
    destruct (nilSUB sub), (nilCF cancelWatch), (nilCF cancelPubsub), (nilSD sender);
      cbn [negb]; try destruct (closeTOP topic); try destruct (closeSD sender);
      cbn; intro H; try discriminate H; eexists; reflexivity.
  Qed.
End Close.

(* the model's Close thread follows close_path: each step goes to the next program counter *)
Theorem model_close_order : forall (s : st) (t : nat) (th : thread) (c : nat),
  (t_pc th = ClCheck -> step_thread s t th c = goto s t th (if closed s then ClEarlyUnlock else ClSet)) /\
  (t_pc th = ClEarlyUnlock -> step_thread s t th c = ret (with_mu s None) t th RetEarly) /\
  (t_pc th = ClSet -> step_thread s t th c = goto (do_set_closed s) t th ClUnlock) /\
  (t_pc th = ClUnlock -> step_thread s t th c = goto (with_mu s None) t th ClCloseDone) /\
  (t_pc th = ClCloseDone -> step_thread s t th c = goto (do_close_done s) t th ClCancelWatch) /\
  (t_pc th = ClCancelWatch -> step_thread s t th c =
     if has_watcher s then goto (do_cancel_watch s) t th ClWaitWatch else ret s t th RetNil).
Proof.
  intros. unfold step_thread. repeat split; intro E; rewrite E; try reflexivity.
  destruct (closed s); reflexivity.
Qed.

(* ---- UncacheCid: lock, remove, unlock ---- *)
Theorem tie_UncacheCid :
  announce_Receiver_UncacheCid
  = FFall ["r.announceMutex.Lock()"; "r.announceCache.remove(adCid.String())"; "r.announceMutex.Unlock()"]%string.
Proof. reflexivity. Qed.

(* ---- a direct announcement: announceCheck as the model's DiAllow .. DiUnlock* ---- *)
Definition check_result (allowed closed hit : bool) : result :=
  if negb allowed then RetIgnored else if closed then RetClosed else if hit then RetIgnored else RetNil.

Definition read_check (r : frag (list string)) : option result :=
  match r with
  | FReturn s _ =>
      if String.eqb s "return errSourceNotAllowed" then Some RetIgnored
      else if String.eqb s "return ErrClosed" then Some RetClosed
      else if String.eqb s "return errAlreadySeenCid" then Some RetIgnored
      else if String.eqb s "return nil" then Some RetNil else None
  | _ => None
  end.

Theorem tie_announceCheck_closed : forall (T : Type) (isnil : T -> bool) (allow : T) (called closed hit : bool),
  read_check (announce_announceCheck T isnil called hit allow closed)
  = Some (check_result (isnil allow || called) closed hit) /\
  (* the closed flag is read under the mutex, after the allow callback *)
  match announce_announceCheck T isnil called hit allow closed with
  | FReturn _ tr => (isnil allow || called) = true ->
                    tr = ["r.announceMutex.Lock()"; "defer r.announceMutex.Unlock()"]%string
  | _ => False
  end.
Proof.
  intros. unfold announce_announceCheck, check_result.
  destruct (isnil allow), called, closed, hit; cbn; split; try reflexivity; intro H; try reflexivity; discriminate H.
Qed.

(* the model: a call arriving after Close set closed returns RetClosed (DiCheck -> DiUnlockClosed) *)
Theorem model_direct_closed : forall (s : st) (t : nat) (th : thread) (c : nat),
  (t_pc th = DiAllow -> step_thread s t th c =
     if call_allowed (t_call th) then goto s t th DiLock else ret s t th RetIgnored) /\
  (t_pc th = DiCheck -> step_thread s t th c =
     if closed s then goto s t th DiUnlockClosed else goto s t th DiUpdate) /\
  (t_pc th = DiUnlockClosed -> step_thread s t th c = ret (with_mu s None) t th RetClosed).
Proof.
  intros. unfold step_thread. repeat split; intro E; rewrite E; reflexivity.
Qed.
