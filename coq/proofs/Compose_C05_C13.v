(* Composition of C05 (signatures) with C13 (schema layer + DAG-CBOR): proofs. *)
From Coq Require Import Lia ZifyN ZifyNat ZifyBool.
From Lib Require Import Bytes Varint SymCrypto.
From Model Require C05_AdSignature C13_DagCbor C13_IpldSchema.
From Model Require Import Compose_C05_C13.
From Proofs Require C05_AdSignature C13_IpldSchema.
From Coq Require Import List.
Import ListNotations.
Open Scope N_scope.

Module PA := Proofs.C05_AdSignature.
Module PS := Proofs.C13_IpldSchema.

Section Compose.
  Variables privkey pubkey sigt peerid : Type.
  Variable pub : privkey -> pubkey.
  Variable sign : privkey -> bytes -> sigt.
  Variable verify : pubkey -> bytes -> sigt -> bool.
  Variable peer_id : pubkey -> peerid.
  Variable peerid_eqb : peerid -> peerid -> bool.
  Variable Hf : bytes -> bytes.
  Variable decode_pid : bytes -> option peerid.
  Variable env_encode : envelope pubkey sigt -> bytes.
  Variable env_decode : bytes -> option (envelope pubkey sigt).

  Local Notation ad := (A.ad pubkey sigt).
  Local Notation provider := (A.provider pubkey sigt).
  Local Notation H := (A.ideal_H Hf).
  Local Notation V strict := (A.verify_gen verify peer_id peerid_eqb H decode_pid strict).
  Local Notation WV strict := (wire_verify env_decode verify peer_id peerid_eqb H decode_pid strict).
  Local Notation to13 := (to_c13 env_encode).
  Local Notation of13 := (of_c13 env_decode).

  (* ---------------- (1) the mapping commutes with every shared field ---------------- *)

  Lemma to_c13_fields (a : ad) :
    S.a_prev (to13 a) = A.a_prev a /\ S.a_provider (to13 a) = A.a_provider a /\
    S.a_addrs (to13 a) = A.a_addrs a /\ S.a_ctx (to13 a) = A.a_ctx a /\
    S.a_meta (to13 a) = A.a_md a /\ S.a_isrm (to13 a) = A.a_rm a /\
    (forall ent, A.a_entries a = Some ent -> S.a_entries (to13 a) = ent) /\
    S.a_sig (to13 a) = wire_bytes env_encode (A.a_sig a) /\
    option_map S.x_override (S.a_ext (to13 a)) = option_map (@A.x_override _ _) (A.a_ext a) /\
    option_map (fun x => map S.p_id (S.x_provs x)) (S.a_ext (to13 a)) = option_map (fun x => map (@A.p_id _ _) (A.x_providers x)) (A.a_ext a) /\
    option_map (fun x => map S.p_addrs (S.x_provs x)) (S.a_ext (to13 a)) = option_map (fun x => map (@A.p_addrs _ _) (A.x_providers x)) (A.a_ext a) /\
    option_map (fun x => map S.p_meta (S.x_provs x)) (S.a_ext (to13 a)) = option_map (fun x => map (@A.p_md _ _) (A.x_providers x)) (A.a_ext a) /\
    option_map (fun x => map S.p_sig (S.x_provs x)) (S.a_ext (to13 a)) =
      option_map (fun x => map (fun p => wire_bytes env_encode (A.p_sig p)) (A.x_providers x)) (A.a_ext a).
  Proof.
    destruct a as [pv pr ad sg en cx md rm ex]. unfold to_c13. cbn.
    repeat split; try reflexivity.
    - intros ent E. subst. reflexivity.
    - destruct ex; reflexivity.
    - destruct ex as [x|]; cbn; [|reflexivity]. rewrite map_map. reflexivity.
    - destruct ex as [x|]; cbn; [|reflexivity]. rewrite map_map. reflexivity.
    - destruct ex as [x|]; cbn; [|reflexivity]. rewrite map_map. reflexivity.
    - destruct ex as [x|]; cbn; [|reflexivity]. rewrite map_map. reflexivity.
  Qed.

  Lemma of_c13_fields (c : S.ad) :
    A.a_prev (of13 c) = S.a_prev c /\ A.a_provider (of13 c) = S.a_provider c /\
    A.a_addrs (of13 c) = S.a_addrs c /\ A.a_ctx (of13 c) = S.a_ctx c /\
    A.a_md (of13 c) = S.a_meta c /\ A.a_rm (of13 c) = S.a_isrm c /\
    A.a_entries (of13 c) = Some (S.a_entries c) /\
    A.a_sig (of13 c) = env_decode (S.a_sig c) /\
    option_map (@A.x_override _ _) (A.a_ext (of13 c)) = option_map S.x_override (S.a_ext c) /\
    option_map (fun x => map (@A.p_id _ _) (A.x_providers x)) (A.a_ext (of13 c)) = option_map (fun x => map S.p_id (S.x_provs x)) (S.a_ext c) /\
    option_map (fun x => map (@A.p_addrs _ _) (A.x_providers x)) (A.a_ext (of13 c)) = option_map (fun x => map S.p_addrs (S.x_provs x)) (S.a_ext c) /\
    option_map (fun x => map (@A.p_md _ _) (A.x_providers x)) (A.a_ext (of13 c)) = option_map (fun x => map S.p_meta (S.x_provs x)) (S.a_ext c) /\
    option_map (fun x => map (@A.p_sig _ _) (A.x_providers x)) (A.a_ext (of13 c)) =
      option_map (fun x => map (fun p => env_decode (S.p_sig p)) (S.x_provs x)) (S.a_ext c).
  Proof.
    destruct c as [pv pr ad sg en cx md rm ex]. unfold of_c13. cbn.
    repeat split; try reflexivity.
    all: destruct ex as [x|]; cbn; [|reflexivity]; rewrite ?map_map; reflexivity.
  Qed.

  Hypothesis RT : env_round_trip env_encode env_decode.
  Hypothesis EE : env_empty env_decode.

  Lemma decode_wire_bytes w : env_decode (wire_bytes env_encode w) = w.
  Proof. destruct w as [e|]; cbn; [apply RT|apply EE]. Qed.

  Lemma prov_of_to p : prov_of_c13 env_decode (prov_to_c13 env_encode p) = p.
  Proof. destruct p. unfold prov_of_c13, prov_to_c13. cbn. rewrite decode_wire_bytes. reflexivity. Qed.

  (* parsing the signature bytes of the C13 image gives the C05 value back *)
  Lemma of_to_c13 (a : ad) : A.a_entries a <> None -> of13 (to13 a) = a.
  Proof.
    intro En. destruct a as [pv pr ad sg en cx md rm ex]. cbn in En.
    destruct en as [ent|]; [|contradiction].
    unfold of_c13, to_c13. cbn. rewrite decode_wire_bytes. f_equal.
    destruct ex as [[ps ov]|]; cbn; [|reflexivity]. unfold ext_of_c13, ext_to_c13. cbn.
    f_equal. f_equal. rewrite map_map. rewrite <- (map_id ps) at 2. apply map_ext. intro p. apply prov_of_to.
  Qed.

  Lemma to_c13_injective (a b : ad) :
    A.a_entries a <> None -> A.a_entries b <> None -> to13 a = to13 b -> a = b.
  Proof. intros Ea Eb E. rewrite <- (of_to_c13 a Ea), <- (of_to_c13 b Eb), E. reflexivity. Qed.

  (* ---------------- well-formedness C13's round trip needs ---------------- *)

  (* The marshalled form of an envelope the library seals (payload type one of the two
     codecs, 34-byte payload) is a byte string the DAG-CBOR decoder accepts: bytes, at most
     MaxStr = 32 MiB.  (A premise about the protobuf encoder, which neither model covers.) *)
  Definition sealed_env_bytes_ok : Prop :=
    forall k ty pl, (ty = A.ad_codec \/ ty = A.ep_codec) -> length pl = 34%nat -> wf_bytes pl = true ->
      S.str_ok (env_encode (Envelope (pub k) ty pl (sign k (unsigned A.sig_dom ty pl)))) = true.
  (* the digest is a byte string *)
  Definition H_bytes : Prop := forall x, wf_bytes (Hf x) = true.

  Hypothesis SE : sealed_env_bytes_ok.
  Hypothesis Hlen : A.H_len32 Hf.
  Hypothesis Hwf : H_bytes.

  Lemma payload_len raw : length (A.mh_encode A.SHA2_256 (Hf raw)) = 34%nat.
  Proof. apply PA.mh_encode_len32. apply Hlen. Qed.

  Lemma payload_wf raw : wf_bytes (A.mh_encode A.SHA2_256 (Hf raw)) = true.
  Proof.
    unfold A.mh_encode, lenN. rewrite (Hlen raw). change (Varint.enc A.SHA2_256) with [18]. change (Varint.enc (N.of_nat 32)) with [32].
    pose proof (Hwf raw) as W. unfold wf_bytes in *. cbn [app forallb]. rewrite W. reflexivity.
  Qed.

  Lemma wf_set_sig (a : ad) e :
    S.wf_ad (to13 a) = true -> S.str_ok (env_encode e) = true -> S.wf_ad (to13 (A.set_sig a (Some e))) = true.
  Proof.
    destruct a as [pv pr ad sg en cx md rm ex]. unfold S.wf_ad, to_c13, A.set_sig.
    cbn [S.a_prev S.a_provider S.a_addrs S.a_sig S.a_entries S.a_ctx S.a_meta S.a_isrm S.a_ext
         A.a_prev A.a_provider A.a_addrs A.a_sig A.a_entries A.a_ctx A.a_md A.a_rm A.a_ext wire_bytes].
    intros W Se. rewrite !andb_true_iff in *. intuition.
  Qed.

  Lemma wf_plain_signed (a a' : ad) k :
    S.wf_ad (to13 a) = true -> A.sign_plain pub sign H a k = Ok a' -> S.wf_ad (to13 a') = true.
  Proof.
    intros W S0. unfold A.sign_plain in S0. destruct (A.a_ext a); [discriminate|].
    rewrite PA.sign_ad_spec in S0. destruct (A.a_entries a) as [ent|]; [|discriminate].
    apply PA.Ok_inj in S0. subst a'. apply wf_set_sig; [exact W|].
    apply SE; [left; reflexivity|apply payload_len|apply payload_wf].
  Qed.

  Lemma wf_sealed_entries (a : ad) x k fetch ent ps ps' :
    Forall2 (PA.sealed_entry _ _ _ pub sign Hf a x k fetch ent) ps ps' ->
    forallb S.wf_prov (map (prov_to_c13 env_encode) ps) = true ->
    forallb S.wf_prov (map (prov_to_c13 env_encode) ps') = true /\ length ps' = length ps.
  Proof.
    induction 1 as [|p p' r r' (key & _ & E) F IH]; intro W; [auto|].
    cbn [map forallb length] in *. apply andb_prop in W as [Wp Wr]. destruct (IH Wr) as [IH1 IH2].
    split; [|congruence]. apply andb_true_intro. split; [|exact IH1].
    subst p'. destruct p as [i ad md sg].
    assert (Sg : S.str_ok (env_encode (Envelope (pub key) A.ep_codec (A.mh_encode A.SHA2_256 (Hf (A.ep_raw a x (A.Provider i ad md sg) ent)))
                    (sign key (unsigned A.sig_dom A.ep_codec (A.mh_encode A.SHA2_256 (Hf (A.ep_raw a x (A.Provider i ad md sg) ent))))))) = true)
      by (apply SE; [right; reflexivity|apply payload_len|apply payload_wf]).
    unfold S.wf_prov, prov_to_c13, A.set_psig in *.
    cbn [S.p_id S.p_addrs S.p_meta S.p_sig A.p_id A.p_addrs A.p_md A.p_sig wire_bytes] in *.
    rewrite !andb_true_iff in *. intuition.
  Qed.

  Lemma wf_set_ext (a : ad) x ps' ov :
    S.wf_ad (to13 a) = true -> A.a_ext a = Some x ->
    forallb S.wf_prov (map (prov_to_c13 env_encode) ps') = true -> length ps' = length (A.x_providers x) ->
    S.wf_ad (to13 (A.set_ext a (Some (A.Ext ps' ov)))) = true.
  Proof.
    destruct a as [pv pr ad sg en cx md rm ex]. unfold S.wf_ad, to_c13, A.set_ext.
    cbn [S.a_prev S.a_provider S.a_addrs S.a_sig S.a_entries S.a_ctx S.a_meta S.a_isrm S.a_ext
         A.a_prev A.a_provider A.a_addrs A.a_sig A.a_entries A.a_ctx A.a_md A.a_rm A.a_ext option_map].
    intros W X F L. subst ex. unfold S.wf_ext, ext_to_c13 in *.
    cbn [option_map S.x_provs S.x_override A.x_providers A.x_override] in *.
    unfold S.len_ok, C13_DagCbor.nlen in *. rewrite !map_length in *. rewrite L.
    rewrite !andb_true_iff in *. intuition.
  Qed.

  Lemma wf_eps_signed (a a' : ad) k fetch :
    S.wf_ad (to13 a) = true -> A.sign_with_eps pub sign H a k fetch = Ok a' -> S.wf_ad (to13 a') = true.
  Proof.
    intros W S0. unfold A.sign_with_eps in S0. rewrite PA.sign_ad_spec in S0.
    destruct (A.a_entries a) as [ent|] eqn:En; [|discriminate]. cbn [bind] in S0.
    remember (Envelope (pub k) A.ad_codec (A.mh_encode A.SHA2_256 (Hf (A.ad_raw a ent)))
                       (sign k (unsigned A.sig_dom A.ad_codec (A.mh_encode A.SHA2_256 (Hf (A.ad_raw a ent)))))) as e0 eqn:E0.
    assert (Se : S.str_ok (env_encode e0) = true) by (subst e0; apply SE; [left; reflexivity|apply payload_len|apply payload_wf]).
    pose proof (wf_set_sig a e0 W Se) as W1.
    change (A.a_ext (A.set_sig a (Some e0))) with (A.a_ext a) in S0.
    destruct (A.a_ext a) as [x|] eqn:X.
    2:{ apply PA.Ok_inj in S0. subst a'. exact W1. }
    set (a1 := A.set_sig a (Some e0)) in *.
    destruct (A.sign_eps pub sign H a1 x k fetch (A.x_providers x)) as [ps'| |] eqn:S1; try discriminate. cbn [bind] in S0.
    destruct (negb (existsb (A.is_main a1) ps') && negb (SymCrypto.is_nil ps'))%bool; [discriminate|].
    apply PA.Ok_inj in S0. subst a'.
    assert (En1 : A.a_entries a1 = Some ent) by exact En.
    destruct (PA.sign_eps_spec _ _ _ pub sign Hf a1 x k fetch ent En1 _ _ S1) as [F _].
    assert (X1 : A.a_ext a1 = Some x) by exact X.
    assert (Wx : forallb S.wf_prov (map (prov_to_c13 env_encode) (A.x_providers x)) = true).
    { clear - W X. destruct a as [pv pr ad sg en cx md rm ex]. unfold S.wf_ad, to_c13 in W.
      cbn [S.a_prev S.a_provider S.a_addrs S.a_sig S.a_entries S.a_ctx S.a_meta S.a_isrm S.a_ext
           A.a_prev A.a_provider A.a_addrs A.a_sig A.a_entries A.a_ctx A.a_md A.a_rm A.a_ext] in W.
      cbn in X. subst ex. unfold S.wf_ext, ext_to_c13 in W. cbn [option_map S.x_provs] in W.
      rewrite !andb_true_iff in W. intuition. }
    destruct (wf_sealed_entries _ _ _ _ _ _ _ F Wx) as [G1 G2].
    apply wf_set_ext with x; assumption.
  Qed.

  (* ---------------- (2) sign, put on the wire, read back, verify ---------------- *)

  Hypothesis eqb_spec : forall a b, peerid_eqb a b = true <-> a = b.
  Hypothesis VS : VerifySign pub sign verify.

  Lemma wire_verify_encode st (a : ad) :
    S.wf_ad (to13 a) = true -> A.a_entries a <> None -> WV st (wire_encode env_encode a) = V st a.
  Proof.
    intros W En. unfold wire_verify, wire_encode.
    destruct (PS.ad_bytes_roundtrip_cbor_proved _ W) as [R _]. rewrite R. cbn [bind].
    rewrite of_to_c13 by exact En. reflexivity.
  Qed.

  Theorem sign_wire_verify :
    (forall st (a a' : ad) k,
       S.wf_ad (to13 a) = true -> A.sign_plain pub sign H a k = Ok a' ->
       WV st (wire_encode env_encode a') = Ok (peer_id (pub k))) /\
    (forall (a a' : ad) k fetch,
       S.wf_ad (to13 a) = true -> A.sign_with_eps pub sign H a k fetch = Ok a' ->
       (forall x p, A.a_ext a = Some x -> In p (A.x_providers x) -> A.is_main a p = false ->
                    forall key, fetch (A.p_id p) = Ok key -> decode_pid (A.p_id p) = Some (peer_id (pub key))) ->
       WV true (wire_encode env_encode a') = Ok (peer_id (pub k))).
  Proof.
    split.
    - intros st a a' k W S0.
      pose proof (PA.sign_verify_plain _ _ _ _ pub sign verify peer_id peerid_eqb Hf decode_pid eqb_spec VS Hlen st a k a' S0) as Vok.
      rewrite wire_verify_encode; [exact Vok|eapply wf_plain_signed; eauto|].
      destruct (PA.accepted_has_entries _ _ _ verify peer_id peerid_eqb Hf decode_pid eqb_spec _ _ _ Vok) as [ent E]. congruence.
    - intros a a' k fetch W S0 Fetch.
      pose proof (PA.sign_verify_eps _ _ _ _ pub sign verify peer_id peerid_eqb Hf decode_pid eqb_spec VS Hlen a k fetch a' S0 Fetch) as Vok.
      rewrite wire_verify_encode; [exact Vok|eapply wf_eps_signed; eauto|].
      destruct (PA.accepted_has_entries _ _ _ verify peer_id peerid_eqb Hf decode_pid eqb_spec _ _ _ Vok) as [ent E]. congruence.
  Qed.

  (* ---------------- (3) tampering on the wire ---------------- *)

  (* b is a with exactly one signed value replaced (signatures and everything else kept) *)
  Inductive one_value_changed (a : ad) : ad -> Prop :=
  | ChPrev v : A.link_bytes v <> A.link_bytes (A.a_prev a) -> one_value_changed a (PA.upd_prev _ _ a v)
  | ChEntries v : v <> A.a_entries a -> one_value_changed a (PA.upd_entries _ _ a v)
  | ChProvider v : v <> A.a_provider a -> one_value_changed a (PA.upd_provider _ _ a v)
  | ChAddr l1 x l2 x' : A.a_addrs a = l1 ++ x :: l2 -> x' <> x -> one_value_changed a (PA.upd_addrs _ _ a (l1 ++ x' :: l2))
  | ChMd v : v <> A.a_md a -> one_value_changed a (PA.upd_md _ _ a v)
  | ChRm v : v <> A.a_rm a -> one_value_changed a (PA.upd_rm _ _ a v)
  | ChCtx x v : A.a_ext a = Some x -> A.x_providers x <> [] -> v <> A.a_ctx a -> one_value_changed a (PA.upd_ctx _ _ a v)
  | ChOverride x v : A.a_ext a = Some x -> A.x_providers x <> [] -> v <> A.x_override x ->
      one_value_changed a (PA.upd_override _ _ a x v)
  | ChEpId x l1 p l2 v : A.a_ext a = Some x -> A.x_providers x = l1 ++ p :: l2 -> v <> A.p_id p ->
      one_value_changed a (PA.upd_providers _ _ a x (l1 ++ PA.upd_pid _ _ p v :: l2))
  | ChEpAddr x l1 p l2 m1 y m2 y' : A.a_ext a = Some x -> A.x_providers x = l1 ++ p :: l2 ->
      A.p_addrs p = m1 ++ y :: m2 -> y' <> y ->
      one_value_changed a (PA.upd_providers _ _ a x (l1 ++ PA.upd_paddrs _ _ p (m1 ++ y' :: m2) :: l2))
  | ChEpMd x l1 p l2 v : A.a_ext a = Some x -> A.x_providers x = l1 ++ p :: l2 -> v <> A.p_md p ->
      one_value_changed a (PA.upd_providers _ _ a x (l1 ++ PA.upd_pmd _ _ p v :: l2)).

  Hypothesis Hinj : A.H_injective Hf.

  Lemma one_value_changed_rejected st st' a b s :
    V st a = Ok s -> one_value_changed a b -> is_ok (V st' b) = false.
  Proof.
    intros Va Ch.
    pose proof (PA.ad_value_change_rejected _ _ _ verify peer_id peerid_eqb Hf decode_pid eqb_spec Hinj st st' a s Va)
      as (T1 & T2 & T3 & T4 & T5 & T6).
    destruct Ch as [v N|v N|v N|l1 x l2 x' E N|v N|v N|x v X Ne N|x v X Ne N|x l1 p l2 v X Ps N|x l1 p l2 m1 y m2 y' X Ps Pa N|x l1 p l2 v X Ps N].
    - apply T1; exact N.
    - apply T2; exact N.
    - apply T3; exact N.
    - apply (T4 l1 x l2 x'); assumption.
    - apply T5; exact N.
    - apply T6; exact N.
    - pose proof (PA.ep_value_change_rejected _ _ _ verify peer_id peerid_eqb Hf decode_pid eqb_spec Hinj st st' a s x Va X) as (U1 & _).
      apply U1; assumption.
    - pose proof (PA.ep_value_change_rejected _ _ _ verify peer_id peerid_eqb Hf decode_pid eqb_spec Hinj st st' a s x Va X) as (_ & U2 & _).
      apply U2; assumption.
    - pose proof (PA.ep_value_change_rejected _ _ _ verify peer_id peerid_eqb Hf decode_pid eqb_spec Hinj st st' a s x Va X) as (_ & _ & U3 & _).
      apply U3; assumption.
    - pose proof (PA.ep_value_change_rejected _ _ _ verify peer_id peerid_eqb Hf decode_pid eqb_spec Hinj st st' a s x Va X) as (_ & _ & _ & U4 & _).
      apply (U4 l1 p l2 m1 y m2 y'); assumption.
    - pose proof (PA.ep_value_change_rejected _ _ _ verify peer_id peerid_eqb Hf decode_pid eqb_spec Hinj st st' a s x Va X) as (_ & _ & _ & _ & U5).
      apply U5; assumption.
  Qed.

  (* An advertisement that differs from an accepted one in a single signed value reads
     differently on the wire (DAG-CBOR is injective on well-formed values) and, decoded
     from its own wire form, does not verify. *)
  Theorem wire_tamper st st' (a b : ad) s :
    V st a = Ok s -> one_value_changed a b -> A.a_entries b <> None ->
    S.wf_ad (to13 a) = true -> S.wf_ad (to13 b) = true ->
    wire_encode env_encode b <> wire_encode env_encode a /\
    is_ok (WV st' (wire_encode env_encode b)) = false.
  Proof.
    intros Va Ch Eb Wa Wb.
    pose proof (one_value_changed_rejected st st _ _ _ Va Ch) as Rj0.
    pose proof (one_value_changed_rejected st st' _ _ _ Va Ch) as Rj.
    destruct (PA.accepted_has_entries _ _ _ verify peer_id peerid_eqb Hf decode_pid eqb_spec _ _ _ Va) as [ent Ea].
    split.
    - intro E. unfold wire_encode in E. apply PS.ad_encode_injective in E; [|exact Wb|exact Wa].
      apply to_c13_injective in E; [|exact Eb|congruence]. subst b. rewrite Va in Rj0. discriminate.
    - rewrite wire_verify_encode by assumption. exact Rj.
  Qed.

  (* more generally: whatever well-formed value an attacker puts on the wire in place of
     an accepted advertisement, if the receiver decodes an advertisement that differs from
     it in one signed value, verification fails -- and any wire bytes that decode to the
     accepted advertisement verify like it *)
  Theorem wire_decoded_tamper st st' (a : ad) s w c :
    V st a = Ok s -> S.typed_load_ad w = Ok c -> one_value_changed a (of13 c) ->
    is_ok (WV st' w) = false.
  Proof.
    intros Va L Ch. unfold wire_verify. rewrite L. cbn [bind].
    eapply one_value_changed_rejected; eauto.
  Qed.
End Compose.

(* ------------------------------------------------------------------ *)
(* (1) in the compact form stated in props/Properties_C05.v *)

Lemma mapping_commutes (pubkey sigt : Type) (env_encode : envelope pubkey sigt -> bytes)
      (env_decode : bytes -> option (envelope pubkey sigt)) :
  (* C05 -> C13, field by field *)
  (forall a : A.ad pubkey sigt,
     S.a_prev (to_c13 env_encode a) = A.a_prev a /\ S.a_provider (to_c13 env_encode a) = A.a_provider a /\
     S.a_addrs (to_c13 env_encode a) = A.a_addrs a /\ S.a_ctx (to_c13 env_encode a) = A.a_ctx a /\
     S.a_meta (to_c13 env_encode a) = A.a_md a /\ S.a_isrm (to_c13 env_encode a) = A.a_rm a /\
     (forall ent, A.a_entries a = Some ent -> S.a_entries (to_c13 env_encode a) = ent) /\
     S.a_sig (to_c13 env_encode a) = wire_bytes env_encode (A.a_sig a) /\
     S.a_ext (to_c13 env_encode a) = option_map (ext_to_c13 env_encode) (A.a_ext a)) /\
  (forall x : A.ext pubkey sigt,
     S.x_provs (ext_to_c13 env_encode x) = map (prov_to_c13 env_encode) (A.x_providers x) /\
     S.x_override (ext_to_c13 env_encode x) = A.x_override x) /\
  (forall p : A.provider pubkey sigt,
     S.p_id (prov_to_c13 env_encode p) = A.p_id p /\ S.p_addrs (prov_to_c13 env_encode p) = A.p_addrs p /\
     S.p_meta (prov_to_c13 env_encode p) = A.p_md p /\ S.p_sig (prov_to_c13 env_encode p) = wire_bytes env_encode (A.p_sig p)) /\
  (* C13 -> C05: the same fields, signature bytes parsed *)
  (forall c : S.ad,
     A.a_prev (of_c13 env_decode c) = S.a_prev c /\ A.a_provider (of_c13 env_decode c) = S.a_provider c /\
     A.a_addrs (of_c13 env_decode c) = S.a_addrs c /\ A.a_ctx (of_c13 env_decode c) = S.a_ctx c /\
     A.a_md (of_c13 env_decode c) = S.a_meta c /\ A.a_rm (of_c13 env_decode c) = S.a_isrm c /\
     A.a_entries (of_c13 env_decode c) = Some (S.a_entries c) /\
     A.a_sig (of_c13 env_decode c) = env_decode (S.a_sig c) /\
     A.a_ext (of_c13 env_decode c) = option_map (ext_of_c13 env_decode) (S.a_ext c)) /\
  (forall x : S.extprov,
     A.x_providers (ext_of_c13 env_decode x) = map (prov_of_c13 env_decode) (S.x_provs x) /\
     A.x_override (ext_of_c13 env_decode x) = S.x_override x) /\
  (forall p : S.provider,
     A.p_id (prov_of_c13 env_decode p) = S.p_id p /\ A.p_addrs (prov_of_c13 env_decode p) = S.p_addrs p /\
     A.p_md (prov_of_c13 env_decode p) = S.p_meta p /\ A.p_sig (prov_of_c13 env_decode p) = env_decode (S.p_sig p)) /\
  (* parsing the signatures of the C13 image gives the C05 value back; the image determines it *)
  (env_round_trip env_encode env_decode -> env_empty env_decode ->
   (forall a : A.ad pubkey sigt, A.a_entries a <> None -> of_c13 env_decode (to_c13 env_encode a) = a) /\
   (forall a b : A.ad pubkey sigt, A.a_entries a <> None -> A.a_entries b <> None ->
      to_c13 env_encode a = to_c13 env_encode b -> a = b)).
Proof.
  split; [|split; [|split; [|split; [|split; [|split]]]]].
  - intro a. repeat split; try reflexivity. intros ent E. cbn. rewrite E. reflexivity.
  - intro x. split; reflexivity.
  - intro p. repeat split; reflexivity.
  - intro c. repeat split; reflexivity.
  - intro x. split; reflexivity.
  - intro p. repeat split; reflexivity.
  - intros RT EE. split.
    + intros a En. apply of_to_c13; assumption.
    + intros a b Ea Eb E. eapply to_c13_injective; eauto.
Qed.

(* ------------------------------------------------------------------ *)
(* the premises of the composed theorems can be met together *)

Module WitnessC.
  (* a one-key scheme whose every signature verifies, and a length-prefixed envelope
     serialisation: injective on all envelopes, a short byte string on the sealed ones *)
  Definition pub (k : unit) : unit := tt.
  Definition sign (k : unit) (m : bytes) : unit := tt.
  Definition verify (pk : unit) (m : bytes) (s : unit) : bool := true.
  Definition Hc (x : bytes) : bytes := repeat 7 32.

  Definition env_encode (e : envelope unit unit) : bytes := lenN (e_ty e) :: e_ty e ++ e_payload e.
  Definition env_decode (b : bytes) : option (envelope unit unit) :=
    match b with
    | [] => None
    | n :: r => Some (Envelope tt (firstn (N.to_nat n) r) (skipn (N.to_nat n) r) tt)
    end.

  Lemma rt : env_round_trip env_encode env_decode.
  Proof.
    intros [[] ty pl []]. unfold env_encode, env_decode, lenN. cbn [e_ty e_payload].
    rewrite Nat2N.id. rewrite firstn_app, Nat.sub_diag, firstn_all, skipn_app, Nat.sub_diag, skipn_all.
    cbn. rewrite app_nil_r. reflexivity.
  Qed.
  Lemma ee : env_empty env_decode.
  Proof. reflexivity. Qed.

  Lemma wf_bytes_app a b : wf_bytes (a ++ b) = (wf_bytes a && wf_bytes b)%bool.
  Proof. unfold wf_bytes. apply forallb_app. Qed.

  Lemma se : sealed_env_bytes_ok unit unit unit pub sign env_encode.
  Proof.
    intros k ty pl T L W. unfold env_encode, S.str_ok. cbn [e_ty e_payload].
    apply andb_true_intro. split.
    - change (lenN ty :: ty ++ pl) with ([lenN ty] ++ ty ++ pl). rewrite !wf_bytes_app, W.
      destruct T as [-> | ->]; vm_compute; reflexivity.
    - unfold Cid.blen. cbn [length]. rewrite app_length, L.
      destruct T as [-> | ->]; vm_compute; reflexivity.
  Qed.

  Lemma laws :
    VerifySign pub sign verify /\ A.H_len32 Hc /\ H_bytes Hc /\
    env_round_trip env_encode env_decode /\ env_empty env_decode /\
    sealed_env_bytes_ok unit unit unit pub sign env_encode /\
    (forall a b : unit, (fun _ _ => true) a b = true <-> a = b).
  Proof.
    split; [intros k m; reflexivity|]. split; [intro x; reflexivity|]. split; [intro x; reflexivity|].
    split; [exact rt|]. split; [exact ee|]. split; [exact se|].
    intros [] []. split; reflexivity.
  Qed.
End WitnessC.
