(* Composition of C10 (what is on the wire decodes to what was sent) with C09 (what the
   receiver's watcher and filters do with a decoded pubsub message). *)
From Lib Require Import Bytes Varint Cid Cbor.
From Model Require Import C10_AnnounceMsg C09_Pubsub Compose_C10_C09.
From Proofs Require C10_AnnounceMsg C09_Receiver.
From Coq Require Import List NArith Bool Lia.
Import ListNotations.
Open Scope N_scope.

Module P10 := Proofs.C10_AnnounceMsg.
Module P09 := Proofs.C09_Receiver.

Section Compose.

(* the abstractions of CIDs, peer IDs and addresses to C09's numbers *)
Variable cid_no : cid -> N.
Variable peer_text : N -> bytes.               (* peer.ID.String(); peer 0 = the empty ID *)
Variable peer_decode : bytes -> option N.      (* peer.Decode *)
Variable addr_bytes : N -> bytes.              (* Multiaddr.Bytes() of address id i *)
Variable addr_parse : bytes -> aparse.         (* NewMultiaddrBytes + GetAddrs' rule *)
Variable is_pub : N -> bool.                   (* what mautil.FilterPublic keeps *)

(* the text of a non-empty peer ID is non-empty and decodes to that peer ID *)
Hypothesis peer_round_trip : forall p, p <> 0 -> peer_text p <> [] /\ peer_decode (peer_text p) = Some p.
(* the bytes of a multiaddr parse back to that multiaddr *)
Hypothesis addr_round_trip : forall i, addr_parse (addr_bytes i) = AOk i (is_pub i).

Definition mk_ann (c : cid) (p : N) (ids : list N) : ann :=
  {| a_cid := cid_no c; a_peer := p; a_addrs := map (fun i => (i, is_pub i)) ids |}.

(* the addresses a relay republishes: its own address filter applied *)
Definition relay_ids (cR : cfg) (ids : list N) : list N :=
  if filter_ips cR then filter is_pub ids else ids.

Notation WB := (watch_bytes cid_no peer_decode addr_parse).
Notation AOP := (arrival_op cid_no peer_decode addr_parse).
Notation M2P := (msg_to_pmsg cid_no peer_decode addr_parse).

(* ------------------------------------------------------------------ *)
(* 1. the bridge on what the senders build                              *)

Lemma get_addrs_set_addrs ids :
  get_addrs_parsed addr_parse (map norm_b (map (fun i => Some (addr_bytes i)) ids))
  = Some (map (fun i => (i, is_pub i)) ids).
Proof.
  induction ids as [|i ids IH]; [reflexivity|]. cbn [map get_addrs_parsed].
  rewrite P10.sl_norm_b. cbn [sl]. rewrite addr_round_trip, IH. reflexivity.
Qed.

Lemma filter_addrs_mk_ann cR c p ids :
  filter_addrs cR (mk_ann c p ids) = mk_ann c p (relay_ids cR ids).
Proof.
  unfold filter_addrs, relay_ids, mk_ann. destruct (filter_ips cR); [|reflexivity].
  cbn [a_cid a_peer a_addrs]. f_equal.
  induction ids as [|i ids IH]; [reflexivity|]. cbn [map filter snd]. destruct (is_pub i) eqn:E; cbn [map]; rewrite IH, ?E; reflexivity.
Qed.

(* a direct publication, decoded, is C09's plain pubsub message from the publisher *)
Lemma bridge_direct from c ids x :
  M2P from (norm (Msg (Some c) (set_addrs addr_bytes ids) x []))
  = Some {| pm_from := from; pm_orig := ONone; pm_cid := cid_no c;
            pm_addrs := Some (map (fun i => (i, is_pub i)) ids) |}.
Proof.
  unfold msg_to_pmsg, norm, set_addrs. cbn [m_cid m_addrs m_extra m_orig sl].
  rewrite P10.sl_mk_sl, get_addrs_set_addrs. reflexivity.
Qed.

(* a republication, decoded, is exactly C09's [republish] of the delivered announcement *)
Lemma bridge_republish relay c origin ids :
  origin <> 0 ->
  M2P relay (norm (republish_msg peer_text addr_bytes c origin ids))
  = Some (republish relay (mk_ann c origin ids)).
Proof.
  intro Ho. destruct (peer_round_trip origin Ho) as [Hne Hdec].
  unfold msg_to_pmsg, norm, republish_msg, set_addrs, republish, mk_ann.
  cbn [m_cid m_addrs m_extra m_orig sl a_peer a_cid a_addrs].
  rewrite P10.sl_mk_sl, get_addrs_set_addrs.
  destruct (origin =? 0) eqn:E; [apply N.eqb_eq in E; congruence|].
  destruct (peer_text origin) as [|t0 t] eqn:Et; [congruence|]. rewrite Hdec. reflexivity.
Qed.

(* ------------------------------------------------------------------ *)
(* 2. published announcements are delivered                              *)

Lemma deliver_via cf f s a :
  closed s = false -> out s = None ->
  exists s', seq_step cf s (ODirect (allows f (a_peer a)) a false) = [(RNil, s')]
    /\ (out s' = Some (filter_addrs cf a) <-> (allows f (a_peer a) = true /\ memN (a_cid a) (lru s) = false)).
Proof.
  intros Hc Ho. destruct (P09.deliver_iff_lemma cf s (allows f (a_peer a)) a Hc Ho) as (s' & E & D & _).
  exists s'. split; assumption.
Qed.

(* direct publication through p2psender *)
Theorem published_direct_is_delivered scfg0 c ids data me pub :
  cid_wf c = true ->
  p2p_wire scfg0 (direct_msg addr_bytes c ids) = Ok data ->
  WB me pub data = Ok (Some (mk_ann c pub ids))
  /\ forall cf f s, closed s = false -> out s = None ->
     exists o s', AOP me f pub data = Some o
       /\ seq_step cf s o = [(RNil, s')]
       /\ (out s' = Some (mk_ann c pub (relay_ids cf ids))
           <-> (allows f pub = true /\ memN (cid_no c) (lru s) = false)).
Proof.
  intros Wc Hw.
  assert (W : WB me pub data = Ok (Some (mk_ann c pub ids))).
  { unfold watch_bytes. rewrite (P10.p2p_wire_lemma scfg0 (direct_msg addr_bytes c ids) data Wc Hw).
    unfold direct_msg. cbn [m_cid m_addrs m_extra m_orig]. rewrite bridge_direct. reflexivity. }
  split; [exact W|]. intros cf f s Hc Ho.
  destruct (deliver_via cf f s (mk_ann c pub ids) Hc Ho) as (s' & E & D).
  eexists. exists s'. unfold arrival_op. rewrite W. split; [reflexivity|]. split; [exact E|].
  rewrite filter_addrs_mk_ann in D. exact D.
Qed.

(* republication by a relay receiver (Direct -> republish): attributed to the origin *)
Theorem republished_is_delivered cR relay me origin c ids data :
  cid_wf c = true -> origin <> 0 -> relay <> me ->
  enc (republish_msg peer_text addr_bytes c origin (relay_ids cR ids)) = Ok data ->
  (* the wire bytes are C09's republication of what the relay delivered *)
  (exists m, dec data = Ok (m, []) /\
     M2P relay m = Some (republish relay (filter_addrs cR (mk_ann c origin ids))))
  /\ WB me relay data = Ok (Some (mk_ann c origin (relay_ids cR ids)))
  /\ forall cf f s, closed s = false -> out s = None ->
     exists o s', AOP me f relay data = Some o
       /\ seq_step cf s o = [(RNil, s')]
       /\ (out s' = Some (mk_ann c origin (relay_ids cf (relay_ids cR ids)))
           <-> (allows f origin = true /\ memN (cid_no c) (lru s) = false)).
Proof.
  intros Wc Ho Hr He.
  assert (D : dec data = Ok (norm (republish_msg peer_text addr_bytes c origin (relay_ids cR ids)), [])).
  { rewrite <- (app_nil_r data). eapply P10.dec_enc_gen; [|exact He]; exact Wc. }
  assert (B : M2P relay (norm (republish_msg peer_text addr_bytes c origin (relay_ids cR ids)))
              = Some (republish relay (mk_ann c origin (relay_ids cR ids)))) by (apply bridge_republish; exact Ho).
  assert (W : WB me relay data = Ok (Some (mk_ann c origin (relay_ids cR ids)))).
  { unfold watch_bytes. rewrite D, B.
    rewrite P09.republished_attributed_to_origin_lemma; [reflexivity|exact Hr|exact Ho]. }
  split; [|split; [exact W|]].
  - eexists. split; [exact D|]. rewrite filter_addrs_mk_ann. exact B.
  - intros cf f s Hc Hout.
    destruct (deliver_via cf f s (mk_ann c origin (relay_ids cR ids)) Hc Hout) as (s' & E & Dl).
    eexists. exists s'. unfold arrival_op. rewrite W. split; [reflexivity|]. split; [exact E|].
    rewrite filter_addrs_mk_ann in Dl. exact Dl.
Qed.

(* both ways of publishing, in one statement *)
Theorem published_announce_is_delivered_lemma :
  (forall scfg0 c ids data me pub,
     cid_wf c = true -> p2p_wire scfg0 (direct_msg addr_bytes c ids) = Ok data ->
     WB me pub data = Ok (Some (mk_ann c pub ids))
     /\ forall cf f s, closed s = false -> out s = None ->
        exists o s', AOP me f pub data = Some o /\ seq_step cf s o = [(RNil, s')]
          /\ (out s' = Some (mk_ann c pub (relay_ids cf ids))
              <-> (allows f pub = true /\ memN (cid_no c) (lru s) = false)))
  /\
  (forall cR relay me origin c ids data,
     cid_wf c = true -> origin <> 0 -> relay <> me ->
     enc (republish_msg peer_text addr_bytes c origin (relay_ids cR ids)) = Ok data ->
     (exists m, dec data = Ok (m, []) /\
        M2P relay m = Some (republish relay (filter_addrs cR (mk_ann c origin ids))))
     /\ WB me relay data = Ok (Some (mk_ann c origin (relay_ids cR ids)))
     /\ forall cf f s, closed s = false -> out s = None ->
        exists o s', AOP me f relay data = Some o /\ seq_step cf s o = [(RNil, s')]
          /\ (out s' = Some (mk_ann c origin (relay_ids cf (relay_ids cR ids)))
              <-> (allows f origin = true /\ memN (cid_no c) (lru s) = false))).
Proof. split; [exact published_direct_is_delivered|exact republished_is_delivered]. Qed.

(* the relay's own copy of its republication is dropped *)
Theorem own_republication_on_the_wire_dropped cR relay origin c ids data f :
  cid_wf c = true -> origin <> 0 ->
  enc (republish_msg peer_text addr_bytes c origin (relay_ids cR ids)) = Ok data ->
  AOP relay f relay data = None.
Proof.
  intros Wc Ho He. unfold arrival_op, watch_bytes.
  assert (D : dec data = Ok (norm (republish_msg peer_text addr_bytes c origin (relay_ids cR ids)), [])).
  { rewrite <- (app_nil_r data). eapply P10.dec_enc_gen; [|exact He]; exact Wc. }
  rewrite D, bridge_republish by exact Ho.
  rewrite P09.own_republication_ignored_lemma; [reflexivity|exact Ho].
Qed.

End Compose.

(* ------------------------------------------------------------------ *)
(* 3. garbage on the topic (no hypothesis about the three abstractions)  *)

Section Garbage.
Variable cid_no : cid -> N.
Variable peer_decode : bytes -> option N.
Variable addr_parse : bytes -> aparse.

Notation WB := (watch_bytes cid_no peer_decode addr_parse).
Notation AOP := (arrival_op cid_no peer_decode addr_parse).

(* what the receiver does with a sequence of payloads (sender, bytes) *)
Definition arrivals_ops (host : N) (f : allowf) (l : list (N * bytes)) : list op :=
  flat_map (fun x => match AOP host f (fst x) (snd x) with Some o => [o] | None => [] end) l.

Theorem garbage_on_topic_is_dropped_lemma :
  (* the watcher never panics, whatever is published *)
  (forall host from data, is_panic (WB host from data) = false)
  (* undecodable bytes: dropped *)
  /\ (forall host f from data e, dec data = Err e -> AOP host f from data = None)
  (* an address that does not parse: dropped *)
  /\ (forall host f from data m r, dec data = Ok (m, r) ->
        get_addrs_parsed addr_parse (sl (m_addrs m)) = None -> AOP host f from data = None)
  (* an OrigPeer that is not a peer ID: dropped *)
  /\ (forall host f from data m r, dec data = Ok (m, r) ->
        m_orig m <> [] -> peer_decode (m_orig m) = None -> AOP host f from data = None)
  (* a dropped payload has no effect and the watcher goes on: the receiver behaves as if it
     had never been sent *)
  /\ (forall host f l1 g l2, AOP host f (fst g) (snd g) = None ->
        arrivals_ops host f (l1 ++ g :: l2) = arrivals_ops host f (l1 ++ l2)).
Proof.
  split; [|split; [|split; [|split]]].
  - intros host from data. unfold watch_bytes. pose proof (P10.dec_total_lemma data) as T.
    destruct (dec data) as [[m r]| |]; cbn in T |- *; try congruence.
    destruct (msg_to_pmsg cid_no peer_decode addr_parse from m); reflexivity.
  - intros host f from data e H. unfold arrival_op, watch_bytes. rewrite H. reflexivity.
  - intros host f from data m r H Ha. unfold arrival_op, watch_bytes, msg_to_pmsg. rewrite H.
    destruct (m_cid m); [|reflexivity]. unfold watch_decode. cbn [pm_addrs]. rewrite Ha. reflexivity.
  - intros host f from data m r H Hne Hd. unfold arrival_op, watch_bytes, msg_to_pmsg. rewrite H.
    destruct (m_cid m); [|reflexivity]. unfold watch_decode. cbn [pm_addrs pm_orig].
    destruct (get_addrs_parsed addr_parse (sl (m_addrs m))); [|reflexivity].
    destruct (m_orig m) as [|t0 t]; [congruence|]. rewrite Hd. reflexivity.
  - intros host f l1 g l2 H. unfold arrivals_ops. rewrite !flat_map_app. cbn [flat_map]. rewrite H. reflexivity.
Qed.

End Garbage.

(* the hypotheses of section Compose are satisfiable: an instance over tables *)
From Coq Require Import String.
Local Open Scope string_scope.

Example compose_instance :
  let peer_text := fun p : N => if (p =? 0)%N then []%list else [N.modulo p 256; 1%N]%list in
  let peer_decode := fun b : bytes => match b with [x; 1%N]%list => Some x | _ => None end in
  (forall p, (p <> 0 -> p < 256 -> peer_text p <> []%list /\ peer_decode (peer_text p) = Some p)%N).
Proof.
  intros peer_text peer_decode p Hp Hl. unfold peer_text, peer_decode.
  destruct (p =? 0)%N eqn:E; [apply N.eqb_eq in E; congruence|].
  split; [discriminate|]. rewrite N.mod_small by exact Hl. reflexivity.
Qed.

(* a junk payload and a valid one behind it, through the table instance *)
Example garbage_then_valid :
  let at_ := [(unhex "047f000001060a8d", AOk 4 false)]%list in
  let ct := [(CidV1 85 18 (nrep 32 7), 77%N)]%list in
  let junk := unhex "83d82a" in
  let good := (131 :: wr_cid (CidV1 85 18 (nrep 32 7)) ++ [129; 72] ++ unhex "047f000001060a8d" ++ [64])%list in
  arrival_op (tab_cid_no ct) (tab_peer_decode []%list) (tab_addr_parse at_) 3 AllowAll 9 junk = None
  /\ arrival_op (tab_cid_no ct) (tab_peer_decode []%list) (tab_addr_parse at_) 3 AllowAll 9 good
     = Some (ODirect true {| a_cid := 77; a_peer := 9; a_addrs := [(4%N, false)]%list |} false).
Proof. vm_compute. split; reflexivity. Qed.

(* ------------------------------------------------------------------ *)
(* 4. the duplicate filter is keyed by the CID, not by its multihash      *)

Section DistinctCids.
Variable cid_no : cid -> N.
Hypothesis cid_no_injective : forall a b, cid_no a = cid_no b -> a = b.

(* whatever CIDs were seen: a CID that is not among them is not a duplicate, however
   much it shares with them (digest, multihash, codec) *)
Theorem unseen_cid_is_delivered cf s (seen : list cid) (c : cid) a :
  closed s = false -> out s = None ->
  lru s = map cid_no seen -> ~ In c seen -> a_cid a = cid_no c ->
  exists s', seq_step cf s (ODirect true a false) = [(RNil, s')]
    /\ out s' = Some (filter_addrs cf a).
Proof.
  intros Hc Ho Hl Hn Ha.
  destruct (P09.deliver_iff_lemma cf s true a Hc Ho) as (s' & E & D & _).
  exists s'. split; [exact E|]. apply D. split; [reflexivity|].
  apply P09.memN_false. rewrite Hl, Ha. intro Hin. apply in_map_iff in Hin as (x & Hx & Hin).
  apply cid_no_injective in Hx. subst x. contradiction.
Qed.

End DistinctCids.

(* the CIDv0 and the CIDv1/dag-pb form of one sha2-256 digest: one multihash (the v1 bytes
   are the two bytes "version 1, codec dag-pb" followed by the v0 bytes), two CIDs *)
Example same_multihash_two_cids :
  let d := nrep 32 7 in
  skipn 2 (Cid.fmt (CidV1 112 18 d)) = Cid.fmt (CidV0 d)
  /\ CidV1 112 18 d <> CidV0 d /\ CidV1 112 18 d <> CidV1 85 18 d
  /\ cid_eqb (CidV1 112 18 d) (CidV0 d) = false /\ cid_eqb (CidV1 113 18 d) (CidV1 85 18 d) = false.
Proof. vm_compute. repeat split; discriminate. Qed.
