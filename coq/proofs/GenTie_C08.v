(* GenTie_C08 -- dagsync/subscriber.go: the pending-announcement slot (Swap in watch, Swap(nil)
   in asyncSyncAdChain), the depth limit an announce-triggered sync uses, and what follows the
   sync (failure: un-cache the CID and report; success: record and report), as regenerated from
   the Go source (gen/Gen_Funcs_dagsync.v), against model/C08_AnnounceQueue.v (and, for the
   depth limit, model/C01_ChainSync.v). *)
From Coq Require Import ZArith NArith List Bool Lia String.
From Lib Require Import Bytes.
From Model Require Import C08_AnnounceQueue.
From Model Require C01_ChainSync.
From Proofs Require Import GenTie_Lib.
From Proofs Require GenTie_C01.
From Gen Require Import Gen_Consts Gen_Funcs_prelude Gen_Funcs_dagsync.
Import ListNotations.
Open Scope Z_scope.

(* ---- watch: oldMsg := hnd.pendingMsg.Swap(&amsg) ---- *)
(* a goroutine is started exactly when the slot was empty; otherwise the handler reference is
   released and the loop continues (the new message replaced the pending one) *)
Definition swap_next (old : option nat) : pc := match old with None => WSpawn | Some _ => WRelease end.

Definition read_swap (r : frag (list string)) : option pc :=
  match r with
  | FContinue _ tr => if existsb (String.eqb "s.releaseHandler(hnd)") tr then Some WRelease else None
  | FFall tr => if existsb (String.eqb "s.asyncWG.Add(1)") tr then Some WSpawn else None
  | _ => None
  end.

Theorem tie_watch_pending_slot : forall old : option nat,
  read_swap (dagsync_watch_pending_slot (option nat) (fun o => match o with None => true | Some _ => false end) old)
  = Some (swap_next old).
Proof. destruct old; reflexivity. Qed.

(* the model's WSwap step: the slot takes the new message and the watcher continues at swap_next *)
Theorem model_swap_step : forall v cap (s : st) (t : nat) (th : thread) (ok : bool),
  t_pc th = WSwap ->
  exists s' y, step_thread v cap s t th ok = Some (put s' t (set_pc th (swap_next (pending s (t_h th)))), y) /\
               pending s' (t_h th) = Some (t_msg th).
Proof.
  intros v cap s t th ok E. unfold step_thread. rewrite E.
  destruct (pending s (t_h th)) eqn:P; cbn [swap_next]; eexists; eexists; (split; [reflexivity|]);
    cbn; unfold updf; rewrite Nat.eqb_refl; reflexivity.
Qed.

(* ---- asyncSyncAdChain: the pending message is taken (Swap(nil)) before syncMutex is locked;
        nothing is taken when the context is already cancelled ---- *)
Theorem tie_asyncSyncAdChain_take : forall ctxerr : option string,
  dagsync_asyncSyncAdChain_take ctxerr =
  match ctxerr with
  | Some _ => FReturn "return"%string []
  | None => FFall ["amsg := h.pendingMsg.Swap(nil)"; "h.syncMutex.Lock()"]%string
  end.
Proof. destruct ctxerr; reflexivity. Qed.

(* the model's GTake: the slot is emptied, then (repaired code, lockfix) the thread goes for the sync lock *)
Theorem model_take_step : forall v cap (s : st) (t : nat) (th : thread) (ok : bool) (m : nat),
  t_pc th = GTake -> pending s (t_h th) = Some m ->
  exists s' y, step_thread v cap s t th ok = Some (put s' t (set_pc (set_msg th m) (if lockfix v then PLockS else PRead)), y) /\
               pending s' (t_h th) = None.
Proof.
  intros v cap s t th ok m E P. unfold step_thread. rewrite E, P. eexists; eexists; split; [reflexivity|].
  cbn. unfold updf. rewrite Nat.eqb_refl. reflexivity.
Qed.

(* ---- the depth limit of an announce-triggered sync: the subscriber-wide limit, or the
        first-sync depth when nothing was synced yet (C01 go_depth with no per-call depth) ---- *)
Theorem tie_asyncSyncAdChain_limits : forall (cfg : C01_ChainSync.subcfg) (latest : option C01_ChainSync.cid),
  dagsync_asyncSyncAdChain_limits GenTie_C01.ocid GenTie_C01.RL GenTie_C01.rl_depth GenTie_C01.rl_none GenTie_C01.ocid_isnil
     latest (C01_ChainSync.rl (C01_ChainSync.c_ads_depth cfg)) (C01_ChainSync.c_first_depth cfg)
  = FFall (C01_ChainSync.go_depth cfg
             (C01_ChainSync.ADCALL None None false 0 0 None None) latest, latest).
Proof.
  intros. unfold dagsync_asyncSyncAdChain_limits, C01_ChainSync.go_depth. cbn [C01_ChainSync.a_depth].
  rewrite <- (GenTie_C01.tie_recursionLimit (C01_ChainSync.c_first_depth cfg)).
  destruct latest; cbn [GenTie_C01.ocid_isnil negb Z.eqb andb]; [reflexivity|].
  destruct (C01_ChainSync.c_first_depth cfg =? 0); reflexivity.
Qed.

(* ---- after handle: a failed sync is reported through asyncSyncFailed and nothing is recorded;
        a successful one updates the peerstore, then records the latest sync and sends the event ---- *)
Theorem asyncSyncAdChain_outcome_table : forall err : option string,
  dagsync_asyncSyncAdChain_outcome err =
  match err with
  | Some _ => FReturn "return"%string ["h.asyncSyncFailed(nextCid, err)"]%string
  | None => FFall ["updatePeerstore()"; "h.sendSyncFinishedEvent(nextCid, syncCount)"]%string
  end.
Proof. destruct err; reflexivity. Qed.

(* asyncSyncFailed: the CID is removed from the receiver's cache (so that it can be announced
   again) before the failure event is sent; without a receiver only the event *)
Theorem asyncSyncFailed_table : forall (R : Type) (isnil : R -> bool) (recv : R),
  dagsync_asyncSyncFailed R isnil recv =
  FFall ((if isnil recv then [] else ["h.subscriber.receiver.UncacheCid(c)"%string])
         ++ ["h.subscriber.inEvents <- SyncFinished{Cid: c, PeerID: h.peerID, Err: err}"%string])%list.
Proof. intros. unfold dagsync_asyncSyncFailed. destruct (isnil recv); reflexivity. Qed.
