(* GenTie_C04 -- dagsync/ipnisync/sync.go Syncer.fetch: what happens after client.Do fails
   (fail over to the next address, retry once on a stream reset, give up) and after a response
   arrives (the switch on the status code), as regenerated from the Go source
   (gen/Gen_Funcs_ipnisync.v), against the decisions of [fetch_loop] in
   model/C04_SyncFailure.v (with all fixes applied, fx_fixed). *)
From Coq Require Import ZArith NArith List Bool Lia String.
From Lib Require Import Bytes.
From Model Require Import C04_SyncFailure.
From Proofs Require Import GenTie_Lib.
From Gen Require Import Gen_Consts Gen_Funcs_prelude Gen_Funcs_ipnisync.
Import ListNotations.
Open Scope Z_scope.

Inductive after_error := AENextURL (urls : list nat) (tried : nat) | AERetry | AEGiveUp.

(* the three branches of fetch_loop on XDoErr *)
Definition model_after_error (sy : syncer) (tried : nat) (done_retry reset : bool) : after_error :=
  if can_failover fx_fixed sy tried then AENextURL (sy_urls (failover fx_fixed sy)) (S tried)
  else if (negb done_retry && reset)%bool then AERetry
  else AEGiveUp.

Definition read_after_error (r : frag (Z * bool * list nat * list string)) : option after_error :=
  match r with
  | FGoto l (tried, done, urls, _) =>
      if String.eqb l "nextURL" then Some (AENextURL urls (Z.to_nat tried))
      else if (String.eqb l "retry" && done)%bool then Some AERetry else None
  | FReturn _ _ => Some AEGiveUp
  | _ => None
  end.

Lemma rotate_is_failover : forall (a : nat) (rest : list nat),
  (slice (a :: rest) 1 (len (a :: rest)) ++ [nth (Z.to_nat 0) (a :: rest) 0%nat])%list = (rest ++ [a])%list.
Proof.
  intros. rewrite slice_suffix by lia. reflexivity.
Qed.

Theorem tie_fetch_error_ladder : forall (sy : syncer) (tried : nat) (done_retry reset : bool) (root : nat),
  read_after_error
    (ipnisync_fetch_error_ladder nat 0%nat reset done_retry (Z.of_nat tried) (sy_nopath sy) root (sy_urls sy))
  = Some (model_after_error sy tried done_retry reset).
Proof.
  intros. unfold ipnisync_fetch_error_ladder, model_after_error, can_failover, failover. cbn [fx_fixed fx_rotate].
  replace (Z.of_nat tried <? len (sy_urls sy) - 1) with (tried <? List.length (sy_urls sy) - 1)%nat.
  2:{ unfold len. destruct (Nat.ltb_spec tried (List.length (sy_urls sy) - 1)); symmetry; [apply Z.ltb_lt|apply Z.ltb_ge]; lia. }
  destruct (Nat.ltb_spec tried (List.length (sy_urls sy) - 1)) as [Hlt|Hge].
  - destruct (sy_urls sy) as [|a rest] eqn:Eu; [cbn in Hlt; lia|].
    replace ((0 <=? 1) && (1 <=? len (a :: rest)) && (len (a :: rest) <=? len (a :: rest)) && ((0 <=? 0) && (0 <? len (a :: rest))))%bool with true.
    2:{ symmetry. rewrite !andb_true_iff, !Z.leb_le, Z.ltb_lt. unfold len. cbn [List.length]. lia. }
    cbn [negb]. rewrite rotate_is_failover.
    replace ((0 <=? 0) && (0 <? len (rest ++ [a])))%bool with true.
    2:{ symmetry. rewrite andb_true_iff, Z.leb_le, Z.ltb_lt. unfold len. rewrite app_length. cbn. lia. }
    cbn [negb read_after_error]. destruct (sy_nopath sy); cbn; rewrite ?Eu; cbn [set_urls sy_urls];
      replace (Z.to_nat (Z.of_nat tried + 1)) with (S tried) by lia; reflexivity.
  - destruct done_retry, reset; reflexivity.
Qed.

(* ---- the switch on the status code ---- *)
Inductive after_status := ASDeliver (nopath : bool) | ASRetryNoPath | ASFail.

(* fetch_loop on XOkGood / XOkBad (status 200: the body is handed to the callback and, when this
   was the no-path retry, noPath is committed) and on XStatus c *)
Definition model_after_status (sy : syncer) (try_nopath : bool) (c : N) : after_status :=
  if (c =? 200)%N then ASDeliver (sy_nopath (commit_nopath sy try_nopath))
  else if ((c =? 404) || (c =? 403))%N then
    if (sy_plain sy && negb (sy_nopath sy) && negb try_nopath)%bool then ASRetryNoPath else ASFail
  else ASFail.

Definition read_after_status (r : frag (bool * bool * list string)) : option after_status :=
  match r with
  | FReturn s (_, nopath, _) => if String.eqb s "return cb(resp.Body)" then Some (ASDeliver nopath) else Some ASFail
  | FGoto l (try, _, _) => if (String.eqb l "nextURL" && try)%bool then Some ASRetryNoPath else None
  | _ => None
  end.

Theorem tie_fetch_status_switch : forall (sy : syncer) (try_nopath : bool) (c : N) (U : Type) (root cur : U),
  read_after_status
    (ipnisync_fetch_status_switch U (Z.of_N c) root (sy_nopath sy) (sy_plain sy) cur try_nopath)
  = Some (model_after_status sy try_nopath c).
Proof.
  intros. unfold ipnisync_fetch_status_switch, model_after_status, commit_nopath.
  change ext_http_StatusOK with (Z.of_N 200). change ext_http_StatusNotFound with (Z.of_N 404).
  change ext_http_StatusForbidden with (Z.of_N 403).
  assert (E : forall a b : N, (Z.of_N a =? Z.of_N b) = (a =? b)%N).
  { intros a b. destruct (N.eqb_spec a b); [apply Z.eqb_eq|apply Z.eqb_neq]; lia. }
  rewrite !E.
  destruct (c =? 200)%N.
  - destruct try_nopath, (sy_nopath sy); reflexivity.
  - destruct (c =? 404)%N; cbn [orb].
    + destruct (sy_plain sy), (sy_nopath sy), try_nopath; reflexivity.
    + destruct (c =? 403)%N; [|reflexivity].
      destruct (sy_plain sy), (sy_nopath sy), try_nopath; reflexivity.
Qed.
