(* GenTie_C11 -- metadata/*.go: Validate, Get, Protocols, the protocol IDs and the decision parts
   of the ReadFrom methods, as regenerated from the Go source (gen/Gen_Funcs_metadata.v),
   against model/C11_Metadata.v. *)
From Coq Require Import ZArith NArith List Bool Lia String.
From Lib Require Import Bytes Varint.
From Model Require Import C11_Metadata.
From Proofs Require Import GenTie_Lib.
From Gen Require Import Gen_Consts Gen_Funcs_prelude Gen_Funcs_metadata.
Import ListNotations.
Open Scope Z_scope.

Definition idZ (p : proto) : Z := Z.of_N (id_of p).

(* protocol IDs are the multicodec constants of the pinned go-multicodec *)
Theorem tie_ids :
  metadata_Bitswap_ID = Z.of_N id_bitswap /\
  metadata_GraphsyncFilecoinV1_ID = Z.of_N id_graphsync /\
  metadata_IpfsGatewayHttp_ID = Z.of_N id_gateway.
Proof. repeat split; reflexivity. Qed.

(* Validate *)
Lemma validate_loop : forall (l : list proto) (last : N),
  metadata_Metadata_Validate_loop_1 proto idZ (fun _ => None) l (Z.of_N last)
  = if sorted_from last l then None else Some "metadata transports must be sorted by ID"%string.
Proof.
  induction l as [|p r IH]; intros last; cbn [metadata_Metadata_Validate_loop_1 sorted_from]; [reflexivity|].
  unfold idZ at 1.
  replace (Z.of_N (id_of p) <? Z.of_N last) with (id_of p <? last)%N
    by (destruct (N.ltb_spec (id_of p) last); symmetry; [apply Z.ltb_lt|apply Z.ltb_ge]; lia).
  destruct (id_of p <? last)%N; cbn [negb andb]; [reflexivity|].
  unfold idZ. apply IH.
Qed.

Theorem tie_Validate : forall m : list proto,
  metadata_Metadata_Validate proto idZ m =
  match validate m with
  | Ok _ => None
  | Err c => Some (if (c =? EEmpty)%N then "at least one transport must be specified"
                   else "metadata transports must be sorted by ID")%string
  | Panic _ => None
  end.
Proof.
  intros m. unfold metadata_Metadata_Validate, validate. rewrite len_eqb_0.
  destruct m as [|p r]; [reflexivity|]. cbn [is_nil].
  change 0 with (Z.of_N 0). rewrite validate_loop. destruct (sorted_from 0 (p :: r)); reflexivity.
Qed.

(* Get: the first protocol with that ID *)
Theorem tie_Get : forall (m : list proto) (id : N) (dflt : proto),
  metadata_Metadata_Get proto dflt idZ (Z.of_N id) m = match get m id with Some p => p | None => dflt end.
Proof.
  intros. unfold metadata_Metadata_Get, get.
  induction m as [|p r IH]; cbn [metadata_Metadata_Get_loop_1 find]; [reflexivity|].
  unfold idZ at 1.
  replace (Z.of_N (id_of p) =? Z.of_N id) with (id_of p =? id)%N
    by (destruct (N.eqb_spec (id_of p) id); symmetry; [apply Z.eqb_eq|apply Z.eqb_neq]; lia).
  destruct (id_of p =? id)%N; [reflexivity|exact IH].
Qed.

(* Protocols: the IDs in order *)
Lemma protocols_loop : forall (l : list proto) (acc : list Z),
  metadata_Metadata_Protocols_loop_1 proto idZ (fun out => out) l acc = (acc ++ map idZ l)%list.
Proof.
  induction l as [|p r IH]; intros acc; cbn [metadata_Metadata_Protocols_loop_1 map].
  - rewrite app_nil_r; reflexivity.
  - rewrite IH, <- app_assoc. reflexivity.
Qed.

Theorem tie_Protocols : forall m : list proto,
  metadata_Metadata_Protocols proto idZ m = map Z.of_N (protocols m).
Proof.
  intros. unfold metadata_Metadata_Protocols, protocols. rewrite protocols_loop. cbn [app].
  rewrite map_map. reflexivity.
Qed.

(* Unknown.ReadFrom after the two varints: the size cap is the model's max_metadata_size; the
   count returned is codeSize + sizeSize + n on every later exit; success needs n = size *)
Theorem tie_Unknown_ReadFrom_tail : forall (usz : Z -> Z) (pl : list N) (size v n : Z) (err : option string) (p1 p2 : list N),
  match metadata_Unknown_ReadFrom_tail usz err n p1 p2 size pl v with
  | FReturn s (cnt, _) =>
      if Z.of_N max_metadata_size <? size
      then s = "return cr.readCount, ErrTooLong"%string
      else cnt = usz v + usz size + n /\ (err <> None \/ size <> n)
  | FFall (cnt, _) => (size <=? Z.of_N max_metadata_size) = true /\ err = None /\ size = n /\ cnt = usz v + usz size + n
  | _ => False
  end.
Proof.
  intros. unfold metadata_Unknown_ReadFrom_tail.
  change metadata_MaxMetadataSize with (Z.of_N max_metadata_size).
  destruct (Z.of_N max_metadata_size <? size) eqn:E; [reflexivity|].
  destruct err as [e|]; cbn [isNone negb].
  - split; [reflexivity|left; discriminate].
  - destruct (Z.eqb_spec size n); cbn [negb].
    + repeat split; try assumption; try reflexivity. apply Z.leb_le. apply Z.ltb_ge in E. exact E.
    + split; [reflexivity|right; assumption].
Qed.

(* the model's read_unknown makes the same three decisions in the same order *)
Theorem read_unknown_decisions : forall data v k1 size k2,
  Varint.dec data = Ok (v, k1) -> Varint.dec (skipn k1 data) = Ok (size, k2) ->
  let body := firstn (N.to_nat size) (skipn (k1 + k2) data) in
  fst (read_unknown data) =
    if (max_metadata_size <? size)%N then Err ETooLong
    else if (Nat.eqb (List.length body) 0 && (0 <? size)%N)%bool then Err EEOF       (* r.Read: io.EOF *)
    else if negb (N.of_nat (List.length body) =? size)%N then Err EShort               (* size != n *)
    else Ok (PUnknown v (enc v ++ enc size ++ body)%list, (List.length (enc v) + List.length (enc size) + List.length body)%nat).
Proof.
  intros data v k1 size k2 H1 H2 body. unfold read_unknown. rewrite H1, H2.
  destruct (max_metadata_size <? size)%N; reflexivity.
Qed.

(* GraphsyncFilecoinV1.ReadFrom: the transport id must be the graphsync one *)
Theorem tie_Graphsync_id_check : forall v : N,
  match metadata_GraphsyncFilecoinV1_ReadFrom_id_check (Z.of_N v) with
  | FReturn _ _ => (v =? id_graphsync)%N = false
  | FFall _ => (v =? id_graphsync)%N = true
  | _ => False
  end.
Proof.
  intros. unfold metadata_GraphsyncFilecoinV1_ReadFrom_id_check.
  change ext_multicodec_TransportGraphsyncFilecoinv1 with (Z.of_N id_graphsync).
  replace (Z.of_N v =? Z.of_N id_graphsync) with (v =? id_graphsync)%N
    by (destruct (N.eqb_spec v id_graphsync); symmetry; [apply Z.eqb_eq|apply Z.eqb_neq]; lia).
  destruct (v =? id_graphsync)%N; reflexivity.
Qed.

(* GraphsyncFilecoinV1.UnmarshalBinary: everything must be consumed *)
Theorem tie_Graphsync_trailing : forall (data : list N) (n : Z),
  match metadata_GraphsyncFilecoinV1_UnmarshalBinary_tail data None n with
  | FReturn s _ => s = (if (n =? len data)%Z then "return nil" else "return dagcbor.ErrTrailingBytes")%string
  | _ => False
  end.
Proof. intros. unfold metadata_GraphsyncFilecoinV1_UnmarshalBinary_tail. cbn [isNone negb]. destruct (n =? len data); reflexivity. Qed.

(* Bitswap.ReadFrom after r.Read(buf) (read = what was read, no error): read_fixed's decisions *)
Theorem tie_Bitswap_ReadFrom_tail : forall (want buf : bytes),
  match metadata_Bitswap_ReadFrom_tail want buf None (len buf) (len want) with
  | FReturn s (cnt, _) =>
      cnt = len buf /\
      s = (if negb (Nat.eqb (List.length buf) (List.length want)) then "return bRead, fmt.Errorf(""expected %d readable bytes but read %d"", wantLen, read)"
           else if Bytes.bytes_eqb buf want then "return bRead, nil"
           else "return bRead, fmt.Errorf(""transport ID does not match %s"", multicodec.TransportBitswap)")%string
  | _ => False
  end.
Proof.
  intros. unfold metadata_Bitswap_ReadFrom_tail. cbn [isNone negb].
  replace (len want =? len buf) with (Nat.eqb (List.length buf) (List.length want))
    by (unfold len; destruct (Nat.eqb_spec (List.length buf) (List.length want)); symmetry; [apply Z.eqb_eq|apply Z.eqb_neq]; lia).
  destruct (Nat.eqb (List.length buf) (List.length want)); cbn [negb]; [|split; reflexivity].
  rewrite gen_bytes_eqb_eq.
  destruct (Bytes.bytes_eqb want buf) eqn:E.
  - apply Bytes.bytes_eqb_eq in E. subst. rewrite (proj2 (Bytes.bytes_eqb_eq buf buf) eq_refl). split; reflexivity.
  - destruct (Bytes.bytes_eqb buf want) eqn:E2; [|split; reflexivity].
    apply Bytes.bytes_eqb_eq in E2. subst. rewrite (proj2 (Bytes.bytes_eqb_eq want want) eq_refl) in E. discriminate.
Qed.

(* ================================================================== *)
(* phase 2: Metadata.UnmarshalBinary's loop, one iteration: the transport is chosen by the varint
   at the front of the rest, ReadFrom parses from that same rest, the transport is appended and
   `read` advances by what ReadFrom consumed; any error ends the loop (model parse_all) *)
Section UnmarshalLoop.
  Variable P : Type.
  Variables (newbuf : list N -> list N) (newt : Z -> P) (uv : list N -> Z * Z * option string)
            (readfrom : P -> list N -> Z * option string).
  Variable data : list N.
  Variable K : list P -> Z -> frag (Z * list P).
  Variable oof : frag (Z * list P).

  Theorem UnmarshalBinary_step : forall (fuel : nat) (ps : list P) (read : Z),
    0 <= read ->
    metadata_UnmarshalBinary_loop_loop_1 P newbuf newt uv readfrom data K oof (S fuel) ps read =
    if read <? len data then
      let rest := skipn (Z.to_nat read) data in
      match uv rest with
      | (_, _, Some _) => FReturn "return err"%string (read, ps)
      | (v, _, None) =>
        match readfrom (newt v) (newbuf rest) with
        | (_, Some _) => FReturn "return err"%string (read, ps)
        | (n, None) => metadata_UnmarshalBinary_loop_loop_1 P newbuf newt uv readfrom data K oof fuel (ps ++ [newt v])%list (read + n)
        end
      end
    else K ps read.
  Proof.
    intros fuel ps read Hr. cbn [metadata_UnmarshalBinary_loop_loop_1].
    destruct (read <? len data) eqn:E; [|reflexivity]. apply Z.ltb_lt in E.
    replace ((0 <=? read) && (read <=? len data) && (len data <=? len data))%bool with true
      by (symmetry; rewrite !andb_true_iff, !Z.leb_le; lia).
    cbn [negb]. rewrite slice_suffix by lia. cbv zeta.
    destruct (uv (skipn (Z.to_nat read) data)) as [[v w] [e|]]; cbn [isNone negb]; [reflexivity|].
    destruct (readfrom (newt v) (newbuf (skipn (Z.to_nat read) data))) as [n [e|]]; reflexivity.
  Qed.

  (* the loop ends when everything was consumed: at most one iteration per input byte is needed
     only if every transport consumes something; the fuel makes that explicit *)
  Theorem UnmarshalBinary_done : forall (fuel : nat) (ps : list P) (read : Z),
    len data <= read ->
    metadata_UnmarshalBinary_loop_loop_1 P newbuf newt uv readfrom data K oof (S fuel) ps read = K ps read.
  Proof.
    intros. cbn [metadata_UnmarshalBinary_loop_loop_1].
    replace (read <? len data) with false by (symmetry; apply Z.ltb_ge; lia). reflexivity.
  Qed.
End UnmarshalLoop.
