(* Composition of the sequential C09 model of announce.Receiver with the C16 transition
   system: the filter operations of concurrent calls are linearised by announceMutex. *)
From Coq Require Import List NArith Bool Arith Lia.
From Lib Require Import SyncSkel LTS.
From Model Require Import Announce_Receiver C16_ReceiverClose Compose_C09_C16.
From Proofs Require Import C16_ReceiverClose.
From Proofs Require C09_Receiver.
Import ListNotations.
Local Open Scope nat_scope.
Local Open Scope list_scope.

Module P09 := Proofs.C09_Receiver.
Module AR := Model.Announce_Receiver.
Module CL := Model.C16_ReceiverClose.

(* ------------------------------------------------------------------ *)
(* 1. an update of the filter happens only while the receiver is open   *)

Definition InvC (s : st) : Prop :=
  forall t th, threads s t = Some th -> t_pc th = DiUpdate -> CL.closed s = false.

Lemma holds_eq m a b : holds m a = true -> holds m b = true -> a = b.
Proof.
  unfold holds. destruct m as [x|]; [|discriminate]. intros H1 H2.
  apply Nat.eqb_eq in H1, H2. congruence.
Qed.

Lemma invC_step s l s' : InvA s -> InvB s -> InvC s -> stepf s l = Some s' -> InvC s'.
Proof.
  intros HA (T & G & B2 & C4) IC H. unfold InvC in *.
  step_inv H; intros t0 th0 H0 Hp0; cbn [threads with_threads CL.closed with_mu with_lru with_out
      do_set_closed do_close_done do_cancel_watch do_watch_done] in *; upd_destruct;
    cbn [t_pc set_pc new_thread first_pc] in Hp0;
    try discriminate Hp0;
    try (eapply IC; eassumption);
    try assumption.
  all: try (cbn [t_pc] in Hp0; eapply IC; [exact Hth|exact Hp0]).
  all: try (unfold finish in Hp0; destruct (t_watcher th); cbn [t_pc set_pc] in Hp0; discriminate Hp0).
  all: try (match goal with c : call |- _ => destruct c; cbn in Hp0; discriminate Hp0 end).
  all: try (match goal with
            | Hx : threads ?S ?x = Some ?y, Hne : ?x <> ?t1, Hth : threads ?S ?t1 = Some ?th1 |- _ =>
              exfalso; pose proof (T _ _ Hx) as T0; pose proof (T _ _ Hth) as T1;
              unfold tinv in T0, T1; rewrite Hp0 in T0; rewrite Hpc in T1; cbn_st; bsplit_hyps;
              apply Hne; eapply holds_eq; eassumption
            end).
Qed.

Theorem invC_reach w s : reach w s -> InvC s.
Proof.
  apply (invariant_reachable2 stepf (fun s => InvA s /\ InvB s) InvC).
  - intros x R. split; [apply (invA_reach w x R)|apply (invB_reach w x R)].
  - intros t th H. unfold init in H. cbn in H. destruct (w && Nat.eqb t 0); [|discriminate].
    inversion H; subst. discriminate.
  - intros x l x' [HA HB] IC E. eapply invC_step; eassumption.
Qed.

(* ------------------------------------------------------------------ *)
(* 2. every step of the concurrent system is the filter machine's step   *)

Ltac cbn_fs :=
  cbn [fstate_of CL.closed CL.lru threads with_threads with_mu with_lru with_out
       do_set_closed do_close_done do_cancel_watch do_watch_done] in *.

Lemma fstate_step s l s' :
  InvC s -> stepf s l = Some s' ->
  fstate_of s' = snd (filt_run CL.cache_cap (fstate_of s) (lin_label s l)).
Proof.
  intros IC H.
  step_inv H; unfold lin_label; rewrite ?Hth, ?Hpc; cbn_fs; try reflexivity.
  - rewrite Hallow. reflexivity.
  - rewrite Hallow. reflexivity.
  - rewrite Hclosed. unfold fstate_of. cbn [filt_run filt_step fst snd CL.closed CL.lru with_threads]. rewrite Hclosed. reflexivity.
  - rewrite Hclosed. reflexivity.
  - pose proof (IC _ _ Hth Hpc) as Hc. unfold fstate_of.
    cbn [filt_run filt_step fst snd CL.closed CL.lru with_threads with_lru]. rewrite Hc, Hupd. reflexivity.
Qed.

Lemma lin_app s ls1 ls2 s1 :
  run stepf s ls1 = Some s1 -> lin s (ls1 ++ ls2) = lin s ls1 ++ lin s1 ls2.
Proof.
  revert s. induction ls1 as [|l r IH]; intros s H; cbn in H.
  - inversion H; subst. reflexivity.
  - cbn [app lin]. destruct (stepf s l) as [s'|]; [|discriminate]. rewrite (IH s' H), app_assoc. reflexivity.
Qed.

Lemma filt_run_app cap0 : forall o1 s o2,
  snd (filt_run cap0 s (o1 ++ o2)) = snd (filt_run cap0 (snd (filt_run cap0 s o1)) o2).
Proof.
  induction o1 as [|o r IH]; intros s o2; [reflexivity|]. cbn [app filt_run].
  destruct (filt_step cap0 s o) as [x s1]. specialize (IH s1 o2).
  destruct (filt_run cap0 s1 (r ++ o2)) as [xs s2]. destruct (filt_run cap0 s1 r) as [ys s3]. cbn [snd] in *. exact IH.
Qed.

(* (a) Linearisation.  For EVERY schedule of the concurrent system - any number of callers
   of Direct, UncacheCid, Close, Next and the pubsub watcher, interleaved arbitrarily - the
   closed flag and the filter are those of the sequential filter machine run on the calls in
   the order of their critical-section steps. *)
Theorem lts_filter_is_sequential_lemma w ls s :
  run stepf (init w) ls = Some s ->
  fstate_of s = snd (filt_run CL.cache_cap (false, []) (lin (init w) ls)).
Proof.
  intro H.
  assert (G : forall ls s0 s1, reach w s0 -> run stepf s0 ls = Some s1 ->
                fstate_of s1 = snd (filt_run CL.cache_cap (fstate_of s0) (lin s0 ls))).
  { clear. induction ls as [|l r IH]; intros s0 s1 R0 H; cbn in H.
    - inversion H; subst. reflexivity.
    - cbn [lin]. destruct (stepf s0 l) as [s'|] eqn:E; [|discriminate].
      rewrite filt_run_app, <- (fstate_step s0 l s' (invC_reach w s0 R0) E).
      apply IH; [eapply reachable_step; eassumption|exact H]. }
  apply (G ls (init w) s); [exists []; reflexivity|exact H].
Qed.

(* the verdict of the linearisation step is the sequential verdict: where the thread goes
   next is decided by the filter machine on the state at that step *)
Theorem direct_verdict_is_sequential_lemma w s t th ch s' :
  reach w s -> threads s t = Some th -> stepf s (Step t ch) = Some s' ->
  (t_pc th = DiUpdate \/ (t_pc th = DiCheck /\ CL.closed s = true)) ->
  exists th', threads s' t = Some th' /\
    pc_after (fst (filt_step CL.cache_cap (fstate_of s) (FDirect true (call_cid (t_call th))))) = Some (t_pc th').
Proof.
  intros R Hth H Hp. cbn [stepf] in H. rewrite Hth in H. unfold step_thread in H.
  destruct Hp as [Hp|[Hp Hc]]; rewrite Hp in H.
  - pose proof (invC_reach w s R _ _ Hth Hp) as Hc.
    unfold fstate_of, filt_step. cbn [fst snd]. rewrite Hc.
    destruct (lru_update CL.cache_cap (call_cid (t_call th)) (CL.lru s)) as [hit l'].
    unfold goto in H. inversion H; subst; clear H. cbn [threads with_threads].
    eexists. split; [apply upd_same|]. destruct hit; reflexivity.
  - rewrite Hc in H. unfold goto in H. inversion H; subst; clear H. cbn [threads with_threads].
    eexists. split; [apply upd_same|]. unfold fstate_of, filt_step. cbn [fst]. rewrite Hc. reflexivity.
Qed.

(* ------------------------------------------------------------------ *)
(* 3. the filter machine is the C09 model restricted to (closed, filter) *)

Lemma filt_pass_iff cap0 cl l allowed c :
  fst (filt_step cap0 (cl, l) (FDirect allowed c)) = FPass
  <-> (allowed = true /\ cl = false /\ memN c l = false).
Proof.
  unfold filt_step. cbn [fst snd]. destruct allowed; [|split; [discriminate|intros [H _]; discriminate]].
  destruct cl; [split; [discriminate|intros (_ & H & _); discriminate]|].
  unfold lru_update. destruct (memN c l); cbn [fst]; split; try discriminate; auto.
  intros (_ & _ & H). discriminate.
Qed.

Lemma seq_step_filter c s o r s' :
  In (r, s') (seq_step c s o) ->
  (AR.closed s', AR.lru s') =
  match op_fop o with
  | Some f => snd (filt_step (cap c) (AR.closed s, AR.lru s) f)
  | None => (AR.closed s, AR.lru s)
  end.
Proof.
  intro Hin. destruct o as [|allowed a cn|cn|k]; cbn [seq_step op_fop filt_step fst snd] in *.
  - destruct Hin as [H|[]]. injection H as _ <-. reflexivity.
  - destruct allowed; cbn [negb] in Hin.
    + destruct (AR.closed s) eqn:Ec; [destruct Hin as [H|[]]; injection H as _ <-; rewrite Ec; reflexivity|].
      destruct (lru_update (cap c) (a_cid a) (AR.lru s)) as [hit l']. cbn [snd].
      destruct hit; [destruct Hin as [H|[]]; injection H as _ <-; cbn; rewrite Ec; reflexivity|].
      cbn [AR.out set_lru] in Hin. destruct (AR.out s).
      * destruct cn; destruct Hin as [H|[]]; injection H as _ <-; cbn; rewrite Ec; reflexivity.
      * destruct Hin as [H|Hin]; [injection H as _ <-; cbn; rewrite Ec; reflexivity|].
        destruct cn; [destruct Hin as [H|[]]; injection H as _ <-; cbn; rewrite Ec; reflexivity|destruct Hin].
    + destruct Hin as [H|[]]. injection H as _ <-. reflexivity.
  - destruct (AR.out s), (AR.closed s) eqn:Ec, cn; cbn in Hin;
      repeat (destruct Hin as [H|Hin]; [injection H as _ <-; cbn; rewrite ?Ec; reflexivity|]); destruct Hin.
  - destruct Hin as [H|[]]. injection H as _ <-. reflexivity.
Qed.

(* the filter contents are those of the duplicate-filter history of the operations *)
Lemma filt_run_lops cap0 : forall ops cl l,
  snd (snd (filt_run cap0 (cl, l) ops)) = snd (lru_run cap0 l (fops_lops cl ops)).
Proof.
  induction ops as [|o r IH]; intros cl l; [reflexivity|].
  cbn [filt_run]. destruct o as [[|] c|c|]; cbn [filt_step fst snd fops_lops].
  - destruct cl.
    + specialize (IH true l). destruct (filt_run cap0 (true, l) r) as [xs s2]. exact IH.
    + rewrite P09.lru_run_cons. cbn [lru_step].
      destruct (lru_update cap0 c l) as [hit l'] eqn:E. cbn [snd].
      specialize (IH false l'). destruct (filt_run cap0 (false, l') r) as [xs s2]. exact IH.
  - specialize (IH cl l). destruct (filt_run cap0 (cl, l) r) as [xs s2]. exact IH.
  - rewrite P09.lru_run_cons. cbn [lru_step snd].
    specialize (IH cl (lru_remove c l)). destruct (filt_run cap0 (cl, lru_remove c l) r) as [xs s2]. exact IH.
  - specialize (IH true l). destruct (filt_run cap0 (true, l) r) as [xs s2]. exact IH.
Qed.

(* so C09's characterisation of the filter holds for every interleaving of callers *)
Theorem lts_filter_refines_spec_lemma w ls s :
  run stepf (init w) ls = Some s ->
  let h := fops_lops false (lin (init w) ls) in
  CL.lru s = snd (lru_run CL.cache_cap [] h)
  /\ NoDup (CL.lru s) /\ length (CL.lru s) <= CL.cache_cap
  /\ CL.lru s = firstn (length (CL.lru s)) (P09.live h)
  /\ (P09.no_removes h = true -> CL.lru s = firstn CL.cache_cap (P09.live h)).
Proof.
  intros H h.
  assert (E : CL.lru s = snd (lru_run CL.cache_cap [] h)).
  { pose proof (lts_filter_is_sequential_lemma w ls s H) as F.
    apply (f_equal snd) in F. cbn [fstate_of snd] in F. rewrite F. apply filt_run_lops. }
  split; [exact E|].
  assert (Hc : 1 <= CL.cache_cap) by (unfold CL.cache_cap; lia).
  destruct (P09.lru_refines_spec_lemma CL.cache_cap h Hc) as (A & B & C & D).
  rewrite E. auto.
Qed.

(* an announcement goes on to delivery iff it is allowed, the receiver is open at its
   critical section, and its CID is not in the filter as determined by the calls linearised
   before it *)
Theorem lts_direct_passes_iff_lemma w ls s t th ch s' :
  run stepf (init w) ls = Some s -> threads s t = Some th -> t_pc th = DiUpdate ->
  stepf s (Step t ch) = Some s' ->
  exists th', threads s' t = Some th' /\
    (t_pc th' = DiUnlockGo <->
     memN (call_cid (t_call th)) (snd (lru_run CL.cache_cap [] (fops_lops false (lin (init w) ls)))) = false)
    /\ (t_pc th' = DiUnlockGo \/ t_pc th' = DiUnlockDup).
Proof.
  intros H Hth Hp E.
  assert (R : reach w s) by (exists ls; exact H).
  destruct (direct_verdict_is_sequential_lemma w s t th ch s' R Hth E (or_introl Hp)) as (th' & H1 & H2).
  exists th'. split; [exact H1|].
  destruct (lts_filter_refines_spec_lemma w ls s H) as (El & _). rewrite <- El.
  pose proof (invC_reach w s R _ _ Hth Hp) as Hc.
  pose proof (filt_pass_iff CL.cache_cap (CL.closed s) (CL.lru s) true (call_cid (t_call th))) as P.
  unfold fstate_of in H2.
  destruct (fst (filt_step CL.cache_cap (CL.closed s, CL.lru s) (FDirect true (call_cid (t_call th))))) eqn:V;
    cbn [pc_after] in H2; try discriminate; injection H2 as H2.
  - (* closed: impossible here *)
    exfalso. unfold filt_step in V. cbn [fst snd] in V. rewrite Hc in V.
    destruct (lru_update _ _ _) as [[|] ?]; discriminate.
  - split; [|right; auto]. split; [intro X; congruence|].
    intro M. exfalso. assert (FDup = FPass) by (apply P; auto). discriminate.
  - split; [|left; auto]. split; [|auto]. intros _. apply P. reflexivity.
Qed.

(* ------------------------------------------------------------------ *)
(* 4. after Close                                                        *)

Lemma lin_label_short s l : lin_label s l = [] \/ exists o, lin_label s l = [o].
Proof.
  unfold lin_label. destruct l; auto. destruct (threads s t) as [th|]; auto.
  destruct (t_pc th); auto; try (right; eexists; reflexivity).
  - destruct (call_allowed (t_call th)); [auto|right; eexists; reflexivity].
  - destruct (CL.closed s); [right; eexists; reflexivity|auto].
Qed.

(* (b) once the closed flag is set it stays set and no announcement touches the filter any
   more: the only way the filter changes is an explicit un-cache *)
Theorem closed_filter_frozen_lemma w s l s' :
  reach w s -> CL.closed s = true -> stepf s l = Some s' ->
  CL.closed s' = true /\
  (CL.lru s' = CL.lru s \/ exists k, lin_label s l = [FUncache k] /\ CL.lru s' = lru_remove k (CL.lru s)).
Proof.
  intros R Hc E. pose proof (fstate_step s l s' (invC_reach w s R) E) as F.
  unfold fstate_of in F. rewrite Hc in F.
  destruct (lin_label_short s l) as [L|[o L]]; rewrite L in F.
  - cbn in F. injection F as -> ->. auto.
  - cbn [filt_run] in F. destruct o as [[|] c|c|]; cbn [filt_step fst snd] in F; injection F as -> ->; auto.
    split; [reflexivity|]. right. exists c. auto.
Qed.

(* ... and on the sequential side an announcement handed to a closed receiver is refused
   without touching anything (C09: rejected announcements leave the filter untouched) *)
Lemma closed_direct_sequential cap0 l allowed c :
  filt_step cap0 (true, l) (FDirect allowed c) = ((if allowed then FClosed else FIgnored), (true, l)).
Proof. destruct allowed; reflexivity. Qed.

Theorem late_direct_closed_and_filter_untouched_lemma w s t th c r :
  reach w s -> threads s t = Some th -> t_watcher th = false -> t_born_closed th = true ->
  t_call th = CDirect true c -> t_pc th = Fin r ->
  r = RetClosed /\ CL.closed s = true
  /\ (forall l s', stepf s l = Some s' ->
        CL.closed s' = true /\
        (CL.lru s' = CL.lru s \/ exists k, lin_label s l = [FUncache k] /\ CL.lru s' = lru_remove k (CL.lru s))).
Proof.
  intros R Hth Hw Hb Hc Hp.
  assert (Cl : CL.closed s = true) by (destruct (born_closed_stays_closed w s t th R Hth) as [X _]; auto).
  split; [eapply late_direct_gets_closed_error; eassumption|]. split; [exact Cl|].
  intros l s' E. eapply closed_filter_frozen_lemma; eassumption.
Qed.

(* (c) UncacheCid is harmless at any time, in particular after Close: its critical section
   is always executable, removes the CID from the filter (a no-op when absent), changes
   nothing else of the filter machine, and the system does not panic *)
Theorem uncache_harmless_lemma w s t th :
  reach w s -> threads s t = Some th -> t_pc th = UnRemove ->
  exists s', stepf s (Step t 0) = Some s'
    /\ CL.lru s' = lru_remove (call_cid (t_call th)) (CL.lru s)
    /\ CL.closed s' = CL.closed s
    /\ panicked s' = false
    /\ NoDup (CL.lru s').
Proof.
  intros R Hth Hp. eexists. split.
  - cbn [stepf]. rewrite Hth. unfold step_thread. rewrite Hp. unfold goto. reflexivity.
  - cbn [CL.lru CL.closed with_threads with_lru panicked]. split; [reflexivity|]. split; [reflexivity|].
    split; [apply (no_panic w s R)|].
    destruct R as [ls Hr]. destruct (lts_filter_refines_spec_lemma w ls s Hr) as (_ & N & _).
    apply P09.NoDup_removeN. exact N.
Qed.

(* a run with overlapping calls and a Close in the middle: both orders of two announcements
   of one CID give one FPass, the announcement after Close is refused *)
Example filter_machine_example :
  fst (filt_run 64 (false, []) [FDirect true 7; FDirect true 7; FUncache 7; FDirect true 7; FClose; FDirect true 9; FUncache 7])
  = [FPass; FDup; FDone; FPass; FDone; FClosed; FDone]%list.
Proof. reflexivity. Qed.
