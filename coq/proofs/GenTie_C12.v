(* GenTie_C12 -- dhash/dhash.go: the hand-written recipe of model/C12_DHash.v agrees, for all
   inputs, with the Gallina regenerated from the Go source (gen/Gen_Funcs_dhash.v). *)
From Coq Require Import ZArith NArith List Bool Lia String.
From Lib Require Import Bytes.
From Model Require Import C12_DHash.
From Proofs Require Import C12_DHash GenTie_Lib.
From Gen Require Import Gen_Consts Gen_Funcs_prelude Gen_Funcs_dhash.
Import ListNotations.
Open Scope Z_scope.

(* errors of dhash.go, by their text, as the error classes of the model *)
Definition errclass (e : string) : N :=
  if (String.eqb e "encrypted value key too short" || String.eqb e "encrypted metadata too short")%bool then ETooShort
  else if String.eqb e "invalid nonce length" then EBadNonce
  else if String.eqb e "cipher: message authentication failed" then EAuth
  else 0%N.

(* a Go (value, error) pair against a model result *)
Definition agreesE (r : res bytes) (g : list N * option string) : Prop :=
  match r, g with
  | Ok b, (b', None) => b = b'
  | Err c, (_, Some e) => errclass e = c
  | _, _ => False
  end.
Definition agrees (r : res bytes) (g : gores (list N * option string)) : Prop :=
  match g with
  | GoRet x => agreesE r x
  | GoPanic => match r with Panic _ => True | _ => False end
  end.

Lemma nonceLen_is : dhash_nonceLen = Z.of_nat nonce_len.
Proof. reflexivity. Qed.

(* the blob split used by DecryptValueKey / DecryptMetadata *)
Lemma split_blob (aes : list N -> list N -> list N -> list N * option string) (blob k : list N) (msg : string) :
  (if len blob <=? dhash_nonceLen
   then GoRet (([] : list N), Some msg)
   else if negb ((0 <=? 0) && (0 <=? dhash_nonceLen) && (dhash_nonceLen <=? len blob)
                 && ((0 <=? dhash_nonceLen) && (dhash_nonceLen <=? len blob) && (len blob <=? len blob)))
        then GoPanic
        else GoRet (aes (slice blob 0 dhash_nonceLen) (slice blob dhash_nonceLen (len blob)) k))
  = if Nat.leb (List.length blob) nonce_len
    then GoRet (([] : list N), Some msg)
    else GoRet (aes (firstn nonce_len blob) (skipn nonce_len blob) k).
Proof.
  rewrite nonceLen_is, len_leb_nat.
  destruct (Nat.leb_spec (List.length blob) nonce_len); [reflexivity|].
  rewrite slice_prefix, slice_suffix, Nat2Z.id by lia.
  replace (Z.of_nat nonce_len <=? len blob) with true by (symmetry; apply Z.leb_le; unfold len; lia).
  rewrite !Z.leb_refl. replace (0 <=? Z.of_nat nonce_len) with true by reflexivity. reflexivity.
Qed.

(* DecryptValueKey: for every DecryptAES that agrees with the model's on the split blob *)
Theorem tie_DecryptValueKey : forall (P : prims) aes (evk mh : bytes),
  agreesE (decrypt_aes P (firstn nonce_len evk) (skipn nonce_len evk) mh)
          (aes (firstn nonce_len evk) (skipn nonce_len evk) mh) ->
  agrees (decrypt_value_key P evk mh) (dhash_DecryptValueKey aes evk mh).
Proof.
  intros P aes evk mh H. unfold dhash_DecryptValueKey, decrypt_value_key.
  rewrite (split_blob aes evk mh). destruct (Nat.leb (List.length evk) nonce_len); [reflexivity|exact H].
Qed.

Theorem tie_DecryptMetadata : forall (P : prims) aes (emd vk : bytes),
  agreesE (decrypt_aes P (firstn nonce_len emd) (skipn nonce_len emd) vk)
          (aes (firstn nonce_len emd) (skipn nonce_len emd) vk) ->
  agrees (decrypt_metadata P emd vk) (dhash_DecryptMetadata aes emd vk).
Proof.
  intros P aes emd vk H. unfold dhash_DecryptMetadata, decrypt_metadata.
  rewrite (split_blob aes emd vk). destruct (Nat.leb (List.length emd) nonce_len); [reflexivity|exact H].
Qed.

(* it never panics: the slices are guarded by the length test *)
Theorem DecryptValueKey_no_panic : forall aes evk mh, dhash_DecryptValueKey aes evk mh <> GoPanic.
Proof.
  intros. unfold dhash_DecryptValueKey. rewrite (split_blob aes evk mh).
  destruct (Nat.leb _ _); discriminate.
Qed.

(* EncryptValueKey / EncryptMetadata: append(nonce, encrypted...) *)
Definition to_go3 (r : res (bytes * bytes)) : list N * list N * option string :=
  match r with
  | Ok (n, c) => (n, c, None)
  | Err _ => ([], [], Some "err"%string)
  | Panic _ => ([], [], Some "panic"%string)
  end.

Theorem tie_EncryptValueKey : forall (P : prims) (vk mh : bytes),
  (forall c, encrypt_aes P vk mh <> Panic c) ->
  match encrypt_value_key P vk mh, dhash_EncryptValueKey (fun p k => to_go3 (encrypt_aes P p k)) vk mh with
  | Ok b, (b', None) => b = b'
  | Err _, (_, Some _) => True
  | _, _ => False
  end.
Proof.
  intros P vk mh NP. unfold dhash_EncryptValueKey, encrypt_value_key, encrypt_blob.
  destruct (encrypt_aes P vk mh) as [[n c]|e|p]; cbn; auto. exact (NP p eq_refl).
Qed.

Theorem tie_EncryptMetadata : forall (P : prims) (md vk : bytes),
  (forall c, encrypt_aes P md vk <> Panic c) ->
  match encrypt_metadata P md vk, dhash_EncryptMetadata (fun p k => to_go3 (encrypt_aes P p k)) md vk with
  | Ok b, (b', None) => b = b'
  | Err _, (_, Some _) => True
  | _, _ => False
  end.
Proof.
  intros P md vk NP. unfold dhash_EncryptMetadata, encrypt_metadata, encrypt_blob.
  destruct (encrypt_aes P md vk) as [[n c]|e|p]; cbn; auto. exact (NP p eq_refl).
Qed.

(* deriveKey, SecondMultihash, CreateValueKey over total primitives *)
Lemma key_prefix_gen : bytes_of_string dhash_deriveKeyPrefix = key_prefix.
Proof. symmetry. exact (proj1 (proj2 prefixes_match_source)). Qed.
Lemma second_prefix_gen : bytes_of_string dhash_secondHashPrefix = second_prefix.
Proof. symmetry. exact (proj1 prefixes_match_source). Qed.
Lemma nonce_prefix_gen : bytes_of_string dhash_noncePrefix = nonce_prefix.
Proof. symmetry. exact (proj1 (proj2 (proj2 prefixes_match_source))). Qed.

Theorem tie_deriveKey : forall (sha : bytes -> bytes) pass,
  dhash_deriveKey sha pass = ideal_key sha pass.
Proof. intros. unfold dhash_deriveKey, ideal_key. rewrite key_prefix_gen. reflexivity. Qed.

Theorem tie_SecondMultihash : forall (sha : bytes -> bytes) seal open mh,
  second_multihash (ideal sha seal open) mh
  = Ok (dhash_SecondMultihash sha (fun d code => (mh_encode (Z.to_N code) d, None)) mh).
Proof.
  intros. unfold dhash_SecondMultihash, second_multihash, ext_multihash_DBL_SHA2_256.
  rewrite second_prefix_gen. cbn [ideal p_sha bind]. reflexivity.
Qed.

Theorem tie_CreateValueKey : forall pid ctx, dhash_CreateValueKey pid ctx = create_value_key pid ctx.
Proof. reflexivity. Qed.

(* DecryptAES over total primitives: aes.NewCipher / cipher.NewGCM cannot fail on a 32-byte
   key, Open is the model's open *)
Definition go_open (open : bytes -> bytes -> bytes -> option bytes) (k n c : list N) : list N * option string :=
  match open k n c with
  | Some p => (p, None)
  | None => ([], Some "cipher: message authentication failed"%string)
  end.

Theorem tie_DecryptAES : forall (sha : bytes -> bytes) seal open (nonce ct pass : bytes),
  agreesE (decrypt_aes (ideal sha seal open) nonce ct pass)
          (dhash_DecryptAES bytes bytes (fun k => (k, None)) (fun b => (b, None)) (dhash_deriveKey sha)
                            (go_open open) nonce ct pass).
Proof.
  intros. unfold dhash_DecryptAES, decrypt_aes. rewrite nonceLen_is, len_eqb_nat.
  destruct (Nat.eqb (List.length nonce) nonce_len); cbn [negb]; [|reflexivity].
  rewrite tie_deriveKey. unfold derive_key, ideal_key, go_open. cbn [ideal p_sha p_open bind isNone negb].
  destruct (open _ _ _); reflexivity.
Qed.

(* EncryptAES over total primitives with law_sha_min (a digest has at least 12 bytes) *)
Theorem tie_EncryptAES : forall (sha : bytes -> bytes) seal open (payload pass : bytes),
  law_sha_min sha ->
  dhash_EncryptAES bytes bytes (fun k => (k, None))
     (fun _ n => le64 (Z.to_N n)) (fun b => (b, None)) (dhash_deriveKey sha)
     (fun a b c d => sha (a ++ b ++ c ++ d)%list) seal payload pass
  = match encrypt_aes (ideal sha seal open) payload pass with
    | Ok (n, c) => GoRet (n, c, None)
    | _ => GoPanic
    end.
Proof.
  intros sha seal open payload pass Hmin. unfold dhash_EncryptAES, encrypt_aes, derive_key, derive_nonce.
  cbn [ideal p_sha p_seal bind].
  rewrite nonce_prefix_gen, nonceLen_is, tie_deriveKey.
  replace (Z.to_N (len payload)) with (N.of_nat (List.length payload)) by (unfold len; lia).
  set (h := sha (nonce_prefix ++ le64 (N.of_nat (List.length payload)) ++ payload ++ pass)%list).
  assert (Hh : (12 <= List.length h)%nat) by apply Hmin.
  replace (Z.of_nat nonce_len <=? len h) with true by (symmetry; apply Z.leb_le; unfold len, nonce_len; lia).
  change (0 <=? Z.of_nat nonce_len) with true. change (0 <=? 0) with true.
  cbn [andb negb isNone]. rewrite slice_prefix, Nat2Z.id by (unfold nonce_len; lia).
  unfold ideal_key. reflexivity.
Qed.

(* ================================================================== *)
(* phase 2: find/client FindAsync, one encrypted value key: a failure to decrypt it, to split it,
   to fetch its metadata, or empty metadata, skips this key and the loop continues (model find_one) *)
From Gen Require Import Gen_Funcs_findclient.

Theorem FindAsync_skip_ladder_table :
  forall (dvk : list N -> list N -> list N * option string) (split : list N -> list N * list N * option string)
         (mh evk md : list N) (mderr : option string),
  match findclient_FindAsync_skip_ladder dvk split mh evk mderr md with
  | FFall _ =>
      snd (dvk evk mh) = None /\ snd (split (fst (dvk evk mh))) = None /\ mderr = None /\ md <> []
  | FContinue _ _ =>
      snd (dvk evk mh) <> None \/ snd (split (fst (dvk evk mh))) <> None \/ mderr <> None \/ md = []
  | _ => False
  end.
Proof.
  intros. unfold findclient_FindAsync_skip_ladder.
  destruct (dvk evk mh) as [vk [e|]]; cbn [fst snd isNone negb]; [left; discriminate|].
  destruct (split vk) as [[p c] [e|]]; cbn [snd isNone negb]; [right; left; discriminate|].
  destruct mderr; cbn [isNone negb]; [right; right; left; discriminate|].
  rewrite len_eqb_0. destruct md; cbn [is_nil]; [right; right; right; reflexivity|].
  repeat split; discriminate.
Qed.
