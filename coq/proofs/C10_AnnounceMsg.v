(* C10: lemmas about model/C10_AnnounceMsg.v. *)
From Lib Require Import Bytes Varint Cid Cbor.
From Model Require Import C10_AnnounceMsg.
From Coq Require Import Lia ZifyN ZifyNat ZifyBool.
Ltac Zify.zify_post_hook ::= Z.div_mod_to_equations.
Open Scope N_scope.
Local Arguments N.mul : simpl never.
Local Arguments N.add : simpl never.
Local Arguments N.sub : simpl never.
Local Arguments N.pow : simpl never.
Local Arguments N.div : simpl never.
Local Arguments N.modulo : simpl never.
Local Arguments N.ltb : simpl never.
Local Arguments N.leb : simpl never.
Local Arguments N.eqb : simpl never.
Local Arguments N.of_nat : simpl never.
Local Arguments N.to_nat : simpl never.

Ltac caps := unfold alloc_bound, MaxLength, ByteArrayMaxLen, SliceHeader, CidMaxLen, MakeLimit in *.

(* ------------------------------------------------------------------ *)
(* 1. the decoder without the ghost counter                            *)

Fixpoint dec_addrs_p (n : nat) (b : bytes) : res (list (option bytes) * bytes) :=
  match n with
  | O => Ok ([], b)
  | S k =>
    '(maj, extra, r) <- rd_head b ;;
    if ByteArrayMaxLen <? extra then Err ETooLarge else
    if negb (maj =? MajByteString) then Err EWrongMajor else
    '(x, r') <- read_full extra r ;;
    '(xs, r'') <- dec_addrs_p k r' ;;
    Ok (mk_sl x :: xs, r'')
  end.

Definition dec_body (nf : N) (r1 : bytes) : res (msg * bytes) :=
  '(c, r2) <- rd_cid r1 ;;
  '(maj2, n, r3) <- rd_head r2 ;;
  if MaxLength <? n then Err ETooLarge else
  if negb (maj2 =? MajArray) then Err EWrongMajor else
  '(addrs, r4) <- dec_addrs_p (N.to_nat n) r3 ;;
  '(maj3, e, r5) <- rd_head r4 ;;
  if ByteArrayMaxLen <? e then Err ETooLarge else
  if negb (maj3 =? MajByteString) then Err EWrongMajor else
  '(x, r6) <- read_full e r5 ;;
  if nf =? 3 then Ok (Msg (Some c) (mk_sl addrs) (mk_sl x) [], r6) else
  '(s, r7) <- rd_text MaxLength r6 ;;
  Ok (Msg (Some c) (mk_sl addrs) (mk_sl x) s, r7).

Definition dec_p (b : bytes) : res (msg * bytes) :=
  '(maj, nf, r1) <- rd_head b ;;
  if negb (maj =? MajArray) then Err EWrongMajor else
  if 4 <? nf then Err EFieldCount else
  if nf <? 3 then Err EFieldCount else
  dec_body nf r1.

Lemma gmake_pos_ok es n : es * n <= MakeLimit -> snd (gmake_pos es n) = Ok tt.
Proof.
  intro H. unfold gmake_pos. destruct (0 <? n); [|reflexivity].
  rewrite snd_gmake_ok by exact H. reflexivity.
Qed.

Lemma fst_gmake_pos es n : fst (gmake_pos es n) <= es * n.
Proof.
  unfold gmake_pos, gmake. destruct (0 <? n); [|cbn; lia].
  destruct (es * n <=? MakeLimit); cbn; lia.
Qed.

Lemma snd_dec_addrs n : forall b, snd (dec_addrs n b) = dec_addrs_p n b.
Proof.
  induction n as [|k IH]; intro b; [reflexivity|].
  cbn [dec_addrs dec_addrs_p]. rewrite snd_gbind. cbn [glift snd].
  destruct (rd_head b) as [[[maj extra] r]| |]; cbn [bind]; try reflexivity.
  destruct (ByteArrayMaxLen <? extra) eqn:E; [reflexivity|].
  destruct (negb (maj =? MajByteString)); [reflexivity|].
  rewrite snd_gbind. rewrite gmake_pos_ok by (caps; lia). cbn [bind].
  rewrite snd_gbind. cbn [glift snd].
  destruct (read_full extra r) as [[x r']| |]; cbn [bind]; try reflexivity.
  rewrite snd_gbind, IH.
  destruct (dec_addrs_p k r') as [[xs r'']| |]; reflexivity.
Qed.

(* erasure: the ghost counter does not influence the result, and no make() panics *)
Lemma dec_erase b : dec b = dec_p b.
Proof.
  unfold dec, dec_g, dec_p, dec_body. rewrite snd_gbind. cbn [glift snd].
  destruct (rd_head b) as [[[maj nf] r1]| |]; cbn [bind]; try reflexivity.
  destruct (negb (maj =? MajArray)); [reflexivity|].
  destruct (4 <? nf); [reflexivity|]. destruct (nf <? 3); [reflexivity|].
  rewrite snd_gbind, snd_rd_cid_g.
  destruct (rd_cid r1) as [[c r2]| |]; cbn [bind]; try reflexivity.
  rewrite snd_gbind. cbn [glift snd].
  destruct (rd_head r2) as [[[maj2 n] r3]| |]; cbn [bind]; try reflexivity.
  destruct (MaxLength <? n) eqn:En; [reflexivity|].
  destruct (negb (maj2 =? MajArray)); [reflexivity|].
  rewrite snd_gbind. rewrite gmake_pos_ok by (caps; lia). cbn [bind].
  rewrite snd_gbind, snd_dec_addrs.
  destruct (dec_addrs_p (N.to_nat n) r3) as [[addrs r4]| |]; cbn [bind]; try reflexivity.
  rewrite snd_gbind. cbn [glift snd].
  destruct (rd_head r4) as [[[maj3 e] r5]| |]; cbn [bind]; try reflexivity.
  destruct (ByteArrayMaxLen <? e) eqn:Ee; [reflexivity|].
  destruct (negb (maj3 =? MajByteString)); [reflexivity|].
  rewrite snd_gbind. rewrite gmake_pos_ok by (caps; lia). cbn [bind].
  rewrite snd_gbind. cbn [glift snd].
  destruct (read_full e r5) as [[x r6]| |]; cbn [bind]; try reflexivity.
  destruct (nf =? 3); [reflexivity|].
  rewrite snd_gbind, snd_rd_text_g by (caps; lia).
  destruct (rd_text MaxLength r6) as [[s r7]| |]; reflexivity.
Qed.

(* ------------------------------------------------------------------ *)
(* 2. small facts about nil/empty                                       *)

Lemma sl_mk_sl {A} (l : list A) : sl (mk_sl l) = l.
Proof. destruct l; reflexivity. Qed.

Lemma norm_b_mk_sl (x : bytes) : norm_b (mk_sl x) = mk_sl x.
Proof. unfold norm_b. rewrite sl_mk_sl. reflexivity. Qed.

Lemma norm_b_idem a : norm_b (norm_b a) = norm_b a.
Proof. unfold norm_b. rewrite sl_mk_sl. reflexivity. Qed.

Lemma sl_norm_b a : sl (norm_b a) = sl a.
Proof. unfold norm_b. apply sl_mk_sl. Qed.

Lemma rd_head_131 x : rd_head (131 :: x) = Ok (4, 3, x).
Proof. reflexivity. Qed.
Lemma rd_head_132 x : rd_head (132 :: x) = Ok (4, 4, x).
Proof. reflexivity. Qed.
Lemma wr_head_4_3 : wr_head 4 3 = [131].
Proof. reflexivity. Qed.
Lemma wr_head_4_4 : wr_head 4 4 = [132].
Proof. reflexivity. Qed.

(* ------------------------------------------------------------------ *)
(* 3. decode after encode                                              *)

Lemma enc_addr_ok a x : enc_addr a = Ok x -> x = wr_bytes (sl a) /\ blen (sl a) <= ByteArrayMaxLen.
Proof.
  unfold enc_addr. destruct (ByteArrayMaxLen <? blen (sl a)) eqn:E; [discriminate|].
  intro H. injection H as <-. split; [reflexivity|lia].
Qed.

Lemma dec_addrs_enc l : forall a r,
  enc_addrs l = Ok a -> dec_addrs_p (length l) (a ++ r) = Ok (map norm_b l, r).
Proof.
  induction l as [|x l IH]; intros a r H; cbn [enc_addrs] in H.
  - injection H as <-. reflexivity.
  - destruct (enc_addr x) as [ex| |] eqn:Ex; try discriminate. cbn [bind] in H.
    destruct (enc_addrs l) as [el| |] eqn:El; try discriminate. cbn [bind] in H.
    injection H as <-. apply enc_addr_ok in Ex as [-> Lx].
    cbn [length dec_addrs_p map]. unfold wr_bytes. rewrite <- !app_assoc.
    rewrite rd_head_wr_head by (unfold MajByteString; caps; lia). cbn [bind].
    replace (ByteArrayMaxLen <? blen (sl x)) with false by lia.
    rewrite N.eqb_refl. cbn [negb]. rewrite read_full_app. cbn [bind].
    rewrite (IH el r eq_refl). reflexivity.
Qed.

Lemma length_to_nat {A} (l : list A) : N.to_nat (N.of_nat (length l)) = length l.
Proof. apply Nat2N.id. Qed.

(* only the CID has to be well formed (its varints below 2^63) for the round trip *)
Definition cid_ok (m : msg) : bool := match m_cid m with Some c => cid_wf c | None => true end.

Lemma wf_msg_cid_ok m : wf_msg m = true -> cid_ok m = true.
Proof. unfold wf_msg, cid_ok. intro W. repeat (apply andb_prop in W as [W _]). exact W. Qed.

Lemma dec_enc_gen m b r :
  cid_ok m = true -> enc m = Ok b -> dec (b ++ r) = Ok (norm m, r).
Proof.
  intros W H. rewrite dec_erase. unfold enc, enc_with in H.
  destruct m as [oc addrs extra orig]. cbn [m_cid m_addrs m_extra m_orig] in H.
  destruct oc as [c|]; [|discriminate].
  assert (Wc : cid_wf c = true) by exact W.
  cbn [andb] in H. destruct (CidMaxLen <? byte_len c + 1) eqn:Ec; [discriminate|].
  destruct (MaxLength <? N.of_nat (length (sl addrs))) eqn:En; [discriminate|].
  destruct (enc_addrs (sl addrs)) as [a| |] eqn:Ea; try discriminate. cbn [bind] in H.
  destruct (ByteArrayMaxLen <? blen (sl extra)) eqn:Ee; [discriminate|].
  unfold norm. cbn [m_cid m_addrs m_extra m_orig].
  assert (Common : forall nf tail,
    dec_body nf ((wr_cid c ++ wr_head MajArray (N.of_nat (length (sl addrs))) ++ a ++ wr_bytes (sl extra)) ++ tail)
    =
    if nf =? 3 then Ok (Msg (Some c) (mk_sl (map norm_b (sl addrs))) (norm_b extra) [], tail) else
    '(s, r7) <- rd_text MaxLength tail ;;
    Ok (Msg (Some c) (mk_sl (map norm_b (sl addrs))) (norm_b extra) s, r7)).
  { intros nf tail. unfold dec_body. rewrite <- !app_assoc.
    rewrite rd_cid_wr_cid by (try exact Wc; lia). cbn [bind].
    rewrite rd_head_wr_head by (unfold MajArray; caps; lia). cbn [bind].
    rewrite En. rewrite N.eqb_refl. cbn [negb].
    rewrite length_to_nat. rewrite (dec_addrs_enc _ _ _ Ea). cbn [bind].
    unfold wr_bytes. rewrite <- !app_assoc.
    rewrite rd_head_wr_head by (unfold MajByteString; caps; lia). cbn [bind].
    rewrite Ee. rewrite N.eqb_refl. cbn [negb].
    rewrite read_full_app. cbn [bind]. reflexivity. }
  set (body := wr_cid c ++ wr_head MajArray (N.of_nat (length (sl addrs))) ++ a ++ wr_bytes (sl extra)) in *.
  clearbody body.
  destruct orig as [|o0 orig'].
  - injection H as <-. unfold dec_p. rewrite <- app_comm_cons. rewrite rd_head_131. cbn [bind].
    change (negb (4 =? MajArray)) with false. change (4 <? 3) with false. change (3 <? 3) with false. cbv iota.
    rewrite (Common 3 r). reflexivity.
  - destruct (MaxLength <? blen (o0 :: orig')) eqn:Eo; [discriminate|]. injection H as <-.
    unfold dec_p. rewrite <- app_comm_cons. rewrite rd_head_132. cbn [bind].
    change (negb (4 =? MajArray)) with false. change (4 <? 4) with false. change (4 <? 3) with false. cbv iota.
    rewrite <- app_assoc.
    rewrite (Common 4 (wr_text (o0 :: orig') ++ r)).
    change (4 =? 3) with false. cbv iota.
    rewrite rd_text_wr_text by (caps; lia). reflexivity.
Qed.

Theorem dec_enc_lemma m b r :
  wf_msg m = true -> enc m = Ok b -> dec (b ++ r) = Ok (norm m, r).
Proof. intro W. apply dec_enc_gen. apply wf_msg_cid_ok. exact W. Qed.

(* ------------------------------------------------------------------ *)
(* 4. totality                                                          *)

Lemma dec_addrs_p_total n : forall b, is_panic (dec_addrs_p n b) = false.
Proof.
  induction n as [|k IH]; intro b; [reflexivity|]. cbn [dec_addrs_p].
  pose proof (rd_head_total b) as T.
  destruct (rd_head b) as [[[maj extra] r]| |]; cbn in T |- *; try congruence.
  destruct (ByteArrayMaxLen <? extra); [reflexivity|].
  destruct (negb (maj =? MajByteString)); [reflexivity|].
  pose proof (read_full_total extra r) as T2.
  destruct (read_full extra r) as [[x r']| |]; cbn in T2 |- *; try congruence.
  specialize (IH r'). destruct (dec_addrs_p k r') as [[xs r'']| |]; cbn in IH |- *; congruence.
Qed.

Theorem dec_total_lemma b : is_panic (dec b) = false.
Proof.
  rewrite dec_erase. unfold dec_p, dec_body.
  pose proof (rd_head_total b) as T.
  destruct (rd_head b) as [[[maj nf] r1]| |]; cbn in T |- *; try congruence.
  destruct (negb (maj =? MajArray)); [reflexivity|].
  destruct (4 <? nf); [reflexivity|]. destruct (nf <? 3); [reflexivity|].
  pose proof (rd_cid_total r1) as T1.
  destruct (rd_cid r1) as [[c r2]| |]; cbn in T1 |- *; try congruence.
  pose proof (rd_head_total r2) as T2.
  destruct (rd_head r2) as [[[maj2 n] r3]| |]; cbn in T2 |- *; try congruence.
  destruct (MaxLength <? n); [reflexivity|].
  destruct (negb (maj2 =? MajArray)); [reflexivity|].
  pose proof (dec_addrs_p_total (N.to_nat n) r3) as T3.
  destruct (dec_addrs_p (N.to_nat n) r3) as [[addrs r4]| |]; cbn in T3 |- *; try congruence.
  pose proof (rd_head_total r4) as T4.
  destruct (rd_head r4) as [[[maj3 e] r5]| |]; cbn in T4 |- *; try congruence.
  destruct (ByteArrayMaxLen <? e); [reflexivity|].
  destruct (negb (maj3 =? MajByteString)); [reflexivity|].
  pose proof (read_full_total e r5) as T5.
  destruct (read_full e r5) as [[x r6]| |]; cbn in T5 |- *; try congruence.
  destruct (nf =? 3); [reflexivity|].
  pose proof (rd_text_total MaxLength r6) as T6.
  destruct (rd_text MaxLength r6) as [[s r7]| |]; cbn in T6 |- *; congruence.
Qed.

Corollary dec_ok_or_err b : (exists m r, dec b = Ok (m, r)) \/ (exists c, dec b = Err c).
Proof.
  pose proof (dec_total_lemma b) as T.
  destruct (dec b) as [[m r]|c|c]; cbn in T; [left; eauto|right; eauto|discriminate].
Qed.

Theorem dec_total_full b :
  is_panic (dec b) = false /\ ((exists m r, dec b = Ok (m, r)) \/ (exists c, dec b = Err c)).
Proof. split; [exact (dec_total_lemma b)|exact (dec_ok_or_err b)]. Qed.

(* ------------------------------------------------------------------ *)
(* 5. canonicity: what decodes is what the encoder writes               *)

Lemma forallb_wf_app (a b : bytes) : wf_bytes (a ++ b) = true -> wf_bytes a = true /\ wf_bytes b = true.
Proof. rewrite wf_bytes_app. apply andb_prop. Qed.

Lemma dec_addrs_canon n : forall b l r,
  wf_bytes b = true -> dec_addrs_p n b = Ok (l, r) ->
  exists a, enc_addrs l = Ok a /\ b = a ++ r /\ length l = n /\ map norm_b l = l
            /\ forallb (fun x => wf_bytes (sl x)) l = true /\ wf_bytes r = true.
Proof.
  induction n as [|k IH]; intros b l r W H; cbn [dec_addrs_p] in H.
  - injection H as <- <-. exists []. repeat split; auto.
  - destruct (rd_head b) as [[[maj extra] t]| |] eqn:Eh; try discriminate. cbn [bind] in H.
    destruct (ByteArrayMaxLen <? extra) eqn:Ec; [discriminate|].
    destruct (maj =? MajByteString) eqn:Em; [|discriminate]. cbn [negb] in H.
    apply N.eqb_eq in Em. subst maj.
    destruct (read_full extra t) as [[x t']| |] eqn:Er; try discriminate. cbn [bind] in H.
    destruct (dec_addrs_p k t') as [[xs t'']| |] eqn:Ed; try discriminate. cbn [bind] in H.
    injection H as <- <-.
    apply rd_head_canon in Eh as (-> & _ & _); [|exact W].
    apply forallb_wf_app in W as [_ W].
    apply read_full_ok in Er as [-> Lx].
    apply forallb_wf_app in W as [Wx W].
    destruct (IH _ _ _ W Ed) as (a & Ea & -> & Ll & Nl & Wl & Wr).
    exists (wr_bytes x ++ a). split; [|split; [|split; [|split; [|split]]]].
    + cbn [enc_addrs]. unfold enc_addr. rewrite sl_mk_sl.
      replace (ByteArrayMaxLen <? blen x) with false by lia. cbn [bind]. rewrite Ea. reflexivity.
    + unfold wr_bytes. rewrite Lx, <- !app_assoc. reflexivity.
    + cbn [length]. rewrite Ll. reflexivity.
    + cbn [map]. rewrite norm_b_mk_sl, Nl. reflexivity.
    + cbn [forallb]. rewrite sl_mk_sl, Wx, Wl. reflexivity.
    + exact Wr.
Qed.

(* the full statement: a decoded message re-encodes, to the very bytes consumed
   (or to the 3-field form of them when a 4-field input carried an empty origin),
   and decodes from that encoding to itself *)
Theorem dec_reenc_lemma b m r :
  wf_bytes b = true -> dec b = Ok (m, r) ->
  exists b', enc m = Ok b'
    /\ dec b' = Ok (m, [])
    /\ norm m = m /\ wf_msg m = true
    /\ (b = b' ++ r \/
        (m_orig m = [] /\ exists body, b' = 131 :: body /\ b = 132 :: body ++ 96 :: r)).
Proof.
  intros W H. rewrite dec_erase in H. unfold dec_p, dec_body in H.
  destruct (rd_head b) as [[[maj nf] r1]| |] eqn:E0; try discriminate. cbn [bind] in H.
  destruct (maj =? MajArray) eqn:Em; [|discriminate]. cbn [negb] in H. apply N.eqb_eq in Em. subst maj.
  destruct (4 <? nf) eqn:E4; [discriminate|]. destruct (nf <? 3) eqn:E3; [discriminate|].
  destruct (rd_cid r1) as [[c r2]| |] eqn:E1; try discriminate. cbn [bind] in H.
  destruct (rd_head r2) as [[[maj2 n] r3]| |] eqn:E2; try discriminate. cbn [bind] in H.
  destruct (MaxLength <? n) eqn:En; [discriminate|].
  destruct (maj2 =? MajArray) eqn:Em2; [|discriminate]. cbn [negb] in H. apply N.eqb_eq in Em2. subst maj2.
  destruct (dec_addrs_p (N.to_nat n) r3) as [[addrs r4]| |] eqn:Ea; try discriminate. cbn [bind] in H.
  destruct (rd_head r4) as [[[maj3 e] r5]| |] eqn:E5; try discriminate. cbn [bind] in H.
  destruct (ByteArrayMaxLen <? e) eqn:Ee; [discriminate|].
  destruct (maj3 =? MajByteString) eqn:Em3; [|discriminate]. cbn [negb] in H. apply N.eqb_eq in Em3. subst maj3.
  destruct (read_full e r5) as [[x r6]| |] eqn:E6; try discriminate. cbn [bind] in H.
  (* unwind the input *)
  apply rd_head_canon in E0 as (-> & _ & _); [|exact W].
  apply forallb_wf_app in W as [_ W].
  apply rd_cid_canon in E1 as (-> & Wc & Lc); [|exact W].
  apply forallb_wf_app in W as [_ W].
  apply rd_head_canon in E2 as (-> & _ & _); [|exact W].
  apply forallb_wf_app in W as [_ W].
  destruct (dec_addrs_canon _ _ _ _ W Ea) as (a & Eea & -> & La & Na & Wa & W4).
  apply rd_head_canon in E5 as (-> & _ & _); [|exact W4].
  apply forallb_wf_app in W4 as [_ W5].
  apply read_full_ok in E6 as [-> Lx].
  apply forallb_wf_app in W5 as [Wx W6].
  assert (Ln : N.of_nat (length addrs) = n) by lia.
  (* the encoder on the decoded fields *)
  assert (Body : forall s,
    enc (Msg (Some c) (mk_sl addrs) (mk_sl x) s) =
    let body := wr_cid c ++ wr_head MajArray n ++ a ++ wr_bytes x in
    match s with [] => Ok (131 :: body)
    | _ => if MaxLength <? blen s then Err ETooLarge else Ok (132 :: body ++ wr_text s) end).
  { intro s. unfold enc, enc_with. cbn [m_cid m_addrs m_extra m_orig andb].
    replace (CidMaxLen <? byte_len c + 1) with false by lia.
    rewrite !sl_mk_sl, Ln, En, Eea. cbn [bind].
    replace (ByteArrayMaxLen <? blen x) with false by lia. destruct s; reflexivity. }
  assert (Norm : forall s, norm (Msg (Some c) (mk_sl addrs) (mk_sl x) s) = Msg (Some c) (mk_sl addrs) (mk_sl x) s).
  { intro s. unfold norm. cbn [m_cid m_addrs m_extra m_orig]. rewrite sl_mk_sl, Na, norm_b_mk_sl. reflexivity. }
  assert (Wf : forall s, wf_bytes s = true -> wf_msg (Msg (Some c) (mk_sl addrs) (mk_sl x) s) = true).
  { intros s Ws. unfold wf_msg. cbn [m_cid m_addrs m_extra m_orig]. rewrite !sl_mk_sl, Wc, Wa, Wx, Ws. reflexivity. }
  assert (Hnf : nf = 3 \/ nf = 4) by lia.
  destruct Hnf as [-> | ->].
  - change (3 =? 3) with true in H. cbv iota in H. injection H as <- <-.
    eexists. split; [rewrite Body; reflexivity|]. cbv zeta.
    split; [|split; [apply Norm|split; [apply Wf; reflexivity|]]].
    + rewrite <- (app_nil_r (131 :: _)). rewrite <- (Norm []) at 1.
      apply dec_enc_lemma; [apply Wf; reflexivity|]. rewrite Body. reflexivity.
    + left. change (wr_head MajArray 3) with [131]. unfold wr_bytes. rewrite Lx. cbn [app]. rewrite <- !app_assoc. reflexivity.
  - change (4 =? 3) with false in H. cbv iota in H.
    destruct (rd_text MaxLength r6) as [[s r7]| |] eqn:E7; try discriminate. cbn [bind] in H.
    injection H as <- <-.
    apply rd_text_canon in E7 as [-> Ls]; [|exact W6].
    apply forallb_wf_app in W6 as [W7 _].
    unfold wr_text in W7. apply forallb_wf_app in W7 as [_ Ws].
    destruct s as [|s0 s'].
    + (* four fields, empty origin: re-encodes with three *)
      eexists. split; [rewrite Body; reflexivity|]. cbv zeta.
      split; [|split; [apply Norm|split; [apply Wf; reflexivity|]]].
      * rewrite <- (app_nil_r (131 :: _)). rewrite <- (Norm []) at 1.
        apply dec_enc_lemma; [apply Wf; reflexivity|]. rewrite Body. reflexivity.
      * right. split; [reflexivity|]. eexists. split; [reflexivity|].
        change (wr_head MajArray 4) with [132]. unfold wr_bytes, wr_text. rewrite Lx. cbn [app blen length].
        change (wr_head MajTextString (N.of_nat 0)) with [96].
        cbn [app]. rewrite <- !app_assoc. reflexivity.
    + eexists. split; [rewrite Body; cbv zeta; replace (MaxLength <? blen (s0 :: s')) with false by lia; reflexivity|].
      split; [|split; [apply Norm|split; [apply Wf; exact Ws|]]].
      * rewrite <- (app_nil_r (132 :: _)). rewrite <- (Norm (s0 :: s')) at 1.
        apply dec_enc_lemma; [apply Wf; exact Ws|]. rewrite Body. cbv zeta.
        replace (MaxLength <? blen (s0 :: s')) with false by lia. reflexivity.
      * left. change (wr_head MajArray 4) with [132]. unfold wr_bytes. rewrite Lx. cbn [app]. rewrite <- !app_assoc. reflexivity.
Qed.

(* ------------------------------------------------------------------ *)
(* 6. allocation                                                        *)

Lemma dec_addrs_alloc n : forall b,
  fst (dec_addrs n b) <= blen b + ByteArrayMaxLen /\
  (forall l r, snd (dec_addrs n b) = Ok (l, r) -> fst (dec_addrs n b) + blen r <= blen b).
Proof.
  induction n as [|k IH]; intro b.
  - cbn. split; [lia|]. intros l r H. injection H as _ <-. lia.
  - cbn [dec_addrs]. rewrite fst_gbind, snd_gbind. cbn [glift fst snd].
    destruct (rd_head b) as [[[maj extra] r]| |] eqn:E0; cbn [bind]; try (split; [lia|discriminate]).
    apply rd_head_rest in E0. cbv beta iota.
    destruct (ByteArrayMaxLen <? extra) eqn:Ec; [cbn; split; [lia|discriminate]|].
    destruct (negb (maj =? MajByteString)); [cbn; split; [lia|discriminate]|].
    rewrite fst_gbind, snd_gbind.
    pose proof (fst_gmake_pos 1 extra) as G. rewrite gmake_pos_ok by (caps; lia). cbn [bind]. cbv beta iota.
    rewrite fst_gbind, snd_gbind. cbn [glift fst snd].
    destruct (read_full extra r) as [[x r']| |] eqn:E1; cbn [bind]; cbv beta iota; try (split; [lia|discriminate]).
    apply read_full_ok in E1 as [-> Lx]. rewrite blen_app in E0.
    rewrite fst_gbind, snd_gbind.
    destruct (IH r') as [I1 I2].
    destruct (snd (dec_addrs k r')) as [[xs r'']| |] eqn:E2; cbn [bind]; cbv beta iota; try (split; [lia|discriminate]).
    specialize (I2 xs r'' eq_refl). cbn [gret fst snd].
    split; [lia|]. intros l r0 H. injection H as _ <-. lia.
Qed.

Theorem dec_alloc_bounded_lemma b : dec_alloc b <= alloc_bound b.
Proof.
  unfold dec_alloc, dec_g.
  rewrite fst_gbind. cbn [glift fst snd].
  destruct (rd_head b) as [[[maj nf] r1]| |] eqn:E0; [|caps; lia..].
  apply rd_head_rest in E0. cbv beta iota.
  destruct (negb (maj =? MajArray)); [cbn [gerr gret fst]; caps; lia|].
  destruct (4 <? nf); [cbn [gerr gret fst]; caps; lia|]. destruct (nf <? 3); [cbn [gerr gret fst]; caps; lia|].
  rewrite fst_gbind.
  pose proof (rd_cid_g_alloc r1) as [C1 C2].
  destruct (snd (rd_cid_g r1)) as [[c r2]| |] eqn:E1; [|caps; lia..].
  specialize (C2 c r2 eq_refl). cbv beta iota.
  rewrite fst_gbind. cbn [glift fst snd].
  destruct (rd_head r2) as [[[maj2 n] r3]| |] eqn:E2; [|caps; lia..].
  apply rd_head_rest in E2. cbv beta iota.
  destruct (MaxLength <? n) eqn:En; [cbn [gerr gret fst]; caps; lia|].
  destruct (negb (maj2 =? MajArray)); [cbn [gerr gret fst]; caps; lia|].
  rewrite fst_gbind. pose proof (fst_gmake_pos SliceHeader n) as G1.
  rewrite gmake_pos_ok by (caps; lia). cbv beta iota.
  rewrite fst_gbind. pose proof (dec_addrs_alloc (N.to_nat n) r3) as [D1 D2].
  destruct (snd (dec_addrs (N.to_nat n) r3)) as [[addrs r4]| |] eqn:E3; [|caps; lia..].
  specialize (D2 _ _ eq_refl). cbv beta iota.
  rewrite fst_gbind. cbn [glift fst snd].
  destruct (rd_head r4) as [[[maj3 e] r5]| |] eqn:E4; [|caps; lia..].
  apply rd_head_rest in E4. cbv beta iota.
  destruct (ByteArrayMaxLen <? e) eqn:Ee; [cbn [gerr gret fst]; caps; lia|].
  destruct (negb (maj3 =? MajByteString)); [cbn [gerr gret fst]; caps; lia|].
  rewrite fst_gbind. pose proof (fst_gmake_pos 1 e) as G2.
  rewrite gmake_pos_ok by (caps; lia). cbv beta iota.
  rewrite fst_gbind. cbn [glift fst snd].
  destruct (read_full e r5) as [[x r6]| |] eqn:E5; [|caps; lia..].
  apply read_full_ok in E5 as [-> Lx]. rewrite blen_app in E4. cbv beta iota.
  destruct (nf =? 3); [cbn [gerr gret fst]; caps; lia|].
  rewrite fst_gbind.
  pose proof (rd_text_g_alloc MaxLength r6 ltac:(caps; lia)) as [T1 T2].
  destruct (snd (rd_text_g MaxLength r6)) as [[s r7]| |] eqn:E6; [|caps; lia..].
  specialize (T2 _ _ eq_refl). cbn [gret fst]. caps. lia.
Qed.

(* the bound is attained up to the consumed prefix: a 50-byte input makes the decoder
   request the slice-header array and one full-cap byte string *)
Example dec_alloc_hostile :
  dec_alloc (131 :: wr_cid (CidV1 85 18 (nrep 32 7)) ++ wr_head MajArray MaxLength ++ wr_head MajByteString ByteArrayMaxLen)
  = 37 + SliceHeader * MaxLength + ByteArrayMaxLen.
Proof. vm_compute. reflexivity. Qed.

(* ------------------------------------------------------------------ *)
(* 7. the encoder's caps                                                *)

Definition within_caps (m : msg) : bool :=
  match m_cid m with
  | None => false
  | Some c =>
    (byte_len c + 1 <=? CidMaxLen)
    && (N.of_nat (length (sl (m_addrs m))) <=? MaxLength)
    && forallb (fun a => blen (sl a) <=? ByteArrayMaxLen) (sl (m_addrs m))
    && (blen (sl (m_extra m)) <=? ByteArrayMaxLen)
    && (blen (m_orig m) <=? MaxLength)
  end.

Lemma enc_addrs_ok_iff l : is_ok (enc_addrs l) = forallb (fun a => blen (sl a) <=? ByteArrayMaxLen) l.
Proof.
  induction l as [|a l IH]; [reflexivity|]. cbn [enc_addrs forallb]. unfold enc_addr.
  destruct (ByteArrayMaxLen <? blen (sl a)) eqn:E.
  - cbn. replace (blen (sl a) <=? ByteArrayMaxLen) with false by lia. reflexivity.
  - cbn [bind]. replace (blen (sl a) <=? ByteArrayMaxLen) with true by lia. cbn [andb].
    rewrite <- IH. destruct (enc_addrs l); reflexivity.
Qed.

(* the encoder succeeds exactly on the messages within its caps *)
Theorem enc_ok_iff_within_caps m : is_ok (enc m) = within_caps m.
Proof.
  unfold enc, enc_with, within_caps. destruct (m_cid m) as [c|]; [|reflexivity]. cbn [andb].
  destruct (CidMaxLen <? byte_len c + 1) eqn:E1.
  { replace (byte_len c + 1 <=? CidMaxLen) with false by lia. reflexivity. }
  replace (byte_len c + 1 <=? CidMaxLen) with true by lia. cbn [andb].
  destruct (MaxLength <? N.of_nat (length (sl (m_addrs m)))) eqn:E2.
  { replace (N.of_nat (length (sl (m_addrs m))) <=? MaxLength) with false by lia. reflexivity. }
  replace (N.of_nat (length (sl (m_addrs m))) <=? MaxLength) with true by lia. cbn [andb].
  rewrite <- enc_addrs_ok_iff.
  destruct (enc_addrs (sl (m_addrs m))) as [a| |]; cbn [bind is_ok andb]; try reflexivity.
  destruct (ByteArrayMaxLen <? blen (sl (m_extra m))) eqn:E3.
  { replace (blen (sl (m_extra m)) <=? ByteArrayMaxLen) with false by lia. reflexivity. }
  replace (blen (sl (m_extra m)) <=? ByteArrayMaxLen) with true by lia. cbn [andb].
  destruct (m_orig m) as [|o0 o]; [reflexivity|].
  destruct (MaxLength <? blen (o0 :: o)) eqn:E4.
  - replace (blen (o0 :: o) <=? MaxLength) with false by lia. reflexivity.
  - replace (blen (o0 :: o) <=? MaxLength) with true by lia. reflexivity.
Qed.

(* the unrepaired encoder accepts a CID its own decoder refuses *)
Lemma dec_enc_v0_refuted :
  exists m b, wf_msg m = true /\ enc_v0 m = Ok b /\ dec b = Err ETooLarge.
Proof.
  exists (Msg (Some (CidV1 85 0 (nrep 507 0))) None None []).
  eexists. split; [vm_compute; reflexivity|]. split; [vm_compute; reflexivity|].
  vm_compute. reflexivity.
Qed.

(* ... and the repaired one refuses it *)
Example enc_long_cid_refused :
  enc (Msg (Some (CidV1 85 0 (nrep 507 0))) None None []) = Err ETooLarge.
Proof. vm_compute. reflexivity. Qed.

(* ------------------------------------------------------------------ *)
(* 8. three fields or four                                              *)

Definition set_orig (m : msg) (o : bytes) : msg := Msg (m_cid m) (m_addrs m) (m_extra m) o.

Theorem three_vs_four_lemma :
  (* the encoder writes the origin as a fourth field exactly when it is non-empty,
     after the unchanged three-field body *)
  (forall m b, enc m = Ok b ->
     match m_orig m with
     | [] => exists body, b = 131 :: body
     | o => exists body, enc (set_orig m []) = Ok (131 :: body) /\ b = 132 :: body ++ wr_text o
     end)
  (* a three-field input decodes to a message without origin *)
  /\ (forall body m r, dec (131 :: body) = Ok (m, r) -> m_orig m = [])
  (* a four-field input is its three-field reading followed by a text string, which
     may be empty *)
  /\ (forall body m r, dec (132 :: body) = Ok (m, r) ->
        exists r', dec (131 :: body) = Ok (set_orig m [], r') /\ rd_text MaxLength r' = Ok (m_orig m, r)).
Proof.
  split; [|split].
  - intros m b H. unfold enc, enc_with in *. unfold set_orig. cbn [m_cid m_addrs m_extra m_orig].
    destruct (m_cid m) as [c|]; [|discriminate]. cbn [andb] in *.
    destruct (CidMaxLen <? byte_len c + 1); [discriminate|].
    destruct (MaxLength <? N.of_nat (length (sl (m_addrs m)))); [discriminate|].
    destruct (enc_addrs (sl (m_addrs m))) as [a| |]; try discriminate. cbn [bind] in *.
    destruct (ByteArrayMaxLen <? blen (sl (m_extra m))); [discriminate|].
    destruct (m_orig m) as [|o0 o].
    + injection H as <-. eauto.
    + destruct (MaxLength <? blen (o0 :: o)); [discriminate|]. injection H as <-. eauto.
  - intros body m r H. rewrite dec_erase in H. unfold dec_p in H. rewrite rd_head_131 in H. cbn [bind] in H.
    change (negb (4 =? MajArray)) with false in H. change (4 <? 3) with false in H. change (3 <? 3) with false in H.
    cbv iota in H. unfold dec_body in H.
    destruct (rd_cid body) as [[c r2]| |]; cbn [bind] in *; try discriminate.
    destruct (rd_head r2) as [[[maj2 n] r3]| |]; cbn [bind] in *; try discriminate.
    destruct (MaxLength <? n); [discriminate|].
    destruct (negb (maj2 =? MajArray)); [discriminate|].
    destruct (dec_addrs_p (N.to_nat n) r3) as [[addrs r4]| |]; cbn [bind] in *; try discriminate.
    destruct (rd_head r4) as [[[maj3 e] r5]| |]; cbn [bind] in *; try discriminate.
    destruct (ByteArrayMaxLen <? e); [discriminate|].
    destruct (negb (maj3 =? MajByteString)); [discriminate|].
    destruct (read_full e r5) as [[x r6]| |]; cbn [bind] in *; try discriminate.
    change (3 =? 3) with true in H. cbv iota in H. injection H as <- <-. reflexivity.
  - intros body m r H. rewrite !dec_erase in *. unfold dec_p in *. rewrite rd_head_131. rewrite rd_head_132 in H.
    cbn [bind] in *.
    change (negb (4 =? MajArray)) with false in *. change (4 <? 4) with false in H. change (4 <? 3) with false in *.
    change (3 <? 3) with false. cbv iota in *. unfold dec_body in *.
    destruct (rd_cid body) as [[c r2]| |]; cbn [bind] in *; try discriminate.
    destruct (rd_head r2) as [[[maj2 n] r3]| |]; cbn [bind] in *; try discriminate.
    destruct (MaxLength <? n); [discriminate|].
    destruct (negb (maj2 =? MajArray)); [discriminate|].
    destruct (dec_addrs_p (N.to_nat n) r3) as [[addrs r4]| |]; cbn [bind] in *; try discriminate.
    destruct (rd_head r4) as [[[maj3 e] r5]| |]; cbn [bind] in *; try discriminate.
    destruct (ByteArrayMaxLen <? e); [discriminate|].
    destruct (negb (maj3 =? MajByteString)); [discriminate|].
    destruct (read_full e r5) as [[x r6]| |]; cbn [bind] in *; try discriminate.
    change (4 =? 3) with false in H. change (3 =? 3) with true. cbv iota in *.
    destruct (rd_text MaxLength r6) as [[s r7]| |] eqn:E7; cbn [bind] in H; try discriminate.
    injection H as <- <-. exists r6. split; [reflexivity|exact E7].
Qed.

(* an empty fourth field is accepted and means "no origin" *)
Example four_fields_empty_origin :
  let body := wr_cid (CidV1 85 18 (nrep 32 7)) ++ [128; 64] in
  dec (131 :: body) = dec (132 :: body ++ [96]) /\ is_ok (dec (131 :: body)) = true.
Proof. vm_compute. split; reflexivity. Qed.

(* ------------------------------------------------------------------ *)
(* 9. senders                                                           *)

Definition is_known (c : aclass) : bool := match c with AKnown => true | _ => false end.
Definition is_unknown (c : aclass) : bool := match c with AUnknown => true | _ => false end.
Definition is_invalid (c : aclass) : bool := match c with AInvalid => true | _ => false end.

Definition known (l : list (bytes * aclass)) : list bytes :=
  map fst (filter (fun x => is_known (snd x)) l).
Definition no_invalid (l : list (bytes * aclass)) : bool :=
  forallb (fun x => negb (is_invalid (snd x))) l.
Definition drop_unknown (l : list (bytes * aclass)) : list (bytes * aclass) :=
  filter (fun x => negb (is_unknown (snd x))) l.

(* what the property says the receiver must see as addresses *)
Definition expected_addrs (p2p : bytes) (l : list (bytes * aclass)) : list bytes :=
  match l with
  | [] => []
  | _ => match known l with
         | [] => [p2p]                       (* no usable address: the bare publisher ID *)
         | k => map (fun a => a ++ p2p) k
         end
  end.

Lemma get_addrs_spec l :
  get_addrs l = if no_invalid l then Ok (known l) else Err EAddr.
Proof.
  induction l as [|[a c] l IH]; [reflexivity|]. cbn [get_addrs]. unfold no_invalid, known in *.
  cbn [forallb filter snd map fst]. destruct c; cbn [is_invalid is_known negb andb].
  - rewrite IH. destruct (forallb _ l); reflexivity.
  - exact IH.
  - reflexivity.
Qed.

Lemma get_addrs_drop_unknown l : get_addrs l = get_addrs (drop_unknown l).
Proof.
  induction l as [|[a c] l IH]; [reflexivity|]. unfold drop_unknown in *. cbn [filter snd].
  destruct c; cbn [is_unknown negb get_addrs]; [rewrite IH; reflexivity|exact IH|reflexivity].
Qed.

Lemma add_id_spec p2p l : no_invalid l = true -> add_id p2p l = Ok (expected_addrs p2p l).
Proof.
  intro H. unfold add_id, expected_addrs. destruct l as [|x l]; [reflexivity|].
  rewrite get_addrs_spec, H. cbn [bind]. destruct (known (x :: l)); reflexivity.
Qed.

Lemma add_id_invalid p2p l : no_invalid l = false -> add_id p2p l = Err EAddr.
Proof.
  intro H. unfold add_id. destruct l as [|x l]; [discriminate|].
  rewrite get_addrs_spec, H. reflexivity.
Qed.

Definition cmsg_wf (m : cmsg) : bool :=
  match c_cid m with Some c => cid_wf c | None => true end.

Lemma mk_sl_map_some (l : list bytes) :
  forallb (fun a => negb (blen a =? 0)) l = true ->
  map norm_b (map Some l) = map Some l.
Proof.
  induction l as [|a l IH]; [reflexivity|]. cbn [forallb map]. intro H.
  apply andb_prop in H as [H1 H2]. rewrite IH by exact H2. f_equal.
  destruct a; [cbn in H1; discriminate|reflexivity].
Qed.

Lemma expected_nonempty p2p l :
  p2p <> [] -> forallb (fun a => negb (blen a =? 0)) (expected_addrs p2p l) = true.
Proof.
  intro Hp. unfold expected_addrs. destruct l as [|x l]; [reflexivity|].
  assert (P : negb (blen p2p =? 0) = true).
  { destruct p2p; [congruence|reflexivity]. }
  destruct (known (x :: l)) as [|k ks]; [cbn [forallb]; rewrite P; reflexivity|].
  generalize (k :: ks). intro ll. induction ll as [|a ll IH]; [reflexivity|].
  cbn [map forallb]. rewrite IH, andb_true_r.
  destruct a; [exact P|reflexivity].
Qed.

(* what the receiver decodes from what httpsender.Send posts *)
Theorem sender_wire_lemma cfg m body :
  cmsg_wf m = true -> s_p2p cfg <> [] ->
  http_wire cfg m = Ok body ->
  no_invalid (c_addrs m) = true /\
  dec body = Ok (Msg (c_cid m)
                     (mk_sl (map Some (expected_addrs (s_p2p cfg) (c_addrs m))))
                     (norm_b (override_extra cfg (c_extra m)))
                     (c_orig m), []).
Proof.
  intros W Hp H. unfold http_wire in H.
  destruct (no_invalid (c_addrs m)) eqn:Ni; [|rewrite add_id_invalid in H by exact Ni; discriminate].
  split; [reflexivity|].
  rewrite add_id_spec in H by exact Ni. cbn [bind] in H.
  rewrite <- (app_nil_r body).
  erewrite dec_enc_gen; [| |exact H]; [|exact W].
  unfold norm. cbn [m_cid m_addrs m_extra m_orig sl].
  rewrite mk_sl_map_some by (apply expected_nonempty; exact Hp). reflexivity.
Qed.


Theorem unknown_protocol_skipped_lemma :
  (* GetAddrs does not see addresses with unknown protocol codes at all *)
  (forall l, get_addrs l = get_addrs (drop_unknown l))
  (* it fails only on an address that is invalid for another reason *)
  /\ (forall l, get_addrs l = if no_invalid l then Ok (known l) else Err EAddr)
  (* so the sender posts each known address, in order, with the publisher ID appended *)
  /\ (forall p2p l, no_invalid l = true -> known l <> [] ->
        add_id p2p l = Ok (map (fun a => a ++ p2p) (known l)))
  /\ (forall cfg m, no_invalid (c_addrs m) = true ->
        http_wire cfg m =
        enc (Msg (c_cid m) (Some (map Some (expected_addrs (s_p2p cfg) (c_addrs m))))
                 (override_extra cfg (c_extra m)) (c_orig m))).
Proof.
  split; [exact get_addrs_drop_unknown|]. split; [exact get_addrs_spec|]. split.
  - intros p2p l Ni K. rewrite add_id_spec by exact Ni. unfold expected_addrs.
    destruct l as [|x l]; [exfalso; apply K; reflexivity|].
    destruct (known (x :: l)); [exfalso; apply K; reflexivity|reflexivity].
  - intros cfg m Ni. unfold http_wire. rewrite add_id_spec by exact Ni. reflexivity.
Qed.

(* what a pubsub receiver decodes from what p2psender.Send publishes *)
Theorem p2p_wire_lemma cfg m data :
  cid_ok m = true -> p2p_wire cfg m = Ok data ->
  dec data = Ok (norm (Msg (m_cid m) (m_addrs m) (override_extra cfg (m_extra m)) (m_orig m)), []).
Proof.
  intros W H. unfold p2p_wire in H. rewrite <- (app_nil_r data).
  eapply dec_enc_gen; [|exact H]. exact W.
Qed.

(* announce.Send over the HTTP sender: every given address with the publisher ID *)
Lemma known_all_known addrs : known (map (fun a => (a, AKnown)) addrs) = addrs.
Proof. induction addrs as [|a l IH]; [reflexivity|]. unfold known in *. cbn. rewrite IH. reflexivity. Qed.

Lemma no_invalid_all_known addrs : no_invalid (map (fun a => (a, AKnown)) addrs) = true.
Proof. induction addrs as [|a l IH]; [reflexivity|]. unfold no_invalid in *. cbn. exact IH. Qed.

Theorem announce_send_wire_lemma cfg c addrs :
  announce_send cfg None addrs = None /\
  (forall body, cid_wf c = true -> s_p2p cfg <> [] ->
     announce_send cfg (Some c) addrs = Some (Ok body) ->
     dec body = Ok (Msg (Some c) (mk_sl (map (fun a => Some (a ++ s_p2p cfg)) addrs))
                        (norm_b (override_extra cfg None)) [], [])).
Proof.
  split; [reflexivity|]. intros body W Hp H. unfold announce_send in H. injection H as H.
  apply sender_wire_lemma in H as [_ H]; [|exact W|exact Hp].
  rewrite H. cbn [c_cid c_addrs c_extra c_orig]. f_equal. f_equal. f_equal. f_equal.
  unfold expected_addrs. rewrite known_all_known.
  destruct addrs as [|a l]; [reflexivity|]. cbn [map]. rewrite map_map. reflexivity.
Qed.

(* ------------------------------------------------------------------ *)
(* 10. the hypotheses are met by ordinary messages                      *)

From Coq Require Import String.
Local Open Scope string_scope.

Definition ex_msg : msg :=
  Msg (Some (CidV0 (nrep 32 171)))
      (Some [Some (unhex "047f000001060a8d"); None; Some []]%list)
      (Some (unhex "743031303030"))
      (unhex "313244334b6f6f57").

Example ex_msg_wf : wf_msg ex_msg = true /\ within_caps ex_msg = true.
Proof. vm_compute. split; reflexivity. Qed.

Example ex_msg_roundtrip :
  exists b, enc ex_msg = Ok b /\ dec b = Ok (norm ex_msg, []%list) /\ norm ex_msg <> ex_msg.
Proof. eexists. split; [vm_compute; reflexivity|]. split; [vm_compute; reflexivity|]. vm_compute. discriminate. Qed.

Definition ex_cmsg : cmsg :=
  CMsg (Some (CidV1 85 18 (nrep 32 7)))
       [(unhex "047f000001060a8d", AKnown); (unhex "8f4e0102", AUnknown); (unhex "0401020304060050", AKnown)]%list
       None []%list.
Definition ex_cfg : scfg := SCfg (unhex "a503022a2a") (unhex "aabb").

Example ex_http_wire :
  exists body m, http_wire ex_cfg ex_cmsg = Ok body /\ dec body = Ok (m, []%list)
    /\ m_addrs m = Some [Some (unhex "047f000001060a8da503022a2a"); Some (unhex "0401020304060050a503022a2a")]%list
    /\ m_extra m = Some (unhex "aabb").
Proof. eexists. eexists. split; [vm_compute; reflexivity|]. split; [vm_compute; reflexivity|]. split; reflexivity. Qed.

(* an invalid address does fail the message; an unknown one never does *)
Example ex_invalid_fails :
  http_wire ex_cfg (CMsg (c_cid ex_cmsg) [(unhex "0401", AInvalid)]%list None []%list) = Err EAddr.
Proof. reflexivity. Qed.
