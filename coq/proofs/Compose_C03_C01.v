(* C03 composed with C01: the head query decided by C03's [get_head], the chain sync that
   follows owned by C01's [sync_ad_chain].  Proofs; statements are repeated in
   props/Properties_C03.v. *)
From Coq Require Import List Bool NArith ZArith Lia.
From Lib Require Import Bytes Cid SymCrypto.
From Model Require Import Compose_C03_C01.
From Proofs Require C01_ChainSync C03_SignedHead.
Import ListNotations.

Module P1 := Proofs.C01_ChainSync.
Module P3 := Proofs.C03_SignedHead.

(* every block of a segment is a block of the chain *)
Lemma segment_In ch head stop lim x : In x (C1.segment ch head stop lim) -> In x ch.
Proof.
  intro H. unfold C1.segment in H. apply P1.cut_In in H. apply P1.take_until_In in H.
  destruct (P1.from_suffix head ch) as [pre E]. rewrite E. apply in_or_app. right. exact H.
Qed.

(* a publisher that serves its whole chain serves every segment, whatever the store holds *)
Lemma avail_full pub store ch head stop lim :
  (forall x, In x ch -> C1.memb x pub = true) ->
  C1.avail pub store (C1.segment ch head stop lim) = true.
Proof.
  intro H. unfold C1.avail. apply forallb_forall. intros x Hx.
  rewrite (H x (segment_In _ _ _ _ _ Hx)). apply orb_true_r.
Qed.

(* C01's SyncAdChain moves latest-sync only to a QUERIED head *)
Lemma c01_latest_cases w cfg a st :
  C1.s_latest (C1.r_state (C1.sync_ad_chain w cfg a st)) = C1.s_latest st \/
  exists h, C1.the_head a = Some (h, true) /\
            C1.s_latest (C1.r_state (C1.sync_ad_chain w cfg a st)) = Some h.
Proof.
  unfold C1.sync_ad_chain, C1.the_head.
  destruct (C1.a_head a) as [h|].
  - destruct (C1.is_stop _ h); cbn; auto.
    destruct (C1.h_err _); cbn; auto.
  - destruct (C1.a_pubhead a) as [h|]; cbn; auto.
    destruct (C1.is_stop _ h); cbn; auto.
    destruct (C1.h_err _); cbn; auto. right. exists h. auto.
Qed.

(* C01's SyncAdChain with a queried head: the early return when the head is the stop point,
   else success (latest-sync := head) or failure (latest-sync unchanged) *)
Lemma c01_query_cases w cfg a st h :
  C1.a_head a = None -> C1.a_pubhead a = Some h ->
  let o := C1.sync_ad_chain w cfg a st in
  (C1.is_stop (C1.go_stop cfg st a) h = true -> o = C1.CO (C1.ROk h) [] [] None st) /\
  (C1.is_stop (C1.go_stop cfg st a) h = false ->
     (C1.r_ret o = C1.ROk h /\ C1.s_latest (C1.r_state o) = Some h) \/
     (C1.r_ret o = C1.RErr /\ C1.s_latest (C1.r_state o) = C1.s_latest st)).
Proof.
  intros H1 H2. unfold C1.sync_ad_chain. rewrite H1, H2. split; intro S; rewrite S; [reflexivity|].
  destruct (C1.h_err _); cbn; auto.
Qed.

Section Proofs.
  Variables privkey pubkey sigt peerid : Type.
  Variable pub : privkey -> pubkey.
  Variable sign : privkey -> bytes -> sigt.
  Variable verify : pubkey -> bytes -> sigt -> bool.
  Variable peer_id : pubkey -> peerid.
  Variable peerid_eqb : peerid -> peerid -> bool.
  Variable num : Cid.cid -> C1.cid.

  Hypothesis VS : VerifySign pub sign verify.
  Hypothesis VU : VerifyUnique pub sign verify.
  Hypothesis EQB : forall a b, peerid_eqb a b = true <-> a = b.

  Notation get_head := (C3.get_head verify peer_id peerid_eqb).
  Notation signed_sync := (signed_sync verify peer_id peerid_eqb num).
  Notation run_signed := (run_signed verify peer_id peerid_eqb num).
  Notation verified := (verified verify peer_id peerid_eqb).
  Notation head := (C3.signed_head pubkey sigt).

  (* ---- one call ---- *)

  Lemma signed_sync_accepted w cfg opts (ai : C3.addr_info peerid) (resp : option head) st id r :
    C3.remove_id ai = Ok id -> get_head (Some id) resp = Ok r ->
    signed_sync w cfg opts ai resp st = C1.sync_ad_chain w cfg (query_call opts (Some (num r))) st.
  Proof. intros R G. unfold Compose_C03_C01.signed_sync. rewrite R, G. reflexivity. Qed.

  Lemma signed_sync_rejected w cfg opts (ai : C3.addr_info peerid) (resp : option head) st :
    (forall id, C3.remove_id ai = Ok id -> is_ok (get_head (Some id) resp) = false) ->
    signed_sync w cfg opts ai resp st = rejected st.
  Proof.
    intro H. unfold Compose_C03_C01.signed_sync. destruct (C3.remove_id ai) as [id| |]; auto.
    specialize (H id eq_refl). destruct (get_head (Some id) resp); [discriminate|reflexivity|reflexivity].
  Qed.

  Theorem signed_head_sync_meets_c01_spec_proved :
    forall extra ch pubs cfg opts (ai : C3.addr_info peerid) (resp : option head) st id,
      C1.chain_wf C1.EPrev extra ch = true -> C1.c_strict cfg = true ->
      C1.resolve_hook cfg (C1.a_hook opts) = C1.HNominate ->
      C3.remove_id ai = Ok id ->
      let w := C1.chain_world C1.EPrev extra ch pubs in
      (* the response carries a head for r signed, by the key embedded in it, over exactly
         payload(r, topic), and that key is the key of the publisher asked for: the call IS
         C01's SyncAdChain with queried head r *)
      (forall r sh k,
         resp = Some sh -> C3.sh_cid sh = r -> C3.sh_key sh = C3.KKey (pub k) ->
         C3.sh_sig sh = C3.SBytes (sign k (C3.payload r (C3.sh_topic sh))) -> peer_id (pub k) = id ->
         In (num r) ch ->
         let stop := C1.stop_table (C1.eff_latest cfg st) (C1.a_stop opts) (C1.a_resync opts) in
         let lim := C1.depth_table (C1.c_ads_depth cfg) (C1.c_first_depth cfg) (C1.a_depth opts) stop in
         let seg := C1.segment ch (num r) stop lim in
         C1.avail pubs (C1.s_store st) seg = true ->
         signed_sync w cfg opts ai resp st =
         let moved := negb (C1.is_stop stop (num r)) in
         C1.CO (C1.ROk (num r)) seg (C1.missing (C1.s_store st) seg)
               (if moved then Some (num r, length seg) else None)
               (C1.ST (if moved then Some (num r) else C1.s_latest st)
                      (rev (C1.missing (C1.s_store st) seg) ++ C1.s_store st))) /\
      (* any other response: error, no hook call, no block request, no event, latest-sync and
         store as they were *)
      (is_ok (get_head (Some id) resp) = false ->
       signed_sync w cfg opts ai resp st = C1.CO C1.RErr [] [] None st) /\
      (* and these are the only two cases *)
      (is_ok (get_head (Some id) resp) = true <->
       exists r sh k, resp = Some sh /\ C3.sh_cid sh = r /\ C3.sh_key sh = C3.KKey (pub k) /\
                      C3.sh_sig sh = C3.SBytes (sign k (C3.payload r (C3.sh_topic sh))) /\ peer_id (pub k) = id).
  Proof.
    intros extra ch pubs cfg opts ai resp st id Hwf Hs Hh R w. split; [|split].
    - intros r sh k E1 E2 E3 E4 E5 Hin stop lim seg Hav.
      assert (G : get_head (Some id) resp = Ok r).
      { apply (P3.head_accept_iff_proved _ _ _ _ pub sign verify peer_id peerid_eqb VS VU EQB).
        exists sh, k. auto. }
      rewrite (signed_sync_accepted w cfg opts ai resp st id r R G).
      unfold w.
      rewrite (P1.sync_ad_chain_spec extra ch pubs cfg (query_call opts (Some (num r))) st (num r) true
                 Hwf Hs Hh eq_refl Hin Hav).
      reflexivity.
    - intro Hrej. apply signed_sync_rejected. intros id' R'. rewrite R in R'. inversion R'; subst. exact Hrej.
    - split.
      + intro H. destruct (get_head (Some id) resp) as [r| |] eqn:G; try discriminate.
        apply (P3.head_accept_iff_proved _ _ _ _ pub sign verify peer_id peerid_eqb VS VU EQB) in G
          as (sh & k & A & B & C & D & E).
        exists r, sh, k. auto.
      + intros (r & sh & k & A & B & C & D & E).
        assert (G : get_head (Some id) resp = Ok r).
        { apply (P3.head_accept_iff_proved _ _ _ _ pub sign verify peer_id peerid_eqb VS VU EQB).
          exists sh, k. auto. }
        rewrite G. reflexivity.
  Qed.

  (* no peer ID at all: the same failure, and not even a head request *)
  Lemma signed_sync_no_peer_id w cfg opts (ai : C3.addr_info peerid) (resp : option head) st :
    is_ok (C3.remove_id ai) = false ->
    signed_sync w cfg opts ai resp st = rejected st /\ head_requests ai = 0%N.
  Proof.
    intro H. unfold Compose_C03_C01.signed_sync, head_requests. rewrite H.
    destruct (C3.remove_id ai); [discriminate|auto|auto].
  Qed.

  (* ---- histories ---- *)

  Lemma step_latest w cfg opts (ai : C3.addr_info peerid) (resp : option head) st :
    C1.s_latest (C1.r_state (signed_sync w cfg opts ai resp st)) = C1.s_latest st \/
    exists r, verified (ai, resp, opts) r /\
              C1.s_latest (C1.r_state (signed_sync w cfg opts ai resp st)) = Some (num r).
  Proof.
    unfold Compose_C03_C01.signed_sync. destruct (C3.remove_id ai) as [id| |] eqn:R; cbn; auto.
    destruct (get_head (Some id) resp) as [r| |] eqn:G; cbn; auto.
    destruct (c01_latest_cases w cfg (query_call opts (Some (num r))) st) as [E|(h & T & E)]; auto.
    right. exists r. split; [exists id; auto|].
    unfold C1.the_head, query_call in T. cbn in T. inversion T; subst. exact E.
  Qed.

  Lemma run_signed_cons w cfg ai resp opts l st :
    run_signed w cfg ((ai, resp, opts) :: l) st =
    (((ai, resp, opts), signed_sync w cfg opts ai resp st) ::
       fst (run_signed w cfg l (C1.r_state (signed_sync w cfg opts ai resp st))),
     snd (run_signed w cfg l (C1.r_state (signed_sync w cfg opts ai resp st)))).
  Proof.
    cbn [Compose_C03_C01.run_signed].
    destruct (run_signed w cfg l (C1.r_state (signed_sync w cfg opts ai resp st))). reflexivity.
  Qed.

  (* over ANY history: latest-sync is its initial value or the CID of a head that verified
     under the key of the publisher asked for (no premise about worlds or configurations) *)
  Theorem latest_only_verified_heads_proved w cfg :
    forall l st,
      C1.s_latest (snd (run_signed w cfg l st)) = C1.s_latest st \/
      exists c r, In c l /\ verified c r /\ C1.s_latest (snd (run_signed w cfg l st)) = Some (num r).
  Proof.
    induction l as [|[[ai resp] opts] l IH]; intro st; [left; reflexivity|].
    rewrite run_signed_cons. cbn [snd].
    destruct (IH (C1.r_state (signed_sync w cfg opts ai resp st))) as [E|(c & r & I & V & E)].
    - rewrite E. destruct (step_latest w cfg opts ai resp st) as [S|(r & V & S)]; [auto|].
      right. exists (ai, resp, opts), r. cbn. auto.
    - right. exists c, r. cbn. auto.
  Qed.

  (* ... and on a chain the publisher serves, every call of the history either was rejected
     (no hook call, no request, no event) or reports exactly a segment of the chain rooted at a
     head that verified, each block once, newest first *)
  Theorem hook_logs_only_verified_segments_proved extra ch pubs cfg :
    C1.chain_wf C1.EPrev extra ch = true -> C1.c_strict cfg = true ->
    (forall x, In x ch -> C1.memb x pubs = true) ->
    let w := C1.chain_world C1.EPrev extra ch pubs in
    forall l st,
      (forall c, In c l -> C1.resolve_hook cfg (C1.a_hook (snd c)) = C1.HNominate) ->
      (forall c r, In c l -> verified c r -> In (num r) ch) ->
      forall c o, In (c, o) (fst (run_signed w cfg l st)) ->
        (o = rejected (C1.r_state o) /\ forall r, ~ verified c r) \/
        (exists r stop lim, verified c r /\ C1.r_ret o = C1.ROk (num r) /\
           C1.r_hooks o = C1.segment ch (num r) stop lim /\ NoDup (C1.r_hooks o) /\
           (exists post, C1.from (num r) ch = C1.r_hooks o ++ post) /\
           (forall x, In x (C1.r_reqs o) -> In x (C1.r_hooks o))).
  Proof.
    intros Hwf Hs Hpub w. induction l as [|[[ai resp] opts] l IH]; intros st Hh Hch c o Hin; [contradiction|].
    rewrite run_signed_cons in Hin. cbn [fst] in Hin. destruct Hin as [E|Hin].
    - inversion E; subst c o; clear E.
      unfold Compose_C03_C01.signed_sync.
      destruct (C3.remove_id ai) as [id| |] eqn:R.
      + destruct (get_head (Some id) resp) as [r| |] eqn:G.
        * right.
          assert (V : verified (ai, resp, opts) r) by (exists id; auto).
          assert (Hr : In (num r) ch) by (apply (Hch (ai, resp, opts) r); [left; reflexivity|exact V]).
          assert (Hk : C1.resolve_hook cfg (C1.a_hook (query_call opts (Some (num r)))) = C1.HNominate)
            by (apply (Hh (ai, resp, opts)); left; reflexivity).
          set (a := query_call opts (Some (num r))).
          set (stop := C1.stop_table (C1.eff_latest cfg st) (C1.a_stop a) (C1.a_resync a)).
          set (lim := C1.depth_table (C1.c_ads_depth cfg) (C1.c_first_depth cfg) (C1.a_depth a) stop).
          assert (Hav : C1.avail pubs (C1.s_store st) (C1.segment ch (num r) stop lim) = true)
            by (apply avail_full; exact Hpub).
          destruct (P1.cor_reported extra ch pubs cfg a (num r) true Hwf Hs Hk eq_refl Hr st Hav)
            as (A & B & C & D & _).
          destruct (P1.cor_requests extra ch pubs cfg a (num r) true Hwf Hs Hk eq_refl Hr st Hav)
            as (_ & Q & _).
          exists r, stop, lim. split; [exact V|]. split; [exact A|]. split; [exact B|].
          split; [exact C|]. split; [exact D|]. intros x Hx. apply Q in Hx. tauto.
        * left. split; [reflexivity|]. intros r (id' & R' & G'). rewrite R in R'. inversion R'; subst. congruence.
        * left. split; [reflexivity|]. intros r (id' & R' & G'). rewrite R in R'. inversion R'; subst. congruence.
      + left. split; [reflexivity|]. intros r (id' & R' & _). congruence.
      + left. split; [reflexivity|]. intros r (id' & R' & _). congruence.
    - apply (IH (C1.r_state (signed_sync w cfg opts ai resp st))); auto.
      + intros c' I. apply Hh. right. exact I.
      + intros c' r I. apply Hch. right. exact I.
  Qed.

  (* what "verified" means: signed, by the key embedded in the response, over exactly the CID
     and topic, and that key is the key of the publisher the call asks for *)
  Theorem verified_iff_proved (ai : C3.addr_info peerid) (resp : option head) opts r :
    verified (ai, resp, opts) r <->
    exists id sh k, C3.remove_id ai = Ok id /\ resp = Some sh /\ C3.sh_cid sh = r /\
                    C3.sh_key sh = C3.KKey (pub k) /\
                    C3.sh_sig sh = C3.SBytes (sign k (C3.payload r (C3.sh_topic sh))) /\ peer_id (pub k) = id.
  Proof.
    unfold Compose_C03_C01.verified. split.
    - intros (id & R & G).
      apply (P3.head_accept_iff_proved _ _ _ _ pub sign verify peer_id peerid_eqb VS VU EQB) in G
        as (sh & k & A & B & C & D & E).
      exists id, sh, k. auto 10.
    - intros (id & sh & k & R & A & B & C & D & E). exists id. split; [exact R|].
      apply (P3.head_accept_iff_proved _ _ _ _ pub sign verify peer_id peerid_eqb VS VU EQB).
      exists sh, k. auto.
  Qed.

  (* ---- C03's own model is the projection of the composed one ---- *)

  Hypothesis num_inj : forall a b, num a = num b -> a = b.

  Lemma stop_rel cfg (st3 : C3.sub_state) st1 c :
    latest_rel num cfg st3 st1 ->
    option_eqb C3.cid_eqb (C3.st_latest st3) (Some c) = C1.is_stop (C1.eff_latest cfg st1) (num c).
  Proof.
    unfold latest_rel. intro R. rewrite <- R. destruct (C3.st_latest st3) as [l|]; cbn; [|reflexivity].
    destruct (C3.cid_eqb l c) eqn:E.
    - apply P3.cid_eqb_eq in E. subst. symmetry. apply N.eqb_refl.
    - symmetry. apply N.eqb_neq. intro H. apply num_inj in H. subst.
      assert (C3.cid_eqb c c = true) by (apply P3.cid_eqb_eq; reflexivity). congruence.
  Qed.

  Lemma blocks_of_app a b : C3.blocks_of (a ++ b) = C3.blocks_of a ++ C3.blocks_of b.
  Proof. induction a as [|[|x] a IH]; cbn; auto. rewrite IH. reflexivity. Qed.
  Lemma blocks_of_map l : C3.blocks_of (map C3.RqBlock l) = l.
  Proof. induction l; cbn; congruence. Qed.
  Lemma count_heads_app a b : C3.count_heads (a ++ b) = (C3.count_heads a + C3.count_heads b)%N.
  Proof. induction a as [|[|x] a IH]; cbn [app C3.count_heads]; auto; rewrite IH; lia. Qed.
  Lemma count_heads_map l : C3.count_heads (map C3.RqBlock l) = 0%N.
  Proof. induction l; cbn; auto. Qed.

  Lemma get_head_not_panic e (resp : option head) code : get_head e resp <> Panic code.
  Proof.
    unfold C3.get_head, C3.validate_head. destruct resp as [sh|]; [|discriminate].
    destruct (C3.sh_sig sh); [discriminate|]. destruct (C3.sh_key sh); try discriminate.
    destruct (verify _ _ _); [|discriminate]. cbn. destruct e; [|discriminate].
    destruct (peerid_eqb _ _); discriminate.
  Qed.
  Lemma remove_id_not_panic (ai : C3.addr_info peerid) code : C3.remove_id ai <> Panic code.
  Proof. unfold C3.remove_id. destruct (C3.ai_id ai); [discriminate|]. destruct (C3.first_some _); discriminate. Qed.

  (* One plain SyncAdChain call (no per-call option).  C03's state {st_latest; st_reqs} and
     C01's state {s_latest; s_store} are related by [latest_rel] (GetLatestSync, through the
     numbering); C03's abstract [chain_sync] must be C01's sync seen through the numbering (its
     block list numbers to C01's request log, its success flag is C01's return).  Then C03's
     model yields the same verdict, the related latest-sync, one head request iff a peer ID
     resolves, and block requests that number to C01's request log. *)
  Theorem c03_model_is_projection_proved :
    forall w cfg (ai : C3.addr_info peerid) (resp : option head) (st3 : C3.sub_state) (st1 : C1.substate)
           (chain_sync : Cid.cid -> option Cid.cid -> list Cid.cid * bool),
      latest_rel num cfg st3 st1 ->
      (forall id c, C3.remove_id ai = Ok id -> get_head (Some id) resp = Ok c ->
         C1.is_stop (C1.eff_latest cfg st1) (num c) = false ->
         let o1 := C1.sync_ad_chain w cfg (query_call plain_opts (Some (num c))) st1 in
         map num (fst (chain_sync c (C3.st_latest st3))) = C1.r_reqs o1 /\
         snd (chain_sync c (C3.st_latest st3)) = ret_is_ok (C1.r_ret o1)) ->
      let o := signed_sync w cfg plain_opts ai resp st1 in
      let r3 := fst (C3.sync_ad_chain verify peer_id peerid_eqb chain_sync ai resp st3) in
      let st3' := snd (C3.sync_ad_chain verify peer_id peerid_eqb chain_sync ai resp st3) in
      ret_rel num r3 (C1.r_ret o) /\
      latest_rel num cfg st3' (C1.r_state o) /\
      map num (C3.blocks_of (C3.st_reqs st3')) = map num (C3.blocks_of (C3.st_reqs st3)) ++ C1.r_reqs o /\
      C3.count_heads (C3.st_reqs st3') = (C3.count_heads (C3.st_reqs st3) + head_requests ai)%N.
  Proof.
    intros w cfg ai resp st3 st1 chain_sync R CS o r3 st3'.
    unfold o, r3, st3', Compose_C03_C01.signed_sync, C3.sync_ad_chain, head_requests.
    destruct (C3.remove_id ai) as [id| |] eqn:Rm; cbn [is_ok].
    - destruct (get_head (Some id) resp) as [c| |] eqn:G.
      + rewrite (stop_rel cfg st3 st1 c R).
        specialize (CS id c eq_refl G).
        set (a := query_call plain_opts (Some (num c))) in *.
        destruct (c01_query_cases w cfg a st1 (num c) eq_refl eq_refl) as [Cstop Cgo].
        change (C1.go_stop cfg st1 a) with (C1.eff_latest cfg st1) in Cstop, Cgo.
        destruct (C1.is_stop (C1.eff_latest cfg st1) (num c)) eqn:S.
        * rewrite (Cstop eq_refl). cbn. repeat split; auto.
          -- rewrite blocks_of_app. cbn. rewrite !app_nil_r. reflexivity.
          -- rewrite count_heads_app. reflexivity.
        * specialize (CS eq_refl). cbv zeta in CS. destruct CS as [CS1 CS2].
          destruct (chain_sync c (C3.st_latest st3)) as [bl ok]. cbn [fst snd] in CS1, CS2.
          cbv zeta in Cgo. remember (C1.sync_ad_chain w cfg a st1) as o1 eqn:Ho1. clear Ho1 Cstop.
          destruct (Cgo eq_refl) as [[Er El]|[Er El]]; rewrite Er in CS2; cbn in CS2; subst ok; cbn [fst snd].
          -- split; [rewrite Er; reflexivity|]. split.
             ++ unfold latest_rel, C1.eff_latest. cbn [C3.st_latest option_map]. rewrite El. reflexivity.
             ++ cbn. split.
                ** rewrite !blocks_of_app, blocks_of_map. cbn. rewrite !map_app, CS1. cbn [map]. rewrite app_nil_r. reflexivity.
                ** rewrite !count_heads_app, count_heads_map. cbn. lia.
          -- split; [rewrite Er; exact I|]. split.
             ++ unfold latest_rel, C1.eff_latest in *. cbn [C3.st_latest]. rewrite El. exact R.
             ++ cbn. split.
                ** rewrite !blocks_of_app, blocks_of_map. cbn. rewrite !map_app, CS1. cbn [map]. rewrite app_nil_r. reflexivity.
                ** rewrite !count_heads_app, count_heads_map. cbn. lia.
      + cbn. repeat split; auto;
          try (rewrite blocks_of_app; cbn; rewrite ?app_nil_r; reflexivity);
          try (rewrite count_heads_app; reflexivity).
      + exfalso. eapply get_head_not_panic. exact G.
    - cbn. repeat split; auto; [rewrite app_nil_r; reflexivity|lia].
    - exfalso. eapply remove_id_not_panic. exact Rm.
  Qed.
End Proofs.
