(* C02 -- proofs about Model.C02_FetchVerify. *)
From Lib Require Import Bytes.
From Model Require Import C01_ChainSync C02_FetchVerify.
From Coq Require Import Lia.
Open Scope N_scope.

Lemma nth_error_Some_lt {A} (l : list A) i x : nth_error l i = Some x -> (i < length l)%nat.
Proof. intro H. apply nth_error_Some. rewrite H. discriminate. Qed.

Section Fetch.
Variable body : Type.
Variable hashes_to : body -> cid -> bool.
Variable links_of : body -> option (list edge).
Variable verifiable : cid -> bool.

Notation bstore := (bstore body).
Notation bget := (bget body).
Notation local_ok := (local_ok body hashes_to links_of).
Notation fetch_block := (fetch_block body hashes_to links_of).
Notation fwalk := (fwalk body hashes_to links_of verifiable).
Notation sound := (sound body hashes_to).
Notation bad_answer := (bad_answer body hashes_to).
Notation responder := (responder body).

(* block c is stored with bytes that hash to c *)
Definition held (s : bstore) (c : cid) : bool :=
  match bget s c with Some b => hashes_to b c | None => false end.

(* s' keeps what s had: soundness of the whole store, and every soundly held block *)
Definition ext (s s' : bstore) : Prop :=
  (sound s = true -> sound s' = true) /\ (forall x, held s x = true -> held s' x = true).

Lemma ext_refl s : ext s s.
Proof. split; auto. Qed.

Lemma ext_trans a b c : ext a b -> ext b c -> ext a c.
Proof. intros [H1 H2] [H3 H4]. split; auto. Qed.

Lemma ext_commit s c b : hashes_to b c = true -> ext s ((c, b) :: s) /\ held ((c, b) :: s) c = true.
Proof.
  intro H. split; [split|].
  - intro Hs. cbn. unfold sound_entry. cbn. rewrite H. exact Hs.
  - intros x Hx. unfold held in *. cbn. destruct (c =? x) eqn:E; [apply N.eqb_eq in E; subst; exact H|exact Hx].
  - unfold held. cbn. rewrite N.eqb_refl. exact H.
Qed.

Lemma local_ok_held s c b : local_ok s c = Some b -> held s c = true /\ bget s c = Some b.
Proof.
  unfold local_ok, held. destruct (bget s c) as [b0|]; [|discriminate].
  destruct (hashes_to b0 c) eqn:H; cbn; [|discriminate].
  destruct (is_some (links_of b0)); [|discriminate]. intro X. inversion X; subst. auto.
Qed.

(* ---- fetchBlock ---- *)

Lemma fetch_block_sound resp reqs c s :
  let '(reqs1, s1, ob) := fetch_block resp reqs c s in
  ext s s1 /\ (forall b, ob = Some b -> held s1 c = true).
Proof.
  unfold C02_FetchVerify.fetch_block. destruct (local_ok s c) as [b|] eqn:L.
  - split; [apply ext_refl|]. intros b0 _. apply (local_ok_held s c b L).
  - destruct (resp (length reqs)) as [b|].
    + destruct (hashes_to b c) eqn:H.
      * destruct (ext_commit s c b H) as [E Hh]. split; [exact E|auto].
      * split; [apply ext_refl|discriminate].
    + split; [apply ext_refl|discriminate].
Qed.

(* a bad answer: the fetch fails, the request is logged, NOTHING is committed *)
Lemma fetch_block_bad resp reqs c s :
  local_ok s c = None -> bad_answer (resp (length reqs)) c = true ->
  fetch_block resp reqs c s = (reqs ++ [c], s, None).
Proof.
  intros L B. unfold C02_FetchVerify.fetch_block. rewrite L. unfold C02_FetchVerify.bad_answer in B.
  destruct (resp (length reqs)) as [b|]; [|reflexivity].
  apply negb_true_iff in B. rewrite B. reflexivity.
Qed.

(* whether a fetched body is accepted is decided by the body and the REQUESTED CID alone --
   by nothing that was fetched, stored or requested before *)
Lemma fetch_block_decides resp reqs c s b :
  local_ok s c = None -> resp (length reqs) = Some b ->
  fetch_block resp reqs c s =
  (reqs ++ [c], (if hashes_to b c then (c, b) :: s else s), (if hashes_to b c then Some b else None)).
Proof.
  intros L R. unfold C02_FetchVerify.fetch_block. rewrite L, R. destruct (hashes_to b c); reflexivity.
Qed.

Theorem digest_check_history_independent_proved :
  forall resp1 resp2 reqs1 reqs2 s1 s2 c b,
    local_ok s1 c = None -> local_ok s2 c = None ->
    resp1 (length reqs1) = Some b -> resp2 (length reqs2) = Some b ->
    snd (fetch_block resp1 reqs1 c s1) = snd (fetch_block resp2 reqs2 c s2) /\
    (snd (fetch_block resp1 reqs1 c s1) = Some b <-> hashes_to b c = true) /\
    (snd (fetch_block resp1 reqs1 c s1) = None <-> hashes_to b c = false).
Proof.
  intros resp1 resp2 reqs1 reqs2 s1 s2 c b L1 L2 R1 R2.
  rewrite (fetch_block_decides resp1 reqs1 c s1 b L1 R1), (fetch_block_decides resp2 reqs2 c s2 b L2 R2).
  cbn [snd]. destruct (hashes_to b c); repeat split; try reflexivity; try discriminate; auto.
Qed.

(* the request log of one fetch: unchanged, or one more request whose answer decides *)
Lemma fetch_block_reqs resp reqs c s :
  let '(reqs1, s1, ob) := fetch_block resp reqs c s in
  (reqs1 = reqs /\ s1 = s) \/
  (reqs1 = reqs ++ [c] /\ local_ok s c = None /\
   ((bad_answer (resp (length reqs)) c = false /\ ob <> None) \/
    (bad_answer (resp (length reqs)) c = true /\ ob = None /\ s1 = s))).
Proof.
  unfold C02_FetchVerify.fetch_block, C02_FetchVerify.bad_answer. destruct (local_ok s c) as [b|] eqn:L; [cbv beta iota; left; auto|].
  destruct (resp (length reqs)) as [b|].
  - destruct (hashes_to b c) eqn:H; cbv beta iota; right; cbn [negb].
    + split; [reflexivity|]. split; [reflexivity|]. left. split; [reflexivity|discriminate].
    + split; [reflexivity|]. split; [reflexivity|]. right. auto.
  - cbv beta iota. right. split; [reflexivity|]. split; [reflexivity|]. right. auto.
Qed.

(* ---- the walk ---- *)

Definition fwalk_kids (f : nat) (resp : responder) (v : view) (stop : option cid) (lim : option nat) :=
  fix go (l : list cid) (acc : fout body) : fout body :=
    match l with
    | [] => acc
    | e :: r =>
      if is_stop stop e || negb (deeper lim) then go r acc
      else
        let o := fwalk f resp v stop (dec_lim lim) e (f_reqs body acc) (f_store body acc) in
        let acc' := FO body (f_order body acc ++ f_order body o) (f_reqs body o) (f_store body o) (f_res body o) in
        match f_res body o with
        | FOk => go r acc'
        | _ => acc'
        end
    end.

Lemma fwalk_unfold f resp v stop lim c reqs s :
  fwalk (S f) resp v stop lim c reqs s =
  if negb (verifiable c) then FO body [] reqs s (FUnverifiable c) else
  match fetch_block resp reqs c s with
  | (reqs1, s1, None) => FO body [] reqs1 s1 (FBad c)
  | (reqs1, s1, Some b) =>
    match links_of b with
    | None => FO body [] reqs1 s1 (FUndecodable c)
    | Some es => fwalk_kids f resp v stop lim (follow v es) (FO body [c] reqs1 s1 FOk)
    end
  end.
Proof. reflexivity. Qed.

(* soundness: whatever the adversary answers, the store stays sound, keeps every soundly
   held block, and every block of the traversal order is soundly held afterwards *)
Lemma fwalk_sound resp v stop : forall fuel lim c reqs s,
  let o := fwalk fuel resp v stop lim c reqs s in
  ext s (f_store body o) /\ (forall x, In x (f_order body o) -> held (f_store body o) x = true).
Proof.
  induction fuel as [|f IH]; intros lim c reqs s.
  - cbn. split; [apply ext_refl|contradiction].
  - cbv zeta. rewrite fwalk_unfold.
    destruct (verifiable c); cbn [negb]; [|cbn; split; [apply ext_refl|contradiction]].
    pose proof (fetch_block_sound resp reqs c s) as F.
    destruct (fetch_block resp reqs c s) as [[reqs1 s1] ob]. destruct F as [E Hc].
    destruct ob as [b|]; [|cbn; split; [exact E|contradiction]].
    destruct (links_of b) as [es|]; [|cbn; split; [exact E|contradiction]].
    specialize (Hc b eq_refl).
    assert (K : forall l acc,
      ext s (f_store body acc) -> (forall x, In x (f_order body acc) -> held (f_store body acc) x = true) ->
      let o := fwalk_kids f resp v stop lim l acc in
      ext s (f_store body o) /\ (forall x, In x (f_order body o) -> held (f_store body o) x = true)).
    { induction l as [|e r IHl]; intros acc E1 H1; [cbn; auto|].
      cbn [fwalk_kids]. destruct (is_stop stop e || negb (deeper lim)); [apply IHl; assumption|].
      destruct (IH (dec_lim lim) e (f_reqs body acc) (f_store body acc)) as [E2 H2].
      set (o := fwalk f resp v stop (dec_lim lim) e (f_reqs body acc) (f_store body acc)) in *.
      assert (E3 : ext s (f_store body o)) by (eapply ext_trans; eassumption).
      assert (H3 : forall x, In x (f_order body acc ++ f_order body o) -> held (f_store body o) x = true).
      { intros x Hx. apply in_app_or in Hx as [Hx|Hx]; [apply E2; apply H1; exact Hx|apply H2; exact Hx]. }
      destruct (f_res body o); try (cbn; split; assumption).
      apply IHl; cbn; assumption. }
    apply K; cbn; [exact E|]. intros x [->|[]]. exact Hc.
Qed.

(* the request log only grows; a bad answer to any request of this walk makes the walk fail
   at that very request, which is then the last one, with the block still not usable locally *)
Lemma fwalk_bad resp v stop : forall fuel lim c reqs s,
  let o := fwalk fuel resp v stop lim c reqs s in
  (exists t, f_reqs body o = reqs ++ t) /\
  (forall i x, (length reqs <= i)%nat -> nth_error (f_reqs body o) i = Some x ->
     bad_answer (resp i) x = true ->
     f_res body o = FBad x /\ S i = length (f_reqs body o) /\ local_ok (f_store body o) x = None).
Proof.
  induction fuel as [|f IH]; intros lim c reqs s.
  - cbn. split; [exists []; now rewrite app_nil_r|].
    intros i x Hi Hn. apply nth_error_Some_lt in Hn. lia.
  - cbv zeta. rewrite fwalk_unfold.
    destruct (verifiable c); cbn [negb].
    2:{ cbn. split; [exists []; now rewrite app_nil_r|].
        intros i x Hi Hn. apply nth_error_Some_lt in Hn. lia. }
    pose proof (fetch_block_reqs resp reqs c s) as F.
    destruct (fetch_block resp reqs c s) as [[reqs1 s1] ob].
    (* after the root's fetch: the log is reqs or reqs ++ [c]; if the fetch succeeded all
       requests so far (from reqs on) were answered well *)
    assert (Hroot : (exists t, reqs1 = reqs ++ t) /\
                    (ob <> None -> forall i x, (length reqs <= i)%nat -> nth_error reqs1 i = Some x -> bad_answer (resp i) x = false) /\
                    (ob = None -> forall i x, (length reqs <= i)%nat -> nth_error reqs1 i = Some x -> bad_answer (resp i) x = true ->
                       x = c /\ S i = length reqs1 /\ local_ok s1 c = None)).
    { destruct F as [[-> ->]|(-> & L & [[G N]|(B & -> & ->)])].
      - split; [exists []; now rewrite app_nil_r|]. split; intros _ i x Hi Hn; apply nth_error_Some_lt in Hn; lia.
      - split; [eauto|]. split; [|contradiction].
        intros _ i x Hi Hn. assert (i = length reqs).
        { apply nth_error_Some_lt in Hn. rewrite app_length in Hn. cbn in Hn. lia. }
        subst i. rewrite nth_error_app2, Nat.sub_diag in Hn by lia. cbn in Hn. inversion Hn; subst. exact G.
      - split; [eauto|]. split; [contradiction|].
        intros _ i x Hi Hn _. assert (i = length reqs).
        { apply nth_error_Some_lt in Hn. rewrite app_length in Hn. cbn in Hn. lia. }
        subst i. rewrite nth_error_app2, Nat.sub_diag in Hn by lia. cbn in Hn. inversion Hn; subst.
        rewrite app_length. cbn. repeat split; [lia|exact L]. }
    destruct Hroot as (Hpre & Hgood & Hbad).
    destruct ob as [b|].
    2:{ cbn. split; [exact Hpre|]. intros i x Hi Hn Hb. destruct (Hbad eq_refl i x Hi Hn Hb) as (-> & Hl & Hlo). auto. }
    specialize (Hgood ltac:(discriminate)).
    destruct (links_of b) as [es|].
    2:{ cbn. split; [exact Hpre|]. intros i x Hi Hn Hb. rewrite (Hgood i x Hi Hn) in Hb. discriminate. }
    assert (K : forall l acc,
      (exists t, f_reqs body acc = reqs ++ t) ->
      (forall i x, (length reqs <= i)%nat -> nth_error (f_reqs body acc) i = Some x -> bad_answer (resp i) x = false) ->
      let o := fwalk_kids f resp v stop lim l acc in
      (exists t, f_reqs body o = reqs ++ t) /\
      (forall i x, (length reqs <= i)%nat -> nth_error (f_reqs body o) i = Some x ->
         bad_answer (resp i) x = true ->
         f_res body o = FBad x /\ S i = length (f_reqs body o) /\ local_ok (f_store body o) x = None)).
    { induction l as [|e r IHl]; intros acc P G.
      - cbn. split; [exact P|]. intros i x Hi Hn Hb. rewrite (G i x Hi Hn) in Hb. discriminate.
      - cbn [fwalk_kids]. destruct (is_stop stop e || negb (deeper lim)); [apply IHl; assumption|].
        destruct (IH (dec_lim lim) e (f_reqs body acc) (f_store body acc)) as [[t Ht] B2].
        set (o := fwalk f resp v stop (dec_lim lim) e (f_reqs body acc) (f_store body acc)) in *.
        destruct P as [t0 Ht0].
        assert (P' : exists t', f_reqs body o = reqs ++ t').
        { exists (t0 ++ t). rewrite Ht, Ht0, app_assoc. reflexivity. }
        (* requests older than this sub-walk were answered well *)
        assert (Old : forall i x, (length reqs <= i)%nat -> (i < length (f_reqs body acc))%nat ->
                        nth_error (f_reqs body o) i = Some x -> bad_answer (resp i) x = false).
        { intros i x Hi Hlt Hn. rewrite Ht, nth_error_app1 in Hn by exact Hlt. apply (G i x Hi Hn). }
        assert (Bad : forall i x, (length reqs <= i)%nat -> nth_error (f_reqs body o) i = Some x ->
                        bad_answer (resp i) x = true ->
                        f_res body o = FBad x /\ S i = length (f_reqs body o) /\ local_ok (f_store body o) x = None).
        { intros i x Hi Hn Hb. destruct (Nat.lt_ge_cases i (length (f_reqs body acc))) as [Hlt|Hge].
          - rewrite (Old i x Hi Hlt Hn) in Hb. discriminate.
          - apply (B2 i x Hge Hn Hb). }
        destruct (f_res body o) eqn:R;
          try (cbv beta iota delta [f_reqs f_store f_res f_order]; split; [exact P'|]; intros i x Hi Hn Hb;
               destruct (Bad i x Hi Hn Hb) as (E1 & E2 & E3); try discriminate;
               repeat split; assumption).
        apply IHl; cbn; [exact P'|].
        intros i x Hi Hn. destruct (bad_answer (resp i) x) eqn:Hb; [|reflexivity].
        destruct (Bad i x Hi Hn Hb) as [X _]. discriminate. }
    apply K; cbn; assumption.
Qed.

(* ---- handler.handle ---- *)

Notation fhandle_plain := (fhandle_plain body hashes_to links_of verifiable).
Notation fseg_loop := (fseg_loop body hashes_to links_of verifiable).
Notation fhandle := (fhandle body hashes_to links_of verifiable).
Notation fsyncs := (fsyncs body hashes_to links_of verifiable).

Lemma calls_of_In h order x : In x (calls_of h order) -> In x order.
Proof. unfold calls_of. destruct (has_hook h); [auto|contradiction]. Qed.

Lemma fhandle_plain_sound fuel resp v stop lim h c reqs s :
  let o := fhandle_plain fuel resp v stop lim h c reqs s in
  ext s (fh_store body o) /\ (forall x, In x (fh_hooks body o) -> held (fh_store body o) x = true).
Proof.
  unfold C02_FetchVerify.fhandle_plain.
  destruct (fwalk_sound resp v stop fuel lim c reqs s) as [E H].
  destruct (f_res body (fwalk fuel resp v stop lim c reqs s)); cbn; (split; [exact E|]); try contradiction.
  intros x Hx. apply H. eapply calls_of_In. exact Hx.
Qed.

Lemma fseg_loop_sound wfuel resp v stop orig segdl h s0 : forall fuel nd dsf next acc,
  ext s0 (fh_store body acc) -> (forall x, In x (fh_hooks body acc) -> held (fh_store body acc) x = true) ->
  let o := fseg_loop fuel wfuel resp v stop orig segdl h nd dsf next acc in
  ext s0 (fh_store body o) /\ (forall x, In x (fh_hooks body o) -> held (fh_store body o) x = true).
Proof.
  induction fuel as [|f IH]; intros nd dsf next acc E H; [cbn; auto|].
  cbn [C02_FetchVerify.fseg_loop].
  destruct (fwalk_sound resp v stop wfuel (Some nd) next (fh_reqs body acc) (fh_store body acc)) as [E2 H2].
  set (o := fwalk wfuel resp v stop (Some nd) next (fh_reqs body acc) (fh_store body acc)) in *.
  assert (E3 : ext s0 (f_store body o)) by (eapply ext_trans; eassumption).
  assert (Hold : forall x, In x (fh_hooks body acc) -> held (f_store body o) x = true).
  { intros x Hx. apply E2. apply H. exact Hx. }
  destruct (f_res body o); try (cbn; split; assumption).
  assert (H3 : forall x, In x (fh_hooks body acc ++ f_order body o) -> held (f_store body o) x = true).
  { intros x Hx. apply in_app_or in Hx as [Hx|Hx]; auto. }
  destruct (fnominated body links_of (f_store body o) h (f_order body o)) as [n|]; [|cbn; split; assumption].
  destruct (is_stop stop n); [cbn; split; assumption|].
  destruct orig as [D|].
  - destruct (D <=? dsf + nd)%nat; [cbn; split; assumption|]. apply IH; cbn; assumption.
  - apply IH; cbn; assumption.
Qed.

Lemma fhandle_sound fuel resp q s :
  let o := fhandle fuel resp q s in
  ext s (fh_store body o) /\ (forall x, In x (fh_hooks body o) -> held (fh_store body o) x = true).
Proof.
  unfold C02_FetchVerify.fhandle. destruct (seg_enabled (fs_segdl q) (fs_hook q) (fs_lim q)).
  - apply fseg_loop_sound; cbn; [apply ext_refl|contradiction].
  - apply fhandle_plain_sound.
Qed.

(* ---- the property theorems ---- *)

Theorem store_sound_proved :
  forall fuel (l : list (responder * fsync)) s,
    sound s = true -> sound (fsyncs fuel l s) = true.
Proof.
  intros fuel l. induction l as [|[resp q] r IH]; intros s H; [exact H|].
  cbn [C02_FetchVerify.fsyncs]. apply IH. destruct (fhandle_sound fuel resp q s) as [[E _] _]. apply E. exact H.
Qed.

Theorem hook_only_sound_proved :
  forall fuel resp q s x,
    In x (fh_hooks body (fhandle fuel resp q s)) ->
    exists b, bget (fh_store body (fhandle fuel resp q s)) x = Some b /\ hashes_to b x = true.
Proof.
  intros fuel resp q s x Hx. destruct (fhandle_sound fuel resp q s) as [_ H]. specialize (H x Hx).
  unfold held in H. destruct (bget (fh_store body (fhandle fuel resp q s)) x) as [b|]; [eauto|discriminate].
Qed.

(* what is soundly held is never lost, also over a failing sync *)
Theorem held_is_kept_proved :
  forall fuel resp q s x, held s x = true -> held (fh_store body (fhandle fuel resp q s)) x = true.
Proof. intros fuel resp q s x H. destruct (fhandle_sound fuel resp q s) as [[_ E] _]. auto. Qed.

(* unsegmented sync: a bad answer to ANY of its requests => error, that request is the last
   one, the block is not usable from the store, the hook is not called, the count is 0 *)
Theorem bad_body_fails_proved :
  forall fuel resp v stop lim h c s i x,
    let o := fhandle_plain fuel resp v stop lim h c [] s in
    nth_error (fh_reqs body o) i = Some x -> bad_answer (resp i) x = true ->
    fh_err body o = Some (FBad x) /\ S i = length (fh_reqs body o) /\
    local_ok (fh_store body o) x = None /\ fh_hooks body o = [] /\ fh_count body o = 0%nat.
Proof.
  intros fuel resp v stop lim h c s i x. unfold C02_FetchVerify.fhandle_plain.
  destruct (fwalk_bad resp v stop fuel lim c [] s) as [_ B].
  set (o := fwalk fuel resp v stop lim c [] s) in *.
  cbv zeta. destruct (f_res body o) eqn:R; cbn; intros Hn Hb;
    destruct (B i x ltac:(cbn; lia) Hn Hb) as (E1 & E2 & E3); try congruence.
  inversion E1; subst. auto.
Qed.

(* segmented sync: the same, except that the hook has been called for the blocks of the
   segments completed before -- all of them soundly stored (hook_only_sound) *)
Lemma fseg_loop_bad wfuel resp v stop orig segdl h : forall fuel nd dsf next acc,
  (forall i x, nth_error (fh_reqs body acc) i = Some x -> bad_answer (resp i) x = false) ->
  let o := fseg_loop fuel wfuel resp v stop orig segdl h nd dsf next acc in
  forall i x, nth_error (fh_reqs body o) i = Some x -> bad_answer (resp i) x = true ->
    fh_err body o = Some (FBad x) /\ S i = length (fh_reqs body o) /\
    local_ok (fh_store body o) x = None /\ fh_count body o = 0%nat.
Proof.
  induction fuel as [|f IH]; intros nd dsf next acc G.
  - cbn. intros i x Hn Hb. rewrite (G i x Hn) in Hb. discriminate.
  - cbn [C02_FetchVerify.fseg_loop].
    destruct (fwalk_bad resp v stop wfuel (Some nd) next (fh_reqs body acc) (fh_store body acc)) as [[t Ht] B].
    set (o := fwalk wfuel resp v stop (Some nd) next (fh_reqs body acc) (fh_store body acc)) in *.
    assert (Bad : forall i x, nth_error (f_reqs body o) i = Some x -> bad_answer (resp i) x = true ->
                    f_res body o = FBad x /\ S i = length (f_reqs body o) /\ local_ok (f_store body o) x = None).
    { intros i x Hn Hb. destruct (Nat.lt_ge_cases i (length (fh_reqs body acc))) as [Hlt|Hge].
      - rewrite Ht, nth_error_app1 in Hn by exact Hlt. rewrite (G i x Hn) in Hb. discriminate.
      - apply (B i x Hge Hn Hb). }
    destruct (f_res body o) eqn:R;
      try (cbn; intros i x Hn Hb; destruct (Bad i x Hn Hb) as (E1 & E2 & E3); try congruence; inversion E1; subst; auto).
    assert (G' : forall i x, nth_error (f_reqs body o) i = Some x -> bad_answer (resp i) x = false).
    { intros i x Hn. destruct (bad_answer (resp i) x) eqn:Hb; [|reflexivity]. destruct (Bad i x Hn Hb) as [X _]. discriminate. }
    destruct (fnominated body links_of (f_store body o) h (f_order body o)) as [n|];
      [|cbn; intros i x Hn Hb; rewrite (G' i x Hn) in Hb; discriminate].
    destruct (is_stop stop n); [cbn; intros i x Hn Hb; rewrite (G' i x Hn) in Hb; discriminate|].
    destruct orig as [D|].
    + destruct (D <=? dsf + nd)%nat; [cbn; intros i x Hn Hb; rewrite (G' i x Hn) in Hb; discriminate|].
      apply IH. cbn. exact G'.
    + apply IH. cbn. exact G'.
Qed.

Theorem bad_body_fails_any_segment_size_proved :
  forall fuel resp q s i x,
    let o := fhandle fuel resp q s in
    nth_error (fh_reqs body o) i = Some x -> bad_answer (resp i) x = true ->
    fh_err body o = Some (FBad x) /\ S i = length (fh_reqs body o) /\
    local_ok (fh_store body o) x = None /\ fh_count body o = 0%nat.
Proof.
  intros fuel resp q s i x. unfold C02_FetchVerify.fhandle.
  destruct (seg_enabled (fs_segdl q) (fs_hook q) (fs_lim q)).
  - apply fseg_loop_bad. cbn. intros j y Hn. destruct j; discriminate.
  - cbv zeta. intros Hn Hb.
    destruct (bad_body_fails_proved fuel resp (fs_view q) (fs_stop q) (fs_lim q) (fs_hook q) (fs_head q) s i x Hn Hb)
      as (A & B & C & _ & D). auto.
Qed.

(* ---- a body is committed only if its digest was actually computed, and equal ---- *)

(* an entry of s' was in s, or was committed for a CID whose hash function is available and
   to which the body hashes *)
Definition verified_ext (s s' : bstore) : Prop :=
  forall e, In e s' -> In e s \/ (verifiable (fst e) = true /\ hashes_to (snd e) (fst e) = true).

Lemma verified_ext_refl s : verified_ext s s.
Proof. intros e H. left. exact H. Qed.

Lemma verified_ext_trans a b c : verified_ext a b -> verified_ext b c -> verified_ext a c.
Proof. intros H1 H2 e He. destruct (H2 e He) as [H|H]; [apply H1; exact H|right; exact H]. Qed.

Lemma fetch_block_commits resp reqs c s :
  verifiable c = true ->
  let '(reqs1, s1, ob) := fetch_block resp reqs c s in verified_ext s s1.
Proof.
  intro V. unfold C02_FetchVerify.fetch_block. destruct (local_ok s c); [apply verified_ext_refl|].
  destruct (resp (length reqs)) as [b|]; [|apply verified_ext_refl].
  destruct (hashes_to b c) eqn:H; [|apply verified_ext_refl].
  intros e [<-|He]; [right; cbn; auto|left; exact He].
Qed.

(* a CID naming an unavailable hash function is refused at once: nothing is requested,
   stored or reported *)
Theorem unverifiable_is_refused f resp v stop lim c reqs s :
  verifiable c = false ->
  fwalk (S f) resp v stop lim c reqs s = FO body [] reqs s (FUnverifiable c).
Proof. intro V. rewrite fwalk_unfold, V. reflexivity. Qed.

Lemma fwalk_verified resp v stop : forall fuel lim c reqs s,
  let o := fwalk fuel resp v stop lim c reqs s in
  verified_ext s (f_store body o) /\ (forall x, In x (f_order body o) -> verifiable x = true).
Proof.
  induction fuel as [|f IH]; intros lim c reqs s.
  - cbn. split; [apply verified_ext_refl|contradiction].
  - cbv zeta. rewrite fwalk_unfold.
    destruct (verifiable c) eqn:V; cbn [negb]; [|cbn; split; [apply verified_ext_refl|contradiction]].
    pose proof (fetch_block_commits resp reqs c s V) as F.
    destruct (fetch_block resp reqs c s) as [[reqs1 s1] ob].
    destruct ob as [b|]; [|cbn; split; [exact F|contradiction]].
    destruct (links_of b) as [es|]; [|cbn; split; [exact F|contradiction]].
    assert (K : forall l acc,
      verified_ext s (f_store body acc) -> (forall x, In x (f_order body acc) -> verifiable x = true) ->
      let o := fwalk_kids f resp v stop lim l acc in
      verified_ext s (f_store body o) /\ (forall x, In x (f_order body o) -> verifiable x = true)).
    { induction l as [|e r IHl]; intros acc E1 H1; [cbn; auto|].
      cbn [fwalk_kids]. destruct (is_stop stop e || negb (deeper lim)); [apply IHl; assumption|].
      destruct (IH (dec_lim lim) e (f_reqs body acc) (f_store body acc)) as [E2 H2].
      set (o := fwalk f resp v stop (dec_lim lim) e (f_reqs body acc) (f_store body acc)) in *.
      assert (E3 : verified_ext s (f_store body o)) by (eapply verified_ext_trans; eassumption).
      assert (H3 : forall x, In x (f_order body acc ++ f_order body o) -> verifiable x = true).
      { intros x Hx. apply in_app_or in Hx as [Hx|Hx]; auto. }
      destruct (f_res body o); try (cbn; split; assumption).
      apply IHl; cbn; assumption. }
    apply K; cbn; [exact F|]. intros x [<-|[]]. exact V.
Qed.

Lemma fseg_loop_verified wfuel resp v stop orig segdl h s0 : forall fuel nd dsf next acc,
  verified_ext s0 (fh_store body acc) -> (forall x, In x (fh_hooks body acc) -> verifiable x = true) ->
  let o := fseg_loop fuel wfuel resp v stop orig segdl h nd dsf next acc in
  verified_ext s0 (fh_store body o) /\ (forall x, In x (fh_hooks body o) -> verifiable x = true).
Proof.
  induction fuel as [|f IH]; intros nd dsf next acc E H; [cbn; auto|].
  cbn [C02_FetchVerify.fseg_loop].
  destruct (fwalk_verified resp v stop wfuel (Some nd) next (fh_reqs body acc) (fh_store body acc)) as [E2 H2].
  set (o := fwalk wfuel resp v stop (Some nd) next (fh_reqs body acc) (fh_store body acc)) in *.
  assert (E3 : verified_ext s0 (f_store body o)) by (eapply verified_ext_trans; eassumption).
  destruct (f_res body o); try (cbn; split; assumption).
  assert (H3 : forall x, In x (fh_hooks body acc ++ f_order body o) -> verifiable x = true).
  { intros x Hx. apply in_app_or in Hx as [Hx|Hx]; auto. }
  destruct (fnominated body links_of (f_store body o) h (f_order body o)) as [n|]; [|cbn; split; assumption].
  destruct (is_stop stop n); [cbn; split; assumption|].
  destruct orig as [D|].
  - destruct (D <=? dsf + nd)%nat; [cbn; split; assumption|]. apply IH; cbn; assumption.
  - apply IH; cbn; assumption.
Qed.

Lemma fhandle_verified fuel resp q s :
  let o := fhandle fuel resp q s in
  verified_ext s (fh_store body o) /\ (forall x, In x (fh_hooks body o) -> verifiable x = true).
Proof.
  unfold C02_FetchVerify.fhandle. destruct (seg_enabled (fs_segdl q) (fs_hook q) (fs_lim q)).
  - apply fseg_loop_verified; cbn; [apply verified_ext_refl|contradiction].
  - unfold C02_FetchVerify.fhandle_plain.
    destruct (fwalk_verified resp (fs_view q) (fs_stop q) fuel (fs_lim q) (fs_head q) [] s) as [E H].
    destruct (f_res body (fwalk fuel resp (fs_view q) (fs_stop q) (fs_lim q) (fs_head q) [] s)); cbn; (split; [exact E|]); try contradiction.
    intros x Hx. apply H. eapply calls_of_In. exact Hx.
Qed.

(* whatever the publisher answers, over any sequence of syncs: every entry the syncs add to
   the store is for a CID whose hash function is available and to which the body hashes; and
   the hook is never called for a CID whose hash function is unavailable *)
Theorem unverifiable_is_rejected_proved :
  (forall fuel (l : list (responder * fsync)) s e,
     In e (fsyncs fuel l s) -> In e s \/ (verifiable (fst e) = true /\ hashes_to (snd e) (fst e) = true)) /\
  (forall fuel resp q s x, In x (fh_hooks body (fhandle fuel resp q s)) -> verifiable x = true).
Proof.
  split.
  - intros fuel l. induction l as [|[resp q] r IH]; intros s e He; [left; exact He|].
    cbn [C02_FetchVerify.fsyncs] in He. destruct (IH _ e He) as [H|H]; [|right; exact H].
    destruct (fhandle_verified fuel resp q s) as [E _]. apply E. exact H.
  - intros fuel resp q s x Hx. destruct (fhandle_verified fuel resp q s) as [_ H]. apply H. exact Hx.
Qed.

(* ---- the store only gains blocks that were requested ---- *)

(* the request log only grows, and an entry of s' was in s or is for a CID that was requested *)
Definition req_ext (reqs : list cid) (s : bstore) (reqs' : list cid) (s' : bstore) : Prop :=
  (forall x, In x reqs -> In x reqs') /\ (forall e, In e s' -> In e s \/ In (fst e) reqs').

Lemma req_ext_refl reqs s : req_ext reqs s reqs s.
Proof. split; auto. Qed.

Lemma req_ext_trans r1 s1 r2 s2 r3 s3 : req_ext r1 s1 r2 s2 -> req_ext r2 s2 r3 s3 -> req_ext r1 s1 r3 s3.
Proof.
  intros [A1 B1] [A2 B2]. split; [auto|]. intros e He. destruct (B2 e He) as [H|H]; [|auto].
  destruct (B1 e H) as [H'|H']; auto.
Qed.

Lemma fetch_block_req_ext resp reqs c s :
  let '(reqs1, s1, ob) := fetch_block resp reqs c s in req_ext reqs s reqs1 s1.
Proof.
  unfold C02_FetchVerify.fetch_block. destruct (local_ok s c); [apply req_ext_refl|].
  assert (G : req_ext reqs s (reqs ++ [c]) s) by (split; [intros; apply in_or_app; auto|auto]).
  destruct (resp (length reqs)) as [b|]; [|exact G].
  destruct (hashes_to b c); [|exact G].
  split; [intros; apply in_or_app; auto|].
  intros e [<-|He]; [right; cbn; apply in_or_app; right; left; reflexivity|left; exact He].
Qed.

Lemma fwalk_req_ext resp v stop : forall fuel lim c reqs s,
  let o := fwalk fuel resp v stop lim c reqs s in req_ext reqs s (f_reqs body o) (f_store body o).
Proof.
  induction fuel as [|f IH]; intros lim c reqs s; [apply req_ext_refl|].
  cbv zeta. rewrite fwalk_unfold.
  destruct (verifiable c); cbn [negb]; [|apply req_ext_refl].
  pose proof (fetch_block_req_ext resp reqs c s) as F.
  destruct (fetch_block resp reqs c s) as [[reqs1 s1] ob].
  destruct ob as [b|]; [|exact F].
  destruct (links_of b) as [es|]; [|exact F].
  assert (K : forall l acc, req_ext reqs s (f_reqs body acc) (f_store body acc) ->
    let o := fwalk_kids f resp v stop lim l acc in req_ext reqs s (f_reqs body o) (f_store body o)).
  { induction l as [|e r IHl]; intros acc E; [exact E|].
    cbn [fwalk_kids]. destruct (is_stop stop e || negb (deeper lim)); [apply IHl; exact E|].
    pose proof (IH (dec_lim lim) e (f_reqs body acc) (f_store body acc)) as E2. cbv zeta in E2.
    set (o := fwalk f resp v stop (dec_lim lim) e (f_reqs body acc) (f_store body acc)) in *.
    assert (E3 : req_ext reqs s (f_reqs body o) (f_store body o)) by (eapply req_ext_trans; eassumption).
    destruct (f_res body o); try exact E3. apply IHl. exact E3. }
  apply K. exact F.
Qed.

Lemma fseg_loop_req_ext wfuel resp v stop orig segdl h r0 s0 : forall fuel nd dsf next acc,
  req_ext r0 s0 (fh_reqs body acc) (fh_store body acc) ->
  let o := fseg_loop fuel wfuel resp v stop orig segdl h nd dsf next acc in
  req_ext r0 s0 (fh_reqs body o) (fh_store body o).
Proof.
  induction fuel as [|f IH]; intros nd dsf next acc E; [exact E|].
  cbn [C02_FetchVerify.fseg_loop].
  pose proof (fwalk_req_ext resp v stop wfuel (Some nd) next (fh_reqs body acc) (fh_store body acc)) as E2. cbv zeta in E2.
  set (o := fwalk wfuel resp v stop (Some nd) next (fh_reqs body acc) (fh_store body acc)) in *.
  assert (E3 : req_ext r0 s0 (f_reqs body o) (f_store body o)) by (eapply req_ext_trans; eassumption).
  destruct (f_res body o); try exact E3.
  destruct (fnominated body links_of (f_store body o) h (f_order body o)) as [n|]; [|exact E3].
  destruct (is_stop stop n); [exact E3|].
  destruct orig as [D|].
  - destruct (D <=? dsf + nd)%nat; [exact E3|]. apply IH. exact E3.
  - apply IH. exact E3.
Qed.

(* whatever the publisher answers: every entry a sync adds to the store is for a CID that
   this sync requested (the publisher cannot put a block of its choosing into the store) *)
Theorem only_requested_is_stored_proved fuel resp q s e :
  let o := fhandle fuel resp q s in
  In e (fh_store body o) -> In e s \/ In (fst e) (fh_reqs body o).
Proof.
  cbv zeta. unfold C02_FetchVerify.fhandle. destruct (seg_enabled (fs_segdl q) (fs_hook q) (fs_lim q)).
  - intro He. eapply (fseg_loop_req_ext fuel resp (fs_view q) (fs_stop q)); [|exact He]. apply req_ext_refl.
  - unfold C02_FetchVerify.fhandle_plain.
    pose proof (fwalk_req_ext resp (fs_view q) (fs_stop q) fuel (fs_lim q) (fs_head q) [] s) as [_ E]. cbv zeta in E.
    destruct (f_res body (fwalk fuel resp (fs_view q) (fs_stop q) (fs_lim q) (fs_head q) [] s)); cbn; apply E.
Qed.

End Fetch.

(* ================================================================ *)
(* The comparison uses the requested CID's own function and digest length: instance with a
   CID that names a hash function and a length, over an arbitrary family of hash functions. *)

Section Truncated.
Variable H : N -> bytes -> bytes.                 (* hash function number -> body -> full digest *)
Variable cid_fn : cid -> N.
Variable cid_len : cid -> nat.
Variable cid_digest : cid -> bytes.
Variable links_of : bytes -> option (list edge).
Variable verifiable : cid -> bool.

Definition trunc_hashes_to (b : bytes) (c : cid) : bool :=
  bytes_eqb (firstn (cid_len c) (H (cid_fn c) b)) (cid_digest c).

Theorem truncated_digest_proved :
  forall fuel l s,
    sound bytes trunc_hashes_to s = true ->
    forall c b, In (c, b) (fsyncs bytes trunc_hashes_to links_of verifiable fuel l s) ->
      firstn (cid_len c) (H (cid_fn c) b) = cid_digest c.
Proof.
  intros fuel l s Hs c b Hin.
  pose proof (store_sound_proved bytes trunc_hashes_to links_of verifiable fuel l s Hs) as S.
  unfold sound in S. rewrite forallb_forall in S. specialize (S (c, b) Hin).
  unfold sound_entry, trunc_hashes_to in S. cbn in S. apply bytes_eqb_eq. exact S.
Qed.
End Truncated.

(* ================================================================ *)
(* Non-vacuity (the symbolic instance of the cases)                  *)

Definition ex_dag : dag := [(1, []); (2, [(EPrev, 1)]); (3, [(EPrev, 2)])].
Definition ex_q := FSYNC VPrev None None (-1) HNominate 3.

(* request 1 (block 2) answered with block 1's bytes: error, block 2 not stored, no hook *)
Example ex_bad :
  let o := fhandle N sym_hashes_to (sym_links_of ex_dag) (sym_verifiable []) 4 (sym_responder [Some 3; Some 1; Some 1]) ex_q [] in
  fh_err N o = Some (FBad 2) /\ fh_reqs N o = [3; 2] /\ fh_hooks N o = [] /\ fh_store N o = [(3, 3)] /\
  sound N sym_hashes_to (fh_store N o) = true.
Proof. vm_compute. repeat split; reflexivity. Qed.

Example ex_good :
  let o := fhandle N sym_hashes_to (sym_links_of ex_dag) (sym_verifiable []) 4 (sym_responder [Some 3; Some 2; Some 1]) ex_q [] in
  fh_err N o = None /\ fh_hooks N o = [3; 2; 1] /\ sound N sym_hashes_to (fh_store N o) = true.
Proof. vm_compute. repeat split; reflexivity. Qed.

(* a corrupt entry that was there before is not trusted: the block is fetched again *)
Example ex_corrupt_prestored :
  let o := fhandle N sym_hashes_to (sym_links_of ex_dag) (sym_verifiable []) 4 (sym_responder [Some 3; Some 2; Some 1]) ex_q [(2, 77)] in
  fh_err N o = None /\ fh_reqs N o = [3; 2; 1] /\ bget N (fh_store N o) 2 = Some 2.
Proof. vm_compute. repeat split; reflexivity. Qed.
