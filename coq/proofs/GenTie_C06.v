(* GenTie_C06 -- pcache.needMerge as regenerated into gen/Gen_Funcs_pcache.v (the same function is
   also in gen/Gen_Funcs.v, tied by Properties_C06.real_need_merge_is_source). *)
From Coq Require Import ZArith NArith List Bool Lia.
From Model Require Import C06_PCache.
From Gen Require Import Gen_Funcs_prelude Gen_Funcs_pcache.
Open Scope Z_scope.

Theorem tie_needMerge : forall u m : nat,
  real_need_merge u m = pcache_needMerge (Z.of_nat u) (Z.of_nat m).
Proof.
  intros. unfold real_need_merge, pcache_needMerge.
  destruct (Nat.ltb_spec (m * 2) (u * (u + 1))); symmetry; [apply Z.ltb_lt|apply Z.ltb_ge]; nia.
Qed.

(* the merge decision is monotone: more updates or a smaller main map never turn a merge off *)
Theorem needMerge_monotone : forall u u' m m' : Z,
  0 <= u <= u' -> 0 <= m' <= m -> pcache_needMerge u m = true -> pcache_needMerge u' m' = true.
Proof.
  intros u u' m m' Hu Hm. unfold pcache_needMerge. rewrite !Z.ltb_lt. nia.
Qed.
