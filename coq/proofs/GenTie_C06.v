(* GenTie_C06 -- pcache.needMerge as regenerated into gen/Gen_Funcs_pcache.v (the same function is
   also in gen/Gen_Funcs.v, tied by Properties_C06.real_need_merge_is_source). *)
From Coq Require Import ZArith NArith List Bool Lia.
From Model Require Import C06_PCache.
From Gen Require Import Gen_Funcs_prelude Gen_Funcs_pcache.
Open Scope Z_scope.

Theorem tie_needMerge : forall u m : nat,
  real_need_merge u m = pcache_needMerge (Z.of_nat u) (Z.of_nat m).
Proof.
  intros. unfold real_need_merge, pcache_needMerge.
  destruct (Nat.ltb_spec (m * 2) (u * (u + 1))); symmetry; [apply Z.ltb_lt|apply Z.ltb_ge]; nia.
Qed.

(* the merge decision is monotone: more updates or a smaller main map never turn a merge off *)
Theorem needMerge_monotone : forall u u' m m' : Z,
  0 <= u <= u' -> 0 <= m' <= m -> pcache_needMerge u m = true -> pcache_needMerge u' m' = true.
Proof.
  intros u u' m m' Hu Hm. unfold pcache_needMerge. rewrite !Z.ltb_lt. nia.
Qed.

(* ================================================================== *)
(* phase 2: the per-record decisions of Refresh (model/C06_PCache.v apply_entry, settle, upd_of,
   finish, view_of), gen/Gen_Funcs_pcache.v fragments of ProviderCache.Refresh / getReadOnly *)
From stdpp Require Import gmap.
From Coq Require Import String.
From Proofs Require Import GenTie_Lib.
Import ListNotations.

(* reading of time.Time: None = the zero time *)
Definition tm := option Z.
Definition tm_zero (t : tm) : bool := match t with None => true | Some _ => false end.
Definition tm_after (a b : tm) : bool :=        (* a.After(b) *)
  match a, b with
  | Some x, Some y => (y <? x)%Z
  | Some _, None => true
  | None, _ => false
  end.
Definition tm_add (t : tm) (d : Z) : tm := match t with Some x => Some (x + d)%Z | None => Some d end.

(* Refresh, a record for a provider that is already in the write map (apply_entry, Some e):
   seq is refreshed, the expiry is cleared, and the record replaces the stored one iff its
   (effective) time is later *)
Theorem tie_Refresh_accept_newer : forall (seq' : N) (e : entry) (r : rec) (txt : list N) (exp0 : tm),
  match pcache_Refresh_accept_newer (option rec) tm (Some 0%Z) (fun _ => (r_time r, None)) None tm_after tm_zero
          txt exp0 (Some (e_last e)) (e_prov e) (Z.of_N (e_seq e)) (e_dirty e) (Some r) (Z.of_N seq') with
  | FFall (sq, ex, last, prov, dirty, _) | FContinue _ (sq, ex, last, prov, dirty, _) =>
      let e' := apply_entry seq' (Some e) r in
      sq = Z.of_N (e_seq e') /\ ex = e_expires e' /\ last = Some (e_last e') /\ prov = e_prov e' /\ dirty = e_dirty e'
  | _ => False
  end.
Proof.
  intros. unfold pcache_Refresh_accept_newer, apply_entry, eff_time.
  destruct (r_time r) as [t|]; cbn.
  - destruct (e_last e <? t)%Z; cbn; repeat split; reflexivity.
  - destruct (e_last e <? 0)%Z; cbn; repeat split; reflexivity.
Qed.

(* the loop over pc.write (settle / upd_of, repaired code): an absent provider gets an expiry, an
   expired one is deleted and masked in the update map, a present one with unpublished changes is
   published *)
Definition has_stmt (s : string) (tr : list string) : bool := existsb (String.eqb s) tr.

Theorem tie_Refresh_publish_step : forall (now ttl : Z) (seq' : N) (e : entry) (ou : option (option rec)),
  match pcache_Refresh_publish_step tm tm_add tm_after tm_zero (Some now) (e_expires e)
          (Z.of_N (e_seq e)) (e_dirty e) ttl (Z.of_N seq') with
  | FFall (ex, dirty, tr) =>
      settle true ttl now seq' e =
        (if has_stmt "delete(pc.write, pid)" tr then None
         else Some (Entry (e_prov e) ex (e_last e) (e_seq e) (e_upd e) dirty)) /\
      upd_of true now seq' (Some e) ou =
        (if has_stmt "updates[pid] = nil" tr then Some None
         else if has_stmt "updates[pid] = apiToCacheInfo(cinfo.provider)" tr then Some (e_prov e)
         else ou)
  | _ => False
  end.
Proof.
  intros. unfold pcache_Refresh_publish_step, settle, upd_of, publish_now.
  replace (Z.of_N (e_seq e) =? Z.of_N seq')%Z with (e_seq e =? seq')%N
    by (destruct (N.eqb_spec (e_seq e) seq'); symmetry; [apply Z.eqb_eq|apply Z.eqb_neq]; lia).
  destruct (e_seq e =? seq')%N; cbn [negb].
  - destruct e as [p x l sq u d]; cbn [e_dirty e_expires e_prov e_last e_seq e_upd].
    destruct d; cbn; split; reflexivity.
  - destruct e as [p x l sq u d]; cbn [e_dirty e_expires e_prov e_last e_seq e_upd].
    destruct x as [x|]; cbn [tm_zero tm_after tm_add].
    + destruct (x <? now)%Z; cbn; split; reflexivity.
    + cbn. replace (now + ttl)%Z with (now + ttl)%Z by reflexivity. split; reflexivity.
Qed.

(* the main map is regenerated exactly when needMerge says so (finish) *)
Theorem tie_Refresh_merge_decision : forall (u m : nat),
  match pcache_Refresh_merge_decision (Z.of_nat m) (Z.of_nat u) with
  | FReturn _ tr => real_need_merge u m = false /\ has_stmt "pc.read.Store(&readOnly{m: read.m, u: updates})" tr = true
  | FFall _ => real_need_merge u m = true
  | _ => False
  end.
Proof.
  intros. unfold pcache_Refresh_merge_decision. rewrite <- tie_needMerge.
  destruct (real_need_merge u m); cbn; auto.
Qed.

(* getReadOnly looks in the update map first, then in the main map (view_of = (ru ∪ rm) !! pid) *)
Theorem tie_getReadOnly_lookup : forall (ru rm : gmap N (option rec)) (pid : N) (miss : option rec * option string),
  match pcache_getReadOnly_lookup (option rec) miss
          (default None (rm !! pid)) (default None (ru !! pid))
          (bool_decide (is_Some (rm !! pid))) (bool_decide (is_Some (ru !! pid))) with
  | FFall (rpi, _) =>
      match view_of ru rm pid with
      | Some v => rpi = v
      | None => rpi = fst miss /\ snd miss = None           (* fetchMissing's answer *)
      end
  | FReturn _ _ => view_of ru rm pid = None /\ snd miss <> None
  | _ => False
  end.
Proof.
  intros. unfold pcache_getReadOnly_lookup, view_of. rewrite lookup_union.
  destruct (ru !! pid) as [a|], (rm !! pid) as [b|]; cbn; try reflexivity.
  destruct miss as [v [er|]]; cbn; auto; try (split; [reflexivity|discriminate]).
Qed.
