(* GenTie_C01 -- the hand-written definitions of model/C01_ChainSync.v that transcribe
   decision logic of dagsync/selector.go and dagsync/subscriber.go agree, for ALL inputs,
   with the Gallina that astgen regenerates from the Go source on every run
   (gen/Gen_Funcs_dagsync.v).  A behaviour-changing edit of one of these Go statements
   changes the generated definition and breaks the corresponding lemma. *)
From Coq Require Import ZArith NArith List Bool Lia String.
From Lib Require Import Bytes.
From Model Require Import C01_ChainSync.
From Gen Require Import Gen_Funcs_prelude Gen_Funcs_dagsync.
Import ListNotations.
Open Scope Z_scope.

(* reading of the opaque Go types *)
Definition RL := option nat.                      (* selector.RecursionLimit *)
Definition rl_none : RL := None.
Definition rl_depth (d : Z) : RL := Some (Z.to_nat d).
Definition ocid := option cid.                    (* cid.Cid (None = cid.Undef) / ipld.Link (None = nil) *)
Definition ocid_eqb (a b : ocid) : bool :=
  match a, b with
  | None, None => true
  | Some x, Some y => N.eqb x y
  | _, _ => false
  end.
Definition ocid_isnil (a : ocid) : bool := match a with None => true | Some _ => false end.

(* 1. recursionLimit(depth) *)
Theorem tie_recursionLimit : forall depth,
  rl depth = dagsync_recursionLimit RL rl_depth rl_none depth.
Proof.
  (* written so that it survives re-phrasings of the comparison (depth >= 1, !(depth < 1), ...) *)
  intros; unfold rl, dagsync_recursionLimit.
  repeat match goal with |- context [if ?c then _ else _] => let E := fresh "E" in destruct c eqn:E end;
    try reflexivity; exfalso;
    repeat match goal with
    | H : (_ <? _) = true |- _ => apply Z.ltb_lt in H
    | H : (_ <? _) = false |- _ => apply Z.ltb_ge in H
    | H : (_ <=? _) = true |- _ => apply Z.leb_le in H
    | H : (_ <=? _) = false |- _ => apply Z.leb_gt in H
    end; lia.
Qed.

(* 2. SyncAdChain: which stop link, depth limit and segment depth a call uses
      (go_stop / go_depth / resolve_seg of the model), statements L471-L531 *)
Theorem tie_SyncAdChain_limits : forall (cfg : subcfg) (st : substate) (a : adcall),
  dagsync_SyncAdChain_limits ocid ocid RL ocid_eqb rl_depth rl_none ocid_isnil (fun c => c) None
     (eff_latest cfg st)               (* s.GetLatestSync(peerInfo.ID) *)
     None                              (* cid.Undef *)
     (a_depth a) (a_resync a) (a_seg a) (a_stop a)
     (rl (c_ads_depth cfg))            (* s.adsDepthLimit = recursionLimit(opts.adsDepthLimit), NewSubscriber L239 *)
     (c_first_depth cfg) (c_seg_depth cfg)
  = FFall (go_depth cfg a (go_stop cfg st a), go_stop cfg st a, resolve_seg cfg (a_seg a)).
Proof.
  intros. unfold dagsync_SyncAdChain_limits, go_depth, go_stop, resolve_seg.
  rewrite <- !tie_recursionLimit.
  destruct (a_resync a), (a_stop a) as [s|], (eff_latest cfg st) as [l|];
    cbn [ocid_eqb ocid_isnil negb];
    destruct (a_depth a =? 0), (c_first_depth cfg =? 0), (a_seg a =? 0); reflexivity.
Qed.

(* 3. handle: whether the sync is segmented (seg_enabled), L1096-L1114.
      getRecursionLimit(sel) on the selector SyncAdChain / SyncEntries built always finds
      the limit it was built with: (lim, true). *)
Definition rl_mode (l : RL) : Z := match l with Some _ => 1 | None => 0 end.
Definition rl_depth_of (l : RL) : Z := match l with Some d => Z.of_nat d | None => 0 end.

Theorem tie_handle_segment_decision : forall (segdl : Z) (h : hook_kind) (lim : RL),
  dagsync_handle_segment_decision hook_kind RL (fun h => negb (has_hook h)) None rl_depth_of rl_mode
     h segdl (lim, true)
  = FFall (seg_enabled segdl h lim).
Proof.
  intros. unfold dagsync_handle_segment_decision, seg_enabled, ext_selector_RecursionLimit_Depth.
  destruct (0 <? segdl), (has_hook h), lim as [d|]; cbn [negb andb rl_mode rl_depth_of Z.eqb];
    try reflexivity; destruct (Z.of_nat d <=? segdl); reflexivity.
Qed.

(* 4. handle: one turn of SegSyncLoop after a successful segment, L1154-L1184.
      [seg_next] is the ladder that model/C01 seg_loop has inline. *)
Inductive seg_next := SegStop | SegNext (nd dsf : nat) (next : cid).

Definition seg_step (orig : option nat) (segdl nd dsf : nat) (stop nom : option cid) : seg_next :=
  let dsf' := (dsf + nd)%nat in
  match nom with
  | None => SegStop
  | Some n =>
    if is_stop stop n then SegStop
    else match orig with
         | None => SegNext nd dsf' n
         | Some D => if (D <=? dsf')%nat then SegStop
                     else let rem := (D - dsf')%nat in
                          SegNext (if (rem <? segdl)%nat then rem else nd) dsf' n
         end
  end.

(* seg_loop of the model is exactly: walk one segment, then seg_step *)
Theorem seg_loop_uses_seg_step : forall f w v stop orig segdl h nd dsf next acc,
  seg_loop (S f) w v stop orig segdl h nd dsf next acc =
  let o := walk (walk_fuel w) w v stop (Some nd) next (h_store acc) in
  match o_res o with
  | WOk =>
    let acc' := HO (h_hooks acc ++ o_order o) (h_reqs acc ++ o_reqs o) (o_store o)
                   (h_count acc + length (o_order o)) None in
    match seg_step orig segdl nd dsf stop (nominated w h (o_order o)) with
    | SegStop => acc'
    | SegNext nd' dsf' n => seg_loop f w v stop orig segdl h nd' dsf' n acc'
    end
  | e => HO (h_hooks acc) (h_reqs acc ++ o_reqs o) (o_store o) 0 (Some e)
  end.
Proof.
  intros. cbn [seg_loop]. cbv zeta.
  destruct (o_res (walk (walk_fuel w) w v stop (Some nd) next (h_store acc))); try reflexivity.
  unfold seg_step. destruct (nominated w h _) as [n|]; [|reflexivity].
  destruct (is_stop stop n); [reflexivity|].
  destruct orig as [D|]; [|reflexivity].
  destruct (D <=? dsf + nd)%nat; reflexivity.
Qed.

(* what the generated fragment says, read back into seg_next *)
Definition read_step (next : option cid) (r : frag (Z * Z)) : option seg_next :=
  match r, next with
  | FBreak _ _, _ => Some SegStop
  | FContinue _ (nd, dsf), Some n => Some (SegNext (Z.to_nat nd) (Z.to_nat dsf) n)
  | FFall (nd, dsf), Some n => Some (SegNext (Z.to_nat nd) (Z.to_nat dsf) n)
  | _, _ => None
  end.

Theorem tie_handle_segment_step : forall (orig : option nat) (segdl nd dsf : nat) (stop nom : option cid),
  read_step nom
    (dagsync_handle_segment_step ocid ocid_eqb ocid_isnil
       (Z.of_nat segdl) stop
       (rl_depth_of orig) (rl_mode orig)
       false             (* segSync.nextSyncCid.Equals(cid.Undef): None below stands for nil and for cid.Undef *)
       (Z.of_nat dsf)
       None              (* cid.Undef *)
       (Z.of_nat nd)
       None              (* segSync.err: no hook failure *)
       nom)              (* *segSync.nextSyncCid *)
  = Some (seg_step orig segdl nd dsf stop nom).
Proof.
  intros. unfold dagsync_handle_segment_step, seg_step, ext_selector_RecursionLimit_None,
    ext_selector_RecursionLimit_Depth.
  cbn [isNone negb].
  destruct nom as [n|]; cbn [ocid_isnil orb]; [|reflexivity].
  assert (Hs : (negb (ocid_eqb stop None) && ocid_eqb (Some n) stop)%bool = is_stop stop n).
  { unfold is_stop. destruct stop as [s|]; cbn; [|reflexivity]. rewrite N.eqb_sym. reflexivity. }
  rewrite Hs. destruct (is_stop stop n); [reflexivity|].
  destruct orig as [D|]; cbn [rl_mode rl_depth_of Z.eqb read_step].
  2:{ cbn. rewrite <- Nat2Z.inj_add, !Nat2Z.id. reflexivity. }
  replace (Z.of_nat D <=? Z.of_nat dsf + Z.of_nat nd) with (D <=? dsf + nd)%nat.
  2:{ destruct (Nat.leb_spec D (dsf + nd)); symmetry; [apply Z.leb_le|apply Z.leb_gt]; lia. }
  destruct (Nat.leb_spec D (dsf + nd)); [reflexivity|].
  cbn [read_step].
  replace (Z.of_nat D - (Z.of_nat dsf + Z.of_nat nd) <? Z.of_nat segdl) with (D - (dsf + nd) <? segdl)%nat.
  2:{ destruct (Nat.ltb_spec (D - (dsf + nd)) segdl); symmetry; [apply Z.ltb_lt|apply Z.ltb_ge]. all: lia. }
  destruct (D - (dsf + nd) <? segdl)%nat; cbn [Pos.eqb read_step]; f_equal; f_equal; lia.
Qed.

(* 5. SyncEntries: a per-call depth limit replaces the subscriber's entries selector exactly
      when it is non-zero (the model's [if depth =? 0 then rl entries else rl depth]) *)
Theorem tie_SyncEntries_scoped : forall (T : Type) (sel h : T) (depth : Z),
  match dagsync_SyncEntries_scoped T h depth sel with
  | FFall tr => (depth =? 0) = match tr with [] => true | _ => false end
  | _ => False
  end.
Proof.
  intros. unfold dagsync_SyncEntries_scoped. destruct (depth =? 0); reflexivity.
Qed.
