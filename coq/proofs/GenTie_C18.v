(* GenTie_C18 -- ingest/model/ingest_request.go: the comparison of the envelope signer with the
   provider the request names, as regenerated from the Go source (gen/Gen_Funcs_model.v),
   against [read_ingest] of model/C18_Requests.v. *)
From Coq Require Import ZArith NArith List Bool Lia String.
From Lib Require Import Bytes.
From Model Require Import C18_Requests.
From Proofs Require Import GenTie_Lib.
From Gen Require Import Gen_Consts Gen_Funcs_prelude Gen_Funcs_model.
Import ListNotations.
Open Scope Z_scope.

(* ReadIngestRequest rejects a request whose signer is not its ProviderID (peer IDs as byte
   strings, Go == on peer.ID) *)
Theorem tie_signer_check : forall signer provider : bytes,
  match model_ReadIngestRequest_signer_check provider signer with
  | FReturn s _ => Bytes.bytes_eqb signer provider = false /\ s = "return nil, errors.New(""request not signed by provider"")"%string
  | FFall _ => Bytes.bytes_eqb signer provider = true
  | _ => False
  end.
Proof.
  intros. unfold model_ReadIngestRequest_signer_check. rewrite gen_bytes_eqb_eq.
  destruct (Bytes.bytes_eqb signer provider); cbn [negb]; [reflexivity|split; reflexivity].
Qed.

(* read_ingest of the model makes this comparison, after the envelope and the record type *)
Theorem read_ingest_decision :
  forall (pubkey sigt peerid : Type) verify (peer_id : pubkey -> peerid) peerid_eqb dec_ingest dec_peer w,
  @read_ingest pubkey sigt peerid verify peer_id peerid_eqb dec_ingest dec_peer w =
  match consume_envelope verify dec_ingest dec_peer w ingest_dom with
  | Ok (e, RIngest q) => if peerid_eqb (peer_id (SymCrypto.e_key e)) (ir_provider q) then Ok q else Err ENotSigner
  | Ok (_, _) => Err EWrongType
  | Err c => Err c
  | Panic c => Panic c
  end.
Proof.
  intros. unfold read_ingest.
  destruct (consume_envelope verify dec_ingest dec_peer w ingest_dom) as [[e r]|c|c]; try reflexivity;
    try (destruct r; reflexivity).
Qed.

(* a nil receiver is refused before json.Unmarshal is reached *)
Theorem UnmarshalRecord_guard_table : forall isnil : bool,
  model_IngestRequest_UnmarshalRecord_guard isnil =
  if isnil then FReturn "return fmt.Errorf(""cannot unmarshal IngestRequest to nil receiver"")"%string [] else FFall [].
Proof. destruct isnil; reflexivity. Qed.

(* the signature domain and payload type are the constants of the source *)
Theorem ingest_domain_codec :
  model_IngestRequest_Domain = bytes_of_string model_IngestRequestEnvelopeDomain /\
  model_IngestRequest_Codec = bytes_of_string model_IngestRequestEnvelopePayloadType.
Proof. split; reflexivity. Qed.
