(* GenTie_C05 -- ingest/schema/envelope.go: which fields are signed, in which order, as
   regenerated from the Go source (gen/Gen_Funcs_schema.v), against the byte strings
   [ad_raw] / [ep_raw] of model/C05_AdSignature.v that the injectivity theorems are about. *)
From Coq Require Import ZArith NArith List Bool Lia String.
From Lib Require Import Bytes.
From Model Require Import C05_AdSignature.
From Proofs Require Import GenTie_Lib.
From Gen Require Import Gen_Consts Gen_Funcs_prelude Gen_Funcs_schema.
Import ListNotations.
Open Scope Z_scope.

Lemma concat_loop : forall (k : list N -> frag (list N)) (l : list (list N)) (buf : list N),
  schema_signaturePayload_buf_loop_1 k l buf = k (buf ++ concat l)%list.
Proof.
  induction l as [|a r IH]; intros buf; cbn [schema_signaturePayload_buf_loop_1 concat].
  - rewrite app_nil_r; reflexivity.
  - rewrite IH, <- app_assoc; reflexivity.
Qed.

(* signaturePayload: bytes written into sigBuf = ad_raw *)
Theorem tie_signaturePayload_buf : forall (pubkey sigt : Type) (a : ad pubkey sigt) (ent : bytes),
  schema_signaturePayload_buf (a_addrs a) (a_rm a) (a_md a) (a_provider a) (link_bytes (a_prev a)) ent
  = FFall (ad_raw a ent).
Proof.
  intros. unfold schema_signaturePayload_buf, ad_raw, flag. rewrite concat_loop.
  cbn [app]. destruct (a_rm a); rewrite <- !app_assoc; reflexivity.
Qed.

Lemma concat_loop2 : forall (k : list N -> frag (list N)) (l : list (list N)) (buf : list N),
  schema_extendedProviderSignaturePayload_buf_loop_2 k l buf = k (buf ++ concat l)%list.
Proof.
  induction l as [|a r IH]; intros buf; cbn [schema_extendedProviderSignaturePayload_buf_loop_2 concat].
  - rewrite app_nil_r; reflexivity.
  - rewrite IH, <- app_assoc; reflexivity.
Qed.

(* the addrsLen loop only feeds Grow: whatever it computes, the continuation does not depend on it *)
Lemma addrslen_loop : forall (R : frag (list N)) (l : list (list N)) (n : Z),
  schema_extendedProviderSignaturePayload_buf_loop_1 (fun _ => R) l n = R.
Proof. induction l as [|a r IH]; intros n; cbn [schema_extendedProviderSignaturePayload_buf_loop_1]; [reflexivity|apply IH]. Qed.

(* extendedProviderSignaturePayload: bytes written into sigBuf = ep_raw *)
Theorem tie_extendedProviderSignaturePayload_buf :
  forall (pubkey sigt : Type) (a : ad pubkey sigt) (x : ext pubkey sigt) (p : provider pubkey sigt) (ent : bytes),
  schema_extendedProviderSignaturePayload_buf (a_ctx a) (x_override x) (a_provider a) (link_bytes (a_prev a)) ent
     (p_addrs p) (p_id p) (p_md p)
  = FFall (ep_raw a x p ent).
Proof.
  intros. unfold schema_extendedProviderSignaturePayload_buf, ep_raw, flag.
  rewrite addrslen_loop, concat_loop2. cbn [app]. destruct (x_override x); rewrite <- !app_assoc; reflexivity.
Qed.

(* rm advertisements cannot carry extended provider signatures (ep_payload: Err ERmExt) *)
Theorem tie_ep_rm_guard : forall (pubkey sigt : Type) H (a : ad pubkey sigt) x p,
  match schema_extendedProviderSignaturePayload_rm_guard (a_rm a) with
  | FReturn _ _ => ep_payload H a x p = Err ERmExt
  | FFall _ => a_rm a = false
  | _ => False
  end.
Proof.
  intros. unfold schema_extendedProviderSignaturePayload_rm_guard, ep_payload. destruct (a_rm a); reflexivity.
Qed.

(* VerifySignature: a signed payload that is not 34 bytes long is the old format *)
Theorem tie_oldFormat : forall advID : bytes,
  schema_VerifySignature_oldFormat advID = FFall (negb (Nat.eqb (List.length advID) sig_size)).
Proof.
  intros. unfold schema_VerifySignature_oldFormat. change 34 with (Z.of_nat sig_size).
  rewrite len_eqb_nat. reflexivity.
Qed.

(* Sign refuses an advertisement that has extended providers (sign_plain: Err EHasExt) *)
Theorem tie_Sign_guard : forall (privkey pubkey sigt : Type) pub sign H (a : ad pubkey sigt) (k : privkey),
  match schema_Sign_guard (match a_ext a with None => true | Some _ => false end) with
  | FReturn _ _ => sign_plain pub sign H a k = Err EHasExt
  | FFall _ => a_ext a = None
  | _ => False
  end.
Proof.
  intros. unfold schema_Sign_guard, sign_plain. destruct (a_ext a); reflexivity.
Qed.

(* Advertisement.Validate: the two length caps *)
Theorem Validate_caps : forall ctx md : list N,
  schema_Advertisement_Validate ctx md =
  if (schema_MaxContextIDLen <? len ctx) then Some "context id too long"%string
  else if (schema_MaxMetadataLen <? len md) then Some "metadata too long"%string
  else None.
Proof. reflexivity. Qed.
