(* C18 -- proofs about model/C18_Requests.v.

   Everything is proved inside [Section Proofs] for an ARBITRARY signature scheme
   and ARBITRARY record codecs; the idealisations each lemma needs are Section
   Hypotheses, so after the section closes each lemma carries exactly the ones its
   proof uses as explicit premises:

     VS  : VerifySign      VU : VerifyUnique    SI : SignInjective
     PI  : PubInjective    PID: PeerIdInjective
     EQB : peerid_eqb decides equality of peer IDs (Go string comparison)
     CI/CP : the record codecs round-trip (json / protobuf layer, not modelled)
     SI_/SP_ : encoded records are shorter than 2^63 bytes (any Go slice is)

   The last part instantiates the model on the symbolic scheme [Sym] for the
   witnesses (refutation of the old ReadIngestRequest, non-vacuity examples). *)
From Lib Require Import Bytes Varint SymCrypto.
From Model Require Import C18_Requests.
From Coq Require Import Lia.
Open Scope N_scope.

Lemma ingest_dom_nonempty : ingest_dom <> [].
Proof. vm_compute. discriminate. Qed.
Lemma ingest_type_nonempty : ingest_type <> [].
Proof. vm_compute. discriminate. Qed.
Lemma peer_dom_nonempty : peer_dom <> [].
Proof. vm_compute. discriminate. Qed.
Lemma peer_type_nonempty : peer_type <> [].
Proof. vm_compute. discriminate. Qed.
Lemma types_differ : bytes_eqb peer_type ingest_type = false.
Proof. vm_compute. reflexivity. Qed.
Lemma domains_differ : ingest_dom <> peer_dom.
Proof. vm_compute. discriminate. Qed.
Lemma short_ingest_dom : short ingest_dom.
Proof. unfold short. vm_compute. reflexivity. Qed.
Lemma short_ingest_type : short ingest_type.
Proof. unfold short. vm_compute. reflexivity. Qed.
Lemma short_peer_dom : short peer_dom.
Proof. unfold short. vm_compute. reflexivity. Qed.
Lemma short_peer_type : short peer_type.
Proof. unfold short. vm_compute. reflexivity. Qed.

Lemma bytes_eqb_refl b : bytes_eqb b b = true.
Proof. apply bytes_eqb_eq. reflexivity. Qed.

Lemma bytes_eqb_false a b : bytes_eqb a b = false <-> a <> b.
Proof.
  split.
  - intros H E. apply bytes_eqb_eq in E. congruence.
  - intro N. destruct (bytes_eqb a b) eqn:E; [|reflexivity]. apply bytes_eqb_eq in E. contradiction.
Qed.

Section Proofs.
  Variables privkey pubkey sigt peerid : Type.
  Variable pub : privkey -> pubkey.
  Variable sign : privkey -> bytes -> sigt.
  Variable verify : pubkey -> bytes -> sigt -> bool.
  Variable peer_id : pubkey -> peerid.
  Variable peerid_eqb : peerid -> peerid -> bool.
  Variable enc_ingest : ingest_req peerid -> bytes.
  Variable dec_ingest : bytes -> option (ingest_req peerid).
  Variable enc_peer : peer_rec peerid -> bytes.
  Variable dec_peer : bytes -> option (peer_rec peerid).
  Variable maddr_parse : bytes -> option bytes.

  Hypothesis VS : VerifySign pub sign verify.
  Hypothesis VU : VerifyUnique pub sign verify.
  Hypothesis SI : SignInjective sign.
  Hypothesis PI : PubInjective pub.
  Hypothesis PID : PeerIdInjective peer_id.
  Hypothesis EQB : forall a b, peerid_eqb a b = true <-> a = b.
  Hypothesis CI : forall r, dec_ingest (enc_ingest r) = Some r.
  Hypothesis CP : forall r, dec_peer (enc_peer r) = Some r.
  Hypothesis SI_ : forall r, short (enc_ingest r).
  Hypothesis SP_ : forall r, short (enc_peer r).

  Notation read_ingest := (read_ingest verify peer_id peerid_eqb dec_ingest dec_peer).
  Notation read_ingest_v0 := (read_ingest_v0 verify dec_ingest dec_peer).
  Notation read_register := (read_register verify peer_id peerid_eqb dec_ingest dec_peer).
  Notation make_ingest := (make_ingest pub sign enc_ingest).
  Notation make_register := (make_register pub sign enc_peer maddr_parse).
  Notation consume_envelope := (consume_envelope verify dec_ingest dec_peer).
  Notation unmarshal_record := (unmarshal_record dec_ingest dec_peer).

  (* ---- the registry ---- *)

  Lemma unmarshal_ingest_iff ty pl q :
    unmarshal_record ty pl = Ok (RIngest q) <-> ty = ingest_type /\ dec_ingest pl = Some q.
  Proof.
    unfold C18_Requests.unmarshal_record. destruct (bytes_eqb ty ingest_type) eqn:E.
    - apply bytes_eqb_eq in E. subst. destruct (dec_ingest pl); split.
      + intro H; inversion H; auto.
      + intros [_ H]; inversion H; reflexivity.
      + discriminate.
      + intros [_ H]; discriminate.
    - apply bytes_eqb_false in E. destruct (bytes_eqb ty peer_type); [destruct (dec_peer pl)|];
        (split; [discriminate|intros [H _]; contradiction]).
  Qed.

  Lemma unmarshal_peer_iff ty pl q :
    unmarshal_record ty pl = Ok (RPeer q) <-> ty = peer_type /\ dec_peer pl = Some q.
  Proof.
    unfold C18_Requests.unmarshal_record. destruct (bytes_eqb ty ingest_type) eqn:E.
    - apply bytes_eqb_eq in E. subst. destruct (dec_ingest pl);
        (split; [discriminate|intros [H _]; pose proof types_differ as T; rewrite H, bytes_eqb_refl in T; discriminate]).
    - destruct (bytes_eqb ty peer_type) eqn:E2.
      + apply bytes_eqb_eq in E2. subst. destruct (dec_peer pl); split.
        * intro H; inversion H; auto.
        * intros [_ H]; inversion H; reflexivity.
        * discriminate.
        * intros [_ H]; discriminate.
      + apply bytes_eqb_false in E2. split; [discriminate|intros [H _]; contradiction].
  Qed.

  Lemma consume_envelope_ok_iff w dom e r :
    consume_envelope w dom = Ok (e, r) <->
    w = Some e /\ validate verify dom e = true /\ unmarshal_record (e_ty e) (e_payload e) = Ok r.
  Proof.
    unfold C18_Requests.consume_envelope. split.
    - intro H. destruct (consume verify w dom) as [e'| |] eqn:C; cbn in H; try discriminate.
      apply consume_ok_iff in C as [-> V].
      destruct (unmarshal_record (e_ty e') (e_payload e')) as [r'| |] eqn:U; cbn in H; try discriminate.
      inversion H; subst. auto.
    - intros (-> & V & U). unfold consume. rewrite V. cbn. rewrite U. reflexivity.
  Qed.

  (* ---- exact acceptance conditions of the three readers ---- *)

  Lemma read_ingest_v0_ok_iff w q :
    read_ingest_v0 w = Ok q <->
    exists e, w = Some e /\ validate verify ingest_dom e = true /\ e_ty e = ingest_type /\
              dec_ingest (e_payload e) = Some q.
  Proof.
    unfold C18_Requests.read_ingest_v0. split.
    - intro H. destruct (consume_envelope w ingest_dom) as [[e r]| |] eqn:C; cbn in H; try discriminate.
      destruct r as [q'|q']; try discriminate. inversion H; subst.
      apply consume_envelope_ok_iff in C as (-> & V & U). apply unmarshal_ingest_iff in U as [T D].
      exists e. auto.
    - intros (e & -> & V & T & D).
      assert (C : consume_envelope (Some e) ingest_dom = Ok (e, RIngest q)).
      { apply consume_envelope_ok_iff. repeat split; auto. apply unmarshal_ingest_iff. auto. }
      rewrite C. reflexivity.
  Qed.

  Lemma read_ingest_ok_iff w q :
    read_ingest w = Ok q <->
    exists e, w = Some e /\ validate verify ingest_dom e = true /\ e_ty e = ingest_type /\
              dec_ingest (e_payload e) = Some q /\ peer_id (e_key e) = ir_provider q.
  Proof.
    unfold C18_Requests.read_ingest. split.
    - intro H. destruct (consume_envelope w ingest_dom) as [[e r]| |] eqn:C; cbn in H; try discriminate.
      destruct r as [q'|q']; try discriminate.
      destruct (peerid_eqb (peer_id (e_key e)) (ir_provider q')) eqn:P; try discriminate.
      inversion H; subst. apply EQB in P.
      apply consume_envelope_ok_iff in C as (-> & V & U). apply unmarshal_ingest_iff in U as [T D].
      exists e. auto.
    - intros (e & -> & V & T & D & P).
      assert (C : consume_envelope (Some e) ingest_dom = Ok (e, RIngest q)).
      { apply consume_envelope_ok_iff. repeat split; auto. apply unmarshal_ingest_iff. auto. }
      rewrite C. cbn. apply EQB in P. rewrite P. reflexivity.
  Qed.

  Lemma read_register_ok_iff w q :
    read_register w = Ok q <->
    exists e, w = Some e /\ validate verify peer_dom e = true /\ e_ty e = peer_type /\
              dec_peer (e_payload e) = Some q /\ peer_id (e_key e) = pr_peer q.
  Proof.
    unfold C18_Requests.read_register. split.
    - intro H. destruct (consume_envelope w peer_dom) as [[e r]| |] eqn:C; cbn in H; try discriminate.
      destruct r as [q'|q']; try discriminate.
      destruct (peerid_eqb (peer_id (e_key e)) (pr_peer q')) eqn:P; try discriminate.
      inversion H; subst. apply EQB in P.
      apply consume_envelope_ok_iff in C as (-> & V & U). apply unmarshal_peer_iff in U as [T D].
      exists e. auto.
    - intros (e & -> & V & T & D & P).
      assert (C : consume_envelope (Some e) peer_dom = Ok (e, RPeer q)).
      { apply consume_envelope_ok_iff. repeat split; auto. apply unmarshal_peer_iff. auto. }
      rewrite C. cbn. apply EQB in P. rewrite P. reflexivity.
  Qed.

  (* accepted <=> the envelope carries the signature, by the key it carries, over
     (ingest domain, ingest type, its payload), the payload decodes to the request, and
     that key is the key of the provider named *)
  Theorem ingest_accept_iff_proved w q :
    read_ingest w = Ok q <->
    exists e k, w = Some e /\ e_key e = pub k /\ e_ty e = ingest_type /\
                e_sig e = sign k (unsigned ingest_dom ingest_type (e_payload e)) /\
                dec_ingest (e_payload e) = Some q /\ peer_id (pub k) = ir_provider q.
  Proof.
    rewrite read_ingest_ok_iff. split.
    - intros (e & -> & V & T & D & P). apply (validate_iff _ _ _ _ _ _ VS VU) in V as (k & K & S).
      exists e, k. rewrite T in S. rewrite K in P. auto 10.
    - intros (e & k & -> & K & T & S & D & P). exists e. repeat split; auto.
      + apply (validate_iff _ _ _ _ _ _ VS VU). exists k. rewrite T. auto.
      + rewrite K. exact P.
  Qed.

  Theorem register_accept_iff_proved w q :
    read_register w = Ok q <->
    exists e k, w = Some e /\ e_key e = pub k /\ e_ty e = peer_type /\
                e_sig e = sign k (unsigned peer_dom peer_type (e_payload e)) /\
                dec_peer (e_payload e) = Some q /\ peer_id (pub k) = pr_peer q.
  Proof.
    rewrite read_register_ok_iff. split.
    - intros (e & -> & V & T & D & P). apply (validate_iff _ _ _ _ _ _ VS VU) in V as (k & K & S).
      exists e, k. rewrite T in S. rewrite K in P. auto 10.
    - intros (e & k & -> & K & T & S & D & P). exists e. repeat split; auto.
      + apply (validate_iff _ _ _ _ _ _ VS VU). exists k. rewrite T. auto.
      + rewrite K. exact P.
  Qed.

  (* ---- constructors ---- *)

  Theorem make_ingest_accepted k mh ctx md addrs seq :
    let q := IngestReq mh (peer_id (pub k)) ctx md addrs seq in
    exists w, make_ingest (peer_id (pub k)) k mh ctx md addrs seq = Ok w /\ read_ingest w = Ok q.
  Proof.
    intro q. unfold C18_Requests.make_ingest, make_envelope.
    rewrite seal_ok by (apply ingest_dom_nonempty || apply ingest_type_nonempty). cbn.
    eexists. split; [reflexivity|]. apply read_ingest_ok_iff. eexists. split; [reflexivity|]. cbn.
    repeat split; auto. unfold validate. cbn. apply VS.
  Qed.

  Theorem make_register_accepted k addrs ms seq :
    addrs <> [] -> parse_addrs maddr_parse addrs = Ok ms ->
    let q := PeerRec (peer_id (pub k)) ms seq in
    exists w, make_register (peer_id (pub k)) k addrs seq = Ok w /\ read_register w = Ok q.
  Proof.
    intros Hne Hp q. unfold C18_Requests.make_register, make_envelope.
    destruct addrs; [contradiction|]. cbn [is_nil]. rewrite Hp. cbn [bind].
    rewrite seal_ok by (apply peer_dom_nonempty || apply peer_type_nonempty). cbn.
    eexists. split; [reflexivity|]. apply read_register_ok_iff. eexists. split; [reflexivity|]. cbn.
    repeat split; auto. unfold validate. cbn. apply VS.
  Qed.

  (* MakeRegisterRequest fails exactly on an empty or unparsable address list *)
  Lemma parse_addrs_ok_iff l :
    (exists ms, parse_addrs maddr_parse l = Ok ms) <-> Forall (fun a => maddr_parse a <> None) l.
  Proof.
    induction l as [|a l IH]; cbn.
    - split; [constructor|eauto].
    - destruct (maddr_parse a) eqn:E.
      + split.
        * intros [ms H]. constructor; [rewrite E; discriminate|].
          apply IH. destruct (parse_addrs maddr_parse l); cbn in H; try discriminate. eauto.
        * intro F. inversion F; subst. apply IH in H2 as [ms ->]. cbn. eauto.
      + split; [intros [ms H]; discriminate|]. intro F. inversion F; subst. rewrite E in H1. contradiction.
  Qed.

  Theorem make_register_ok_iff prov k addrs seq :
    is_ok (make_register prov k addrs seq) = true <->
    addrs <> [] /\ Forall (fun a => maddr_parse a <> None) addrs.
  Proof.
    unfold C18_Requests.make_register, make_envelope. destruct addrs as [|a l].
    - cbn. split; [discriminate|intros [H _]; contradiction].
    - cbn [is_nil]. rewrite <- parse_addrs_ok_iff. split.
      + intro H. split; [discriminate|]. destruct (parse_addrs maddr_parse (a :: l)); cbn in H; try discriminate. eauto.
      + intros [_ [ms ->]]. cbn [bind].
        rewrite seal_ok by (apply peer_dom_nonempty || apply peer_type_nonempty). reflexivity.
  Qed.

  (* ---- alterations ---- *)

  Lemma not_ok_of_iff {A} (r : res A) : (forall a, r <> Ok a) -> is_ok r = false.
  Proof. destruct r; cbn; intro H; [exfalso; eapply H; reflexivity|reflexivity|reflexivity]. Qed.

  (* a wire whose envelope does not validate under a reader's domain is rejected *)
  Lemma invalid_rejected_ingest e : validate verify ingest_dom e = false -> is_ok (read_ingest (Some e)) = false.
  Proof.
    intro V. apply not_ok_of_iff. intros q H. apply read_ingest_ok_iff in H as (e' & E & V' & _).
    inversion E; subst. congruence.
  Qed.
  Lemma invalid_rejected_register e : validate verify peer_dom e = false -> is_ok (read_register (Some e)) = false.
  Proof.
    intro V. apply not_ok_of_iff. intros q H. apply read_register_ok_iff in H as (e' & E & V' & _).
    inversion E; subst. congruence.
  Qed.

  Theorem altered_rejected_proved :
    (* bytes that do not parse *)
    is_ok (read_ingest None) = false /\ is_ok (read_register None) = false /\
    (* any one of key / payload type / payload / signature replaced in a sealed request *)
    (forall pl k e e', short pl -> seal pub sign ingest_dom ingest_type pl k = Ok e ->
       altered_one_field e e' -> env_short e' -> is_ok (read_ingest (Some e')) = false) /\
    (forall pl k e e', short pl -> seal pub sign peer_dom peer_type pl k = Ok e ->
       altered_one_field e e' -> env_short e' -> is_ok (read_register (Some e')) = false).
  Proof.
    split; [reflexivity|]. split; [reflexivity|]. split; intros pl k e e' Sp Hs Ha Se.
    - apply invalid_rejected_ingest.
      exact (validate_altered_one_field _ _ _ _ _ _ VS VU SI PI ingest_dom ingest_type pl k e e' short_ingest_dom short_ingest_type Sp Hs Ha Se).
    - apply invalid_rejected_register.
      exact (validate_altered_one_field _ _ _ _ _ _ VS VU SI PI peer_dom peer_type pl k e e' short_peer_dom short_peer_type Sp Hs Ha Se).
  Qed.

  Theorem other_domain_rejected_proved :
    (forall dom ty pl k e, short dom -> short ty -> short pl ->
       seal pub sign dom ty pl k = Ok e -> dom <> ingest_dom -> is_ok (read_ingest (Some e)) = false) /\
    (forall dom ty pl k e, short dom -> short ty -> short pl ->
       seal pub sign dom ty pl k = Ok e -> dom <> peer_dom -> is_ok (read_register (Some e)) = false).
  Proof.
    split; intros dom ty pl k e Sd St Sp Hs N; apply seal_inv in Hs as (-> & _ & _).
    - apply invalid_rejected_ingest.
      apply (validate_other_domain _ _ _ _ _ _ VS VU SI); auto using short_ingest_dom.
    - apply invalid_rejected_register.
      apply (validate_other_domain _ _ _ _ _ _ VS VU SI); auto using short_peer_dom.
  Qed.

  (* in particular: what either constructor returns is rejected by the other reader *)
  Corollary cross_replay_rejected_proved :
    (forall prov k mh ctx md addrs seq w,
       make_ingest prov k mh ctx md addrs seq = Ok w -> is_ok (read_register w) = false) /\
    (forall prov k addrs seq w,
       make_register prov k addrs seq = Ok w -> is_ok (read_ingest w) = false).
  Proof.
    destruct other_domain_rejected_proved as [OI OR]. split.
    - intros prov k mh ctx md addrs seq w H. unfold C18_Requests.make_ingest, make_envelope in H.
      destruct (seal pub sign ingest_dom ingest_type (enc_ingest (IngestReq mh prov ctx md addrs seq)) k) as [e| |] eqn:S;
        cbn [bind] in H; try discriminate.
      inversion H; subst.
      exact (OR ingest_dom ingest_type _ k e short_ingest_dom short_ingest_type (SI_ _) S domains_differ).
    - intros prov k addrs seq w H. unfold C18_Requests.make_register, make_envelope in H.
      destruct (is_nil addrs); [discriminate|].
      destruct (parse_addrs maddr_parse addrs) as [ms| |]; cbn [bind] in H; try discriminate.
      destruct (seal pub sign peer_dom peer_type (enc_peer (PeerRec prov ms seq)) k) as [e| |] eqn:S;
        cbn [bind] in H; try discriminate.
      inversion H; subst.
      refine (OI peer_dom peer_type _ k e short_peer_dom short_peer_type (SP_ _) S _).
      intro E. apply domains_differ. auto.
  Qed.

  (* ---- who signed ---- *)

  Theorem register_signer_is_peer_proved w q :
    read_register w = Ok q ->
    exists e k, w = Some e /\ e_key e = pub k /\
                e_sig e = sign k (unsigned peer_dom peer_type (e_payload e)) /\
                peer_id (pub k) = pr_peer q /\
                (forall k', peer_id (pub k') = pr_peer q -> k' = k).
  Proof.
    intro H. apply register_accept_iff_proved in H as (e & k & -> & K & T & S & D & P).
    exists e, k. repeat split; auto. intros k' P'. rewrite <- P in P'. apply PID in P'. apply PI in P'. exact P'.
  Qed.

  Theorem ingest_signer_is_provider_proved w q :
    read_ingest w = Ok q ->
    exists e k, w = Some e /\ e_key e = pub k /\
                e_sig e = sign k (unsigned ingest_dom ingest_type (e_payload e)) /\
                peer_id (pub k) = ir_provider q /\
                (forall k', peer_id (pub k') = ir_provider q -> k' = k).
  Proof.
    intro H. apply ingest_accept_iff_proved in H as (e & k & -> & K & T & S & D & P).
    exists e, k. repeat split; auto. intros k' P'. rewrite <- P in P'. apply PID in P'. apply PI in P'. exact P'.
  Qed.

  (* a correctly sealed request of any OTHER identity than the one it names is rejected *)
  Theorem other_identity_rejected_proved :
    (forall k q e, seal pub sign ingest_dom ingest_type (enc_ingest q) k = Ok e ->
       ir_provider q <> peer_id (pub k) -> is_ok (read_ingest (Some e)) = false) /\
    (forall k q e, seal pub sign peer_dom peer_type (enc_peer q) k = Ok e ->
       pr_peer q <> peer_id (pub k) -> is_ok (read_register (Some e)) = false).
  Proof.
    split; intros k q e Hs N; apply seal_inv in Hs as (-> & _ & _); apply not_ok_of_iff; intros q' H.
    - apply read_ingest_ok_iff in H as (e' & E & _ & _ & D & P). inversion E; subst. cbn in *.
      rewrite CI in D. inversion D; subst. congruence.
    - apply read_register_ok_iff in H as (e' & E & _ & _ & D & P). inversion E; subst. cbn in *.
      rewrite CP in D. inversion D; subst. congruence.
  Qed.

  Lemma read_ingest_not_panic w : is_panic (read_ingest w) = false.
  Proof.
    unfold C18_Requests.read_ingest, C18_Requests.consume_envelope, consume, C18_Requests.unmarshal_record.
    destruct w as [e|]; [|reflexivity].
    destruct (validate verify ingest_dom e); [|reflexivity]. cbn [bind].
    destruct (bytes_eqb (e_ty e) ingest_type);
      [destruct (dec_ingest (e_payload e))
      |destruct (bytes_eqb (e_ty e) peer_type); [destruct (dec_peer (e_payload e))|]];
      cbn; try reflexivity; destruct (peerid_eqb _ _); reflexivity.
  Qed.
  Lemma read_ingest_v0_not_panic w : is_panic (read_ingest_v0 w) = false.
  Proof.
    unfold C18_Requests.read_ingest_v0, C18_Requests.consume_envelope, consume, C18_Requests.unmarshal_record.
    destruct w as [e|]; [|reflexivity].
    destruct (validate verify ingest_dom e); [|reflexivity]. cbn [bind].
    destruct (bytes_eqb (e_ty e) ingest_type);
      [destruct (dec_ingest (e_payload e))
      |destruct (bytes_eqb (e_ty e) peer_type); [destruct (dec_peer (e_payload e))|]];
      cbn; try reflexivity; destruct (peerid_eqb _ _); reflexivity.
  Qed.
  Lemma read_register_not_panic w : is_panic (read_register w) = false.
  Proof.
    unfold C18_Requests.read_register, C18_Requests.consume_envelope, consume, C18_Requests.unmarshal_record.
    destruct w as [e|]; [|reflexivity].
    destruct (validate verify peer_dom e); [|reflexivity]. cbn [bind].
    destruct (bytes_eqb (e_ty e) ingest_type);
      [destruct (dec_ingest (e_payload e))
      |destruct (bytes_eqb (e_ty e) peer_type); [destruct (dec_peer (e_payload e))|]];
      cbn; try reflexivity; destruct (peerid_eqb _ _); reflexivity.
  Qed.

  Theorem readers_never_panic_proved w :
    is_panic (read_ingest w) = false /\ is_panic (read_register w) = false.
  Proof. split; [apply read_ingest_not_panic|apply read_register_not_panic]. Qed.
End Proofs.

(* ------------------------------------------------------------------ *)
(* the symbolic instance: witnesses                                     *)

Definition sym_read_ingest_v0 (di : bytes -> option sreq) (dp : bytes -> option sprec) w := read_ingest_v0 Sym.verify di dp w.
Definition sym_read_ingest (di : bytes -> option sreq) (dp : bytes -> option sprec) w := read_ingest Sym.verify Sym.peer_id Sym.peerid_eqb di dp w.

(* "sealed by B, names A": key 1 correctly seals, for the ingest domain and type, a
   request whose ProviderID is identity 0 *)
Definition w_payload : bytes := [123; 125].
Definition w_request : sreq := IngestReq [18; 1; 7] 0 [1] [2] [] 5.
Definition w_wire : option (envelope Sym.pubkey Sym.sigt) :=
  Some (Envelope 1 ingest_type w_payload (Sym.Sig 1 (unsigned ingest_dom ingest_type w_payload))).
Definition w_dec (b : bytes) : option sreq := if bytes_eqb b w_payload then Some w_request else None.

Theorem ingest_signer_is_provider_v0_refuted_proved :
  exists (w : option (envelope Sym.pubkey Sym.sigt)) (di : bytes -> option sreq) (q : sreq) (e : envelope Sym.pubkey Sym.sigt),
    w = Some e /\
    sym_read_ingest_v0 di (fun _ => None) w = Ok q /\
    Sym.peer_id (e_key e) <> ir_provider q /\
    (* the repaired reader rejects this very input *)
    is_ok (sym_read_ingest di (fun _ => None) w) = false.
Proof.
  exists w_wire, w_dec, w_request. eexists. split; [reflexivity|]. split; [vm_compute; reflexivity|].
  split; [vm_compute; discriminate|vm_compute; reflexivity].
Qed.

(* non-vacuity: an accepted request exists (own key), so the "only if" theorems are
   not about an empty set *)
Example accepted_request_exists :
  sym_read_ingest (fun b => if bytes_eqb b w_payload then Some (IngestReq [18; 1; 7] 1 [1] [2] [] 5) else None)
                  (fun _ => None) w_wire = Ok (IngestReq [18; 1; 7] 1 [1] [2] [] 5).
Proof. vm_compute. reflexivity. Qed.

(* non-vacuity of altered_one_field / env_short: the witness envelope with another key *)
Example altered_example :
  altered_one_field (Envelope 1 ingest_type w_payload (Sym.Sig 1 (unsigned ingest_dom ingest_type w_payload)))
                    (Envelope 2 ingest_type w_payload (Sym.Sig 1 (unsigned ingest_dom ingest_type w_payload))).
Proof. left. cbn. repeat split; try reflexivity. discriminate. Qed.
