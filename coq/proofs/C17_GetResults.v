(* C17 — proofs about model/C17_GetResults.v *)
From Lib Require Import Bytes.
From Model Require Import C17_GetResults.
From Coq Require Import Lia.
Open Scope N_scope.

(* ---------------------------------------------------------------- *)
(* small facts                                                        *)

Lemma mempty_has_own m : mempty m = negb (has_own m).
Proof. destruct m as [[|b l]|]; reflexivity. Qed.

Lemma last_cons {A} (x : A) l d : last (x :: l) d = last l x.
Proof.
  revert x d; induction l as [|y l IH]; intros x d; [reflexivity|].
  change (last (x :: y :: l) d) with (last (y :: l) d).
  rewrite (IH y d), (IH y x). reflexivity.
Qed.

Lemma ctx_index_lookup_gen ctx l acc :
  fold_left (fun acc c => if bytes_eqb (cx_id c) ctx then Some c else acc) l acc
  = last (map Some (filter (fun c => bytes_eqb (cx_id c) ctx) l)) acc.
Proof.
  revert acc; induction l as [|c l IH]; intro acc; [reflexivity|].
  cbn [fold_left filter]. destruct (bytes_eqb (cx_id c) ctx).
  - rewrite IH. cbn [map]. rewrite last_cons. reflexivity.
  - apply IH.
Qed.

Lemma ctx_index_lookup_registered ctx l : ctx_index_lookup ctx l = registered ctx l.
Proof. apply ctx_index_lookup_gen. Qed.

Lemma skipn_nth_none {A} (l : list A) i : nth_error l i = None -> skipn i l = [].
Proof. intro H. apply nth_error_None in H. apply skipn_all2. exact H. Qed.

Lemma skipn_nth_some {A} (l : list A) i x : nth_error l i = Some x -> skipn i l = x :: skipn (S i) l.
Proof.
  revert i; induction l as [|y l IH]; intros [|i] H; try discriminate.
  - inversion H; reflexivity.
  - cbn in H. apply IH in H. exact H.
Qed.

Lemma entries_nil_mds provs : entries provs [] = map (fun p => (p, None)) provs.
Proof. induction provs as [|p ps IH]; [reflexivity|]. cbn. rewrite IH. reflexivity. Qed.

(* ---------------------------------------------------------------- *)
(* the loop of the repaired code computes the specified set           *)

Lemma expand_spec pid ctx md provs : forall mds i,
  expand pid ctx md provs mds i = spec_set pid ctx md provs (skipn i mds).
Proof.
  unfold spec_set.
  induction provs as [|p ps IH]; intros mds i; [reflexivity|].
  cbn [expand]. unfold md_at.
  destruct (nth_error mds i) as [m|] eqn:E.
  - rewrite (skipn_nth_some _ _ _ E). cbn [entries flat_map spec_entry].
    unfold adds_nothing. rewrite mempty_has_own. unfold mequal.
    destruct ((ai_id p =? pid) && (negb (has_own m) || bytes_eqb (mcontent m) (mcontent md))).
    + cbn [app]. apply IH.
    + rewrite IH. destruct (has_own m); reflexivity.
  - rewrite (skipn_nth_none _ _ E). cbn [entries flat_map spec_entry].
    unfold adds_nothing. cbn [has_own mempty mlen Nat.eqb negb orb].
    rewrite andb_true_r.
    assert (E' : nth_error mds (S i) = None).
    { apply nth_error_None. apply nth_error_None in E. lia. }
    specialize (IH mds (S i)). rewrite (skipn_nth_none _ _ E') in IH.
    destruct (ai_id p =? pid).
    + cbn [app]. exact IH.
    + rewrite IH. reflexivity.
Qed.

Lemma expand_spec0 pid ctx md provs mds :
  expand pid ctx md provs mds 0 = spec_set pid ctx md provs mds.
Proof. apply (expand_spec pid ctx md provs mds 0%nat). Qed.

(* ---------------------------------------------------------------- *)
(* main theorems                                                      *)

Lemma get_results_eq_spec_l : forall r pid ctx md,
  get_results r pid ctx md = Ok (spec_results r pid ctx md).
Proof.
  intros [main [x|]] pid ctx md; unfold get_results, spec_results; cbn [r_ext r_main]; [|reflexivity].
  rewrite ctx_index_lookup_registered.
  destruct (registered ctx (xp_ctxs x)) as [c|].
  - rewrite !expand_spec0. destruct (cx_override c); [rewrite app_nil_r|]; reflexivity.
  - rewrite expand_spec0. reflexivity.
Qed.

Lemma get_results_no_panic_l : forall r pid ctx md,
  exists l, get_results r pid ctx md = Ok l.
Proof. intros. eexists. apply get_results_eq_spec_l. Qed.

(* stated with the outcome predicates too *)
Lemma get_results_never_panics : forall r pid ctx md, is_panic (get_results r pid ctx md) = false.
Proof. intros. rewrite get_results_eq_spec_l. reflexivity. Qed.

(* ---------------------------------------------------------------- *)
(* what the unrepaired code did: both statements are false of it     *)

Definition witness_short : record :=
  REC (AI 1 0) (Some (XP [AI 2 1] [] [])).

Lemma get_results_v0_no_panic_refuted :
  exists r pid ctx md, get_results_v0 r pid ctx md = Panic PANIC_INDEX.
Proof. exists witness_short, 1, [], (Some [7]). vm_compute. reflexivity. Qed.

Definition witness_ctx_empty : record :=
  REC (AI 1 0) (Some (XP [] [] [CX [99] false [AI 2 1] [Some []]])).

Lemma get_results_v0_eq_spec_refuted :
  exists r pid ctx md l, get_results_v0 r pid ctx md = Ok l /\ l <> spec_results r pid ctx md.
Proof.
  exists witness_ctx_empty, 1, [99], (Some [7]). eexists. split.
  - vm_compute. reflexivity.
  - vm_compute. intro H. discriminate H.
Qed.

(* where the lists have matching lengths and no contextual metadata is empty-but-not-nil
   the old code already met the specification (so the repairs change nothing there) *)
Definition no_empty_nonnil (mds : list mbytes) : Prop :=
  Forall (fun m => m <> Some []) mds.

Lemma expand_v0_ok nil_only pid ctx md provs : forall mds i,
  (length provs + i <= length mds)%nat ->
  (nil_only = true -> no_empty_nonnil mds) ->
  expand_v0 nil_only pid ctx md provs mds i = Ok (expand pid ctx md provs mds i).
Proof.
  induction provs as [|p ps IH]; intros mds i Hl Hn; [reflexivity|].
  cbn [expand_v0 expand]. unfold md_at. cbn [length] in Hl.
  destruct (nth_error mds i) as [m|] eqn:E.
  2:{ apply nth_error_None in E. lia. }
  rewrite IH by (try lia; assumption).
  destruct ((ai_id p =? pid) && (mempty m || mequal m md)); [reflexivity|].
  cbn [bind].
  assert (Hm : (if nil_only then mnil m else mempty m) = mempty m).
  { destruct nil_only; [|reflexivity].
    specialize (Hn eq_refl). unfold no_empty_nonnil in Hn. rewrite Forall_forall in Hn.
    apply nth_error_In in E. specialize (Hn _ E).
    destruct m as [[|b l]|]; try reflexivity. exfalso; apply Hn; reflexivity. }
  rewrite Hm. reflexivity.
Qed.

Definition well_shaped (r : record) : Prop :=
  match r_ext r with
  | None => True
  | Some x =>
    (length (xp_provs x) <= length (xp_mds x))%nat /\
    Forall (fun c => (length (cx_provs c) <= length (cx_mds c))%nat /\ no_empty_nonnil (cx_mds c)) (xp_ctxs x)
  end.

Lemma registered_in ctx l c : registered ctx l = Some c -> In c l.
Proof.
  unfold registered.
  assert (G : forall l' d, last (map Some l') d = Some c -> (In c l' \/ d = Some c)).
  { induction l' as [|y l' IH]; intros d H; [right; exact H|].
    cbn [map] in H. rewrite last_cons in H. apply IH in H as [H|H]; [left; right; exact H|].
    left; left; congruence. }
  intro H. apply G in H as [H|H]; [|discriminate].
  apply filter_In in H. apply H.
Qed.

Lemma get_results_v0_agrees_on_well_shaped r pid ctx md :
  well_shaped r -> get_results_v0 r pid ctx md = get_results r pid ctx md.
Proof.
  destruct r as [main [x|]]; unfold well_shaped, get_results_v0, get_results; cbn [r_ext r_main]; [|reflexivity].
  intros [Hx Hc].
  rewrite ctx_index_lookup_registered.
  destruct (registered ctx (xp_ctxs x)) as [c|] eqn:E.
  - apply registered_in in E. rewrite Forall_forall in Hc. destruct (Hc _ E) as [Hl Hn].
    rewrite expand_v0_ok by (try lia; auto). cbn [bind].
    destruct (cx_override c); [reflexivity|].
    rewrite expand_v0_ok by (try lia; intro; discriminate). reflexivity.
  - rewrite expand_v0_ok by (try lia; intro; discriminate). reflexivity.
Qed.

(* ---------------------------------------------------------------- *)
(* structural lemmas, stated on the output of the code's model, not via spec_results *)

(* every element produced by a loop comes from one of the listed providers, carries the
   looked-up context ID, has non-empty metadata or the looked-up one, and is not the
   provider itself repeating the looked-up metadata *)
Definition from_set (pid : N) (ctx : bytes) (md : mbytes) (provs : list addrinfo) (e : result) : Prop :=
  In (pr_prov e) provs /\ pr_ctx e = ctx /\
  (pr_md e = md \/ mempty (pr_md e) = false) /\
  (ai_id (pr_prov e) = pid -> mequal (pr_md e) md = false /\ mempty (pr_md e) = false).

Lemma expand_from_set pid ctx md provs : forall mds i,
  Forall (from_set pid ctx md provs) (expand pid ctx md provs mds i).
Proof.
  induction provs as [|p ps IH]; intros mds i; [constructor|].
  cbn [expand].
  assert (W : forall l, Forall (from_set pid ctx md ps) l -> Forall (from_set pid ctx md (p :: ps)) l).
  { intros l H. eapply Forall_impl; [|exact H]. intros e (A & B & C & D).
    repeat split; try assumption; try (right; assumption); apply D; assumption. }
  destruct ((ai_id p =? pid) && (mempty (md_at mds i) || mequal (md_at mds i) md)) eqn:E.
  - apply W, IH.
  - constructor; [|apply W, IH].
    unfold from_set; cbn [pr_prov pr_ctx pr_md]. split; [left; reflexivity|]. split; [reflexivity|].
    split.
    + destruct (mempty (md_at mds i)) eqn:Em; [left; reflexivity|right; exact Em].
    + intro Hid. apply N.eqb_eq in Hid. rewrite Hid in E. cbn [andb] in E.
      apply orb_false_elim in E as [E1 E2]. rewrite E1. split; assumption.
Qed.

(* the expansion keeps the order of the provider list *)
Lemma expand_order pid ctx md provs : forall mds i,
  exists keep : list bool, length keep = length provs /\
    map pr_prov (expand pid ctx md provs mds i)
    = map snd (filter fst (combine keep provs)).
Proof.
  induction provs as [|p ps IH]; intros mds i; [exists []; split; reflexivity|].
  destruct (IH mds (S i)) as (k & Hk & Hm). cbn [expand].
  destruct ((ai_id p =? pid) && (mempty (md_at mds i) || mequal (md_at mds i) md)).
  - exists (false :: k). split; [cbn; lia|]. cbn [combine filter fst]. exact Hm.
  - exists (true :: k). split; [cbn; lia|]. cbn [combine filter fst map snd pr_prov]. rewrite Hm. reflexivity.
Qed.

Lemma main_provider_first_l r pid ctx md l :
  get_results r pid ctx md = Ok l -> exists t, l = PR ctx md (r_main r) :: t.
Proof.
  unfold get_results. destruct (r_ext r) as [x|].
  - destruct (ctx_index_lookup ctx (xp_ctxs x)) as [c|]; [destruct (cx_override c)|];
      intro H; inversion H; eexists; reflexivity.
  - intro H; inversion H; eexists; reflexivity.
Qed.

Lemma contextual_before_chain_l r pid ctx md l x :
  r_ext r = Some x ->
  get_results r pid ctx md = Ok l ->
  exists lc lx,
    l = PR ctx md (r_main r) :: lc ++ lx /\
    match registered ctx (xp_ctxs x) with
    | Some c => Forall (from_set pid ctx md (cx_provs c)) lc /\
                (cx_override c = true -> lx = [])
    | None => lc = []
    end /\
    Forall (from_set pid ctx md (xp_provs x)) lx.
Proof.
  intros Hx. unfold get_results. rewrite Hx. rewrite ctx_index_lookup_registered.
  destruct (registered ctx (xp_ctxs x)) as [c|].
  - destruct (cx_override c) eqn:Ho; intro H; inversion H; subst l.
    + exists (expand pid ctx md (cx_provs c) (cx_mds c) 0), []. rewrite app_nil_r. split; [reflexivity|]. split; [|constructor].
      split; [apply expand_from_set|reflexivity].
    + exists (expand pid ctx md (cx_provs c) (cx_mds c) 0), (expand pid ctx md (xp_provs x) (xp_mds x) 0).
      split; [reflexivity|]. split; [|apply expand_from_set].
      split; [apply expand_from_set|discriminate].
  - intro H; inversion H; subst l. exists [], (expand pid ctx md (xp_provs x) (xp_mds x) 0).
    split; [reflexivity|]. split; [reflexivity|apply expand_from_set].
Qed.

Lemma override_drops_chain_l r pid ctx md l x c :
  r_ext r = Some x -> registered ctx (xp_ctxs x) = Some c -> cx_override c = true ->
  get_results r pid ctx md = Ok l ->
  exists lc, l = PR ctx md (r_main r) :: lc /\ Forall (from_set pid ctx md (cx_provs c)) lc.
Proof.
  intros Hx Hc Ho. unfold get_results. rewrite Hx, ctx_index_lookup_registered, Hc, Ho.
  intro H; inversion H. eexists; split; [reflexivity|apply expand_from_set].
Qed.

(* skip rule and substitution rule on the whole output: after the first element, no
   result names the looked-up provider with the looked-up (or no) metadata, and no result
   has empty metadata unless the looked-up metadata itself is what it carries *)
Lemma skip_and_substitution_l r pid ctx md l :
  get_results r pid ctx md = Ok l ->
  Forall (fun e => (ai_id (pr_prov e) = pid -> mequal (pr_md e) md = false /\ mempty (pr_md e) = false) /\
                   (pr_md e = md \/ mempty (pr_md e) = false) /\ pr_ctx e = ctx) (tl l).
Proof.
  intro H.
  assert (W : forall provs l', Forall (from_set pid ctx md provs) l' ->
    Forall (fun e => (ai_id (pr_prov e) = pid -> mequal (pr_md e) md = false /\ mempty (pr_md e) = false) /\
                   (pr_md e = md \/ mempty (pr_md e) = false) /\ pr_ctx e = ctx) l').
  { intros provs l' F. eapply Forall_impl; [|exact F]. intros e (A & B & C & D). auto. }
  destruct (r_ext r) as [x|] eqn:Hx.
  - destruct (contextual_before_chain_l _ _ _ _ _ _ Hx H) as (lc & lx & -> & Hc & Hl).
    cbn [tl]. apply Forall_app. split; [|eapply W; exact Hl].
    destruct (registered ctx (xp_ctxs x)) as [c|]; [eapply W; apply Hc|subst lc; constructor].
  - unfold get_results in H. rewrite Hx in H. inversion H. constructor.
Qed.

(* every extended provider entry that is not the provider's own appears: nothing but own
   entries is ever dropped *)
Lemma expand_keeps_others pid ctx md provs : forall mds i p,
  In p provs -> ai_id p <> pid -> In p (map pr_prov (expand pid ctx md provs mds i)).
Proof.
  induction provs as [|q qs IH]; intros mds i p Hin Hne; [contradiction|].
  cbn [expand]. destruct Hin as [->|Hin].
  - apply N.eqb_neq in Hne. rewrite Hne. cbn [andb map pr_prov]. left; reflexivity.
  - destruct ((ai_id q =? pid) && _); [apply IH; assumption|]. right. apply IH; assumption.
Qed.

Lemma extended_providers_complete_l r pid ctx md l x p :
  r_ext r = Some x -> get_results r pid ctx md = Ok l -> ai_id p <> pid ->
  match registered ctx (xp_ctxs x) with
  | Some c => (In p (cx_provs c) -> In p (map pr_prov (tl l))) /\
              (cx_override c = false -> In p (xp_provs x) -> In p (map pr_prov (tl l)))
  | None => In p (xp_provs x) -> In p (map pr_prov (tl l))
  end.
Proof.
  intros Hx H Hne. unfold get_results in H. rewrite Hx, ctx_index_lookup_registered in H.
  destruct (registered ctx (xp_ctxs x)) as [c|].
  - destruct (cx_override c); inversion H; subst l; cbn [tl]; split; intros.
    + apply expand_keeps_others; assumption.
    + discriminate.
    + rewrite map_app. apply in_or_app. left. apply expand_keeps_others; assumption.
    + rewrite map_app. apply in_or_app. right. apply expand_keeps_others; assumption.
  - inversion H; subst l; cbn [tl]. intro. apply expand_keeps_others; assumption.
Qed.

(* ---------------------------------------------------------------- *)
(* non-vacuity: a record using every rule at once                     *)

Definition example_record : record :=
  REC (AI 1 0)
      (Some (XP [AI 1 1; AI 2 2; AI 3 3; AI 1 4] [Some [7]; None; Some [8]; Some [9]]
                [CX [5] false [AI 4 5; AI 1 6; AI 5 7] [Some []; None];
                 CX [6] true [AI 6 8] [Some [1;2]; Some [3]]])).

Example example_union :
  get_results example_record 1 [5] (Some [7]) =
  Ok [PR [5] (Some [7]) (AI 1 0);
      PR [5] (Some [7]) (AI 4 5); PR [5] (Some [7]) (AI 5 7);
      PR [5] (Some [7]) (AI 2 2); PR [5] (Some [8]) (AI 3 3); PR [5] (Some [9]) (AI 1 4)].
Proof. vm_compute. reflexivity. Qed.

Example example_override :
  get_results example_record 1 [6] (Some [7]) =
  Ok [PR [6] (Some [7]) (AI 1 0); PR [6] (Some [1;2]) (AI 6 8)].
Proof. vm_compute. reflexivity. Qed.

Example example_v0_panics :
  get_results_v0 example_record 1 [5] (Some [7]) = Panic PANIC_INDEX.
Proof. vm_compute. reflexivity. Qed.

(* ---------------------------------------------------------------- *)
(* lookups do not influence one another *)
Lemma getresults_history_independent_l r pid pre ctx md post :
  nth_error (run_calls r pid (pre ++ (ctx, md) :: post)) (List.length pre)
  = Some (Ok (spec_results r pid ctx md)).
Proof.
  unfold run_calls. rewrite map_app. rewrite nth_error_app2 by (rewrite map_length; apply Nat.le_refl).
  rewrite map_length, Nat.sub_diag. cbn. rewrite get_results_eq_spec_l. reflexivity.
Qed.
