(* GenTie_C20 -- maurl/convert.go and mautil/mautil.go: scheme and path selection of ToURL, the
   IPv6 bracket decision, the http-path validator, and the predicates of FilterPublic /
   FindHTTPAddrs, as regenerated from the Go source (gen/Gen_Funcs_maurl.v,
   gen/Gen_Funcs_mautil.v), against model/C20_Maurl.v and model/C20_Mautil.v. *)
From Coq Require Import ZArith NArith List Bool Lia String.
From Lib Require Import Bytes Escape.
From Model Require Import C20_Maurl C20_Mautil.
From Proofs Require Import GenTie_Lib.
From Gen Require Import Gen_Consts Gen_Funcs_prelude Gen_Funcs_maurl Gen_Funcs_mautil.
Import ListNotations.
Open Scope Z_scope.

(* ---- ToURL: the scheme ladder ---- *)
Definition scheme_bytes (s : scheme) : list N :=
  bytes_of_string (match s with SHttp => "http" | SHttps => "https" | SWs => "ws" | SWss => "wss" end).

Theorem tie_ToURL_scheme : forall m : maddr,
  maurl_ToURL_scheme (existsb is_http m) (existsb is_https m) (existsb is_tls m) (existsb is_ws m) (existsb is_wss m)
  = FFall (scheme_bytes (scheme_of m)).
Proof.
  intros. unfold maurl_ToURL_scheme, scheme_of.
  destruct (existsb is_https m), (existsb is_http m), (existsb is_tls m), (existsb is_wss m), (existsb is_ws m); reflexivity.
Qed.

(* ---- ToURL: the path ---- *)
Definition to_go (r : res bytes) : list N * option string :=
  match r with
  | Ok p => (p, None)
  | _ => ([], Some "invalid URL escape"%string)
  end.
Definition has {A} (o : option A) : bool := match o with Some _ => true | None => false end.

Theorem tie_ToURL_path : forall (unesc_new : bytes -> res bytes) (m : maddr),
  maurl_ToURL_path (fun b => to_go (path_unescape b)) (fun b => to_go (unesc_new b))
     (match first_httppath m with Some b => httppath_bts b | None => [] end)
     (match first_httpath m with Some b => b | None => [] end)
     None                                       (* err is nil at this point of ToURL *)
     (has (first_httppath m)) (has (first_httpath m))
  = FFall (path_of_with unesc_new m).
Proof.
  intros. unfold maurl_ToURL_path, path_of_with.
  destruct (first_httppath m) as [b|]; cbn [has].
  - unfold or_empty, to_go. destruct (unesc_new (httppath_bts b)); reflexivity.
  - destruct (first_httpath m) as [b|]; cbn [has]; [|reflexivity].
    unfold or_empty, to_go. destruct (path_unescape b); reflexivity.
Qed.

(* ---- ToURL: a host that parses as an IP which is not IPv4 gets brackets ---- *)
Theorem ToURL_host_brackets_table :
  forall (IP : Type) (parse : list N -> IP) (isnil : IP -> bool) (to4 : IP -> IP) (equal : IP -> IP -> bool)
         (sprintf : list N -> list N -> list N) (host : list N),
  maurl_ToURL_host_brackets IP sprintf parse isnil equal to4 host
  = FFall (if negb (isnil (parse host)) && negb (equal (to4 (parse host)) (parse host))
           then sprintf (bytes_of_string "[%s]") host else host).
Proof.
  intros. unfold maurl_ToURL_host_brackets.
  destruct (isnil (parse host)); cbn [negb andb]; [reflexivity|].
  destruct (equal (to4 (parse host)) (parse host)); reflexivity.
Qed.

(* ---- pathVal: an http-path value must not contain a slash ---- *)
Theorem pathVal_table : forall (index : list N -> Z -> Z) (b : list N),
  maurl_pathVal index b = if 0 <=? index b 47 then Some "encoded path '%s' contains a slash"%string else None.
Proof. reflexivity. Qed.

(* ---- FilterPublic: the predicate ---- *)
(* reading: a multiaddr is the model's [addr]; its first component is (protocol code, value is
   "localhost"?), absent for a multiaddr without components *)
Definition comp_of (a : addr) : option (N * bool) :=
  match a_protos a with [] => None | c :: _ => Some (c, a_localhost a) end.
Definition comp_value (c : option (N * bool)) : list N :=
  match c with Some (_, true) => bytes_of_string "localhost" | _ => bytes_of_string "example.com" end.
Definition comp_code (c : option (N * bool)) : N := match c with Some (n, _) => n | None => 0%N end.

Lemma eqbZ (a b : N) : (Z.of_N a =? Z.of_N b) = (a =? b)%N.
Proof. destruct (N.eqb_spec a b); [apply Z.eqb_eq|apply Z.eqb_neq]; lia. Qed.

Theorem tie_FilterPublic_keep : forall a : addr,
  mautil_FilterPublic_keep (option (N * bool)) addr N (fun a => (comp_of a, a)) Z.of_N
     (fun c => match c with None => true | Some _ => false end) a_nil
     comp_code comp_value a (a_unspec a) (a_public a)
  = keep_public a.
Proof.
  intros. unfold mautil_FilterPublic_keep, keep_public, comp_of.
  destruct (a_nil a); [reflexivity|].
  destruct (a_protos a) as [|c r]; [reflexivity|]. cbn [comp_code].
  change ext_multiaddr_P_IP4 with (Z.of_N P_IP4). change ext_multiaddr_P_IP6 with (Z.of_N P_IP6).
  change ext_multiaddr_P_IP6ZONE with (Z.of_N P_IP6ZONE). change ext_multiaddr_P_IPCIDR with (Z.of_N P_IPCIDR).
  change ext_multiaddr_P_DNS with (Z.of_N P_DNS). change ext_multiaddr_P_DNS4 with (Z.of_N P_DNS4).
  change ext_multiaddr_P_DNS6 with (Z.of_N P_DNS6). change ext_multiaddr_P_DNSADDR with (Z.of_N P_DNSADDR).
  rewrite !eqbZ. fold (is_ip_code c). fold (is_dns_code c).
  destruct (is_ip_code c); [reflexivity|]. destruct (is_dns_code c); [|reflexivity].
  unfold comp_value. destruct (a_localhost a); reflexivity.
Qed.

(* ---- FindHTTPAddrs: the predicate ---- *)
Theorem tie_FindHTTPAddrs_keep : forall a : addr,
  mautil_FindHTTPAddrs_keep addr N Z.of_N a_nil a_protos a = has_http a.
Proof.
  intros. unfold mautil_FindHTTPAddrs_keep, has_http. destruct (a_nil a); cbn [negb andb]; [reflexivity|].
  induction (a_protos a) as [|p r IH]; cbn [mautil_FindHTTPAddrs_keep_loop_2 existsb]; [reflexivity|].
  change ext_multiaddr_P_HTTP with (Z.of_N P_HTTP). change ext_multiaddr_P_HTTPS with (Z.of_N P_HTTPS).
  rewrite !eqbZ. destruct ((p =? P_HTTP)%N || (p =? P_HTTPS)%N); [reflexivity|exact IH].
Qed.

(* FilterPublic returns nil rather than an empty slice; MultiaddrsEqual's shortcuts *)
Theorem FilterPublic_nil_result_table : forall (T : Type) (l : list T),
  mautil_FilterPublic_nil_result T l = if is_nil l then FReturn "return nil"%string [] else FFall [].
Proof. intros. unfold mautil_FilterPublic_nil_result. rewrite len_eqb_0. destruct l; reflexivity. Qed.

Theorem MultiaddrsEqual_head_table : forall (T : Type) (a b : list T),
  mautil_MultiaddrsEqual_head T a b =
  if negb (len a =? len b) then FReturn "return false"%string []
  else if len a =? 0 then FReturn "return true"%string []
  else if len a =? 1 then FReturn "return ma1[0].Equal(ma2[0])"%string []
  else FFall [].
Proof. reflexivity. Qed.
