(* GenTie_C20 -- maurl/convert.go and mautil/mautil.go: scheme and path selection of ToURL, the
   IPv6 bracket decision, the http-path validator, and the predicates of FilterPublic /
   FindHTTPAddrs, as regenerated from the Go source (gen/Gen_Funcs_maurl.v,
   gen/Gen_Funcs_mautil.v), against model/C20_Maurl.v and model/C20_Mautil.v. *)
From Coq Require Import ZArith NArith List Bool Lia String.
From Lib Require Import Bytes Escape.
From Model Require Import C20_Maurl C20_Mautil.
From Proofs Require Import GenTie_Lib.
From Gen Require Import Gen_Consts Gen_Funcs_prelude Gen_Funcs_maurl Gen_Funcs_mautil.
Import ListNotations.
Open Scope Z_scope.

(* ---- ToURL: the scheme ladder ---- *)
Definition scheme_bytes (s : scheme) : list N :=
  bytes_of_string (match s with SHttp => "http" | SHttps => "https" | SWs => "ws" | SWss => "wss" end).

Theorem tie_ToURL_scheme : forall m : maddr,
  maurl_ToURL_scheme (existsb is_http m) (existsb is_https m) (existsb is_tls m) (existsb is_ws m) (existsb is_wss m)
  = FFall (scheme_bytes (scheme_of m)).
Proof.
  intros. unfold maurl_ToURL_scheme, scheme_of.
  destruct (existsb is_https m), (existsb is_http m), (existsb is_tls m), (existsb is_wss m), (existsb is_ws m); reflexivity.
Qed.

(* ---- ToURL: the path ---- *)
Definition to_go (r : res bytes) : list N * option string :=
  match r with
  | Ok p => (p, None)
  | _ => ([], Some "invalid URL escape"%string)
  end.
Definition has {A} (o : option A) : bool := match o with Some _ => true | None => false end.

Theorem tie_ToURL_path : forall (unesc_new : bytes -> res bytes) (m : maddr),
  maurl_ToURL_path (fun b => to_go (path_unescape b)) (fun b => to_go (unesc_new b))
     (match first_httppath m with Some b => httppath_bts b | None => [] end)
     (match first_httpath m with Some b => b | None => [] end)
     None                                       (* err is nil at this point of ToURL *)
     (has (first_httppath m)) (has (first_httpath m))
  = FFall (path_of_with unesc_new m).
Proof.
  intros. unfold maurl_ToURL_path, path_of_with.
  destruct (first_httppath m) as [b|]; cbn [has].
  - unfold or_empty, to_go. destruct (unesc_new (httppath_bts b)); reflexivity.
  - destruct (first_httpath m) as [b|]; cbn [has]; [|reflexivity].
    unfold or_empty, to_go. destruct (path_unescape b); reflexivity.
Qed.

(* ---- ToURL: a host that parses as an IP which is not IPv4 gets brackets ---- *)
Theorem ToURL_host_brackets_table :
  forall (IP : Type) (parse : list N -> IP) (isnil : IP -> bool) (to4 : IP -> IP) (equal : IP -> IP -> bool)
         (sprintf : list N -> list N -> list N) (host : list N),
  maurl_ToURL_host_brackets IP sprintf parse isnil equal to4 host
  = FFall (if negb (isnil (parse host)) && negb (equal (to4 (parse host)) (parse host))
           then sprintf (bytes_of_string "[%s]") host else host).
Proof.
  intros. unfold maurl_ToURL_host_brackets.
  destruct (isnil (parse host)); cbn [negb andb]; [reflexivity|].
  destruct (equal (to4 (parse host)) (parse host)); reflexivity.
Qed.

(* ---- pathVal: an http-path value must not contain a slash ---- *)
Theorem pathVal_table : forall (index : list N -> Z -> Z) (b : list N),
  maurl_pathVal index b = if 0 <=? index b 47 then Some "encoded path '%s' contains a slash"%string else None.
Proof. reflexivity. Qed.

(* ---- FilterPublic: the predicate ---- *)
(* reading: a multiaddr is the model's [addr]; its first component is (protocol code, value is
   "localhost"?), absent for a multiaddr without components *)
Definition comp_of (a : addr) : option (N * bool) :=
  match a_protos a with [] => None | c :: _ => Some (c, a_localhost a) end.
Definition comp_value (c : option (N * bool)) : list N :=
  match c with Some (_, true) => bytes_of_string "localhost" | _ => bytes_of_string "example.com" end.
Definition comp_code (c : option (N * bool)) : N := match c with Some (n, _) => n | None => 0%N end.

Lemma eqbZ (a b : N) : (Z.of_N a =? Z.of_N b) = (a =? b)%N.
Proof. destruct (N.eqb_spec a b); [apply Z.eqb_eq|apply Z.eqb_neq]; lia. Qed.

Theorem tie_FilterPublic_keep : forall a : addr,
  mautil_FilterPublic_keep (option (N * bool)) addr N (fun a => (comp_of a, a)) Z.of_N
     (fun c => match c with None => true | Some _ => false end) a_nil
     comp_code comp_value a (a_unspec a) (a_public a)
  = keep_public a.
Proof.
  intros. unfold mautil_FilterPublic_keep, keep_public, comp_of.
  destruct (a_nil a); [reflexivity|].
  destruct (a_protos a) as [|c r]; [reflexivity|]. cbn [comp_code].
  change ext_multiaddr_P_IP4 with (Z.of_N P_IP4). change ext_multiaddr_P_IP6 with (Z.of_N P_IP6).
  change ext_multiaddr_P_IP6ZONE with (Z.of_N P_IP6ZONE). change ext_multiaddr_P_IPCIDR with (Z.of_N P_IPCIDR).
  change ext_multiaddr_P_DNS with (Z.of_N P_DNS). change ext_multiaddr_P_DNS4 with (Z.of_N P_DNS4).
  change ext_multiaddr_P_DNS6 with (Z.of_N P_DNS6). change ext_multiaddr_P_DNSADDR with (Z.of_N P_DNSADDR).
  rewrite !eqbZ. fold (is_ip_code c). fold (is_dns_code c).
  destruct (is_ip_code c); [reflexivity|]. destruct (is_dns_code c); [|reflexivity].
  unfold comp_value. destruct (a_localhost a); reflexivity.
Qed.

(* ---- FindHTTPAddrs: the predicate ---- *)
Theorem tie_FindHTTPAddrs_keep : forall a : addr,
  mautil_FindHTTPAddrs_keep addr N Z.of_N a_nil a_protos a = has_http a.
Proof.
  intros. unfold mautil_FindHTTPAddrs_keep, has_http. destruct (a_nil a); cbn [negb andb]; [reflexivity|].
  induction (a_protos a) as [|p r IH]; cbn [mautil_FindHTTPAddrs_keep_loop_2 existsb]; [reflexivity|].
  change ext_multiaddr_P_HTTP with (Z.of_N P_HTTP). change ext_multiaddr_P_HTTPS with (Z.of_N P_HTTPS).
  rewrite !eqbZ. destruct ((p =? P_HTTP)%N || (p =? P_HTTPS)%N); [reflexivity|exact IH].
Qed.

(* FilterPublic returns nil rather than an empty slice; MultiaddrsEqual's shortcuts *)
Theorem FilterPublic_nil_result_table : forall (T : Type) (l : list T),
  mautil_FilterPublic_nil_result T l = if is_nil l then FReturn "return nil"%string [] else FFall [].
Proof. intros. unfold mautil_FilterPublic_nil_result. rewrite len_eqb_0. destruct l; reflexivity. Qed.

Theorem MultiaddrsEqual_head_table : forall (T : Type) (a b : list T),
  mautil_MultiaddrsEqual_head T a b =
  if negb (len a =? len b) then FReturn "return false"%string []
  else if len a =? 0 then FReturn "return true"%string []
  else if len a =? 1 then FReturn "return ma1[0].Equal(ma2[0])"%string []
  else FFall [].
Proof. reflexivity. Qed.

(* ================================================================== *)
(* phase 2: mautil.CleanPeerAddrInfo's loop (nil addresses are removed by moving the last
   element into their place) is the model's [clean_f], for every amount of fuel *)
Lemma last_app_cons {A} (pre : list A) (y : A) (r : list A) (d : A) : last (pre ++ y :: r) d = last (y :: r) d.
Proof.
  induction pre as [|x p IH]; [reflexivity|]. cbn [app]. rewrite <- IH.
  destruct (p ++ y :: r)%list eqn:E; [destruct p; discriminate|reflexivity].
Qed.

Lemma clean_loop : forall (nilv dflt : addr) (oof : frag (list addr)) (fuel : nat) (l pre : list addr),
  (List.length l < fuel)%nat ->
  mautil_CleanPeerAddrInfo_loop_loop_1 addr a_nil nilv dflt (fun a _ => FFall a) oof fuel (pre ++ l)%list (len pre)
  = match clean_f fuel l with
    | Ok t => FFall (pre ++ t)%list
    | _ => oof
    end.
Proof.
  intros nilv dflt oof. induction fuel as [|f IH]; intros l pre Hf; [lia|].
  cbn [mautil_CleanPeerAddrInfo_loop_loop_1 clean_f].
  destruct l as [|a r].
  - rewrite app_nil_r, Z.ltb_irrefl. reflexivity.
  - set (L := (pre ++ a :: r)%list).
    assert (HL : len L = len pre + 1 + len r) by (unfold L, len; rewrite app_length; cbn; lia).
    pose proof (len_nonneg pre). pose proof (len_nonneg r).
    replace (len pre <? len L) with true by (symmetry; apply Z.ltb_lt; lia).
    replace ((0 <=? len pre) && (len pre <? len L))%bool with true
      by (symmetry; rewrite andb_true_iff, Z.leb_le, Z.ltb_lt; lia).
    cbn [negb].
    replace (nth (Z.to_nat (len pre)) L dflt) with a
      by (unfold L, len; rewrite Nat2Z.id, app_nth2 by lia; rewrite Nat.sub_diag; reflexivity).
    destruct (a_nil a).
    + replace ((0 <=? len L - 1) && (len L - 1 <? len L) && ((0 <=? len pre) && (len pre <? len L)))%bool with true
        by (symmetry; rewrite !andb_true_iff, !Z.leb_le, !Z.ltb_lt; lia).
      cbn [negb].
      set (v := nth (Z.to_nat (len L - 1)) L dflt).
      assert (Hv : v = last (a :: r) dflt).
      { unfold v. replace (Z.to_nat (len L - 1)) with (List.length L - 1)%nat by (unfold len; lia).
        rewrite nth_last. unfold L. apply last_app_cons. }
      set (L1 := (pre ++ v :: r)%list).
      assert (E1 : list_set L (len pre) v = L1) by (unfold L, L1; apply list_set_app).
      assert (HL1 : len L1 = len L) by (unfold L1, L, len; rewrite !app_length; reflexivity).
      rewrite !E1, ?len_list_set. rewrite <- ?HL1. rewrite ?len_list_set.
      replace ((0 <=? len L1 - 1) && (len L1 - 1 <? len L1))%bool with true
        by (symmetry; rewrite andb_true_iff, Z.leb_le, Z.ltb_lt; lia).
      replace ((0 <=? 0) && (0 <=? len L1 - 1) && (len L1 - 1 <=? len L1))%bool with true
        by (symmetry; rewrite !andb_true_iff, !Z.leb_le; lia).
      cbn [negb].
      assert (H2 : slice (list_set L1 (len L1 - 1) nilv) 0 (len L1 - 1) = removelast L1).
      { pose proof (slice_removelast (list_set L1 (len L1 - 1) nilv)) as S. rewrite len_list_set in S.
        rewrite S. apply removelast_set_last. unfold L1. destruct pre; discriminate. }
      rewrite H2. unfold L1. rewrite removelast_app by discriminate.
      replace (0 <=? len pre) with true by (symmetry; apply Z.leb_le; lia). cbn [andb negb].
      destruct r as [|b r'].
      * cbn [removelast]. rewrite app_nil_r. cbn [List.length] in Hf.
        destruct f as [|f']; [lia|].
        cbn [mautil_CleanPeerAddrInfo_loop_loop_1].
        rewrite Z.ltb_irrefl. reflexivity.
      * rewrite Hv. change (last (a :: b :: r') dflt) with (last (b :: r') dflt).
        replace (removelast (last (b :: r') dflt :: b :: r')) with (last (b :: r') dflt :: removelast (b :: r')) by reflexivity.
        replace (last (b :: r') dflt) with (last (b :: r') a)
          by (clear; revert b; induction r' as [|c r'' IH']; intros b; [reflexivity|apply (IH' c)]).
        apply IH.
        assert (HR : forall (x : addr) (q : list addr), List.length (removelast (x :: q)) = List.length q).
        { intros x q. revert x. induction q as [|y q' IHq]; intros x; [reflexivity|].
          change (removelast (x :: y :: q')) with (x :: removelast (y :: q')). cbn [List.length]. rewrite IHq. reflexivity. }
        cbn [List.length] in Hf |- *. rewrite HR. lia.
    + replace (0 <=? len pre) with true by (symmetry; apply Z.leb_le; lia). cbn [andb negb].
      replace (len pre + 1) with (len (pre ++ [a])) by (rewrite len_app; reflexivity).
      unfold L. replace (pre ++ a :: r)%list with ((pre ++ [a]) ++ r)%list by (rewrite <- app_assoc; reflexivity).
      rewrite IH by (cbn [List.length] in Hf; lia). destruct (clean_f f r); cbn [bind]; try reflexivity. rewrite <- app_assoc. reflexivity.
Qed.

(* with one unit of fuel more than there are addresses the loop ends, and computes the model's [clean] *)
Theorem tie_CleanPeerAddrInfo : forall (nilv dflt : addr) (oof : frag (list addr)) (fuel : nat) (l : list addr),
  (List.length l < fuel)%nat ->
  mautil_CleanPeerAddrInfo_loop addr a_nil nilv dflt fuel oof l
  = match clean_f fuel l with Ok t => FFall t | _ => oof end.
Proof.
  intros. unfold mautil_CleanPeerAddrInfo_loop. exact (clean_loop nilv dflt oof fuel l [] H).
Qed.

(* FromURL after the host component: a TCP component exactly when u.Port() is not empty (an
   explicit port 0 included: the text is "0", not empty), then the scheme component, then an
   http-path component exactly when u.Path is not empty, its value escaped with url.QueryEscape
   (from_url_with: h :: port_comps ++ [scheme] ++ path) *)
Section FromURL.
  Variables (C M U : Type).
  Variable join : M -> C -> M.
  Variable newc : list N -> list N -> C * option string.
  Variable qesc : list N -> list N.
  Variables (pathOf schemeOf : U -> list N) (u : U) (nHTTPPATH nTCP : list N).
  Hypothesis newc_ok : forall n v, snd (newc n v) = None.        (* the components are well formed *)

  Theorem FromURL_tail_table : forall (port : list N) (host : M),
    match maurl_FromURL_tail C M U join newc qesc pathOf schemeOf u nHTTPPATH nTCP port host with
    | FReturn ret (_, tr) =>
        ret = "return joint, nil"%string /\
        (existsb (String.eqb "wport := multiaddr.Join(*addr, port)") tr = negb (is_nil port)) /\
        (existsb (String.eqb "joint = multiaddr.Join(joint, httppath)") tr = negb (is_nil (pathOf u)))
    | _ => False
    end.
  Proof.
    intros. unfold maurl_FromURL_tail. rewrite !gen_bytes_eqb_nil.
    destruct port as [|p0 port']; cbn [is_nil negb].
    - pose proof (newc_ok (schemeOf u) []) as E1. destruct (newc (schemeOf u) []) as [c1 e1]. cbn in E1. subst e1. cbn [isNone negb].
      destruct (pathOf u) as [|q0 q'] eqn:EP; cbn [is_nil negb]; [repeat split; reflexivity|].
      pose proof (newc_ok nHTTPPATH (qesc (q0 :: q'))) as E2. destruct (newc nHTTPPATH (qesc (q0 :: q'))) as [c2 e2]. cbn in E2. subst e2.
      cbn. repeat split; reflexivity.
    - pose proof (newc_ok nTCP (p0 :: port')) as E0. destruct (newc nTCP (p0 :: port')) as [c0 e0]. cbn in E0. subst e0. cbn [isNone negb].
      pose proof (newc_ok (schemeOf u) []) as E1. destruct (newc (schemeOf u) []) as [c1 e1]. cbn in E1. subst e1. cbn [isNone negb].
      destruct (pathOf u) as [|q0 q'] eqn:EP; cbn [is_nil negb]; [repeat split; reflexivity|].
      pose proof (newc_ok nHTTPPATH (qesc (q0 :: q'))) as E2. destruct (newc nHTTPPATH (qesc (q0 :: q'))) as [c2 e2]. cbn in E2. subst e2.
      cbn. repeat split; reflexivity.
  Qed.
End FromURL.

(* the model decides the same two things the same way *)
Theorem model_from_url_parts : forall esc (u : url),
  port_comps u = match u_port u with None => Ok [] | Some p => q <- port_stb p ;; Ok [CTcp q] end /\
  (C20_Maurl.is_nil (u_path u) = true -> forall h p, host_comp u = Ok h -> port_comps u = Ok p ->
     from_url_with esc u = Ok (h :: p ++ [scheme_comp (u_scheme u)])%list).
Proof.
  intros. split; [reflexivity|]. intros E h p Hh Hp. unfold from_url_with. rewrite Hh, Hp, E. cbn. rewrite ?app_nil_r. reflexivity.
Qed.
