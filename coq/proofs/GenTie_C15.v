(* GenTie_C15 -- dagsync/subscriber.go: the ordered steps of doClose and the shutdown gate at the
   head of SyncAdChain, as regenerated from the Go source (gen/Gen_Funcs_dagsync.v), against the
   program counters of model/C15_Shutdown.v. *)
From Coq Require Import ZArith NArith List Bool Lia String.
From Lib Require Import Bytes.
From Model Require Import C15_Shutdown.
From Proofs Require Import GenTie_Lib.
From Gen Require Import Gen_Consts Gen_Funcs_prelude Gen_Funcs_dagsync.
Import ListNotations.
Open Scope Z_scope.

(* the statements of doClose as program counters of the model *)
Definition close_pc (s : string) : option pc :=
  if String.eqb s "close(s.closing)" then Some CClosing
  else if String.eqb s "s.expSyncMutex.Lock()" then Some CLock
  else if String.eqb s "s.expSyncClosed = true" then Some CSet
  else if String.eqb s "s.expSyncMutex.Unlock()" then Some CUnlock
  else if String.eqb s "s.expSyncWG.Wait()" then Some CWaitExp
  else if String.eqb s "err = s.receiver.Close()" then Some CRecvClose
  else if String.eqb s "<-s.watchDone" then Some CWaitWatch
  else if String.eqb s "s.asyncWG.Wait()" then Some CWaitAsync
  else if String.eqb s "close(s.inEvents)" then Some CCloseIn
  else if String.eqb s "<-s.distDone" then Some CWaitDist
  else if String.eqb s "<-s.cleanerDone" then Some CWaitIC
  else if String.eqb s "s.httpPeerstore.Close()" then Some CPeerstore
  else None.

Fixpoint pcs (tr : list string) : list pc :=
  match tr with
  | [] => []
  | s :: r => match close_pc s with Some p => p :: pcs r | None => pcs r end
  end.

(* the path of the thread that runs doClose (inside closeOnce.Do), repaired code (fx = true) *)
Definition close_path (has_recv : bool) : list pc :=
  [CClosing; CLock; CSet; CUnlock; CWaitExp] ++ (if has_recv then [CRecvClose; CWaitWatch] else [])
  ++ [CWaitAsync; CCloseIn; CWaitDist; CWaitIC; CPeerstore].

Theorem tie_doClose : forall (R : Type) (isnil : R -> bool) (closeR : R -> option string) (closed0 : bool) (recv : R),
  match dagsync_doClose R isnil closeR closed0 recv with
  | FReturn ret (closed', tr) =>
      pcs tr = close_path (negb (isnil recv)) /\ closed' = true /\ ret = "return err"%string
  | _ => False
  end.
Proof.
  intros. unfold dagsync_doClose, close_path. destruct (isnil recv); cbn [negb];
    try destruct (closeR recv); cbn; repeat split; reflexivity.
Qed.

(* the model's closing thread goes through close_path in this order *)
Theorem model_doClose_order : forall (s : st) (t : nat) (th : thread) (c : nat),
  (t_pc th = CSet -> step_thread true s t th c = go s t th CUnlock (with_exp_closed (w_stage 4))) /\
  (t_pc th = CUnlock -> step_thread true s t th c = go s t th CWaitExp (with_mu (w_stage 5) None)) /\
  (t_pc th = CWaitExp -> step_thread true s t th c =
     if none_active s exp_active
     then (if has_recv s then go s t th CRecvClose (w_stage 6) else go s t th CWaitAsync (w_stage 8))
     else None) /\
  (t_pc th = CRecvClose -> step_thread true s t th c = go s t th CWaitWatch (with_recv_closed (w_stage 7))) /\
  (t_pc th = CWaitWatch -> step_thread true s t th c = if watch_done s then go s t th CWaitAsync (w_stage 8) else None) /\
  (t_pc th = CWaitAsync -> step_thread true s t th c =
     if none_active s async_active then go s t th CCloseIn (w_stage 9) else None) /\
  (t_pc th = CWaitDist -> step_thread true s t th c =
     match C14_Events.d_pc (co s) with C14_Events.DDone => go s t th CWaitIC (w_stage 11) | _ => None end) /\
  (t_pc th = CWaitIC -> step_thread true s t th c =
     match ic_pc s with ICEnd => go s t th CPeerstore (w_stage 12) | _ => None end) /\
  (t_pc th = CPeerstore -> step_thread true s t th c = go s t th COnceDone (w_stage 12)).
Proof.
  intros. unfold step_thread. repeat split; intro E; rewrite E; reflexivity.
Qed.

(* ---- the gate at the head of SyncAdChain / syncEntries ---- *)
Definition gate_pc (s : string) : option pc :=
  if String.eqb s "s.expSyncMutex.Lock()" then Some ELock
  else if String.eqb s "s.expSyncWG.Add(1)" then Some EAdd
  else if String.eqb s "s.expSyncMutex.Unlock()" then Some EUnlock
  else None.
Fixpoint gate_pcs (tr : list string) : list pc :=
  match tr with
  | [] => []
  | s :: r => match gate_pc s with Some p => p :: gate_pcs r | None => gate_pcs r end
  end.

Theorem tie_shutdown_gate : forall closed : bool,
  match dagsync_SyncAdChain_shutdown_gate closed with
  | FReturn ret tr => closed = true /\ ret = "return cid.Undef, errors.New(""shutdown"")"%string
                      /\ gate_pcs tr = [ELock; EUnlock]            (* ERefuse: unlock and refuse *)
  | FFall tr => closed = false /\ gate_pcs tr = [ELock; EAdd; EUnlock]
                /\ In "defer s.expSyncWG.Done()"%string tr         (* registered before the lock is released ... *)
  | _ => False
  end.
Proof. destruct closed; cbn; repeat split; try reflexivity. right; right; right; left; reflexivity. Qed.

Theorem model_gate_order : forall (s : st) (t : nat) (th : thread) (c : nat),
  (t_pc th = ECheck -> step_thread true s t th c = if exp_closed s then go s t th ERefuse u0 else go s t th EAdd u0) /\
  (t_pc th = ERefuse -> step_thread true s t th c = go s t th (Fin RShutdown) (with_mu u0 None)) /\
  (t_pc th = EAdd -> step_thread true s t th c = go s t th EUnlock u0).
Proof.
  intros. unfold step_thread. repeat split; intro E; rewrite E; reflexivity.
Qed.
