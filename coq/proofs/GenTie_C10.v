(* GenTie_C10 -- announce/message/cbor_message.go: Message.MarshalCBOR translated statement by
   statement (gen/Gen_Funcs_message.v) computes exactly the model's encoder
   (model/C10_AnnounceMsg.v [enc]) for every message, and the header checks of UnmarshalCBOR
   are the guards of the model's decoder [dec_g]. *)
From Coq Require Import ZArith NArith List Bool Lia String.
From Lib Require Import Bytes Varint Cid Cbor.
From Model Require Import C10_AnnounceMsg.
From Proofs Require Import GenTie_Lib.
From Gen Require Import Gen_Consts Gen_Funcs_prelude Gen_Funcs_message.
Import ListNotations.
Open Scope Z_scope.

Definition errclass (e : string) : N :=
  if String.eqb e "failed to write cid field m.Cid: %w" then ECid else ETooLarge.

(* reading of the external cbor-gen writers: they append to the buffer (lib/Cbor.v wr_head,
   wr_cid); WriteCidBuf refuses the undefined CID *)
Definition ocid := option cid.
Definition go_write_cid (w : list N) (c : ocid) : list N * option string :=
  match c with
  | Some c => ((w ++ wr_cid c)%list, None)
  | None => (w, Some "undefined cid"%string)
  end.
Definition go_write_head (w : list N) (maj n : Z) : list N * option string :=
  ((w ++ wr_head (Z.to_N maj) (Z.to_N n))%list, None).

Definition go_marshal (m : msg) : option string * list N :=
  message_Message_MarshalCBOR ocid go_write_cid go_write_head
    (match m_cid m with Some c => Z.of_N (Cid.byte_len c) | None => 0 end)   (* m.Cid.ByteLen() *)
    [246%N]                                                                  (* cbg.CborNull *)
    (map sl (sl (m_addrs m))) (m_cid m) (sl (m_extra m)) (m_orig m)
    false.                                                                   (* m == nil *)

Definition agrees (r : res bytes) (g : option string * list N) : Prop :=
  match r, g with
  | Ok b, (None, w) => w = b
  | Err c, (Some e, _) => errclass e = c
  | _, _ => False
  end.

Lemma ltb_N_len (c : N) {A} (l : list A) : (Z.of_N c <? len l) = (c <? N.of_nat (List.length l))%N.
Proof.
  unfold len. destruct (N.ltb_spec c (N.of_nat (List.length l))); [apply Z.ltb_lt|apply Z.ltb_ge]; lia.
Qed.

Lemma to_N_len {A} (l : list A) : Z.to_N (len l) = N.of_nat (List.length l).
Proof. unfold len; lia. Qed.

(* the loop over m.Addrs *)
Lemma addrs_loop : forall (k : option string -> list N -> option string * list N) (l : list (option bytes)) (e : option string) (w : list N),
  match enc_addrs l with
  | Ok a => message_Message_MarshalCBOR_loop_1 go_write_head k (map sl l) e w
            = k (match l with [] => e | _ => None end) (w ++ a)%list
  | Err c => c = ETooLarge /\ exists w', message_Message_MarshalCBOR_loop_1 go_write_head k (map sl l) e w
            = (Some "byte array in field v was too long"%string, w')
  | Panic _ => False
  end.
Proof.
  intros k l. induction l as [|a r IH]; intros e w.
  - cbn. rewrite app_nil_r. reflexivity.
  - cbn [enc_addrs map message_Message_MarshalCBOR_loop_1]. unfold enc_addr.
    change ext_cbg_ByteArrayMaxLen with (Z.of_N ByteArrayMaxLen). rewrite ltb_N_len.
    change (N.of_nat (List.length (sl a))) with (blen (sl a)).
    destruct (ByteArrayMaxLen <? blen (sl a))%N; cbn [bind].
    + split; [reflexivity|eexists; reflexivity].
    + unfold go_write_head at 1. cbn [isNone negb].
      specialize (IH None ((w ++ wr_head (Z.to_N ext_cbg_MajByteString) (Z.to_N (len (sl a)))) ++ sl a)%list).
      destruct (enc_addrs r) as [y|c|p]; cbn [bind].
      * rewrite IH. unfold wr_bytes. rewrite to_N_len. change (N.of_nat (List.length (sl a))) with (blen (sl a)).
        change (Z.to_N ext_cbg_MajByteString) with MajByteString.
        rewrite <- !app_assoc. destruct r; reflexivity.
      * exact IH.
      * exact IH.
Qed.

Theorem tie_MarshalCBOR : forall m : msg, agrees (enc m) (go_marshal m).
Proof.
  intros [c addrs extra orig]. unfold go_marshal, enc, enc_with, message_Message_MarshalCBOR.
  cbn [m_cid m_addrs m_extra m_orig andb].
  destruct c as [c|].
  2:{ unfold agrees; cbn; reflexivity. }
  cbn [isNone negb app].
  change message_maxCidLen with (Z.of_N CidMaxLen).
  replace (Z.of_N CidMaxLen <? Z.of_N (byte_len c) + 1) with (CidMaxLen <? byte_len c + 1)%N
    by (destruct (N.ltb_spec CidMaxLen (byte_len c + 1)); symmetry; [apply Z.ltb_lt|apply Z.ltb_ge]; lia).
  destruct (CidMaxLen <? byte_len c + 1)%N; [unfold agrees; cbv beta iota; reflexivity|].
  unfold go_write_cid. cbn [isNone negb].
  change ext_cbg_MaxLength with (Z.of_N MaxLength). rewrite (ltb_N_len MaxLength (map sl (sl addrs))). rewrite List.map_length.
  unfold bytes in *.
  destruct (MaxLength <? N.of_nat (List.length (sl addrs)))%N; [unfold agrees; cbv beta iota; reflexivity|].
  unfold go_write_head at 1. cbn [isNone negb].
  match goal with
  | |- context [message_Message_MarshalCBOR_loop_1 go_write_head ?K (map sl ?L) ?E ?W] =>
    pose proof (addrs_loop K L E W) as HL
  end.
  destruct (enc_addrs (sl addrs)) as [a|e|p]; cbn [bind].
  3: contradiction.
  2:{ destruct HL as [-> [w' ->]]. unfold agrees; cbv beta iota; reflexivity. }
  rewrite HL. clear HL.
  change ext_cbg_ByteArrayMaxLen with (Z.of_N ByteArrayMaxLen). rewrite ltb_N_len.
  change (N.of_nat (List.length (sl extra))) with (blen (sl extra)).
  destruct (ByteArrayMaxLen <? blen (sl extra))%N; [unfold agrees; cbv beta iota; reflexivity|].
  unfold go_write_head. cbn [isNone negb].
  rewrite len_eqb_0, ?to_N_len, ?map_length.
  change (Z.to_N ext_cbg_MajArray) with MajArray.
  change (Z.to_N ext_cbg_MajByteString) with MajByteString.
  change (Z.to_N ext_cbg_MajTextString) with MajTextString.
  destruct orig as [|o orig']; cbn [is_nil Gen_Funcs_prelude.bytes_eqb].
  - unfold agrees, wr_bytes. change (N.of_nat (List.length (sl extra))) with (blen (sl extra)).
    cbn [app]. rewrite <- !app_assoc. reflexivity.
  - rewrite ltb_N_len. change (N.of_nat (List.length (o :: orig'))) with (blen (o :: orig')).
    destruct (MaxLength <? blen (o :: orig'))%N; [unfold agrees; cbv beta iota; reflexivity|].
    unfold agrees, wr_bytes, wr_text. change (N.of_nat (List.length (sl extra))) with (blen (sl extra)).
    change (N.of_nat (List.length (o :: orig'))) with (blen (o :: orig')).
    cbn [app]. rewrite <- !app_assoc. reflexivity.
Qed.

(* ------------------------------------------------------------------ *)
(* UnmarshalCBOR: the header checks                                     *)

(* the generic "length cap, then major type" guard of the model's decoder *)
Definition guard2 (cap expected maj n : N) : option N :=
  if (cap <? n)%N then Some ETooLarge
  else if negb (maj =? expected)%N then Some EWrongMajor
  else None.

Definition read_guard (r : frag (list string)) : option bool :=   (* Some true = a return (error), Some false = passes *)
  match r with
  | FReturn _ _ => Some true
  | FFall _ => Some false
  | _ => None
  end.

Lemma ltb_ZN (a b : N) : (Z.of_N a <? Z.of_N b) = (a <? b)%N.
Proof. destruct (N.ltb_spec a b); [apply Z.ltb_lt|apply Z.ltb_ge]; lia. Qed.
Lemma eqb_ZN (a b : N) : (Z.of_N a =? Z.of_N b) = (a =? b)%N.
Proof. destruct (N.eqb_spec a b); [apply Z.eqb_eq|apply Z.eqb_neq]; lia. Qed.

Theorem tie_addrs_header : forall maj n : N,
  read_guard (message_UnmarshalCBOR_addrs_header (Z.of_N n) (Z.of_N maj))
  = Some (match guard2 MaxLength MajArray maj n with Some _ => true | None => false end).
Proof.
  intros. unfold message_UnmarshalCBOR_addrs_header, guard2.
  change ext_cbg_MaxLength with (Z.of_N MaxLength). change ext_cbg_MajArray with (Z.of_N MajArray).
  rewrite ltb_ZN, eqb_ZN. destruct (MaxLength <? n)%N; [reflexivity|]. destruct (maj =? MajArray)%N; reflexivity.
Qed.

Theorem tie_addr_header : forall maj n : N,
  read_guard (message_UnmarshalCBOR_addr_header (Z.of_N n) (Z.of_N maj))
  = Some (match guard2 ByteArrayMaxLen MajByteString maj n with Some _ => true | None => false end).
Proof.
  intros. unfold message_UnmarshalCBOR_addr_header, guard2.
  change ext_cbg_ByteArrayMaxLen with (Z.of_N ByteArrayMaxLen). change ext_cbg_MajByteString with (Z.of_N MajByteString).
  rewrite ltb_ZN, eqb_ZN. destruct (ByteArrayMaxLen <? n)%N; [reflexivity|]. destruct (maj =? MajByteString)%N; reflexivity.
Qed.

Theorem tie_extra_header : forall maj n : N,
  read_guard (message_UnmarshalCBOR_extra_header (Z.of_N n) (Z.of_N maj))
  = Some (match guard2 ByteArrayMaxLen MajByteString maj n with Some _ => true | None => false end).
Proof.
  intros. unfold message_UnmarshalCBOR_extra_header, guard2.
  change ext_cbg_ByteArrayMaxLen with (Z.of_N ByteArrayMaxLen). change ext_cbg_MajByteString with (Z.of_N MajByteString).
  rewrite ltb_ZN, eqb_ZN. destruct (ByteArrayMaxLen <? n)%N; [reflexivity|]. destruct (maj =? MajByteString)%N; reflexivity.
Qed.

(* the model's per-address step is: read a head, apply guard2 with the byte-array cap, allocate, read *)
Theorem dec_addrs_uses_guard2 : forall k b,
  dec_addrs (S k) b =
  ('(maj, extra, r) <~ glift (rd_head b) ;;
   match guard2 ByteArrayMaxLen MajByteString maj extra with
   | Some e => gerr e
   | None =>
     _ <~ gmake_pos 1 extra ;;
     '(x, r') <~ glift (read_full extra r) ;;
     '(xs, r'') <~ dec_addrs k r' ;;
     gret (mk_sl x :: xs, r'')
   end).
Proof.
  intros. cbn [dec_addrs]. destruct (rd_head b) as [[[maj extra] r]|c|c]; try reflexivity.
  cbn [glift gbind]. unfold guard2.
  destruct (ByteArrayMaxLen <? extra)%N; [reflexivity|].
  destruct (maj =? MajByteString)%N; reflexivity.
Qed.

(* the first header: major type and field count; hasOrigPeer *)
Definition field_guard (maj nf : N) : option bool :=
  if negb (maj =? MajArray)%N then None
  else if (4 <? nf)%N then None
  else if (nf <? 3)%N then None
  else Some (nf =? 4)%N.

Theorem tie_field_count : forall maj nf : N,
  match message_UnmarshalCBOR_field_count (Z.of_N nf) (Z.of_N maj) with
  | FReturn _ _ => field_guard maj nf = None
  | FFall (has, _) => field_guard maj nf = Some has
  | _ => False
  end.
Proof.
  intros. unfold message_UnmarshalCBOR_field_count, field_guard.
  change ext_cbg_MajArray with (Z.of_N MajArray). rewrite eqb_ZN.
  change 4 with (Z.of_N 4). change 3 with (Z.of_N 3). rewrite !ltb_ZN, eqb_ZN.
  destruct (maj =? MajArray)%N; [|reflexivity]. cbn [negb].
  destruct (4 <? nf)%N; [reflexivity|]. destruct (nf <? 3)%N; [reflexivity|].
  destruct (nf =? 4)%N; reflexivity.
Qed.

(* the model's decoder starts with exactly this guard; its nf = 3 exit is hasOrigPeer = false *)
Theorem dec_g_uses_field_guard : forall b,
  dec_g b =
  ('(maj, nf, r1) <~ glift (rd_head b) ;;
   match field_guard maj nf with
   | None => gerr (if negb (maj =? MajArray)%N then EWrongMajor else EFieldCount)
   | Some hasOrigPeer =>
     '(c, r2) <~ rd_cid_g r1 ;;
     '(maj2, n, r3) <~ glift (rd_head r2) ;;
     match guard2 MaxLength MajArray maj2 n with
     | Some e => gerr e
     | None =>
       _ <~ gmake_pos SliceHeader n ;;
       '(addrs, r4) <~ dec_addrs (N.to_nat n) r3 ;;
       '(maj3, e, r5) <~ glift (rd_head r4) ;;
       match guard2 ByteArrayMaxLen MajByteString maj3 e with
       | Some e => gerr e
       | None =>
         _ <~ gmake_pos 1 e ;;
         '(x, r6) <~ glift (read_full e r5) ;;
         if negb hasOrigPeer then gret (Msg (Some c) (mk_sl addrs) (mk_sl x) [], r6) else
         '(s, r7) <~ rd_text_g MaxLength r6 ;;
         gret (Msg (Some c) (mk_sl addrs) (mk_sl x) s, r7)
       end
     end
   end).
Proof.
  intros. unfold dec_g. destruct (rd_head b) as [[[maj nf] r1]|c|c]; try reflexivity.
  cbn [glift gbind]. unfold field_guard.
  destruct (maj =? MajArray)%N; cbn [negb]; [|reflexivity].
  destruct (4 <? nf)%N eqn:E4; [reflexivity|]. destruct (nf <? 3)%N eqn:E3; [reflexivity|].
  assert (Hnf : (nf =? 3)%N = negb (nf =? 4)%N).
  { apply N.ltb_ge in E4, E3. destruct (N.eqb_spec nf 3), (N.eqb_spec nf 4); cbn; try reflexivity; lia. }
  rewrite Hnf.
  destruct (rd_cid_g r1) as [a [[c r2]|c|c]]; try reflexivity. cbn [gbind].
  destruct (rd_head r2) as [[[maj2 n] r3]|c'|c']; try reflexivity. cbn [glift gbind]. unfold guard2.
  destruct (MaxLength <? n)%N; [reflexivity|]. destruct (maj2 =? MajArray)%N; cbn [negb]; [|reflexivity].
  destruct (gmake_pos SliceHeader n) as [a1 [[]|c1|c1]]; try reflexivity. cbn [gbind].
  destruct (dec_addrs (N.to_nat n) r3) as [a2 [[addrs r4]|c2|c2]]; try reflexivity. cbn [gbind].
  destruct (rd_head r4) as [[[maj3 e] r5]|c3|c3]; try reflexivity. cbn [glift gbind].
  destruct (ByteArrayMaxLen <? e)%N; [reflexivity|]. destruct (maj3 =? MajByteString)%N; reflexivity.
Qed.

(* ================================================================== *)
(* phase 2: Message.GetAddrs (unknown protocol codes are skipped, any other parse error fails)
   and httpsender.addIDToAddrs, against [get_addrs] / [add_id] of the model *)
From Gen Require Import Gen_Funcs_httpsender.

(* an address as the harness classifies it, carried to the parser in its first byte *)
Definition encp (x : bytes * aclass) : list N :=
  match snd x with AKnown => 0%N :: fst x | AUnknown => 1%N :: fst x | AInvalid => 2%N :: fst x end.
Definition unknown_err : string := "no protocol with code 999".
Definition go_new_maddr (b : list N) : list N * option string :=
  match b with
  | 0%N :: r => (r, None)
  | 1%N :: _ => ([], Some unknown_err)
  | _ => ([], Some "invalid multiaddr"%string)
  end.
Definition go_contains (hay needle : list N) : bool :=           (* strings.Contains on the two error texts that occur *)
  Gen_Funcs_prelude.bytes_eqb hay (err_text (Some unknown_err)).

Lemma getaddrs_loop : forall (K : list (list N) -> list (list N) * option string) (l : list (bytes * aclass)) (acc : list (list N)),
  match get_addrs l with
  | Ok r => message_Message_GetAddrs_loop_1 (list N) go_new_maddr go_contains K (map encp l) acc = K (acc ++ r)%list
  | Err _ => exists e, message_Message_GetAddrs_loop_1 (list N) go_new_maddr go_contains K (map encp l) acc = ([], Some e)
  | Panic _ => False
  end.
Proof.
  intros K. induction l as [|[b c] r IH]; intros acc.
  - cbn. rewrite app_nil_r. reflexivity.
  - cbn [map message_Message_GetAddrs_loop_1 get_addrs]. destruct c; cbn [encp fst snd go_new_maddr isNone negb].
    + specialize (IH (acc ++ [b])%list). unfold bytes in *. destruct (get_addrs r) as [x|e|p]; cbn [bind]; auto.
      rewrite IH, <- app_assoc. reflexivity.
    + replace (go_contains (err_text (Some unknown_err)) (bytes_of_string "no protocol with code")) with true by reflexivity.
      apply IH.
    + replace (go_contains (err_text (Some "invalid multiaddr"%string)) (bytes_of_string "no protocol with code")) with false by reflexivity.
      eexists; reflexivity.
Qed.

Theorem tie_GetAddrs : forall l : list (bytes * aclass),
  match get_addrs l, message_Message_GetAddrs (list N) go_new_maddr go_contains (map encp l) with
  | Ok r, (r', None) => r' = r
  | Err _, (_, Some _) => True
  | _, _ => False
  end.
Proof.
  intros. unfold message_Message_GetAddrs.
  pose proof (getaddrs_loop (fun a => (a, None)) l []) as H.
  destruct (get_addrs l) as [r|e|p].
  - rewrite H. reflexivity.
  - destruct H as [e' ->]. exact I.
  - exact H.
Qed.

(* addIDToAddrs: nothing is touched for a message without addresses; otherwise the message's
   addresses are replaced only after GetAddrs and AddrInfoToP2pAddrs both succeeded *)
Theorem addIDToAddrs_table : forall (MSG MA AI : Type) (addrsOf : MSG -> list (list N)) (mkai : list N -> list MA -> AI)
    (getaddrs : MSG -> list MA * option string) (msg : MSG) (p2perr : option string) (p2p : list MA) (pid : list N),
  match httpsender_addIDToAddrs MSG MA AI addrsOf mkai getaddrs msg p2perr p2p pid with
  | FReturn ret tr =>
      existsb (String.eqb "msg.SetAddrs(p2pAddrs)") tr =
        (negb (is_nil (addrsOf msg)) && isNone (snd (getaddrs msg)) && isNone p2perr)%bool /\
      (is_nil (addrsOf msg) = true -> ret = "return nil"%string /\ tr = [])
  | _ => False
  end.
Proof.
  intros. unfold httpsender_addIDToAddrs. rewrite len_eqb_0.
  destruct (addrsOf msg); cbn [is_nil negb andb]; [split; [reflexivity|intros _; split; reflexivity]|].
  destruct (getaddrs msg) as [a [e|]]; cbn [snd isNone negb andb]; [split; [reflexivity|discriminate]|].
  destruct p2perr; cbn; split; try reflexivity; discriminate.
Qed.
