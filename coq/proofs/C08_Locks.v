(* Part 1 (structure, handler references, mutexes, semaphore, pending slot). Proofs about the announce-queue / sync-serialisation transition system of
   model/C08_AnnounceQueue.v: invariants over all schedules of the repaired code
   (variant `fixed`), and witnesses refuting the same statements for the code as
   found (variant `v0`). *)
From Coq Require Import List Bool Arith Lia Permutation.
From Lib Require Import SyncSkel LTS.
From Model Require Import C08_AnnounceQueue.
Import ListNotations.
Local Open Scope nat_scope.

(* ------------------------------------------------------------------ *)
(* function update                                                     *)

Lemma updf_same {A} (f : nat -> A) k v : updf f k v k = v.
Proof. unfold updf. rewrite Nat.eqb_refl. reflexivity. Qed.
Lemma updf_other {A} (f : nat -> A) k v x : x <> k -> updf f k v x = f x.
Proof. intro H. unfold updf. destruct (Nat.eqb_spec x k); [contradiction|reflexivity]. Qed.
Lemma updf_cases {A} (f : nat -> A) k v x : (x = k /\ updf f k v x = v) \/ (x <> k /\ updf f k v x = f x).
Proof. destruct (Nat.eq_dec x k); [left; subst; split; [reflexivity|apply updf_same] | right; split; [assumption|apply updf_other; assumption]]. Qed.

Lemma updf_some_cases {A} (f : nat -> option A) k v x y :
  updf f k (Some v) x = Some y -> (x = k /\ y = v) \/ (x <> k /\ f x = Some y).
Proof.
  unfold updf. destruct (Nat.eqb_spec x k); intro H.
  - left. split; [assumption|congruence].
  - right. split; assumption.
Qed.

Lemma put_cases s t th x th0 :
  threads (put s t th) x = Some th0 -> (x = t /\ th0 = th) \/ (x <> t /\ threads s x = Some th0).
Proof.
  unfold put; cbn. unfold updf. destruct (Nat.eqb_spec x t); intro H.
  - left. split; [assumption|congruence].
  - right. split; assumption.
Qed.

(* ------------------------------------------------------------------ *)
(* step inversion for the repaired code                                 *)

Ltac inv_some :=
  repeat match goal with
  | H : Some _ = Some _ |- _ => inversion H; subst; clear H
  | H : None = Some _ |- _ => discriminate H
  | H : (_, _) = (_, _) |- _ => inversion H; subst; clear H
  end.

(* all the state projections and setters: cbn with this list normalises a
   projection applied to a chain of setters *)
Ltac cbn_st :=
  cbn [hmap next_hid hpub pending ptaker amu smu refs sem latest lsrc pubhead lastRecv lastTaken
       events hooks ehooks gtodo goal closing panicked ordered regress nexp next_tid threads
       set_hmap set_next_hid set_hpub set_pending set_ptaker set_amu set_smu set_refs set_sem
       set_latest set_lsrc set_pubhead set_lastRecv set_lastTaken set_events set_hooks set_ehooks set_closing set_gtodo
       set_goal set_panicked set_ordered set_regress set_nexp set_next_tid set_threads put
       t_kind t_pc t_pub t_h t_msg t_stop t_ok t_todo mk_thread set_pc set_h set_msg set_stop set_ok set_todo
       lockfix reffix fixed exit_pc exit_locked exit_unlocked is_explicit is_entries] in *.

Ltac step_inv H :=
  match type of H with
  | stepf fixed ?cap ?s ?l = Some ?s' =>
    unfold stepf in H;
    let Hs := fresh "Hs" in
    destruct (stepo fixed cap s l) as [[? ?]|] eqn:Hs; [|discriminate H];
    inversion H; subst; clear H;
    destruct l as [p|p c|p|p n|p removed| |p c|t ok]; cbn [stepo] in Hs;
    [ inv_some
    | destruct (threads s watcher_tid) as [th|] eqn:Hth; [|discriminate Hs];
      destruct (t_pc th) eqn:Hpc; try discriminate Hs;
      destruct c as [|c]; [discriminate Hs|]; inv_some
    | inv_some
    | destruct n as [|n]; [discriminate Hs|]; inv_some
    | destruct (hmap s p) as [h|] eqn:Hhm;
      [ cbn [reffix fixed andb] in Hs; destruct (refs s h) as [|r0 rr] eqn:Hrefs; cbn [is_nil negb] in Hs;
        destruct removed; try discriminate Hs; inv_some
      | destruct removed; try discriminate Hs; inv_some ]
    | destruct (closing s) eqn:Hclosing; [discriminate Hs|]; inv_some
    | inv_some
    | destruct (threads s t) as [th|] eqn:Hth; [|discriminate Hs];
      unfold step_thread in Hs;
      destruct (t_pc th) eqn:Hpc;
      try discriminate Hs;
      unfold get_handler in Hs;
      cbn [lockfix reffix fixed exit_pc exit_locked exit_unlocked] in Hs;
      repeat match type of Hs with
      | context [match hmap s ?p with _ => _ end] => destruct (hmap s p) as [h0|] eqn:Hhm
      | context [match pending s ?h with _ => _ end] => destruct (pending s h) as [m0|] eqn:Hpend
      | context [match amu s ?h with _ => _ end] => destruct (amu s h) as [a0|] eqn:Hamu
      | context [match smu s ?h with _ => _ end] => destruct (smu s h) as [a0|] eqn:Hsmu
      | context [match cap with _ => _ end] => destruct cap as [|cap'] eqn:Hcap
      | context [if List.length (sem s) <? ?c then _ else _] => destruct (List.length (sem s) <? c) eqn:Hlen
      | context [if ok then _ else _] => destruct ok
      | context [match t_todo th with _ => _ end] => destruct (t_todo th) as [|a0 r0] eqn:Htodo
      | context [match t_kind th with _ => _ end] => destruct (t_kind th) eqn:Hkind
      | context [if t_ok th then _ else _] => destruct (t_ok th) eqn:Hok
      | context [if (?a =? 0) || (?b =? ?a) then _ else _] => destruct ((a =? 0) || (b =? a)) eqn:Hsame
      end;
      try discriminate Hs; inv_some ]
  end.

(* ------------------------------------------------------------------ *)
(* generic tactics                                                     *)

Ltac split_all := repeat match goal with |- _ /\ _ => split end.

(* which thread is looked up: the stepping one (its new record) or another one *)
Ltac thread_cases :=
  repeat match goal with
  | H : updf _ _ (Some _) _ = Some _ |- _ =>
    apply updf_some_cases in H; destruct H as [[? ?]|[? H]]; subst
  end.

(* discharge / use boolean premises of instantiated invariants *)
Ltac use_impl :=
  repeat match goal with
  | F : true = true -> _ |- _ => specialize (F eq_refl)
  | F : false = true -> _ |- _ => clear F
  | F : ?a = ?b -> _, H : ?a = ?b |- _ => specialize (F H)
  | F : ?x <> ?x -> _ |- _ => clear F
  | H : _ /\ _ |- _ => destruct H
  end.

(* case split on every function update applied to an index *)
Ltac updf_split :=
  repeat match goal with
  | |- context [updf ?f ?k ?v ?x] =>
    let E := fresh "E" in
    destruct (updf_cases f k v x) as [[? E]|[? E]]; rewrite E in *; clear E
  | H : context [updf ?f ?k ?v ?x] |- _ =>
    let E := fresh "E" in
    destruct (updf_cases f k v x) as [[? E]|[? E]]; rewrite E in *; clear E
  end.

Ltac done :=
  try assumption; try reflexivity; try discriminate; try congruence; try lia;
  try (exfalso; congruence); try (exfalso; lia).

(* ------------------------------------------------------------------ *)
(* Layer A: structure -- thread ids, kinds, pcs                        *)

Definition pc_ok (k : kind) (p : pc) : bool :=
  match k, p with
  | KWatcher, (WNext | WGet | WSwap | WSpawn | WRelease) => true
  | KAsync, (GStart | GAcq | GTake) => true
  | KExplicit, EGet => true
  | (KAsync | KExplicit), (PLockS | PRead | PCmp | PHandle | PReport | PUnlocking | PHandled | PSend | PUnlockS | PRelH | Fin) => true
  | KAsync, (PRelSem | PUnlockA) => true
  | KEntries, (EGet | PLockS | PHandle | PReport | PUnlocking | PUnlockS | PRelH | Fin) => true
  | _, _ => false
  end.

Definition is_watcher (k : kind) : bool := match k with KWatcher => true | _ => false end.
Definition is_async (k : kind) : bool := match k with KAsync => true | _ => false end.

Definition InvA (s : st) : Prop :=
  (forall t th, threads s t = Some th -> t < next_tid s) /\
  (forall t th, threads s t = Some th -> pc_ok (t_kind th) (t_pc th) = true) /\
  (forall t th, threads s t = Some th -> (is_watcher (t_kind th) = true <-> t = 0)) /\
  (exists th, threads s 0 = Some th) /\
  0 < next_tid s.

Lemma invA_init : InvA init.
Proof.
  unfold InvA, init; cbn. split_all.
  - intros t th H. destruct (Nat.eqb_spec t 0); [lia|discriminate].
  - intros t th H. destruct (Nat.eqb_spec t 0); [|discriminate]. inversion H; subst. reflexivity.
  - intros t th H. destruct (Nat.eqb_spec t 0); [|discriminate]. inversion H; subst. cbn. tauto.
  - eexists; reflexivity.
  - lia.
Qed.

Lemma invA_step cap s l s' : InvA s -> stepf fixed cap s l = Some s' -> InvA s'.
Proof.
  intros (A1 & A2 & A3 & (thw & A4) & A5) H.
  step_inv H; unfold InvA; cbn_st; split_all;
    try assumption; try lia; try (eexists; eassumption);
    try (intros t0 th0 H0; thread_cases; cbn_st;
         try (pose proof (A1 _ _ Hth)); try (pose proof (A2 _ _ Hth)); try (pose proof (A3 _ _ Hth));
         try (pose proof (A1 _ _ H0)); try (pose proof (A2 _ _ H0)); try (pose proof (A3 _ _ H0));
         rewrite ?Hpc, ?Hkind in *; cbn in *;
         try (destruct (t_kind th) eqn:?; cbn in *; try discriminate);
         try lia; try tauto; try reflexivity; try congruence;
         try (split; intro; [try discriminate; try lia | try lia; try tauto]); fail);
    try (match goal with |- exists th, updf _ ?u _ 0 = Some th =>
           destruct (Nat.eq_dec 0 u) as [E|E]; [subst; rewrite updf_same; eexists; reflexivity | rewrite updf_other by assumption; eauto] end; fail).
  all: try (exists thw; rewrite updf_other by lia; exact A4).
  - destruct (Nat.eq_dec 0 t) as [E|E].
    + subst. rewrite updf_same. eexists; reflexivity.
    + rewrite updf_other by assumption. rewrite updf_other by lia. eauto.
Qed.

Theorem invA_reach cap s : reach fixed cap s -> InvA s.
Proof. apply invariant_reachable; [apply invA_init|apply invA_step]. Qed.

(* ------------------------------------------------------------------ *)
(* Layer B: handler references, mutexes, semaphore, pending slot        *)

Definition has_h (p : pc) : bool :=
  match p with WNext | WGet | EGet | Fin => false | _ => true end.
Definition in_amu (p : pc) : bool :=
  match p with
  | GAcq | GTake | PLockS | PRead | PCmp | PHandle | PReport | PUnlocking | PHandled | PSend
  | PUnlockS | PRelSem | PUnlockA => true
  | _ => false
  end.
Definition in_smu (p : pc) : bool :=
  match p with
  | PRead | PCmp | PHandle | PReport | PUnlocking | PHandled | PSend | PUnlockS => true
  | _ => false
  end.

(* an announce-triggered goroutine that has taken its message and has not yet reached
   the outcome (nothing to do / latest recorded / error event) *)
Definition acting_pc (p : pc) : bool :=
  match p with
  | PLockS | PRead | PCmp | PHandle | PReport | PUnlocking | PHandled => true
  | _ => false
  end.

Definition B_ref (s : st) : Prop :=
  forall t th, threads s t = Some th -> has_h (t_pc th) = true ->
    In t (refs s (t_h th)) /\ hmap s (t_pub th) = Some (t_h th) /\
    hpub s (t_h th) = t_pub th /\ t_h th < next_hid s.
Definition B_amu (s : st) : Prop :=
  forall t th, threads s t = Some th -> is_async (t_kind th) = true -> in_amu (t_pc th) = true ->
    amu s (t_h th) = Some t.
Definition B_smu (s : st) : Prop :=
  forall t th, threads s t = Some th -> in_smu (t_pc th) = true -> smu s (t_h th) = Some t.
Definition B_sem (cap : nat) (s : st) : Prop :=
  forall t th, threads s t = Some th -> is_async (t_kind th) = true -> has_permit (t_pc th) = true ->
    cap <> 0 -> In t (sem s).
Definition B_pt (s : st) : Prop :=
  forall t th, threads s t = Some th -> pretake th = true -> ptaker s (t_h th) = Some t.
Definition G_pt1 (s : st) : Prop :=
  forall h, pending s h = None <-> ptaker s h = None.
Definition G_pt2 (s : st) : Prop :=
  forall h t, ptaker s h = Some t ->
    exists th, threads s t = Some th /\ pretake th = true /\ t_h th = h.
Definition G_amu (s : st) : Prop :=
  forall h t, amu s h = Some t ->
    exists th, threads s t = Some th /\ is_async (t_kind th) = true /\ in_amu (t_pc th) = true /\ t_h th = h.
Definition G_smu (s : st) : Prop :=
  forall h t, smu s h = Some t ->
    exists th, threads s t = Some th /\ in_smu (t_pc th) = true /\ t_h th = h.
Definition G_sem (cap : nat) (s : st) : Prop :=
  (forall t, In t (sem s) ->
     exists th, threads s t = Some th /\ is_async (t_kind th) = true /\ has_permit (t_pc th) = true) /\
  NoDup (sem s) /\ (cap <> 0 -> List.length (sem s) <= cap) /\ (cap = 0 -> sem s = []).
Definition G_map (s : st) : Prop :=
  forall p h, hmap s p = Some h -> hpub s h = p /\ h < next_hid s.
Definition G_pan (s : st) : Prop := panicked s = false.

Definition InvB (cap : nat) (s : st) : Prop :=
  B_ref s /\ B_amu s /\ B_smu s /\ B_sem cap s /\ B_pt s /\
  G_pt1 s /\ G_pt2 s /\ G_amu s /\ G_smu s /\ G_sem cap s /\ G_map s /\ G_pan s.

Ltac destruct_B I :=
  destruct I as (Bref & Bamu & Bsmu & Bsem & Bpt & Gpt1 & Gpt2 & Gamu & Gsmu & Gsem & Gmap & Gpan).

(* kind of the stepping thread from its pc *)
Ltac kind_of A2 Hth Hpc :=
  let K := fresh "K" in
  pose proof (A2 _ _ Hth) as K; rewrite Hpc in K;
  destruct (t_kind _) eqn:?; cbn in K; try discriminate K; clear K.

Lemma in_remove_tid_other t t0 l : t0 <> t -> In t0 l -> In t0 (remove_tid t l).
Proof. intros. unfold remove_tid. apply in_in_remove; assumption. Qed.
Lemma in_remove_tid_inv t t0 l : In t0 (remove_tid t l) -> In t0 l /\ t0 <> t.
Proof. unfold remove_tid. apply in_remove. Qed.

(* common opening of a per-thread clause: after step inversion, look at thread t0 of
   the new state: it is the stepping thread (new record) or an untouched one *)
Ltac kill_kind :=
  try (match goal with H : context [exit_unlocked (t_kind ?th)] |- _ => destruct (t_kind th) eqn:?; cbn in H end);
  try (match goal with |- context [exit_unlocked (t_kind ?th)] => destruct (t_kind th) eqn:?; cbn end).

(* the kind of the stepping thread, from its pc (InvA) *)
Ltac step_kind A2 :=
  try match goal with
  | Hth : threads _ ?t = Some ?th, Hpc : t_pc ?th = _ |- _ =>
    let K := fresh "K" in
    pose proof (A2 _ _ Hth) as K; rewrite Hpc in K;
    first [ match goal with Hk : t_kind th = _ |- _ => rewrite Hk in K end
          | destruct (t_kind th) eqn:Hkind ];
    cbn in K; try discriminate K; clear K
  end.

Lemma B_smu_step cap s l s' : InvA s -> InvB cap s -> stepf fixed cap s l = Some s' -> B_smu s'.
Proof.
  intros (A1 & A2 & A3 & A4 & A5) I H. destruct_B I.
  step_inv H; unfold B_smu; cbn_st; try assumption; step_kind A2;
    intros t0 th0 H0 Hcs; thread_cases; cbn_st;
    try (pose proof (Bsmu _ _ Hth) as Is; rewrite Hpc in Is; cbn in Is);
    try (pose proof (Bsmu _ _ H0 Hcs) as I0);
    try (rewrite Hpc in Hcs); cbn in Hcs; try discriminate Hcs;
    use_impl; updf_split; done.
Qed.

Lemma B_amu_step cap s l s' : InvA s -> InvB cap s -> stepf fixed cap s l = Some s' -> B_amu s'.
Proof.
  intros (A1 & A2 & A3 & A4 & A5) I H. destruct_B I.
  step_inv H; unfold B_amu; cbn_st; try assumption; step_kind A2;
    intros t0 th0 H0 Hk Hcs; thread_cases; cbn_st;
    try (pose proof (Bamu _ _ Hth) as Is; rewrite Hpc, ?Hkind in Is; cbn in Is);
    try (pose proof (Bamu _ _ H0 Hk Hcs) as I0);
    try (rewrite Hpc in Hcs); rewrite ?Hkind in *; cbn in Hcs, Hk; try discriminate Hcs; try discriminate Hk;
    use_impl; updf_split; done.
Qed.

Ltac in_list :=
  repeat match goal with
  | H : In _ (remove_tid _ _) |- _ => apply in_remove_tid_inv in H; destruct H
  | H : In _ (_ :: _) |- _ => destruct H; [subst|]
  | H : In _ [] |- _ => destruct H
  end;
  try match goal with
  | |- In ?x (?x :: _) => left; reflexivity
  | |- In _ (_ :: _) => right
  end;
  try (apply in_remove_tid_other; [congruence || lia|]);
  try match goal with
  | |- In _ (_ :: _) => right
  end;
  try (apply in_remove_tid_other; [congruence || lia|]).

Lemma B_ref_step cap s l s' : InvA s -> InvB cap s -> stepf fixed cap s l = Some s' -> B_ref s'.
Proof.
  intros (A1 & A2 & A3 & A4 & A5) I H. destruct_B I.
  step_inv H; unfold B_ref; cbn_st; try assumption; step_kind A2;
    intros t0 th0 H0 Hcs; thread_cases; cbn_st;
    try (pose proof (Bref _ _ Hth) as Is; rewrite Hpc in Is; cbn in Is);
    try (pose proof (Bref _ _ H0 Hcs) as I0);
    try (pose proof (A1 _ _ H0) as L0);
    try (pose proof (Gmap _ _ Hhm) as M0);
    try (rewrite Hpc in Hcs); cbn in Hcs; try discriminate Hcs;
    use_impl; updf_split; use_impl; split_all; done;
    try (rewrite ?Hrefs in *; in_list; done; fail).
  exfalso.
  match goal with Hin : In _ (refs s ?a), Hr : refs s ?b = [] |- _ =>
    assert (E : a = b) by congruence; rewrite E in Hin; rewrite Hr in Hin; destruct Hin end.
Qed.

Lemma B_sem_step cap s l s' : InvA s -> InvB cap s -> stepf fixed cap s l = Some s' -> B_sem cap s'.
Proof.
  intros (A1 & A2 & A3 & A4 & A5) I H. destruct_B I.
  step_inv H; unfold B_sem; cbn_st; try assumption; step_kind A2;
    intros t0 th0 H0 Hk Hcs Hc; thread_cases; cbn_st;
    try (pose proof (Bsem _ _ Hth) as Is; rewrite Hpc, ?Hkind in Is; cbn in Is);
    try (pose proof (Bsem _ _ H0 Hk Hcs Hc) as I0);
    try (rewrite Hpc in Hcs); rewrite ?Hkind in *; cbn in Hcs, Hk; try discriminate Hcs; try discriminate Hk;
    use_impl; done; in_list; done; auto.
Qed.

Lemma B_pt_step cap s l s' : InvA s -> InvB cap s -> stepf fixed cap s l = Some s' -> B_pt s'.
Proof.
  intros (A1 & A2 & A3 & A4 & A5) I H. destruct_B I.
  step_inv H; unfold B_pt, pretake in *; cbn_st; try assumption; step_kind A2;
    intros t0 th0 H0 Hcs; thread_cases; cbn_st;
    try (pose proof (Bpt _ _ Hth) as Is; rewrite Hpc in Is; cbn in Is);
    try (pose proof (Bpt _ _ H0 Hcs) as I0);
    try (pose proof (Bref _ _ H0) as R0);
    try (pose proof (Bref _ _ Hth) as Rs; rewrite Hpc in Rs; cbn in Rs);
    try (rewrite Hpc in Hcs); cbn in Hcs; try discriminate Hcs;
    use_impl; updf_split; use_impl; done.
  exfalso. apply Gpt1 in Hpend. congruence.
Qed.

Lemma G_pt1_step cap s l s' : InvA s -> InvB cap s -> stepf fixed cap s l = Some s' -> G_pt1 s'.
Proof.
  intros (A1 & A2 & A3 & A4 & A5) I H. destruct_B I.
  step_inv H; unfold G_pt1; cbn_st; try assumption;
    intro hh; pose proof (Gpt1 hh) as Ih; updf_split; try assumption; split; intro; done.
  - exfalso. subst hh. destruct Ih as [Ia Ib]. specialize (Ib H0). congruence.
  - exfalso. subst hh. pose proof (Bpt _ _ Hth) as Is. unfold pretake in Is. rewrite Hpc in Is.
    specialize (Is eq_refl). destruct Ih as [Ia Ib]. specialize (Ia H0). congruence.
Qed.

Ltac same_thread :=
  repeat match goal with
  | H1 : threads ?s ?a = Some ?x, H2 : threads ?s ?a = Some ?y |- _ =>
    let E := fresh "E" in
    assert (E : y = x) by congruence; subst y; clear H2
  end.

(* find the thread asked for in the updated thread map *)
Ltac ex_thread :=
  match goal with
  | |- exists th, Some ?n = Some th /\ _ => exists n; split; [reflexivity|]
  | |- exists th, threads _ _ = Some th /\ _ => eexists; split; [eassumption|]
  | |- exists th, updf ?f ?u (Some ?n) ?x = Some th /\ _ =>
    first [ rewrite (updf_same f u (Some n)); exists n; split; [reflexivity|]
          | let E := fresh "E" in
            destruct (Nat.eq_dec x u) as [E|E];
            [ rewrite E; rewrite (updf_same f u (Some n)); exists n; split; [reflexivity|]
            | rewrite (updf_other f u (Some n) x E) ] ]
  end.

Lemma G_pt2_step cap s l s' : InvA s -> InvB cap s -> stepf fixed cap s l = Some s' -> G_pt2 s'.
Proof.
  intros (A1 & A2 & A3 & A4 & A5) I H. destruct_B I.
  step_inv H; unfold G_pt2, pretake in *; cbn_st; try assumption; step_kind A2;
    intros hh tt Hp; updf_split; inv_some; subst;
    try (pose proof (Bpt _ _ Hth) as Is; unfold pretake in Is; rewrite Hpc in Is; cbn in Is);
    try (destruct (Gpt2 _ _ Hp) as (thx & X1 & X2 & X3));
    same_thread; rewrite ?Hpc in *; cbn in *; use_impl; done;
    repeat ex_thread; cbn_st; rewrite ?Hpc; split_all; done;
    try (exfalso; match goal with X : threads s (next_tid s) = Some _ |- _ => pose proof (A1 _ _ X); lia end).
  exfalso. apply Gpt1 in Hpend. congruence.
Qed.

(* the nil-message branch of the take is unreachable under the invariant *)
Ltac no_panic :=
  try (exfalso;
       match goal with
       | Hpend : pending ?s (t_h ?th) = None, Hth : threads ?s _ = Some ?th, Hpc : t_pc ?th = GTake,
         Gpt1 : G_pt1 ?s, Bpt : B_pt ?s |- _ =>
         let Q := fresh "Q" in
         apply Gpt1 in Hpend; pose proof (Bpt _ _ Hth) as Q; unfold pretake in Q; rewrite Hpc in Q;
         specialize (Q eq_refl); congruence
       end).

Lemma G_amu_step cap s l s' : InvA s -> InvB cap s -> stepf fixed cap s l = Some s' -> G_amu s'.
Proof.
  intros (A1 & A2 & A3 & A4 & A5) I H. destruct_B I.
  step_inv H; no_panic; unfold G_amu in *; cbn_st; try assumption; step_kind A2;
    intros hh tt Hp; updf_split; inv_some; subst;
    try (pose proof (Bamu _ _ Hth) as Is; rewrite Hpc, ?Hkind in Is; cbn in Is);
    try (destruct (Gamu _ _ Hp) as (thx & X1 & X2 & X3 & X4));
    same_thread; rewrite ?Hpc, ?Hkind in *; cbn in *; use_impl; done;
    repeat ex_thread; cbn_st; rewrite ?Hpc, ?Hkind; split_all; done;
    try (exfalso; match goal with X : threads s (next_tid s) = Some _ |- _ => pose proof (A1 _ _ X); lia end).
Qed.

Lemma G_smu_step cap s l s' : InvA s -> InvB cap s -> stepf fixed cap s l = Some s' -> G_smu s'.
Proof.
  intros (A1 & A2 & A3 & A4 & A5) I H. destruct_B I.
  step_inv H; no_panic; unfold G_smu in *; cbn_st; try assumption; step_kind A2;
    intros hh tt Hp; updf_split; inv_some; subst;
    try (pose proof (Bsmu _ _ Hth) as Is; rewrite Hpc, ?Hkind in Is; cbn in Is);
    try (destruct (Gsmu _ _ Hp) as (thx & X1 & X2 & X3));
    same_thread; rewrite ?Hpc, ?Hkind in *; cbn in *; use_impl; done;
    repeat ex_thread; cbn_st; rewrite ?Hpc, ?Hkind; split_all; done;
    try (exfalso; match goal with X : threads s (next_tid s) = Some _ |- _ => pose proof (A1 _ _ X); lia end).
Qed.

Lemma G_map_step cap s l s' : InvA s -> InvB cap s -> stepf fixed cap s l = Some s' -> G_map s'.
Proof.
  intros (A1 & A2 & A3 & A4 & A5) I H. destruct_B I.
  step_inv H; no_panic; unfold G_map in *; cbn_st; try assumption;
    intros pp hh Hp; updf_split; inv_some; subst; split_all; done;
    try (destruct (Gmap _ _ Hp)); done.
Qed.

Lemma G_pan_step cap s l s' : InvA s -> InvB cap s -> stepf fixed cap s l = Some s' -> G_pan s'.
Proof.
  intros (A1 & A2 & A3 & A4 & A5) I H. destruct_B I.
  step_inv H; no_panic; unfold G_pan in *; cbn_st; assumption.
Qed.

Lemma NoDup_remove_tid t l : NoDup l -> NoDup (remove_tid t l).
Proof.
  unfold remove_tid. induction 1 as [|a l Ha Hl IH]; cbn; [constructor|].
  destruct (Nat.eq_dec t a); [assumption|]. constructor; [|assumption].
  intro Hin. apply in_remove in Hin. tauto.
Qed.
Lemma length_remove_tid t l : List.length (remove_tid t l) <= List.length l.
Proof.
  unfold remove_tid. induction l as [|a l IH]; cbn; [lia|].
  destruct (Nat.eq_dec t a); cbn; lia.
Qed.

Lemma G_sem_step cap s l s' : InvA s -> InvB cap s -> stepf fixed cap s l = Some s' -> G_sem cap s'.
Proof.
  intros (A1 & A2 & A3 & A4 & A5) I H. destruct_B I.
  destruct Gsem as (S1 & S2 & S3 & S4).
  step_inv H; no_panic; unfold G_sem in *; cbn_st; step_kind A2;
    (split; [intros tt Hin; in_list;
              try (destruct (S1 _ Hin) as (thx & X1 & X2 & X3));
              try match goal with Hx : In _ (sem s) |- _ => destruct (S1 _ Hx) as (thx & X1 & X2 & X3) end;
              same_thread; rewrite ?Hpc, ?Hkind in *; cbn in *; use_impl; done;
              repeat ex_thread; subst; same_thread; cbn_st; rewrite ?Hpc, ?Hkind in *; cbn in *; split_all; done;
              try (exfalso; match goal with X : threads s (next_tid s) = Some _ |- _ => pose proof (A1 _ _ X); lia end)
           | split_all; try assumption; try (intro; discriminate) ]);
    try (apply NoDup_remove_tid; assumption);
    try (intro Hc; pose proof (length_remove_tid t (sem s)); specialize (S3 Hc); lia);
    try (intro; lia).
  - constructor; [|assumption]. intro Hin. destruct (S1 _ Hin) as (thx & X1 & X2 & X3).
    same_thread. rewrite Hpc in X3. discriminate.
  - intros _. apply Nat.ltb_lt in Hlen. cbn. lia.
  - rewrite (S4 eq_refl) in Hin. destruct Hin.
Qed.

Lemma init_thread t th : threads init t = Some th -> t = 0 /\ th = watcher_thread.
Proof.
  cbn. destruct (Nat.eqb_spec t 0); [|discriminate]. intro H. inversion H. auto.
Qed.

Lemma invB_init cap : InvB cap init.
Proof.
  unfold InvB. split_all.
  - intros t th H Hc. apply init_thread in H. destruct H; subst. discriminate.
  - intros t th H Hk. apply init_thread in H. destruct H; subst. discriminate.
  - intros t th H Hc. apply init_thread in H. destruct H; subst. discriminate.
  - intros t th H Hk. apply init_thread in H. destruct H; subst. discriminate.
  - intros t th H Hc. apply init_thread in H. destruct H; subst. discriminate.
  - intro h. cbn. tauto.
  - intros h t H. discriminate.
  - intros h t H. discriminate.
  - intros h t H. discriminate.
  - unfold G_sem; cbn. split_all; [intros t []|constructor|lia|reflexivity].
  - intros p h H. discriminate.
  - reflexivity.
Qed.

Lemma invB_step cap s l s' : InvA s -> InvB cap s -> stepf fixed cap s l = Some s' -> InvB cap s'.
Proof.
  intros A B H. unfold InvB. split_all.
  - eapply B_ref_step; eauto.
  - eapply B_amu_step; eauto.
  - eapply B_smu_step; eauto.
  - eapply B_sem_step; eauto.
  - eapply B_pt_step; eauto.
  - eapply G_pt1_step; eauto.
  - eapply G_pt2_step; eauto.
  - eapply G_amu_step; eauto.
  - eapply G_smu_step; eauto.
  - eapply G_sem_step; eauto.
  - eapply G_map_step; eauto.
  - eapply G_pan_step; eauto.
Qed.

Theorem invB_reach cap s : reach fixed cap s -> InvB cap s.
Proof.
  apply (invariant_reachable2 (stepf fixed cap) InvA (InvB cap)).
  - intros s0 R. eapply invA_reach. exact R.
  - apply invB_init.
  - intros s0 l s1 A B H. eapply invB_step; eauto.
Qed.

(* ------------------------------------------------------------------ *)
(* Theorems from layers A and B                                        *)

Lemma in_session_has_h p : in_session p = true -> has_h p = true /\ in_smu p = true.
Proof. destruct p; cbn; intro; try discriminate; auto. Qed.

(* at most one thread is inside handler.handle for a publisher *)
Theorem one_sync_per_publisher cap s t1 t2 th1 th2 :
  reach fixed cap s ->
  threads s t1 = Some th1 -> threads s t2 = Some th2 ->
  in_session (t_pc th1) = true -> in_session (t_pc th2) = true ->
  t_pub th1 = t_pub th2 -> t1 = t2.
Proof.
  intros R H1 H2 S1 S2 E. pose proof (invB_reach _ _ R) as I. destruct_B I.
  apply in_session_has_h in S1. apply in_session_has_h in S2. destruct S1 as [Sa Sb]. destruct S2 as [Sc Sd].
  destruct (Bref _ _ H1 Sa) as (_ & M1 & _). destruct (Bref _ _ H2 Sc) as (_ & M2 & _).
  pose proof (Bsmu _ _ H1 Sb) as L1. pose proof (Bsmu _ _ H2 Sd) as L2.
  rewrite E in M1. rewrite M1 in M2. inversion M2 as [Eh]. rewrite Eh in L1. congruence.
Qed.

(* the same for the whole critical section (stop CID read ... event sent) *)
Theorem one_critical_section_per_publisher cap s t1 t2 th1 th2 :
  reach fixed cap s ->
  threads s t1 = Some th1 -> threads s t2 = Some th2 ->
  in_smu (t_pc th1) = true -> in_smu (t_pc th2) = true ->
  t_pub th1 = t_pub th2 -> t1 = t2.
Proof.
  intros R H1 H2 S1 S2 E. pose proof (invB_reach _ _ R) as I. destruct_B I.
  assert (Sa : has_h (t_pc th1) = true) by (destruct (t_pc th1); cbn in *; congruence).
  assert (Sc : has_h (t_pc th2) = true) by (destruct (t_pc th2); cbn in *; congruence).
  destruct (Bref _ _ H1 Sa) as (_ & M1 & _). destruct (Bref _ _ H2 Sc) as (_ & M2 & _).
  pose proof (Bsmu _ _ H1 S1) as L1. pose proof (Bsmu _ _ H2 S2) as L2.
  rewrite E in M1. rewrite M1 in M2. inversion M2 as [Eh]. rewrite Eh in L1. congruence.
Qed.

(* all threads that use a publisher use the same handler object *)
Theorem handler_unique cap s t1 t2 th1 th2 :
  reach fixed cap s ->
  threads s t1 = Some th1 -> threads s t2 = Some th2 ->
  has_h (t_pc th1) = true -> has_h (t_pc th2) = true ->
  t_pub th1 = t_pub th2 -> t_h th1 = t_h th2.
Proof.
  intros R H1 H2 S1 S2 E. pose proof (invB_reach _ _ R) as I. destruct_B I.
  destruct (Bref _ _ H1 S1) as (_ & M1 & _). destruct (Bref _ _ H2 S2) as (_ & M2 & _).
  congruence.
Qed.

(* no more announce-triggered goroutines past the semaphore than its capacity *)
Theorem async_bounded_by_cap cap s (l : list nat) :
  reach fixed cap s -> cap <> 0 -> NoDup l ->
  (forall t, In t l -> exists th, threads s t = Some th /\ is_async (t_kind th) = true /\ has_permit (t_pc th) = true) ->
  List.length l <= cap.
Proof.
  intros R Hc Hn Hl. pose proof (invB_reach _ _ R) as I. destruct_B I.
  destruct Gsem as (S1 & S2 & S3 & S4).
  assert (Hincl : incl l (sem s)).
  { intros t Ht. destruct (Hl _ Ht) as (th & X1 & X2 & X3). eapply Bsem; eauto. }
  pose proof (NoDup_incl_length Hn Hincl). specialize (S3 Hc). lia.
Qed.

(* in particular: announce-triggered syncs inside handler.handle *)
Corollary async_sessions_bounded_by_cap cap s (l : list nat) :
  reach fixed cap s -> cap <> 0 -> NoDup l ->
  (forall t, In t l -> exists th, threads s t = Some th /\ is_async (t_kind th) = true /\ in_session (t_pc th) = true) ->
  List.length l <= cap.
Proof.
  intros R Hc Hn Hl. eapply async_bounded_by_cap; eauto.
  intros t Ht. destruct (Hl _ Ht) as (th & X1 & X2 & X3). exists th. split_all; auto.
  destruct (t_pc th); cbn in *; congruence.
Qed.

(* the counting form, in every reachable state -- before, while and after Subscriber.Close
   has closed s.closing (label CloseBegin; no goroutine's semaphore wait reads it): the number
   of announce-triggered goroutines past the semaphore, hence of announce-triggered syncs
   running at once, is at most MaxAsyncConcurrency *)
Lemma permits_in_use_spec s t :
  In t (permits_in_use s) ->
  exists th, threads s t = Some th /\ is_async (t_kind th) = true /\ has_permit (t_pc th) = true.
Proof.
  unfold permits_in_use. intro H. apply filter_In in H. destruct H as [_ H].
  destruct (threads s t) as [th|]; [|discriminate]. exists th. split; [reflexivity|].
  destruct (t_kind th); try discriminate. auto.
Qed.

Theorem async_syncs_bounded cap s :
  reach fixed cap s -> cap <> 0 -> List.length (permits_in_use s) <= cap.
Proof.
  intros R Hc. apply (async_bounded_by_cap cap s); auto.
  - unfold permits_in_use. apply NoDup_filter. apply seq_NoDup.
  - intros t Ht. apply permits_in_use_spec. exact Ht.
Qed.

Corollary async_sessions_running_bounded cap s :
  reach fixed cap s -> cap <> 0 ->
  List.length (filter (fun t => match threads s t with
                                | Some th => is_async (t_kind th) && in_session (t_pc th)
                                | None => false end) (seq 0 (next_tid s))) <= cap.
Proof.
  intros R Hc. apply (async_sessions_bounded_by_cap cap s); auto.
  - apply NoDup_filter. apply seq_NoDup.
  - intros t Ht. apply filter_In in Ht. destruct Ht as [_ Ht].
    destruct (threads s t) as [th|]; [|discriminate]. exists th.
    apply andb_prop in Ht. destruct Ht. auto.
Qed.

(* pending <> nil  <->  exactly one goroutine of that handler (or the watcher about to
   spawn it) has not yet taken *)
Theorem pending_has_taker cap s h :
  reach fixed cap s ->
  (pending s h <> None <-> exists t th, threads s t = Some th /\ pretake th = true /\ t_h th = h) /\
  (forall t1 t2 th1 th2, threads s t1 = Some th1 -> threads s t2 = Some th2 ->
     pretake th1 = true -> pretake th2 = true -> t_h th1 = h -> t_h th2 = h -> t1 = t2).
Proof.
  intros R. pose proof (invB_reach _ _ R) as I. destruct_B I. split.
  - split.
    + intro Hp. destruct (ptaker s h) as [t|] eqn:E.
      * destruct (Gpt2 _ _ E) as (th & X1 & X2 & X3). eauto.
      * apply Gpt1 in E. contradiction.
    + intros (t & th & X1 & X2 & X3) Hp. apply Gpt1 in Hp.
      pose proof (Bpt _ _ X1 X2). congruence.
  - intros t1 t2 th1 th2 H1 H2 P1 P2 E1 E2.
    pose proof (Bpt _ _ H1 P1). pose proof (Bpt _ _ H2 P2). congruence.
Qed.

(* asyncSyncAdChain never dereferences a nil message *)
Theorem take_never_nil cap s : reach fixed cap s -> panicked s = false.
Proof. intro R. pose proof (invB_reach _ _ R) as I. destruct_B I. exact Gpan. Qed.

Theorem take_finds_message cap s t th :
  reach fixed cap s -> threads s t = Some th -> t_pc th = GTake -> pending s (t_h th) <> None.
Proof.
  intros R H Hpc Hp. pose proof (invB_reach _ _ R) as I. destruct_B I.
  apply Gpt1 in Hp. pose proof (Bpt _ _ H) as Q. unfold pretake in Q. rewrite Hpc in Q.
  specialize (Q eq_refl). congruence.
Qed.

(* ---- no deadlock ---- *)

(* pcs whose next operation never blocks *)
Definition nonblocking (p : pc) : bool :=
  match p with WNext | Fin | GStart | GAcq | PLockS => false | _ => true end.

Lemma nonblocking_enabled cap s t th :
  threads s t = Some th -> nonblocking (t_pc th) = true -> enabled fixed cap s t.
Proof.
  intros H N. unfold enabled, stepf; cbn [stepo]. rewrite H. unfold step_thread.
  destruct (t_pc th) eqn:Hpc; try discriminate N; cbn [lockfix reffix fixed];
    try (exists true; eexists; reflexivity).
  all: exists true;
    repeat match goal with
    | |- context [match ?x with _ => _ end] =>
      lazymatch x with
      | context [match _ with _ => _ end] => fail
      | _ => destruct x
      end
    end; eexists; reflexivity.
Qed.

Lemma in_smu_nonblocking p : in_smu p = true -> nonblocking p = true.
Proof. destruct p; cbn; congruence. Qed.

Lemma lockS_enabled_or_holder cap s t th :
  InvB cap s -> threads s t = Some th -> t_pc th = PLockS -> exists t', enabled fixed cap s t'.
Proof.
  intros I H Hpc. destruct_B I.
  destruct (smu s (t_h th)) as [t1|] eqn:E.
  - destruct (Gsmu _ _ E) as (th1 & X1 & X2 & X3). exists t1.
    eapply nonblocking_enabled; eauto. apply in_smu_nonblocking; assumption.
  - exists t. unfold enabled, stepf; cbn [stepo]. rewrite H. unfold step_thread. rewrite Hpc, E.
    cbn. exists true. destruct (t_kind th); eexists; reflexivity.
Qed.

Lemma permit_enabled_or_holder cap s t th :
  InvB cap s -> threads s t = Some th -> has_permit (t_pc th) = true -> exists t', enabled fixed cap s t'.
Proof.
  intros I H Hp. destruct (t_pc th) eqn:Hpc; try discriminate Hp;
    try (exists t; eapply nonblocking_enabled; [eassumption|rewrite Hpc; reflexivity]).
  eapply lockS_enabled_or_holder; eauto.
Qed.

Lemma acq_enabled_or_holder cap s t th :
  InvB cap s -> threads s t = Some th -> t_pc th = GAcq -> exists t', enabled fixed cap s t'.
Proof.
  intros I H Hpc. pose proof I as I'. destruct_B I. destruct Gsem as (S1 & S2 & S3 & S4).
  assert (Hen : cap = 0 \/ List.length (sem s) < cap -> enabled fixed cap s t).
  { clear - H Hpc. intro Hc. unfold enabled, stepf; cbn [stepo]. rewrite H. unfold step_thread. rewrite Hpc.
    destruct cap as [|c].
    - exists true. eexists; reflexivity.
    - destruct Hc as [Hc|Hc]; [discriminate|]. apply Nat.ltb_lt in Hc. rewrite Hc.
      exists true. eexists; reflexivity. }
  destruct (Nat.eq_dec cap 0) as [Hz|Hz]; [exists t; apply Hen; auto|].
  destruct (lt_dec (List.length (sem s)) cap) as [Hl|Hl]; [exists t; apply Hen; auto|].
  destruct (sem s) as [|t1 r] eqn:Es; [cbn in Hl; lia|].
  destruct (S1 t1 (or_introl eq_refl)) as (th1 & X1 & X2 & X3).
  eapply permit_enabled_or_holder; eauto.
Qed.

Lemma amu_enabled_or_holder cap s t th :
  InvB cap s -> threads s t = Some th -> in_amu (t_pc th) = true -> exists t', enabled fixed cap s t'.
Proof.
  intros I H Hp. destruct (t_pc th) eqn:Hpc; try discriminate Hp;
    try (exists t; eapply nonblocking_enabled; [eassumption|rewrite Hpc; reflexivity]).
  - eapply acq_enabled_or_holder; eauto.
  - eapply lockS_enabled_or_holder; eauto.
Qed.

(* every state in which some thread is neither finished nor waiting for an
   announcement has an enabled step (lock order asyncMutex -> semaphore -> syncMutex) *)
Theorem no_deadlock cap s :
  reach fixed cap s -> ~ quiescent s -> exists t, enabled fixed cap s t.
Proof.
  intros R NQ. pose proof (invB_reach _ _ R) as I. pose proof (invA_reach _ _ R) as A.
  assert (Hex : exists t th, threads s t = Some th /\ idle_pc (t_pc th) = false).
  { destruct A as (A1 & _).
    (* search the finitely many thread ids *)
    assert (G : forall n, (forall t th, t < n -> threads s t = Some th -> idle_pc (t_pc th) = true) \/
                          (exists t th, threads s t = Some th /\ idle_pc (t_pc th) = false)).
    { induction n as [|n IH].
      - left. intros; lia.
      - destruct IH as [IH|IH]; [|right; exact IH].
        destruct (threads s n) as [thn|] eqn:En.
        + destruct (idle_pc (t_pc thn)) eqn:Ei.
          * left. intros t th Hlt Ht. destruct (Nat.eq_dec t n); [subst; congruence|]. apply (IH t th); [lia|assumption].
          * right. eauto.
        + left. intros t th Hlt Ht. destruct (Nat.eq_dec t n); [subst; congruence|]. apply (IH t th); [lia|assumption]. }
    destruct (G (next_tid s)) as [Hall|Hex]; [|exact Hex].
    exfalso. apply NQ. intros t th Ht. apply (Hall t th); [eapply A1; eauto|assumption]. }
  destruct Hex as (t & th & Ht & Hi).
  pose proof I as I'. destruct_B I.
  destruct (nonblocking (t_pc th)) eqn:Hn.
  - exists t. eapply nonblocking_enabled; eauto.
  - destruct (t_pc th) eqn:Hpc; try discriminate Hn; try discriminate Hi.
    + (* GStart *)
      destruct (amu s (t_h th)) as [t1|] eqn:E.
      * destruct (Gamu _ _ E) as (th1 & X1 & X2 & X3 & X4). eapply amu_enabled_or_holder; eauto.
      * exists t. unfold enabled, stepf; cbn [stepo]. rewrite Ht. unfold step_thread. rewrite Hpc, E.
        exists true. eexists; reflexivity.
    + eapply acq_enabled_or_holder; eauto.
    + eapply lockS_enabled_or_holder; eauto.
Qed.

