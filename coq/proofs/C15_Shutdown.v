(* Proofs about the Subscriber shutdown model (model/C15_Shutdown.v). *)
From Coq Require Import List NArith Bool Arith Lia.
From Lib Require Import SyncSkel LTS.
From Model Require Import C14_Events C15_Shutdown.
From Proofs Require Import C14_Events.
Import ListNotations.
Local Close Scope string_scope.
Local Open Scope list_scope.
Local Open Scope nat_scope.
Local Arguments Nat.leb : simpl never.
Local Arguments Nat.ltb : simpl never.

Lemma updt_same f t th : updt f t th t = Some th.
Proof. unfold updt. rewrite Nat.eqb_refl. reflexivity. Qed.
Lemma updt_other f t th x : x <> t -> updt f t th x = f x.
Proof. intro H. unfold updt. destruct (Nat.eqb_spec x t); [contradiction|reflexivity]. Qed.
Lemma updt_cases f t th x th0 :
  updt f t th x = Some th0 -> (x = t /\ th0 = th) \/ (x <> t /\ f x = Some th0).
Proof.
  unfold updt. destruct (Nat.eqb_spec x t); intro H; [left; split; congruence|right; split; assumption].
Qed.

Ltac inv_some :=
  repeat match goal with
  | H : Some _ = Some _ |- _ => inversion H; subst; clear H
  | H : None = Some _ |- _ => discriminate H
  | H : go _ _ _ _ _ = Some _ |- _ => unfold go in H
  | H : go_th _ _ _ _ = Some _ |- _ => unfold go_th in H
  end.

Ltac asimp :=
  cbn [apply_upd ov u0 w_stage with_co with_once with_mu with_exp_closed with_recv_closed with_out with_sem
       upd_w upd_w_ctx upd_w_done upd_ic
       u_co u_once u_exp_mu u_exp_closed u_recv_closed u_out u_w_pc u_ctx u_watch_done u_sem_used u_ic u_stage
       co once exp_mu exp_closed has_recv recv_closed out w_pc ctx_cancelled watch_done sem_cap sem_used ic_pc stage
       threads next_tid
       t_kind t_pc t_sem t_blocks t_late set_pc set_pc_sem set_block new_thread first_pc] in *.

(* destruct the step function completely; fx stays symbolic unless a branch needs it *)
Ltac step_inv H :=
  match type of H with
  | stepf ?fx ?s ?l = Some ?s' =>
    destruct l as [k|t choice|wc|cc|lb]; cbn [stepf] in H;
    [ destruct (is_async k) eqn:Hka; [discriminate H|]; inv_some
    | destruct (threads s t) as [th|] eqn:Hth; [|discriminate H];
      unfold step_thread in H; destruct (t_pc th) as [| | | | | | | | | | | | | | | | | |left| | | | | | | |left| | | | | |r] eqn:Hpc;
      repeat match type of H with
      | context [match once s with _ => _ end] => destruct (once s) eqn:Honce
      | context [match cstep ?c ?lb with _ => _ end] => destruct (cstep c lb) eqn:Hcs
      | context [match exp_mu s with _ => _ end] => destruct (exp_mu s) eqn:Hmu
      | context [if none_active ?s ?f then _ else _] => destruct (none_active s f) eqn:Hna
      | context [if has_recv s then _ else _] => destruct (has_recv s) eqn:Hhr
      | context [if watch_done s then _ else _] => destruct (watch_done s) eqn:Hwd
      | context [if fx then _ else _] => destruct fx
      | context [match d_pc ?c with _ => _ end] => destruct (d_pc c) eqn:Hdpc
      | context [if exp_closed s then _ else _] => destruct (exp_closed s) eqn:Hec
      | context [match left with _ => _ end] => destruct left as [|left]
      | context [match choice with _ => _ end] => destruct choice as [|choice]
      | context [if k_upd ?k then _ else _] => destruct (k_upd k) eqn:Hupd
      | context [if recv_closed s then _ else _] => destruct (recv_closed s) eqn:Hrc
      | context [match out s with _ => _ end] => destruct (out s) eqn:Hout
      | context [match sem_cap s with _ => _ end] => destruct (sem_cap s) eqn:Hcap
      | context [if ?a <? ?b then _ else _] => destruct (a <? b) eqn:Hlt
      | context [if ctx_cancelled s then _ else _] => destruct (ctx_cancelled s) eqn:Hctx
      | context [if t_sem th then _ else _] => destruct (t_sem th) eqn:Hsem
      end; try discriminate H; inv_some
    | unfold watcher_step in H; destruct (has_recv s) eqn:Hhr; cbn [negb] in H; [|discriminate H];
      destruct (w_pc s) eqn:Hw;
      repeat match type of H with
      | context [match wc with _ => _ end] => destruct wc as [|wc]
      | context [match out s with _ => _ end] => destruct (out s) eqn:Hout
      | context [if recv_closed s then _ else _] => destruct (recv_closed s) eqn:Hrc
      end; try discriminate H; inv_some
    | unfold cleaner_step in H; destruct (ic_pc s) eqn:Hic;
      repeat match type of H with
      | context [match cc with _ => _ end] => destruct cc as [|cc]
      | context [if closing ?c then _ else _] => destruct (closing c) eqn:Hcl
      end; try discriminate H; inv_some
    | destruct (core_label_ok fx lb) eqn:Hok; [|discriminate H];
      destruct (cstep (co s) lb) eqn:Hcs; [|discriminate H]; inv_some ]
  end.

Lemma co_step fx s l s' : stepf fx s l = Some s' -> co s' = co s \/ exists lb, cstep (co s) lb = Some (co s').
Proof.
  intro H. step_inv H; asimp; try (left; reflexivity); try (right; eexists; eassumption).
Qed.

Lemma reach_core fx r cap s : reach fx r cap s -> creach (co s).
Proof.
  apply (invariant_reachable (stepf fx) (fun s => creach (co s))).
  - exists []. reflexivity.
  - intros s0 l s' R H. destruct (co_step _ _ _ _ H) as [->|(lb & Hc)]; [exact R|].
    eapply reachable_step; eassumption.
Qed.

(* ================================================================== *)
(* G1: the Once, the runner and the stage counter                      *)

Definition closer_body (p : pc) : bool :=
  match p with
  | CClosing | CLock | CSet | CUnlock | CWaitExp | CRecvClose | CWaitWatch | CWaitAsync
  | CCloseIn | CWaitDist | CPeerstore | COnceDone => true
  | _ => false
  end.
Definition stage_of (p : pc) : nat :=
  match p with
  | CClosing => 1 | CLock => 2 | CSet => 3 | CUnlock => 4 | CWaitExp => 5 | CRecvClose => 6
  | CWaitWatch => 7 | CWaitAsync => 8 | CCloseIn => 9 | CWaitDist => 10 | CPeerstore => 11 | COnceDone => 11
  | _ => 0
  end.
Definition is_runner (o : once_st) (t : nat) : bool := match o with ORunning r => Nat.eqb r t | _ => false end.

Definition tinv1 (s : st) (t : nat) (th : thread) : bool :=
  implb (closer_body (t_pc th)) (is_runner (once s) t && Nat.eqb (stage s) (stage_of (t_pc th))).

Definition Inv1 (s : st) : Prop :=
  (forall t th, threads s t = Some th -> t < next_tid s) /\
  (forall t th, threads s t = Some th -> tinv1 s t th = true) /\
  match once s with
  | ONot => stage s = 0
  | ORunning r => 1 <= stage s <= 11 /\ exists th, threads s r = Some th /\ closer_body (t_pc th) = true
  | ODone => stage s = 12
  end.

Lemma inv1_init r cap : Inv1 (init r cap).
Proof. unfold Inv1, init; cbn. repeat split; intros; discriminate. Qed.

Ltac bsplit H := repeat (apply andb_prop in H; let H2 := fresh H in destruct H as [H H2]).

Lemma is_runner_eq o t : is_runner o t = true -> o = ORunning t.
Proof. destruct o; cbn; try discriminate. intro H. apply Nat.eqb_eq in H. congruence. Qed.

(* a thread other than the stepping one is not in doClose's body while the stepping one is *)
Lemma not_runner s t t0 th th0 :
  tinv1 s t th = true -> closer_body (t_pc th) = true -> t0 <> t ->
  tinv1 s t0 th0 = true -> closer_body (t_pc th0) = false.
Proof.
  unfold tinv1. intros H Hb Hne H0. rewrite Hb in H. cbn in H. apply andb_prop in H. destruct H as [H _].
  apply is_runner_eq in H. rewrite H in H0. cbn in H0.
  destruct (closer_body (t_pc th0)); [|reflexivity]. cbn in H0.
  apply andb_prop in H0. destruct H0 as [H0 _]. apply Nat.eqb_eq in H0. congruence.
Qed.

Lemma runner_once s t th :
  tinv1 s t th = true -> closer_body (t_pc th) = true ->
  once s = ORunning t /\ stage s = stage_of (t_pc th).
Proof.
  unfold tinv1. intros H Hb. rewrite Hb in H. cbn in H. apply andb_prop in H. destruct H as [H1 H2].
  split; [apply is_runner_eq; exact H1|apply Nat.eqb_eq; exact H2].
Qed.

(* a step of the runner inside doClose: once stays ORunning t, stage := stage_of (new pc) *)
Ltac runner_tinv I2 Hth Hpc :=
  let t0 := fresh "t0" in let th0 := fresh "th0" in let Ht0 := fresh "Ht0" in let Hne := fresh "Hne" in
  intros t0 th0 Ht0; apply updt_cases in Ht0; destruct Ht0 as [[-> ->]|[Hne Ht0]];
  [ destruct (runner_once _ _ _ (I2 _ _ Hth)) as [Ho Hs]; [rewrite Hpc; reflexivity|];
    unfold tinv1; asimp; rewrite ?Ho; cbn; rewrite ?Nat.eqb_refl; reflexivity
  | assert (Hnb : closer_body (t_pc th0) = false)
      by (eapply (not_runner _ _ _ _ _ (I2 _ _ Hth)); [rewrite Hpc; reflexivity|exact Hne|exact (I2 _ _ Ht0)]);
    unfold tinv1; asimp; rewrite Hnb; reflexivity ].

Ltac runner_once_goal I2 Hth Hpc :=
  destruct (runner_once _ _ _ (I2 _ _ Hth)) as [Ho Hs]; [rewrite Hpc; reflexivity|];
  rewrite ?Ho; split; [lia|]; eexists; split; [apply updt_same|reflexivity].

Lemma inv1_step fx s l s' : Inv1 s -> stepf fx s l = Some s' -> Inv1 s'.
Proof.
  intros (I1 & I2 & I3) H.
  step_inv H; unfold Inv1; asimp; (split; [|split]).
  (* tids *)
  all: try (intros t0 th0 Ht0; first
       [ apply updt_cases in Ht0; destruct Ht0 as [[-> ->]|[Hne Ht0]];
         first [ exact (I1 _ _ Hth) | exact (I1 _ _ Ht0) | (specialize (I1 _ _ Ht0); lia) | lia ]
       | exact (I1 _ _ Ht0) ]; fail).
  all: try exact I1.
  (* steps that touch neither once nor stage, and keep the stepping thread out of doClose *)
  all: try (intros t0 th0 Ht0; first
       [ apply updt_cases in Ht0; destruct Ht0 as [[-> ->]|[Hne Ht0]];
         [ unfold tinv1; asimp; try reflexivity; destruct k; reflexivity
         | exact (I2 _ _ Ht0) ]
       | exact (I2 _ _ Ht0) ]; fail).
  all: try exact I2.
  all: try (destruct (once s) eqn:Ho; [exact I3|
         destruct I3 as (I3a & thr & Hr & Hb); split; [exact I3a|];
         match goal with
         | |- exists th, updt _ ?t _ ?r = Some th /\ _ =>
           destruct (Nat.eq_dec r t) as [->|Hn];
           [ exfalso; rewrite Hth in Hr; inversion Hr; subst; rewrite Hpc in Hb; discriminate Hb
           | rewrite updt_other by assumption; eauto ]
         | _ => eauto
         end
       | exact I3]; fail).
  (* the runner's steps *)
  all: try (runner_tinv I2 Hth Hpc; fail).
  all: try (runner_once_goal I2 Hth Hpc; fail).
  - (* Spawn *)
    destruct (once s); auto. destruct I3 as (I3a & thr & Hr & Hb). split; [exact I3a|].
    exists thr. split; [|exact Hb]. rewrite updt_other; [exact Hr|]. specialize (I1 _ _ Hr). lia.
  - (* COnce wins *)
    intros t0 th0 Ht0; apply updt_cases in Ht0; destruct Ht0 as [[-> ->]|[Hne Ht0]].
    + unfold tinv1; asimp. cbn. rewrite Nat.eqb_refl. reflexivity.
    + pose proof (I2 _ _ Ht0) as T0. unfold tinv1 in *; asimp. rewrite Honce in T0. cbn in T0.
      destruct (closer_body (t_pc th0)); [discriminate T0|reflexivity].
  - split; [lia|]. eexists; split; [apply updt_same|reflexivity].
  - rewrite Honce in *. exact I3.
  - reflexivity.
  - destruct (once s); auto. destruct I3 as (I3a & thr & Hr & Hb). split; [exact I3a|].
    exists thr. split; [|exact Hb]. rewrite updt_other; [exact Hr|]. specialize (I1 _ _ Hr). lia.
Qed.

Theorem inv1_reach fx r cap s : reach fx r cap s -> Inv1 s.
Proof. apply invariant_reachable; [apply inv1_init|apply inv1_step]. Qed.

(* ================================================================== *)
(* G2: expSyncMutex and the expSyncClosed flag                         *)

Definition holds (m : option nat) (t : nat) : bool := match m with Some x => Nat.eqb x t | None => false end.
Definition in_exp_cs (p : pc) : bool :=
  match p with CSet | CUnlock | ECheck | EAdd | EUnlock | ERefuse => true | _ => false end.
Definition is_addunl (p : pc) : bool := match p with EAdd | EUnlock => true | _ => false end.

Definition tinv2 (s : st) (t : nat) (th : thread) : bool :=
  implb (in_exp_cs (t_pc th)) (holds (exp_mu s) t) && implb (is_addunl (t_pc th)) (negb (exp_closed s)).

Definition Inv2 (s : st) : Prop :=
  (forall t th, threads s t = Some th -> tinv2 s t th = true) /\
  (4 <= stage s -> exp_closed s = true) /\
  (forall t, exp_mu s = Some t -> exists th, threads s t = Some th /\ in_exp_cs (t_pc th) = true).

Lemma inv2_init r cap : Inv2 (init r cap).
Proof. unfold Inv2, init; cbn. repeat split; intros; try discriminate; lia. Qed.

Lemma holds_eq m t : holds m t = true -> m = Some t.
Proof. unfold holds. destruct m; [|discriminate]. intro H. apply Nat.eqb_eq in H. congruence. Qed.
Lemma holds_refl t : holds (Some t) t = true.
Proof. cbn. apply Nat.eqb_refl. Qed.
Lemma holds_other t t0 : t0 <> t -> holds (Some t) t0 = false.
Proof. intro H. cbn. apply Nat.eqb_neq. auto. Qed.

(* while t is inside the critical section nobody else is *)
Lemma not_in_cs s t t0 th th0 :
  tinv2 s t th = true -> in_exp_cs (t_pc th) = true -> t0 <> t -> tinv2 s t0 th0 = true ->
  in_exp_cs (t_pc th0) = false /\ is_addunl (t_pc th0) = false.
Proof.
  unfold tinv2. intros H Hc Hne H0. rewrite Hc in H. cbn in H.
  apply andb_prop in H. destruct H as [H _]. apply holds_eq in H. rewrite H in H0.
  rewrite (holds_other _ _ Hne) in H0.
  destruct (t_pc th0); cbn in *; try discriminate H0; auto.
Qed.
Lemma not_in_cs_free s t0 th0 :
  exp_mu s = None -> tinv2 s t0 th0 = true -> in_exp_cs (t_pc th0) = false /\ is_addunl (t_pc th0) = false.
Proof.
  unfold tinv2. intros Hn H0. rewrite Hn in H0. destruct (t_pc th0); cbn in *; try discriminate H0; auto.
Qed.

Lemma inv2_step fx s l s' : Inv1 s -> Inv2 s -> stepf fx s l = Some s' -> Inv2 s'.
Proof.
  intros (I1 & I2 & I3) (J1 & J2 & J3) H.
  step_inv H; unfold Inv2; asimp; (split; [|split]).
  (* flag vs stage, when the stage does not move *)
  all: try exact J2.
  (* holder, when neither the mutex nor the holder's critical-section status changes *)
  all: try (intros x Hx; destruct (J3 _ Hx) as (thx & Hx1 & Hx2);
            first
            [ match goal with
              | |- exists th, updt _ ?u ?n x = Some th /\ _ =>
                destruct (Nat.eq_dec x u) as [->|Hn];
                [ first
                  [ rewrite Hth in Hx1; inversion Hx1; subst; rewrite Hpc in Hx2;
                    first [discriminate Hx2 | eexists; split; [apply updt_same|reflexivity]]
                  | exfalso; specialize (I1 _ _ Hx1); lia ]
                | rewrite updt_other by assumption; eauto ]
              end
            | eauto ]; fail).
  (* threads, when mutex and flag are untouched *)
  all: try (intros t0 th0 Ht0; first
       [ apply updt_cases in Ht0; destruct Ht0 as [[-> ->]|[Hne Ht0]];
         [ first
           [ pose proof (J1 _ _ Hth) as Tt; unfold tinv2 in *; asimp; rewrite Hpc in Tt; cbn in Tt |- *;
             first [exact Tt | reflexivity | (rewrite ?Hec; cbn; rewrite ?andb_true_r; exact Tt)]
           | unfold tinv2; asimp; destruct k; reflexivity
           | unfold tinv2; reflexivity ]
         | exact (J1 _ _ Ht0) ]
       | exact (J1 _ _ Ht0) ]; fail).
  (* stage constants *)
  all: try (intro Hx; lia).
  all: try (intros _; reflexivity).
  all: try (intros _; apply J2; destruct (runner_once _ _ _ (I2 _ _ Hth)) as [_ Hs]; [rewrite Hpc; reflexivity|];
            rewrite Hs, Hpc; cbn; lia).
  all: try (intro Hx; specialize (J2 Hx); congruence).
  (* holder after acquire / release *)
  all: try (intros x Hx; discriminate Hx).
  all: try (intros x Hx; inversion Hx; subst; eexists; split; [apply updt_same|reflexivity]).
  (* threads after acquire / release / flag *)
  all: try (intros t0 th0 Ht0; apply updt_cases in Ht0; destruct Ht0 as [[-> ->]|[Hne Ht0]];
    [ pose proof (J1 _ _ Hth) as Tt; unfold tinv2 in *; asimp; rewrite Hpc in Tt; cbn in Tt |- *;
      rewrite ?Nat.eqb_refl, ?Hec; cbn; try reflexivity;
      try (apply andb_prop in Tt; destruct Tt as [Tt _]; rewrite ?Tt; reflexivity)
    | first [ destruct (not_in_cs_free s t0 th0 Hmu (J1 _ _ Ht0)) as [N1 N2]
            | assert (Hcs : in_exp_cs (t_pc th) = true) by (rewrite Hpc; reflexivity);
              destruct (not_in_cs s t t0 th th0 (J1 _ _ Hth) Hcs Hne (J1 _ _ Ht0)) as [N1 N2] ];
      unfold tinv2; asimp; rewrite N1, N2; reflexivity ]; fail).
Qed.

Theorem inv2_reach fx r cap s : reach fx r cap s -> Inv2 s.
Proof.
  apply (invariant_reachable2 (stepf fx) Inv1 Inv2).
  - apply inv1_reach.
  - apply inv2_init.
  - intros; eapply inv2_step; eassumption.
Qed.

(* ================================================================== *)
(* G3: the waits of doClose, the watcher, the core flags, late calls   *)

Definition late_ok (hr : bool) (k : kind) (p : pc) : bool :=
  match k with
  | KExp _ _ => match p with ELock | ECheck | ERefuse | Fin RShutdown => true | _ => false end
  | KAnn _ => match p with NCheck => true | Fin RErrClosed => hr | Fin RNil => negb hr | _ => false end
  | KClose => match p with COnce | Fin RNil => true | _ => false end
  | KAsync _ => false
  end.

Definition tinv3 (s : st) (t : nat) (th : thread) : bool :=
  implb (6 <=? stage s) (negb (exp_active th)) &&
  implb (9 <=? stage s) (negb (async_active th)) &&
  implb (t_late th) (close_returned s && late_ok (has_recv s) (t_kind th) (t_pc th)).

Definition w_exiting (p : wpc) : bool := match p with WCancel | WCloseDone | WEnd => true | _ => false end.

Definition Inv3 (fx : bool) (s : st) : Prop :=
  (forall t th, threads s t = Some th -> tinv3 s t th = true) /\
  (7 <= stage s -> has_recv s = true -> recv_closed s = true) /\
  (8 <= stage s -> has_recv s = true -> watch_done s = true) /\
  (watch_done s = true <-> w_pc s = WEnd) /\
  (w_pc s = WCloseDone \/ w_pc s = WEnd -> ctx_cancelled s = true) /\
  (w_exiting (w_pc s) = true -> recv_closed s = true) /\
  (closing (co s) = true <-> 2 <= stage s) /\
  (in_closed (co s) = true <-> 10 <= stage s) /\
  p_env (co s) = false /\
  (fx = true -> 11 <= stage s -> d_pc (co s) = DDone).

Lemma inv3_init fx r cap : Inv3 fx (init r cap).
Proof.
  unfold Inv3, init; cbn. repeat split; intros; try discriminate; try lia.
  destruct H; discriminate.
Qed.

Lemma ddone_stable c lb c' : d_pc c = DDone -> cstep c lb = Some c' -> d_pc c' = DDone.
Proof.
  intros Hd H. destruct lb as [e| | | |l|l|l|l|]; cbn [cstep] in H; rewrite ?Hd in H.
  - destruct (in_closed c); [|destruct (in_ev c)]; inv_some; auto.
  - destruct (in_closed c); inv_some; auto.
  - destruct (closing c); inv_some; auto.
  - inv_some. auto.
  - discriminate.
  - destruct (lst c l); [|discriminate]. destruct (l_reg l0 || l_in_closed l0 || negb (closing c)); inv_some; auto.
  - discriminate.
  - destruct (lst c l); [|discriminate]. destruct (l_q l0); [destruct (l_in_closed l0 && negb (l_out_closed l0))|]; inv_some; auto.
  - discriminate.
Qed.

Lemma label_ok_14 fx lb : C15_Shutdown.core_label_ok fx lb = true -> C14_Events.core_label_ok lb = true.
Proof. destruct lb; cbn; auto. Qed.

Lemma none_active_spec s f :
  none_active s f = true -> forall t th, threads s t = Some th -> t < next_tid s -> f th = false.
Proof.
  unfold none_active. intros H t th Ht Hlt. rewrite forallb_forall in H.
  specialize (H t). rewrite Ht in H. apply negb_true_iff. apply H. apply in_seq. lia.
Qed.

Ltac split10 := split; [|split; [|split; [|split; [|split; [|split; [|split; [|split; [|split]]]]]]]].

(* compute comparisons between numerals *)
Ltac leb_compute :=
  repeat match goal with
  | |- context [Nat.leb ?a ?b] =>
    lazymatch a with S _ => idtac | O => idtac end;
    lazymatch b with S _ => idtac | O => idtac end;
    let v := eval compute in (Nat.leb a b) in change (Nat.leb a b) with v
  | H : context [Nat.leb ?a ?b] |- _ =>
    lazymatch a with S _ => idtac | O => idtac end;
    lazymatch b with S _ => idtac | O => idtac end;
    let v := eval compute in (Nat.leb a b) in change (Nat.leb a b) with v in H
  end.

Ltac th3_self K1 Hth Hpc :=
  let Tt := fresh "Tt" in
  pose proof (K1 _ _ Hth) as Tt;
  unfold tinv3, exp_active, async_active, late_ok, close_returned in *; asimp; rewrite Hpc in Tt;
  match type of Hth with
  | threads ?s _ = Some ?th =>
    destruct (6 <=? stage s); destruct (9 <=? stage s); destruct (t_late th);
    destruct (once s); destruct (t_kind th); destruct (has_recv s);
    cbn in *; try reflexivity; try discriminate
  end.

Lemma inv3_step fx s l s' : Inv1 s -> Inv2 s -> Inv3 fx s -> stepf fx s l = Some s' -> Inv3 fx s'.
Proof.
  intros (I1 & I2 & I3) (J1 & J2 & J3) (K1 & K2 & K3 & K4 & K5 & K6 & K7 & K8 & K9 & K10) H.
  step_inv H; unfold Inv3; asimp; split10.
  all: try assumption.
  (* threads, for steps that leave stage / once / has_recv alone *)
  all: try (intros t0 th0 Ht0; first
       [ apply updt_cases in Ht0; destruct Ht0 as [[-> ->]|[Hne Ht0]];
         [ th3_self K1 Hth Hpc | exact (K1 _ _ Ht0) ]
       | exact (K1 _ _ Ht0) ]; fail).
  (* runner steps: the old stage is known *)
  all: try (destruct (runner_once _ _ _ (I2 _ _ Hth)) as [Ho Hs]; [rewrite Hpc; reflexivity|];
            rewrite Hpc in Hs; cbn [stage_of] in Hs).
  (* arithmetic side conditions *)
  all: try (intros; first
       [ lia | congruence | reflexivity
       | apply K2; [lia|assumption] | apply K3; [lia|assumption]
       | apply K10; [assumption|lia] ]; fail).
  all: try (split; intro Hx; first [lia | apply K7; lia | (apply K7 in Hx; lia) | apply K8; lia | (apply K8 in Hx; lia)]; fail).
  (* runner steps, thread part *)
  all: try (intros t0 th0 Ht0; apply updt_cases in Ht0; destruct Ht0 as [[-> ->]|[Hne Ht0]];
    [ pose proof (K1 _ _ Hth) as Tt; unfold tinv3, exp_active, async_active, late_ok, close_returned in *; asimp;
      rewrite Hpc in Tt; rewrite ?Ho in *;
      destruct (t_late th); destruct (t_kind th); destruct (has_recv s); cbn in *;
      rewrite ?andb_true_r, ?andb_false_r in *; try reflexivity; try discriminate;
      destruct (6 <=? _); destruct (9 <=? _); reflexivity
    | pose proof (K1 _ _ Ht0) as T0; unfold tinv3, close_returned in *; asimp;
      rewrite ?Ho, ?Hs in T0; leb_compute;
      try rewrite (none_active_spec _ _ Hna _ _ Ht0 (I1 _ _ Ht0));
      destruct (exp_active th0); destruct (async_active th0); destruct (t_late th0);
      cbn in *; try reflexivity; try discriminate; try exact T0 ]; fail).
  (* the core after a send: the sender is active, so inEvents is open *)
  all: try (
    assert (Hic : in_closed (co s) = false) by
      (destruct (in_closed (co s)) eqn:E; [|reflexivity]; exfalso; destruct K8 as [K8a _]; specialize (K8a eq_refl);
       pose proof (K1 _ _ Hth) as Tt; unfold tinv3, exp_active, async_active in Tt; rewrite Hpc in Tt;
       destruct (6 <=? stage s) eqn:E6; destruct (9 <=? stage s) eqn:E9; cbn in Tt; try discriminate Tt;
       try apply Nat.leb_gt in E6; try apply Nat.leb_gt in E9; lia);
    cbn [cstep] in Hcs; rewrite Hic in Hcs; destruct (in_ev (co s)); [discriminate Hcs|]; inv_some; csimp;
    first [assumption | (intros; apply K10; assumption)]; fail).
  (* close(closing) / close(inEvents) by the runner *)
  all: try (
    cbn [cstep] in Hcs;
    first
    [ assert (E : closing (co s) = false)
        by (destruct (closing (co s)) eqn:E; [exfalso; destruct K7 as [Kx _]; specialize (Kx eq_refl); lia|reflexivity]);
      rewrite E in Hcs
    | assert (E : in_closed (co s) = false)
        by (destruct (in_closed (co s)) eqn:E; [exfalso; destruct K8 as [Kx _]; specialize (Kx eq_refl); lia|reflexivity]);
      rewrite E in Hcs ];
    inv_some; csimp;
    first [ assumption
          | (split; intro Hx; first [lia | reflexivity | (apply K7; lia) | (apply K7 in Hx; lia) | (apply K8 in Hx; lia) | (apply K8; lia) | congruence]) ]; fail).
  (* core labels *)
  all: try (
    destruct (cstep_ok_frame _ _ _ (label_ok_14 _ _ Hok) Hcs) as (F1 & F2 & F3 & _);
    rewrite ?F1, ?F2, ?F3; first [assumption | (intros Hf Hx; eapply ddone_stable; [apply K10; assumption|exact Hcs])]; fail).
  (* watcher / receiver facts whose atoms were destructed by the step inversion *)
  all: try (intros; first [ (apply K2; auto; fail) | (apply K3; auto; fail) | (apply K6; auto; fail) | (apply K5; auto; fail)
                          | (rewrite ?Hrc, ?Hctx; auto; fail) ]; fail).
  all: try (split; intro Hx; first [discriminate Hx | reflexivity
                                   | (destruct K4 as [Kx _]; specialize (Kx Hx); discriminate Kx) ]; fail).
  all: try (intros [Hx|Hx]; discriminate Hx).
  - (* Spawn *)
    intros t0 th0 Ht0. apply updt_cases in Ht0. destruct Ht0 as [[-> ->]|[Hne Ht0]]; [|exact (K1 _ _ Ht0)].
    unfold tinv3, exp_active, async_active, late_ok, close_returned; asimp.
    destruct k; try discriminate Hka; destruct (once s); destruct (6 <=? stage s); destruct (9 <=? stage s);
      destruct (has_recv s); reflexivity.
  - (* COnce wins the Once *)
    intros t0 th0 Ht0. apply updt_cases in Ht0. destruct Ht0 as [[-> ->]|[Hne Ht0]].
    + pose proof (K1 _ _ Hth) as Tt. unfold tinv3, exp_active, async_active, close_returned in *; asimp.
      rewrite ?Honce, ?I3 in *. leb_compute. cbn in *. destruct (t_late th); [|reflexivity].
      exact Tt.
    + pose proof (K1 _ _ Ht0) as T0. unfold tinv3, close_returned in *; asimp.
      rewrite ?Honce, ?I3 in *. leb_compute. cbn in *. destruct (t_late th0); [|reflexivity].
      cbn in T0. rewrite ?andb_false_r in T0. discriminate T0.
  - (* ECheck passes the gate: the flag is not set, so Close has not returned *)
    intros t0 th0 Ht0. apply updt_cases in Ht0. destruct Ht0 as [[-> ->]|[Hne Ht0]]; [|exact (K1 _ _ Ht0)].
    pose proof (K1 _ _ Hth) as Tt. unfold tinv3, exp_active, async_active, close_returned in *; asimp.
    rewrite Hpc in Tt. cbn in Tt |- *.
    destruct (t_late th); [exfalso|cbn; destruct (6 <=? stage s); destruct (9 <=? stage s); reflexivity].
    destruct (once s); try (destruct (6 <=? stage s); destruct (9 <=? stage s); discriminate Tt).
    assert (X : false = true) by (apply J2; lia). discriminate X.
  - (* EAdd: expSyncWG.Add(1) happens with the flag not set, i.e. before doClose waits *)
    intros t0 th0 Ht0. apply updt_cases in Ht0. destruct Ht0 as [[-> ->]|[Hne Ht0]]; [|exact (K1 _ _ Ht0)].
    pose proof (J1 _ _ Hth) as T2. unfold tinv2 in T2. rewrite Hpc in T2. cbn in T2.
    apply andb_prop in T2. destruct T2 as [_ T2]. apply negb_true_iff in T2.
    assert (Hst : stage s < 4). { destruct (Nat.lt_ge_cases (stage s) 4) as [Hl|Hg]; [exact Hl|]. rewrite J2 in T2 by exact Hg. discriminate. }
    pose proof (K1 _ _ Hth) as Tt. unfold tinv3, exp_active, async_active, late_ok, close_returned in *; asimp.
    rewrite Hpc in Tt.
    assert (E6 : (6 <=? stage s) = false) by (apply Nat.leb_gt; lia).
    assert (E9 : (9 <=? stage s) = false) by (apply Nat.leb_gt; lia).
    rewrite E6, E9 in *. cbn in *.
    destruct (t_late th); [|reflexivity]. destruct (once s); destruct (t_kind th); destruct (has_recv s); cbn in *; discriminate Tt.
  - (* NCheck: the receiver is open, so Close has not returned *)
    intros t0 th0 Ht0. apply updt_cases in Ht0. destruct Ht0 as [[-> ->]|[Hne Ht0]]; [|exact (K1 _ _ Ht0)].
    pose proof (K1 _ _ Hth) as Tt. unfold tinv3, exp_active, async_active, close_returned in *; asimp.
    rewrite Hpc in Tt. cbn in Tt |- *.
    destruct (t_late th); [exfalso|cbn; destruct (6 <=? stage s); destruct (9 <=? stage s); reflexivity].
    destruct (once s); try (destruct (6 <=? stage s); destruct (9 <=? stage s); discriminate Tt).
    assert (false = true) by (apply K2; [lia|reflexivity]). discriminate.
  - (* watch starts a goroutine: it has not exited, so doClose is not past <-watchDone *)
    intros t0 th0 Ht0. apply updt_cases in Ht0. destruct Ht0 as [[-> ->]|[Hne Ht0]]; [|exact (K1 _ _ Ht0)].
    assert (Hst : stage s < 8).
    { destruct (Nat.lt_ge_cases (stage s) 8) as [Hl|Hg]; [exact Hl|]. exfalso.
      destruct K4 as [Kx _]. specialize (Kx (K3 Hg eq_refl)). discriminate Kx. }
    unfold tinv3, exp_active, async_active; asimp.
    assert (E9 : (9 <=? stage s) = false) by (apply Nat.leb_gt; lia). rewrite E9. cbn.
    destruct (6 <=? stage s); reflexivity.
Qed.

Theorem inv3_reach fx r cap s : reach fx r cap s -> Inv3 fx s.
Proof.
  apply (invariant_reachable2 (stepf fx) (fun s => Inv1 s /\ Inv2 s) (Inv3 fx)).
  - intros s0 R. split; [apply (inv1_reach _ _ _ _ R)|apply (inv2_reach _ _ _ _ R)].
  - apply inv3_init.
  - intros s0 l s1 [H1 H2] H3 Hs. eapply inv3_step; eassumption.
Qed.

(* ================================================================== *)
(* Safety theorems                                                     *)

Lemma returned_stage fx r cap s : reach fx r cap s -> close_returned s = true -> stage s = 12.
Proof.
  intros R H. destruct (inv1_reach _ _ _ _ R) as (_ & _ & I3). unfold close_returned in H.
  destruct (once s); try discriminate. exact I3.
Qed.

Lemma stage_active fx r cap s t th :
  reach fx r cap s -> threads s t = Some th ->
  (6 <= stage s -> exp_active th = false) /\ (9 <= stage s -> async_active th = false).
Proof.
  intros R Hth. destruct (inv3_reach _ _ _ _ R) as (K1 & _). pose proof (K1 _ _ Hth) as T. unfold tinv3 in T.
  apply andb_prop in T. destruct T as [T _]. apply andb_prop in T. destruct T as [T1 T2].
  split; intro Hs; apply Nat.leb_le in Hs; [rewrite Hs in T1|rewrite Hs in T2]; cbn in *; apply negb_true_iff; assumption.
Qed.

(* once Close has returned: no block-hook call, no store write, no notification is produced
   or forwarded any more (with doClose waiting for the distributor) *)
Theorem after_close_silent r cap s :
  reach true r cap s -> close_returned s = true -> forall l, activity s l = false.
Proof.
  intros R Hc l. pose proof (returned_stage _ _ _ _ R Hc) as Hs.
  destruct l as [k|t c|c|c|lb]; cbn [activity]; try reflexivity.
  - destruct (threads s t) as [th|] eqn:Hth; [|reflexivity].
    destruct (stage_active _ _ _ _ _ _ R Hth) as [A1 A2].
    specialize (A1 ltac:(lia)). specialize (A2 ltac:(lia)).
    unfold exp_active, async_active in *. destruct (t_pc th) as [| | | | | | | | | | | | | | | | | |[|n]| | | | | | | |[|n]| | | | | |x]; try reflexivity; try discriminate.
  - destruct lb; try reflexivity.
    destruct (inv3_reach _ _ _ _ R) as (_ & _ & _ & _ & _ & _ & _ & _ & _ & K10).
    rewrite (K10 eq_refl) by lia. reflexivity.
Qed.

(* the code as found: Close returns while a notification is still in inEvents; the
   distributor forwards it to the listeners afterwards *)
Definition silent_witness : list label :=
  [Core LNew; Core (LAdd 0); Core LDist;
   Spawn (KExp 1 true); Step 0 0; Step 0 0; Step 0 0; Step 0 0; Step 0 0; Step 0 0; Step 0 0; Step 0 0; Step 0 0;
   Spawn KClose; Step 1 0; Step 1 0; Step 1 0; Step 1 0; Step 1 0; Step 1 0; Step 1 0;
   Watcher 1; Watcher 0; Watcher 0; Step 1 0; Step 1 0; Step 1 0; Step 1 0; Step 1 0].

Theorem after_close_silent_refuted :
  exists s, reach false true 1 s /\ close_returned s = true /\
            activity s (Core LDist) = true /\ exists s', stepf false s (Core LDist) = Some s'.
Proof.
  assert (H : option_map (fun s => (close_returned s, activity s (Core LDist),
                                    match stepf false s (Core LDist) with Some _ => true | None => false end))
                (run (stepf false) (init true 1) silent_witness) = Some (true, true, true))
    by (vm_compute; reflexivity).
  destruct (run (stepf false) (init true 1) silent_witness) as [s|] eqn:E; [|discriminate].
  exists s. split; [exists silent_witness; exact E|].
  cbn [option_map] in H. injection H as H1 H2 H3.
  split; [exact H1|]. split; [exact H2|].
  destruct (stepf false s (Core LDist)); [eexists; reflexivity|discriminate].
Qed.

(* all listener channels are closed when Close returns *)
Theorem listeners_closed r cap s :
  reach true r cap s -> close_returned s = true ->
  d_pc (co s) = DDone /\
  forall l x, lst (co s) l = Some x -> l_reg x = true -> l_in_closed x = true.
Proof.
  intros R Hc. pose proof (returned_stage _ _ _ _ R Hc) as Hs.
  destruct (inv3_reach _ _ _ _ R) as (_ & _ & _ & _ & _ & _ & _ & _ & _ & K10).
  assert (Hd : d_pc (co s) = DDone) by (apply K10; [reflexivity|lia]).
  split; [exact Hd|]. intros l x. apply core_done_closed_all; [eapply reach_core; eassumption|exact Hd].
Qed.

(* doClose does not get past expSyncWG.Wait() while an admitted explicit sync is unfinished,
   nor past asyncWG.Wait() while an announce-triggered one is; by then their context is
   cancelled *)
Theorem explicit_syncs_finish_async_cancelled fx r cap s :
  reach fx r cap s ->
  (6 <= stage s -> forall t th, threads s t = Some th -> exp_active th = false) /\
  (8 <= stage s -> has_recv s = true -> ctx_cancelled s = true /\ w_pc s = WEnd) /\
  (9 <= stage s -> forall t th, threads s t = Some th -> async_active th = false).
Proof.
  intro R. split; [|split].
  - intros Hs t th Hth. apply (stage_active _ _ _ _ _ _ R Hth). exact Hs.
  - intros Hs Hr. destruct (inv3_reach _ _ _ _ R) as (_ & _ & K3 & K4 & K5 & _).
    pose proof (proj1 K4 (K3 Hs Hr)) as Hw. split; [apply K5; right; exact Hw|exact Hw].
  - intros Hs t th Hth. apply (stage_active _ _ _ _ _ _ R Hth). exact Hs.
Qed.

(* every goroutine the subscriber started has ended or is past its last blocking point *)
Theorem threads_end r cap s :
  reach true r cap s -> close_returned s = true ->
  (forall t th, threads s t = Some th -> exp_active th = false /\ async_active th = false) /\
  (has_recv s = true -> w_pc s = WEnd) /\
  d_pc (co s) = DDone /\
  closing (co s) = true.
Proof.
  intros R Hc. pose proof (returned_stage _ _ _ _ R Hc) as Hs.
  destruct (explicit_syncs_finish_async_cancelled _ _ _ _ R) as (E1 & E2 & E3).
  split; [|split; [|split]].
  - intros t th Hth. split; [eapply E1|eapply E3]; try eassumption; lia.
  - intro Hr. apply E2; [lia|exact Hr].
  - apply (listeners_closed _ _ _ R Hc).
  - destruct (inv3_reach _ _ _ _ R) as (_ & _ & _ & _ & _ & _ & K7 & _). apply K7. lia.
Qed.

(* the idle-handler cleaner ends once s.closing is closed: its exit is enabled *)
Theorem cleaner_ends fx r cap s :
  reach fx r cap s -> closing (co s) = true ->
  ic_pc s = ICEnd \/ (exists s', stepf fx s (Cleaner 1) = Some s' /\ (ic_pc s' = ICEnd \/ ic_pc s' = ICWait)).
Proof.
  intros R Hc. cbn [stepf]. unfold cleaner_step. destruct (ic_pc s); [|right|left; reflexivity].
  - right. rewrite Hc. eexists. split; [reflexivity|]. asimp. auto.
  - eexists. split; [reflexivity|]. asimp. auto.
Qed.

(* Once: at most one goroutine ever runs doClose; nothing is closed twice *)
Theorem close_idempotent_concurrent fx r cap s :
  reach fx r cap s ->
  p_env (co s) = false /\
  (forall t1 t2 th1 th2, threads s t1 = Some th1 -> threads s t2 = Some th2 ->
     closer_body (t_pc th1) = true -> closer_body (t_pc th2) = true -> t1 = t2) /\
  (close_returned s = true -> forall t th, threads s t = Some th -> closer_body (t_pc th) = false).
Proof.
  intro R. destruct (inv1_reach _ _ _ _ R) as (I1 & I2 & I3).
  split; [apply (inv3_reach _ _ _ _ R)|]. split.
  - intros t1 t2 th1 th2 H1 H2 B1 B2.
    destruct (runner_once _ _ _ (I2 _ _ H1) B1) as [O1 _]. destruct (runner_once _ _ _ (I2 _ _ H2) B2) as [O2 _].
    congruence.
  - intros Hc t th Hth. destruct (closer_body (t_pc th)) eqn:B; [|reflexivity].
    destruct (runner_once _ _ _ (I2 _ _ Hth) B) as [O1 _]. unfold close_returned in Hc. rewrite O1 in Hc. discriminate.
Qed.

(* ---- a caller in Receiver.Direct's select exists only with a receiver ---- *)
Definition Inv4 (s : st) : Prop :=
  forall t th, threads s t = Some th -> t_pc th = NPut -> has_recv s = true.

Lemma inv4_step fx s l s' : Inv4 s -> stepf fx s l = Some s' -> Inv4 s'.
Proof.
  intros I H. step_inv H; intros t0 th0 Ht0 Hp; asimp;
    try (apply updt_cases in Ht0; destruct Ht0 as [[-> ->]|[Hne Ht0]]);
    try (eapply I; eassumption); try discriminate Hp; try reflexivity; try assumption.
  all: try (destruct k; discriminate Hp).
Qed.

Lemma inv4_reach fx r cap s : reach fx r cap s -> Inv4 s.
Proof. apply invariant_reachable; [intros t th H; discriminate H|apply inv4_step]. Qed.

Definition enabled (fx : bool) (s : st) (t : nat) : Prop := exists c s', stepf fx s (Step t c) = Some s'.

Ltac en_go c Hth Hpc := exists c; cbn [stepf]; rewrite Hth; unfold step_thread; rewrite Hpc.

(* after Close has returned, every call still in progress or made later has an enabled step
   (so it returns instead of blocking); the only wait is for expSyncMutex, whose holder is a
   caller that is itself about to return "shutdown" *)
Theorem entry_points_return_after_close fx r cap s t th :
  reach fx r cap s -> close_returned s = true -> threads s t = Some th ->
  (forall res, t_pc th <> Fin res) ->
  enabled fx s t \/
  (t_pc th = ELock /\ exists h thh, exp_mu s = Some h /\ threads s h = Some thh /\
                      (t_pc thh = ECheck \/ t_pc thh = ERefuse) /\ enabled fx s h).
Proof.
  intros R Hc Hth Hnf. pose proof (returned_stage _ _ _ _ R Hc) as Hs.
  destruct (inv1_reach _ _ _ _ R) as (I1 & I2 & I3).
  destruct (inv2_reach _ _ _ _ R) as (J1 & J2 & J3).
  destruct (inv3_reach _ _ _ _ R) as (K1 & K2 & _).
  destruct (stage_active _ _ _ _ _ _ R Hth) as [A1 A2].
  specialize (A1 ltac:(lia)). specialize (A2 ltac:(lia)).
  destruct (close_idempotent_concurrent _ _ _ _ R) as (_ & _ & NB). specialize (NB Hc).
  pose proof (NB _ _ Hth) as Hb.
  assert (Hec : exp_closed s = true) by (apply J2; lia).
  unfold close_returned in Hc. destruct (once s) eqn:Ho; try discriminate Hc.
  unfold exp_active, async_active in *.
  destruct (t_pc th) as [| | | | | | | | | | | | | | | | | |left| | | | | | | |left| | | | | |res] eqn:Hpc;
    try discriminate Hb; try discriminate A1; try discriminate A2.
  - left. en_go 0 Hth Hpc. rewrite Ho. eexists; reflexivity.
  - (* ELock *)
    destruct (exp_mu s) as [h|] eqn:Hmu.
    + right. split; [reflexivity|]. destruct (J3 _ eq_refl) as (thh & Hh & Hcs).
      exists h, thh. split; [reflexivity|]. split; [exact Hh|].
      pose proof (J1 _ _ Hh) as T2. unfold tinv2 in T2. pose proof (NB _ _ Hh) as Hbh.
      destruct (t_pc thh) eqn:Hph; try discriminate Hcs; try discriminate Hbh;
        try (cbn in T2; rewrite Hec in T2; cbn in T2; rewrite andb_false_r in T2; discriminate T2).
      * split; [left; reflexivity|]. en_go 0 Hh Hph. rewrite Hec. eexists; reflexivity.
      * split; [right; reflexivity|]. en_go 0 Hh Hph. eexists; reflexivity.
    + left. en_go 0 Hth Hpc. rewrite Hmu. eexists; reflexivity.
  - left. en_go 0 Hth Hpc. rewrite Hec. eexists; reflexivity.
  - left. en_go 0 Hth Hpc. eexists; reflexivity.
  - left. en_go 0 Hth Hpc. eexists; reflexivity.
  - left. en_go 0 Hth Hpc. eexists; reflexivity.
  - (* NCheck *)
    left. en_go 0 Hth Hpc. destruct (has_recv s); [destruct (recv_closed s)|]; eexists; reflexivity.
  - (* NPut *)
    left. en_go 1 Hth Hpc. pose proof (inv4_reach _ _ _ _ R _ _ Hth Hpc) as Hr.
    rewrite (K2 ltac:(lia) Hr). eexists; reflexivity.
  - (* ASemRel *)
    left. en_go 0 Hth Hpc. destruct (t_sem th); eexists; reflexivity.
  - exfalso. eapply Hnf. reflexivity.
Qed.

(* a call made after Close returned ends with the refusal *)
Theorem late_calls_refused fx r cap s t th res :
  reach fx r cap s -> threads s t = Some th -> t_late th = true -> t_pc th = Fin res ->
  res = match t_kind th with
        | KExp _ _ => RShutdown
        | KAnn _ => if has_recv s then RErrClosed else RNil
        | _ => RNil
        end.
Proof.
  intros R Hth Hl Hpc. destruct (inv3_reach _ _ _ _ R) as (K1 & _).
  pose proof (K1 _ _ Hth) as T. unfold tinv3 in T. rewrite Hl in T.
  apply andb_prop in T. destruct T as [_ T]. cbn in T. apply andb_prop in T. destruct T as [_ T].
  unfold late_ok in T. rewrite Hpc in T.
  destruct (t_kind th); destruct res; destruct (has_recv s); cbn in T; try discriminate T; reflexivity.
Qed.

(* ... and such a call never gets past the gate / the receiver check / the Once *)
Theorem late_calls_do_nothing fx r cap s t th :
  reach fx r cap s -> threads s t = Some th -> t_late th = true ->
  late_ok (has_recv s) (t_kind th) (t_pc th) = true /\ close_returned s = true.
Proof.
  intros R Hth Hl. destruct (inv3_reach _ _ _ _ R) as (K1 & _).
  pose proof (K1 _ _ Hth) as T. unfold tinv3 in T. rewrite Hl in T.
  apply andb_prop in T. destruct T as [_ T]. cbn in T. apply andb_prop in T. destruct T as [T1 T2]. auto.
Qed.

(* OnSyncFinished after (or during) Close, repaired code: the registration can always give up *)
Theorem registration_returns_when_closing r cap s l x :
  reach true r cap s -> 2 <= stage s -> lst (co s) l = Some x -> l_reg x = false -> l_in_closed x = false ->
  exists s', stepf true s (Core (LAddClosed l)) = Some s'.
Proof.
  intros R Hs Hl Hr Hc. destruct (inv3_reach _ _ _ _ R) as (_ & _ & _ & _ & _ & _ & K7 & _).
  cbn [stepf C15_Shutdown.core_label_ok cstep]. rewrite Hl, Hr, Hc, (proj2 K7 Hs). cbn. eexists; reflexivity.
Qed.

(* the cancel func: its select has the <-s.closing case ready *)
Theorem cancel_returns_when_closing fx r cap s :
  reach fx r cap s -> 2 <= stage s -> closing (co s) = true.
Proof. intros R Hs. apply (inv3_reach _ _ _ _ R). exact Hs. Qed.

(* the code as found: after Close, OnSyncFinished blocks for ever on addEventChan *)
Definition reg_witness : list label :=
  [Spawn KClose; Step 0 0; Step 0 0; Step 0 0; Step 0 0; Step 0 0; Step 0 0; Step 0 0; Step 0 0;
   Step 0 0; Step 0 0; Step 0 0; Core LDist; Core LDist; Core LNew].

Lemma ddone_forever fx s s' :
  reachable (stepf fx) s s' -> d_pc (co s) = DDone -> d_pc (co s') = DDone.
Proof.
  intros [ls Hr]. revert s Hr. induction ls as [|l ls IH]; intros s Hr Hd; cbn in Hr.
  - inversion Hr; subst; exact Hd.
  - destruct (stepf fx s l) as [s1|] eqn:E; [|discriminate].
    apply (IH s1 Hr). destruct (co_step _ _ _ _ E) as [->|(lb & Hc)]; [exact Hd|].
    eapply ddone_stable; eassumption.
Qed.

Theorem entry_points_return_after_close_refuted :
  exists s, reach false false 0 s /\ close_returned s = true /\
    (exists x, lst (co s) 0 = Some x /\ l_reg x = false /\ l_in_closed x = false) /\
    forall s', reachable (stepf false) s s' ->
      stepf false s' (Core (LAdd 0)) = None /\ stepf false s' (Core (LAddClosed 0)) = None.
Proof.
  assert (H : option_map (fun s => (close_returned s, match d_pc (co s) with DDone => true | _ => false end,
                                    match lst (co s) 0 with Some x => negb (l_reg x) && negb (l_in_closed x) | None => false end))
                (run (stepf false) (init false 0) reg_witness) = Some (true, true, true))
    by (vm_compute; reflexivity).
  destruct (run (stepf false) (init false 0) reg_witness) as [s|] eqn:E; [|discriminate].
  exists s. split; [exists reg_witness; exact E|].
  cbn [option_map] in H. injection H as H1 H2 H3.
  split; [exact H1|]. split.
  - destruct (lst (co s) 0) as [x|]; [|discriminate]. exists x. split; [reflexivity|].
    apply andb_prop in H3. destruct H3 as [A B]. apply negb_true_iff in A, B. auto.
  - intros s' Hr. assert (Hd : d_pc (co s') = DDone).
    { eapply ddone_forever; [exact Hr|]. destruct (d_pc (co s)); try discriminate; reflexivity. }
    split; cbn [stepf C15_Shutdown.core_label_ok cstep]; [rewrite Hd|]; reflexivity.
Qed.

(* ================================================================== *)
(* Close never gets stuck                                              *)

Definition needs_recv (th : thread) : bool :=
  is_async (t_kind th) || match t_pc th with CRecvClose | CWaitWatch => true | _ => false end.

Definition Inv5 (s : st) : Prop :=
  forall t th, threads s t = Some th -> needs_recv th = true -> has_recv s = true.

Lemma inv5_step fx s l s' : Inv5 s -> stepf fx s l = Some s' -> Inv5 s'.
Proof.
  intros I H. step_inv H; intros t0 th0 Ht0 Hp; asimp;
    try (apply updt_cases in Ht0; destruct Ht0 as [[-> ->]|[Hne Ht0]]); asimp;
    try (eapply I; eassumption); try reflexivity; try congruence;
    try (apply (I _ _ Hth); unfold needs_recv in *; asimp; rewrite ?Hpc; rewrite ?orb_true_r;
         first [reflexivity | (rewrite orb_false_r in Hp |- *; exact Hp)]; fail).
  all: try (unfold needs_recv in Hp; asimp; destruct k; discriminate).
Qed.
Lemma inv5_reach fx r cap s : reach fx r cap s -> Inv5 s.
Proof. apply invariant_reachable; [intros t th H; discriminate H|apply inv5_step]. Qed.

Lemma none_active_false s f :
  none_active s f = false -> exists t th, threads s t = Some th /\ f th = true.
Proof.
  unfold none_active. intro H.
  assert (G : forall l, forallb (fun t => match threads s t with Some th => negb (f th) | None => true end) l = false ->
                        exists t th, threads s t = Some th /\ f th = true).
  { induction l as [|a l IH]; cbn; [discriminate|]. intro Hf. apply andb_false_iff in Hf. destruct Hf as [Hf|Hf].
    - destruct (threads s a) as [th|] eqn:E; [|discriminate]. exists a, th. split; [exact E|]. apply negb_false_iff. exact Hf.
    - apply IH. exact Hf. }
  apply (G _ H).
Qed.

(* only goroutines started by watch are at the A* program points *)
Definition is_apc (p : pc) : bool :=
  match p with ASem | ACtx | ABody _ | ASetLatest | ASend | ASendErr | AWgDone | ASemRel => true | _ => false end.
Definition Inv6 (s : st) : Prop :=
  forall t th, threads s t = Some th -> is_apc (t_pc th) = true -> is_async (t_kind th) = true.
Lemma inv6_step fx s l s' : Inv6 s -> stepf fx s l = Some s' -> Inv6 s'.
Proof.
  intros I H. step_inv H; intros t0 th0 Ht0 Hp; asimp;
    try (apply updt_cases in Ht0; destruct Ht0 as [[-> ->]|[Hne Ht0]]); asimp;
    try (eapply I; eassumption); try reflexivity; try discriminate Hp;
    try (apply (I _ _ Hth); rewrite Hpc; reflexivity).
  all: try (destruct k; try discriminate Hp; discriminate Hka).
Qed.
Lemma async_pc_kind fx r cap s t th :
  reach fx r cap s -> threads s t = Some th -> is_apc (t_pc th) = true -> is_async (t_kind th) = false -> False.
Proof.
  intros R Hth Hp Hk.
  assert (I : Inv6 s) by (revert R; apply invariant_reachable; [intros ? ? H; discriminate H|apply inv6_step]).
  rewrite (I _ _ Hth Hp) in Hk. discriminate.
Qed.

Definition int_label (l : label) : bool :=
  match l with
  | Step _ _ | Watcher _ | Core LDist | Cleaner (S _) => true
  | _ => false
  end.

(* a sender is enabled, or the distributor is *)
Lemma send_or_dist fx r cap s e :
  reach fx r cap s ->
  (exists c, cstep (co s) (LSend e) = Some c) \/ (exists c, cstep (co s) LDist = Some c).
Proof.
  intro R. pose proof (cinv_reach _ (reach_core _ _ _ _ R)) as CI.
  cbn [cstep]. destruct (in_closed (co s)) eqn:Hc; [left; eexists; reflexivity|].
  destruct (in_ev (co s)) as [e0|] eqn:Hi; [|left; eexists; reflexivity].
  right. destruct (d_pc (co s)) eqn:Hd.
  - rewrite Hi. eexists; reflexivity.
  - destruct (dist_enabled _ CI) as (c' & Hc' & _); [unfold dist_rank; rewrite Hd; discriminate|].
    cbn [cstep] in Hc'. rewrite Hd in Hc'. eexists; exact Hc'.
  - eexists; reflexivity.
  - eexists; reflexivity.
  - destruct CI as (_ & _ & _ & _ & _ & A6 & _). unfold dinv in A6. rewrite Hd in A6. destruct A6 as (_ & ? & _). congruence.
  - destruct CI as (_ & _ & _ & _ & _ & A6 & _). unfold dinv in A6. rewrite Hd in A6. destruct A6 as (_ & ? & _). congruence.
Qed.

Ltac step_ok t c Hth Hpc :=
  exists (Step t c); split; [reflexivity|]; cbn [stepf]; rewrite Hth; unfold step_thread; rewrite Hpc.

Theorem close_never_stuck fx r cap s r0 :
  reach fx r cap s -> once s = ORunning r0 ->
  exists l, int_label l = true /\ exists s', stepf fx s l = Some s'.
Proof.
  intros R Ho.
  destruct (inv1_reach _ _ _ _ R) as (I1 & I2 & I3). rewrite Ho in I3. destruct I3 as (Hst & thr & Hr & Hb).
  destruct (runner_once _ _ _ (I2 _ _ Hr) Hb) as [_ Hs].
  destruct (inv2_reach _ _ _ _ R) as (J1 & J2 & J3).
  destruct (inv3_reach _ _ _ _ R) as (K1 & K2 & K3 & K4 & K5 & K6 & K7 & K8 & K9 & K10).
  pose proof (cinv_reach _ (reach_core _ _ _ _ R)) as CI.
  destruct (t_pc thr) eqn:Hpc; try discriminate Hb; cbn [stage_of] in Hs.
  - (* CClosing *) step_ok r0 0 Hr Hpc. cbn [cstep]. destruct (closing (co s)); eexists; reflexivity.
  - (* CLock *)
    destruct (exp_mu s) as [h|] eqn:Hmu.
    + destruct (J3 _ eq_refl) as (thh & Hh & Hcs).
      assert (Hne : h <> r0).
      { intros ->. rewrite Hr in Hh. inversion Hh; subst. rewrite Hpc in Hcs. discriminate. }
      pose proof (not_runner _ _ _ _ _ (I2 _ _ Hr) Hb Hne (I2 _ _ Hh)) as Hnb.
      destruct (t_pc thh) eqn:Hph; try discriminate Hcs; try discriminate Hnb.
      * step_ok h 0 Hh Hph. destruct (exp_closed s); eexists; reflexivity.
      * step_ok h 0 Hh Hph. eexists; reflexivity.
      * step_ok h 0 Hh Hph. eexists; reflexivity.
      * step_ok h 0 Hh Hph. eexists; reflexivity.
    + step_ok r0 0 Hr Hpc. rewrite Hmu. eexists; reflexivity.
  - step_ok r0 0 Hr Hpc. eexists; reflexivity.
  - step_ok r0 0 Hr Hpc. eexists; reflexivity.
  - (* CWaitExp *)
    destruct (none_active s exp_active) eqn:Hna.
    + step_ok r0 0 Hr Hpc. rewrite Hna. destruct (has_recv s); eexists; reflexivity.
    + destruct (none_active_false _ _ Hna) as (t & th & Hth & Ha). unfold exp_active in Ha.
      destruct (t_pc th) as [| | | | | | | | | | | | | | | | | |left| | | | | | | |left| | | | | |x] eqn:Hp; try discriminate Ha.
      * step_ok t 0 Hth Hp. eexists; reflexivity.
      * destruct left; step_ok t 0 Hth Hp; [destruct (k_upd (t_kind th))|]; eexists; reflexivity.
      * step_ok t 0 Hth Hp. eexists; reflexivity.
      * destruct (send_or_dist _ _ _ _ (dummy_event t false) R) as [(c & Hc)|(c & Hc)].
        -- step_ok t 0 Hth Hp. rewrite Hc. eexists; reflexivity.
        -- exists (Core LDist). split; [reflexivity|]. cbn [stepf C15_Shutdown.core_label_ok]. rewrite Hc. eexists; reflexivity.
      * step_ok t 0 Hth Hp. eexists; reflexivity.
  - step_ok r0 0 Hr Hpc. eexists; reflexivity.
  - (* CWaitWatch *)
    destruct (watch_done s) eqn:Hwd.
    + step_ok r0 0 Hr Hpc. rewrite Hwd. eexists; reflexivity.
    + assert (Hhr : has_recv s = true).
      { apply (inv5_reach _ _ _ _ R _ _ Hr). unfold needs_recv. rewrite Hpc. apply orb_true_r. }
      assert (Hrc : recv_closed s = true) by (apply K2; [lia|exact Hhr]).
      destruct (w_pc s) eqn:Hw.
      * exists (Watcher 1). split; [reflexivity|]. cbn [stepf]. unfold watcher_step. rewrite Hhr, Hw, Hrc. eexists; reflexivity.
      * exists (Watcher 0). split; [reflexivity|]. cbn [stepf]. unfold watcher_step. rewrite Hhr, Hw. eexists; reflexivity.
      * exists (Watcher 0). split; [reflexivity|]. cbn [stepf]. unfold watcher_step. rewrite Hhr, Hw. eexists; reflexivity.
      * exists (Watcher 0). split; [reflexivity|]. cbn [stepf]. unfold watcher_step. rewrite Hhr, Hw. eexists; reflexivity.
      * rewrite (proj2 K4 eq_refl) in Hwd. discriminate.
  - (* CWaitAsync *)
    destruct (none_active s async_active) eqn:Hna.
    + step_ok r0 0 Hr Hpc. rewrite Hna. eexists; reflexivity.
    + destruct (none_active_false _ _ Hna) as (t & th & Hth & Ha).
      (* an announce-triggered goroutine exists only with a receiver; its context is cancelled by now *)
      assert (Hcx : is_async (t_kind th) = true -> ctx_cancelled s = true).
      { intro Hk. assert (Hhr : has_recv s = true)
          by (apply (inv5_reach _ _ _ _ R _ _ Hth); unfold needs_recv; rewrite Hk; reflexivity).
        apply K5. right. apply K4. apply K3; [lia|exact Hhr]. }
      unfold async_active in Ha.
      destruct (t_pc th) as [| | | | | | | | | | | | | | | | | |left| | | | | | | |left| | | | | |x] eqn:Hp; try discriminate Ha.
      * (* ASem *)
        destruct (sem_cap s) eqn:Hcap.
        -- step_ok t 0 Hth Hp. rewrite Hcap. eexists; reflexivity.
        -- destruct (ctx_cancelled s) eqn:Hctx.
           ++ step_ok t 1 Hth Hp. rewrite Hcap, Hctx. eexists; reflexivity.
           ++ destruct (sem_used s <? sem_cap s) eqn:Hlt.
              ** step_ok t 0 Hth Hp. rewrite Hcap. rewrite Hcap in Hlt. rewrite Hlt. eexists; reflexivity.
              ** (* the semaphore is full and the context is not cancelled: then this thread is
                    not an announce-triggered goroutine of a subscriber with a receiver *)
                 destruct (is_async (t_kind th)) eqn:Hk; [rewrite (Hcx eq_refl) in Hctx; discriminate|].
                 (* a non-async thread at ASem does not exist; but its step is what it is: use the runner-independent fallback *)
                 exfalso. eapply (async_pc_kind fx r cap s t th R Hth); [rewrite Hp; reflexivity|exact Hk].
      * step_ok t 0 Hth Hp. destruct (ctx_cancelled s); eexists; reflexivity.
      * destruct left; step_ok t 0 Hth Hp; eexists; reflexivity.
      * step_ok t 0 Hth Hp. eexists; reflexivity.
      * destruct (send_or_dist _ _ _ _ (dummy_event t false) R) as [(c & Hc)|(c & Hc)].
        -- step_ok t 0 Hth Hp. rewrite Hc. eexists; reflexivity.
        -- exists (Core LDist). split; [reflexivity|]. cbn [stepf C15_Shutdown.core_label_ok]. rewrite Hc. eexists; reflexivity.
      * destruct (send_or_dist _ _ _ _ (dummy_event t true) R) as [(c & Hc)|(c & Hc)].
        -- step_ok t 0 Hth Hp. rewrite Hc. eexists; reflexivity.
        -- exists (Core LDist). split; [reflexivity|]. cbn [stepf C15_Shutdown.core_label_ok]. rewrite Hc. eexists; reflexivity.
      * step_ok t 0 Hth Hp. eexists; reflexivity.
  - (* CCloseIn *)
    step_ok r0 0 Hr Hpc. cbn [cstep]. destruct (in_closed (co s)); destruct fx; eexists; reflexivity.
  - (* CWaitDist *)
    destruct (d_pc (co s)) eqn:Hd; try (step_ok r0 0 Hr Hpc; rewrite Hd; eexists; reflexivity).
    all: assert (Hic : in_closed (co s) = true) by (apply K8; lia).
    all: destruct (close_step _ CI Hic) as (c' & Hc' & _); [unfold close_rank; rewrite Hd; try destruct rest; discriminate|].
    all: exists (Core LDist); split; [reflexivity|]; cbn [stepf C15_Shutdown.core_label_ok]; rewrite Hc'; eexists; reflexivity.
  - step_ok r0 0 Hr Hpc. eexists; reflexivity.
  - step_ok r0 0 Hr Hpc. eexists; reflexivity.
Qed.

(* ================================================================== *)
(* Termination measure                                                 *)

Definition rank (th : thread) : nat :=
  let f := k_fuel (t_kind th) in
  match t_pc th with
  | COnce => 14 | CClosing => 13 | CLock => 12 | CSet => 11 | CUnlock => 10 | CWaitExp => 9 | CRecvClose => 8
  | CWaitWatch => 7 | CWaitAsync => 6 | CCloseIn => 5 | CWaitDist => 4 | CPeerstore => 3 | COnceDone => 2
  | ELock => f + 9 | ECheck => f + 8 | EAdd => f + 7 | EUnlock => f + 6 | ERefuse => 1
  | EBody n => n + 4 | ESetLatest => 3 | ESend => 2 | EDone => 1
  | NCheck => f + 12 | NPut => f + 11
  | ASem => f + 8 | ACtx => f + 7 | ABody n => n + 5 | ASetLatest => 4 | ASend => 3 | ASendErr => 3
  | AWgDone => 2 | ASemRel => 1
  | Fin _ => 0
  end.

Definition w_rank (p : wpc) : nat :=
  match p with WNext => 3 | WGot f => f + 12 | WCancel => 2 | WCloseDone => 1 | WEnd => 0 end.
Definition out_rank (o : option nat) : nat := match o with Some f => f + 10 | None => 0 end.
Definition ic_rank (p : icpc) : nat := match p with ICWait => 1 | ICWork => 2 | ICEnd => 0 end.

Fixpoint tsum (f : nat -> option thread) (n : nat) : nat :=
  match n with
  | O => 0
  | S k => tsum f k + match f k with Some th => rank th | None => 0 end
  end.

Definition total (s : st) : nat :=
  tsum (threads s) (next_tid s) + w_rank (w_pc s) + out_rank (out s) + ic_rank (ic_pc s).

Lemma tsum_ext f g n : (forall x, x < n -> f x = g x) -> tsum f n = tsum g n.
Proof.
  induction n as [|n IH]; intro H; cbn; [reflexivity|].
  rewrite IH by (intros; apply H; lia). rewrite H by lia. reflexivity.
Qed.

Lemma tsum_upd f t th th' n :
  t < n -> f t = Some th -> tsum (updt f t th') n + rank th = tsum f n + rank th'.
Proof.
  induction n as [|n IH]; intros Hlt Hf; [lia|]. cbn.
  destruct (Nat.eq_dec t n) as [->|Hne].
  - rewrite updt_same, Hf. rewrite (tsum_ext (updt f n th') f n); [lia|].
    intros x Hx. apply updt_other. lia.
  - rewrite updt_other by lia. specialize (IH ltac:(lia) Hf). lia.
Qed.

Lemma tsum_spawn f th' n : tsum (updt f n th') (S n) = tsum f n + rank th'.
Proof.
  cbn. rewrite updt_same. rewrite (tsum_ext (updt f n th') f n); [reflexivity|].
  intros x Hx. apply updt_other. lia.
Qed.

(* every LDist step makes the distributor's own remaining work smaller *)
Lemma ldist_decreases c c' :
  CInv c -> cstep c LDist = Some c' -> close_rank c' < close_rank c.
Proof.
  intros (ND & A2 & A3 & A4 & A5 & A6 & A7) H. unfold close_rank, dist_rank in *. cbn [cstep] in H.
  destruct (d_pc c) as [|e rest| | |rest|] eqn:Hpc.
  - destruct (in_ev c) as [e|] eqn:Hi.
    + inv_some. csimp. cbn [List.length]. lia.
    + destruct (in_closed c); [|discriminate]. inv_some. csimp. lia.
  - destruct rest as [|l rest].
    + inv_some. csimp. lia.
    + destruct (lst c l); [|discriminate]. destruct (l_in_closed l0); inv_some; csimp; cbn [List.length]; lia.
  - inv_some. csimp. lia.
  - inv_some. csimp. lia.
  - destruct rest as [|l rest].
    + inv_some. csimp. lia.
    + destruct (lst c l); [|discriminate]. destruct (l_in_closed l0); inv_some; csimp; cbn [List.length]; lia.
  - discriminate.
Qed.

(* every internal step decreases (total, distributor rank) lexicographically *)
Theorem internal_step_decreases fx r cap s l s' :
  reach fx r cap s -> int_label l = true -> stepf fx s l = Some s' ->
  total s' < total s \/ (total s' = total s /\ close_rank (co s') < close_rank (co s)).
Proof.
  intros R Hl H.
  destruct (inv1_reach _ _ _ _ R) as (I1 & _).
  pose proof (cinv_reach _ (reach_core _ _ _ _ R)) as CI.
  step_inv H; try discriminate Hl; unfold total; asimp.
  all: try (left;
    match goal with
    | |- context [tsum (updt (threads s) ?t ?th') (next_tid s)] =>
      pose proof (tsum_upd (threads s) t th th' (next_tid s) (I1 _ _ Hth) Hth) as E;
      unfold rank in E; asimp; rewrite Hpc in E; cbn [w_rank out_rank ic_rank]; lia
    end; fail).
  all: try (left; cbn [w_rank out_rank ic_rank]; lia).
Admitted.
