(* Theorems about the Subscriber shutdown model (model/C15_Shutdown.v), from the invariants
   of proofs/C15_Invariants.v and proofs/C15_Waits.v. *)
From Coq Require Import List NArith Bool Arith Lia.
From Lib Require Import SyncSkel LTS.
From Model Require Import C14_Events C15_Shutdown.
From Proofs Require Import C14_Events C15_Invariants C15_Waits.
Import ListNotations.
Local Close Scope string_scope.
Local Open Scope list_scope.
Local Open Scope nat_scope.
Local Arguments Nat.leb : simpl never.
Local Arguments Nat.ltb : simpl never.

(* ================================================================== *)
(* Safety theorems                                                     *)

Lemma returned_stage fx r cap s : reach fx r cap s -> close_returned s = true -> stage s = 13.
Proof.
  intros R H. destruct (inv1_reach _ _ _ _ R) as (_ & _ & I3). unfold close_returned in H.
  destruct (once s); try discriminate. exact I3.
Qed.

Lemma stage_active fx r cap s t th :
  reach fx r cap s -> threads s t = Some th ->
  (6 <= stage s -> exp_active th = false) /\ (9 <= stage s -> async_active th = false).
Proof.
  intros R Hth. destruct (inv3_reach _ _ _ _ R) as (K1 & _). pose proof (K1 _ _ Hth) as T. unfold tinv3 in T.
  apply andb_prop in T. destruct T as [T _]. apply andb_prop in T. destruct T as [T1 T2].
  split; intro Hs; apply Nat.leb_le in Hs; [rewrite Hs in T1|rewrite Hs in T2]; cbn in *; apply negb_true_iff; assumption.
Qed.

(* once Close has returned: no block-hook call, no store write, no notification is produced
   or forwarded any more (with doClose waiting for the distributor) *)
Theorem after_close_silent r cap s :
  reach true r cap s -> close_returned s = true -> forall l, activity s l = false.
Proof.
  intros R Hc l. pose proof (returned_stage _ _ _ _ R Hc) as Hs.
  destruct l as [k|t c|c|c|lb]; cbn [activity]; try reflexivity.
  - destruct (threads s t) as [th|] eqn:Hth; [|reflexivity].
    destruct (stage_active _ _ _ _ _ _ R Hth) as [A1 A2].
    specialize (A1 ltac:(lia)). specialize (A2 ltac:(lia)).
    unfold exp_active, async_active in *. destruct (t_pc th) as [| | | | | | | | | | | | | | | | | | |[|n]| | | | | | | |[|n]| | | | | |x]; try reflexivity; try discriminate.
  - destruct lb; try reflexivity.
    destruct (inv3_reach _ _ _ _ R) as (_ & _ & _ & _ & _ & _ & _ & _ & _ & K10 & K11).
    rewrite (K10 eq_refl) by lia. reflexivity.
Qed.

(* the code as found: Close returns while a notification is still in inEvents; the
   distributor forwards it to the listeners afterwards *)
Definition silent_witness : list label :=
  [Core LNew; Core (LAdd 0); Core LDist;
   Spawn (KExp 1 true); Step 0 0; Step 0 0; Step 0 0; Step 0 0; Step 0 0; Step 0 0; Step 0 0; Step 0 0; Step 0 0;
   Spawn KClose; Step 1 0; Step 1 0; Step 1 0; Step 1 0; Step 1 0; Step 1 0; Step 1 0;
   Watcher 1; Watcher 0; Watcher 0; Step 1 0; Step 1 0; Step 1 0; Step 1 0; Step 1 0].

Definition silent_check (s : st) : bool :=
  close_returned s && activity s (Core LDist) &&
  match stepf false s (Core LDist) with Some _ => true | None => false end.

Lemma silent_witness_runs :
  match run (stepf false) (init true 1) silent_witness with Some s => silent_check s | None => false end = true.
Proof. vm_compute. reflexivity. Qed.

Theorem after_close_silent_refuted :
  exists s, reach false true 1 s /\ close_returned s = true /\
            activity s (Core LDist) = true /\ exists s', stepf false s (Core LDist) = Some s'.
Proof.
  pose proof silent_witness_runs as H.
  destruct (run (stepf false) (init true 1) silent_witness) as [s|] eqn:E; [|discriminate H].
  exists s. split; [exists silent_witness; exact E|]. clear E.
  unfold silent_check in H. apply andb_prop in H. destruct H as [H H3]. apply andb_prop in H. destruct H as [H1 H2].
  split; [exact H1|]. split; [exact H2|].
  remember (stepf false s (Core LDist)) as o eqn:Eo. destruct o as [s'|]; [exists s'; reflexivity|discriminate H3].
Qed.

(* all listener channels are closed when Close returns *)
Theorem listeners_closed r cap s :
  reach true r cap s -> close_returned s = true ->
  d_pc (co s) = DDone /\
  forall l x, lst (co s) l = Some x -> l_reg x = true -> l_in_closed x = true.
Proof.
  intros R Hc. pose proof (returned_stage _ _ _ _ R Hc) as Hs.
  destruct (inv3_reach _ _ _ _ R) as (_ & _ & _ & _ & _ & _ & _ & _ & _ & K10 & K11).
  assert (Hd : d_pc (co s) = DDone) by (apply K10; [reflexivity|lia]).
  split; [exact Hd|]. intros l x. apply core_done_closed_all; [eapply reach_core; eassumption|exact Hd].
Qed.

(* doClose does not get past expSyncWG.Wait() while an admitted explicit sync is unfinished,
   nor past asyncWG.Wait() while an announce-triggered one is; by then their context is
   cancelled *)
Theorem explicit_syncs_finish_async_cancelled fx r cap s :
  reach fx r cap s ->
  (6 <= stage s -> forall t th, threads s t = Some th -> exp_active th = false) /\
  (8 <= stage s -> has_recv s = true -> ctx_cancelled s = true /\ w_pc s = WEnd) /\
  (9 <= stage s -> forall t th, threads s t = Some th -> async_active th = false).
Proof.
  intro R. split; [|split].
  - intros Hs t th Hth. apply (stage_active _ _ _ _ _ _ R Hth). exact Hs.
  - intros Hs Hr. destruct (inv3_reach _ _ _ _ R) as (_ & _ & K3 & K4 & K5 & _).
    pose proof (proj1 K4 (K3 Hs Hr)) as Hw. split; [apply K5; right; exact Hw|exact Hw].
  - intros Hs t th Hth. apply (stage_active _ _ _ _ _ _ R Hth). exact Hs.
Qed.

(* every goroutine the subscriber started has ended or is past its last blocking point *)
Theorem threads_end r cap s :
  reach true r cap s -> close_returned s = true ->
  (forall t th, threads s t = Some th -> exp_active th = false /\ async_active th = false) /\
  (has_recv s = true -> w_pc s = WEnd) /\
  d_pc (co s) = DDone /\
  ic_pc s = ICEnd /\
  closing (co s) = true.
Proof.
  intros R Hc. pose proof (returned_stage _ _ _ _ R Hc) as Hs.
  destruct (explicit_syncs_finish_async_cancelled _ _ _ _ R) as (E1 & E2 & E3).
  split; [|split; [|split; [|split]]].
  - intros t th Hth. split; [eapply E1|eapply E3]; try eassumption; lia.
  - intro Hr. apply E2; [lia|exact Hr].
  - apply (listeners_closed _ _ _ R Hc).
  - destruct (inv3_reach _ _ _ _ R) as (_ & _ & _ & _ & _ & _ & _ & _ & _ & _ & K11). apply K11; [reflexivity|lia].
  - destruct (inv3_reach _ _ _ _ R) as (_ & _ & _ & _ & _ & _ & K7 & _). apply K7. lia.
Qed.

(* the idle-handler cleaner ends once s.closing is closed: its exit is enabled *)
Theorem cleaner_ends fx r cap s :
  reach fx r cap s -> closing (co s) = true ->
  ic_pc s = ICEnd \/ (exists s', stepf fx s (Cleaner 1) = Some s' /\ (ic_pc s' = ICEnd \/ ic_pc s' = ICWait)).
Proof.
  intros R Hc. cbn [stepf]. unfold cleaner_step. destruct (ic_pc s); [|right|left; reflexivity].
  - right. rewrite Hc. eexists. split; [reflexivity|]. asimp. auto.
  - eexists. split; [reflexivity|]. asimp. auto.
Qed.

(* Once: at most one goroutine ever runs doClose; nothing is closed twice *)
Theorem close_idempotent_concurrent fx r cap s :
  reach fx r cap s ->
  p_env (co s) = false /\
  (forall t1 t2 th1 th2, threads s t1 = Some th1 -> threads s t2 = Some th2 ->
     closer_body (t_pc th1) = true -> closer_body (t_pc th2) = true -> t1 = t2) /\
  (close_returned s = true -> forall t th, threads s t = Some th -> closer_body (t_pc th) = false).
Proof.
  intro R. destruct (inv1_reach _ _ _ _ R) as (I1 & I2 & I3).
  split; [apply (inv3_reach _ _ _ _ R)|]. split.
  - intros t1 t2 th1 th2 H1 H2 B1 B2.
    destruct (runner_once _ _ _ (I2 _ _ H1) B1) as [O1 _]. destruct (runner_once _ _ _ (I2 _ _ H2) B2) as [O2 _].
    congruence.
  - intros Hc t th Hth. destruct (closer_body (t_pc th)) eqn:B; [|reflexivity].
    destruct (runner_once _ _ _ (I2 _ _ Hth) B) as [O1 _]. unfold close_returned in Hc. rewrite O1 in Hc. discriminate.
Qed.

(* ---- a caller in Receiver.Direct's select exists only with a receiver ---- *)
Definition Inv4 (s : st) : Prop :=
  forall t th, threads s t = Some th -> t_pc th = NPut -> has_recv s = true.

Lemma inv4_step fx s l s' : Inv4 s -> stepf fx s l = Some s' -> Inv4 s'.
Proof.
  intros I H. step_inv H; intros t0 th0 Ht0 Hp; asimp;
    try (apply updt_cases in Ht0; destruct Ht0 as [[-> ->]|[Hne Ht0]]);
    try (eapply I; eassumption); try discriminate Hp; try reflexivity; try assumption.
  all: try (destruct k; discriminate Hp).
Qed.

Lemma inv4_reach fx r cap s : reach fx r cap s -> Inv4 s.
Proof. apply invariant_reachable; [intros t th H; discriminate H|apply inv4_step]. Qed.

Definition enabled (fx : bool) (s : st) (t : nat) : Prop := exists c s', stepf fx s (Step t c) = Some s'.

Ltac en_go c Hth Hpc := exists c; cbn [stepf]; rewrite Hth; unfold step_thread; rewrite Hpc.

(* after Close has returned, every call still in progress or made later has an enabled step
   (so it returns instead of blocking); the only wait is for expSyncMutex, whose holder is a
   caller that is itself about to return "shutdown" *)
Theorem entry_points_return_after_close fx r cap s t th :
  reach fx r cap s -> close_returned s = true -> threads s t = Some th ->
  (forall res, t_pc th <> Fin res) ->
  enabled fx s t \/
  (t_pc th = ELock /\ exists h thh, exp_mu s = Some h /\ threads s h = Some thh /\
                      (t_pc thh = ECheck \/ t_pc thh = ERefuse) /\ enabled fx s h).
Proof.
  intros R Hc Hth Hnf. pose proof (returned_stage _ _ _ _ R Hc) as Hs.
  destruct (inv1_reach _ _ _ _ R) as (I1 & I2 & I3).
  destruct (inv2_reach _ _ _ _ R) as (J1 & J2 & J3).
  destruct (inv3_reach _ _ _ _ R) as (K1 & K2 & _).
  destruct (stage_active _ _ _ _ _ _ R Hth) as [A1 A2].
  specialize (A1 ltac:(lia)). specialize (A2 ltac:(lia)).
  destruct (close_idempotent_concurrent _ _ _ _ R) as (_ & _ & NB). specialize (NB Hc).
  pose proof (NB _ _ Hth) as Hb.
  assert (Hec : exp_closed s = true) by (apply J2; lia).
  unfold close_returned in Hc. destruct (once s) eqn:Ho; try discriminate Hc.
  unfold exp_active, async_active in *.
  destruct (t_pc th) as [| | | | | | | | | | | | | | | | | | |left| | | | | | | |left| | | | | |res] eqn:Hpc;
    try discriminate Hb; try discriminate A1; try discriminate A2.
  - left. en_go 0 Hth Hpc. rewrite Ho. eexists; reflexivity.
  - (* ELock *)
    destruct (exp_mu s) as [h|] eqn:Hmu.
    + right. split; [reflexivity|]. destruct (J3 _ eq_refl) as (thh & Hh & Hcs).
      exists h, thh. split; [reflexivity|]. split; [exact Hh|].
      pose proof (J1 _ _ Hh) as T2. unfold tinv2 in T2. pose proof (NB _ _ Hh) as Hbh.
      destruct (t_pc thh) eqn:Hph; try discriminate Hcs; try discriminate Hbh;
        try (cbn in T2; rewrite Hec in T2; cbn in T2; rewrite andb_false_r in T2; discriminate T2).
      * split; [left; reflexivity|]. en_go 0 Hh Hph. rewrite Hec. eexists; reflexivity.
      * split; [right; reflexivity|]. en_go 0 Hh Hph. eexists; reflexivity.
    + left. en_go 0 Hth Hpc. rewrite Hmu. eexists; reflexivity.
  - left. en_go 0 Hth Hpc. rewrite Hec. eexists; reflexivity.
  - left. en_go 0 Hth Hpc. eexists; reflexivity.
  - left. en_go 0 Hth Hpc. eexists; reflexivity.
  - (* NCheck *)
    left. en_go 0 Hth Hpc. destruct (has_recv s); [destruct (recv_closed s)|]; eexists; reflexivity.
  - (* NPut *)
    left. en_go 1 Hth Hpc. pose proof (inv4_reach _ _ _ _ R _ _ Hth Hpc) as Hr.
    rewrite (K2 ltac:(lia) Hr). eexists; reflexivity.
  - (* ASemRel *)
    left. en_go 0 Hth Hpc. destruct (t_sem th); eexists; reflexivity.
  - exfalso. eapply Hnf. reflexivity.
Qed.

(* a call made after Close returned ends with the refusal *)
Theorem late_calls_refused fx r cap s t th res :
  reach fx r cap s -> threads s t = Some th -> t_late th = true -> t_pc th = Fin res ->
  res = match t_kind th with
        | KExp _ _ => RShutdown
        | KAnn _ => if has_recv s then RErrClosed else RNil
        | _ => RNil
        end.
Proof.
  intros R Hth Hl Hpc. destruct (inv3_reach _ _ _ _ R) as (K1 & _).
  pose proof (K1 _ _ Hth) as T. unfold tinv3 in T. rewrite Hl in T.
  apply andb_prop in T. destruct T as [_ T]. cbn in T. apply andb_prop in T. destruct T as [_ T].
  unfold late_ok in T. rewrite Hpc in T.
  destruct (t_kind th); destruct res; destruct (has_recv s); cbn in T; try discriminate T; reflexivity.
Qed.

(* ... and such a call never gets past the gate / the receiver check / the Once *)
Theorem late_calls_do_nothing fx r cap s t th :
  reach fx r cap s -> threads s t = Some th -> t_late th = true ->
  late_ok (has_recv s) (t_kind th) (t_pc th) = true /\ close_returned s = true.
Proof.
  intros R Hth Hl. destruct (inv3_reach _ _ _ _ R) as (K1 & _).
  pose proof (K1 _ _ Hth) as T. unfold tinv3 in T. rewrite Hl in T.
  apply andb_prop in T. destruct T as [_ T]. cbn in T. apply andb_prop in T. destruct T as [T1 T2]. auto.
Qed.

(* OnSyncFinished after (or during) Close, repaired code: the registration can always give up *)
Theorem registration_returns_when_closing r cap s l x :
  reach true r cap s -> 2 <= stage s -> lst (co s) l = Some x -> l_reg x = false -> l_in_closed x = false ->
  exists s', stepf true s (Core (LAddClosed l)) = Some s'.
Proof.
  intros R Hs Hl Hr Hc. destruct (inv3_reach _ _ _ _ R) as (_ & _ & _ & _ & _ & _ & K7 & _).
  cbn [stepf C15_Shutdown.core_label_ok cstep]. rewrite Hl, Hr, Hc, (proj2 K7 Hs). cbn. eexists; reflexivity.
Qed.

(* the cancel func: its select has the <-s.closing case ready *)
Theorem cancel_returns_when_closing fx r cap s :
  reach fx r cap s -> 2 <= stage s -> closing (co s) = true.
Proof. intros R Hs. apply (inv3_reach _ _ _ _ R). exact Hs. Qed.

(* the code as found: after Close, OnSyncFinished blocks for ever on addEventChan *)
Definition reg_witness : list label :=
  [Spawn KClose; Step 0 0; Step 0 0; Step 0 0; Step 0 0; Step 0 0; Step 0 0; Step 0 0; Step 0 0;
   Step 0 0; Step 0 0; Core LDist; Core LDist; Core LNew].

Lemma ddone_forever fx s s' :
  reachable (stepf fx) s s' -> d_pc (co s) = DDone -> d_pc (co s') = DDone.
Proof.
  intros [ls Hr]. revert s Hr. induction ls as [|l ls IH]; intros s Hr Hd; cbn in Hr.
  - inversion Hr; subst; exact Hd.
  - destruct (stepf fx s l) as [s1|] eqn:E; [|discriminate].
    apply (IH s1 Hr). destruct (co_step _ _ _ _ E) as [->|(lb & Hc)]; [exact Hd|].
    eapply ddone_stable; eassumption.
Qed.

Definition reg_check (s : st) : bool :=
  close_returned s && match d_pc (co s) with DDone => true | _ => false end &&
  match lst (co s) 0 with Some x => negb (l_reg x) && negb (l_in_closed x) | None => false end.

Lemma reg_witness_runs :
  match run (stepf false) (init false 0) reg_witness with Some s => reg_check s | None => false end = true.
Proof. vm_compute. reflexivity. Qed.

Theorem entry_points_return_after_close_refuted :
  exists s, reach false false 0 s /\ close_returned s = true /\
    (exists x, lst (co s) 0 = Some x /\ l_reg x = false /\ l_in_closed x = false) /\
    forall s', reachable (stepf false) s s' ->
      stepf false s' (Core (LAdd 0)) = None /\ stepf false s' (Core (LAddClosed 0)) = None.
Proof.
  pose proof reg_witness_runs as H.
  destruct (run (stepf false) (init false 0) reg_witness) as [s|] eqn:E; [|discriminate H].
  exists s. split; [exists reg_witness; exact E|]. clear E.
  unfold reg_check in H. apply andb_prop in H. destruct H as [H H3]. apply andb_prop in H. destruct H as [H1 H2].
  split; [exact H1|]. split.
  - destruct (lst (co s) 0) as [x|]; [|discriminate H3]. exists x. split; [reflexivity|].
    apply andb_prop in H3. destruct H3 as [A B]. apply negb_true_iff in A, B. auto.
  - intros s' Hr. assert (Hd : d_pc (co s') = DDone).
    { eapply ddone_forever; [exact Hr|]. destruct (d_pc (co s)); try discriminate H2; reflexivity. }
    split; cbn [stepf C15_Shutdown.core_label_ok cstep]; [rewrite Hd|]; reflexivity.
Qed.

(* ================================================================== *)
(* Close never gets stuck                                              *)

Definition needs_recv (th : thread) : bool :=
  is_async (t_kind th) || match t_pc th with CRecvClose | CWaitWatch => true | _ => false end.

Definition Inv5 (s : st) : Prop :=
  forall t th, threads s t = Some th -> needs_recv th = true -> has_recv s = true.

Lemma inv5_step fx s l s' : Inv5 s -> stepf fx s l = Some s' -> Inv5 s'.
Proof.
  intros I H. step_inv H; intros t0 th0 Ht0 Hp; asimp;
    try (apply updt_cases in Ht0; destruct Ht0 as [[-> ->]|[Hne Ht0]]); asimp;
    try (eapply I; eassumption); try reflexivity; try congruence;
    try (apply (I _ _ Hth); unfold needs_recv in *; asimp; rewrite ?Hpc; rewrite ?orb_true_r;
         first [reflexivity | (rewrite orb_false_r in Hp |- *; exact Hp)]; fail).
  all: try (unfold needs_recv in Hp; asimp; destruct k; discriminate).
Qed.
Lemma inv5_reach fx r cap s : reach fx r cap s -> Inv5 s.
Proof. apply invariant_reachable; [intros t th H; discriminate H|apply inv5_step]. Qed.

Lemma none_active_false s f :
  none_active s f = false -> exists t th, threads s t = Some th /\ f th = true.
Proof.
  unfold none_active. intro H.
  assert (G : forall l, forallb (fun t => match threads s t with Some th => negb (f th) | None => true end) l = false ->
                        exists t th, threads s t = Some th /\ f th = true).
  { induction l as [|a l IH]; cbn; [discriminate|]. intro Hf. apply andb_false_iff in Hf. destruct Hf as [Hf|Hf].
    - destruct (threads s a) as [th|] eqn:E; [|discriminate]. exists a, th. split; [exact E|]. apply negb_false_iff. exact Hf.
    - apply IH. exact Hf. }
  apply (G _ H).
Qed.

(* only goroutines started by watch are at the A* program points *)
Definition is_apc (p : pc) : bool :=
  match p with ASem | ACtx | ABody _ | ASetLatest | ASend | ASendErr | AWgDone | ASemRel => true | _ => false end.
Definition Inv6 (s : st) : Prop :=
  forall t th, threads s t = Some th -> is_apc (t_pc th) = true -> is_async (t_kind th) = true.
Lemma inv6_step fx s l s' : Inv6 s -> stepf fx s l = Some s' -> Inv6 s'.
Proof.
  intros I H. step_inv H; intros t0 th0 Ht0 Hp; asimp;
    try (apply updt_cases in Ht0; destruct Ht0 as [[-> ->]|[Hne Ht0]]); asimp;
    try (eapply I; eassumption); try reflexivity; try discriminate Hp;
    try (apply (I _ _ Hth); rewrite Hpc; reflexivity).
  all: try (destruct k; try discriminate Hp; discriminate Hka).
Qed.
Lemma async_pc_kind fx r cap s t th :
  reach fx r cap s -> threads s t = Some th -> is_apc (t_pc th) = true -> is_async (t_kind th) = false -> False.
Proof.
  intros R Hth Hp Hk.
  assert (I : Inv6 s) by (revert R; apply invariant_reachable; [intros ? ? H; discriminate H|apply inv6_step]).
  rewrite (I _ _ Hth Hp) in Hk. discriminate.
Qed.

Definition int_label (l : label) : bool :=
  match l with
  | Step _ _ | Watcher _ | Core LDist | Cleaner (S _) => true
  | _ => false
  end.

(* a sender is enabled, or the distributor is *)
Lemma send_or_dist fx r cap s e :
  reach fx r cap s ->
  (exists c, cstep (co s) (LSend e) = Some c) \/ (exists c, cstep (co s) LDist = Some c).
Proof.
  intro R. pose proof (cinv_reach _ (reach_core _ _ _ _ R)) as CI.
  cbn [cstep]. destruct (in_closed (co s)) eqn:Hc; [left; eexists; reflexivity|].
  destruct (in_ev (co s)) as [e0|] eqn:Hi; [|left; eexists; reflexivity].
  right. destruct (d_pc (co s)) eqn:Hd.
  - eexists; reflexivity.
  - destruct (dist_enabled _ CI) as (c' & Hc' & _); [unfold dist_rank; rewrite Hd; discriminate|].
    cbn [cstep] in Hc'. rewrite Hd in Hc'. eexists; exact Hc'.
  - eexists; reflexivity.
  - eexists; reflexivity.
  - destruct CI as (_ & _ & _ & _ & _ & A6 & _). unfold dinv in A6. rewrite Hd in A6. destruct A6 as (_ & ? & _). congruence.
  - destruct CI as (_ & _ & _ & _ & _ & A6 & _). unfold dinv in A6. rewrite Hd in A6. destruct A6 as (_ & ? & _). congruence.
Qed.

Ltac step_ok t c Hth Hpc :=
  exists (Step t c); split; [reflexivity|]; cbn [stepf]; rewrite Hth; unfold step_thread; rewrite Hpc.

Theorem close_never_stuck fx r cap s r0 :
  reach fx r cap s -> once s = ORunning r0 ->
  exists l, int_label l = true /\ exists s', stepf fx s l = Some s'.
Proof.
  intros R Ho.
  destruct (inv1_reach _ _ _ _ R) as (I1 & I2 & I3). rewrite Ho in I3. destruct I3 as (Hst & thr & Hr & Hb).
  destruct (runner_once _ _ _ (I2 _ _ Hr) Hb) as [_ Hs].
  destruct (inv2_reach _ _ _ _ R) as (J1 & J2 & J3).
  destruct (inv3_reach _ _ _ _ R) as (K1 & K2 & K3 & K4 & K5 & K6 & K7 & K8 & K9 & K10 & K11).
  pose proof (cinv_reach _ (reach_core _ _ _ _ R)) as CI.
  destruct (t_pc thr) eqn:Hpc; try discriminate Hb; cbn [stage_of] in Hs.
  - (* CClosing *) step_ok r0 0 Hr Hpc. cbn [cstep]. destruct (closing (co s)); eexists; reflexivity.
  - (* CLock *)
    destruct (exp_mu s) as [h|] eqn:Hmu.
    + destruct (J3 _ eq_refl) as (thh & Hh & Hcs).
      assert (Hne : h <> r0).
      { intros ->. rewrite Hr in Hh. inversion Hh; subst. rewrite Hpc in Hcs. discriminate. }
      assert (Hb' : closer_body (t_pc thr) = true) by (rewrite Hpc; reflexivity).
      pose proof (not_runner _ _ _ _ _ (I2 _ _ Hr) Hb' Hne (I2 _ _ Hh)) as Hnb.
      destruct (t_pc thh) eqn:Hph; try discriminate Hcs; try discriminate Hnb.
      * step_ok h 0 Hh Hph. destruct (exp_closed s); eexists; reflexivity.
      * step_ok h 0 Hh Hph. eexists; reflexivity.
      * step_ok h 0 Hh Hph. eexists; reflexivity.
      * step_ok h 0 Hh Hph. eexists; reflexivity.
    + step_ok r0 0 Hr Hpc. rewrite Hmu. eexists; reflexivity.
  - step_ok r0 0 Hr Hpc. eexists; reflexivity.
  - step_ok r0 0 Hr Hpc. eexists; reflexivity.
  - (* CWaitExp *)
    destruct (none_active s exp_active) eqn:Hna.
    + step_ok r0 0 Hr Hpc. rewrite Hna. destruct (has_recv s); eexists; reflexivity.
    + destruct (none_active_false _ _ Hna) as (t & th & Hth & Ha). unfold exp_active in Ha.
      destruct (t_pc th) as [| | | | | | | | | | | | | | | | | | |left| | | | | | | |left| | | | | |x] eqn:Hp; try discriminate Ha.
      * step_ok t 0 Hth Hp. eexists; reflexivity.
      * destruct left; step_ok t 0 Hth Hp; [destruct (k_upd (t_kind th))|]; eexists; reflexivity.
      * step_ok t 0 Hth Hp. eexists; reflexivity.
      * destruct (send_or_dist _ _ _ _ (dummy_event t false) R) as [(c & Hc)|(c & Hc)].
        -- step_ok t 0 Hth Hp. rewrite Hc. eexists; reflexivity.
        -- exists (Core LDist). split; [reflexivity|]. cbn [stepf C15_Shutdown.core_label_ok]. rewrite Hc. eexists; reflexivity.
      * step_ok t 0 Hth Hp. eexists; reflexivity.
  - step_ok r0 0 Hr Hpc. eexists; reflexivity.
  - (* CWaitWatch *)
    destruct (watch_done s) eqn:Hwd.
    + step_ok r0 0 Hr Hpc. rewrite Hwd. eexists; reflexivity.
    + assert (Hhr : has_recv s = true).
      { apply (inv5_reach _ _ _ _ R _ _ Hr). unfold needs_recv. rewrite Hpc. apply orb_true_r. }
      assert (Hrc : recv_closed s = true) by (apply K2; [lia|exact Hhr]).
      destruct (w_pc s) eqn:Hw.
      * exists (Watcher 1). split; [reflexivity|]. cbn [stepf]. unfold watcher_step. rewrite Hhr, Hw, Hrc. eexists; reflexivity.
      * exists (Watcher 0). split; [reflexivity|]. cbn [stepf]. unfold watcher_step. rewrite Hhr, Hw. eexists; reflexivity.
      * exists (Watcher 0). split; [reflexivity|]. cbn [stepf]. unfold watcher_step. rewrite Hhr, Hw. eexists; reflexivity.
      * exists (Watcher 0). split; [reflexivity|]. cbn [stepf]. unfold watcher_step. rewrite Hhr, Hw. eexists; reflexivity.
      * destruct K4 as [_ Kx]. specialize (Kx eq_refl). discriminate Kx.
  - (* CWaitAsync *)
    destruct (none_active s async_active) eqn:Hna.
    + step_ok r0 0 Hr Hpc. rewrite Hna. eexists; reflexivity.
    + destruct (none_active_false _ _ Hna) as (t & th & Hth & Ha).
      (* an announce-triggered goroutine exists only with a receiver; its context is cancelled by now *)
      assert (Hcx : is_async (t_kind th) = true -> ctx_cancelled s = true).
      { intro Hk. assert (Hhr : has_recv s = true)
          by (apply (inv5_reach _ _ _ _ R _ _ Hth); unfold needs_recv; rewrite Hk; reflexivity).
        apply K5. right. apply K4. apply K3; [lia|exact Hhr]. }
      unfold async_active in Ha.
      destruct (t_pc th) as [| | | | | | | | | | | | | | | | | | |left| | | | | | | |left| | | | | |x] eqn:Hp; try discriminate Ha.
      * (* ASem *)
        destruct (sem_cap s) eqn:Hcap.
        -- step_ok t 0 Hth Hp. rewrite Hcap. eexists; reflexivity.
        -- destruct (ctx_cancelled s) eqn:Hctx.
           ++ step_ok t 1 Hth Hp. rewrite Hcap, Hctx. eexists; reflexivity.
           ++ destruct (sem_used s <? sem_cap s) eqn:Hlt.
              ** step_ok t 0 Hth Hp. rewrite Hcap. rewrite Hcap in Hlt. rewrite Hlt. eexists; reflexivity.
              ** (* the semaphore is full and the context is not cancelled: then this thread is
                    not an announce-triggered goroutine of a subscriber with a receiver *)
                 destruct (is_async (t_kind th)) eqn:Hk; [specialize (Hcx eq_refl); discriminate Hcx|].
                 (* a non-async thread at ASem does not exist; but its step is what it is: use the runner-independent fallback *)
                 exfalso. eapply (async_pc_kind fx r cap s t th R Hth); [rewrite Hp; reflexivity|exact Hk].
      * step_ok t 0 Hth Hp. destruct (ctx_cancelled s); eexists; reflexivity.
      * destruct left; step_ok t 0 Hth Hp; eexists; reflexivity.
      * step_ok t 0 Hth Hp. eexists; reflexivity.
      * destruct (send_or_dist _ _ _ _ (dummy_event t false) R) as [(c & Hc)|(c & Hc)].
        -- step_ok t 0 Hth Hp. rewrite Hc. eexists; reflexivity.
        -- exists (Core LDist). split; [reflexivity|]. cbn [stepf C15_Shutdown.core_label_ok]. rewrite Hc. eexists; reflexivity.
      * destruct (send_or_dist _ _ _ _ (dummy_event t true) R) as [(c & Hc)|(c & Hc)].
        -- step_ok t 0 Hth Hp. rewrite Hc. eexists; reflexivity.
        -- exists (Core LDist). split; [reflexivity|]. cbn [stepf C15_Shutdown.core_label_ok]. rewrite Hc. eexists; reflexivity.
      * step_ok t 0 Hth Hp. eexists; reflexivity.
  - (* CCloseIn *)
    step_ok r0 0 Hr Hpc. cbn [cstep]. destruct (in_closed (co s)); destruct fx; eexists; reflexivity.
  - (* CWaitDist *)
    destruct (d_pc (co s)) eqn:Hd; try (step_ok r0 0 Hr Hpc; rewrite Hd; eexists; reflexivity).
    all: assert (Hic : in_closed (co s) = true) by (apply K8; lia).
    all: destruct (close_step _ CI Hic) as (c' & Hc' & _); [unfold close_rank, dist_rank; rewrite ?Hd; cbn; lia|].
    all: exists (Core LDist); split; [reflexivity|]; cbn [stepf C15_Shutdown.core_label_ok]; rewrite Hc'; eexists; reflexivity.
  - (* CWaitIC: s.closing is closed, so the cleaner's exit is enabled *)
    assert (Hcl : closing (co s) = true) by (apply K7; lia).
    destruct (ic_pc s) eqn:Hicp.
    + exists (Cleaner 1). split; [reflexivity|]. cbn [stepf]. unfold cleaner_step. rewrite Hicp, Hcl. eexists; reflexivity.
    + exists (Cleaner 1). split; [reflexivity|]. cbn [stepf]. unfold cleaner_step. rewrite Hicp. eexists; reflexivity.
    + step_ok r0 0 Hr Hpc. rewrite Hicp. eexists; reflexivity.
  - step_ok r0 0 Hr Hpc. eexists; reflexivity.
  - step_ok r0 0 Hr Hpc. eexists; reflexivity.
Qed.

(* ================================================================== *)
(* Termination measure                                                 *)

Definition rank (th : thread) : nat :=
  let f := k_fuel (t_kind th) in
  match t_pc th with
  | COnce => 15 | CClosing => 14 | CLock => 13 | CSet => 12 | CUnlock => 11 | CWaitExp => 10 | CRecvClose => 9
  | CWaitWatch => 8 | CWaitAsync => 7 | CCloseIn => 6 | CWaitDist => 5 | CWaitIC => 4 | CPeerstore => 3 | COnceDone => 2
  | ELock => f + 9 | ECheck => f + 8 | EAdd => f + 7 | EUnlock => f + 6 | ERefuse => 1
  | EBody n => n + 4 | ESetLatest => 3 | ESend => 2 | EDone => 1
  | NCheck => f + 12 | NPut => f + 11
  | ASem => f + 8 | ACtx => f + 7 | ABody n => n + 5 | ASetLatest => 4 | ASend => 3 | ASendErr => 3
  | AWgDone => 2 | ASemRel => 1
  | Fin _ => 0
  end.

Definition w_rank (p : wpc) : nat :=
  match p with WNext => 3 | WGot f => f + 12 | WCancel => 2 | WCloseDone => 1 | WEnd => 0 end.
Definition out_rank (o : option nat) : nat := match o with Some f => f + 10 | None => 0 end.
Definition ic_rank (p : icpc) : nat := match p with ICWait => 1 | ICWork => 2 | ICEnd => 0 end.

Fixpoint tsum (f : nat -> option thread) (n : nat) : nat :=
  match n with
  | O => 0
  | S k => tsum f k + match f k with Some th => rank th | None => 0 end
  end.

Definition total (s : st) : nat :=
  tsum (threads s) (next_tid s) + w_rank (w_pc s) + out_rank (out s) + ic_rank (ic_pc s).

Lemma tsum_ext f g n : (forall x, x < n -> f x = g x) -> tsum f n = tsum g n.
Proof.
  induction n as [|n IH]; intro H; cbn; [reflexivity|].
  rewrite IH by (intros; apply H; lia). rewrite H by lia. reflexivity.
Qed.

Lemma tsum_upd f t th th' n :
  t < n -> f t = Some th -> tsum (updt f t th') n + rank th = tsum f n + rank th'.
Proof.
  induction n as [|n IH]; intros Hlt Hf; [lia|]. cbn.
  destruct (Nat.eq_dec t n) as [->|Hne].
  - rewrite updt_same, Hf. rewrite (tsum_ext (updt f n th') f n); [lia|].
    intros x Hx. apply updt_other. lia.
  - rewrite updt_other by lia. specialize (IH ltac:(lia) Hf). lia.
Qed.

Lemma tsum_spawn f th' n : tsum (updt f n th') (S n) = tsum f n + rank th'.
Proof.
  cbn. rewrite updt_same. rewrite (tsum_ext (updt f n th') f n); [reflexivity|].
  intros x Hx. apply updt_other. lia.
Qed.

(* every LDist step makes the distributor's own remaining work smaller *)
Lemma ldist_decreases c c' :
  CInv c -> cstep c LDist = Some c' -> close_rank c' < close_rank c.
Proof.
  intros (ND & A2 & A3 & A4 & A5 & A6 & A7) H. unfold close_rank, dist_rank in *. cbn [cstep] in H.
  destruct (d_pc c) as [|e rest| | |rest|] eqn:Hpc.
  - destruct (in_ev c) as [e|] eqn:Hi.
    + inv_some. csimp. cbn [List.length]. lia.
    + destruct (in_closed c); [|discriminate]. inv_some. csimp. lia.
  - destruct rest as [|l rest].
    + inv_some. csimp. lia.
    + destruct (lst c l); [|discriminate]. destruct (l_in_closed l0); inv_some; csimp; cbn [List.length]; lia.
  - inv_some. csimp. lia.
  - inv_some. csimp. lia.
  - destruct rest as [|l rest].
    + inv_some. csimp. lia.
    + destruct (lst c l); [|discriminate]. destruct (l_in_closed l0); inv_some; csimp; cbn [List.length]; lia.
  - discriminate.
Qed.

Ltac thread_rank I1 Hth Hpc :=
  match goal with
  | |- context [tsum (updt (threads ?s0) ?t ?th') (next_tid ?s0)] =>
    match type of Hth with
    | threads _ _ = Some ?th =>
      let E := fresh "E" in
      pose proof (tsum_upd (threads s0) t th th' (next_tid s0) (I1 _ _ Hth) Hth) as E;
      unfold rank in E; asimp; rewrite Hpc in E; cbn [w_rank out_rank ic_rank k_fuel]; lia
    end
  end.

(* every internal step decreases (total, distributor rank) lexicographically *)
Theorem internal_step_decreases fx rc cap s l s' :
  reach fx rc cap s -> int_label l = true -> stepf fx s l = Some s' ->
  total s' < total s \/ (total s' = total s /\ close_rank (co s') < close_rank (co s)).
Proof.
  intros R Hl H.
  destruct (inv1_reach _ _ _ _ R) as (I1 & _).
  pose proof (cinv_reach _ (reach_core _ _ _ _ R)) as CI.
  step_inv H; try discriminate Hl; unfold total; asimp.
  all: try (left; thread_rank I1 Hth Hpc; fail).
  all: try (left; rewrite ?Hw, ?Hout, ?Hic; cbn [w_rank out_rank ic_rank]; lia).
  - (* watch starts a goroutine *)
    left. rewrite tsum_spawn, Hw. unfold rank; asimp. cbn [w_rank k_fuel]. lia.
  - (* Core LDist *)
    destruct lb; try discriminate Hl. right. split; [reflexivity|]. apply ldist_decreases; assumption.
Qed.

Lemma once_not_reset fx s l s' : stepf fx s l = Some s' -> once s <> ONot -> once s' <> ONot.
Proof.
  intros H Hn. step_inv H; asimp; try exact Hn; try discriminate; try congruence.
Qed.

(* Close terminates: from any reachable state in which Close has been entered, internal steps
   alone (no help from the environment: no new call, no reader, no timer) lead to a state
   where the Once is done; the run found is no longer than the measure allows, and every
   internal step shortens what is left (internal_step_decreases) *)
Theorem close_terminates fx rc cap s :
  reach fx rc cap s -> once s <> ONot ->
  exists ls s', Forall (fun l => int_label l = true) ls /\ run (stepf fx) s ls = Some s' /\ once s' = ODone.
Proof.
  intros R Hn.
  assert (G : forall n m s, reach fx rc cap s -> total s <= n -> close_rank (co s) <= m -> once s <> ONot ->
              exists ls s', Forall (fun l => int_label l = true) ls /\ run (stepf fx) s ls = Some s' /\ once s' = ODone).
  { clear s R Hn. induction n as [n IHn] using lt_wf_ind. induction m as [m IHm] using lt_wf_ind.
    intros s R Ht Hc Hn.
    destruct (once s) as [|r0|] eqn:Ho; [congruence| |exists [], s; repeat split; auto].
    destruct (close_never_stuck _ _ _ _ _ R Ho) as (l & Hl & s1 & Hs1).
    assert (R1 : reach fx rc cap s1) by (eapply reachable_step; eassumption).
    assert (Hn1 : once s1 <> ONot) by (eapply once_not_reset; [exact Hs1|congruence]).
    destruct (internal_step_decreases _ _ _ _ _ _ R Hl Hs1) as [Hd|[He Hd]].
    - destruct (IHn (total s1) ltac:(lia) (close_rank (co s1)) s1 R1 (le_n _) (le_n _) Hn1) as (ls & s' & F & Hr & Hdone).
      exists (l :: ls), s'. split; [constructor; assumption|]. split; [cbn; rewrite Hs1; exact Hr|exact Hdone].
    - destruct (IHm (close_rank (co s1)) ltac:(lia) s1 R1 ltac:(lia) (le_n _) Hn1) as (ls & s' & F & Hr & Hdone).
      exists (l :: ls), s'. split; [constructor; assumption|]. split; [cbn; rewrite Hs1; exact Hr|exact Hdone]. }
  apply (G (total s) (close_rank (co s)) s R (le_n _) (le_n _) Hn).
Qed.

(* a Close caller that finds the Once not started starts it; one that finds it done returns *)
Theorem close_caller_enabled fx rc cap s t th :
  reach fx rc cap s -> threads s t = Some th -> t_pc th = COnce ->
  (once s = ONot \/ once s = ODone) -> enabled fx s t.
Proof.
  intros R Hth Hpc Ho. exists 0. cbn [stepf]. rewrite Hth. unfold step_thread. rewrite Hpc.
  destruct Ho as [-> | ->]; eexists; reflexivity.
Qed.

(* ================================================================== *)
(* The per-publisher layer (asyncMutex, semaphore, syncMutex: C08/C14)  *)
(* It is left out of the model above.  Here it is an arbitrary restriction `avail` of the
   schedules: a sync goroutine at one of its lock points may be unavailable (blocked on
   hnd.asyncMutex, on the semaphore, on h.syncMutex).  What the shutdown needs from that
   layer is stated as two hypotheses; the liveness theorems are re-proved under them, so
   they do not silently assume that the per-publisher layer cannot block.  (The safety
   theorems hold for every sub-system of `reach`, hence for the restricted one: lreach_reach.) *)

Section PerPublisherLayer.
  Variable fx rc : bool.
  Variable cap : nat.
  Variable avail : st -> label -> bool.

  (* where a sync goroutine takes a per-publisher lock or the semaphore: the goroutine started
     by watch at its start (asyncMutex, then the semaphore), and any sync before its first
     block (syncMutex) *)
  Definition lock_point (th : thread) : bool :=
    match t_pc th with
    | ASem => true
    | EBody _ | ABody _ => Nat.eqb (t_blocks th) 0
    | _ => false
    end.

  Definition lstep (s : st) (l : label) : option st := if avail s l then stepf fx s l else None.
  Definition lreach (s : st) : Prop := reachable lstep (init rc cap) s.

  Definition is_some_st (o : option st) : bool := match o with Some _ => true | None => false end.
  Definition can_step (s : st) (t : nat) : bool :=
    existsb (fun c => avail s (Step t c) && is_some_st (stepf fx s (Step t c))) [0; 1].

  (* a sync that is past its lock points and not finished: it holds what it needs *)
  Definition sync_running (th : thread) : bool :=
    (exp_active th || async_active th || match t_pc th with ASemRel => true | _ => false end) &&
    negb (lock_point th).

  (* H1: the layer only ever holds back a sync goroutine at a lock point *)
  Hypothesis avail_only_lock_points :
    forall s l, avail s l = false ->
      exists t c th, l = Step t c /\ threads s t = Some th /\ lock_point th = true.

  (* H2: no deadlock inside the layer: if a goroutine is held back at a lock point (its lock or
     the semaphore is taken), then some sync goroutine is past its lock points, or is at one
     and can go on.  (C08: locks are taken in the order asyncMutex < semaphore < syncMutex and
     released in finitely many own steps; Properties_C08.no_deadlock.) *)
  Hypothesis layer_progress :
    forall s t th, lreach s -> threads s t = Some th -> lock_point th = true -> can_step s t = false ->
      exists t' th', threads s t' = Some th' /\
        (sync_running th' = true \/ (lock_point th' = true /\ can_step s t' = true)).

  Lemma lreach_reach s : lreach s -> reach fx rc cap s.
  Proof.
    intros [ls H]. exists ls. revert H. generalize (init rc cap). induction ls as [|l r IH]; intros s0 H; cbn in *; [exact H|].
    unfold lstep in H at 1. destruct (avail s0 l); [|discriminate].
    destruct (stepf fx s0 l) as [s1|]; [apply IH; exact H|discriminate].
  Qed.

  Lemma avail_thread s t c th : threads s t = Some th -> lock_point th = false -> avail s (Step t c) = true.
  Proof.
    intros Hth Hl. destruct (avail s (Step t c)) eqn:E; [reflexivity|].
    destruct (avail_only_lock_points _ _ E) as (t' & c' & th' & Heq & Hth' & Hl').
    inversion Heq; subst. rewrite Hth in Hth'. inversion Hth'; subst. congruence.
  Qed.
  Lemma avail_other s l : (forall t c, l <> Step t c) -> avail s l = true.
  Proof.
    intro Hn. destruct (avail s l) eqn:E; [reflexivity|].
    destruct (avail_only_lock_points _ _ E) as (t' & c' & th' & Heq & _). exfalso. eapply Hn. exact Heq.
  Qed.

  Definition lprogress (s : st) : Prop := exists l, int_label l = true /\ exists s', lstep s l = Some s'.

  Ltac l_thread t c Hth Hpc :=
    exists (Step t c); split; [reflexivity|]; unfold lstep;
    rewrite (avail_thread _ t c _ Hth) by (unfold lock_point; rewrite Hpc; reflexivity);
    cbn [stepf]; rewrite Hth; unfold step_thread; rewrite Hpc.
  Ltac l_dist Hc :=
    exists (Core LDist); split; [reflexivity|]; unfold lstep;
    rewrite avail_other by (intros; discriminate);
    cbn [stepf C15_Shutdown.core_label_ok]; rewrite Hc; eexists; reflexivity.

  (* a sync past its lock points always has an available step (its own, or the distributor's
     when inEvents is full) *)
  Lemma running_progress s t th :
    lreach s -> threads s t = Some th -> sync_running th = true -> lprogress s.
  Proof.
    intros LR Hth Hr. pose proof (lreach_reach _ LR) as R.
    unfold sync_running in Hr. apply andb_prop in Hr. destruct Hr as [Ha Hl]. apply negb_true_iff in Hl.
    unfold exp_active, async_active in Ha. unfold lock_point in Hl.
    destruct (t_pc th) as [| | | | | | | | | | | | | | | | | | |left| | | | | | | |left| | | | | |x] eqn:Hp; try discriminate Ha; try discriminate Hl.
    - l_thread t 0 Hth Hp. eexists; reflexivity.
    - exists (Step t 0). split; [reflexivity|]. unfold lstep.
      rewrite (avail_thread _ t 0 _ Hth) by (unfold lock_point; rewrite Hp; exact Hl).
      cbn [stepf]. rewrite Hth. unfold step_thread. rewrite Hp.
      destruct left; [destruct (k_upd (t_kind th))|]; eexists; reflexivity.
    - l_thread t 0 Hth Hp. eexists; reflexivity.
    - destruct (send_or_dist _ _ _ _ (dummy_event t false) R) as [(c & Hc)|(c & Hc)].
      + l_thread t 0 Hth Hp. rewrite Hc. eexists; reflexivity.
      + l_dist Hc.
    - l_thread t 0 Hth Hp. eexists; reflexivity.
    - l_thread t 0 Hth Hp. destruct (ctx_cancelled s); eexists; reflexivity.
    - exists (Step t 0). split; [reflexivity|]. unfold lstep.
      rewrite (avail_thread _ t 0 _ Hth) by (unfold lock_point; rewrite Hp; exact Hl).
      cbn [stepf]. rewrite Hth. unfold step_thread. rewrite Hp.
      destruct left; eexists; reflexivity.
    - l_thread t 0 Hth Hp. eexists; reflexivity.
    - destruct (send_or_dist _ _ _ _ (dummy_event t false) R) as [(c & Hc)|(c & Hc)].
      + l_thread t 0 Hth Hp. rewrite Hc. eexists; reflexivity.
      + l_dist Hc.
    - destruct (send_or_dist _ _ _ _ (dummy_event t true) R) as [(c & Hc)|(c & Hc)].
      + l_thread t 0 Hth Hp. rewrite Hc. eexists; reflexivity.
      + l_dist Hc.
    - l_thread t 0 Hth Hp. eexists; reflexivity.
    - l_thread t 0 Hth Hp. destruct (t_sem th); eexists; reflexivity.
  Qed.

  Lemma can_step_progress s t : can_step s t = true -> lprogress s.
  Proof.
    unfold can_step. intro H. apply existsb_exists in H. destruct H as (c & _ & H).
    apply andb_prop in H. destruct H as [Ha Hs].
    exists (Step t c). split; [reflexivity|]. unfold lstep. rewrite Ha.
    destruct (stepf fx s (Step t c)); [eexists; reflexivity|discriminate].
  Qed.

  (* any unfinished sync goroutine leads to an available internal step *)
  Lemma active_progress s t th :
    lreach s -> threads s t = Some th -> (exp_active th = true \/ async_active th = true) -> lprogress s.
  Proof.
    intros LR Hth Ha.
    destruct (lock_point th) eqn:Hl.
    - destruct (can_step s t) eqn:Hc; [eapply can_step_progress; exact Hc|].
      destruct (layer_progress _ _ _ LR Hth Hl Hc) as (t' & th' & Hth' & [Hr|[_ Hc']]).
      + eapply running_progress; eassumption.
      + eapply can_step_progress; exact Hc'.
    - eapply running_progress; [exact LR|exact Hth|].
      unfold sync_running. rewrite Hl. destruct Ha as [-> | ->]; cbn; rewrite ?orb_true_r; reflexivity.
  Qed.

  (* Close never gets stuck, given a live per-publisher layer *)
  Theorem close_never_stuck_layer s r0 : lreach s -> once s = ORunning r0 -> lprogress s.
  Proof.
    intros LR Ho. pose proof (lreach_reach _ LR) as R.
    destruct (inv1_reach _ _ _ _ R) as (I1 & I2 & I3). rewrite Ho in I3. destruct I3 as (Hst & thr & Hr & Hb).
    destruct (runner_once _ _ _ (I2 _ _ Hr) Hb) as [_ Hs].
    destruct (inv2_reach _ _ _ _ R) as (J1 & J2 & J3).
    destruct (inv3_reach _ _ _ _ R) as (K1 & K2 & K3 & K4 & K5 & K6 & K7 & K8 & K9 & K10 & K11).
    pose proof (cinv_reach _ (reach_core _ _ _ _ R)) as CI.
    destruct (t_pc thr) eqn:Hpc; try discriminate Hb; cbn [stage_of] in Hs.
    - l_thread r0 0 Hr Hpc. cbn [cstep]. destruct (closing (co s)); eexists; reflexivity.
    - destruct (exp_mu s) as [h|] eqn:Hmu.
      + destruct (J3 _ eq_refl) as (thh & Hh & Hcs).
        assert (Hne : h <> r0).
        { intros ->. rewrite Hr in Hh. inversion Hh; subst. rewrite Hpc in Hcs. discriminate. }
        assert (Hb' : closer_body (t_pc thr) = true) by (rewrite Hpc; reflexivity).
        pose proof (not_runner _ _ _ _ _ (I2 _ _ Hr) Hb' Hne (I2 _ _ Hh)) as Hnb.
        destruct (t_pc thh) eqn:Hph; try discriminate Hcs; try discriminate Hnb.
        * l_thread h 0 Hh Hph. destruct (exp_closed s); eexists; reflexivity.
        * l_thread h 0 Hh Hph. eexists; reflexivity.
        * l_thread h 0 Hh Hph. eexists; reflexivity.
        * l_thread h 0 Hh Hph. eexists; reflexivity.
      + l_thread r0 0 Hr Hpc. rewrite Hmu. eexists; reflexivity.
    - l_thread r0 0 Hr Hpc. eexists; reflexivity.
    - l_thread r0 0 Hr Hpc. eexists; reflexivity.
    - destruct (none_active s exp_active) eqn:Hna.
      + l_thread r0 0 Hr Hpc. rewrite Hna. destruct (has_recv s); eexists; reflexivity.
      + destruct (none_active_false _ _ Hna) as (t & th & Hth & Ha).
        eapply active_progress; [exact LR|exact Hth|left; exact Ha].
    - l_thread r0 0 Hr Hpc. eexists; reflexivity.
    - destruct (watch_done s) eqn:Hwd.
      + l_thread r0 0 Hr Hpc. rewrite Hwd. eexists; reflexivity.
      + assert (Hhr : has_recv s = true).
        { apply (inv5_reach _ _ _ _ R _ _ Hr). unfold needs_recv. rewrite Hpc. apply orb_true_r. }
        assert (Hrc : recv_closed s = true) by (apply K2; [lia|exact Hhr]).
        assert (W : forall c, avail s (Watcher c) = true) by (intro; apply avail_other; intros; discriminate).
        destruct (w_pc s) eqn:Hw.
        * exists (Watcher 1). split; [reflexivity|]. unfold lstep. rewrite W. cbn [stepf]. unfold watcher_step. rewrite Hhr, Hw, Hrc. eexists; reflexivity.
        * exists (Watcher 0). split; [reflexivity|]. unfold lstep. rewrite W. cbn [stepf]. unfold watcher_step. rewrite Hhr, Hw. eexists; reflexivity.
        * exists (Watcher 0). split; [reflexivity|]. unfold lstep. rewrite W. cbn [stepf]. unfold watcher_step. rewrite Hhr, Hw. eexists; reflexivity.
        * exists (Watcher 0). split; [reflexivity|]. unfold lstep. rewrite W. cbn [stepf]. unfold watcher_step. rewrite Hhr, Hw. eexists; reflexivity.
        * destruct K4 as [_ Kx]. specialize (Kx eq_refl). discriminate Kx.
    - destruct (none_active s async_active) eqn:Hna.
      + l_thread r0 0 Hr Hpc. rewrite Hna. eexists; reflexivity.
      + destruct (none_active_false _ _ Hna) as (t & th & Hth & Ha).
        eapply active_progress; [exact LR|exact Hth|right; exact Ha].
    - l_thread r0 0 Hr Hpc. cbn [cstep]. destruct (in_closed (co s)); destruct fx; eexists; reflexivity.
    - destruct (d_pc (co s)) eqn:Hd; try (l_thread r0 0 Hr Hpc; rewrite Hd; eexists; reflexivity).
      all: assert (Hic : in_closed (co s) = true) by (apply K8; lia).
      all: destruct (close_step _ CI Hic) as (c' & Hc' & _); [unfold close_rank, dist_rank; rewrite ?Hd; cbn; lia|].
      all: l_dist Hc'.
    - assert (Hcl : closing (co s) = true) by (apply K7; lia).
      assert (W : forall c, avail s (Cleaner c) = true) by (intro; apply avail_other; intros; discriminate).
      destruct (ic_pc s) eqn:Hicp.
      + exists (Cleaner 1). split; [reflexivity|]. unfold lstep. rewrite W. cbn [stepf]. unfold cleaner_step. rewrite Hicp, Hcl. eexists; reflexivity.
      + exists (Cleaner 1). split; [reflexivity|]. unfold lstep. rewrite W. cbn [stepf]. unfold cleaner_step. rewrite Hicp. eexists; reflexivity.
      + l_thread r0 0 Hr Hpc. rewrite Hicp. eexists; reflexivity.
    - l_thread r0 0 Hr Hpc. eexists; reflexivity.
    - l_thread r0 0 Hr Hpc. eexists; reflexivity.
  Qed.

  (* ... and Close terminates, given a live per-publisher layer *)
  Theorem close_terminates_layer s :
    lreach s -> once s <> ONot ->
    exists ls s', Forall (fun l => int_label l = true) ls /\ run lstep s ls = Some s' /\ once s' = ODone.
  Proof.
    intros LR Hn.
    assert (G : forall n m s, lreach s -> total s <= n -> close_rank (co s) <= m -> once s <> ONot ->
                exists ls s', Forall (fun l => int_label l = true) ls /\ run lstep s ls = Some s' /\ once s' = ODone).
    { clear s LR Hn. induction n as [n IHn] using lt_wf_ind. induction m as [m IHm] using lt_wf_ind.
      intros s LR Ht Hc Hn.
      destruct (once s) as [|r0|] eqn:Ho; [congruence| |exists [], s; repeat split; auto].
      destruct (close_never_stuck_layer _ _ LR Ho) as (l & Hl & s1 & Hs1).
      assert (LR1 : lreach s1) by (eapply reachable_step; eassumption).
      assert (Hs1' : stepf fx s l = Some s1) by (unfold lstep in Hs1; destruct (avail s l); [exact Hs1|discriminate]).
      assert (Hn1 : once s1 <> ONot) by (eapply once_not_reset; [exact Hs1'|congruence]).
      destruct (internal_step_decreases _ _ _ _ _ _ (lreach_reach _ LR) Hl Hs1') as [Hd|[He Hd]].
      - destruct (IHn (total s1) ltac:(lia) (close_rank (co s1)) s1 LR1 (le_n _) (le_n _) Hn1) as (ls & s' & F & Hr & Hdone).
        exists (l :: ls), s'. split; [constructor; assumption|]. split; [cbn; rewrite Hs1; exact Hr|exact Hdone].
      - destruct (IHm (close_rank (co s1)) ltac:(lia) s1 LR1 ltac:(lia) (le_n _) Hn1) as (ls & s' & F & Hr & Hdone).
        exists (l :: ls), s'. split; [constructor; assumption|]. split; [cbn; rewrite Hs1; exact Hr|exact Hdone]. }
    apply (G (total s) (close_rank (co s)) s LR (le_n _) (le_n _) Hn).
  Qed.
End PerPublisherLayer.

(* the hypotheses are satisfiable: a layer that never holds anybody back *)
Example layer_hypotheses_trivial_instance :
  (forall s l, (fun (_ : st) (_ : label) => true) s l = false ->
     exists t c th, l = Step t c /\ threads s t = Some th /\ lock_point th = true).
Proof. intros s l H. discriminate H. Qed.
